(* CpuLemmas.v — infrastructure for the per-opcode proofs: one instruction of the CPU model, from an instruction
   boundary, against the documented semantics (Sm83Spec.spec_instr), over an abstract bus. *)
From V.lib Require Import Bits.
From V.model Require Import Uop Alu Cpu.
From V.spec Require Import Sm83Spec.
From V.proofs Require Import AluProofs.
From Coq Require Import ZArith ZifyN ZifyBool.

Lemma sub16_1 x : sub16 x 1 = dec16 x.
Proof. unfold sub16, dec16. change (1 mod 65536) with 1. f_equal. lia. Qed.

Lemma lor_hi_lo hi lo : lo < 256 -> N.lor (hi * 256) lo = hi * 256 + lo.
Proof.
  intros Hlo.
  assert (E : N.land (hi * 256) lo = 0).
  { apply N.bits_inj_0. intros n. rewrite N.land_spec.
    destruct (N.ltb_spec n 8) as [Hn|Hn].
    - replace (hi * 256) with (hi * 2 ^ 8) by reflexivity. rewrite N.mul_pow2_bits_low by exact Hn. reflexivity.
    - rewrite (N.bits_above_log2 lo n); [apply andb_false_r|].
      destruct (N.eq_dec lo 0) as [->|Hz]; [cbn; lia|].
      apply N.log2_lt_pow2; [lia|]. apply N.lt_le_trans with (2 ^ 8); [exact Hlo|]. apply N.pow_le_mono_r; lia. }
  rewrite <- N.lxor_lor by exact E. symmetry. apply N.add_nocarry_lxor. exact E.
Qed.

Lemma bit_test_ok n r f : n < 8 -> r < 256 -> wf_f f ->
  bit_test n r f = pack (negb (N.testbit r n)) false true (fc f).
Proof. intros; apply bit_ops_ok; assumption. Qed.
Lemma bit_res_ok n r : n < 8 -> r < 256 -> bit_res n r = (if N.testbit r n then r - 2 ^ n else r).
Proof. intros Hn Hr. apply (bit_ops_ok n r 0 Hn Hr). split; reflexivity. Qed.
Lemma bit_set_ok n r : n < 8 -> r < 256 -> bit_set n r = (if N.testbit r n then r else r + 2 ^ n).
Proof. intros Hn Hr. apply (bit_ops_ok n r 0 Hn Hr). split; reflexivity. Qed.

Section CpuStep.
  Variable T : tables.
  Variable B : Type.
  Variable brd : B -> N -> B * N.
  Variable bwr : B -> N -> N -> B.
  Variable btrig : B -> N -> B.
  Variable bcorrupt : B -> B.
  Variable bime : B -> bool.
  Variable bset_ime : B -> bool -> B.
  Variable bpending : B -> N.
  Variable back : B -> N -> B.
  (* the OAM-bug hooks are inert (LCD off, or pointers outside FE00-FEFF); C17 is about the other case *)
  Hypothesis Htrig : forall b a, btrig b a = b.
  Hypothesis Hcor : forall b, bcorrupt b = b.

  Notation mcycle := (cycle T B brd bwr btrig bcorrupt bime bset_ime bpending back).
  Notation mexec := (exec B brd bwr btrig bime bset_ime bpending back).
  Notation mfetch := (fetch T B brd).

  (* run one instruction: the first machine cycle, then cycles until the next boundary (at most six in all) *)
  Definition step_if (r : cpu * B * nat) : cpu * B * nat :=
    if is_finished (fst (fst r)) then r else (mcycle (fst r), S (snd r)).
  Definition run_instr (s : cpu) (b : B) : cpu * B * nat :=
    step_if (step_if (step_if (step_if (step_if (step_if (mcycle (s, b), 1%nat)))))).

  Definition arch_of (s : cpu) : arch :=
    mkArch (ra s) (rb s) (rc s) (rd s) (re s) (rh s) (rl s) (rf s) (sp s) (pc s)
           (halted s) (haltbug s) (stopped s) (eip s).

  (* an instruction boundary at which an instruction (not an interrupt dispatch) starts *)
  Definition starts (s : cpu) (b : B) : Prop :=
    is_finished s = true /\ fault s = None /\ halted s = false /\ stopped s = false /\
    fst (check_interrupts T B bime bpending s b) = None.

  (* a pending EI is committed after the dispatch decision and before the opcode fetch *)
  Definition commit (s : cpu) (b : B) : B := if eip s then bset_ime b true else b.

  Definition wf (s : cpu) : Prop :=
    ra s < 256 /\ rb s < 256 /\ rc s < 256 /\ rd s < 256 /\ re s < 256 /\ rh s < 256 /\ rl s < 256 /\
    wf_f (rf s) /\ sp s < 65536 /\ pc s < 65536.
  Definition byte_bus : Prop := forall b a, snd (brd b a) < 256.

  (* the model's ghost trace (newest first, with operand fetches) in the specification's format *)
  Definition dtrace_of (t : list access) : list daccess :=
    fold_left (fun acc e =>
      match e with
      | (i, ARead, a) => (N.of_nat (S i), DRead, a) :: acc
      | (i, AWrite, a) => (N.of_nat (S i), DWrite, a) :: acc
      | (_, AFetch, _) => acc
      end) t [].

  Definition agrees (r : cpu * B * nat) (o : outcome B) : Prop :=
    arch_of (fst (fst r)) = fst (fst (fst o)) /\ snd (fst r) = snd (fst (fst o)) /\
    dtrace_of (trace (fst (fst r))) = snd (fst o) /\ N.of_nat (snd r) = snd o /\
    is_finished (fst (fst r)) = true /\ fault (fst (fst r)) = None.

  Lemma check_none s b : fst (check_interrupts T B bime bpending s b) = None -> halted s = false ->
    check_interrupts T B bime bpending s b = (None, s).
  Proof.
    unfold check_interrupts. intros H Hh. rewrite Hh in *.
    destruct (bpending b =? 0); [reflexivity|]. destruct (bime b); [discriminate H|reflexivity].
  Qed.

  (* a machine cycle in the middle of an instruction *)
  Lemma cycle_mid s b u : fault s = None -> is_finished s = false -> nth_error (cur s) (cyc s) = Some u ->
    mcycle (s, b) = (set_cyc (S (cyc (fst (mexec u s b)))) (fst (mexec u s b)), snd (mexec u s b)).
  Proof.
    intros Hf Hn Hu. unfold cycle. cbn [fst snd]. rewrite Hf, Hn. cbn [fst snd]. rewrite Hu, Hcor. reflexivity.
  Qed.

  (* the first machine cycle of an instruction *)
  Lemma cycle_start s b u : starts s b ->
    nth_error (cur (fst (mfetch (set_eip false s) (commit s b)))) 0 = Some u ->
    cyc (fst (mfetch (set_eip false s) (commit s b))) = 0%nat ->
    mcycle (s, b) =
      (set_cyc (S (cyc (fst (mexec u (fst (mfetch (set_eip false s) (commit s b))) (snd (mfetch (set_eip false s) (commit s b)))))))
               (fst (mexec u (fst (mfetch (set_eip false s) (commit s b))) (snd (mfetch (set_eip false s) (commit s b))))),
       snd (mexec u (fst (mfetch (set_eip false s) (commit s b))) (snd (mfetch (set_eip false s) (commit s b))))).
  Proof.
    intros (Hfin & Hf & Hh & Hst & Hci) Hu Hc.
    unfold cycle. cbn [fst snd]. rewrite Hf, Hfin. unfold next.
    rewrite (check_none s b Hci Hh). cbn [fst snd]. fold (commit s b).
    assert (E: halted (set_eip false s) || stopped (set_eip false s) = false) by (destruct s; cbn in *; rewrite Hh, Hst; reflexivity).
    rewrite E. cbn [fst snd]. rewrite Hc in *. rewrite Hu, Hcor. reflexivity.
  Qed.

  (* the statement proved per opcode: from any well-formed boundary state at which an instruction starts, whose
     opcode byte is [op] (and, on the CB page, whose second byte is [op2]), running the model to the next boundary
     agrees with the documented semantics in architectural state, bus, data accesses with their cycles, and cycle count *)
  Definition op_ok (op : N) : Prop :=
    forall s b, starts s b -> wf s -> byte_bus -> snd (brd (commit s b) (pc s)) = op ->
      agrees (run_instr s b) (spec_instr B brd bwr bset_ime bime bpending (arch_of (set_eip false s)) (commit s b)).

  Definition cb_ok (op2 : N) : Prop :=
    forall s b, starts s b -> wf s -> byte_bus -> snd (brd (commit s b) (pc s)) = 203 ->
      snd (brd (fst (brd (commit s b) (pc s))) (add16 (pc s) 1)) = op2 ->
      agrees (run_instr s b) (spec_instr B brd bwr bset_ime bime bpending (arch_of (set_eip false s)) (commit s b)).
End CpuStep.
