(* OamBugSys.v — C17 on the whole machine: the OAM-corruption window is open exactly when the LCD is on and in mode 2,
   at every point of every run; and the OAM bytes change only through CPU writes to FE00-FE9F, DMA ticks, or — with
   the window open — the corruption patterns. *)
From Coq Require Import FMapPositive.
From V.lib Require Import Bits Mem Res.
From V.model Require Import Uop Alu Cpu CpuTables Ints Joypad Timer Rtc Cart Oam PpuTiming Apu MapperTypes System.
From V.gen Require Import GenMapper GenFrame GenDispatch.
From V.spec Require LcdSpec.
From V.proofs Require Import SafeLemmas SafeApu SafeOam SafeCart SafeBus SafeCpu SafeSys CartSafe DmaProofs LcdLemmas LcdProofs OamProofs.
From Coq Require Import ZArith ZifyN ZifyNat ZifyBool.

(* ---------------- 1. the window ---------------- *)
Theorem bus_inv_corrupt_iff s : bus_inv s ->
  (o_corrupt (s_oam s) = true <-> p_enabled (s_ppu s) = true /\ p_mode (s_ppu s) = 2).
Proof.
  intros H. destruct (BI_lcd _ H) as (a & HR & HW).
  pose proof (W_corrupt _ _ HW) as E1. pose proof (R_en _ _ HR) as E2. pose proof (R_mode _ _ HR) as E3.
  cbn [fst snd] in E1, E2, E3. rewrite E1, E2, E3.
  destruct (LcdSpec.on a); cbn [andb].
  - split; [intros X; split; [reflexivity|apply N.eqb_eq; exact X] | intros [_ X]; apply N.eqb_eq; exact X].
  - split; [discriminate|intros [X _]; discriminate].
Qed.

Corollary lcd_off_window_closed_sys s : bus_inv s -> p_enabled (s_ppu s) = false -> o_corrupt (s_oam s) = false.
Proof.
  intros H Hoff. destruct (o_corrupt (s_oam s)) eqn:E; [|reflexivity].
  apply (bus_inv_corrupt_iff s H) in E. destruct E as [E _]. congruence.
Qed.

(* the machine states of a run from power-on *)
Inductive reachable (cs0 : cpu * sys) : cpu * sys -> Prop :=
| reach_start : reachable cs0 cs0
| reach_cycle cs cs' : reachable cs0 cs -> sys_cycle cs = Ok cs' -> reachable cs0 cs'.

Lemma reachable_safe cs0 cs : Fresh cs0 -> reachable cs0 cs -> cs = cs0 \/ Safe cs.
Proof.
  intros HF HR. induction HR as [|cs cs' HR IH E]; [left; reflexivity|].
  right. destruct IH as [-> | HS].
  - destruct (first_cycle_safe cs0 HF) as [(cs2 & E2 & HS2)|(E2 & _)]; congruence.
  - destruct (sys_cycle_safe cs HS) as [(cs2 & E2 & HS2)|(E2 & _)]; congruence.
Qed.

Lemma reachable_bus_inv cs0 cs : Fresh cs0 -> reachable cs0 cs -> bus_inv (snd cs).
Proof.
  intros HF HR. destruct (reachable_safe cs0 cs HF HR) as [-> | HS].
  - apply HF.
  - apply HS.
Qed.

(* ---------------- 2. hardware steps and the OAM bytes ---------------- *)
Lemma same_engine_trans a b c : same_engine a b -> same_engine b c -> same_engine a c.
Proof. unfold same_engine. intros (?&?&?&?&?&?) (?&?&?&?&?&?). repeat split; congruence. Qed.

Lemma s_oam_set_oam o s : s_oam (set_oam o s) = o. Proof. destruct s; reflexivity. Qed.

Lemma sys_ppu_tick_engine s s' : bus_inv s -> sys_ppu_tick s = Ok s' -> same_engine (s_oam s) (s_oam s').
Proof.
  intros H E. destruct (BI_lcd _ H) as (a & HR & HW). unfold sys_ppu_tick in E.
  destruct (LcdSpec.on a) eqn:Hon.
  - destruct (tick_on _ a HR Hon) as (ovl & Ht & _). cbn [fst snd] in Ht. rewrite Ht in E. cbn [bind] in E.
    set (o1 := tick_oam (s_ppu s) (s_oam s)) in *.
    assert (E1 : same_engine (s_oam s) o1) by apply tick_oam_engine.
    match type of E with (if ?c then _ else _) = _ => destruct c end.
    + match type of E with (if ?c then _ else _) = _ => destruct c end.
      * match type of E with bind ?e _ = _ => destruct e as [fr| |] end; cbn [bind] in E; try discriminate E.
        inversion E; subst s'; clear E.
        assert (X : forall f o2 x, s_oam (set_frame f (set_oam o2 x)) = o2) by (intros f o2 x; destruct x; reflexivity).
        rewrite X. destruct (snd fr); [eapply same_engine_trans; [exact E1|apply se_pla]|exact E1].
      * inversion E; subst s'. assert (X : forall i p x, s_oam (set_ints i (set_oam o1 (set_ppu p x))) = o1) by (intros i p x; destruct x; reflexivity).
        rewrite X. exact E1.
    + inversion E; subst s'. assert (X : forall i p x, s_oam (set_ints i (set_oam o1 (set_ppu p x))) = o1) by (intros i p x; destruct x; reflexivity).
      rewrite X. exact E1.
  - pose proof (tick_off _ a HR Hon) as Ht. cbn [fst snd] in Ht. rewrite Ht in E. cbn [bind] in E.
    pose proof (R_en _ _ HR) as En. cbn [fst] in En. rewrite En, Hon in E. cbn [andb] in E.
    inversion E; subst s'. destruct s; cbn. apply se_refl.
Qed.

(* what a DMA tick writes: the byte fetched in the previous cycle goes to cell (cycle - 2) *)
Definition dma_writes (o : oam) (i : N) : Prop :=
  o_dmaRunning o = true /\ 2 <= o_dmaCycle o /\ i = (if o_dmaCycle o =? 161 then 159 else o_dmaCycle o - 2).

Lemma oam_tick_dma_mem rd o o' : oam_tick_dma rd o = Ok o' -> dma_ok o ->
  forall i, Mem.get (o_mem o') i <> Mem.get (o_mem o) i -> dma_writes o i.
Proof.
  intros E D i Hi. unfold oam_tick_dma in E. unfold dma_writes.
  destruct (o_dmaRunning o) eqn:R; [|inversion E; subst; congruence].
  pose proof (D R) as D'.
  destruct (o_dmaCycle o =? 0) eqn:E0; [inversion E; subst; cbn in Hi; congruence|].
  destruct (o_dmaCycle o =? 1) eqn:E1; [inversion E; subst; cbn in Hi; congruence|].
  destruct (o_dmaCycle o =? 161) eqn:E2.
  - unfold put8, oam_size in E. cbn [N.ltb N.compare Pos.compare Pos.compare_cont bind] in E. inversion E; subst; clear E.
    cbn in Hi. rewrite Mem.gsspec in Hi. destruct (159 =? i) eqn:X; [|congruence].
    split; [reflexivity|]. split; lia.
  - unfold put8, oam_size in E. destruct (sub16 (o_dmaCycle o) 2 <? 160) eqn:X2; cbn [bind] in E; [|discriminate E].
    inversion E; subst; clear E. cbn in Hi. rewrite Mem.gsspec in Hi.
    destruct (sub16 (o_dmaCycle o) 2 =? i) eqn:X; [|congruence].
    split; [reflexivity|]. unfold sub16 in X. split; lia.
Qed.

Lemma mapper_end_shape : mapper_end_cycle = [MTickDMA; MTickRTC]. Proof. reflexivity. Qed.

Lemma sys_mapper_end_mem s s' : bus_inv s -> sys_mapper_end s = Ok s' ->
  forall i, Mem.get (o_mem (s_oam s')) i <> Mem.get (o_mem (s_oam s)) i -> dma_writes (s_oam s) i.
Proof.
  intros H E i Hi. unfold sys_mapper_end in E. rewrite mapper_end_shape in E. cbn [fold_left bind sys_mapper_step] in E.
  assert (S1 : match dma_source (s_oam s) with
               | Some a => do r <- sys_read s a; Ok (fst r)
               | None => Ok s
               end = Ok s).
  { destruct (dma_source (s_oam s)) as [a|] eqn:Ed; [|reflexivity].
    destruct (sys_read_safe s a H (dma_source_lt _ _ (BI_oam _ H) Ed)) as (s2 & v & Er & _ & _ & _ & Pure).
    rewrite Er. cbn [bind fst]. rewrite Pure; [reflexivity|]. pose proof (dma_source_low _ _ (BI_oam _ H) Ed). lia. }
  rewrite S1 in E. cbn [bind] in E.
  match type of E with bind (bind ?e _) _ = _ => destruct e as [o'| |] eqn:Eo end; cbn [bind] in E; try discriminate E.
  injection E as <-.
  assert (X : forall c x, s_oam (set_cart c x) = s_oam x) by (intros c x; destruct x; reflexivity).
  rewrite X, s_oam_set_oam in Hi. eapply oam_tick_dma_mem; [exact Eo|apply (OI_dma _ (BI_oam _ H))|exact Hi].
Qed.

(* ---------------- 3. the CPU's machine cycle with the window closed ---------------- *)
Definition mem_frame (m0 : Mem.t) (Wok : N -> Prop) (s : sys) : Prop :=
  forall i, i < 160 -> ~ Wok (0xFE00 + i) -> Mem.get (o_mem (s_oam s)) i = Mem.get m0 i.

(* window closed throughout: the OAM bytes change only at written addresses *)
Definition Pc (m0 : Mem.t) (Wok : N -> Prop) (s : sys) : Prop :=
  bus_inv s /\ s_crash s = None /\ pla_in_oam (s_oam s) /\ flags_off (s_oam s) /\ o_corrupt (s_oam s) = false /\
  mem_frame m0 Wok s.
(* no address in FE00-FEFF on the bus (the window may open: LCDC may be written): the OAM bytes do not change *)
Definition Pl (m0 : Mem.t) (s : sys) : Prop :=
  bus_inv s /\ s_crash s = None /\ pla_in_oam (s_oam s) /\ flags_off (s_oam s) /\ mem_frame m0 (fun _ => False) s.

Definition not_oam (a : N) : Prop := ~ (0xFE00 <= a /\ a <= 0xFEFF).

Section Closed.
  Variable m0 : Mem.t.
  Variable Wok : N -> Prop.
  Definition Awc (a : N) : Prop := a <> 0xFF40 /\ Wok a.

  Lemma pc_rd s a : Pc m0 Wok s -> a < 65536 -> TrueA a -> Pc m0 Wok (fst (bus_rd s a)) /\ snd (bus_rd s a) < 256.
  Proof.
    intros (H & Hc & Hp & (F1 & F2 & F3) & Hcl & Hm) Ha _. unfold bus_rd. rewrite Hc.
    destruct (sys_read_safe s a H Ha) as (s' & v & -> & Hv & H' & (o' & -> & (M & _) & E1 & E2 & E3 & E4 & E5) & _).
    cbn [fst snd]. split; [|exact Hv]. unfold Pc, mem_frame. rewrite s_oam_set_oam.
    split; [exact H'|]. split; [destruct s; exact Hc|].
    split; [unfold pla_in_oam; rewrite E2; exact Hp|].
    split; [unfold flags_off; rewrite (E5 Hcl), E3, E4; auto|].
    split; [congruence|]. intros i Hi Hw. rewrite M. apply Hm; assumption.
  Qed.

  Lemma pc_wr s a v : Pc m0 Wok s -> a < 65536 -> Awc a -> v < 256 -> Pc m0 Wok (bus_wr s a v).
  Proof.
    intros (H & Hc & Hp & (F1 & F2 & F3) & Hcl & Hm) Ha [A1 A2] Hv. unfold bus_wr. rewrite Hc.
    destruct (sys_write_safe s a v H Ha Hv) as (s' & E & H'). rewrite E.
    destruct (sys_write_frame s a v s' Ha E) as [W1 W2 _ _ _ W6 W7 W8]. destruct (W8 Hcl) as (G1 & G2 & G3).
    split; [exact H'|]. split; [congruence|]. split; [unfold pla_in_oam; rewrite W2; exact Hp|].
    split; [unfold flags_off; repeat split; congruence|]. split; [rewrite (W6 A1); exact Hcl|].
    intros i Hi Hw. rewrite W7; [apply Hm; assumption|]. intros X. apply Hw. rewrite X. exact A2.
  Qed.

  Lemma closed_trig s a : o_corrupt (s_oam s) = false -> bus_trig s a = s.
  Proof. intros Hcl. unfold bus_trig. rewrite (trigger_keeps_flags _ a Hcl). apply set_oam_same. Qed.

  Lemma pc_trig s a : Pc m0 Wok s -> a < 65536 -> TrueA a -> Pc m0 Wok (bus_trig s a).
  Proof. intros HP _ _. rewrite closed_trig; [exact HP|apply HP]. Qed.

  Lemma pc_ime s v : Pc m0 Wok s -> Pc m0 Wok (bus_set_ime s v).
  Proof. intros (H & R). split; [apply bus_set_ime_inv, H|]. destruct s; exact R. Qed.
  Lemma pc_ack s n : Pc m0 Wok s -> Pc m0 Wok (bus_ack s n).
  Proof. intros (H & R). split; [apply bus_ack_inv, H|]. destruct s; exact R. Qed.
  Lemma pc_cor s : Pc m0 Wok s -> Pc m0 Wok (bus_corrupt s).
  Proof.
    intros HP. pose proof HP as (H & Hc & Hp & (F1 & F2 & F3) & _). unfold bus_corrupt. rewrite Hc.
    rewrite (oam_corrupt_idle _ F1 F2), set_oam_same. exact HP.
  Qed.
End Closed.

Section NoOam.
  Variable m0 : Mem.t.

  Lemma pl_rd s a : Pl m0 s -> a < 65536 -> not_oam a -> Pl m0 (fst (bus_rd s a)) /\ snd (bus_rd s a) < 256.
  Proof.
    intros HP Ha A1. pose proof HP as (H & Hc & _). unfold bus_rd. rewrite Hc.
    destruct (sys_read_safe s a H Ha) as (s' & v & -> & Hv & _ & _ & Pure). cbn [fst snd].
    rewrite (Pure A1). split; [exact HP|exact Hv].
  Qed.

  Lemma pl_wr s a v : Pl m0 s -> a < 65536 -> not_oam a -> v < 256 -> Pl m0 (bus_wr s a v).
  Proof.
    intros (H & Hc & Hp & (F1 & F2 & F3) & Hm) Ha A1 Hv. unfold bus_wr. rewrite Hc.
    destruct (sys_write_safe s a v H Ha Hv) as (s' & E & H'). rewrite E.
    destruct (sys_write_frame s a v s' Ha E) as [W1 W2 _ W4 _ _ W7 _]. destruct (W4 A1) as (G1 & G2 & G3).
    split; [exact H'|]. split; [congruence|]. split; [unfold pla_in_oam; rewrite W2; exact Hp|].
    split; [unfold flags_off; repeat split; congruence|].
    intros i Hi Hw. rewrite W7; [apply Hm; assumption|]. intros X. apply A1. change 0xFE00 with 65024 in *. change 0xFEFF with 65279. lia.
  Qed.

  Lemma pl_trig s a : Pl m0 s -> a < 65536 -> not_oam a -> Pl m0 (bus_trig s a).
  Proof.
    intros HP _ A1. unfold bus_trig.
    assert (E : oam_trigger_write_corruption (s_oam s) a = s_oam s).
    { unfold oam_trigger_write_corruption.
      assert (X : negb (o_corrupt (s_oam s)) || (a <? 0xFE00) || (0xFEFF <? a) = true).
      { unfold not_oam in A1. change 0xFE00 with 65024 in *. change 0xFEFF with 65279 in *.
        destruct (o_corrupt (s_oam s)); cbn [negb orb]; lia. }
      rewrite X. reflexivity. }
    rewrite E, set_oam_same. exact HP.
  Qed.

  Lemma pl_ime s v : Pl m0 s -> Pl m0 (bus_set_ime s v).
  Proof. intros (H & R). split; [apply bus_set_ime_inv, H|]. destruct s; exact R. Qed.
  Lemma pl_ack s n : Pl m0 s -> Pl m0 (bus_ack s n).
  Proof. intros (H & R). split; [apply bus_ack_inv, H|]. destruct s; exact R. Qed.
  Lemma pl_cor s : Pl m0 s -> Pl m0 (bus_corrupt s).
  Proof.
    intros HP. pose proof HP as (H & Hc & Hp & (F1 & F2 & F3) & _). unfold bus_corrupt. rewrite Hc.
    rewrite (oam_corrupt_idle _ F1 F2), set_oam_same. exact HP.
  Qed.
End NoOam.

(* the addresses of one micro-operation are adjacent: one that writes LCDC has no address in FE00-FEFF *)
Lemma lcdc_writer_no_oam u s : rwf s -> In 0xFF40 (uop_waddrs u s) -> forall a, In a (uop_addrs u s) -> not_oam a.
Proof.
  intros Hs Hw a Ha. destruct Hs as (_ & _ & _ & _ & _ & _ & _ & _ & Hsp & _).
  unfold not_oam. change 0xFE00 with 65024. change 0xFEFF with 65279. change 0xFF40 with 65344 in Hw.
  destruct u; try destruct p; cbn [uop_waddrs uop_addrs In get_rp] in *;
    try tauto;
    try (destruct Hw as [Hw|[]]; destruct Ha as [Ha|[]]; subst; lia);
    unfold sub16 in *;
    repeat match goal with H : _ \/ _ |- _ => destruct H | H : False |- _ => destruct H end; subst; try lia.
Qed.

Lemma in_waddrs_dec u s : {In 0xFF40 (uop_waddrs u s)} + {~ In 0xFF40 (uop_waddrs u s)}.
Proof. apply in_dec. apply N.eq_dec. Qed.

(* the micro-operation executed in this machine cycle, and the CPU state it starts from *)
Definition cycle_uop (c : cpu) (s : sys) : option (uop * cpu) :=
  match fault c with
  | Some _ => None
  | None =>
      let n := if is_finished c then next gen_tables sys bus_rd bus_ime bus_set_ime bus_pending c s else (c, s, false) in
      if snd n then None
      else match nth_error (cur (fst (fst n))) (cyc (fst (fst n))) with
           | Some u => Some (u, fst (fst n))
           | None => None
           end
  end.

(* "this machine cycle of the CPU writes address a" *)
Definition cpu_writes (c : cpu) (s : sys) (a : N) : Prop :=
  exists u s1, cycle_uop c s = Some (u, s1) /\ In a (uop_waddrs u s1).

Notation sys_run_uop := (run_uop sys bus_rd bus_wr bus_trig bus_ime bus_set_ime bus_pending bus_ack bus_corrupt).

Lemma mem_frame_weaken m0 (W1 W2 : N -> Prop) s : (forall a, W1 a -> W2 a) -> mem_frame m0 W1 s -> mem_frame m0 W2 s.
Proof. intros HW H i Hi Hn. apply H; [exact Hi|]. intros X. apply Hn, HW, X. Qed.

Lemma run_uop_closed m0 s1 b1 u :
  rwf s1 -> prog_ok s1 -> nth_error (cur s1) (cyc s1) = Some u -> Pc m0 (fun _ => False) b1 -> fault s1 = None ->
  mem_frame m0 (fun a => In a (uop_waddrs u s1)) (snd (sys_run_uop s1 b1)).
Proof.
  intros Hs Hp Hu Hb Hf.
  assert (Hlt : (cyc s1 < length (cur s1))%nat) by (apply nth_error_Some; congruence).
  set (Wok := fun a => In a (uop_waddrs u s1)).
  destruct (in_waddrs_dec u s1) as [Hin|Hnin].
  - (* it writes LCDC: no address of it lies in FE00-FEFF *)
    assert (HPl : Pl m0 b1) by (destruct Hb as (B1 & B2 & B3 & B4 & _ & B6); exact (conj B1 (conj B2 (conj B3 (conj B4 B6))))).
    destruct (run_uop_safe sys bus_rd bus_wr bus_trig bus_ime bus_set_ime bus_pending bus_ack (Pl m0) not_oam not_oam
                (pl_rd m0) (pl_wr m0) (pl_trig m0) (pl_ime m0) (pl_ack m0) bus_corrupt (Pl m0)
                (fun b H => H) (pl_ime m0) (pl_cor m0) s1 b1 Hs Hp Hlt HPl Hf) as (_ & _ & _ & R4 & _).
    + intros u' Hu' a Ha. assert (u' = u) by congruence. subst u'. eapply lcdc_writer_no_oam; eassumption.
    + intros u' Hu' a Ha. assert (u' = u) by congruence. subst u'.
      eapply lcdc_writer_no_oam; [exact Hs|exact Hin|apply uop_waddrs_sub, Ha].
    + destruct R4 as (_ & _ & _ & _ & R). eapply mem_frame_weaken; [|exact R]. intros a [].
  - (* it does not: the window stays closed *)
    assert (HPc : Pc m0 Wok b1).
    { destruct Hb as (B1 & B2 & B3 & B4 & B5 & B6).
      refine (conj B1 (conj B2 (conj B3 (conj B4 (conj B5 _))))).
      eapply mem_frame_weaken; [|exact B6]. intros a []. }
    destruct (run_uop_safe sys bus_rd bus_wr bus_trig bus_ime bus_set_ime bus_pending bus_ack (Pc m0 Wok) TrueA (Awc Wok)
                (pc_rd m0 Wok) (pc_wr m0 Wok) (pc_trig m0 Wok) (pc_ime m0 Wok) (pc_ack m0 Wok) bus_corrupt (Pc m0 Wok)
                (fun b H => H) (pc_ime m0 Wok) (pc_cor m0 Wok) s1 b1 Hs Hp Hlt HPc Hf) as (_ & _ & _ & R4 & _).
    + intros; exact I.
    + intros u' Hu' a Ha. assert (u' = u) by congruence. subst u'. split; [intros X; apply Hnin; rewrite <- X; exact Ha|exact Ha].
    + apply R4.
Qed.

Lemma cycle_unfold c s : fault c = None ->
  sys_cpu_cycle (c, s) =
  let n := if is_finished c then next gen_tables sys bus_rd bus_ime bus_set_ime bus_pending c s else (c, s, false) in
  if snd n then fst n else sys_run_uop (fst (fst n)) (snd (fst n)).
Proof. intros Hf. unfold sys_cpu_cycle, cycle, run_uop. cbn [fst snd]. rewrite Hf. reflexivity. Qed.

Theorem cpu_cycle_closed c s : Safe (c, s) -> o_corrupt (s_oam s) = false ->
  forall i, i < 160 ->
    Mem.get (o_mem (s_oam (snd (sys_cpu_cycle (c, s))))) i <> Mem.get (o_mem (s_oam s)) i -> cpu_writes c s (0xFE00 + i).
Proof.
  intros ((Hs & Hp) & Hft & Hf & (H & Hc & Hpla & Hfl)) Hcl i Hi Hne. cbn [fst snd] in *.
  set (m0 := o_mem (s_oam s)) in *.
  assert (HP : Pc m0 (fun _ => False) s).
  { refine (conj H (conj Hc (conj Hpla (conj Hfl (conj Hcl _))))). intros j _ _. reflexivity. }
  rewrite (cycle_unfold c s Hf) in Hne. unfold cpu_writes, cycle_uop. rewrite Hf.
  set (n := if is_finished c then next gen_tables sys bus_rd bus_ime bus_set_ime bus_pending c s else (c, s, false)) in *.
  assert (N : rwf (fst (fst n)) /\ prog_ok (fst (fst n)) /\ fault (fst (fst n)) = None /\
              (if snd n then Pc m0 (fun _ => False) (snd (fst n))
               else (cyc (fst (fst n)) < length (cur (fst (fst n))))%nat /\ Pc m0 (fun _ => False) (snd (fst n)))).
  { subst n. destruct (is_finished c) eqn:Efin.
    - pose proof (next_safe sys bus_rd bus_wr bus_trig bus_ime bus_set_ime bus_pending bus_ack (Pc m0 (fun _ => False)) TrueA
                    (Awc (fun _ => False)) (pc_rd m0 _) (pc_wr m0 _) (pc_trig m0 _) (pc_ime m0 _) (pc_ack m0 _)
                    gen_tables bus_corrupt (Pc m0 (fun _ => False)) (fun b X => X) (pc_ime m0 _) (pc_cor m0 _)
                    c s gen_tables_ok Hs Hp Hft HP I I) as Q. cbv zeta in Q.
      destruct Q as (Q1 & Q2 & _ & Q4 & Q5).
      split; [exact Q1|]. split; [exact Q2|]. split; [congruence|].
      destruct (snd (next gen_tables sys bus_rd bus_ime bus_set_ime bus_pending c s)); [exact Q5|].
      destruct Q5 as [[S1 S2] Q6]. split; [|exact Q6].
      rewrite S2. destruct (cur (fst (fst (next gen_tables sys bus_rd bus_ime bus_set_ime bus_pending c s)))); [congruence|cbn; lia].
    - cbn [fst snd]. split; [exact Hs|]. split; [exact Hp|]. split; [exact Hf|]. split; [|exact HP].
      apply not_finished_lt; assumption. }
  clearbody n. destruct N as (N1 & N2 & N3 & N4). cbv zeta in Hne.
  destruct (snd n).
  - (* halted: nothing happens *)
    exfalso. apply Hne. destruct N4 as (_ & _ & _ & _ & _ & M). apply M; [exact Hi|tauto].
  - destruct N4 as [Hlt N4].
    destruct (nth_error (cur (fst (fst n))) (cyc (fst (fst n)))) as [u|] eqn:Eu; [|apply nth_error_None in Eu; lia].
    exists u, (fst (fst n)). split; [reflexivity|].
    destruct (in_dec N.eq_dec (0xFE00 + i) (uop_waddrs u (fst (fst n)))) as [X|X]; [exact X|exfalso].
    apply Hne. apply (run_uop_closed m0 _ _ u N1 N2 Eu N4 N3 i Hi X).
Qed.

(* ---------------- 4. one machine cycle of the whole machine ---------------- *)
Lemma frame_body_concrete : frame_body = [FCpu; FPpu; FMapper; FAudio; FTimer; FTimerIrq]. Proof. reflexivity. Qed.

Theorem oam_change cs cs' : Safe cs -> sys_cycle cs = Ok cs' ->
  forall i, i < 160 ->
    Mem.get (o_mem (s_oam (snd cs'))) i <> Mem.get (o_mem (s_oam (snd cs))) i ->
    cpu_writes (fst cs) (snd cs) (0xFE00 + i) \/
    dma_writes (s_oam (snd (sys_cpu_cycle cs))) i \/
    (p_enabled (s_ppu (snd cs)) = true /\ p_mode (s_ppu (snd cs)) = 2).
Proof.
  intros HS E i Hi Hne. destruct cs as [c s]. cbn [fst snd] in *.
  destruct (sys_cpu_cycle_safe c s HS) as (_ & _ & C3 & _).
  unfold sys_cycle in E. rewrite frame_body_concrete in E. cbn [fold_left bind fst snd frame_step_run] in E.
  set (r := sys_cpu_cycle (c, s)) in *.
  destruct (fault (fst r)) as [[|]|]; cbn [bind] in E; try discriminate E.
  destruct (s_crash (snd r)); cbn [bind frame_step_run] in E; try discriminate E.
  destruct (sys_ppu_tick (snd r)) as [s2| |] eqn:E2; cbn [bind frame_step_run] in E; try discriminate E.
  destruct (sys_mapper_end s2) as [s3| |] eqn:E3; cbn [bind frame_step_run] in E; try discriminate E.
  destruct (sys_audio_end s3) as [s4| |] eqn:E4; cbn [bind frame_step_run fst snd] in E; try discriminate E.
  injection E as <-. cbn [fst snd] in Hne.
  (* the steps after the DMA leave the OAM component alone *)
  assert (X4 : s_oam s4 = s_oam s3).
  { unfold sys_audio_end in E4. destruct (apu_end_machine_cycle_r (s_apu s3)); cbn [bind] in E4; try discriminate E4.
    injection E4 as <-. destruct s3; reflexivity. }
  assert (X5 : forall (t : timer) (b : bool) (j : ints) (x : sys), s_oam (if b then set_ints j (set_timer t x) else set_timer t x) = s_oam x)
    by (intros t b j x; destruct b; destruct x; reflexivity).
  rewrite X5, X4 in Hne.
  pose proof (sys_ppu_tick_engine _ _ (proj1 C3) E2) as (M2 & R2 & Y2 & _).
  destruct (sys_ppu_tick_safe _ (proj1 C3)) as (s2' & E2' & H2 & _). assert (s2' = s2) by congruence. subst s2'.
  destruct (N.eq_dec (Mem.get (o_mem (s_oam s3)) i) (Mem.get (o_mem (s_oam s2)) i)) as [Eq|Nq].
  - (* the CPU's step changed it *)
    rewrite Eq, M2 in Hne.
    destruct (o_corrupt (s_oam s)) eqn:Ec.
    + right. right. apply (bus_inv_corrupt_iff s); [apply HS|exact Ec].
    + left. apply (cpu_cycle_closed c s HS Ec i Hi Hne).
  - (* the DMA tick wrote it *)
    right. left. pose proof (sys_mapper_end_mem _ _ H2 E3 i Nq) as (D1 & D2 & D3).
    unfold dma_writes. rewrite <- R2, <- Y2. auto.
Qed.

Corollary lcd_off_inert cs cs' : Safe cs -> p_enabled (s_ppu (snd cs)) = false -> sys_cycle cs = Ok cs' ->
  forall i, i < 160 ->
    Mem.get (o_mem (s_oam (snd cs'))) i <> Mem.get (o_mem (s_oam (snd cs))) i ->
    cpu_writes (fst cs) (snd cs) (0xFE00 + i) \/ dma_writes (s_oam (snd (sys_cpu_cycle cs))) i.
Proof.
  intros HS Hoff E i Hi Hne.
  destruct (oam_change cs cs' HS E i Hi Hne) as [X|[X|[X _]]]; [left; exact X|right; exact X|congruence].
Qed.

(* with the LCD on but outside mode 2 the same holds *)
Corollary outside_mode2_inert cs cs' : Safe cs -> p_mode (s_ppu (snd cs)) <> 2 -> sys_cycle cs = Ok cs' ->
  forall i, i < 160 ->
    Mem.get (o_mem (s_oam (snd cs'))) i <> Mem.get (o_mem (s_oam (snd cs))) i ->
    cpu_writes (fst cs) (snd cs) (0xFE00 + i) \/ dma_writes (s_oam (snd (sys_cpu_cycle cs))) i.
Proof.
  intros HS Hm E i Hi Hne.
  destruct (oam_change cs cs' HS E i Hi Hne) as [X|[X|[_ X]]]; [left; exact X|right; exact X|congruence].
Qed.
