(* RtcProofs.v — C10: the clock model keeps time (closed forms in the number of elapsed machine cycles) and
   refines the latch/read/write specification for every history. *)
From Coq Require Import ZArith ZifyN ZifyNat ZifyBool.
From V.lib Require Import Bits Res.
From V.model Require Import Rtc.
From V.spec Require Import RtcSpec.
From V.proofs Require Import CartLemmas RtcArith.

(* ---- k seconds ---- *)
Lemma in_range_bounds c : rtc_in_range c = true -> r_s c < 60 /\ r_m c < 60 /\ r_h c < 24 /\ r_d c < 512.
Proof. unfold rtc_in_range. intros H. lia. Qed.

Lemma of_total_self c : rtc_in_range c = true -> rtc_of_total c (rtc_total c) = c.
Proof.
  intros H. apply in_range_bounds in H. destruct H as (Hs & Hm & Hh & Hd).
  unfold rtc_of_total, rtc_total, set_counters. destruct c as [s m h d cy hl ls lm lh ld lcy lhl t lw]. rprojs in *.
  f_equal; try lia.
  assert (E : (512 <=? (s + 60 * m + 3600 * h + 86400 * d) / 86400) = false) by lia.
  rewrite E. apply orb_false_r.
Qed.

Lemma of_total_of_total c T T' : rtc_of_total (rtc_of_total c T) T' =
  set_counters c (T' mod 60) ((T' / 60) mod 60) ((T' / 3600) mod 24) ((T' / 86400) mod 512)
               ((r_carry c || (512 <=? T / 86400)) || (512 <=? T' / 86400)).
Proof. reflexivity. Qed.

Theorem iter_increment_total c k :
  rtc_in_range c = true -> N.iter k rtc_increment c = rtc_of_total c (rtc_total c + k).
Proof.
  intros H. induction k as [|k IH] using N.peano_ind.
  - cbn [N.iter]. rewrite N.add_0_r. symmetry. apply of_total_self. exact H.
  - rewrite N.iter_succ, IH, increment_of_total. f_equal. lia.
Qed.

Theorem add_seconds_iter c k : rtc_add_seconds c k = N.iter k rtc_increment c.
Proof.
  unfold rtc_add_seconds. destruct (rtc_in_range c) eqn:E; [|reflexivity].
  symmetry. apply iter_increment_total. exact E.
Qed.

(* what an increment leaves alone *)
Lemma increment_frame c :
  r_halt (rtc_increment c) = r_halt c /\ r_ticks (rtc_increment c) = r_ticks c /\
  r_low (rtc_increment c) = r_low c /\
  r_ls (rtc_increment c) = r_ls c /\ r_lm (rtc_increment c) = r_lm c /\ r_lh (rtc_increment c) = r_lh c /\
  r_ld (rtc_increment c) = r_ld c /\ r_lcarry (rtc_increment c) = r_lcarry c /\ r_lhalt (rtc_increment c) = r_lhalt c.
Proof.
  unfold rtc_increment.
  repeat match goal with |- context [if ?b then _ else _] => destruct b end; rprojs; repeat split.
Qed.

Lemma iter_increment_frame c k :
  r_halt (N.iter k rtc_increment c) = r_halt c /\ r_ticks (N.iter k rtc_increment c) = r_ticks c.
Proof.
  induction k as [|k IH] using N.peano_ind; [split; reflexivity|].
  rewrite N.iter_succ. destruct (increment_frame (N.iter k rtc_increment c)) as (H1 & H2 & _).
  destruct IH as [I1 I2]. split; congruence.
Qed.

Lemma increment_set_ticks c t : rtc_increment (set_ticks c t) = set_ticks (rtc_increment c) t.
Proof.
  unfold rtc_increment. rprojs.
  repeat match goal with |- context [if ?b then _ else _] => destruct b end; reflexivity.
Qed.

Lemma set_ticks_set_ticks c t t' : set_ticks (set_ticks c t) t' = set_ticks c t'.
Proof. reflexivity. Qed.

(* ---- n machine cycles ---- *)
Theorem tick_n_halted c n : r_halt c = true -> N.iter n rtc_tick c = c.
Proof.
  intros H. induction n as [|n IH] using N.peano_ind; [reflexivity|].
  rewrite N.iter_succ, IH. unfold rtc_tick. rewrite H. reflexivity.
Qed.

Theorem tick_n_advance c n :
  r_ticks c < 1048576 -> N.iter n rtc_tick c = rtc_advance c n.
Proof.
  intros Ht. unfold rtc_advance. destruct (r_halt c) eqn:Hh; [apply tick_n_halted; exact Hh|].
  induction n as [|n IH] using N.peano_ind.
  - cbn [N.iter]. rewrite N.add_0_r, N.div_small, N.mod_small by exact Ht.
    rewrite add_seconds_iter. cbn [N.iter]. destruct c; reflexivity.
  - rewrite N.iter_succ, IH. clear IH.
    set (t := r_ticks c + n).
    replace (r_ticks c + N.succ n) with (t + 1) by lia.
    rewrite !add_seconds_iter.
    destruct (iter_increment_frame c (t / 1048576)) as [F1 F2].
    unfold rtc_tick. rprojs. rewrite F1, Hh.
    assert (Hm : t mod 1048576 < 1048576) by (apply N.mod_lt; lia).
    destruct (N.eqb_spec (t mod 1048576 + 1) 1048576) as [E|E].
    + assert (Eq : (t + 1) / 1048576 = N.succ (t / 1048576)) by lia.
      assert (Er : (t + 1) mod 1048576 = 0) by lia.
      rewrite Eq, Er, N.iter_succ, set_ticks_set_ticks, increment_set_ticks. reflexivity.
    + assert (Eq : (t + 1) / 1048576 = t / 1048576) by lia.
      assert (Er : (t + 1) mod 1048576 = t mod 1048576 + 1) by lia.
      rewrite Eq, Er, set_ticks_set_ticks. reflexivity.
Qed.

(* the sub-second count stays below one second *)
Lemma advance_ticks_lt c n : r_ticks c < 1048576 -> r_ticks (rtc_advance c n) < 1048576.
Proof.
  intros H. unfold rtc_advance. destruct (r_halt c); [exact H|]. rprojs. apply N.mod_lt. lia.
Qed.

(* ---- the increment is the documented counter cascade ---- *)
Definition live (c : rtc) : clock := mkClock (r_s c) (r_m c) (r_h c) (r_d c) (r_carry c) (r_halt c).
Definition latched (c : rtc) : clock := mkClock (r_ls c) (r_lm c) (r_lh c) (r_ld c) (r_lcarry c) (r_lhalt c).
Definition widths_ok (c : rtc) : Prop := r_s c < 64 /\ r_m c < 64 /\ r_h c < 32 /\ r_d c < 512.

Lemma increment_second c :
  widths_ok c -> live (rtc_increment c) = second (live c) /\ widths_ok (rtc_increment c).
Proof.
  intros (Hs & Hm & Hh & Hd). unfold rtc_increment, second, ctr_step, live, widths_ok. cbn [k_sec k_min k_hour k_day k_carry k_halt].
  rewrite (u8_id (r_s c + 1)), (u8_id (r_m c + 1)), (u8_id (r_h c + 1)), (u16_id (r_d c + 1)) by lia.
  change (2 ^ 6) with 64. change (2 ^ 5) with 32. change (2 ^ 9) with 512.
  change (60 - 1) with 59. change (24 - 1) with 23. change (512 - 1) with 511.
  rewrite !land63, !land31, !land511.
  destruct (N.eqb_spec (r_s c + 1) 60) as [E1|E1]; destruct (N.eqb_spec (r_s c) 59) as [E1'|E1']; try lia.
  2:{ rprojs. rewrite orb_false_r. split; [f_equal; apply mod_small_id; lia|].
      repeat split; try (apply N.mod_lt; lia). }
  destruct (N.eqb_spec (r_m c + 1) 60) as [E2|E2]; destruct (N.eqb_spec (r_m c) 59) as [E2'|E2']; try lia.
  2:{ rprojs. rewrite orb_false_r. split; [f_equal; apply mod_small_id; lia|].
      repeat split; try (apply N.mod_lt; lia); lia. }
  destruct (N.eqb_spec (r_h c + 1) 24) as [E3|E3]; destruct (N.eqb_spec (r_h c) 23) as [E3'|E3']; try lia.
  2:{ rprojs. rewrite orb_false_r. split; [f_equal; apply mod_small_id; lia|].
      repeat split; try (apply N.mod_lt; lia); lia. }
  destruct (N.eqb_spec (r_d c + 1) 512) as [E4|E4]; destruct (N.eqb_spec (r_d c) 511) as [E4'|E4']; try lia.
  - rprojs. rewrite orb_true_r. split; [reflexivity|]. repeat split; lia.
  - rprojs. rewrite orb_false_r. split; [reflexivity|]. repeat split; try (apply N.mod_lt; lia); lia.
Qed.

Lemma iter_increment_second c k :
  widths_ok c -> live (N.iter k rtc_increment c) = N.iter k second (live c) /\ widths_ok (N.iter k rtc_increment c).
Proof.
  intros H. induction k as [|k IH] using N.peano_ind; [split; [reflexivity|exact H]|].
  rewrite !N.iter_succ. destruct IH as [I1 I2]. destruct (increment_second _ I2) as [J1 J2].
  split; [rewrite J1, I1; reflexivity | exact J2].
Qed.

Lemma iter_increment_latched c k :
  latched (N.iter k rtc_increment c) = latched c /\ r_low (N.iter k rtc_increment c) = r_low c.
Proof.
  induction k as [|k IH] using N.peano_ind; [split; reflexivity|].
  rewrite N.iter_succ. destruct (increment_frame (N.iter k rtc_increment c)) as (_ & _ & H3 & H4 & H5 & H6 & H7 & H8 & H9).
  destruct IH as [I1 I2]. split; [|congruence].
  unfold latched in *. rewrite H4, H5, H6, H7, H8, H9. exact I1.
Qed.

(* in-range clocks: +1 second on the total, day-carry at the wrap *)
Lemma total_of_total c T : rtc_total (rtc_of_total c T) = T mod 44236800.
Proof.
  unfold rtc_total, rtc_of_total. rprojs. rewrite div_3600, div_86400.
  set (q1 := T / 60). set (q2 := q1 / 60). set (q3 := q2 / 24).
  assert (T = 60 * q1 + T mod 60) by (subst q1; apply N.div_mod; lia).
  assert (q1 = 60 * q2 + q1 mod 60) by (subst q2; apply N.div_mod; lia).
  assert (q2 = 24 * q3 + q2 mod 24) by (subst q3; apply N.div_mod; lia).
  assert (q3 = 512 * (q3 / 512) + q3 mod 512) by (apply N.div_mod; lia).
  assert (T mod 60 < 60) by (apply N.mod_lt; lia).
  assert (q1 mod 60 < 60) by (apply N.mod_lt; lia).
  assert (q2 mod 24 < 24) by (apply N.mod_lt; lia).
  assert (q3 mod 512 < 512) by (apply N.mod_lt; lia).
  apply N.mod_unique with (q := q3 / 512); lia.
Qed.

Lemma in_range_of_total c T : rtc_in_range (rtc_of_total c T) = true.
Proof.
  unfold rtc_in_range, rtc_of_total. rprojs.
  assert (T mod 60 < 60) by (apply N.mod_lt; lia).
  assert ((T / 60) mod 60 < 60) by (apply N.mod_lt; lia).
  assert ((T / 3600) mod 24 < 24) by (apply N.mod_lt; lia).
  assert ((T / 86400) mod 512 < 512) by (apply N.mod_lt; lia).
  lia.
Qed.

Theorem increment_in_range c :
  rtc_in_range c = true ->
  rtc_total (rtc_increment c) = (rtc_total c + 1) mod 44236800 /\
  r_carry (rtc_increment c) = (r_carry c || (rtc_total c + 1 =? 44236800)) /\
  rtc_in_range (rtc_increment c) = true.
Proof.
  intros H. pose proof (iter_increment_total c 1 H) as E. change (N.iter 1 rtc_increment c) with (rtc_increment c) in E.
  rewrite E. split; [apply total_of_total|]. split; [|apply in_range_of_total].
  unfold rtc_of_total. rprojs. f_equal.
  apply in_range_bounds in H. unfold rtc_total.
  destruct (N.leb_spec 512 ((r_s c + 60 * r_m c + 3600 * r_h c + 86400 * r_d c + 1) / 86400)),
           (N.eqb_spec (r_s c + 60 * r_m c + 3600 * r_h c + 86400 * r_d c + 1) 44236800); try reflexivity; lia.
Qed.

(* k seconds on an in-range clock, field by field *)
Theorem add_seconds_fields c k :
  rtc_in_range c = true ->
  let T := rtc_total c + k in
  let c' := N.iter k rtc_increment c in
  r_s c' = T mod 60 /\ r_m c' = (T / 60) mod 60 /\ r_h c' = (T / 3600) mod 24 /\ r_d c' = (T / 86400) mod 512 /\
  r_carry c' = (r_carry c || (44236800 <=? T)) /\ rtc_total c' = T mod 44236800.
Proof.
  intros H T c'. subst c'. rewrite (iter_increment_total c k H). fold T.
  repeat split; try reflexivity; [|apply total_of_total].
  unfold rtc_of_total. rprojs. f_equal.
  destruct (N.leb_spec 512 (T / 86400)), (N.leb_spec 44236800 T); try reflexivity; lia.
Qed.

(* ---- bit-level facts of the register writes (finite sweeps over bytes / 9-bit days) ---- *)
Lemma latch_bit_sweep : forallb (fun v => Bool.eqb (N.land v 1 =? 0) (negb (N.testbit v 0))) bytes = true.
Proof. vm_compute. reflexivity. Qed.
Lemma latch_bit v : v < 256 -> (N.land v 1 =? 0) = negb (N.testbit v 0).
Proof. intros H. apply Bool.eqb_prop. exact (sweep_bytes _ latch_bit_sweep v H). Qed.

Lemma ctrl_bits_sweep :
  forallb (fun v => Bool.eqb (0 <? shr v 7) (N.testbit v 7) && Bool.eqb (0 <? N.land (shr v 6) 1) (N.testbit v 6)) bytes = true.
Proof. vm_compute. reflexivity. Qed.
Lemma ctrl_bits v : v < 256 -> (0 <? shr v 7) = N.testbit v 7 /\ (0 <? N.land (shr v 6) 1) = N.testbit v 6.
Proof.
  intros H. pose proof (sweep_bytes _ ctrl_bits_sweep v H) as G. cbv beta in G.
  apply andb_prop in G. destruct G as [G1 G2]. split; apply Bool.eqb_prop; assumption.
Qed.

Lemma day_low_sweep :
  forallb (fun d => forallb (fun v => N.lor (N.land d 256) v =? 256 * (d / 256 mod 2) + v) bytes) (upto 512) = true.
Proof. vm_compute. reflexivity. Qed.
Lemma day_low d v : d < 512 -> v < 256 -> N.lor (N.land d 256) v = 256 * (d / 256 mod 2) + v.
Proof.
  intros Hd Hv. pose proof (sweep_upto 512 _ day_low_sweep d Hd) as G. cbv beta in G.
  apply N.eqb_eq. exact (sweep_bytes _ G v Hv).
Qed.

Lemma day_high_sweep :
  forallb (fun d => forallb (fun v => N.lor (N.shiftl (N.land v 1) 8) (N.land d 255) =? 256 * (v mod 2) + d mod 256) bytes)
          (upto 512) = true.
Proof. vm_compute. reflexivity. Qed.
Lemma day_high d v : d < 512 -> v < 256 -> N.lor (N.shiftl (N.land v 1) 8) (N.land d 255) = 256 * (v mod 2) + d mod 256.
Proof.
  intros Hd Hv. pose proof (sweep_upto 512 _ day_high_sweep d Hd) as G. cbv beta in G.
  apply N.eqb_eq. exact (sweep_bytes _ G v Hv).
Qed.

(* ---- refinement of the latch / read / write specification, for every history ---- *)
Definition rtc_apply (c : rtc) (e : rtc_event) : rtc :=
  match e with
  | EvCycles n => N.iter n rtc_tick c
  | EvLatch v => if N.land v 1 =? 0 then rtc_latch_low c else rtc_latch_high c
  | EvWrite sel v => rtc_write c sel v
  end.

Definition wf_event (e : rtc_event) : Prop :=
  match e with EvCycles _ => True | EvLatch v => v < 256 | EvWrite _ v => v < 256 end.

Record rtc_rel (c : rtc) (s : rtcspec) : Prop := mkRtcRel {
  rr_live : live c = sp_live s;
  rr_sub : r_ticks c = sp_sub s;
  rr_snap : latched c = sp_snap s;
  rr_low : r_low c = match sp_latch s with Some u => negb (N.testbit u 0) | None => false end;
  rr_widths : widths_ok c;
  rr_ticks : r_ticks c < 1048576
}.

Lemma rtc_rel_init : rtc_rel rtc_init rtcspec_init.
Proof. constructor; try reflexivity; cbn; unfold widths_ok; cbn; lia. Qed.

Lemma rel_cycles c s n : rtc_rel c s -> rtc_rel (N.iter n rtc_tick c) (elapse s n).
Proof.
  intros [Hl Hs Hp Hw Hwd Ht]. rewrite (tick_n_advance c n Ht).
  unfold rtc_advance, elapse. rewrite <- Hl. cbn [live k_halt].
  destruct (r_halt c) eqn:Hh; [constructor; assumption|].
  rewrite add_seconds_iter, <- Hs. unfold cycles_per_second.
  set (K := (r_ticks c + n) / 1048576).
  destruct (iter_increment_second c K Hwd) as [L1 L2].
  destruct (iter_increment_latched c K) as [L3 L4].
  constructor; cbn [sp_live sp_sub sp_snap sp_latch].
  - rewrite <- L1. reflexivity.
  - reflexivity.
  - rewrite <- Hp, <- L3. reflexivity.
  - rewrite <- Hw, <- L4. reflexivity.
  - exact L2.
  - rprojs. apply N.mod_lt. lia.
Qed.

Lemma rel_latch c s v : rtc_rel c s -> v < 256 ->
  rtc_rel (if N.land v 1 =? 0 then rtc_latch_low c else rtc_latch_high c) (latch_write s v).
Proof.
  intros [Hl Hs Hp Hw Hwd Ht] Hv. rewrite (latch_bit v Hv). unfold latch_write.
  destruct (N.testbit v 0) eqn:Ev; cbn [negb].
  - (* high *)
    unfold rtc_latch_high. rewrite Hw.
    destruct (sp_latch s) as [u|]; [destruct (N.testbit u 0); cbn [negb andb]|];
      constructor; cbn [sp_live sp_sub sp_snap sp_latch]; rewrite ?Ev; try assumption; try reflexivity.
  - (* low *)
    unfold rtc_latch_low.
    assert (Er : match sp_latch s with Some u => negb (N.testbit u 0) && false | None => false end = false).
    { destruct (sp_latch s); [apply andb_false_r | reflexivity]. }
    rewrite Er. constructor; cbn [sp_live sp_sub sp_snap sp_latch]; rewrite ?Ev; try assumption; reflexivity.
Qed.

Lemma rtc_write_other c sel v :
  sel <> 8 -> sel <> 9 -> sel <> 10 -> sel <> 11 -> sel <> 12 -> rtc_write c sel v = c.
Proof.
  intros. unfold rtc_write. destruct sel as [|p]; [reflexivity|].
  do 4 (destruct p as [p|p|]; try reflexivity; try lia).
Qed.
Lemma rtc_read_other c sel :
  sel <> 8 -> sel <> 9 -> sel <> 10 -> sel <> 11 -> sel <> 12 -> rtc_read c sel = Ok 255.
Proof.
  intros. unfold rtc_read. destruct sel as [|p]; [reflexivity|].
  do 4 (destruct p as [p|p|]; try reflexivity; try lia).
Qed.

Lemma rel_write c s sel v : rtc_rel c s -> v < 256 -> rtc_rel (rtc_write c sel v) (reg_write s sel v).
Proof.
  intros [Hl Hs Hp Hw Hwd Ht] Hv. pose proof Hwd as (W1 & W2 & W3 & W4).
  unfold reg_write. rewrite <- Hl. cbn [live k_sec k_min k_hour k_day k_carry k_halt with_sec with_min with_hour].
  assert (M64 : v mod 64 < 64) by (apply N.mod_lt; lia).
  assert (M32 : v mod 32 < 32) by (apply N.mod_lt; lia).
  destruct (N.eqb_spec sel 8) as [->|N8].
  { unfold rtc_write. rewrite land63.
    constructor; cbn [sp_live sp_sub sp_snap sp_latch]; try assumption; try reflexivity.
    all: try (repeat split; rprojs; try assumption; lia). }
  destruct (N.eqb_spec sel 9) as [->|N9].
  { unfold rtc_write. rewrite land63.
    constructor; cbn [sp_live sp_sub sp_snap sp_latch]; try assumption; try reflexivity.
    all: try (repeat split; rprojs; try assumption; lia). }
  destruct (N.eqb_spec sel 10) as [->|N10].
  { unfold rtc_write. rewrite land31.
    constructor; cbn [sp_live sp_sub sp_snap sp_latch]; try assumption; try reflexivity.
    all: try (repeat split; rprojs; try assumption; lia). }
  destruct (N.eqb_spec sel 11) as [->|N11].
  { unfold rtc_write. rewrite (day_low _ _ W4 Hv).
    assert (r_d c / 256 mod 2 < 2) by (apply N.mod_lt; lia).
    constructor; cbn [sp_live sp_sub sp_snap sp_latch]; try assumption; try reflexivity.
    all: try (repeat split; rprojs; try assumption; lia). }
  destruct (N.eqb_spec sel 12) as [->|N12].
  { unfold rtc_write. destruct (ctrl_bits v Hv) as [B7 B6]. rewrite B7, B6, (day_high _ _ W4 Hv).
    assert (v mod 2 < 2) by (apply N.mod_lt; lia).
    constructor; cbn [sp_live sp_sub sp_snap sp_latch]; try assumption; try reflexivity.
    all: try (repeat split; rprojs; try assumption; lia). }
  rewrite rtc_write_other by assumption. constructor; assumption.
Qed.

Lemma rel_step c s e : rtc_rel c s -> wf_event e -> rtc_rel (rtc_apply c e) (rtcspec_step s e).
Proof.
  intros HR Hwf. destruct e as [n|v|sel v]; cbn [rtc_apply rtcspec_step].
  - apply rel_cycles. exact HR.
  - apply rel_latch; assumption.
  - apply rel_write; assumption.
Qed.

Lemma rel_run h : forall c s, rtc_rel c s -> Forall wf_event h ->
  rtc_rel (fold_left rtc_apply h c) (fold_left rtcspec_step h s).
Proof.
  induction h as [|e h IH]; intros c s HR Hwf; cbn [fold_left]; [exact HR|].
  inversion Hwf as [|? ? He Hh]; subst. apply IH; [apply rel_step; assumption | exact Hh].
Qed.

Lemma read_rel c s sel : rtc_rel c s -> rtc_read c sel = Ok (rtcspec_read s sel).
Proof.
  intros [Hl Hs Hp Hw Hwd Ht]. unfold rtcspec_read. rewrite <- Hp.
  cbn [latched k_sec k_min k_hour k_day k_carry k_halt].
  destruct (N.eqb_spec sel 8) as [->|N8]; [unfold rtc_read; rewrite land63; reflexivity|].
  destruct (N.eqb_spec sel 9) as [->|N9]; [unfold rtc_read; rewrite land63; reflexivity|].
  destruct (N.eqb_spec sel 10) as [->|N10]; [unfold rtc_read; rewrite land31; reflexivity|].
  destruct (N.eqb_spec sel 11) as [->|N11]; [reflexivity|].
  destruct (N.eqb_spec sel 12) as [->|N12].
  { unfold rtc_read. f_equal. rewrite land1. unfold u8, shr. rewrite N.shiftr_div_pow2. change (2 ^ 8) with 256.
    assert (E : (r_ld c / 256) mod 256 mod 2 = r_ld c / 256 mod 2) by lia. rewrite E.
    destruct (r_lcarry c), (r_lhalt c); cbn [b2n]; lia. }
  apply rtc_read_other; assumption.
Qed.

Theorem rtc_refines (h : list rtc_event) (sel : N) :
  Forall wf_event h ->
  rtc_read (fold_left rtc_apply h rtc_init) sel = Ok (rtcspec_read (rtcspec_run h) sel).
Proof.
  intros Hwf. apply read_rel. unfold rtcspec_run. apply rel_run; [apply rtc_rel_init | exact Hwf].
Qed.

(* the model's counters are the specification's counters after every history *)
Theorem rtc_live_refines (h : list rtc_event) :
  Forall wf_event h ->
  live (fold_left rtc_apply h rtc_init) = sp_live (rtcspec_run h) /\
  r_ticks (fold_left rtc_apply h rtc_init) = sp_sub (rtcspec_run h) /\
  r_ticks (fold_left rtc_apply h rtc_init) < 1048576.
Proof.
  intros Hwf. destruct (rel_run h _ _ rtc_rel_init Hwf) as [Hl Hs _ _ _ Ht]. repeat split; assumption.
Qed.

(* the closed form spelled out: whole seconds are increments, the remainder is the sub-second count *)
Theorem tick_n_closed c n :
  r_ticks c < 1048576 -> r_halt c = false ->
  N.iter n rtc_tick c =
  set_ticks (N.iter ((r_ticks c + n) / 1048576) rtc_increment c) ((r_ticks c + n) mod 1048576).
Proof.
  intros Ht Hh. rewrite (tick_n_advance c n Ht). unfold rtc_advance. rewrite Hh, add_seconds_iter. reflexivity.
Qed.

Lemma seconds_write_restarts c v : r_ticks (rtc_write c 8 v) = 0 /\ r_s (rtc_write c 8 v) = v mod 64.
Proof. unfold rtc_write. rprojs. rewrite land63. split; reflexivity. Qed.
