(* ApuSampleProofs.v — C20: pacing of the sample stream, routing, non-interference and range of the mix. *)
From V.lib Require Import Bits Mem Res.
From V.model Require Import Apu.
From V.spec Require Import ApuSpec.
From V.proofs Require Import ApuLemmas ApuStatusProofs ApuFreqProofs ApuLengthProofs.
From Coq Require Import ZArith ZifyN ZifyNat ZifyBool QArith Qround.
Open Scope N_scope.

(* ------------------------------------------------------------------------------------------------- *)
(* what one clock emits *)
Lemma attached_fs_part x : attached (fs_part x) = attached x.
Proof. unfold fs_part. repeat match goal with |- context [if ?b then _ else _] => destruct b end; reflexivity. Qed.
Lemma ctl_fs_part x : ctl (fs_part x) = ctl x.
Proof. unfold fs_part. repeat match goal with |- context [if ?b then _ else _] => destruct b end; reflexivity. Qed.

Lemma attached_tick s : attached (tick s) = attached s.
Proof.
  unfold tick. rewrite tick_clock_shape. cbv zeta.
  destruct (after_timers_facts s) as (_ & _ & _ & _ & _ & _ & _ & _ & _ & _ & _ & _ & Ha).
  destruct (fs_hit s); [|psimpl; exact Ha].
  match goal with |- context [if ?b then _ else _] => destruct b end; psimpl; rewrite attached_fs_part; exact Ha.
Qed.

Lemma is_on_tick s : is_on (tick s) = is_on s.
Proof. unfold is_on, tick. rewrite ctl_tick_clock. reflexivity. Qed.

(* the state the sampler looks at *)
Definition sampler_state (s : apu) : apu :=
  let s1 := after_timers s in
  if fs_hit s
  then (let s' := set_fseq (fs_part s1) (fseq s1 + 1) in if 512 <=? fseq s' then set_fseq s' 0 else s')
  else s1.

Lemma tick_clock_out s :
  snd (apu_tick_clock s) = if norm_ticks s mod 95 =? 0 then take_sample (sampler_state s) else [].
Proof.
  unfold apu_tick_clock, sampler_state. cbn [snd]. fold (wrap_ticks s). fold (after_timers s).
  destruct (after_timers_facts s) as (_ & _ & _ & _ & _ & _ & _ & _ & _ & _ & Ht & _).
  unfold fs_hit. rewrite <- Ht.
  destruct (N.land (ticks (after_timers s)) frameSeqMask =? 0) eqn:E.
  - rewrite tick_frame_sequencer_eq.
    assert (T : forall x q, ticks (if 512 <=? fseq (set_fseq x q) then set_fseq (set_fseq x q) 0 else set_fseq x q) = ticks x)
      by (intros x q; destruct (512 <=? fseq (set_fseq x q)); reflexivity).
    rewrite T.
    assert (T2 : ticks (fs_part (after_timers s)) = ticks (after_timers s)).
    { unfold fs_part. repeat match goal with |- context [if ?b then _ else _] => destruct b end; reflexivity. }
    rewrite T2. unfold samplerPeriod. reflexivity.
  - unfold samplerPeriod. reflexivity.
Qed.

Lemma sampler_state_flags s :
  ctl (sampler_state s) = ctl s /\ attached (sampler_state s) = attached s.
Proof.
  unfold sampler_state.
  destruct (after_timers_facts s) as (_ & _ & _ & _ & _ & _ & _ & _ & _ & _ & _ & Hc & Ha).
  destruct (fs_hit s); [|split; assumption].
  match goal with |- context [if ?b then _ else _] => destruct b end; psimpl;
    rewrite ctl_fs_part, attached_fs_part; split; assumption.
Qed.

Definition emits (s : apu) : bool := (norm_ticks s mod 95 =? 0) && is_on s && attached s.

(* exactly one pair (one left and one right value) or nothing *)
Theorem tick_emits s : length (snd (apu_tick_clock s)) = if emits s then 1%nat else 0%nat.
Proof.
  rewrite tick_clock_out. unfold emits, take_sample, is_on.
  destruct (sampler_state_flags s) as [-> ->].
  destruct (norm_ticks s mod 95 =? 0); cbn [andb]; [|reflexivity].
  destruct (ctOn (ctl s)); cbn [negb orb andb]; [|reflexivity].
  destruct (attached s); reflexivity.
Qed.

(* ------------------------------------------------------------------------------------------------- *)
(* counting *)
Lemma pairs_upto_succ x :
  pairs_upto (x + 1) = pairs_upto x + (if ((x mod 4194304) + 1) mod 95 =? 0 then 1 else 0).
Proof.
  unfold pairs_upto.
  destruct (((x mod 4194304) + 1) mod 95 =? 0) eqn:E.
  - apply N.eqb_eq in E. lia.
  - apply N.eqb_neq in E. lia.
Qed.

Lemma pairs_upto_shift x y : pairs_upto (x mod 4194304 + y) - pairs_upto (x mod 4194304) = pairs_upto (x + y) - pairs_upto x.
Proof. unfold pairs_upto. lia. Qed.

Lemma pairs_upto_mono x y : pairs_upto x <= pairs_upto (x + y).
Proof. unfold pairs_upto. lia. Qed.

(* pairs emitted by a run of micro-operations *)
Fixpoint run_pairs (l : list uop) (s : apu) : N :=
  match l with
  | [] => 0
  | UTick :: r => N.of_nat (length (snd (apu_tick_clock s))) + run_pairs r (tick s)
  | UClear :: r => run_pairs r (clear_triggered s)
  end.

Definition pace_inv (on att : bool) (s : apu) : Prop := clk_wf s /\ is_on s = on /\ attached s = att.

Lemma pace_inv_tick on att s : pace_inv on att s -> pace_inv on att (tick s).
Proof.
  intros (H1 & H2 & H3). split; [apply clk_wf_tick; exact H1|].
  rewrite is_on_tick, attached_tick. split; assumption.
Qed.

Lemma phase_lt s : clk_wf s -> phase s < 4194304.
Proof.
  intros (H1 & H2 & H3). unfold phase, norm_ticks, ticksPerSecond. destruct (4194304 <? ticks s) eqn:E; lia.
Qed.

Lemma phase_tick s : clk_wf s -> phase (tick s) = (phase s + 1) mod 4194304.
Proof.
  intros H. pose proof (clk_tick s H) as Hc. unfold clk_proj, clk_step in Hc. fold (tick s) in Hc.
  apply pair_equal_spec in Hc. exact (proj1 Hc).
Qed.

Lemma norm_phase s : clk_wf s -> norm_ticks s = phase s + 1.
Proof.
  intros (H1 & H2 & H3). unfold phase.
  assert (1 <= norm_ticks s) by (unfold norm_ticks, ticksPerSecond; destruct (4194304 <? ticks s); lia). lia.
Qed.

(* C20 count: with sound on and outputs attached, the pairs emitted in a run with n clocks are the pairs due
   between stream positions phase and phase + n *)
Theorem run_pairs_on l : forall s,
  pace_inv true true s -> run_pairs l s = pairs_between (phase s) (n_ticks l).
Proof.
  induction l as [|u l IH]; intros s Hinv.
  - cbn [run_pairs n_ticks]. unfold pairs_between. rewrite N.add_0_r. lia.
  - destruct u; cbn [run_pairs n_ticks].
    + pose proof (pace_inv_tick _ _ _ Hinv) as Hinv'.
      destruct Hinv as (Hwf & Hon & Hatt).
      rewrite (IH _ Hinv'), tick_emits. unfold emits. rewrite Hon, Hatt, !Bool.andb_true_r.
      rewrite (phase_tick s Hwf), (norm_phase s Hwf).
      pose proof (phase_lt s Hwf) as Hk.
      unfold pairs_between.
      rewrite (pairs_upto_shift (phase s + 1) (n_ticks l)).
      pose proof (pairs_upto_succ (phase s)) as Hs. rewrite (N.mod_small (phase s)) in Hs by exact Hk.
      pose proof (pairs_upto_mono (phase s + 1) (n_ticks l)) as Hm.
      replace (phase s + N.succ (n_ticks l)) with (phase s + 1 + n_ticks l) by lia.
      destruct ((phase s + 1) mod 95 =? 0); cbn [N.of_nat] in *; lia.
    + apply (IH (clear_triggered s)). exact Hinv.
Qed.

(* ... and nothing at all while sound is off or an output is missing *)
Theorem run_pairs_silent l : forall on att s,
  pace_inv on att s -> on && att = false -> run_pairs l s = 0.
Proof.
  induction l as [|u l IH]; intros on att s Hinv Hoff; [reflexivity|].
  destruct u; cbn [run_pairs].
  - rewrite (IH on att _ (pace_inv_tick _ _ _ Hinv) Hoff), tick_emits.
    destruct Hinv as (_ & Hon & Hatt). unfold emits. rewrite Hon, Hatt.
    rewrite <- Bool.andb_assoc, Hoff, Bool.andb_false_r. reflexivity.
  - apply (IH on att (clear_triggered s)); assumption.
Qed.

(* from audio.New: phase 0, so the count is the closed form of the statement *)
Lemma pairs_between_0 n : pairs_between 0 n = n / 4194304 * 44150 + (n mod 4194304) / 95.
Proof. unfold pairs_between, pairs_upto. rewrite N.add_0_l. cbn. lia. Qed.

(* instants: the m-th clock of a run emits iff a pair is due *)
Theorem emits_closed s l :
  pace_inv true true s -> emits (fold_left exec_u l s) = sample_due (phase s) (n_ticks l + 1).
Proof.
  intros (Hwf & Hon & Hatt).
  destruct (clk_run l s Hwf) as (W & P & _). cbv zeta in W, P.
  assert (Hinv' : is_on (fold_left exec_u l s) = true /\ attached (fold_left exec_u l s) = true).
  { clear W P. revert s Hwf Hon Hatt. induction l as [|u l IH]; intros s Hwf Hon Hatt; [split; assumption|].
    cbn [fold_left]. destruct u; cbn [exec_u].
    - apply IH; [apply clk_wf_tick; exact Hwf | rewrite is_on_tick; exact Hon | rewrite attached_tick; exact Hatt].
    - apply IH; assumption. }
  destruct Hinv' as [Hon' Hatt'].
  unfold emits, sample_due. rewrite Hon', Hatt', !Bool.andb_true_r, (norm_phase _ W), P.
  replace (phase s + (n_ticks l + 1) - 1) with (phase s + n_ticks l) by lia. reflexivity.
Qed.

(* ------------------------------------------------------------------------------------------------- *)
(* the mixer *)

(* the integer numerator over 6400 is the exact rational mix of the channel levels (in 120ths) *)
Open Scope Q_scope.
Definition inj (n : N) : Q := inject_Z (Z.of_N n).

Lemma inj_add a b : inj (a + b) == inj a + inj b.
Proof. unfold inj. rewrite N2Z.inj_add, inject_Z_plus. reflexivity. Qed.
Lemma inj_mul a b : inj (a * b) == inj a * inj b.
Proof. unfold inj. rewrite N2Z.inj_mul, inject_Z_mult. reflexivity. Qed.

Theorem mix_is_q_mix b1 b2 b3 b4 w1 w2 w3 w4 vol :
  inj (mix b1 b2 b3 b4 w1 w2 w3 w4 vol) / 6400 ==
  q_mix b1 b2 b3 b4 (inj w1 / 120) (inj w2 / 120) (inj w3 / 120) (inj w4 / 120) vol.
Proof.
  unfold mix, q_mix. fold (inj vol). rewrite inj_mul, !inj_add.
  destruct b1, b2, b3, b4; change (inj 0) with 0; field.
Qed.

(* the channel levels in 120ths are the documented per-channel values *)
Lemma sq_level_q level volume : inj (15 * (level * volume)) / 120 == q_square level volume.
Proof. unfold q_square. fold (inj level) (inj volume). rewrite !inj_mul. change (inj 15) with 15. field. Qed.
Lemma wv_level_q x : inj (8 * x) / 120 == q_wave x.
Proof. unfold q_wave. fold (inj x). rewrite inj_mul. change (inj 8) with 8. field. Qed.
Close Scope Q_scope.

(* bounds *)
Definition levels_ok (w1 w2 w3 w4 vol : N) : Prop := w1 <= 225 /\ w2 <= 225 /\ w3 <= 120 /\ w4 <= 225 /\ vol <= 7.

Lemma mix_bound b1 b2 b3 b4 w1 w2 w3 w4 vol :
  levels_ok w1 w2 w3 w4 vol -> mix b1 b2 b3 b4 w1 w2 w3 w4 vol <= 5565.
Proof.
  intros (H1 & H2 & H3 & H4 & H5). unfold mix.
  set (a := if b1 then w1 else 0). set (b := if b2 then w2 else 0).
  set (c := if b3 then w3 else 0). set (d := if b4 then w4 else 0).
  assert (a <= 225) by (unfold a; destruct b1; lia). assert (b <= 225) by (unfold b; destruct b2; lia).
  assert (c <= 120) by (unfold c; destruct b3; lia). assert (d <= 225) by (unfold d; destruct b4; lia).
  nia.
Qed.

Theorem mix_range b1 b2 b3 b4 w1 w2 w3 w4 vol :
  levels_ok w1 w2 w3 w4 vol ->
  (0 <= inj (mix b1 b2 b3 b4 w1 w2 w3 w4 vol) / 6400 /\ inj (mix b1 b2 b3 b4 w1 w2 w3 w4 vol) / 6400 < 1)%Q.
Proof.
  intros H. pose proof (mix_bound b1 b2 b3 b4 _ _ _ _ _ H) as Hb.
  set (m := mix b1 b2 b3 b4 w1 w2 w3 w4 vol) in *. unfold inj.
  split.
  - apply Qle_shift_div_l; [reflexivity|]. rewrite Qmult_0_l. change 0%Q with (inject_Z 0). rewrite <- Zle_Qle. lia.
  - apply Qlt_shift_div_r; [reflexivity|]. rewrite Qmult_1_l. change 6400%Q with (inject_Z 6400). rewrite <- Zlt_Qlt. lia.
Qed.

(* routing: a side mixes only the channels routed to it *)
Theorem mix_ignores_unrouted_1 b2 b3 b4 w1 w1' w2 w3 w4 vol :
  mix false b2 b3 b4 w1 w2 w3 w4 vol = mix false b2 b3 b4 w1' w2 w3 w4 vol.
Proof. reflexivity. Qed.
Theorem mix_ignores_unrouted_2 b1 b3 b4 w1 w2 w2' w3 w4 vol :
  mix b1 false b3 b4 w1 w2 w3 w4 vol = mix b1 false b3 b4 w1 w2' w3 w4 vol.
Proof. reflexivity. Qed.
Theorem mix_ignores_unrouted_3 b1 b2 b4 w1 w2 w3 w3' w4 vol :
  mix b1 b2 false b4 w1 w2 w3 w4 vol = mix b1 b2 false b4 w1 w2 w3' w4 vol.
Proof. reflexivity. Qed.
Theorem mix_ignores_unrouted_4 b1 b2 b3 w1 w2 w3 w4 w4' vol :
  mix b1 b2 b3 false w1 w2 w3 w4 vol = mix b1 b2 b3 false w1 w2 w3 w4' vol.
Proof. reflexivity. Qed.

Theorem mix_zero b1 b2 b3 b4 w1 w2 w3 w4 vol :
  (b1 = true -> w1 = 0) -> (b2 = true -> w2 = 0) -> (b3 = true -> w3 = 0) -> (b4 = true -> w4 = 0) ->
  mix b1 b2 b3 b4 w1 w2 w3 w4 vol = 0.
Proof.
  intros H1 H2 H3 H4. unfold mix.
  destruct b1, b2, b3, b4; try rewrite (H1 eq_refl); try rewrite (H2 eq_refl); try rewrite (H3 eq_refl);
    try rewrite (H4 eq_refl); reflexivity.
Qed.

(* state level: the left / right value of the pair the sampler would emit in state s *)
Definition left_sample (s : apu) : N :=
  let c := ctl s in
  mix (ct1L c) (ct2L c) (ct3L c) (ct4L c) (sq_sample (ch1 s)) (sq_sample (ch2 s)) (wv_sample (ch3 s)) (ns_sample (ch4 s)) (ctVolL c).
Definition right_sample (s : apu) : N :=
  let c := ctl s in
  mix (ct1R c) (ct2R c) (ct3R c) (ct4R c) (sq_sample (ch1 s)) (sq_sample (ch2 s)) (wv_sample (ch3 s)) (ns_sample (ch4 s)) (ctVolR c).

Lemma take_sample_eq s :
  take_sample s = if is_on s && attached s then [(left_sample s, right_sample s)] else [].
Proof.
  unfold take_sample, is_on, left_sample, right_sample.
  destruct (ctOn (ctl s)), (attached s); reflexivity.
Qed.

(* a channel that is not on contributes nothing *)
Lemma sq_sample_off c : sqEnabled c = false -> sq_sample c = 0.
Proof. unfold sq_sample. intros ->. reflexivity. Qed.
Lemma wv_sample_off w : wvEnabled w = false -> wv_sample w = 0.
Proof. unfold wv_sample. intros ->. reflexivity. Qed.
Lemma ns_sample_off n : nsEnabled n = false -> ns_sample n = 0.
Proof. unfold ns_sample. intros ->. reflexivity. Qed.

(* C20: the sample of a side is 0 when no enabled channel is routed to it *)
Theorem left_zero s :
  (ct1L (ctl s) = true -> en1 s = false) -> (ct2L (ctl s) = true -> en2 s = false) ->
  (ct3L (ctl s) = true -> en3 s = false) -> (ct4L (ctl s) = true -> en4 s = false) ->
  left_sample s = 0.
Proof.
  intros H1 H2 H3 H4. unfold left_sample. cbv zeta. apply mix_zero; intros H.
  - apply sq_sample_off, H1, H. - apply sq_sample_off, H2, H. - apply wv_sample_off, H3, H. - apply ns_sample_off, H4, H.
Qed.
Theorem right_zero s :
  (ct1R (ctl s) = true -> en1 s = false) -> (ct2R (ctl s) = true -> en2 s = false) ->
  (ct3R (ctl s) = true -> en3 s = false) -> (ct4R (ctl s) = true -> en4 s = false) ->
  right_sample s = 0.
Proof.
  intros H1 H2 H3 H4. unfold right_sample. cbv zeta. apply mix_zero; intros H.
  - apply sq_sample_off, H1, H. - apply sq_sample_off, H2, H. - apply wv_sample_off, H3, H. - apply ns_sample_off, H4, H.
Qed.

(* C20 non-interference: states that agree on the control registers and on every channel routed to a side give
   the same sample on that side, whatever the unrouted channels look like *)
Theorem left_noninterference s s' :
  ctl s = ctl s' ->
  (ct1L (ctl s) = true -> ch1 s = ch1 s') -> (ct2L (ctl s) = true -> ch2 s = ch2 s') ->
  (ct3L (ctl s) = true -> ch3 s = ch3 s') -> (ct4L (ctl s) = true -> ch4 s = ch4 s') ->
  left_sample s = left_sample s'.
Proof.
  intros Hc H1 H2 H3 H4. unfold left_sample. cbv zeta. rewrite <- Hc. unfold mix.
  destruct (ct1L (ctl s)), (ct2L (ctl s)), (ct3L (ctl s)), (ct4L (ctl s));
    try rewrite (H1 eq_refl); try rewrite (H2 eq_refl); try rewrite (H3 eq_refl); try rewrite (H4 eq_refl); reflexivity.
Qed.
Theorem right_noninterference s s' :
  ctl s = ctl s' ->
  (ct1R (ctl s) = true -> ch1 s = ch1 s') -> (ct2R (ctl s) = true -> ch2 s = ch2 s') ->
  (ct3R (ctl s) = true -> ch3 s = ch3 s') -> (ct4R (ctl s) = true -> ch4 s = ch4 s') ->
  right_sample s = right_sample s'.
Proof.
  intros Hc H1 H2 H3 H4. unfold right_sample. cbv zeta. rewrite <- Hc. unfold mix.
  destruct (ct1R (ctl s)), (ct2R (ctl s)), (ct3R (ctl s)), (ct4R (ctl s));
    try rewrite (H1 eq_refl); try rewrite (H2 eq_refl); try rewrite (H3 eq_refl); try rewrite (H4 eq_refl); reflexivity.
Qed.

(* ------------------------------------------------------------------------------------------------- *)
(* bounds on the channel levels *)
Lemma nth_le1 (l : list N) i : (forall x, In x l -> x <= 1) -> nth i l 0 <= 1.
Proof.
  intros H. destruct (Nat.lt_ge_cases i (length l)) as [Hl|Hl].
  - apply H, nth_In, Hl.
  - rewrite nth_overflow by exact Hl. lia.
Qed.

Lemma duty_level_le d i : duty_level d i <= 1.
Proof.
  unfold duty_level. apply nth_le1. intros x Hx.
  assert (Hrow : forall r, In r waveduty -> forall y, In y r -> y <= 1).
  { intros r Hr y Hy. unfold waveduty in Hr. cbn in Hr.
    repeat (destruct Hr as [<-|Hr]; [cbn in Hy; repeat (destruct Hy as [<-|Hy]; [lia|]); contradiction|]). contradiction. }
  destruct (Nat.lt_ge_cases (N.to_nat d) (length waveduty)) as [Hl|Hl].
  - exact (Hrow _ (nth_In _ _ Hl) x Hx).
  - rewrite nth_overflow in Hx by exact Hl. contradiction.
Qed.

Definition sample_wf (s : apu) : Prop :=
  sqVolume (ch1 s) <= 15 /\ sqVolume (ch2 s) <= 15 /\ nsVolume (ch4 s) <= 15 /\ wvSampleBuf (ch3 s) <= 15 /\
  ctVolL (ctl s) <= 7 /\ ctVolR (ctl s) <= 7.

Lemma sq_sample_le c : sqVolume c <= 15 -> sq_sample c <= 225.
Proof.
  intros H. unfold sq_sample. destruct (sqEnabled c && sqDac c); [|lia].
  pose proof (duty_level_le (sqDuty c) (sqDutyIdx c)). nia.
Qed.
Lemma wv_sample_le w : wvSampleBuf w <= 15 -> wv_sample w <= 120.
Proof.
  intros H. unfold wv_sample. destruct (wvEnabled w); [|lia].
  assert (N.shiftr (wvSampleBuf w) (wvOutShift w) <= wvSampleBuf w).
  { rewrite N.shiftr_div_pow2. apply N.div_le_upper_bound; [apply N.pow_nonzero; discriminate|].
    pose proof (N.pow_nonzero 2 (wvOutShift w) ltac:(discriminate)) as Hp.
    set (p := 2 ^ wvOutShift w) in *. nia. }
  lia.
Qed.
Lemma ns_sample_le n : nsVolume n <= 15 -> ns_sample n <= 225.
Proof.
  intros H. unfold ns_sample. destruct (nsEnabled n && nsDac n); [|lia].
  assert (1 - N.land (nsLfsr n) 1 <= 1) by lia. nia.
Qed.

Lemma sample_wf_levels s :
  sample_wf s ->
  levels_ok (sq_sample (ch1 s)) (sq_sample (ch2 s)) (wv_sample (ch3 s)) (ns_sample (ch4 s)) (ctVolL (ctl s)) /\
  levels_ok (sq_sample (ch1 s)) (sq_sample (ch2 s)) (wv_sample (ch3 s)) (ns_sample (ch4 s)) (ctVolR (ctl s)).
Proof.
  intros (H1 & H2 & H4 & H3 & HL & HR). unfold levels_ok.
  pose proof (sq_sample_le _ H1). pose proof (sq_sample_le _ H2). pose proof (wv_sample_le _ H3).
  pose proof (ns_sample_le _ H4). repeat split; assumption.
Qed.

(* C20 range, for every state with register-sized volume fields *)
Theorem sample_range s :
  sample_wf s ->
  (0 <= inj (left_sample s) / 6400 /\ inj (left_sample s) / 6400 < 1)%Q /\
  (0 <= inj (right_sample s) / 6400 /\ inj (right_sample s) / 6400 < 1)%Q.
Proof.
  intros H. destruct (sample_wf_levels s H) as [HL HR]. unfold left_sample, right_sample. cbv zeta.
  split; apply mix_range; assumption.
Qed.

(* ------------------------------------------------------------------------------------------------- *)
(* [sample_wf] holds in every reachable state: invariant over all histories of byte writes and cycles *)
Definition sq_bv (c : square) := (sqVolume c, sqInitVol c).
Definition ns_bv (n : noise) := (nsVolume n, nsInitVol n).
Definition sq_b (c : square) : Prop := sqVolume c <= 15 /\ sqInitVol c <= 15.
Definition ns_b (n : noise) : Prop := nsVolume n <= 15 /\ nsInitVol n <= 15.
Definition wv_b (w : wave) : Prop := wvSampleBuf w <= 15 /\ forall i, Mem.get (wvRam w) i < 256.
Definition ct_b (c : control) : Prop := ctVolL c <= 7 /\ ctVolR c <= 7.
Definition sample_inv (s : apu) : Prop :=
  sq_b (ch1 s) /\ sq_b (ch2 s) /\ wv_b (ch3 s) /\ ns_b (ch4 s) /\ ct_b (ctl s).

Lemma sample_inv_wf s : sample_inv s -> sample_wf s.
Proof. intros ((A & _) & (B & _) & (C & _) & (D & _) & (E & F)). unfold sample_wf. auto 10. Qed.

Lemma sq_b_of_bv c c' : sq_bv c' = sq_bv c -> sq_b c -> sq_b c'.
Proof. unfold sq_bv, sq_b. intros H. apply pair_equal_spec in H. destruct H as [-> ->]. auto. Qed.
Lemma ns_b_of_bv n n' : ns_bv n' = ns_bv n -> ns_b n -> ns_b n'.
Proof. unfold ns_bv, ns_b. intros H. apply pair_equal_spec in H. destruct H as [-> ->]. auto. Qed.

Lemma sq_bv_tick_timer c : sq_bv (sq_tick_timer c) = sq_bv c.
Proof. unfold sq_tick_timer, sq_bv. break_ifs; reflexivity. Qed.
Lemma sq_bv_tick_length c : sq_bv (sq_tick_length c) = sq_bv c.
Proof. unfold sq_tick_length, sq_bv. break_ifs; reflexivity. Qed.
Lemma sq_bv_extra_len c l t o : sq_bv (sq_extra_len c l t o) = sq_bv c.
Proof. unfold sq_extra_len, sq_bv. break_ifs; reflexivity. Qed.
Lemma sq_bv_trig_len c l o : sq_bv (sq_trig_len c l o) = sq_bv c.
Proof. unfold sq_trig_len, sq_bv. break_ifs; reflexivity. Qed.
Lemma sq_bv_dac_check c : sq_bv (sq_dac_check c) = sq_bv c.
Proof. unfold sq_dac_check, sq_bv. break_ifs; reflexivity. Qed.
Lemma sq_bv_trigger_common c : sq_bv (sq_trigger_common c) = (sqInitVol c, sqInitVol c).
Proof. unfold sq_trigger_common, sq_bv. psimpl. break_ifs; reflexivity. Qed.

Lemma sq_b_envelope c : sq_b c -> sq_b (sq_tick_envelope c).
Proof.
  unfold sq_b, sq_tick_envelope. intros [H1 H2].
  destruct (sqEnvSweep c =? 0); [split; assumption|].
  destruct (sqEnvTimer c =? 0); psimpl; [|split; assumption].
  destruct (sqEnvInc c).
  - destruct (sqVolume c <? 15) eqn:E; psimpl; [|split; assumption]. unfold add8. split; [lia|assumption].
  - destruct (0 <? sqVolume c) eqn:E; psimpl; [|split; assumption]. unfold sub8. split; [lia|assumption].
Qed.
Lemma ns_b_envelope n : ns_b n -> ns_b (ns_tick_envelope n).
Proof.
  unfold ns_b, ns_tick_envelope. intros [H1 H2].
  destruct (nsEnvSweep n =? 0); [split; assumption|].
  destruct (nsEnvTimer n =? 0); psimpl; [|split; assumption].
  destruct (nsEnvInc n).
  - destruct (nsVolume n <? 15) eqn:E; psimpl; [|split; assumption]. unfold add8. split; [lia|assumption].
  - destruct (0 <? nsVolume n) eqn:E; psimpl; [|split; assumption]. unfold sub8. split; [lia|assumption].
Qed.

Lemma ns_bv_tick_timer n : ns_bv (ns_tick_timer n) = ns_bv n.
Proof. unfold ns_tick_timer, ns_bv. break_ifs; reflexivity. Qed.
Lemma ns_bv_tick_length n : ns_bv (ns_tick_length n) = ns_bv n.
Proof. unfold ns_tick_length, ns_bv. break_ifs; reflexivity. Qed.
Lemma ns_bv_extra_len n l t o : ns_bv (ns_extra_len n l t o) = ns_bv n.
Proof. unfold ns_extra_len, ns_bv. break_ifs; reflexivity. Qed.
Lemma ns_bv_trig_len n l o : ns_bv (ns_trig_len n l o) = ns_bv n.
Proof. unfold ns_trig_len, ns_bv. break_ifs; reflexivity. Qed.
Lemma ns_bv_trigger n : ns_bv (ns_trigger n) = (nsInitVol n, nsInitVol n).
Proof. unfold ns_trigger, ns_bv. psimpl. break_ifs; reflexivity. Qed.

Lemma shr4_le v : v < 256 -> N.shiftr v 4 <= 15.
Proof. intros H. rewrite N.shiftr_div_pow2. change (2 ^ 4) with 16. lia. Qed.
Lemma land_le x k : N.land x (N.ones k) <= N.ones k.
Proof. rewrite N.land_ones, N.ones_equiv. pose proof (N.mod_lt x (2 ^ k) (N.pow_nonzero 2 k ltac:(discriminate))). lia. Qed.

Lemma sq_b_write_nrx2 c v : v < 256 -> sq_b c -> sq_b (sq_write_nrx2 c v).
Proof.
  intros Hv [H1 H2]. unfold sq_write_nrx2, sq_b. psimpl.
  pose proof (shr4_le v Hv). break_ifs; split; assumption.
Qed.

Lemma calc_freq_bv c w : sq_bv (fst (fst (calc_freq c w))) = sq_bv c.
Proof. rewrite calc_freq_eq. cbn [fst]. destruct (2047 <? calc_nf w); reflexivity. Qed.

Lemma sweep_bv c w : sq_bv (fst (ch1_tick_sweep c w)) = sq_bv c.
Proof.
  unfold ch1_tick_sweep. destruct (swEnabled w); [|reflexivity]. psimpl.
  destruct (sub8 (swTimer w) 1 =? 0); [|reflexivity]. destruct (swPeriod w =? 0); [reflexivity|].
  rewrite calc_freq_eq. destruct ((calc_nf _ <? 2048) && _).
  - rewrite calc_freq_bv. destruct (2047 <? calc_nf _); reflexivity.
  - cbn [fst]. destruct (2047 <? calc_nf _); reflexivity.
Qed.

Lemma ch1_trigger_b c w : sq_b c -> sq_b (fst (ch1_trigger c w)).
Proof.
  intros [H1 H2]. unfold ch1_trigger. cbn [fst].
  apply (sq_b_of_bv (if 0 <? swShift (set_swEnabled (set_swTimer (set_swShadow w (sqFreq (sq_trigger_common c)))
                         (if swPeriod w =? 0 then 8 else swPeriod w)) ((0 <? swPeriod w) || (0 <? swShift w)))
                     then fst (fst (calc_freq (sq_trigger_common c) (set_swEnabled (set_swTimer (set_swShadow w (sqFreq (sq_trigger_common c)))
                         (if swPeriod w =? 0 then 8 else swPeriod w)) ((0 <? swPeriod w) || (0 <? swShift w)))))
                     else sq_trigger_common c)).
  - rewrite sq_bv_dac_check. destruct (0 <? swShift _); reflexivity.
  - apply (sq_b_of_bv (sq_trigger_common c)).
    + destruct (0 <? swShift _); [apply calc_freq_bv|reflexivity].
    + unfold sq_b. pose proof (sq_bv_trigger_common c) as E. unfold sq_bv in E. apply pair_equal_spec in E.
      destruct E as [-> ->]. split; assumption.
Qed.

Lemma ch2_trigger_b c : sq_b c -> sq_b (ch2_trigger c).
Proof.
  intros [H1 H2]. unfold ch2_trigger. apply (sq_b_of_bv (sq_trigger_common c)); [apply sq_bv_dac_check|].
  unfold sq_b. pose proof (sq_bv_trigger_common c) as E. unfold sq_bv in E. apply pair_equal_spec in E.
  destruct E as [-> ->]. split; assumption.
Qed.

Lemma ns_trigger_b n : ns_b n -> ns_b (ns_trigger n).
Proof.
  intros [H1 H2]. unfold ns_b. pose proof (ns_bv_trigger n) as E. unfold ns_bv in E. apply pair_equal_spec in E.
  destruct E as [-> ->]. split; assumption.
Qed.

(* wave channel: sample buffer and RAM bytes *)
Lemma wv_b_tick_timer w : wv_b w -> wv_b (wv_tick_timer w).
Proof.
  intros [H1 H2]. unfold wv_tick_timer, wv_b.
  destruct (wvEnabled w); [|split; assumption].
  destruct (wvTimer w =? 0); psimpl; [|split; assumption].
  split; [|exact H2].
  set (b := Mem.get (wvRam w) _). assert (Hb : b < 256) by apply H2.
  destruct (_ mod 2 =? 0).
  - apply shr4_le. exact Hb.
  - change 15 with (N.ones 4). apply land_le.
Qed.
Lemma wv_b_tick_length w : wv_b w -> wv_b (wv_tick_length w).
Proof. intros H. unfold wv_tick_length. break_ifs; exact H. Qed.
Lemma wv_b_extra_len w l t o : wv_b w -> wv_b (wv_extra_len w l t o).
Proof. intros H. unfold wv_extra_len. break_ifs; exact H. Qed.
Lemma wv_b_trig_len w l o : wv_b w -> wv_b (wv_trig_len w l o).
Proof. intros H. unfold wv_trig_len. break_ifs; exact H. Qed.

Lemma ram_copy_lt m d src : (forall i, Mem.get m i < 256) -> forall i, Mem.get (ram_copy m d src) i < 256.
Proof. intros H i. unfold ram_copy. rewrite Mem.gsspec. destruct (d =? i); apply H. Qed.

Lemma wv_b_corrupt w : wv_b w -> wv_b (wv_corrupt w).
Proof.
  intros [H1 H2]. unfold wv_corrupt, wv_b. psimpl. split; [exact H1|].
  destruct (_ <? 4); [apply ram_copy_lt; exact H2|].
  repeat apply ram_copy_lt. exact H2.
Qed.

Lemma wv_b_trigger w : wv_b w -> wv_b (wv_trigger w).
Proof.
  intros H. unfold wv_trigger.
  set (w1 := if wvEnabled w then _ else _).
  assert (H1 : wv_b w1) by (unfold w1; destruct (wvEnabled w); [destruct (wvTimer w =? 0); [apply wv_b_corrupt|]|]; exact H).
  clearbody w1. psimpl.
  set (w3 := if wvLength _ =? 0 then _ else _).
  assert (H3 : wv_b w3) by (unfold w3; destruct (wvLength _ =? 0); exact H1).
  clearbody w3. break_ifs; exact H3.
Qed.

(* state level: clocks *)
Lemma inv_tick_timers s : sample_inv s -> sample_inv (tick_timers s).
Proof.
  intros (H1 & H2 & H3 & H4 & H5). unfold sample_inv.
  destruct (tick_timers_proj s) as (-> & -> & -> & -> & _ & _ & _ & -> & _).
  repeat split; try apply H5.
  - destruct (sqTriggered (ch1 s)); [apply H1|]. apply (sq_b_of_bv (ch1 s)); [apply sq_bv_tick_timer|exact H1].
  - destruct (sqTriggered (ch1 s)); [apply H1|]. apply (sq_b_of_bv (ch1 s)); [apply sq_bv_tick_timer|exact H1].
  - destruct (sqTriggered (ch2 s)); [apply H2|]. apply (sq_b_of_bv (ch2 s)); [apply sq_bv_tick_timer|exact H2].
  - destruct (sqTriggered (ch2 s)); [apply H2|]. apply (sq_b_of_bv (ch2 s)); [apply sq_bv_tick_timer|exact H2].
  - destruct (wvTriggered (ch3 s)); [apply H3|]. apply wv_b_tick_timer; exact H3.
  - destruct (wvTriggered (ch3 s)); [apply H3|]. apply wv_b_tick_timer; exact H3.
  - destruct (nsTriggered (ch4 s)); [apply H4|]. apply (ns_b_of_bv (ch4 s)); [apply ns_bv_tick_timer|exact H4].
  - destruct (nsTriggered (ch4 s)); [apply H4|]. apply (ns_b_of_bv (ch4 s)); [apply ns_bv_tick_timer|exact H4].
Qed.

Lemma inv_tick_lengths s : sample_inv s -> sample_inv (tick_lengths s).
Proof.
  intros (H1 & H2 & H3 & H4 & H5). unfold sample_inv, tick_lengths. psimpl.
  split; [apply (sq_b_of_bv (ch1 s)); [apply sq_bv_tick_length|exact H1]|].
  split; [apply (sq_b_of_bv (ch2 s)); [apply sq_bv_tick_length|exact H2]|].
  split; [apply wv_b_tick_length; exact H3|].
  split; [apply (ns_b_of_bv (ch4 s)); [apply ns_bv_tick_length|exact H4]|exact H5].
Qed.

Lemma inv_tick_envelopes s : sample_inv s -> sample_inv (tick_envelopes s).
Proof.
  intros (H1 & H2 & H3 & H4 & H5). unfold sample_inv, tick_envelopes. psimpl.
  split; [apply sq_b_envelope; exact H1|]. split; [apply sq_b_envelope; exact H2|].
  split; [exact H3|]. split; [apply ns_b_envelope; exact H4|exact H5].
Qed.

Lemma inv_tick_sweep s : sample_inv s -> sample_inv (tick_sweep s).
Proof.
  intros (H1 & H2 & H3 & H4 & H5). unfold sample_inv, tick_sweep. psimpl.
  split; [apply (sq_b_of_bv (ch1 s)); [apply sweep_bv|exact H1]|]. repeat split; try apply H2; try apply H3; try apply H4; apply H5.
Qed.

Lemma inv_fs_part s : sample_inv s -> sample_inv (fs_part s).
Proof.
  intros H. unfold fs_part.
  repeat match goal with |- context [if ?b then _ else _] => destruct b end;
    repeat first [apply inv_tick_sweep | apply inv_tick_envelopes | apply inv_tick_lengths]; exact H.
Qed.

Lemma inv_ignores_clock s t q : sample_inv s -> sample_inv (set_fseq (set_ticks s t) q).
Proof. intros H. exact H. Qed.

Lemma inv_tick s : sample_inv s -> sample_inv (tick s).
Proof.
  intros H. unfold tick. rewrite tick_clock_shape. cbv zeta.
  assert (Ha : sample_inv (after_timers s)).
  { unfold after_timers. apply inv_tick_timers. unfold wrap_ticks. destruct (ticksPerSecond <? ticks s); exact H. }
  destruct (fs_hit s); [|exact Ha].
  pose proof (inv_fs_part _ Ha) as Hf.
  match goal with |- context [if ?b then _ else _] => destruct b end; exact Hf.
Qed.

Lemma inv_clear s : sample_inv s -> sample_inv (clear_triggered s).
Proof. intros H. exact H. Qed.

Lemma inv_cycle s : sample_inv s -> sample_inv (fst (apu_end_machine_cycle s)).
Proof. intros H. rewrite end_cycle_ticks. apply inv_clear. repeat apply inv_tick. exact H. Qed.

(* state level: register writes of bytes *)
Lemma sq_b_same c c' : sqVolume c' = sqVolume c -> sqInitVol c' = sqInitVol c -> sq_b c -> sq_b c'.
Proof. unfold sq_b. intros -> ->. auto. Qed.
Lemma ns_b_same n n' : nsVolume n' = nsVolume n -> nsInitVol n' = nsInitVol n -> ns_b n -> ns_b n'.
Proof. unfold ns_b. intros -> ->. auto. Qed.
Lemma wv_b_same w w' : wvSampleBuf w' = wvSampleBuf w -> wvRam w' = wvRam w -> wv_b w -> wv_b w'.
Proof. unfold wv_b. intros -> ->. auto. Qed.

Ltac inv_start :=
  match goal with
  | |- ?v < 256 -> sample_inv ?s -> _ =>
      let Hv := fresh "Hv" in
      intros Hv (H1 & H2 & H3 & H4 & H5); unfold sample_inv;
      destruct (ctOn (ctl s)) eqn:Hon
  end.

Lemma inv_W10 s v : v < 256 -> sample_inv s -> sample_inv (WriteNR10 s v).
Proof.
  intros Hv (H1 & H2 & H3 & H4 & H5). unfold sample_inv, WriteNR10.
  destruct (ctOn (ctl s)); [|repeat split; try apply H1; try apply H2; try apply H3; try apply H4; apply H5].
  psimpl. split; [|repeat split; try apply H2; try apply H3; try apply H4; apply H5].
  break_ifs; exact H1.
Qed.
Lemma inv_W11 s v : v < 256 -> sample_inv s -> sample_inv (WriteNR11 s v).
Proof.
  intros Hv (H1 & H2 & H3 & H4 & H5). unfold sample_inv, WriteNR11. psimpl.
  split; [|repeat split; try apply H2; try apply H3; try apply H4; apply H5].
  destruct (ctOn (ctl s)); exact H1.
Qed.
Lemma inv_W12 s v : v < 256 -> sample_inv s -> sample_inv (WriteNR12 s v).
Proof.
  intros Hv (H1 & H2 & H3 & H4 & H5). unfold sample_inv, WriteNR12.
  destruct (ctOn (ctl s)); [|repeat split; try apply H1; try apply H2; try apply H3; try apply H4; apply H5].
  psimpl. split; [apply sq_b_write_nrx2; assumption|repeat split; try apply H2; try apply H3; try apply H4; apply H5].
Qed.
Lemma inv_W13 s v : v < 256 -> sample_inv s -> sample_inv (WriteNR13 s v).
Proof.
  intros Hv (H1 & H2 & H3 & H4 & H5). unfold sample_inv, WriteNR13.
  destruct (ctOn (ctl s)); [|repeat split; try apply H1; try apply H2; try apply H3; try apply H4; apply H5].
  psimpl. split; [exact H1|repeat split; try apply H2; try apply H3; try apply H4; apply H5].
Qed.
Lemma inv_W14 s v : v < 256 -> sample_inv s -> sample_inv (WriteNR14 s v).
Proof.
  intros Hv (H1 & H2 & H3 & H4 & H5). unfold sample_inv, WriteNR14.
  destruct (ctOn (ctl s)); [|repeat split; try apply H1; try apply H2; try apply H3; try apply H4; apply H5].
  psimpl. split; [|repeat split; try apply H2; try apply H3; try apply H4; apply H5].
  set (c0 := set_sqFreq (ch1 s) _).
  assert (B0 : sq_b c0) by exact H1.
  set (c1 := sq_extra_len c0 _ _ _).
  assert (B1 : sq_b c1) by (apply (sq_b_of_bv c0); [apply sq_bv_extra_len|exact B0]).
  clearbody c1. clear B0. clearbody c0.
  destruct (0 <? N.land (N.shiftr v 7) 1); cbn [fst snd].
  - apply (sq_b_same (sq_trig_len (fst (ch1_trigger c1 (sw1 s))) (0 <? N.land (N.shiftr v 6) 1) (odd_seq s))); try reflexivity.
    apply (sq_b_of_bv (fst (ch1_trigger c1 (sw1 s)))); [apply sq_bv_trig_len|]. apply ch1_trigger_b. exact B1.
  - exact B1.
Qed.

Lemma inv_W21 s v : v < 256 -> sample_inv s -> sample_inv (WriteNR21 s v).
Proof.
  intros Hv (H1 & H2 & H3 & H4 & H5). unfold sample_inv, WriteNR21. psimpl.
  split; [exact H1|]. split; [|repeat split; try apply H3; try apply H4; apply H5].
  destruct (ctOn (ctl s)); exact H2.
Qed.
Lemma inv_W22 s v : v < 256 -> sample_inv s -> sample_inv (WriteNR22 s v).
Proof.
  intros Hv (H1 & H2 & H3 & H4 & H5). unfold sample_inv, WriteNR22.
  destruct (ctOn (ctl s)); [|repeat split; try apply H1; try apply H2; try apply H3; try apply H4; apply H5].
  psimpl. split; [exact H1|]. split; [apply sq_b_write_nrx2; assumption|repeat split; try apply H3; try apply H4; apply H5].
Qed.
Lemma inv_W23 s v : v < 256 -> sample_inv s -> sample_inv (WriteNR23 s v).
Proof.
  intros Hv (H1 & H2 & H3 & H4 & H5). unfold sample_inv, WriteNR23.
  destruct (ctOn (ctl s)); [|repeat split; try apply H1; try apply H2; try apply H3; try apply H4; apply H5].
  psimpl. split; [exact H1|]. split; [exact H2|repeat split; try apply H3; try apply H4; apply H5].
Qed.
Lemma inv_W24 s v : v < 256 -> sample_inv s -> sample_inv (WriteNR24 s v).
Proof.
  intros Hv (H1 & H2 & H3 & H4 & H5). unfold sample_inv, WriteNR24.
  destruct (ctOn (ctl s)); [|repeat split; try apply H1; try apply H2; try apply H3; try apply H4; apply H5].
  psimpl. split; [exact H1|]. split; [|repeat split; try apply H3; try apply H4; apply H5].
  set (c0 := set_sqFreq (ch2 s) _).
  assert (B0 : sq_b c0) by exact H2.
  set (c1 := sq_extra_len c0 _ _ _).
  assert (B1 : sq_b c1) by (apply (sq_b_of_bv c0); [apply sq_bv_extra_len|exact B0]).
  clearbody c1. clear B0. clearbody c0.
  destruct (0 <? N.land (N.shiftr v 7) 1).
  - apply (sq_b_same (sq_trig_len (ch2_trigger c1) (0 <? N.land (N.shiftr v 6) 1) (odd_seq s))); try reflexivity.
    apply (sq_b_of_bv (ch2_trigger c1)); [apply sq_bv_trig_len|]. apply ch2_trigger_b. exact B1.
  - exact B1.
Qed.

Lemma inv_W30 s v : v < 256 -> sample_inv s -> sample_inv (WriteNR30 s v).
Proof.
  intros Hv (H1 & H2 & H3 & H4 & H5). unfold sample_inv, WriteNR30.
  destruct (ctOn (ctl s)); [|repeat split; try apply H1; try apply H2; try apply H3; try apply H4; apply H5].
  psimpl. split; [exact H1|]. split; [exact H2|]. split; [|split; [exact H4|exact H5]].
  break_ifs; exact H3.
Qed.
Lemma inv_W31 s v : v < 256 -> sample_inv s -> sample_inv (WriteNR31 s v).
Proof. intros Hv (H1 & H2 & H3 & H4 & H5). unfold sample_inv, WriteNR31. psimpl. repeat split; try apply H1; try apply H2; try apply H3; try apply H4; apply H5. Qed.
Lemma inv_W32 s v : v < 256 -> sample_inv s -> sample_inv (WriteNR32 s v).
Proof.
  intros Hv (H1 & H2 & H3 & H4 & H5). unfold sample_inv, WriteNR32.
  destruct (ctOn (ctl s)); psimpl; repeat split; try apply H1; try apply H2; try apply H3; try apply H4; apply H5.
Qed.
Lemma inv_W33 s v : v < 256 -> sample_inv s -> sample_inv (WriteNR33 s v).
Proof.
  intros Hv (H1 & H2 & H3 & H4 & H5). unfold sample_inv, WriteNR33.
  destruct (ctOn (ctl s)); psimpl; repeat split; try apply H1; try apply H2; try apply H3; try apply H4; apply H5.
Qed.
Lemma inv_W34 s v : v < 256 -> sample_inv s -> sample_inv (WriteNR34 s v).
Proof.
  intros Hv (H1 & H2 & H3 & H4 & H5). unfold sample_inv, WriteNR34.
  destruct (ctOn (ctl s)); [|repeat split; try apply H1; try apply H2; try apply H3; try apply H4; apply H5].
  psimpl. split; [exact H1|]. split; [exact H2|]. split; [|split; [exact H4|exact H5]].
  set (w0 := set_wvFreq (ch3 s) _).
  assert (B0 : wv_b w0) by exact H3.
  set (w1 := wv_extra_len w0 _ _ _).
  assert (B1 : wv_b w1) by (apply wv_b_extra_len; exact B0).
  clearbody w1. clear B0. clearbody w0.
  destruct (0 <? N.land (N.shiftr v 7) 1).
  - apply (wv_b_same (wv_trig_len (wv_trigger w1) (0 <? N.land (N.shiftr v 6) 1) (odd_seq s))); try reflexivity.
    apply wv_b_trig_len, wv_b_trigger. exact B1.
  - exact B1.
Qed.

Lemma inv_W41 s v : v < 256 -> sample_inv s -> sample_inv (WriteNR41 s v).
Proof. intros Hv (H1 & H2 & H3 & H4 & H5). unfold sample_inv, WriteNR41. psimpl. repeat split; try apply H1; try apply H2; try apply H3; try apply H4; apply H5. Qed.
Lemma inv_W42 s v : v < 256 -> sample_inv s -> sample_inv (WriteNR42 s v).
Proof.
  intros Hv (H1 & H2 & H3 & H4 & H5). unfold sample_inv, WriteNR42.
  destruct (ctOn (ctl s)); [|repeat split; try apply H1; try apply H2; try apply H3; try apply H4; apply H5].
  psimpl. split; [exact H1|]. split; [exact H2|]. split; [exact H3|]. split; [|exact H5].
  pose proof (shr4_le v Hv). destruct H4 as [A B]. unfold ns_b. break_ifs; split; assumption.
Qed.
Lemma inv_W43 s v : v < 256 -> sample_inv s -> sample_inv (WriteNR43 s v).
Proof.
  intros Hv (H1 & H2 & H3 & H4 & H5). unfold sample_inv, WriteNR43.
  destruct (ctOn (ctl s)); psimpl; repeat split; try apply H1; try apply H2; try apply H3; try apply H4; apply H5.
Qed.
Lemma inv_W44 s v : v < 256 -> sample_inv s -> sample_inv (WriteNR44 s v).
Proof.
  intros Hv (H1 & H2 & H3 & H4 & H5). unfold sample_inv, WriteNR44.
  destruct (ctOn (ctl s)); [|repeat split; try apply H1; try apply H2; try apply H3; try apply H4; apply H5].
  psimpl. split; [exact H1|]. split; [exact H2|]. split; [exact H3|]. split; [|exact H5].
  set (n1 := ns_extra_len (ch4 s) _ _ _).
  assert (B1 : ns_b n1) by (apply (ns_b_of_bv (ch4 s)); [apply ns_bv_extra_len|exact H4]).
  clearbody n1.
  destruct (0 <? N.land (N.shiftr v 7) 1).
  - apply (ns_b_same (ns_trig_len (ns_trigger n1) (0 <? N.land (N.shiftr v 6) 1) (odd_seq s))); try reflexivity.
    apply (ns_b_of_bv (ns_trigger n1)); [apply ns_bv_trig_len|]. apply ns_trigger_b. exact B1.
  - exact B1.
Qed.

Lemma inv_W50 s v : v < 256 -> sample_inv s -> sample_inv (WriteNR50 s v).
Proof.
  intros Hv (H1 & H2 & H3 & H4 & H5). unfold sample_inv, WriteNR50.
  destruct (ctOn (ctl s)); [|repeat split; try apply H1; try apply H2; try apply H3; try apply H4; apply H5].
  psimpl. split; [exact H1|]. split; [exact H2|]. split; [exact H3|]. split; [exact H4|].
  unfold ct_b. psimpl. change 7 with (N.ones 3). split; apply land_le.
Qed.
Lemma inv_W51 s v : v < 256 -> sample_inv s -> sample_inv (WriteNR51 s v).
Proof.
  intros Hv (H1 & H2 & H3 & H4 & H5). unfold sample_inv, WriteNR51.
  destruct (ctOn (ctl s)); psimpl; repeat split; try apply H1; try apply H2; try apply H3; try apply H4; apply H5.
Qed.

Lemma inv_WWave s a v : v < 256 -> sample_inv s -> sample_inv (WriteWaveRAM s a v).
Proof.
  intros Hv (H1 & H2 & H3 & H4 & H5). unfold sample_inv, WriteWaveRAM.
  assert (Hset : forall i, wv_b (set_wvRam (ch3 s) (Mem.set (wvRam (ch3 s)) i v))).
  { intros i. destruct H3 as [A B]. split; [exact A|]. intros j. psimpl. rewrite Mem.gsspec. destruct (i =? j); [exact Hv|apply B]. }
  break_ifs; repeat split; try apply H1; try apply H2; try apply H3; try apply H4; try apply H5; try apply Hset.
Qed.

Lemma inv_set_on s b : sample_inv s -> sample_inv (set_on s b).
Proof. intros H. exact H. Qed.

Lemma inv_off_chain s : sample_inv s -> sample_inv (off_chain s).
Proof.
  intros H. unfold off_chain.
  assert (H0 : (0 : N) < 256) by reflexivity.
  apply inv_W51, inv_W50, inv_W44, inv_W43, inv_W42, inv_W34, inv_W33, inv_W32, inv_W30, inv_W24, inv_W23, inv_W22,
        inv_W14, inv_W13, inv_W12, inv_W10, inv_set_on; assumption.
Qed.

Lemma inv_off_tail x : sample_inv x -> sample_inv (off_tail x).
Proof. intros H. exact H. Qed.
Lemma inv_set_fseq x q : sample_inv x -> sample_inv (set_fseq x q).
Proof. intros H. exact H. Qed.

Lemma inv_W52 s v : sample_inv s -> sample_inv (WriteNR52 s v).
Proof.
  intros H. destruct (N.shiftr v 7 =? 0) eqn:E.
  - rewrite (W52_off_eq s v E). apply inv_off_tail, inv_off_chain, H.
  - rewrite (W52_on_eq s v E). apply inv_set_on. destruct (ctOn (ctl s)); [exact H|apply inv_set_fseq, H].
Qed.

Lemma inv_write s a v : v < 256 -> sample_inv s -> sample_inv (apu_bus_write s a v).
Proof.
  intros Hv H. addr_chain.
  1: apply inv_W10; assumption. 1: apply inv_W11; assumption. 1: apply inv_W12; assumption.
  1: apply inv_W13; assumption. 1: apply inv_W14; assumption. 1: apply inv_W21; assumption.
  1: apply inv_W22; assumption. 1: apply inv_W23; assumption. 1: apply inv_W24; assumption.
  1: apply inv_W30; assumption. 1: apply inv_W31; assumption. 1: apply inv_W32; assumption.
  1: apply inv_W33; assumption. 1: apply inv_W34; assumption. 1: apply inv_W41; assumption.
  1: apply inv_W42; assumption. 1: apply inv_W43; assumption. 1: apply inv_W44; assumption.
  1: apply inv_W50; assumption. 1: apply inv_W51; assumption. 1: apply inv_W52; assumption.
  repeat match goal with |- context [if ?b then _ else _] => destruct b end; try exact H.
  apply inv_WWave; assumption.
Qed.

Lemma inv_init att : sample_inv (apu_new att).
Proof.
  unfold sample_inv, sq_b, wv_b, ns_b, ct_b.
  assert (Hram : forall i, Mem.get (wvRam (ch3 (apu_new att))) i < 256).
  { intros i.
    assert (E : wvRam (ch3 (apu_new att)) = ram_of_list wave_init_ram 0 (Mem.empty 0)) by (destruct att; reflexivity).
    rewrite E. unfold wave_init_ram. cbn [ram_of_list].
    repeat (rewrite Mem.gsspec; match goal with |- (if ?c then _ else _) < 256 => destruct c; [reflexivity|] end).
    rewrite Mem.get_empty. reflexivity. }
  destruct att; (repeat split; try exact Hram; vm_compute; discriminate).
Qed.

Definition byte_op (o : apu_op) : Prop := match o with OWrite _ v => v < 256 | OCycle => True end.

Theorem sample_inv_run h : forall s, Forall byte_op h -> sample_inv s -> sample_inv (apu_run s h).
Proof.
  induction h as [|o h IH]; intros s Hall H; [exact H|]. inversion Hall as [|? ? Ho Hh]; subst.
  rewrite apu_run_cons. apply IH; [exact Hh|].
  destruct o; cbn [apu_step]; [apply inv_write; assumption|apply inv_cycle; exact H].
Qed.

(* also at every clock inside a machine cycle, and in the state the sampler looks at *)
Lemma inv_sampler_state s : sample_inv s -> sample_inv (sampler_state s).
Proof.
  intros H. unfold sampler_state.
  assert (Ha : sample_inv (after_timers s)).
  { unfold after_timers. apply inv_tick_timers. unfold wrap_ticks. destruct (ticksPerSecond <? ticks s); exact H. }
  destruct (fs_hit s); [|exact Ha].
  pose proof (inv_fs_part _ Ha) as Hf.
  match goal with |- context [if ?b then _ else _] => destruct b end; exact Hf.
Qed.

(* C20 range: every sample pair emitted by any clock in a state satisfying the invariant (hence in every state
   reachable from audio.New by byte writes and cycles, and at every clock within the cycles) is in [0, 1) *)
Theorem emitted_in_range s l r :
  sample_inv s -> In (l, r) (snd (apu_tick_clock s)) ->
  (0 <= inj l / 6400 /\ inj l / 6400 < 1)%Q /\ (0 <= inj r / 6400 /\ inj r / 6400 < 1)%Q.
Proof.
  intros Hinv Hin. rewrite tick_clock_out in Hin.
  destruct (norm_ticks s mod 95 =? 0); [|contradiction].
  rewrite take_sample_eq in Hin. destruct (is_on (sampler_state s) && attached (sampler_state s)); [|contradiction].
  destruct Hin as [E|[]]. apply pair_equal_spec in E. destruct E as [<- <-].
  apply sample_range, sample_inv_wf, inv_sampler_state. exact Hinv.
Qed.

Theorem reachable_sample_inv att h : Forall byte_op h -> sample_inv (apu_run (apu_new att) h).
Proof. intros H. apply sample_inv_run; [exact H|apply inv_init]. Qed.

(* ------------------------------------------------------------------------------------------------- *)
(* pacing over whole histories: arbitrary register traffic that does not touch NR52, sound on, outputs attached *)
Fixpoint hist_pairs (h : list apu_op) (s : apu) : N :=
  match h with
  | [] => 0
  | OWrite a v :: r => hist_pairs r (apu_bus_write s a v)
  | OCycle :: r => N.of_nat (length (snd (apu_end_machine_cycle s))) + hist_pairs r (fst (apu_end_machine_cycle s))
  end.

Lemma end_cycle_out s :
  snd (apu_end_machine_cycle s) =
  snd (apu_tick_clock s) ++ snd (apu_tick_clock (tick s)) ++ snd (apu_tick_clock (tick (tick s))) ++
  snd (apu_tick_clock (tick (tick (tick s)))).
Proof.
  unfold apu_end_machine_cycle, tick.
  destruct (apu_tick_clock s) as [s1 o1]; cbn [fst snd].
  destruct (apu_tick_clock s1) as [s2 o2]; cbn [fst snd].
  destruct (apu_tick_clock s2) as [s3 o3]; cbn [fst snd].
  destruct (apu_tick_clock s3) as [s4 o4]; cbn [fst snd]. reflexivity.
Qed.

Lemma cycle_pairs s :
  N.of_nat (length (snd (apu_end_machine_cycle s))) = run_pairs [UTick; UTick; UTick; UTick; UClear] s.
Proof.
  rewrite end_cycle_out, !app_length, !Nat2N.inj_add. cbn [run_pairs]. lia.
Qed.

Lemma pairs_between_split k a b :
  k < 4194304 -> pairs_between k (a + b) = pairs_between k a + pairs_between ((k + a) mod 4194304) b.
Proof.
  intros Hk. unfold pairs_between. rewrite (pairs_upto_shift (k + a) b).
  pose proof (pairs_upto_mono k a). pose proof (pairs_upto_mono (k + a) b).
  replace (k + (a + b)) with (k + a + b) by lia. lia.
Qed.

Lemma pace_inv_write s a v : a <> 0xFF26 -> pace_inv true true s -> pace_inv true true (apu_bus_write s a v) /\
  phase (apu_bus_write s a v) = phase s.
Proof.
  intros Hne (Hwf & Hon & Hatt).
  destruct (clk_write s a v Hne) as [T F].
  assert (Hp : phase (apu_bus_write s a v) = phase s) by (unfold phase, norm_ticks; rewrite T; reflexivity).
  split; [|exact Hp]. split; [apply clk_wf_write; exact Hwf|].
  split.
  - rewrite is_on_write. destruct (N.eqb_spec a 0xFF26); [contradiction|exact Hon].
  - revert Hne. clear - Hatt. intros Hne. rewrite <- Hatt.
    addr_chain; try contradiction;
      try (unfold WriteNR10, WriteNR11, WriteNR12, WriteNR13, WriteNR14, WriteNR21, WriteNR22, WriteNR23, WriteNR24,
             WriteNR30, WriteNR31, WriteNR32, WriteNR33, WriteNR34, WriteNR41, WriteNR42, WriteNR43, WriteNR44,
             WriteNR50, WriteNR51, sq_write_nrx2; destruct (ctOn (ctl s)); reflexivity).
    repeat match goal with |- context [if ?b then _ else _] => destruct b end; try reflexivity.
    apply (frame_WWave s a v).
Qed.

Lemma pace_inv_run l : forall s, pace_inv true true s -> pace_inv true true (fold_left exec_u l s).
Proof.
  induction l as [|u l IH]; intros s H; [exact H|]. cbn [fold_left]. apply IH.
  destruct u; cbn [exec_u]; [apply pace_inv_tick; exact H|exact H].
Qed.

Theorem hist_pairs_on h : forall s,
  pace_inv true true s ->
  Forall (fun o => match o with OWrite a v => a <> 0xFF26 | OCycle => True end) h ->
  hist_pairs h s = pairs_between (phase s) (4 * n_cycles h).
Proof.
  induction h as [|o h IH]; intros s Hinv Hall.
  - cbn [hist_pairs n_cycles]. unfold pairs_between. rewrite N.mul_0_r, N.add_0_r. lia.
  - inversion Hall as [|? ? Ho Hh]; subst. destruct o as [a v|]; cbn [hist_pairs n_cycles].
    + destruct (pace_inv_write s a v Ho Hinv) as [Hi Hp]. rewrite (IH _ Hi Hh), Hp. reflexivity.
    + rewrite cycle_pairs, (run_pairs_on _ s Hinv). cbn [n_ticks].
      rewrite end_cycle_ticks, <- fold_cycle.
      pose proof (pace_inv_run [UTick; UTick; UTick; UTick; UClear] s Hinv) as Hi.
      rewrite (IH _ Hi Hh).
      destruct Hinv as (Hwf & _).
      destruct (clk_run [UTick; UTick; UTick; UTick; UClear] s Hwf) as (_ & P & _). cbv zeta in P. cbn [n_ticks] in P.
      rewrite P. replace (4 * N.succ (n_cycles h)) with (4 + 4 * n_cycles h) by lia.
      rewrite (pairs_between_split (phase s) 4 (4 * n_cycles h) (phase_lt s Hwf)).
      replace (N.succ (N.succ (N.succ (N.succ 0)))) with 4 by reflexivity. reflexivity.
Qed.

(* from audio.New with outputs: the closed form of the statement *)
Theorem pairs_from_new h :
  Forall (fun o => match o with OWrite a v => a <> 0xFF26 | OCycle => True end) h ->
  let n := 4 * n_cycles h in
  hist_pairs h (apu_new true) = n / 4194304 * 44150 + (n mod 4194304) / 95.
Proof.
  intros Hall. cbv zeta. rewrite hist_pairs_on; [|split; [apply clk_wf_init|split; reflexivity]|exact Hall].
  assert (E : phase (apu_new true) = 0) by reflexivity. rewrite E. apply pairs_between_0.
Qed.

Theorem range_reachable (att : bool) (h : list apu_op) (l : list uop) (x y : N) :
  Forall byte_op h ->
  let s := fold_left exec_u l (apu_run (apu_new att) h) in
  In (x, y) (snd (apu_tick_clock s)) ->
  (0 <= inj x / 6400 /\ inj x / 6400 < 1)%Q /\ (0 <= inj y / 6400 /\ inj y / 6400 < 1)%Q.
Proof.
  intros Hb s Hin. apply (emitted_in_range s x y); [|exact Hin].
  unfold s. clear Hin s. pose proof (reachable_sample_inv att h Hb) as H.
  generalize dependent (apu_run (apu_new att) h). intros s0 H.
  revert s0 H. induction l as [|u l IH]; intros s0 H; [exact H|].
  cbn [fold_left]. apply IH. destruct u; cbn [exec_u]; [apply inv_tick|apply inv_clear]; exact H.
Qed.

(* ------------------------------------------------------------------------------------------------- *)
(* C20: an APU power cycle clears NR50 and NR51, so both sides stay silent until they are written again *)
Definition mixer_cleared (c : control) : Prop :=
  ct1L c = false /\ ct2L c = false /\ ct3L c = false /\ ct4L c = false /\
  ct1R c = false /\ ct2R c = false /\ ct3R c = false /\ ct4R c = false /\ ctVolL c = 0 /\ ctVolR c = 0.

Lemma mixer_cleared_silent s : mixer_cleared (ctl s) -> left_sample s = 0 /\ right_sample s = 0.
Proof.
  intros (A1 & A2 & A3 & A4 & B1 & B2 & B3 & B4 & _ & _). unfold left_sample, right_sample. cbv zeta.
  rewrite A1, A2, A3, A4, B1, B2, B3, B4. split; reflexivity.
Qed.

Lemma clear_mixer_writes x : is_on x = true -> mixer_cleared (ctl (WriteNR51 (WriteNR50 x 0) 0)).
Proof.
  unfold is_on. intros Hon. unfold WriteNR51, WriteNR50. rewrite Hon. psimpl. rewrite Hon. psimpl.
  unfold mixer_cleared. psimpl. repeat split; reflexivity.
Qed.

Definition off_chain_pre (s : apu) : apu :=
  WriteNR44 (WriteNR43 (WriteNR42 (WriteNR34 (WriteNR33 (WriteNR32 (WriteNR30
  (WriteNR24 (WriteNR23 (WriteNR22 (WriteNR14 (WriteNR13 (WriteNR12 (WriteNR10 (set_on s true) 0) 0) 0) 0) 0) 0) 0)
  0) 0) 0) 0) 0) 0) 0.

Lemma off_chain_split s : off_chain s = WriteNR51 (WriteNR50 (off_chain_pre s) 0) 0.
Proof. unfold off_chain, off_chain_pre. reflexivity. Qed.

Lemma is_on_frames x v :
  is_on (WriteNR10 x v) = is_on x /\ is_on (WriteNR12 x v) = is_on x /\ is_on (WriteNR13 x v) = is_on x /\
  is_on (WriteNR14 x v) = is_on x /\ is_on (WriteNR22 x v) = is_on x /\ is_on (WriteNR23 x v) = is_on x /\
  is_on (WriteNR24 x v) = is_on x /\ is_on (WriteNR30 x v) = is_on x /\ is_on (WriteNR32 x v) = is_on x /\
  is_on (WriteNR33 x v) = is_on x /\ is_on (WriteNR34 x v) = is_on x /\ is_on (WriteNR42 x v) = is_on x /\
  is_on (WriteNR43 x v) = is_on x /\ is_on (WriteNR44 x v) = is_on x.
Proof.
  repeat split.
  - apply (frame_W10 x v). - apply (frame_W12 x v). - apply (frame_W13 x v). - apply (frame_W14 x v).
  - apply (frame_W22 x v). - apply (frame_W23 x v). - apply (frame_W24 x v). - apply (frame_W30 x v).
  - apply (frame_W32 x v). - apply (frame_W33 x v). - apply (frame_W34 x v). - apply (frame_W42 x v).
  - apply (frame_W43 x v). - apply (frame_W44 x v).
Qed.

Lemma is_on_off_chain_pre s : is_on (off_chain_pre s) = true.
Proof.
  unfold off_chain_pre.
  repeat match goal with
         | |- is_on (?W ?x 0) = true =>
             let H := fresh in pose proof (is_on_frames x 0) as H;
             first [ rewrite (proj1 H) | rewrite (proj1 (proj2 H)) | rewrite (proj1 (proj2 (proj2 H)))
                   | rewrite (proj1 (proj2 (proj2 (proj2 H)))) | rewrite (proj1 (proj2 (proj2 (proj2 (proj2 H)))))
                   | rewrite (proj1 (proj2 (proj2 (proj2 (proj2 (proj2 H))))))
                   | rewrite (proj1 (proj2 (proj2 (proj2 (proj2 (proj2 (proj2 H)))))))
                   | rewrite (proj1 (proj2 (proj2 (proj2 (proj2 (proj2 (proj2 (proj2 H))))))))
                   | rewrite (proj1 (proj2 (proj2 (proj2 (proj2 (proj2 (proj2 (proj2 (proj2 H)))))))))
                   | rewrite (proj1 (proj2 (proj2 (proj2 (proj2 (proj2 (proj2 (proj2 (proj2 (proj2 H))))))))))
                   | rewrite (proj1 (proj2 (proj2 (proj2 (proj2 (proj2 (proj2 (proj2 (proj2 (proj2 (proj2 H)))))))))))
                   | rewrite (proj1 (proj2 (proj2 (proj2 (proj2 (proj2 (proj2 (proj2 (proj2 (proj2 (proj2 (proj2 H))))))))))))
                   | rewrite (proj1 (proj2 (proj2 (proj2 (proj2 (proj2 (proj2 (proj2 (proj2 (proj2 (proj2 (proj2 (proj2 H)))))))))))))
                   | rewrite (proj2 (proj2 (proj2 (proj2 (proj2 (proj2 (proj2 (proj2 (proj2 (proj2 (proj2 (proj2 (proj2 H))))))))))))) ];
             clear H
         end.
  reflexivity.
Qed.

Lemma power_off_clears_mixer s v : (N.shiftr v 7 =? 0) = true -> mixer_cleared (ctl (apu_bus_write s 0xFF26 v)).
Proof.
  intros E. change (apu_bus_write s 0xFF26 v) with (WriteNR52 s v). rewrite (W52_off_eq s v E), off_chain_split.
  pose proof (clear_mixer_writes (off_chain_pre s) (is_on_off_chain_pre s)) as H.
  generalize dependent (WriteNR51 (WriteNR50 (off_chain_pre s) 0) 0). intros x H. exact H.
Qed.

(* the control record is untouched by every write except those to NR50, NR51, NR52, and by time *)
Lemma ctl_frame s a v : a <> 0xFF24 -> a <> 0xFF25 -> a <> 0xFF26 -> ctl (apu_bus_write s a v) = ctl s.
Proof.
  intros H1 H2 H3.
  addr_chain; try contradiction;
    try (unfold WriteNR10, WriteNR11, WriteNR12, WriteNR13, WriteNR14, WriteNR21, WriteNR22, WriteNR23, WriteNR24,
           WriteNR30, WriteNR31, WriteNR32, WriteNR33, WriteNR34, WriteNR41, WriteNR42, WriteNR43, WriteNR44,
           sq_write_nrx2; match goal with |- context [ctOn (ctl ?s)] => destruct (ctOn (ctl s)) | _ => idtac end;
         reflexivity).
  repeat match goal with |- context [if ?b then _ else _] => destruct b end; try reflexivity.
  unfold WriteWaveRAM. break_ifs; reflexivity.
Qed.

Lemma mixer_cleared_power_on s v :
  (N.shiftr v 7 =? 0) = false -> mixer_cleared (ctl s) -> mixer_cleared (ctl (apu_bus_write s 0xFF26 v)).
Proof.
  intros E H. change (apu_bus_write s 0xFF26 v) with (WriteNR52 s v). rewrite (W52_on_eq s v E).
  destruct (ctOn (ctl s)); exact H.
Qed.

Definition keeps_mixer (o : apu_op) : Prop :=
  match o with OWrite a v => a <> 0xFF24 /\ a <> 0xFF25 /\ a <> 0xFF26 | OCycle => True end.

Lemma mixer_cleared_run h : forall s, Forall keeps_mixer h -> mixer_cleared (ctl s) -> mixer_cleared (ctl (apu_run s h)).
Proof.
  induction h as [|o h IH]; intros s Hall H; [exact H|]. inversion Hall as [|? ? Ho Hh]; subst.
  rewrite apu_run_cons. apply IH; [exact Hh|].
  destruct o as [a v|]; cbn [apu_step].
  - destruct Ho as (H1 & H2 & H3). rewrite (ctl_frame s a v H1 H2 H3). exact H.
  - rewrite ctl_end_cycle. exact H.
Qed.

(* C20: after switching the APU off and on again, whatever is triggered or written afterwards (except NR50, NR51,
   NR52), both sides of every emitted pair are 0 *)
Theorem power_cycle_silent s v_off v_on h :
  (N.shiftr v_off 7 =? 0) = true -> (N.shiftr v_on 7 =? 0) = false -> Forall keeps_mixer h ->
  let s' := apu_run (apu_bus_write (apu_bus_write s 0xFF26 v_off) 0xFF26 v_on) h in
  mixer_cleared (ctl s') /\ left_sample s' = 0 /\ right_sample s' = 0 /\
  apu_bus_read s' 0xFF25 = 0.
Proof.
  intros Eoff Eon Hall s'.
  assert (H : mixer_cleared (ctl s')).
  { unfold s'. apply mixer_cleared_run; [exact Hall|]. apply mixer_cleared_power_on; [exact Eon|].
    apply power_off_clears_mixer. exact Eoff. }
  split; [exact H|]. destruct (mixer_cleared_silent s' H) as [L R]. split; [exact L|]. split; [exact R|].
  destruct H as (A1 & A2 & A3 & A4 & B1 & B2 & B3 & B4 & _ & _).
  change (apu_bus_read s' 0xFF25) with (ReadNR51 s'). unfold ReadNR51. rewrite A1, A2, A3, A4, B1, B2, B3, B4. reflexivity.
Qed.
