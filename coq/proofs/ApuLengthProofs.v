(* ApuLengthProofs.v — C19, part 2: the frame sequencer and the length counters as closed forms in the number
   of elapsed clocks. *)
From V.lib Require Import Bits Mem Res.
From V.model Require Import Apu.
From V.spec Require Import ApuSpec.
From V.proofs Require Import ApuLemmas ApuStatusProofs ApuFreqProofs.
From Coq Require Import ZArith ZifyN ZifyNat ZifyBool.

(* ------------------------------------------------------------------------------------------------- *)
(* the sample clock and the sequencer index *)
Definition clk_wf (s : apu) : Prop := 1 <= ticks s /\ ticks s <= 4194305 /\ fseq s < 512.

(* clocks consumed in the current second *)
Definition phase (s : apu) : N := norm_ticks s - 1.

Lemma fs_hit_mod s : fs_hit s = (norm_ticks s mod 8192 =? 0).
Proof. unfold fs_hit, frameSeqMask. change 8191 with (N.ones 13). rewrite N.land_ones. reflexivity. Qed.

Lemma tick_clock_clk s :
  ticks (fst (apu_tick_clock s)) = norm_ticks s + 1 /\
  fseq (fst (apu_tick_clock s)) =
    (if fs_hit s then (if 512 <=? fseq s + 1 then 0 else fseq s + 1) else fseq s).
Proof.
  rewrite tick_clock_shape. cbv zeta.
  destruct (after_timers_facts s) as (_ & _ & _ & _ & _ & _ & _ & _ & _ & Hf & Ht & _).
  destruct (fs_hit s).
  - assert (F : fseq (fs_part (after_timers s)) = fseq (after_timers s)).
    { unfold fs_part. repeat match goal with |- context [if ?b then _ else _] => destruct b end; reflexivity. }
    assert (T : ticks (fs_part (after_timers s)) = ticks (after_timers s)).
    { unfold fs_part. repeat match goal with |- context [if ?b then _ else _] => destruct b end; reflexivity. }
    psimpl. rewrite Hf.
    destruct (512 <=? fseq s + 1); psimpl; rewrite T, Ht; split; reflexivity.
  - psimpl. rewrite Ht, Hf. split; reflexivity.
Qed.

Lemma clk_wf_tick s : clk_wf s -> clk_wf (fst (apu_tick_clock s)).
Proof.
  intros (H1 & H2 & H3). destruct (tick_clock_clk s) as [T F]. unfold clk_wf. rewrite T, F.
  unfold norm_ticks, ticksPerSecond.
  destruct (4194304 <? ticks s) eqn:E; destruct (fs_hit s); try destruct (512 <=? fseq s + 1) eqn:E2; lia.
Qed.

(* abstract clock: (phase, index) *)
Definition clk_step (st : N * N) : N * N :=
  let '(k, q) := st in
  ((k + 1) mod 4194304, if (k + 1) mod 8192 =? 0 then (q + 1) mod 512 else q).

Definition clk_proj (s : apu) : N * N := (phase s, fseq s).

Lemma clk_tick s : clk_wf s -> clk_proj (fst (apu_tick_clock s)) = clk_step (clk_proj s).
Proof.
  intros (H1 & H2 & H3). destruct (tick_clock_clk s) as [T F].
  unfold clk_proj, clk_step, phase. rewrite F, fs_hit_mod.
  unfold norm_ticks at 1. rewrite T. unfold ticksPerSecond.
  assert (Hn : 1 <= norm_ticks s <= 4194304) by (unfold norm_ticks, ticksPerSecond; destruct (4194304 <? ticks s) eqn:E; lia).
  replace (norm_ticks s - 1 + 1) with (norm_ticks s) by lia.
  f_equal.
  - destruct (4194304 <? norm_ticks s + 1) eqn:E; lia.
  - destruct (norm_ticks s mod 8192 =? 0); [|reflexivity]. destruct (512 <=? fseq s + 1) eqn:E; lia.
Qed.

(* closed form of the abstract clock *)

Lemma clk_iter k q n :
  k < 4194304 -> q < 512 ->
  N.iter n clk_step (k, q) = ((k + n) mod 4194304, (q + seq_hits k n) mod 512).
Proof.
  intros Hk Hq. induction n as [|n IH] using N.peano_ind.
  - cbn [N.iter]. unfold seq_hits. f_equal; [rewrite N.add_0_r, N.mod_small; lia|].
    rewrite N.add_0_r, (N.div_small (k mod 8192)) by (apply N.mod_lt; discriminate).
    rewrite N.add_0_r, N.mod_small; lia.
  - rewrite N.iter_succ, IH. unfold clk_step, seq_hits. f_equal; [lia|].
    assert (E : ((k + n) mod 4194304 + 1) mod 8192 = (k + n + 1) mod 8192) by lia.
    rewrite E.
    destruct ((k + n + 1) mod 8192 =? 0) eqn:E2.
    + apply N.eqb_eq in E2.
      assert (H : (k mod 8192 + N.succ n) / 8192 = (k mod 8192 + n) / 8192 + 1) by lia.
      rewrite H. rewrite N.add_mod_idemp_l by discriminate. f_equal. lia.
    + apply N.eqb_neq in E2.
      assert (H : (k mod 8192 + N.succ n) / 8192 = (k mod 8192 + n) / 8192) by lia.
      rewrite H. reflexivity.
Qed.

(* ------------------------------------------------------------------------------------------------- *)
(* a length counter driven by that clock (length enabled, no register writes) *)

Definition len_step (st : N * N * N * bool) : N * N * N * bool :=
  let '(k, q, L, en) := st in
  let lc := ((k + 1) mod 8192 =? 0) && (q mod 2 =? 0) in
  let kq := clk_step (k, q) in
  if lc && (0 <? L) then (fst kq, snd kq, L - 1, en && negb (L - 1 =? 0)) else (fst kq, snd kq, L, en).

Lemma lc_count_succ k q n :
  q < 512 ->
  lc_count k q (N.succ n) =
  lc_count k q n + (if ((k + n + 1) mod 8192 =? 0) && (((q + seq_hits k n) mod 512) mod 2 =? 0) then 1 else 0).
Proof.
  intros Hq. unfold lc_count, seq_hits.
  destruct ((k + n + 1) mod 8192 =? 0) eqn:E1; cbn [andb].
  - apply N.eqb_eq in E1.
    assert (H : (k mod 8192 + N.succ n) / 8192 = (k mod 8192 + n) / 8192 + 1) by lia.
    rewrite H. set (h := (k mod 8192 + n) / 8192).
    destruct (((q + h) mod 512) mod 2 =? 0) eqn:E2; lia.
  - apply N.eqb_neq in E1.
    assert (H : (k mod 8192 + N.succ n) / 8192 = (k mod 8192 + n) / 8192) by lia.
    rewrite H. lia.
Qed.

Lemma len_iter k q L en n :
  k < 4194304 -> q < 512 ->
  N.iter n len_step (k, q, L, en) =
  ((k + n) mod 4194304, (q + seq_hits k n) mod 512, L - lc_count k q n,
   en && ((L =? 0) || (lc_count k q n <? L))).
Proof.
  intros Hk Hq. induction n as [|n IH] using N.peano_ind.
  - cbn [N.iter].
    assert (H0 : seq_hits k 0 = 0).
    { unfold seq_hits. rewrite N.add_0_r. apply N.div_small. apply N.mod_lt. discriminate. }
    assert (C0 : lc_count k q 0 = 0) by (unfold lc_count; rewrite H0; lia).
    rewrite H0, C0, !N.add_0_r, N.sub_0_r, !N.mod_small by lia.
    f_equal. destruct en; cbn [andb]; [|reflexivity]. destruct (L =? 0) eqn:E; cbn [orb]; lia.
  - rewrite N.iter_succ, IH. unfold len_step.
    pose proof (clk_iter k q n Hk Hq) as Hc. pose proof (clk_iter k q (N.succ n) Hk Hq) as Hc'.
    rewrite N.iter_succ, Hc in Hc'. rewrite Hc'. cbn [fst snd].
    rewrite (lc_count_succ k q n Hq).
    assert (E : ((k + n) mod 4194304 + 1) mod 8192 = (k + n + 1) mod 8192) by lia. rewrite E.
    set (c := lc_count k q n).
    destruct (((k + n + 1) mod 8192 =? 0) && (((q + seq_hits k n) mod 512) mod 2 =? 0)); cbn [andb].
    + destruct (0 <? L - c) eqn:E2.
      * f_equal; [f_equal; lia|]. destruct en; cbn [andb]; [|reflexivity].
        destruct (L =? 0) eqn:E3; cbn [orb]; destruct (L - c - 1 =? 0) eqn:E4; lia.
      * f_equal; [f_equal; lia|]. destruct en; cbn [andb]; [|reflexivity].
        destruct (L =? 0) eqn:E3; cbn [orb]; lia.
    + rewrite N.add_0_r. reflexivity.
Qed.

(* ------------------------------------------------------------------------------------------------- *)
(* the model's length counters under one clock *)
Lemma tick_clock_channels' s :
  let x := if fs_hit s then fs_part (after_timers s) else after_timers s in
  ch1 (tick s) = ch1 x /\ ch2 (tick s) = ch2 x /\ ch3 (tick s) = ch3 x /\ ch4 (tick s) = ch4 x /\ sw1 (tick s) = sw1 x.
Proof.
  unfold tick. rewrite tick_clock_shape. cbv zeta.
  destruct (fs_hit s).
  - match goal with |- context [if ?b then _ else _] => destruct b end; repeat split; reflexivity.
  - repeat split; reflexivity.
Qed.

Lemma sq_lv_tick_envelope c : sq_lv (sq_tick_envelope c) = sq_lv c.
Proof. unfold sq_tick_envelope, sq_lv. break_ifs; reflexivity. Qed.
Lemma ns_lv_tick_envelope n : ns_lv (ns_tick_envelope n) = ns_lv n.
Proof. unfold ns_tick_envelope, ns_lv. break_ifs; reflexivity. Qed.

(* lengths move only in the length step of the sequencer *)
Lemma fs_part_lv x :
  sq_lv (ch2 (fs_part x)) = sq_lv (if fseq x mod 2 =? 0 then sq_tick_length (ch2 x) else ch2 x) /\
  wv_lv (ch3 (fs_part x)) = wv_lv (if fseq x mod 2 =? 0 then wv_tick_length (ch3 x) else ch3 x) /\
  ns_lv (ch4 (fs_part x)) = ns_lv (if fseq x mod 2 =? 0 then ns_tick_length (ch4 x) else ch4 x).
Proof.
  unfold fs_part.
  destruct (fseq x mod 2 =? 0); rewrite ?fseq_tick_lengths;
    (destruct (sub64 (fseq x) 7 mod 8 =? 0); rewrite ?fseq_tick_envelopes, ?fseq_tick_lengths;
     (destruct (sub64 (fseq x) 2 mod 4 =? 0);
      unfold tick_sweep, tick_envelopes, tick_lengths; psimpl;
      rewrite ?sq_lv_tick_envelope, ?ns_lv_tick_envelope; repeat split; reflexivity)).
Qed.

Lemma fs_part_lv1 x :
  swEnabled (sw1 x) = false ->
  sq_lv (ch1 (fs_part x)) = sq_lv (if fseq x mod 2 =? 0 then sq_tick_length (ch1 x) else ch1 x) /\
  sw1 (fs_part x) = sw1 x.
Proof.
  intros Hsw. unfold fs_part.
  destruct (fseq x mod 2 =? 0); rewrite ?fseq_tick_lengths;
    (destruct (sub64 (fseq x) 7 mod 8 =? 0); rewrite ?fseq_tick_envelopes, ?fseq_tick_lengths;
     (destruct (sub64 (fseq x) 2 mod 4 =? 0);
      unfold tick_sweep, tick_envelopes, tick_lengths, ch1_tick_sweep; psimpl; rewrite ?Hsw; cbn [fst snd];
      rewrite ?sq_lv_tick_envelope; split; reflexivity)).
Qed.

Lemma sq_lv_tick_length c :
  sq_lv (sq_tick_length c) =
  (sqEnabled c && negb (expires8 (sqLenEn c) (sqLength c)), sqLenEn c,
   if sqLenEn c && (0 <? sqLength c) then sub8 (sqLength c) 1 else sqLength c).
Proof.
  unfold sq_lv. rewrite sq_en_tick_length. unfold sq_tick_length.
  destruct (sqLenEn c) eqn:E1; cbn [andb]; [|rewrite E1; reflexivity].
  destruct (0 <? sqLength c); psimpl; [|rewrite E1; reflexivity].
  destruct (sub8 (sqLength c) 1 =? 0); psimpl; rewrite E1; reflexivity.
Qed.
Lemma wv_lv_tick_length w :
  wv_lv (wv_tick_length w) =
  (wvEnabled w && negb (expires16 (wvLenEn w) (wvLength w)), wvLenEn w,
   if wvLenEn w && (0 <? wvLength w) then sub16 (wvLength w) 1 else wvLength w).
Proof.
  unfold wv_lv. rewrite wv_en_tick_length. unfold wv_tick_length.
  destruct (wvLenEn w) eqn:E1; cbn [andb]; [|rewrite E1; reflexivity].
  destruct (0 <? wvLength w); psimpl; [|rewrite E1; reflexivity].
  destruct (sub16 (wvLength w) 1 =? 0); psimpl; rewrite E1; reflexivity.
Qed.
Lemma ns_lv_tick_length n :
  ns_lv (ns_tick_length n) =
  (nsEnabled n && negb (expires8 (nsLenEn n) (nsLength n)), nsLenEn n,
   if nsLenEn n && (0 <? nsLength n) then sub8 (nsLength n) 1 else nsLength n).
Proof.
  unfold ns_lv. rewrite ns_en_tick_length. unfold ns_tick_length.
  destruct (nsLenEn n) eqn:E1; cbn [andb]; [|rewrite E1; reflexivity].
  destruct (0 <? nsLength n); psimpl; [|rewrite E1; reflexivity].
  destruct (sub8 (nsLength n) 1 =? 0); psimpl; rewrite E1; reflexivity.
Qed.

Lemma after_timers_lv s :
  sq_lv (ch1 (after_timers s)) = sq_lv (ch1 s) /\ sq_lv (ch2 (after_timers s)) = sq_lv (ch2 s) /\
  wv_lv (ch3 (after_timers s)) = wv_lv (ch3 s) /\ ns_lv (ch4 (after_timers s)) = ns_lv (ch4 s) /\
  fseq (after_timers s) = fseq s /\ sw1 (after_timers s) = sw1 s.
Proof.
  destruct (after_timers_ch s) as (A1 & A2 & A3 & A4 & A5).
  destruct (after_timers_facts s) as (_ & _ & _ & _ & _ & _ & _ & _ & _ & Hf & _).
  rewrite A1, A2, A3, A4.
  destruct (sqTriggered (ch1 s)), (sqTriggered (ch2 s)), (wvTriggered (ch3 s)), (nsTriggered (ch4 s));
    rewrite ?sq_lv_tick_timer, ?wv_lv_tick_timer, ?ns_lv_tick_timer; repeat split; assumption.
Qed.

Definition lv_after (hit : bool) (q : N) (dec : N -> N) (lv : bool * bool * N) : bool * bool * N :=
  if hit && (q mod 2 =? 0) then
    let '(en, le, L) := lv in
    (en && negb (le && (0 <? L) && (dec L =? 0)), le, if le && (0 <? L) then dec L else L)
  else lv.

Lemma sq_lv_eq c c' : sq_lv c' = sq_lv c -> sq_lv (sq_tick_length c') = sq_lv (sq_tick_length c).
Proof.
  intros H. rewrite !sq_lv_tick_length. unfold sq_lv in H. injection H as E1 E2 E3. rewrite E1, E2, E3. reflexivity.
Qed.
Lemma wv_lv_eq w w' : wv_lv w' = wv_lv w -> wv_lv (wv_tick_length w') = wv_lv (wv_tick_length w).
Proof.
  intros H. rewrite !wv_lv_tick_length. unfold wv_lv in H. injection H as E1 E2 E3. rewrite E1, E2, E3. reflexivity.
Qed.
Lemma ns_lv_eq n n' : ns_lv n' = ns_lv n -> ns_lv (ns_tick_length n') = ns_lv (ns_tick_length n).
Proof.
  intros H. rewrite !ns_lv_tick_length. unfold ns_lv in H. injection H as E1 E2 E3. rewrite E1, E2, E3. reflexivity.
Qed.

Lemma tick_lv s :
  sq_lv (ch2 (tick s)) = lv_after (fs_hit s) (fseq s) (fun L => sub8 L 1) (sq_lv (ch2 s)) /\
  wv_lv (ch3 (tick s)) = lv_after (fs_hit s) (fseq s) (fun L => sub16 L 1) (wv_lv (ch3 s)) /\
  ns_lv (ch4 (tick s)) = lv_after (fs_hit s) (fseq s) (fun L => sub8 L 1) (ns_lv (ch4 s)).
Proof.
  destruct (tick_clock_channels' s) as (_ & E2 & E3 & E4 & _). cbv zeta in E2, E3, E4. rewrite E2, E3, E4.
  destruct (after_timers_lv s) as (_ & A2 & A3 & A4 & Af & _).
  unfold lv_after.
  destruct (fs_hit s); cbn [andb]; [|repeat split; assumption].
  destruct (fs_part_lv (after_timers s)) as (P2 & P3 & P4). rewrite P2, P3, P4, Af.
  destruct (fseq s mod 2 =? 0); [|repeat split; assumption].
  rewrite (sq_lv_eq _ _ A2), (wv_lv_eq _ _ A3), (ns_lv_eq _ _ A4).
  rewrite sq_lv_tick_length, wv_lv_tick_length, ns_lv_tick_length.
  unfold expires8, expires16, sq_lv, wv_lv, ns_lv. repeat split; reflexivity.
Qed.

Lemma tick_lv1 s :
  swEnabled (sw1 s) = false ->
  sq_lv (ch1 (tick s)) = lv_after (fs_hit s) (fseq s) (fun L => sub8 L 1) (sq_lv (ch1 s)) /\
  swEnabled (sw1 (tick s)) = false.
Proof.
  intros Hsw. destruct (tick_clock_channels' s) as (E1 & _ & _ & _ & E5). cbv zeta in E1, E5. rewrite E1, E5.
  destruct (after_timers_lv s) as (A1 & _ & _ & _ & Af & As).
  assert (Hsw' : swEnabled (sw1 (after_timers s)) = false) by (rewrite As; exact Hsw).
  unfold lv_after.
  destruct (fs_hit s); cbn [andb]; [|split; assumption].
  destruct (fs_part_lv1 (after_timers s) Hsw') as (P1 & P5). rewrite P1, P5, Af.
  split; [|exact Hsw'].
  destruct (fseq s mod 2 =? 0); [|assumption].
  rewrite (sq_lv_eq _ _ A1), sq_lv_tick_length. unfold expires8, sq_lv. reflexivity.
Qed.

(* lv_after as len_step *)
Lemma lv_after_len (hit : bool) k q dec L en :
  (0 < L -> dec L = L - 1) ->
  hit = ((k + 1) mod 8192 =? 0) ->
  let kq := clk_step (k, q) in
  (fst kq, snd kq, snd (lv_after hit q dec (en, true, L)), fst (fst (lv_after hit q dec (en, true, L)))) =
  len_step (k, q, L, en).
Proof.
  intros Hdec Hhit. cbv zeta. unfold lv_after, len_step. rewrite <- Hhit.
  destruct (hit && (q mod 2 =? 0)); cbn [andb fst snd]; [|reflexivity].
  destruct (0 <? L) eqn:E; cbn [andb fst snd]; [|rewrite Bool.andb_true_r; reflexivity].
  rewrite Hdec by lia. reflexivity.
Qed.

(* ------------------------------------------------------------------------------------------------- *)
(* runs: any interleaving of clocks and end-of-machine-cycle flag clearing *)
Inductive uop := UTick | UClear.
Definition exec_u (s : apu) (u : uop) : apu := match u with UTick => tick s | UClear => clear_triggered s end.
Fixpoint n_ticks (l : list uop) : N :=
  match l with [] => 0 | UTick :: r => N.succ (n_ticks r) | UClear :: r => n_ticks r end.

Lemma run_sim {B : Type} (g : B -> B) (proj : apu -> B) (Inv : apu -> Prop) :
  (forall a, Inv a -> Inv (tick a) /\ proj (tick a) = g (proj a)) ->
  (forall a, Inv a -> Inv (clear_triggered a) /\ proj (clear_triggered a) = proj a) ->
  forall l a, Inv a -> Inv (fold_left exec_u l a) /\ proj (fold_left exec_u l a) = N.iter (n_ticks l) g (proj a).
Proof.
  intros Ht Hc l. induction l as [|u l IH]; intros a Ha; cbn [fold_left n_ticks]; [split; [exact Ha|reflexivity]|].
  destruct u; cbn [exec_u].
  - destruct (Ht a Ha) as [H1 H2]. destruct (IH _ H1) as [H3 H4]. split; [exact H3|].
    rewrite H4, H2, N.iter_succ_r. reflexivity.
  - destruct (Hc a Ha) as [H1 H2]. destruct (IH _ H1) as [H3 H4]. split; [exact H3|]. rewrite H4, H2. reflexivity.
Qed.

(* m machine cycles as micro-operations *)
Fixpoint cycles_uops (m : nat) : list uop :=
  match m with O => [] | S k => [UTick; UTick; UTick; UTick; UClear] ++ cycles_uops k end.

Lemma n_ticks_cycles m : n_ticks (cycles_uops m) = 4 * N.of_nat m.
Proof. induction m as [|m IH]; [reflexivity|]. cbn [cycles_uops app n_ticks]. rewrite IH. lia. Qed.

Lemma apu_run_cons s o l : apu_run s (o :: l) = apu_run (apu_step s o) l.
Proof. reflexivity. Qed.
Lemma apu_step_cycle s : apu_step s OCycle = fst (apu_end_machine_cycle s).
Proof. reflexivity. Qed.
Lemma fold_cycle s :
  fold_left exec_u [UTick; UTick; UTick; UTick; UClear] s = clear_triggered (tick (tick (tick (tick s)))).
Proof. reflexivity. Qed.

Lemma run_cycles m : forall s,
  apu_run s (repeat OCycle m) = fold_left exec_u (cycles_uops m) s.
Proof.
  induction m as [|m IH]; intros s; [reflexivity|].
  change (repeat OCycle (S m)) with (OCycle :: repeat OCycle m).
  change (cycles_uops (S m)) with ([UTick; UTick; UTick; UTick; UClear] ++ cycles_uops m).
  rewrite apu_run_cons, apu_step_cycle, IH, fold_left_app, fold_cycle, end_cycle_ticks. reflexivity.
Qed.

Lemma clk_wf_clear s : clk_wf s -> clk_wf (clear_triggered s).
Proof. intros H. exact H. Qed.

(* ------------------------------------------------------------------------------------------------- *)
(* channel 2 *)
Definition len2_inv (s : apu) : Prop := clk_wf s /\ sqLenEn (ch2 s) = true /\ sqLength (ch2 s) < 256.
Definition len2_proj (s : apu) : N * N * N * bool := (phase s, fseq s, sqLength (ch2 s), sqEnabled (ch2 s)).

Lemma phase_hit s : clk_wf s -> fs_hit s = ((phase s + 1) mod 8192 =? 0).
Proof.
  intros (H1 & H2 & H3). rewrite fs_hit_mod. unfold phase.
  assert (Hn : 1 <= norm_ticks s) by (unfold norm_ticks, ticksPerSecond; destruct (4194304 <? ticks s); lia).
  replace (norm_ticks s - 1 + 1) with (norm_ticks s) by lia. reflexivity.
Qed.

Lemma sub8_pred L : 0 < L -> L < 256 -> sub8 L 1 = L - 1.
Proof. intros H1 H2. unfold sub8. lia. Qed.
Lemma sub16_pred L : 0 < L -> L < 65536 -> sub16 L 1 = L - 1.
Proof. intros H1 H2. unfold sub16. lia. Qed.

Lemma triple_inj {A B C : Type} (a a' : A) (b b' : B) (c c' : C) :
  (a, b, c) = (a', b', c') -> a = a' /\ b = b' /\ c = c'.
Proof. intros H. inversion H. auto. Qed.
Lemma quad_inj {A B C D : Type} (a a' : A) (b b' : B) (c c' : C) (d d' : D) :
  (a, b, c, d) = (a', b', c', d') -> a = a' /\ b = b' /\ c = c' /\ d = d'.
Proof. intros H. inversion H. auto. Qed.

Lemma len2_tick s : len2_inv s -> len2_inv (tick s) /\ len2_proj (tick s) = len_step (len2_proj s).
Proof.
  intros (Hwf & Hle & HL).
  destruct (tick_lv s) as (T2 & _). unfold sq_lv in T2. rewrite Hle in T2.
  pose proof (clk_tick s Hwf) as Hc. unfold clk_proj in Hc. fold (tick s) in Hc.
  pose proof (lv_after_len (fs_hit s) (phase s) (fseq s) (fun L => sub8 L 1) (sqLength (ch2 s)) (sqEnabled (ch2 s))
                (fun H => sub8_pred _ H HL) (phase_hit s Hwf)) as Hl.
  cbv zeta in Hl. rewrite <- T2, <- Hc in Hl. cbn [fst snd] in Hl.
  split; [|exact Hl].
  split; [apply clk_wf_tick; exact Hwf|].
  assert (Hlv : lv_after (fs_hit s) (fseq s) (fun L => sub8 L 1) (sqEnabled (ch2 s), true, sqLength (ch2 s))
                = (sqEnabled (ch2 (tick s)), sqLenEn (ch2 (tick s)), sqLength (ch2 (tick s)))) by (symmetry; exact T2).
  unfold lv_after in Hlv.
  destruct (fs_hit s && (fseq s mod 2 =? 0)); apply triple_inj in Hlv; destruct Hlv as (E1 & E2 & E3);
    (split; [symmetry; exact E2|]).
  - rewrite <- E3. cbn [andb]. destruct (0 <? sqLength (ch2 s)) eqn:E; [rewrite sub8_pred by lia|]; lia.
  - rewrite <- E3. exact HL.
Qed.

Lemma len2_clear s : len2_inv s -> len2_inv (clear_triggered s) /\ len2_proj (clear_triggered s) = len2_proj s.
Proof. intros H. split; [exact H|reflexivity]. Qed.

Theorem len2_run l s :
  len2_inv s ->
  let k := phase s in let q := fseq s in let L := sqLength (ch2 s) in let n := n_ticks l in
  let s' := fold_left exec_u l s in
  phase s' = (k + n) mod 4194304 /\ fseq s' = (q + seq_hits k n) mod 512 /\
  sqLength (ch2 s') = L - lc_count k q n /\
  sqEnabled (ch2 s') = sqEnabled (ch2 s) && ((L =? 0) || (lc_count k q n <? L)).
Proof.
  intros Hinv. cbv zeta.
  destruct (run_sim len_step len2_proj len2_inv len2_tick len2_clear l s Hinv) as [_ H].
  unfold len2_proj in H at 2.
  assert (Hk : phase s < 4194304).
  { destruct Hinv as ((H1 & H2 & H3) & _). unfold phase, norm_ticks, ticksPerSecond. destruct (4194304 <? ticks s) eqn:E; lia. }
  assert (Hq : fseq s < 512) by apply Hinv.
  rewrite (len_iter _ _ _ _ _ Hk Hq) in H. unfold len2_proj in H. apply quad_inj in H.
  destruct H as (E1 & E2 & E3 & E4). repeat split; assumption.
Qed.

(* channel 4 *)
Definition len4_inv (s : apu) : Prop := clk_wf s /\ nsLenEn (ch4 s) = true /\ nsLength (ch4 s) < 256.
Definition len4_proj (s : apu) : N * N * N * bool := (phase s, fseq s, nsLength (ch4 s), nsEnabled (ch4 s)).

Lemma len4_tick s : len4_inv s -> len4_inv (tick s) /\ len4_proj (tick s) = len_step (len4_proj s).
Proof.
  intros (Hwf & Hle & HL).
  destruct (tick_lv s) as (_ & _ & T2). unfold ns_lv in T2. rewrite Hle in T2.
  pose proof (clk_tick s Hwf) as Hc. unfold clk_proj in Hc. fold (tick s) in Hc.
  pose proof (lv_after_len (fs_hit s) (phase s) (fseq s) (fun L => sub8 L 1) (nsLength (ch4 s)) (nsEnabled (ch4 s))
                (fun H => sub8_pred _ H HL) (phase_hit s Hwf)) as Hl.
  cbv zeta in Hl. rewrite <- T2, <- Hc in Hl. cbn [fst snd] in Hl.
  split; [|exact Hl].
  split; [apply clk_wf_tick; exact Hwf|].
  assert (Hlv : lv_after (fs_hit s) (fseq s) (fun L => sub8 L 1) (nsEnabled (ch4 s), true, nsLength (ch4 s))
                = (nsEnabled (ch4 (tick s)), nsLenEn (ch4 (tick s)), nsLength (ch4 (tick s)))) by (symmetry; exact T2).
  unfold lv_after in Hlv.
  destruct (fs_hit s && (fseq s mod 2 =? 0)); apply triple_inj in Hlv; destruct Hlv as (E1 & E2 & E3);
    (split; [symmetry; exact E2|]).
  - rewrite <- E3. cbn [andb]. destruct (0 <? nsLength (ch4 s)) eqn:E; [rewrite sub8_pred by lia|]; lia.
  - rewrite <- E3. exact HL.
Qed.

Lemma len4_clear s : len4_inv s -> len4_inv (clear_triggered s) /\ len4_proj (clear_triggered s) = len4_proj s.
Proof. intros H. split; [exact H|reflexivity]. Qed.

Theorem len4_run l s :
  len4_inv s ->
  let k := phase s in let q := fseq s in let L := nsLength (ch4 s) in let n := n_ticks l in
  let s' := fold_left exec_u l s in
  phase s' = (k + n) mod 4194304 /\ fseq s' = (q + seq_hits k n) mod 512 /\
  nsLength (ch4 s') = L - lc_count k q n /\
  nsEnabled (ch4 s') = nsEnabled (ch4 s) && ((L =? 0) || (lc_count k q n <? L)).
Proof.
  intros Hinv. cbv zeta.
  destruct (run_sim len_step len4_proj len4_inv len4_tick len4_clear l s Hinv) as [_ H].
  unfold len4_proj in H at 2.
  assert (Hk : phase s < 4194304).
  { destruct Hinv as ((H1 & H2 & H3) & _). unfold phase, norm_ticks, ticksPerSecond. destruct (4194304 <? ticks s) eqn:E; lia. }
  assert (Hq : fseq s < 512) by apply Hinv.
  rewrite (len_iter _ _ _ _ _ Hk Hq) in H. unfold len4_proj in H. apply quad_inj in H.
  destruct H as (E1 & E2 & E3 & E4). repeat split; assumption.
Qed.

(* channel 3 *)
Definition len3_inv (s : apu) : Prop := clk_wf s /\ wvLenEn (ch3 s) = true /\ wvLength (ch3 s) < 65536.
Definition len3_proj (s : apu) : N * N * N * bool := (phase s, fseq s, wvLength (ch3 s), wvEnabled (ch3 s)).

Lemma len3_tick s : len3_inv s -> len3_inv (tick s) /\ len3_proj (tick s) = len_step (len3_proj s).
Proof.
  intros (Hwf & Hle & HL).
  destruct (tick_lv s) as (_ & T2 & _). unfold wv_lv in T2. rewrite Hle in T2.
  pose proof (clk_tick s Hwf) as Hc. unfold clk_proj in Hc. fold (tick s) in Hc.
  pose proof (lv_after_len (fs_hit s) (phase s) (fseq s) (fun L => sub16 L 1) (wvLength (ch3 s)) (wvEnabled (ch3 s))
                (fun H => sub16_pred _ H HL) (phase_hit s Hwf)) as Hl.
  cbv zeta in Hl. rewrite <- T2, <- Hc in Hl. cbn [fst snd] in Hl.
  split; [|exact Hl].
  split; [apply clk_wf_tick; exact Hwf|].
  assert (Hlv : lv_after (fs_hit s) (fseq s) (fun L => sub16 L 1) (wvEnabled (ch3 s), true, wvLength (ch3 s))
                = (wvEnabled (ch3 (tick s)), wvLenEn (ch3 (tick s)), wvLength (ch3 (tick s)))) by (symmetry; exact T2).
  unfold lv_after in Hlv.
  destruct (fs_hit s && (fseq s mod 2 =? 0)); apply triple_inj in Hlv; destruct Hlv as (E1 & E2 & E3);
    (split; [symmetry; exact E2|]).
  - rewrite <- E3. cbn [andb]. destruct (0 <? wvLength (ch3 s)) eqn:E; [rewrite sub16_pred by lia|]; lia.
  - rewrite <- E3. exact HL.
Qed.

Lemma len3_clear s : len3_inv s -> len3_inv (clear_triggered s) /\ len3_proj (clear_triggered s) = len3_proj s.
Proof. intros H. split; [exact H|reflexivity]. Qed.

Theorem len3_run l s :
  len3_inv s ->
  let k := phase s in let q := fseq s in let L := wvLength (ch3 s) in let n := n_ticks l in
  let s' := fold_left exec_u l s in
  phase s' = (k + n) mod 4194304 /\ fseq s' = (q + seq_hits k n) mod 512 /\
  wvLength (ch3 s') = L - lc_count k q n /\
  wvEnabled (ch3 s') = wvEnabled (ch3 s) && ((L =? 0) || (lc_count k q n <? L)).
Proof.
  intros Hinv. cbv zeta.
  destruct (run_sim len_step len3_proj len3_inv len3_tick len3_clear l s Hinv) as [_ H].
  unfold len3_proj in H at 2.
  assert (Hk : phase s < 4194304).
  { destruct Hinv as ((H1 & H2 & H3) & _). unfold phase, norm_ticks, ticksPerSecond. destruct (4194304 <? ticks s) eqn:E; lia. }
  assert (Hq : fseq s < 512) by apply Hinv.
  rewrite (len_iter _ _ _ _ _ Hk Hq) in H. unfold len3_proj in H. apply quad_inj in H.
  destruct H as (E1 & E2 & E3 & E4). repeat split; assumption.
Qed.

(* channel 1, sweep unit idle *)
Definition len1_inv (s : apu) : Prop :=
  clk_wf s /\ sqLenEn (ch1 s) = true /\ sqLength (ch1 s) < 256 /\ swEnabled (sw1 s) = false.
Definition len1_proj (s : apu) : N * N * N * bool := (phase s, fseq s, sqLength (ch1 s), sqEnabled (ch1 s)).

Lemma len1_tick s : len1_inv s -> len1_inv (tick s) /\ len1_proj (tick s) = len_step (len1_proj s).
Proof.
  intros (Hwf & Hle & HL & Hsw).
  destruct (tick_lv1 s Hsw) as (T2 & Hsw'). unfold sq_lv in T2. rewrite Hle in T2.
  pose proof (clk_tick s Hwf) as Hc. unfold clk_proj in Hc. fold (tick s) in Hc.
  pose proof (lv_after_len (fs_hit s) (phase s) (fseq s) (fun L => sub8 L 1) (sqLength (ch1 s)) (sqEnabled (ch1 s))
                (fun H => sub8_pred _ H HL) (phase_hit s Hwf)) as Hl.
  cbv zeta in Hl. rewrite <- T2, <- Hc in Hl. cbn [fst snd] in Hl.
  split; [|exact Hl].
  split; [apply clk_wf_tick; exact Hwf|].
  assert (Hlv : lv_after (fs_hit s) (fseq s) (fun L => sub8 L 1) (sqEnabled (ch1 s), true, sqLength (ch1 s))
                = (sqEnabled (ch1 (tick s)), sqLenEn (ch1 (tick s)), sqLength (ch1 (tick s)))) by (symmetry; exact T2).
  unfold lv_after in Hlv.
  destruct (fs_hit s && (fseq s mod 2 =? 0)); apply triple_inj in Hlv; destruct Hlv as (E1 & E2 & E3);
    (split; [symmetry; exact E2|]); (split; [|exact Hsw']).
  - rewrite <- E3. cbn [andb]. destruct (0 <? sqLength (ch1 s)) eqn:E; [rewrite sub8_pred by lia|]; lia.
  - rewrite <- E3. exact HL.
Qed.

Lemma len1_clear s : len1_inv s -> len1_inv (clear_triggered s) /\ len1_proj (clear_triggered s) = len1_proj s.
Proof. intros H. split; [exact H|reflexivity]. Qed.

Theorem len1_run l s :
  len1_inv s ->
  let k := phase s in let q := fseq s in let L := sqLength (ch1 s) in let n := n_ticks l in
  let s' := fold_left exec_u l s in
  phase s' = (k + n) mod 4194304 /\ fseq s' = (q + seq_hits k n) mod 512 /\
  sqLength (ch1 s') = L - lc_count k q n /\
  sqEnabled (ch1 s') = sqEnabled (ch1 s) && ((L =? 0) || (lc_count k q n <? L)).
Proof.
  intros Hinv. cbv zeta.
  destruct (run_sim len_step len1_proj len1_inv len1_tick len1_clear l s Hinv) as [_ H].
  unfold len1_proj in H at 2.
  assert (Hk : phase s < 4194304).
  { destruct Hinv as ((H1 & H2 & H3) & _). unfold phase, norm_ticks, ticksPerSecond. destruct (4194304 <? ticks s) eqn:E; lia. }
  assert (Hq : fseq s < 512) by apply Hinv.
  rewrite (len_iter _ _ _ _ _ Hk Hq) in H. unfold len1_proj in H. apply quad_inj in H.
  destruct H as (E1 & E2 & E3 & E4). repeat split; assumption.
Qed.

(* ------------------------------------------------------------------------------------------------- *)
(* the sequencer alone, for every history of clocks: index and phase as closed forms, hence length clocks
   16,384 clocks apart *)
Theorem clk_run l s :
  clk_wf s ->
  let k := phase s in let q := fseq s in let n := n_ticks l in
  let s' := fold_left exec_u l s in
  clk_wf s' /\ phase s' = (k + n) mod 4194304 /\ fseq s' = (q + seq_hits k n) mod 512.
Proof.
  intros Hwf. cbv zeta.
  destruct (run_sim clk_step clk_proj clk_wf (fun a Ha => conj (clk_wf_tick a Ha) (clk_tick a Ha))
              (fun a Ha => conj (clk_wf_clear a Ha) eq_refl) l s Hwf) as [H0 H].
  split; [exact H0|].
  assert (Hk : phase s < 4194304).
  { destruct Hwf as (H1 & H2 & H3). unfold phase, norm_ticks, ticksPerSecond. destruct (4194304 <? ticks s) eqn:E; lia. }
  assert (Hq : fseq s < 512) by apply Hwf.
  unfold clk_proj in H at 2. rewrite (clk_iter _ _ _ Hk Hq) in H. unfold clk_proj in H.
  apply pair_equal_spec in H. exact H.
Qed.

(* is the m-th clock from a state with phase k and index q a length clock? *)

(* the model's own classification of the clock executed in state s agrees with it *)
Lemma len_clock_closed s m l :
  clk_wf s -> n_ticks l = m ->
  len_clock (fold_left exec_u l s) = length_clock_at (phase s) (fseq s) (m + 1).
Proof.
  intros Hwf Hm. destruct (clk_run l s Hwf) as (W & P & F). cbv zeta in W, P, F. rewrite Hm in P, F.
  unfold len_clock, length_clock_at. rewrite (phase_hit _ W), P, F.
  replace (m + 1 - 1) with m by lia.
  assert (E : ((phase s + m) mod 4194304 + 1) mod 8192 = (phase s + (m + 1)) mod 8192) by lia.
  rewrite E. assert (E0 : (0 <? m + 1) = true) by lia. rewrite E0. reflexivity.
Qed.

(* length clocks are exactly 16,384 clocks apart *)
Theorem length_clock_spacing k q m :
  q < 512 -> length_clock_at k q m = true ->
  length_clock_at k q (m + 16384) = true /\
  (forall d, 0 < d -> d < 16384 -> length_clock_at k q (m + d) = false).
Proof.
  intros Hq H. unfold length_clock_at, seq_hits in *.
  apply andb_prop in H. destruct H as [H H3]. apply andb_prop in H. destruct H as [H1 H2].
  apply N.ltb_lt in H1. apply N.eqb_eq in H2. apply N.eqb_eq in H3.
  set (a := k mod 8192) in *.
  assert (Ha : a < 8192) by (apply N.mod_lt; discriminate).
  assert (Hkm : (a + m) mod 8192 = 0) by (unfold a; lia).
  split.
  - assert (E1 : (0 <? m + 16384) = true) by lia.
    assert (E2 : ((k + (m + 16384)) mod 8192 =? 0) = true) by lia.
    assert (E3 : (a + (m + 16384 - 1)) / 8192 = (a + (m - 1)) / 8192 + 2) by lia.
    rewrite E1, E2, E3. cbn [andb]. apply N.eqb_eq. lia.
  - intros d Hd1 Hd2.
    destruct ((k + (m + d)) mod 8192 =? 0) eqn:E2; [|rewrite Bool.andb_false_r; reflexivity].
    apply N.eqb_eq in E2.
    assert (Hd : d = 8192) by lia. subst d.
    assert (E3 : (a + (m + 8192 - 1)) / 8192 = (a + (m - 1)) / 8192 + 1) by lia.
    rewrite E3. assert (E1 : (0 <? m + 8192) = true) by lia. rewrite E1. cbn [andb].
    apply N.eqb_neq. lia.
Qed.

(* ------------------------------------------------------------------------------------------------- *)
(* histories of bus writes and machine cycles *)
Fixpoint n_cycles (h : list apu_op) : N :=
  match h with [] => 0 | OCycle :: r => N.succ (n_cycles r) | OWrite _ _ :: r => n_cycles r end.

Lemma hist_sim {B : Type} (g : B -> B) (proj : apu -> B) (Inv : apu -> Prop) (allowed : N -> N -> Prop) :
  (forall a, Inv a -> Inv (tick a) /\ proj (tick a) = g (proj a)) ->
  (forall a, Inv a -> Inv (clear_triggered a) /\ proj (clear_triggered a) = proj a) ->
  (forall a addr v, allowed addr v -> Inv a -> Inv (apu_bus_write a addr v) /\ proj (apu_bus_write a addr v) = proj a) ->
  forall h s,
    Forall (fun o => match o with OWrite a v => allowed a v | OCycle => True end) h -> Inv s ->
    Inv (apu_run s h) /\ proj (apu_run s h) = N.iter (4 * n_cycles h) g (proj s).
Proof.
  intros Ht Hc Hw h. induction h as [|o h IH]; intros s Hall Hs; [split; [exact Hs|reflexivity]|].
  inversion Hall as [|? ? Ho Hh]; subst. rewrite apu_run_cons.
  destruct o as [a v|]; cbn [n_cycles].
  - destruct (Hw s a v Ho Hs) as [H1 H2]. destruct (IH _ Hh H1) as [H3 H4]. split; [exact H3|].
    cbn [apu_step]. rewrite H4, H2. reflexivity.
  - rewrite apu_step_cycle, end_cycle_ticks, <- fold_cycle.
    destruct (run_sim g proj Inv Ht Hc [UTick; UTick; UTick; UTick; UClear] s Hs) as [H1 H2].
    destruct (IH _ Hh H1) as [H3 H4]. split; [exact H3|].
    rewrite H4, H2. cbn [n_ticks]. rewrite <- N.iter_add. f_equal. lia.
Qed.

(* writes other than to NR52 leave the sample clock and the sequencer index alone *)
Lemma clk_write s a v : a <> 0xFF26 -> ticks (apu_bus_write s a v) = ticks s /\ fseq (apu_bus_write s a v) = fseq s.
Proof.
  intros Hne.
  addr_chain; try contradiction;
    try (unfold WriteNR10, WriteNR11, WriteNR12, WriteNR13, WriteNR14, WriteNR21, WriteNR22, WriteNR23, WriteNR24,
           WriteNR30, WriteNR31, WriteNR32, WriteNR33, WriteNR34, WriteNR41, WriteNR42, WriteNR43, WriteNR44,
           WriteNR50, WriteNR51, sq_write_nrx2; destruct (ctOn (ctl s)); split; reflexivity).
  repeat match goal with |- context [if ?b then _ else _] => destruct b end; try (split; reflexivity).
  destruct (frame_WWave s a v) as (_ & _ & _ & _ & _ & T & F & _). split; assumption.
Qed.

(* NR52 and the sequencer *)
Lemma tf_W10 s v : ticks (WriteNR10 s v) = ticks s /\ fseq (WriteNR10 s v) = fseq s.
Proof. unfold WriteNR10, sq_write_nrx2. destruct (ctOn (ctl s)); split; reflexivity. Qed.
Lemma tf_W12 s v : ticks (WriteNR12 s v) = ticks s /\ fseq (WriteNR12 s v) = fseq s.
Proof. unfold WriteNR12, sq_write_nrx2. destruct (ctOn (ctl s)); split; reflexivity. Qed.
Lemma tf_W13 s v : ticks (WriteNR13 s v) = ticks s /\ fseq (WriteNR13 s v) = fseq s.
Proof. unfold WriteNR13, sq_write_nrx2. destruct (ctOn (ctl s)); split; reflexivity. Qed.
Lemma tf_W14 s v : ticks (WriteNR14 s v) = ticks s /\ fseq (WriteNR14 s v) = fseq s.
Proof. unfold WriteNR14, sq_write_nrx2. destruct (ctOn (ctl s)); split; reflexivity. Qed.
Lemma tf_W22 s v : ticks (WriteNR22 s v) = ticks s /\ fseq (WriteNR22 s v) = fseq s.
Proof. unfold WriteNR22, sq_write_nrx2. destruct (ctOn (ctl s)); split; reflexivity. Qed.
Lemma tf_W23 s v : ticks (WriteNR23 s v) = ticks s /\ fseq (WriteNR23 s v) = fseq s.
Proof. unfold WriteNR23, sq_write_nrx2. destruct (ctOn (ctl s)); split; reflexivity. Qed.
Lemma tf_W24 s v : ticks (WriteNR24 s v) = ticks s /\ fseq (WriteNR24 s v) = fseq s.
Proof. unfold WriteNR24, sq_write_nrx2. destruct (ctOn (ctl s)); split; reflexivity. Qed.
Lemma tf_W30 s v : ticks (WriteNR30 s v) = ticks s /\ fseq (WriteNR30 s v) = fseq s.
Proof. unfold WriteNR30, sq_write_nrx2. destruct (ctOn (ctl s)); split; reflexivity. Qed.
Lemma tf_W32 s v : ticks (WriteNR32 s v) = ticks s /\ fseq (WriteNR32 s v) = fseq s.
Proof. unfold WriteNR32, sq_write_nrx2. destruct (ctOn (ctl s)); split; reflexivity. Qed.
Lemma tf_W33 s v : ticks (WriteNR33 s v) = ticks s /\ fseq (WriteNR33 s v) = fseq s.
Proof. unfold WriteNR33, sq_write_nrx2. destruct (ctOn (ctl s)); split; reflexivity. Qed.
Lemma tf_W34 s v : ticks (WriteNR34 s v) = ticks s /\ fseq (WriteNR34 s v) = fseq s.
Proof. unfold WriteNR34, sq_write_nrx2. destruct (ctOn (ctl s)); split; reflexivity. Qed.
Lemma tf_W42 s v : ticks (WriteNR42 s v) = ticks s /\ fseq (WriteNR42 s v) = fseq s.
Proof. unfold WriteNR42, sq_write_nrx2. destruct (ctOn (ctl s)); split; reflexivity. Qed.
Lemma tf_W43 s v : ticks (WriteNR43 s v) = ticks s /\ fseq (WriteNR43 s v) = fseq s.
Proof. unfold WriteNR43, sq_write_nrx2. destruct (ctOn (ctl s)); split; reflexivity. Qed.
Lemma tf_W44 s v : ticks (WriteNR44 s v) = ticks s /\ fseq (WriteNR44 s v) = fseq s.
Proof. unfold WriteNR44, sq_write_nrx2. destruct (ctOn (ctl s)); split; reflexivity. Qed.
Lemma tf_W50 s v : ticks (WriteNR50 s v) = ticks s /\ fseq (WriteNR50 s v) = fseq s.
Proof. unfold WriteNR50, sq_write_nrx2. destruct (ctOn (ctl s)); split; reflexivity. Qed.
Lemma tf_W51 s v : ticks (WriteNR51 s v) = ticks s /\ fseq (WriteNR51 s v) = fseq s.
Proof. unfold WriteNR51, sq_write_nrx2. destruct (ctOn (ctl s)); split; reflexivity. Qed.

Lemma tf_off_chain s : ticks (off_chain s) = ticks s /\ fseq (off_chain s) = fseq s.
Proof.
  unfold off_chain.
  repeat match goal with
         | |- ticks (?W ?x 0) = _ /\ fseq (?W ?x 0) = _ =>
             let H := fresh in
             first [ pose proof (tf_W51 x 0) as H | pose proof (tf_W50 x 0) as H | pose proof (tf_W44 x 0) as H
                   | pose proof (tf_W43 x 0) as H | pose proof (tf_W42 x 0) as H | pose proof (tf_W34 x 0) as H
                   | pose proof (tf_W33 x 0) as H | pose proof (tf_W32 x 0) as H | pose proof (tf_W30 x 0) as H
                   | pose proof (tf_W24 x 0) as H | pose proof (tf_W23 x 0) as H | pose proof (tf_W22 x 0) as H
                   | pose proof (tf_W14 x 0) as H | pose proof (tf_W13 x 0) as H | pose proof (tf_W12 x 0) as H
                   | pose proof (tf_W10 x 0) as H ];
             destruct H as [-> ->]
         end.
  split; reflexivity.
Qed.

Lemma clk_W52 s v :
  ticks (apu_bus_write s 0xFF26 v) = ticks s /\
  fseq (apu_bus_write s 0xFF26 v) = (if (N.shiftr v 7 =? 0) || is_on s then fseq s else 0).
Proof.
  change (apu_bus_write s 0xFF26 v) with (WriteNR52 s v).
  destruct (N.shiftr v 7 =? 0) eqn:E; cbn [orb].
  - rewrite (W52_off_eq s v E).
    assert (H : forall x, ticks (off_tail x) = ticks x /\ fseq (off_tail x) = fseq x) by (intros x; split; reflexivity).
    destruct (H (off_chain s)) as [-> ->]. apply tf_off_chain.
  - unfold WriteNR52, is_on. rewrite E. destruct (ctOn (ctl s)); split; reflexivity.
Qed.

Lemma clk_wf_write s a v : clk_wf s -> clk_wf (apu_bus_write s a v).
Proof.
  intros (H1 & H2 & H3). unfold clk_wf.
  destruct (N.eq_dec a 0xFF26) as [->|Hne].
  - destruct (clk_W52 s v) as [-> ->]. destruct ((N.shiftr v 7 =? 0) || is_on s); lia.
  - destruct (clk_write s a v Hne) as [-> ->]. lia.
Qed.

Lemma clk_wf_init att : clk_wf (apu_new att).
Proof. destruct att; vm_compute; repeat split; discriminate. Qed.

Lemma clk_wf_cycle s : clk_wf s -> clk_wf (fst (apu_end_machine_cycle s)).
Proof.
  intros H. rewrite end_cycle_ticks. apply clk_wf_clear.
  repeat apply clk_wf_tick. exact H.
Qed.

Theorem clk_wf_run h : forall s, clk_wf s -> clk_wf (apu_run s h).
Proof.
  induction h as [|o h IH]; intros s H; [exact H|]. rewrite apu_run_cons. apply IH.
  destruct o; cbn [apu_step]; [apply clk_wf_write|apply clk_wf_cycle]; exact H.
Qed.

(* C19: while power is not switched (no NR52 write), whatever else is written, the sequencer index and the
   phase of the sample clock are closed forms in the number of machine cycles *)
Theorem seq_history h s :
  clk_wf s ->
  Forall (fun o => match o with OWrite a v => a <> 0xFF26 | OCycle => True end) h ->
  let n := 4 * n_cycles h in
  phase (apu_run s h) = (phase s + n) mod 4194304 /\
  fseq (apu_run s h) = (fseq s + seq_hits (phase s) n) mod 512.
Proof.
  intros Hwf Hall. cbv zeta.
  destruct (hist_sim clk_step clk_proj clk_wf (fun a _ => a <> 0xFF26)
              (fun a Ha => conj (clk_wf_tick a Ha) (clk_tick a Ha))
              (fun a Ha => conj (clk_wf_clear a Ha) eq_refl)) with (h := h) (s := s) as [_ H]; try assumption.
  - intros a addr v Hne Ha. split; [apply clk_wf_write; exact Ha|].
    destruct (clk_write a addr v Hne) as [T F]. unfold clk_proj, phase, norm_ticks. rewrite T, F. reflexivity.
  - assert (Hk : phase s < 4194304).
    { destruct Hwf as (H1 & H2 & H3). unfold phase, norm_ticks, ticksPerSecond. destruct (4194304 <? ticks s) eqn:E; lia. }
    assert (Hq : fseq s < 512) by apply Hwf.
    unfold clk_proj in H at 2. rewrite (clk_iter _ _ _ Hk Hq) in H. unfold clk_proj in H.
    apply pair_equal_spec in H. exact H.
Qed.

(* switching power on restarts the sequencer *)
Theorem power_on_restarts_sequencer s v :
  is_on s = false -> (N.shiftr v 7 =? 0) = false -> fseq (apu_bus_write s 0xFF26 v) = 0.
Proof. intros Hoff Hv. destruct (clk_W52 s v) as [_ F]. rewrite F, Hv, Hoff. reflexivity. Qed.

(* ------------------------------------------------------------------------------------------------- *)
(* the length counter a trigger with length enabled leaves behind (documented algorithm) *)

Definition nr24_square (c : square) (v : N) (odd : bool) : square :=
  let c := set_sqFreq c (N.lor (N.land (sqFreq c) 0x00ff) (N.shiftl (N.land v 7) 8)) in
  let trigger := 0 <? N.land (N.shiftr v 7) 1 in
  let lenEn := 0 <? N.land (N.shiftr v 6) 1 in
  let c := sq_extra_len c lenEn trigger odd in
  let c := if trigger then sq_trig_len (ch2_trigger c) lenEn odd else c in
  set_sqLenEn c lenEn.

Lemma WriteNR24_on s v : ctOn (ctl s) = true -> WriteNR24 s v = set_ch2 s (nr24_square (ch2 s) v (odd_seq s)).
Proof. intros H. unfold WriteNR24, nr24_square. rewrite H. reflexivity. Qed.

Lemma sq_len_trigger_common c :
  sqLength (sq_trigger_common c) = (if sqLength c =? 0 then 64 else sqLength c) /\
  sqLenEn (sq_trigger_common c) = sqLenEn c.
Proof. unfold sq_trigger_common. psimpl. destruct (sqLength c =? 0); split; reflexivity. Qed.

Lemma sq_len_dac_check c : sqLength (sq_dac_check c) = sqLength c /\ sqLenEn (sq_dac_check c) = sqLenEn c.
Proof. unfold sq_dac_check. destruct (sqDac c); split; reflexivity. Qed.

Lemma nr24_square_len c v odd :
  trig_bit v = true -> len_bit v = true -> sqLength c < 256 ->
  let c' := nr24_square c v odd in
  sqLenEn c' = true /\ sqLength c' = trigger_length 64 (sqLength c) (sqLenEn c) odd /\ sqEnabled c' = sqDac c.
Proof.
  unfold trig_bit, len_bit. intros Ht Hl HL. cbv zeta. unfold nr24_square. rewrite Ht, Hl.
  set (c0 := set_sqFreq c _).
  set (c1 := sq_extra_len c0 true true odd).
  assert (H1 : sqLength c1 = (if negb (sqLenEn c) && (0 <? sqLength c) && odd then sqLength c - 1 else sqLength c) /\
               sqDac c1 = sqDac c).
  { unfold c1, sq_extra_len, c0. psimpl. cbn [andb negb]. rewrite Bool.andb_true_r.
    destruct (negb (sqLenEn c) && (0 <? sqLength c) && odd) eqn:E; psimpl; [|split; reflexivity].
    rewrite Bool.andb_false_r. psimpl. split; [|reflexivity].
    apply andb_prop in E. destruct E as [E _]. apply andb_prop in E. destruct E as [_ E]. apply sub8_pred; lia. }
  destruct H1 as [H1 Hd].
  set (c2 := ch2_trigger c1).
  assert (H2 : sqLength c2 = (if sqLength c1 =? 0 then 64 else sqLength c1) /\ sqEnabled c2 = sqDac c).
  { unfold c2, ch2_trigger. destruct (sq_len_dac_check (sq_trigger_common c1)) as [-> _].
    destruct (sq_len_trigger_common c1) as [-> _]. split; [reflexivity|].
    fold (ch2_trigger c1). rewrite sq_en_ch2_trigger. exact Hd. }
  destruct H2 as [H2 He].
  psimpl. split; [reflexivity|].
  rewrite sq_en_trig_len. split; [|exact He].
  unfold trigger_length.
  set (L1 := if negb (sqLenEn c) && (0 <? sqLength c) && odd then sqLength c - 1 else sqLength c) in *.
  rewrite H1 in H2. set (L2 := if L1 =? 0 then 64 else L1) in *.
  clearbody c2 L2. unfold sq_trig_len. cbn [andb].
  destruct c2 as [d len iv ei es fr le en dc di vo tm et tr]. psimpl_in H2. psimpl. subst len.
  destruct odd; cbn [andb]; [|rewrite Bool.andb_false_r; reflexivity].
  rewrite Bool.andb_true_r.
  destruct (L2 =? 64) eqn:E; psimpl; [|reflexivity].
  apply N.eqb_eq in E. rewrite E. reflexivity.
Qed.

(* with length data t written to NRx1 first (counter 64 - t), and length previously disabled *)
Lemma trigger_length_total t odd :
  t < 64 ->
  let L := trigger_length 64 (64 - t) false odd in
  (odd = false -> L = 64 - t) /\
  (odd = true -> t <> 63 -> L + 1 = 64 - t) /\     (* the extra clock counts as one of the 64 - t *)
  (odd = true -> t = 63 -> L = 63).                (* emptied by the extra clock, reloaded by the trigger *)
Proof.
  intros Ht. cbv zeta. unfold trigger_length. cbn [negb andb].
  assert (E0 : (0 <? 64 - t) = true) by lia. rewrite E0. cbn [andb].
  destruct odd; cbn [andb].
  - repeat split; try discriminate.
    + intros _ Hne. assert (E1 : (64 - t - 1 =? 0) = false) by lia. rewrite E1.
      assert (E2 : (64 - t - 1 =? 64) = false) by lia. rewrite E2. lia.
    + intros _ ->. reflexivity.
  - repeat split; try discriminate. intros _.
    assert (E1 : (64 - t =? 0) = false) by lia. rewrite E1. reflexivity.
Qed.

Lemma trigger_length_bounds t odd :
  t < 64 -> 0 < trigger_length 64 (64 - t) false odd /\ trigger_length 64 (64 - t) false odd <= 64.
Proof.
  intros Ht. unfold trigger_length. cbn [negb andb].
  assert (E0 : (0 <? 64 - t) = true) by lia. rewrite E0. cbn [andb].
  destruct odd; cbn [andb].
  - destruct (64 - t - 1 =? 0) eqn:E1; [cbn; lia|]. destruct (64 - t - 1 =? 64) eqn:E2; lia.
  - assert (E1 : (64 - t =? 0) = false) by lia. rewrite E1. lia.
Qed.

(* ------------------------------------------------------------------------------------------------- *)
(* C19 headline, channel 2: write length data, trigger with length enabled, then only time passes *)
Lemma W21_effect s v1 :
  let s1 := apu_bus_write s 0xFF16 v1 in
  sqLength (ch2 s1) = 64 - v1 mod 64 /\ sqLenEn (ch2 s1) = sqLenEn (ch2 s) /\ sqDac (ch2 s1) = sqDac (ch2 s) /\
  is_on s1 = is_on s /\ ticks s1 = ticks s /\ fseq s1 = fseq s.
Proof.
  cbv zeta. change (apu_bus_write s 0xFF16 v1) with (WriteNR21 s v1). unfold WriteNR21, is_on.
  psimpl. change 0x3f with (N.ones 6). rewrite N.land_ones. change (2 ^ 6) with 64.
  assert (H : v1 mod 64 < 64) by (apply N.mod_lt; discriminate).
  destruct (ctOn (ctl s)); psimpl; repeat split; unfold sub8; lia.
Qed.

Lemma ch2_expiry_core (s s1 s0 : apu) v1 v m :
  s1 = apu_bus_write s 0xFF16 v1 -> s0 = apu_bus_write s1 0xFF19 v ->
  clk_wf s -> is_on s = true -> sqDac (ch2 s) = true -> sqLenEn (ch2 s) = false ->
  trig_bit v = true -> len_bit v = true ->
  let L := trigger_length 64 (64 - v1 mod 64) false (odd_seq s) in
  0 < L /\ en2 s0 = true /\
  en2 (apu_run s0 (repeat OCycle m)) = (lc_count (phase s) (fseq s) (4 * N.of_nat m) <? L).
Proof.
  intros E1 E0 Hwf Hon Hdac Hle Ht Hl L.
  destruct (W21_effect s v1) as (A1 & A2 & A3 & A4 & A5 & A6). cbv zeta in A1, A2, A3, A4, A5, A6.
  rewrite <- E1 in A1, A2, A3, A4, A5, A6.
  assert (Hon1 : ctOn (ctl s1) = true) by (unfold is_on in A4; rewrite A4; exact Hon).
  assert (Hodd : odd_seq s1 = odd_seq s) by (unfold odd_seq; rewrite A6; reflexivity).
  assert (HL1 : sqLength (ch2 s1) < 256) by (rewrite A1; clear; lia).
  destruct (nr24_square_len (ch2 s1) v (odd_seq s1) Ht Hl HL1) as (B1 & B2 & B3). cbv zeta in B1, B2, B3.
  assert (Hs0 : s0 = set_ch2 s1 (nr24_square (ch2 s1) v (odd_seq s1))).
  { rewrite E0. change (apu_bus_write s1 0xFF19 v) with (WriteNR24 s1 v). exact (WriteNR24_on s1 v Hon1). }
  generalize dependent (nr24_square (ch2 s1) v (odd_seq s1)). intros c' B1 B2 B3 Hs0.
  rewrite A1, A2, Hle, Hodd in B2. fold L in B2. rewrite A3, Hdac in B3.
  assert (Hpos : 0 < L /\ L <= 64).
  { unfold L. apply trigger_length_bounds. apply N.mod_lt. discriminate. }
  assert (Hwf0 : clk_wf s0) by (rewrite E0; apply clk_wf_write; rewrite E1; apply clk_wf_write; exact Hwf).
  assert (Hc2 : ch2 s0 = c') by (rewrite Hs0; reflexivity).
  assert (Hinv : len2_inv s0).
  { unfold len2_inv. rewrite Hc2, B1, B2. split; [exact Hwf0|]. split; [reflexivity|]. clear - Hpos. lia. }
  assert (Hph : ticks s0 = ticks s /\ fseq s0 = fseq s).
  { destruct (clk_write s1 0xFF19 v ltac:(discriminate)) as [T F]. rewrite <- E0 in T, F.
    rewrite T, F, A5, A6. split; reflexivity. }
  destruct Hph as [Hp Hf].
  assert (Hp' : phase s0 = phase s) by (unfold phase, norm_ticks; rewrite Hp; reflexivity).
  split; [apply Hpos|].
  assert (He0 : en2 s0 = true) by (unfold en2; rewrite Hc2; exact B3).
  split; [exact He0|].
  rewrite run_cycles.
  destruct (len2_run (cycles_uops m) s0 Hinv) as (_ & _ & _ & E4). cbv zeta in E4.
  rewrite n_ticks_cycles, Hp', Hf in E4. unfold en2 in *. rewrite E4, Hc2, B2, B3. cbn [andb].
  assert (E : (L =? 0) = false) by (clear - Hpos; lia). rewrite E. reflexivity.
Qed.

Theorem ch2_length_expiry s v1 v m :
  clk_wf s -> is_on s = true -> sqDac (ch2 s) = true -> sqLenEn (ch2 s) = false ->
  trig_bit v = true -> len_bit v = true ->
  let s0 := apu_bus_write (apu_bus_write s 0xFF16 v1) 0xFF19 v in
  let L := trigger_length 64 (64 - v1 mod 64) false (odd_seq s) in
  0 < L /\ en2 s0 = true /\
  en2 (apu_run s0 (repeat OCycle m)) = (lc_count (phase s) (fseq s) (4 * N.of_nat m) <? L).
Proof.
  intros Hwf Hon Hdac Hle Ht Hl.
  exact (ch2_expiry_core s _ _ v1 v m eq_refl eq_refl Hwf Hon Hdac Hle Ht Hl).
Qed.

(* ------------------------------------------------------------------------------------------------- *)
(* C19 headline, channel 4 *)
Lemma ns_len_trigger n :
  nsLength (ns_trigger n) = (if nsLength n =? 0 then 64 else nsLength n) /\ nsLenEn (ns_trigger n) = nsLenEn n.
Proof.
  unfold ns_trigger.
  set (n1 := set_nsEnabled (set_nsTriggered n true) true).
  set (n2 := if nsLength n1 =? 0 then set_nsLength n1 64 else n1).
  assert (H2 : nsLength n2 = (if nsLength n =? 0 then 64 else nsLength n) /\ nsLenEn n2 = nsLenEn n).
  { unfold n2. change (nsLength n1) with (nsLength n). destruct (nsLength n =? 0); split; reflexivity. }
  clearbody n2. psimpl. break_ifs; psimpl; exact H2.
Qed.

Lemma nr44_noise_len n v odd :
  trig_bit v = true -> len_bit v = true -> nsLength n < 256 ->
  let n' := nr44_noise n v odd in
  nsLenEn n' = true /\ nsLength n' = trigger_length 64 (nsLength n) (nsLenEn n) odd /\ nsEnabled n' = nsDac n.
Proof.
  unfold trig_bit, len_bit. intros Ht Hl HL. cbv zeta. unfold nr44_noise. rewrite Ht, Hl.
  set (n1 := ns_extra_len n true true odd).
  assert (H1 : nsLength n1 = (if negb (nsLenEn n) && (0 <? nsLength n) && odd then nsLength n - 1 else nsLength n) /\
               nsDac n1 = nsDac n).
  { unfold n1, ns_extra_len. cbn [andb negb]. rewrite Bool.andb_true_r.
    destruct (negb (nsLenEn n) && (0 <? nsLength n) && odd) eqn:E; psimpl; [|split; reflexivity].
    rewrite Bool.andb_false_r. psimpl. split; [|reflexivity].
    apply andb_prop in E. destruct E as [E _]. apply andb_prop in E. destruct E as [_ E]. apply sub8_pred; lia. }
  destruct H1 as [H1 Hd].
  set (n2 := ns_trigger n1).
  assert (H2 : nsLength n2 = (if nsLength n1 =? 0 then 64 else nsLength n1) /\ nsEnabled n2 = nsDac n).
  { unfold n2. destruct (ns_len_trigger n1) as [-> _]. split; [reflexivity|]. rewrite ns_en_trigger. exact Hd. }
  destruct H2 as [H2 He].
  psimpl. split; [reflexivity|].
  rewrite ns_en_trig_len. split; [|exact He].
  unfold trigger_length.
  set (L1 := if negb (nsLenEn n) && (0 <? nsLength n) && odd then nsLength n - 1 else nsLength n) in *.
  rewrite H1 in H2. set (L2 := if L1 =? 0 then 64 else L1) in *.
  clearbody n2 L2. unfold ns_trig_len. cbn [andb].
  destruct n2 as [len iv ei es sh wd dv le en dc vo tm et lf tr]. psimpl_in H2. psimpl. subst len.
  destruct odd; cbn [andb]; [|rewrite Bool.andb_false_r; reflexivity].
  rewrite Bool.andb_true_r.
  destruct (L2 =? 64) eqn:E; psimpl; [|reflexivity].
  apply N.eqb_eq in E. rewrite E. reflexivity.
Qed.

Lemma W41_effect s v1 :
  let s1 := apu_bus_write s 0xFF20 v1 in
  nsLength (ch4 s1) = 64 - v1 mod 64 /\ nsLenEn (ch4 s1) = nsLenEn (ch4 s) /\ nsDac (ch4 s1) = nsDac (ch4 s) /\
  is_on s1 = is_on s /\ ticks s1 = ticks s /\ fseq s1 = fseq s.
Proof.
  cbv zeta. change (apu_bus_write s 0xFF20 v1) with (WriteNR41 s v1). unfold WriteNR41, is_on.
  psimpl. change 0x3f with (N.ones 6). rewrite N.land_ones. change (2 ^ 6) with 64.
  assert (H : v1 mod 64 < 64) by (apply N.mod_lt; discriminate).
  repeat split; unfold sub8; clear - H; lia.
Qed.

Lemma ch4_expiry_core (s s1 s0 : apu) v1 v m :
  s1 = apu_bus_write s 0xFF20 v1 -> s0 = apu_bus_write s1 0xFF23 v ->
  clk_wf s -> is_on s = true -> nsDac (ch4 s) = true -> nsLenEn (ch4 s) = false ->
  trig_bit v = true -> len_bit v = true ->
  let L := trigger_length 64 (64 - v1 mod 64) false (odd_seq s) in
  0 < L /\ en4 s0 = true /\
  en4 (apu_run s0 (repeat OCycle m)) = (lc_count (phase s) (fseq s) (4 * N.of_nat m) <? L).
Proof.
  intros E1 E0 Hwf Hon Hdac Hle Ht Hl L.
  destruct (W41_effect s v1) as (A1 & A2 & A3 & A4 & A5 & A6). cbv zeta in A1, A2, A3, A4, A5, A6.
  rewrite <- E1 in A1, A2, A3, A4, A5, A6.
  assert (Hon1 : ctOn (ctl s1) = true) by (unfold is_on in A4; rewrite A4; exact Hon).
  assert (Hodd : odd_seq s1 = odd_seq s) by (unfold odd_seq; rewrite A6; reflexivity).
  assert (HL1 : nsLength (ch4 s1) < 256) by (rewrite A1; clear; lia).
  destruct (nr44_noise_len (ch4 s1) v (odd_seq s1) Ht Hl HL1) as (B1 & B2 & B3). cbv zeta in B1, B2, B3.
  assert (Hs0 : s0 = set_ch4 s1 (nr44_noise (ch4 s1) v (odd_seq s1))).
  { rewrite E0. change (apu_bus_write s1 0xFF23 v) with (WriteNR44 s1 v). exact (WriteNR44_on s1 v Hon1). }
  generalize dependent (nr44_noise (ch4 s1) v (odd_seq s1)). intros c' B1 B2 B3 Hs0.
  rewrite A1, A2, Hle, Hodd in B2. fold L in B2. rewrite A3, Hdac in B3.
  assert (Hpos : 0 < L /\ L <= 64).
  { unfold L. apply trigger_length_bounds. apply N.mod_lt. discriminate. }
  assert (Hwf0 : clk_wf s0) by (rewrite E0; apply clk_wf_write; rewrite E1; apply clk_wf_write; exact Hwf).
  assert (Hc2 : ch4 s0 = c') by (rewrite Hs0; reflexivity).
  assert (Hinv : len4_inv s0).
  { unfold len4_inv. rewrite Hc2, B1, B2. split; [exact Hwf0|]. split; [reflexivity|]. clear - Hpos. lia. }
  assert (Hph : ticks s0 = ticks s /\ fseq s0 = fseq s).
  { destruct (clk_write s1 0xFF23 v ltac:(discriminate)) as [T F]. rewrite <- E0 in T, F.
    rewrite T, F, A5, A6. split; reflexivity. }
  destruct Hph as [Hp Hf].
  assert (Hp' : phase s0 = phase s) by (unfold phase, norm_ticks; rewrite Hp; reflexivity).
  split; [apply Hpos|].
  assert (He0 : en4 s0 = true) by (unfold en4; rewrite Hc2; exact B3).
  split; [exact He0|].
  rewrite run_cycles.
  destruct (len4_run (cycles_uops m) s0 Hinv) as (_ & _ & _ & E4). cbv zeta in E4.
  rewrite n_ticks_cycles, Hp', Hf in E4. unfold en4 in *. rewrite E4, Hc2, B2, B3. cbn [andb].
  assert (E : (L =? 0) = false) by (clear - Hpos; lia). rewrite E. reflexivity.
Qed.

Theorem ch4_length_expiry s v1 v m :
  clk_wf s -> is_on s = true -> nsDac (ch4 s) = true -> nsLenEn (ch4 s) = false ->
  trig_bit v = true -> len_bit v = true ->
  let s0 := apu_bus_write (apu_bus_write s 0xFF20 v1) 0xFF23 v in
  let L := trigger_length 64 (64 - v1 mod 64) false (odd_seq s) in
  0 < L /\ en4 s0 = true /\
  en4 (apu_run s0 (repeat OCycle m)) = (lc_count (phase s) (fseq s) (4 * N.of_nat m) <? L).
Proof.
  intros Hwf Hon Hdac Hle Ht Hl.
  exact (ch4_expiry_core s _ _ v1 v m eq_refl eq_refl Hwf Hon Hdac Hle Ht Hl).
Qed.

(* ------------------------------------------------------------------------------------------------- *)
(* C19 headline, channel 3 (256 length steps) *)
Lemma wv_len_trigger w :
  wvLength (wv_trigger w) = (if wvLength w =? 0 then 256 else wvLength w) /\ wvLenEn (wv_trigger w) = wvLenEn w.
Proof.
  unfold wv_trigger.
  set (w1 := if wvEnabled w then _ else _).
  assert (H1 : wvLength w1 = wvLength w /\ wvLenEn w1 = wvLenEn w).
  { unfold w1, wv_corrupt. destruct (wvEnabled w); [destruct (wvTimer w =? 0)|]; split; reflexivity. }
  clearbody w1. destruct H1 as [H1 H1'].
  set (w2 := set_wvEnabled w1 true).
  set (w3 := if wvLength w2 =? 0 then set_wvLength w2 256 else w2).
  assert (H3 : wvLength w3 = (if wvLength w =? 0 then 256 else wvLength w) /\ wvLenEn w3 = wvLenEn w).
  { unfold w3. change (wvLength w2) with (wvLength w1). rewrite H1. destruct (wvLength w =? 0); split; try reflexivity; assumption. }
  clearbody w3. psimpl. break_ifs; psimpl; exact H3.
Qed.

Lemma nr34_wave_len w v odd :
  trig_bit v = true -> len_bit v = true -> wvLength w < 65536 ->
  let w' := nr34_wave w v odd in
  wvLenEn w' = true /\ wvLength w' = trigger_length 256 (wvLength w) (wvLenEn w) odd /\ wvEnabled w' = wvDac w.
Proof.
  unfold trig_bit, len_bit. intros Ht Hl HL. cbv zeta. unfold nr34_wave. rewrite Ht, Hl.
  set (w0 := set_wvFreq w _).
  set (w1 := wv_extra_len w0 true true odd).
  assert (H1 : wvLength w1 = (if negb (wvLenEn w) && (0 <? wvLength w) && odd then wvLength w - 1 else wvLength w) /\
               wvDac w1 = wvDac w).
  { unfold w1, wv_extra_len, w0. psimpl. cbn [andb negb]. rewrite Bool.andb_true_r.
    destruct (negb (wvLenEn w) && (0 <? wvLength w) && odd) eqn:E; psimpl; [|split; reflexivity].
    rewrite Bool.andb_false_r. psimpl. split; [|reflexivity].
    apply andb_prop in E. destruct E as [E _]. apply andb_prop in E. destruct E as [_ E]. apply sub16_pred; lia. }
  destruct H1 as [H1 Hd].
  set (w2 := wv_trigger w1).
  assert (H2 : wvLength w2 = (if wvLength w1 =? 0 then 256 else wvLength w1) /\ wvEnabled w2 = wvDac w).
  { unfold w2. destruct (wv_len_trigger w1) as [-> _]. split; [reflexivity|]. rewrite wv_en_trigger. exact Hd. }
  destruct H2 as [H2 He].
  psimpl. split; [reflexivity|].
  rewrite wv_en_trig_len. split; [|exact He].
  unfold trigger_length.
  set (L1 := if negb (wvLenEn w) && (0 <? wvLength w) && odd then wvLength w - 1 else wvLength w) in *.
  rewrite H1 in H2. set (L2 := if L1 =? 0 then 256 else L1) in *.
  clearbody w2 L2. unfold wv_trig_len. cbn [andb].
  destruct w2 as [len ol fr le rm en dc tm os po la sb st tr]. psimpl_in H2. psimpl. subst len.
  destruct odd; cbn [andb]; [|rewrite Bool.andb_false_r; reflexivity].
  rewrite Bool.andb_true_r.
  destruct (L2 =? 256) eqn:E; psimpl; [|reflexivity].
  apply N.eqb_eq in E. rewrite E. reflexivity.
Qed.

Lemma trigger_length_bounds3 t odd :
  t < 256 -> 0 < trigger_length 256 (256 - t) false odd /\ trigger_length 256 (256 - t) false odd <= 256.
Proof.
  intros Ht. unfold trigger_length. cbn [negb andb].
  assert (E0 : (0 <? 256 - t) = true) by lia. rewrite E0. cbn [andb].
  destruct odd; cbn [andb].
  - destruct (256 - t - 1 =? 0) eqn:E1; [cbn; lia|]. destruct (256 - t - 1 =? 256) eqn:E2; lia.
  - assert (E1 : (256 - t =? 0) = false) by lia. rewrite E1. lia.
Qed.

Lemma W31_effect s v1 :
  v1 < 256 ->
  let s1 := apu_bus_write s 0xFF1B v1 in
  wvLength (ch3 s1) = 256 - v1 /\ wvLenEn (ch3 s1) = wvLenEn (ch3 s) /\ wvDac (ch3 s1) = wvDac (ch3 s) /\
  is_on s1 = is_on s /\ ticks s1 = ticks s /\ fseq s1 = fseq s.
Proof.
  intros Hv. cbv zeta. change (apu_bus_write s 0xFF1B v1) with (WriteNR31 s v1). unfold WriteNR31, is_on.
  psimpl. repeat split; unfold sub16; clear - Hv; lia.
Qed.

Lemma ch3_expiry_core (s s1 s0 : apu) v1 v m :
  s1 = apu_bus_write s 0xFF1B v1 -> s0 = apu_bus_write s1 0xFF1E v -> v1 < 256 ->
  clk_wf s -> is_on s = true -> wvDac (ch3 s) = true -> wvLenEn (ch3 s) = false ->
  trig_bit v = true -> len_bit v = true ->
  let L := trigger_length 256 (256 - v1) false (odd_seq s) in
  0 < L /\ en3 s0 = true /\
  en3 (apu_run s0 (repeat OCycle m)) = (lc_count (phase s) (fseq s) (4 * N.of_nat m) <? L).
Proof.
  intros E1 E0 Hv1 Hwf Hon Hdac Hle Ht Hl L.
  destruct (W31_effect s v1 Hv1) as (A1 & A2 & A3 & A4 & A5 & A6). cbv zeta in A1, A2, A3, A4, A5, A6.
  rewrite <- E1 in A1, A2, A3, A4, A5, A6.
  assert (Hon1 : ctOn (ctl s1) = true) by (unfold is_on in A4; rewrite A4; exact Hon).
  assert (Hodd : odd_seq s1 = odd_seq s) by (unfold odd_seq; rewrite A6; reflexivity).
  assert (HL1 : wvLength (ch3 s1) < 65536) by (rewrite A1; clear; lia).
  destruct (nr34_wave_len (ch3 s1) v (odd_seq s1) Ht Hl HL1) as (B1 & B2 & B3). cbv zeta in B1, B2, B3.
  assert (Hs0 : s0 = set_ch3 s1 (nr34_wave (ch3 s1) v (odd_seq s1))).
  { rewrite E0. change (apu_bus_write s1 0xFF1E v) with (WriteNR34 s1 v). exact (WriteNR34_on s1 v Hon1). }
  generalize dependent (nr34_wave (ch3 s1) v (odd_seq s1)). intros c' B1 B2 B3 Hs0.
  rewrite A1, A2, Hle, Hodd in B2. fold L in B2. rewrite A3, Hdac in B3.
  assert (Hpos : 0 < L /\ L <= 256).
  { unfold L. apply trigger_length_bounds3. exact Hv1. }
  assert (Hwf0 : clk_wf s0) by (rewrite E0; apply clk_wf_write; rewrite E1; apply clk_wf_write; exact Hwf).
  assert (Hc2 : ch3 s0 = c') by (rewrite Hs0; reflexivity).
  assert (Hinv : len3_inv s0).
  { unfold len3_inv. rewrite Hc2, B1, B2. split; [exact Hwf0|]. split; [reflexivity|]. clear - Hpos. lia. }
  assert (Hph : ticks s0 = ticks s /\ fseq s0 = fseq s).
  { destruct (clk_write s1 0xFF1E v ltac:(discriminate)) as [T F]. rewrite <- E0 in T, F.
    rewrite T, F, A5, A6. split; reflexivity. }
  destruct Hph as [Hp Hf].
  assert (Hp' : phase s0 = phase s) by (unfold phase, norm_ticks; rewrite Hp; reflexivity).
  split; [apply Hpos|].
  assert (He0 : en3 s0 = true) by (unfold en3; rewrite Hc2; exact B3).
  split; [exact He0|].
  rewrite run_cycles.
  destruct (len3_run (cycles_uops m) s0 Hinv) as (_ & _ & _ & E4). cbv zeta in E4.
  rewrite n_ticks_cycles, Hp', Hf in E4. unfold en3 in *. rewrite E4, Hc2, B2, B3. cbn [andb].
  assert (E : (L =? 0) = false) by (clear - Hpos; lia). rewrite E. reflexivity.
Qed.

Theorem ch3_length_expiry s v1 v m :
  v1 < 256 -> clk_wf s -> is_on s = true -> wvDac (ch3 s) = true -> wvLenEn (ch3 s) = false ->
  trig_bit v = true -> len_bit v = true ->
  let s0 := apu_bus_write (apu_bus_write s 0xFF1B v1) 0xFF1E v in
  let L := trigger_length 256 (256 - v1) false (odd_seq s) in
  0 < L /\ en3 s0 = true /\
  en3 (apu_run s0 (repeat OCycle m)) = (lc_count (phase s) (fseq s) (4 * N.of_nat m) <? L).
Proof.
  intros Hv1 Hwf Hon Hdac Hle Ht Hl.
  exact (ch3_expiry_core s _ _ v1 v m eq_refl eq_refl Hv1 Hwf Hon Hdac Hle Ht Hl).
Qed.

(* ------------------------------------------------------------------------------------------------- *)
(* C19 headline, channel 1 with the sweep unit idle (NR10 period and shift 0) *)
Definition nr14_pair (c : square) (w : sweep) (v : N) (odd : bool) : square * sweep :=
  let c := set_sqFreq c (N.lor (N.land (sqFreq c) 0x00ff) (N.shiftl (N.land v 7) 8)) in
  let trigger := 0 <? N.land (N.shiftr v 7) 1 in
  let lenEn := 0 <? N.land (N.shiftr v 6) 1 in
  let c := sq_extra_len c lenEn trigger odd in
  let cw := if trigger then (let cw := ch1_trigger c w in (sq_trig_len (fst cw) lenEn odd, snd cw)) else (c, w) in
  (set_sqLenEn (fst cw) lenEn, snd cw).

Lemma WriteNR14_on s v :
  ctOn (ctl s) = true ->
  WriteNR14 s v = set_sw1 (set_ch1 s (fst (nr14_pair (ch1 s) (sw1 s) v (odd_seq s))))
                          (snd (nr14_pair (ch1 s) (sw1 s) v (odd_seq s))).
Proof. intros H. unfold WriteNR14, nr14_pair. rewrite H. reflexivity. Qed.

Lemma ch1_trigger_idle c w :
  swShift w = 0 -> swPeriod w = 0 ->
  fst (ch1_trigger c w) = sq_dac_check (sq_trigger_common c) /\ swEnabled (snd (ch1_trigger c w)) = false.
Proof.
  intros Hs Hp. unfold ch1_trigger. psimpl. rewrite Hs, Hp. cbn [N.ltb N.compare orb fst snd]. psimpl.
  split; reflexivity.
Qed.

Lemma nr14_pair_len c w v odd :
  trig_bit v = true -> len_bit v = true -> sqLength c < 256 -> swShift w = 0 -> swPeriod w = 0 ->
  let cw := nr14_pair c w v odd in
  sqLenEn (fst cw) = true /\ sqLength (fst cw) = trigger_length 64 (sqLength c) (sqLenEn c) odd /\
  sqEnabled (fst cw) = sqDac c /\ swEnabled (snd cw) = false.
Proof.
  unfold trig_bit, len_bit. intros Ht Hl HL Hs Hp. cbv zeta. unfold nr14_pair. rewrite Ht, Hl. cbn [fst snd].
  set (c0 := set_sqFreq c _).
  set (c1 := sq_extra_len c0 true true odd).
  assert (H1 : sqLength c1 = (if negb (sqLenEn c) && (0 <? sqLength c) && odd then sqLength c - 1 else sqLength c) /\
               sqDac c1 = sqDac c).
  { unfold c1, sq_extra_len, c0. psimpl. cbn [andb negb]. rewrite Bool.andb_true_r.
    destruct (negb (sqLenEn c) && (0 <? sqLength c) && odd) eqn:E; psimpl; [|split; reflexivity].
    rewrite Bool.andb_false_r. psimpl. split; [|reflexivity].
    apply andb_prop in E. destruct E as [E _]. apply andb_prop in E. destruct E as [_ E]. apply sub8_pred; lia. }
  destruct H1 as [H1 Hd].
  destruct (ch1_trigger_idle c1 w Hs Hp) as [T1 T2]. rewrite T1, T2. fold (ch2_trigger c1).
  set (c2 := ch2_trigger c1).
  assert (H2 : sqLength c2 = (if sqLength c1 =? 0 then 64 else sqLength c1) /\ sqEnabled c2 = sqDac c).
  { unfold c2, ch2_trigger. destruct (sq_len_dac_check (sq_trigger_common c1)) as [-> _].
    destruct (sq_len_trigger_common c1) as [-> _]. split; [reflexivity|].
    fold (ch2_trigger c1). rewrite sq_en_ch2_trigger. exact Hd. }
  destruct H2 as [H2 He].
  psimpl. split; [reflexivity|]. split; [|split; [rewrite sq_en_trig_len; exact He|reflexivity]].
  unfold trigger_length.
  set (L1 := if negb (sqLenEn c) && (0 <? sqLength c) && odd then sqLength c - 1 else sqLength c) in *.
  rewrite H1 in H2. set (L2 := if L1 =? 0 then 64 else L1) in *.
  clearbody c2 L2. unfold sq_trig_len. cbn [andb].
  destruct c2 as [d len iv ei es fr le en dc di vo tm et tr]. psimpl_in H2. psimpl. subst len.
  destruct odd; cbn [andb]; [|rewrite Bool.andb_false_r; reflexivity].
  rewrite Bool.andb_true_r.
  destruct (L2 =? 64) eqn:E; psimpl; [|reflexivity].
  apply N.eqb_eq in E. rewrite E. reflexivity.
Qed.

Lemma W11_effect s v1 :
  let s1 := apu_bus_write s 0xFF11 v1 in
  sqLength (ch1 s1) = 64 - v1 mod 64 /\ sqLenEn (ch1 s1) = sqLenEn (ch1 s) /\ sqDac (ch1 s1) = sqDac (ch1 s) /\
  is_on s1 = is_on s /\ ticks s1 = ticks s /\ fseq s1 = fseq s /\ sw1 s1 = sw1 s.
Proof.
  cbv zeta. change (apu_bus_write s 0xFF11 v1) with (WriteNR11 s v1). unfold WriteNR11, is_on.
  psimpl. change 0x3f with (N.ones 6). rewrite N.land_ones. change (2 ^ 6) with 64.
  assert (H : v1 mod 64 < 64) by (apply N.mod_lt; discriminate).
  destruct (ctOn (ctl s)); psimpl; repeat split; unfold sub8; clear - H; lia.
Qed.

Lemma ch1_expiry_core (s s1 s0 : apu) v1 v m :
  s1 = apu_bus_write s 0xFF11 v1 -> s0 = apu_bus_write s1 0xFF14 v ->
  clk_wf s -> is_on s = true -> sqDac (ch1 s) = true -> sqLenEn (ch1 s) = false ->
  swShift (sw1 s) = 0 -> swPeriod (sw1 s) = 0 ->
  trig_bit v = true -> len_bit v = true ->
  let L := trigger_length 64 (64 - v1 mod 64) false (odd_seq s) in
  0 < L /\ en1 s0 = true /\
  en1 (apu_run s0 (repeat OCycle m)) = (lc_count (phase s) (fseq s) (4 * N.of_nat m) <? L).
Proof.
  intros E1 E0 Hwf Hon Hdac Hle Hss Hsp Ht Hl L.
  destruct (W11_effect s v1) as (A1 & A2 & A3 & A4 & A5 & A6 & A7). cbv zeta in A1, A2, A3, A4, A5, A6, A7.
  rewrite <- E1 in A1, A2, A3, A4, A5, A6, A7.
  assert (Hon1 : ctOn (ctl s1) = true) by (unfold is_on in A4; rewrite A4; exact Hon).
  assert (Hodd : odd_seq s1 = odd_seq s) by (unfold odd_seq; rewrite A6; reflexivity).
  assert (HL1 : sqLength (ch1 s1) < 256) by (rewrite A1; clear; lia).
  assert (Hss1 : swShift (sw1 s1) = 0) by (rewrite A7; exact Hss).
  assert (Hsp1 : swPeriod (sw1 s1) = 0) by (rewrite A7; exact Hsp).
  destruct (nr14_pair_len (ch1 s1) (sw1 s1) v (odd_seq s1) Ht Hl HL1 Hss1 Hsp1) as (B1 & B2 & B3 & B4).
  cbv zeta in B1, B2, B3, B4.
  assert (Hs0 : s0 = set_sw1 (set_ch1 s1 (fst (nr14_pair (ch1 s1) (sw1 s1) v (odd_seq s1))))
                             (snd (nr14_pair (ch1 s1) (sw1 s1) v (odd_seq s1)))).
  { rewrite E0. change (apu_bus_write s1 0xFF14 v) with (WriteNR14 s1 v). exact (WriteNR14_on s1 v Hon1). }
  generalize dependent (nr14_pair (ch1 s1) (sw1 s1) v (odd_seq s1)). intros cw B1 B2 B3 B4 Hs0.
  rewrite A1, A2, Hle, Hodd in B2. fold L in B2. rewrite A3, Hdac in B3.
  assert (Hpos : 0 < L /\ L <= 64).
  { unfold L. apply trigger_length_bounds. apply N.mod_lt. discriminate. }
  assert (Hwf0 : clk_wf s0) by (rewrite E0; apply clk_wf_write; rewrite E1; apply clk_wf_write; exact Hwf).
  assert (Hc2 : ch1 s0 = fst cw) by (rewrite Hs0; reflexivity).
  assert (Hw2 : sw1 s0 = snd cw) by (rewrite Hs0; reflexivity).
  assert (Hinv : len1_inv s0).
  { unfold len1_inv. rewrite Hc2, Hw2, B1, B2, B4. split; [exact Hwf0|]. split; [reflexivity|].
    split; [clear - Hpos; lia|reflexivity]. }
  assert (Hph : ticks s0 = ticks s /\ fseq s0 = fseq s).
  { destruct (clk_write s1 0xFF14 v ltac:(discriminate)) as [T F]. rewrite <- E0 in T, F.
    rewrite T, F, A5, A6. split; reflexivity. }
  destruct Hph as [Hp Hf].
  assert (Hp' : phase s0 = phase s) by (unfold phase, norm_ticks; rewrite Hp; reflexivity).
  split; [apply Hpos|].
  assert (He0 : en1 s0 = true) by (unfold en1; rewrite Hc2; exact B3).
  split; [exact He0|].
  rewrite run_cycles.
  destruct (len1_run (cycles_uops m) s0 Hinv) as (_ & _ & _ & E4). cbv zeta in E4.
  rewrite n_ticks_cycles, Hp', Hf in E4. unfold en1 in *. rewrite E4, Hc2, B2, B3. cbn [andb].
  assert (E : (L =? 0) = false) by (clear - Hpos; lia). rewrite E. reflexivity.
Qed.

Theorem ch1_length_expiry s v1 v m :
  clk_wf s -> is_on s = true -> sqDac (ch1 s) = true -> sqLenEn (ch1 s) = false ->
  swShift (sw1 s) = 0 -> swPeriod (sw1 s) = 0 ->
  trig_bit v = true -> len_bit v = true ->
  let s0 := apu_bus_write (apu_bus_write s 0xFF11 v1) 0xFF14 v in
  let L := trigger_length 64 (64 - v1 mod 64) false (odd_seq s) in
  0 < L /\ en1 s0 = true /\
  en1 (apu_run s0 (repeat OCycle m)) = (lc_count (phase s) (fseq s) (4 * N.of_nat m) <? L).
Proof.
  intros Hwf Hon Hdac Hle Hss Hsp Ht Hl.
  exact (ch1_expiry_core s _ _ v1 v m eq_refl eq_refl Hwf Hon Hdac Hle Hss Hsp Ht Hl).
Qed.
