(* CpuTac.v — the tactic that proves one opcode: symbolic execution of the model's micro-operation list (regenerated
   from dispatch.go) and of the documented semantics on an abstract state and bus, then arithmetic lemmas. *)
From V.lib Require Import Bits.
From V.model Require Import Uop Alu Cpu.
From V.gen Require Import GenDispatch.
From V.spec Require Import Sm83Spec.
From V.proofs Require Import AluProofs CpuLemmas.
From Coq Require Import ZArith ZifyN ZifyBool.

Section StepIf.
  Variable B : Type.
  Variable brd : B -> N -> B * N.
  Variable bwr : B -> N -> N -> B.
  Variable btrig : B -> N -> B.
  Variable bcorrupt : B -> B.
  Variable bime : B -> bool.
  Variable bset_ime : B -> bool -> B.
  Variable bpending : B -> N.
  Variable back : B -> N -> B.
  Hypothesis Hcor : forall b, bcorrupt b = b.

  Notation step_if := (step_if B brd bwr btrig bcorrupt bime bset_ime bpending back).
  Notation mexec := (exec B brd bwr btrig bime bset_ime bpending back).

  Lemma step_if_done s b n : is_finished s = true -> step_if ((s, b), n) = ((s, b), n).
  Proof. intros H. unfold CpuLemmas.step_if. cbn [fst snd]. rewrite H. reflexivity. Qed.

  Lemma step_if_more s b n u : is_finished s = false -> fault s = None -> nth_error (cur s) (cyc s) = Some u ->
    step_if ((s, b), n) =
      ((set_cyc (S (cyc (fst (mexec u s b)))) (fst (mexec u s b)), snd (mexec u s b)), S n).
  Proof.
    intros H Hf Hu. unfold CpuLemmas.step_if. cbn [fst snd]. rewrite H.
    rewrite (cycle_mid B brd bwr btrig bcorrupt bime bset_ime bpending back Hcor s b u Hf H Hu). reflexivity.
  Qed.
End StepIf.

Tactic Notation "ev" :=
  unfold bc, de, hl, imm16, pair16, log, xbc, xde, xhl, w16, done;
  cbn [fst snd cur cyc early trace fault halted haltbug stopped eip ra rb rc rd re rf rh rl sp pc u8a u8b m8a m8b mooneye
       set_ra set_rb set_rc set_rd set_re set_rf set_rh set_rl set_sp set_pc set_halted set_haltbug set_stopped set_eip
       set_u8a set_u8b set_m8a set_m8b set_cur set_cyc set_early set_mooneye set_fault set_trace
       get_reg set_reg get_rp set_rp bc de hl imm16 pair16 log exec src_val dread dwrite inc_sp dec_sp inc_hl dec_hl do_rst do_push
       is_finished check_cond nth_error length Nat.eqb andb orb negb
       arch_of xa xb xc xd xe xh xl xf xsp xpc xhalted xhaltbug xstopped xeip
       set_xa set_xb set_xc set_xd set_xe set_xh set_xl set_xf set_xsp set_xpc set_xhalted set_xhaltbug set_xstopped set_xeip
       sem done pc1 is_mem getr setr get16 set16 xhl xbc xde w16 cond_holds dtrace_of fold_left
       N.of_nat Pos.of_succ_nat Pos.succ].
Tactic Notation "ev" "in" hyp(H) :=
  unfold bc, de, hl, imm16, pair16, log in H;
  cbn [fst snd cur cyc early trace fault halted haltbug stopped eip ra rb rc rd re rf rh rl sp pc u8a u8b m8a m8b mooneye
       set_ra set_rb set_rc set_rd set_re set_rf set_rh set_rl set_sp set_pc set_halted set_haltbug set_stopped set_eip
       set_u8a set_u8b set_m8a set_m8b set_cur set_cyc set_early set_mooneye set_fault set_trace
       get_reg set_reg get_rp set_rp bc de hl imm16 pair16 log exec src_val dread dwrite inc_sp dec_sp inc_hl dec_hl do_rst do_push
       is_finished check_cond nth_error length Nat.eqb andb orb negb] in H.

(* side conditions of the arithmetic lemmas *)
Ltac side :=
  first [ assumption | reflexivity
        | match goal with Hbb : byte_bus _ _ |- snd (_ _ _) < 256 => apply Hbb end
        | apply land240_wf; side
        | match goal with |- wf_f (snd (alu_doc _ _ _ _)) => apply alu_doc_wf; side end
        | lia ].

Ltac arith :=
  rewrite ?alu_ok, ?inc8_ok, ?dec8_ok, ?rot_ok, ?rot_a_ok, ?daa_ok, ?cpl_ok, ?scf_ok, ?ccf_ok, ?addhl_ok, ?addsp_ok,
          ?jr_target_ok, ?sub16_1 by side.

(* Hop : snd (brd b (pc s)) = <numeral> *)
Ltac eval_fetch_normal Hf Hop :=
  match type of Hop with
  | _ = ?k =>
      unfold fetch in Hf at 2; cbn [pc set_eip set_trace] in Hf; rewrite Hop in Hf;
      cbn [N.eqb Pos.eqb] in Hf;
      let l := fresh "l" in
      set (l := nth (N.to_nat k) normal_table []) in Hf; vm_compute in l; subst l;
      let e := fresh "e" in
      set (e := lookup_early k early_table) in Hf; vm_compute in e; subst e;
      ev in Hf
  end.
