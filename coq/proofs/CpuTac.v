(* CpuTac.v — the tactic that proves one opcode: symbolic execution of the model's micro-operation list (regenerated
   from dispatch.go) and of the documented semantics on an abstract state and bus, then arithmetic lemmas. *)
From V.lib Require Import Bits.
From V.model Require Import Uop Alu Cpu.
From V.spec Require Import Sm83Spec.
From V.proofs Require Import AluProofs CpuLemmas ExpectedDispatch.
From Coq Require Import ZArith ZifyN ZifyBool.

Section StepIf.
  Variable T : tables.
  Variable B : Type.
  Variable brd : B -> N -> B * N.
  Variable bwr : B -> N -> N -> B.
  Variable btrig : B -> N -> B.
  Variable bcorrupt : B -> B.
  Variable bime : B -> bool.
  Variable bset_ime : B -> bool -> B.
  Variable bpending : B -> N.
  Variable back : B -> N -> B.
  Hypothesis Hcor : forall b, bcorrupt b = b.

  Notation step_if := (step_if T B brd bwr btrig bcorrupt bime bset_ime bpending back).
  Notation mexec := (exec B brd bwr btrig bime bset_ime bpending back).

  Lemma step_if_done s b n : is_finished s = true -> step_if ((s, b), n) = ((s, b), n).
  Proof. intros H. unfold CpuLemmas.step_if. cbn [fst snd]. rewrite H. reflexivity. Qed.

  Lemma step_if_more s b n u : is_finished s = false -> fault s = None -> nth_error (cur s) (cyc s) = Some u ->
    step_if ((s, b), n) =
      ((set_cyc (S (cyc (fst (mexec u s b)))) (fst (mexec u s b)), snd (mexec u s b)), S n).
  Proof.
    intros H Hf Hu. unfold CpuLemmas.step_if. cbn [fst snd]. rewrite H.
    rewrite (cycle_mid T B brd bwr btrig bcorrupt bime bset_ime bpending back Hcor s b u Hf H Hu). reflexivity.
  Qed.

  (* the same with the result of the micro-operation supplied through an equation, so that its evaluation is a
     separate, small conversion problem *)
  Lemma step_if_more_eq s b n u r : is_finished s = false -> fault s = None -> nth_error (cur s) (cyc s) = Some u ->
    mexec u s b = r ->
    step_if ((s, b), n) = ((set_cyc (S (cyc (fst r))) (fst r), snd r), S n).
  Proof. intros H Hf Hu <-. apply step_if_more; assumption. Qed.

  Lemma cycle_start_eq s b u s1 b1 r :
    starts T B bime bpending s b ->
    fetch T B brd (set_eip false s) (commit B bset_ime s b) = (s1, b1) ->
    nth_error (cur s1) 0 = Some u -> cyc s1 = 0%nat ->
    mexec u s1 b1 = r ->
    cycle T B brd bwr btrig bcorrupt bime bset_ime bpending back (s, b) = (set_cyc (S (cyc (fst r))) (fst r), snd r).
  Proof.
    intros Hst Hf Hu Hc <-.
    rewrite (cycle_start T B brd bwr btrig bcorrupt bime bset_ime bpending back Hcor s b u Hst); rewrite Hf; cbn [fst snd];
      [reflexivity | exact Hu | exact Hc].
  Qed.

  Lemma run_instr_chain s b x1 x2 x3 x4 x5 x6 x7 :
    cycle T B brd bwr btrig bcorrupt bime bset_ime bpending back (s, b) = x1 ->
    step_if (x1, 1%nat) = x2 -> step_if x2 = x3 -> step_if x3 = x4 -> step_if x4 = x5 -> step_if x5 = x6 ->
    step_if x6 = x7 ->
    run_instr T B brd bwr btrig bcorrupt bime bset_ime bpending back s b = x7.
  Proof. intros <- <- <- <- <- <- <-. reflexivity. Qed.
End StepIf.

Tactic Notation "ev" :=
  unfold bc, de, hl, imm16, pair16, log, xbc, xde, xhl, w16, done;
  cbn [fst snd cur cyc early trace fault halted haltbug stopped eip ra rb rc rd re rf rh rl sp pc u8a u8b m8a m8b mooneye
       set_ra set_rb set_rc set_rd set_re set_rf set_rh set_rl set_sp set_pc set_halted set_haltbug set_stopped set_eip
       set_u8a set_u8b set_m8a set_m8b set_cur set_cyc set_early set_mooneye set_fault set_trace
       get_reg set_reg get_rp set_rp bc de hl imm16 pair16 log exec src_val dread dwrite inc_sp dec_sp inc_hl dec_hl do_rst do_push
       is_finished check_cond nth_error length Nat.eqb andb orb negb
       arch_of xa xb xc xd xe xh xl xf xsp xpc xhalted xhaltbug xstopped xeip
       set_xa set_xb set_xc set_xd set_xe set_xh set_xl set_xf set_xsp set_xpc set_xhalted set_xhaltbug set_xstopped set_xeip
       sem done pc1 is_mem getr setr get16 set16 xhl xbc xde w16 cond_holds dtrace_of fold_left
       N.of_nat Pos.of_succ_nat Pos.succ].
Tactic Notation "ev" "in" hyp(H) :=
  unfold bc, de, hl, imm16, pair16, log in H;
  cbn [fst snd cur cyc early trace fault halted haltbug stopped eip ra rb rc rd re rf rh rl sp pc u8a u8b m8a m8b mooneye
       set_ra set_rb set_rc set_rd set_re set_rf set_rh set_rl set_sp set_pc set_halted set_haltbug set_stopped set_eip
       set_u8a set_u8b set_m8a set_m8b set_cur set_cyc set_early set_mooneye set_fault set_trace
       get_reg set_reg get_rp set_rp bc de hl imm16 pair16 log exec src_val dread dwrite inc_sp dec_sp inc_hl dec_hl do_rst do_push
       is_finished check_cond nth_error length Nat.eqb andb orb negb] in H.

(* flatten states: nested setters become one constructor application whose fields are projections of the initial
   state (the kernel's conversion is exponential in the nesting depth of record setters, linear on flat records) *)
Tactic Notation "flat" :=
  cbv beta iota zeta delta [set_ra set_rb set_rc set_rd set_re set_rf set_rh set_rl set_sp set_pc set_halted set_haltbug set_stopped set_eip set_u8a set_u8b set_m8a set_m8b set_cur set_cyc set_early set_mooneye set_fault set_trace cur cyc early trace fault halted haltbug stopped eip ra rb rc rd re rf rh rl sp pc u8a u8b m8a m8b mooneye set_xa set_xb set_xc set_xd set_xe set_xh set_xl set_xf set_xsp set_xpc set_xhalted set_xhaltbug set_xstopped set_xeip xa xb xc xd xe xh xl xf xsp xpc xhalted xhaltbug xstopped xeip]; cbn [fst snd].
Tactic Notation "flat" "in" hyp(H) :=
  cbv beta iota zeta delta [set_ra set_rb set_rc set_rd set_re set_rf set_rh set_rl set_sp set_pc set_halted set_haltbug set_stopped set_eip set_u8a set_u8b set_m8a set_m8b set_cur set_cyc set_early set_mooneye set_fault set_trace cur cyc early trace fault halted haltbug stopped eip ra rb rc rd re rf rh rl sp pc u8a u8b m8a m8b mooneye] in H; cbn [fst snd] in H.

(* side conditions of the arithmetic lemmas *)
Ltac side :=
  first [ assumption | reflexivity
        | match goal with Hbb : byte_bus _ _ |- snd (_ _ _) < 256 => apply Hbb end
        | apply land240_wf; side
        | match goal with |- wf_f (snd (alu_doc _ _ _ _)) => apply alu_doc_wf; side end
        | lia ].

Ltac arith :=
  rewrite ?alu_ok, ?inc8_ok, ?dec8_ok, ?rot_ok, ?rot_a_ok, ?daa_ok, ?cpl_ok, ?scf_ok, ?ccf_ok, ?addhl_ok, ?addsp_ok,
          ?jr_target_ok, ?sub16_1, ?lor_hi_lo, ?bit_test_ok, ?bit_res_ok, ?bit_set_ok by side.

(* Hop : snd (brd b (pc s)) = <numeral> *)
Ltac eval_fetch_normal Hf Hop :=
  match type of Hop with
  | _ = ?k =>
      unfold fetch in Hf at 2; cbn [pc set_eip set_trace eip ra rb rc rd re rf rh rl sp halted haltbug stopped u8a u8b m8a m8b cur cyc early mooneye fault trace] in Hf; rewrite Hop in Hf;
      cbn [N.eqb Pos.eqb] in Hf;
      let l := fresh "l" in
      cbn [t_normal t_prefix t_early expected_tables] in Hf;
      set (l := nth (N.to_nat k) x_normal_table []) in Hf; vm_compute in l; subst l;
      let e := fresh "e" in
      set (e := lookup_early k x_early_table) in Hf; vm_compute in e; subst e;
      ev in Hf
  end.

(* CB page: Hop : snd (brd b pc) = 203, Hop2 : snd (brd (fst (brd b pc)) (add16 pc 1)) = <numeral> *)
Ltac eval_fetch_cb Hf Hop Hop2 :=
  match type of Hop2 with
  | _ = ?k =>
      unfold fetch in Hf at 2; cbn [pc set_eip set_trace eip ra rb rc rd re rf rh rl sp halted haltbug stopped u8a u8b m8a m8b cur cyc early mooneye fault trace] in Hf; rewrite Hop in Hf;
      cbn [N.eqb Pos.eqb] in Hf;
      cbn [pc set_eip set_trace set_pc set_cyc set_cur set_early eip ra rb rc rd re rf rh rl sp halted haltbug stopped u8a u8b m8a m8b cur cyc early mooneye fault trace] in Hf;
      unfold add16 in Hf; rewrite Hop2 in Hf;
      let l := fresh "l" in
      cbn [t_normal t_prefix t_early expected_tables] in Hf;
      set (l := nth (N.to_nat k) x_prefix_table []) in Hf; vm_compute in l; subst l;
      ev in Hf
  end.
