(* CartInv5.v — MBC5 writes preserve the cartridge invariant (kept apart: the nine ROM sizes are settled by lia). *)
From Coq Require Import ZArith ZifyN ZifyNat ZifyBool.
From V.lib Require Import Bits Mem Res.
From V.model Require Import Rtc Cart.
From V.spec Require Import CartSpec.
From V.proofs Require Import CartLemmas CartInv.

Lemma mbc5_write_inv h c a v :
  c_kind c = KMbc5 -> Inv h c -> v < 256 -> post h c a v (mbc5_write c a v).
Proof.
  intros Hk HI Hv. pose proof (inv_nrom_ge2 _ _ HI) as Hn.
  destruct HI as [Hpow Hr _ Hen Hregs]. unfold regs_ok in Hregs. rewrite Hk in Hregs, Hen. cbn [kind_ctrl] in Hen.
  destruct Hregs as (R1 & R2 & R3 & RL & R4).
  pose proof (nram_ok_pos _ Hr) as [Hr0 Hr16].
  unfold mbc5_write, post.
  assert (Hsame : forall c', c_kind c' = KMbc5 -> c_nrom c' = c_nrom c -> c_nram c' = c_nram c ->
            c_img c' = c_img c ->
            c_en c' = ram_enabled Mbc5 (h ++ [(a, v)]) ->
            c_romBank c' < c_nrom c -> c_romBank c' < 65536 ->
            (c_nrom c <= 512 -> c_romBank c' = mbc5_bank (h ++ [(a, v)]) mod c_nrom c) ->
            reg (between 8192 12288) 1 (h ++ [(a, v)]) < 256 ->
            c_ramBank c' = ram_select (h ++ [(a, v)]) mod c_nram c ->
            Inv (h ++ [(a, v)]) c' /\ same_frame c c').
  { intros c' K1 K2 K3 K4 K5 K6 K7 K8 K9 K10. split; [|repeat split; congruence].
    constructor; try (rewrite ?K1, ?K2, ?K3; assumption); try (rewrite K1; discriminate).
    unfold regs_ok. rewrite K1, K2, K3. repeat split; assumption. }
  destruct (a <? 8192) eqn:E1.
  { eexists; split; [reflexivity|]. apply Hsame; projs; try (reflexivity || assumption); snocs; rewrite ?reg_snoc; region.
    - unfold enable_region. rewrite E1. apply enable_value_spec.
    - exact R3.
    - exact RL.
    - exact R4. }
  assert (Een : ram_enabled Mbc5 (h ++ [(a, v)]) = ram_enabled Mbc5 h).
  { snocs. unfold enable_region. rewrite E1. reflexivity. }
  destruct (a <? 12288) eqn:E2.
  { rewrite gomod_ok by lia. cbn [bind].
    set (x := u16 (N.land (c_romBank c) 65280 + v)).
    assert (Hx : x < 65536) by apply u16_lt.
    assert (Hxm : x mod c_nrom c < c_nrom c) by (apply N.mod_lt; lia).
    assert (Hxl : x mod c_nrom c <= x) by (apply N.mod_le; lia).
    assert (Hu : u16 (x mod c_nrom c) = x mod c_nrom c) by (apply u16_id; lia).
    eexists; split; [reflexivity|]. apply Hsame; projs; rewrite ?Hu; try (reflexivity || assumption || lia);
      snocs; rewrite ?reg_snoc; region.
    - unfold enable_region. rewrite E1. exact Hen.
    - intros Hle. specialize (R3 Hle). subst x.
      rewrite land_ff00 by lia.
      set (lo := reg (between 8192 12288) 1 h) in *.
      set (hi := reg (between 12288 16384) 0 h mod 2) in *.
      assert (Hhi : hi < 2) by (subst hi; apply N.mod_lt; lia).
      unfold mbc5_bank in R3. fold lo hi in R3.
      assert (Hu2 : u16 (256 * (c_romBank c / 256) + v) = 256 * (c_romBank c / 256) + v) by (apply u16_id; lia).
      rewrite Hu2.
      destruct (pow2_enum _ Hpow Hle) as [En|[En|[En|[En|[En|[En|[En|[En|En]]]]]]]]; rewrite En in *; lia.
    - exact Hv.
    - exact R4. }
  destruct (a <? 16384) eqn:E3.
  { rewrite gomod_ok by lia. cbn [bind].
    set (x := u16 (u16 (N.shiftl v 8) + N.land (c_romBank c) 255)).
    assert (Hx : x < 65536) by apply u16_lt.
    assert (Hxm : x mod c_nrom c < c_nrom c) by (apply N.mod_lt; lia).
    assert (Hxl : x mod c_nrom c <= x) by (apply N.mod_le; lia).
    assert (Hu : u16 (x mod c_nrom c) = x mod c_nrom c) by (apply u16_id; lia).
    eexists; split; [reflexivity|]. apply Hsame; projs; rewrite ?Hu; try (reflexivity || assumption || lia);
      snocs; rewrite ?reg_snoc; region.
    - unfold enable_region. rewrite E1. exact Hen.
    - intros Hle. specialize (R3 Hle). subst x.
      rewrite shiftl8, land255.
      set (lo := reg (between 8192 12288) 1 h) in *.
      set (hi := reg (between 12288 16384) 0 h mod 2) in *.
      assert (Hhi : hi < 2) by (subst hi; apply N.mod_lt; lia).
      unfold mbc5_bank in R3. fold lo hi in R3.
      assert (Hu1 : u16 (256 * v) = 256 * v) by (apply u16_id; lia).
      rewrite Hu1.
      assert (Hu2 : u16 (256 * v + c_romBank c mod 256) = 256 * v + c_romBank c mod 256) by (apply u16_id; lia).
      rewrite Hu2.
      destruct (pow2_enum _ Hpow Hle) as [En|[En|[En|[En|[En|[En|[En|[En|En]]]]]]]]; rewrite En in *; lia.
    - exact RL.
    - exact R4. }
  destruct (a <? 24576) eqn:E4.
  { assert (Hr8 : u8 (c_nram c) = c_nram c) by (apply u8_id; lia).
    rewrite Hr8, gomod_ok by lia. cbn [bind].
    eexists; split; [reflexivity|]. apply Hsame; projs; try (reflexivity || assumption || lia);
      snocs; rewrite ?reg_snoc; region.
    - unfold enable_region. rewrite E1. exact Hen.
    - exact R3.
    - exact RL.
    - rewrite land15. reflexivity. }
  assert (Hs : forall c', c_kind c' = KMbc5 -> c_nrom c' = c_nrom c -> c_nram c' = c_nram c ->
            c_img c' = c_img c -> c_en c' = c_en c -> c_romBank c' = c_romBank c -> c_ramBank c' = c_ramBank c ->
            Inv (h ++ [(a, v)]) c' /\ same_frame c c').
  { intros c' K1 K2 K3 K4 K5 K6 K7. apply Hsame; try assumption; rewrite ?K5, ?K6, ?K7; try assumption;
      snocs; rewrite ?reg_snoc; region.
    - unfold enable_region. rewrite E1. exact Hen.
    - exact R3.
    - exact RL.
    - exact R4. }
  destruct (a <? 40960); [eexists; split; [reflexivity|]; apply Hs; projs; (reflexivity || assumption)|].
  destruct (a <? 49152); [|eexists; split; [reflexivity|]; apply Hs; projs; (reflexivity || assumption)].
  destruct (c_en c) eqn:He; [|eexists; split; [reflexivity|]; apply Hs; projs; (reflexivity || assumption)].
  unfold ram_put.
  assert (Hlt : (c_ramBank c <? c_nram c) = true).
  { apply N.ltb_lt. rewrite R4. apply N.mod_lt. lia. }
  rewrite Hlt. eexists; split; [reflexivity|]; apply Hs; projs; (reflexivity || assumption).
Qed.
