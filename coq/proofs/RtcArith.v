(* RtcArith.v — the mixed-radix arithmetic behind C10: one increment of a clock written as a number of seconds. *)
From Coq Require Import ZArith ZifyN ZifyNat ZifyBool.
From V.lib Require Import Bits Res.
From V.model Require Import Rtc.
From V.spec Require Import RtcSpec.
From V.proofs Require Import CartLemmas.

Ltac rprojs :=
  cbn [r_s r_m r_h r_d r_carry r_halt r_ls r_lm r_lh r_ld r_lcarry r_lhalt r_ticks r_low
       set_counters set_ticks set_low set_halt copy_latch].
Tactic Notation "rprojs" "in" "*" :=
  cbn [r_s r_m r_h r_d r_carry r_halt r_ls r_lm r_lh r_ld r_lcarry r_lhalt r_ticks r_low
       set_counters set_ticks set_low set_halt copy_latch] in *.

(* ---- one increment on a clock written as a number of seconds ---- *)
Lemma succ_divmod_60 T :
  if T mod 60 + 1 =? 60 then (T + 1) mod 60 = 0 /\ (T + 1) / 60 = T / 60 + 1
  else (T + 1) mod 60 = T mod 60 + 1 /\ (T + 1) / 60 = T / 60.
Proof. destruct (N.eqb_spec (T mod 60 + 1) 60); lia. Qed.
Lemma succ_divmod_24 T :
  if T mod 24 + 1 =? 24 then (T + 1) mod 24 = 0 /\ (T + 1) / 24 = T / 24 + 1
  else (T + 1) mod 24 = T mod 24 + 1 /\ (T + 1) / 24 = T / 24.
Proof. destruct (N.eqb_spec (T mod 24 + 1) 24); lia. Qed.
Lemma succ_divmod_512 T :
  if T mod 512 + 1 =? 512 then (T + 1) mod 512 = 0 /\ (T + 1) / 512 = T / 512 + 1
  else (T + 1) mod 512 = T mod 512 + 1 /\ (T + 1) / 512 = T / 512.
Proof. destruct (N.eqb_spec (T mod 512 + 1) 512); lia. Qed.

Lemma div_3600 T : T / 3600 = T / 60 / 60.
Proof. rewrite N.div_div by lia. reflexivity. Qed.
Lemma div_86400 T : T / 86400 = T / 60 / 60 / 24.
Proof. rewrite !N.div_div by lia. reflexivity. Qed.

Lemma mod_small_id x m : x < m -> x mod m = x.
Proof. intros; apply N.mod_small; assumption. Qed.

Lemma increment_of_total c T :
  rtc_increment (rtc_of_total c T) = rtc_of_total c (T + 1).
Proof.
  unfold rtc_increment, rtc_of_total. rprojs.
  rewrite !div_3600, !div_86400.
  set (q1 := T / 60). set (q2 := q1 / 60). set (q3 := q2 / 24).
  assert (Hs : T mod 60 < 60) by (apply N.mod_lt; lia).
  assert (Hm : q1 mod 60 < 60) by (apply N.mod_lt; lia).
  assert (Hh : q2 mod 24 < 24) by (apply N.mod_lt; lia).
  assert (Hd : q3 mod 512 < 512) by (apply N.mod_lt; lia).
  rewrite !land63, !land31, !land511.
  rewrite (u8_id (T mod 60 + 1)) by lia.
  rewrite (u8_id (q1 mod 60 + 1)) by lia.
  rewrite (u8_id (q2 mod 24 + 1)) by lia.
  rewrite (u16_id (q3 mod 512 + 1)) by lia.
  pose proof (succ_divmod_60 T) as S1. fold q1 in S1.
  destruct (T mod 60 + 1 =? 60) eqn:E1; destruct S1 as [S1a S1b]; rewrite S1a, S1b.
  2:{ fold q2 q3. unfold set_counters. f_equal; apply mod_small_id; lia. }
  pose proof (succ_divmod_60 q1) as S2. fold q2 in S2.
  destruct (q1 mod 60 + 1 =? 60) eqn:E2; destruct S2 as [S2a S2b]; rewrite S2a, S2b.
  2:{ fold q3. unfold set_counters. f_equal; apply mod_small_id; lia. }
  pose proof (succ_divmod_24 q2) as S3. fold q3 in S3.
  destruct (q2 mod 24 + 1 =? 24) eqn:E3; destruct S3 as [S3a S3b]; rewrite S3a, S3b.
  2:{ unfold set_counters. f_equal; apply mod_small_id; lia. }
  pose proof (succ_divmod_512 q3) as S4.
  destruct (q3 mod 512 + 1 =? 512) eqn:E4; destruct S4 as [S4a S4b]; rewrite S4a.
  - unfold set_counters. f_equal. destruct (r_carry c); cbn [orb]; [reflexivity|]. symmetry. apply N.leb_le. lia.
  - unfold set_counters. f_equal; [apply mod_small_id; lia|].
    f_equal. destruct (N.leb_spec 512 q3), (N.leb_spec 512 (q3 + 1)); try reflexivity; lia.
Qed.
