(* MapperDecode.v — the decoder obligation of C06: both generated decoders of memory/mapper.go (GenMapper.v,
   regenerated from the Go source on every run) route every 16-bit address to the component the DMG memory map
   (AddrSpec.spec_region) prescribes.  All 65,536 addresses by computation, lifted to the forall. *)
From V.lib Require Import Bits Mem Res.
From V.model Require Import MapperTypes System.
From V.gen Require Import GenMapper GenConsts.
From V.spec Require Import AddrSpec.

Lemma reg_at_some a r : reg_at a = Some r -> reg_addr r = a.
Proof.
  unfold reg_at. intros H. apply find_some in H. destruct H as [_ H]. apply N.eqb_eq in H. exact H.
Qed.

Lemma reg_addr_page r : 0xFF00 <= reg_addr r < 65536.
Proof. destruct r; cbn; lia. Qed.

Lemma reg_at_addr r : reg_at (reg_addr r) = Some r.
Proof. destruct r; reflexivity. Qed.

Lemma reg_addr_inj r r' : reg_addr r = reg_addr r' -> r = r'.
Proof.
  intros H. pose proof (reg_at_addr r) as E. rewrite H, reg_at_addr in E. congruence.
Qed.

(* decidable equality of handlers (registers compared through their injective address) *)
Definition handler_eqb (x y : handler) : bool :=
  match x, y with
  | HMbc, HMbc | HVideoRAM, HVideoRAM | HOam, HOam | HConstFF, HConstFF | HWaveRAM, HWaveRAM
  | HPanic, HPanic => true
  | HInternalRAM b, HInternalRAM b' => b =? b'
  | HZeroPage b, HZeroPage b' => b =? b'
  | HReg r, HReg r' => reg_addr r =? reg_addr r'
  | _, _ => false
  end.

Lemma handler_eqb_eq x y : handler_eqb x y = true -> x = y.
Proof.
  destruct x, y; cbn [handler_eqb]; intros H; try discriminate; try reflexivity;
    apply N.eqb_eq in H; try (f_equal; exact H).
  f_equal. apply reg_addr_inj. exact H.
Qed.

Definition page_ok (f : N -> handler) (p : N) : bool :=
  forallb (fun o => handler_eqb (f (256 * p + o)) (handler_of (spec_region (256 * p + o)))) bytes.

Lemma sweep_addrs (f : N -> handler) :
  forallb (page_ok f) bytes = true -> forall a, a < 65536 -> f a = handler_of (spec_region a).
Proof.
  intros H a Ha.
  assert (Hp : a / 256 < 256) by (apply N.div_lt_upper_bound; lia).
  assert (Hm : a mod 256 < 256) by (apply N.mod_lt; discriminate).
  pose proof (sweep_bytes _ H (a / 256) Hp) as H1. unfold page_ok in H1.
  pose proof (sweep_bytes _ H1 (a mod 256) Hm) as H2. cbv beta in H2.
  rewrite <- (N.div_mod a 256) in H2 by discriminate.
  apply handler_eqb_eq. exact H2.
Qed.

Lemma read_table_ok : forallb (page_ok read_handler) bytes = true.
Proof. vm_compute. reflexivity. Qed.

Lemma write_table_ok : forallb (page_ok write_handler) bytes = true.
Proof. vm_compute. reflexivity. Qed.

Theorem decode_read_ok a : a < 65536 -> read_handler a = handler_of (spec_region a).
Proof. exact (sweep_addrs read_handler read_table_ok a). Qed.

Theorem decode_write_ok a : a < 65536 -> write_handler a = handler_of (spec_region a).
Proof. exact (sweep_addrs write_handler write_table_ok a). Qed.

(* the two Go arrays behind work RAM and high RAM are large enough for their regions
   (internalRAM [0x2000]byte for C000-DFFF, zeroPage [..]byte for FF80-FFFE) *)
Lemma backing_sizes_ok : 0x2000 <= internalRAM_size /\ 0x7F <= zeroPage_size.
Proof. split; vm_compute; discriminate. Qed.

(* the register constants of mapper.go (as regenerated in GenConsts.v) are the DMG's register addresses *)
Lemma reg_consts_ok :
  [addr_JOYP; addr_SB; addr_SC; addr_DIV; addr_TIMA; addr_TMA; addr_TAC; addr_IF;
   addr_NR10; addr_NR11; addr_NR12; addr_NR13; addr_NR14; addr_NR21; addr_NR22; addr_NR23; addr_NR24;
   addr_NR30; addr_NR31; addr_NR32; addr_NR33; addr_NR34; addr_NR41; addr_NR42; addr_NR43; addr_NR44;
   addr_NR50; addr_NR51; addr_NR52;
   addr_LCDC; addr_STAT; addr_SCY; addr_SCX; addr_LY; addr_LYC; addr_DMA; addr_BGP; addr_OBP0; addr_OBP1;
   addr_WY; addr_WX; addr_IE] = map reg_addr all_regs.
Proof. reflexivity. Qed.

(* ---- inversion of the region table: what an address in a region looks like ---- *)

Lemma spec_region_reg r : spec_region (reg_addr r) = GIo r.
Proof. destruct r; reflexivity. Qed.

Ltac region_cases a :=
  unfold spec_region;
  repeat match goal with
         | |- context [if ?c then _ else _] => let E := fresh "E" in destruct c eqn:E
         | |- context [match reg_at a with _ => _ end] => let E := fresh "E" in destruct (reg_at a) eqn:E
         end.

Lemma region_inv a : a < 65536 ->
  match spec_region a with
  | GRom => a < 0x8000
  | GVram => 0x8000 <= a < 0xA000
  | GCartRam => 0xA000 <= a < 0xC000
  | GWram => 0xC000 <= a < 0xE000
  | GEcho => 0xE000 <= a < 0xFE00
  | GOam => 0xFE00 <= a < 0xFEA0
  | GUnusable => 0xFEA0 <= a < 0xFF00
  | GIo r => a = reg_addr r
  | GUnmapped => 0xFF00 <= a < 0xFF80 /\ reg_at a = None /\ ~ (0xFF30 <= a < 0xFF40)
  | GWave => 0xFF30 <= a < 0xFF40
  | GHram => 0xFF80 <= a < 0xFFFF
  end.
Proof.
  intros H.
  assert (Hd : a = 256 * (a / 256) + a mod 256) by (apply N.div_mod; discriminate).
  assert (Hm : a mod 256 < 256) by (apply N.mod_lt; discriminate).
  assert (Hp : a / 256 < 256) by (apply N.div_lt_upper_bound; lia).
  region_cases a;
    repeat match goal with
           | E : (_ <? _) = true |- _ => apply N.ltb_lt in E
           | E : (_ <? _) = false |- _ => apply N.ltb_ge in E
           | E : (_ <=? _) = true |- _ => apply N.leb_le in E
           | E : (_ <=? _) = false |- _ => apply N.leb_gt in E
           | E : (_ =? _) = true |- _ => apply N.eqb_eq in E
           | E : (_ =? _) = false |- _ => apply N.eqb_neq in E
           | E : (_ && _) = true |- _ => apply andb_true_iff in E; destruct E
           | E : (_ && _) = false |- _ => apply andb_false_iff in E
           end;
    try (symmetry; apply reg_at_some; assumption);
    try lia.
  - (* high RAM: FFFF is IE, so a register *)
    assert (a <> 0xFFFF) by (intros ->; discriminate).
    lia.
  - split; [lia|]. split; [reflexivity|]. lia.
Qed.

(* the runner's handler-passing read is Mapper.Read *)
From V.model Require Import MapperExec.
Lemma sys_read_with_ok s a : sys_read s a = sys_read_with (read_handler a) s a.
Proof. reflexivity. Qed.
