(* ConstsTie.v — the named constants the hand-written timer and APU models carry are the ones regenerated from the Go
   source on this run (GenConsts.v): a changed table or period breaks these obligations. *)
From Coq Require Import NArith List.
From V.model Require Timer Apu.
From V.gen Require GenConsts.
Import ListNotations.
Open Scope N_scope.

Lemma counter_masks_tie : map Timer.counter_bit_mask [0; 1; 2; 3] = GenConsts.counterBitMasks.
Proof. reflexivity. Qed.

Lemma apu_periods_tie : Apu.frameSeqPeriod = GenConsts.frameSeqPeriod /\ Apu.samplerPeriod = GenConsts.samplerPeriod.
Proof. split; reflexivity. Qed.
