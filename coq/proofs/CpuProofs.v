(* CpuProofs.v — one instruction of the CPU model (with the opcode tables regenerated from dispatch.go) refines the
   documented SM83 semantics: architectural state, bus, data-access schedule and cycle count, for every defined opcode
   on both pages, every register/flag state and every bus. *)
From V.lib Require Import Bits.
From V.model Require Import Uop Alu Cpu CpuTables.
From V.spec Require Import Sm83Spec.
From V.proofs Require Import AluProofs CpuLemmas ExpectedDispatch CpuTablesOk CpuOpsAll.
From Coq Require Import ZArith ZifyN ZifyBool.

Section Refines.
  Variable B : Type.
  Variable brd : B -> N -> B * N.
  Variable bwr : B -> N -> N -> B.
  Variable btrig : B -> N -> B.
  Variable bcorrupt : B -> B.
  Variable bime : B -> bool.
  Variable bset_ime : B -> bool -> B.
  Variable bpending : B -> N.
  Variable back : B -> N -> B.
  Hypothesis Htrig : forall b a, btrig b a = b.
  Hypothesis Hcor : forall b, bcorrupt b = b.

  (* the opcode at PC is one of the 245 + 256 defined ones *)
  Definition defined_at (s : cpu) (b : B) : Prop :=
    snd (brd (commit B bset_ime s b) (pc s)) = 203 \/ defined (snd (brd (commit B bset_ime s b) (pc s))) = true.

  Theorem instr_refines : forall s b,
    starts gen_tables B bime bpending s b -> wf s -> byte_bus B brd -> defined_at s b ->
    agrees B (run_instr gen_tables B brd bwr btrig bcorrupt bime bset_ime bpending back s b)
             (spec_instr B brd bwr bset_ime bime bpending (arch_of (set_eip false s)) (commit B bset_ime s b)).
  Proof.
    rewrite gen_tables_ok.
    intros s b Hst Hwf Hbb Hdef.
    destruct (N.eq_dec (snd (brd (commit B bset_ime s b) (pc s))) 203) as [Hcb|Hn].
    - apply (all_cbs B brd bwr btrig bcorrupt bime bset_ime bpending back Htrig Hcor
               (snd (brd (fst (brd (commit B bset_ime s b) (pc s))) (add16 (pc s) 1)))); auto.
    - destruct Hdef as [Hd|Hd]; [contradiction|].
      apply (all_ops B brd bwr btrig bcorrupt bime bset_ime bpending back Htrig Hcor (snd (brd (commit B bset_ime s b) (pc s)))); auto.
  Qed.
End Refines.

(* ---- the documented cycle count is a function of the instruction and the flags at the boundary ---- *)
Section Cycles.
  Variable B : Type.
  Variable brd : B -> N -> B * N.
  Variable bwr : B -> N -> N -> B.
  Variable bset_ime : B -> bool -> B.
  Variable bime : B -> bool.
  Variable bpending : B -> N.

  Lemma sem_cycles i a b :
    snd (sem B brd bwr bset_ime bime bpending i a b) = spec_cycles i (xf a).
  Proof.
    destruct i; cbn [sem spec_cycles done snd is_mem]; try reflexivity;
      repeat match goal with
             | |- context [is_mem ?r] => destruct r; cbn [is_mem andb orb]
             | |- context [match ?c with None => _ | Some _ => _ end] => destruct c
             | |- context [match ?i0 with iBC => _ | iDE => _ | iHLI => _ | iHLD => _ end] => destruct i0
             end;
      cbn [snd done xf pc1 set_xpc]; try reflexivity;
      repeat match goal with
             | |- context [if cond_holds ?c ?f then _ else _] => destruct (cond_holds c f)
             | |- context [if bime ?x then _ else _] => destruct (bime x)
             | |- context [if ?x =? 0 then _ else _] => destruct (x =? 0)
             end; cbn [snd done]; try reflexivity.
  Qed.
End Cycles.

(* ---- flags: the low nibble of F is zero after every instruction (wf is an invariant) ---- *)
Definition wf_arch (a : arch) : Prop :=
  xa a < 256 /\ xb a < 256 /\ xc a < 256 /\ xd a < 256 /\ xe a < 256 /\ xh a < 256 /\ xl a < 256 /\
  wf_f (xf a) /\ xsp a < 65536 /\ xpc a < 65536.

Lemma wf_arch_of s : wf s <-> wf_arch (arch_of s).
Proof. unfold wf, wf_arch, arch_of; cbn; tauto. Qed.

(* helper facts: documented results are bytes / well-formed flag registers *)
Definition un_wf_check (g : N -> N -> N * N) : bool :=
  forallb (fun r => forallb (fun k => let p := g r (16 * k) in (fst p <? 256) && (snd p <? 256) && (snd p mod 16 =? 0)) nibbles) bytes.
Lemma un_wf_lift g : un_wf_check g = true -> forall r f, r < 256 -> wf_f f -> fst (g r f) < 256 /\ wf_f (snd (g r f)).
Proof.
  intros H r f Hr Hf. destruct (wf_f_16k f Hf) as (k & Hk & ->).
  pose proof (sweep_bytes _ H r Hr) as H1. cbv beta in H1.
  pose proof (sweep_upto 16 _ H1 k Hk) as H2. cbv beta zeta in H2.
  apply andb_prop in H2; destruct H2 as [H2 H4]. apply andb_prop in H2; destruct H2 as [H2 H3].
  apply N.ltb_lt in H2, H3. apply N.eqb_eq in H4. repeat split; assumption.
Qed.

Lemma inc_doc_wf r f : r < 256 -> wf_f f -> fst (inc_doc r f) < 256 /\ wf_f (snd (inc_doc r f)).
Proof. apply un_wf_lift. vm_compute. reflexivity. Qed.
Lemma dec_doc_wf r f : r < 256 -> wf_f f -> fst (dec_doc r f) < 256 /\ wf_f (snd (dec_doc r f)).
Proof. apply un_wf_lift. vm_compute. reflexivity. Qed.
Lemma rot_doc_wf o r f : r < 256 -> wf_f f -> fst (rot_doc o r f) < 256 /\ wf_f (snd (rot_doc o r f)).
Proof. destruct o; apply un_wf_lift; vm_compute; reflexivity. Qed.
Lemma rota_doc_wf o r f : r < 256 -> wf_f f -> fst (rota_doc o r f) < 256 /\ wf_f (snd (rota_doc o r f)).
Proof. destruct o; apply un_wf_lift; vm_compute; reflexivity. Qed.
Lemma daa_doc_wf r f : r < 256 -> wf_f f -> fst (daa_doc r f) < 256 /\ wf_f (snd (daa_doc r f)).
Proof. apply un_wf_lift. vm_compute. reflexivity. Qed.
Lemma cpl_doc_wf r f : r < 256 -> wf_f f -> fst (cpl_doc r f) < 256 /\ wf_f (snd (cpl_doc r f)).
Proof. apply un_wf_lift. vm_compute. reflexivity. Qed.

Lemma bitop_wf n v : n < 8 -> v < 256 ->
  (if N.testbit v n then v - 2 ^ n else v) < 256 /\ (if N.testbit v n then v else v + 2 ^ n) < 256.
Proof.
  intros Hn Hv.
  assert (H : forallb (fun n => forallb (fun v =>
     ((if N.testbit v n then v - 2 ^ n else v) <? 256) && ((if N.testbit v n then v else v + 2 ^ n) <? 256)) bytes) (upto 8) = true)
    by (vm_compute; reflexivity).
  pose proof (sweep_upto 8 _ H n Hn) as H1. cbv beta in H1.
  pose proof (sweep_bytes _ H1 v Hv) as H2. cbv beta in H2.
  apply andb_prop in H2; destruct H2 as [H2 H3]. apply N.ltb_lt in H2, H3. auto.
Qed.

Lemma hi_lt v : v < 65536 -> v / 256 < 256. Proof. intros; lia. Qed.
Lemma lo_lt v : v mod 256 < 256. Proof. lia. Qed.
Lemma m16_lt v : v mod 65536 < 65536. Proof. lia. Qed.
Lemma w16_lt hi lo : hi < 256 -> lo < 256 -> w16 hi lo < 65536. Proof. unfold w16; lia. Qed.
Lemma add_disp_lt v e : add_disp v e < 65536. Proof. unfold add_disp; destruct (e <? 128); lia. Qed.

Definition instr_ok (i : instr) : Prop :=
  match i with
  | ICbBit n _ | ICbRes n _ | ICbSet n _ => n < 8
  | IRst v => v < 65536
  | _ => True
  end.
Definition instr_okb (i : instr) : bool :=
  match i with
  | ICbBit n _ | ICbRes n _ | ICbSet n _ => n <? 8
  | IRst v => v <? 65536
  | _ => true
  end.
Lemma instr_okb_ok i : instr_okb i = true -> instr_ok i.
Proof. destruct i; cbn; intros H; try exact I; apply N.ltb_lt; exact H. Qed.

Lemma decode_ok op : op < 256 -> instr_ok (decode op) /\ instr_ok (decode_cb op).
Proof.
  intros H.
  assert (E : forallb (fun op => instr_okb (decode op) && instr_okb (decode_cb op)) bytes = true) by (vm_compute; reflexivity).
  pose proof (sweep_bytes _ E op H) as H1. cbv beta in H1.
  apply andb_prop in H1; destruct H1; split; apply instr_okb_ok; assumption.
Qed.

Section Wf.
  Variable B : Type.
  Variable brd : B -> N -> B * N.
  Variable bwr : B -> N -> N -> B.
  Variable bset_ime : B -> bool -> B.
  Variable bime : B -> bool.
  Variable bpending : B -> N.
  Hypothesis Hbb : byte_bus B brd.

  Local Ltac wf_solve :=
    repeat match goal with |- _ /\ _ => split end;
    first [ assumption
          | apply Hbb
          | apply lo_lt | apply m16_lt | apply hi_lt; first [assumption | apply m16_lt | apply add_disp_lt | apply w16_lt; first [assumption | apply Hbb]]
          | apply add_disp_lt
          | apply w16_lt; first [assumption | apply Hbb]
          | apply wf_f_pack | apply land240_wf; apply Hbb
          | (eapply proj1; eapply alu_doc_wf; first [assumption | apply Hbb])
          | (eapply proj2; eapply alu_doc_wf; first [assumption | apply Hbb])
          | (eapply proj1; first [eapply inc_doc_wf | eapply dec_doc_wf | eapply rot_doc_wf | eapply rota_doc_wf | eapply daa_doc_wf | eapply cpl_doc_wf]; first [assumption | apply Hbb])
          | (eapply proj2; first [eapply inc_doc_wf | eapply dec_doc_wf | eapply rot_doc_wf | eapply rota_doc_wf | eapply daa_doc_wf | eapply cpl_doc_wf]; first [assumption | apply Hbb])
          | (eapply proj1; eapply bitop_wf; first [assumption | apply Hbb])
          | (eapply proj2; eapply bitop_wf; first [assumption | apply Hbb])
          | lia ].

  Lemma sem_wf i a b : instr_ok i -> wf_arch a ->
    wf_arch (fst (fst (fst (sem B brd bwr bset_ime bime bpending i a b)))).
  Proof.
    intros Hi Hwf. destruct a as [a_ b_ c_ d_ e_ h_ l_ f_ sp_ pc_ ha hb st ei].
    destruct Hwf as (Ha & Hb & Hc & Hd & He & Hh & Hl & Hf & Hsp & Hpc).
    cbn [xa xb xc xd xe xh xl xf xsp xpc] in *.
    pose proof Hf as (Hf1 & Hf2).
    destruct i; cbn [instr_ok] in Hi; unfold wf_arch; cbn [sem]; unfold set16, get16;
      repeat match goal with
             | |- context [is_mem ?r] => destruct r; cbn [is_mem]
             | |- context [match ?i0 with iBC => _ | iDE => _ | iHLI => _ | iHLD => _ end] => destruct i0
             | |- context [match ?q with qBC => _ | qDE => _ | qHL => _ | qAF => _ end] => destruct q
             | |- context [match ?p with pBC => _ | pDE => _ | pHL => _ | pSP => _ end] => destruct p
             end;
      unfold done, pc1, set16, get16, setr, getr, xhl, xbc, xde, inc16, dec16, addsp_doc, addhl_doc, scf_doc, ccf_doc;
      cbv beta iota zeta delta [set_xa set_xb set_xc set_xd set_xe set_xh set_xl set_xf set_xsp set_xpc set_xhalted set_xhaltbug
                                set_xstopped set_xeip xa xb xc xd xe xh xl xf xsp xpc xhalted xhaltbug xstopped xeip rdv rdb]; cbn [fst snd];
      repeat match goal with
             | |- context [if ?c then _ else _] => lazymatch c with N.testbit _ _ => fail | _ => destruct c end
             | |- context [match ?c with None => _ | Some _ => _ end] => destruct c
             end;
      cbv beta iota zeta delta [set_xa set_xb set_xc set_xd set_xe set_xh set_xl set_xf set_xsp set_xpc set_xhalted set_xhaltbug
                                set_xstopped set_xeip xa xb xc xd xe xh xl xf xsp xpc xhalted xhaltbug xstopped xeip]; cbn [fst snd];
      wf_solve.
  Qed.
End Wf.

Section WfInstr.
  Variable B : Type.
  Variable brd : B -> N -> B * N.
  Variable bwr : B -> N -> N -> B.
  Variable btrig : B -> N -> B.
  Variable bcorrupt : B -> B.
  Variable bime : B -> bool.
  Variable bset_ime : B -> bool -> B.
  Variable bpending : B -> N.
  Variable back : B -> N -> B.
  Hypothesis Htrig : forall b a, btrig b a = b.
  Hypothesis Hcor : forall b, bcorrupt b = b.
  Hypothesis Hbb : byte_bus B brd.

  Lemma pc1_wf a : wf_arch a -> wf_arch (pc1 a).
  Proof.
    unfold wf_arch, pc1, inc16. destruct a; cbn. intros (?&?&?&?&?&?&?&?&?&?). repeat match goal with |- _ /\ _ => split end; try assumption. apply m16_lt.
  Qed.
  Lemma clear_hb_wf a : wf_arch a -> wf_arch (set_xhaltbug false a).
  Proof. unfold wf_arch. destruct a; cbn. tauto. Qed.

  Lemma spec_instr_wf a b : wf_arch a ->
    wf_arch (fst (fst (fst (spec_instr B brd bwr bset_ime bime bpending a b)))).
  Proof.
    intros Hwf. unfold spec_instr.
    destruct (rdv B brd b (xpc a) =? 203).
    - apply sem_wf; [exact Hbb | apply decode_ok; apply Hbb |].
      destruct (xhaltbug (pc1 a)); [apply clear_hb_wf | apply pc1_wf]; apply pc1_wf; exact Hwf.
    - apply sem_wf; [exact Hbb | apply decode_ok; apply Hbb |].
      destruct (xhaltbug a); [apply clear_hb_wf | apply pc1_wf]; exact Hwf.
  Qed.

  (* well-formedness (bytes are bytes, the low nibble of F is zero) is preserved by every instruction of the model *)
  Theorem run_instr_wf s b :
    starts gen_tables B bime bpending s b -> wf s -> defined_at B brd bset_ime s b ->
    wf (fst (fst (run_instr gen_tables B brd bwr btrig bcorrupt bime bset_ime bpending back s b))).
  Proof.
    intros Hst Hwf Hd.
    pose proof (instr_refines B brd bwr btrig bcorrupt bime bset_ime bpending back Htrig Hcor s b Hst Hwf Hbb Hd) as (Ha & _).
    apply wf_arch_of. rewrite Ha. apply spec_instr_wf. apply wf_arch_of. destruct s; exact Hwf.
  Qed.
End WfInstr.
