(* ApuRegProofs.v — C18: the register file of the APU model refines the last-write-or-mask machine of
   ApuSpec (part 1), for every history of bus writes and machine cycles. *)
From V.lib Require Import Bits Mem Res.
From V.model Require Import Apu.
From V.spec Require Import ApuSpec.
From V.proofs Require Import ApuLemmas.
From Coq Require Import ZArith ZifyN ZifyNat ZifyBool.

Definition rd (s : apu) (r : reg) : N := apu_bus_read s (reg_addr r).

(* ------------------------------------------------------------------------------------------------- *)
(* reads as a function of the view *)
Definition view_t : Type :=
  ((N * N * bool * N * bool) * (N * bool * N) * (N * N * bool * N * bool) * (bool * N * bool) *
   (N * bool * N * N * N * N * bool) * control)%type.

Definition rd_nrx2 (iv : N) (ei : bool) (es : N) : N :=
  let x := N.lor (shl8 iv 4) es in if ei then add8 x 8 else x.

Definition rdv (vw : view_t) (r : reg) : N :=
  let '(a1, sw, a2, a3, a4, c) := vw in
  let '(d1, iv1, ei1, es1, le1) := a1 in
  let '(sp, si, ss) := sw in
  let '(d2, iv2, ei2, es2, le2) := a2 in
  let '(dac3, ol3, le3) := a3 in
  let '(iv4, ei4, es4, sh4, wd4, dv4, le4) := a4 in
  match r with
  | NR10 => let x := N.lor (N.lor 0x80 (shl8 sp 4)) ss in if si then x else add8 x 8
  | NR11 => N.lor 0x3f (shl8 d1 6)
  | NR12 => rd_nrx2 iv1 ei1 es1
  | NR13 => 0xff
  | NR14 => if le1 then 0xff else 0xbf
  | NR21 => N.lor 0x3f (shl8 d2 6)
  | NR22 => rd_nrx2 iv2 ei2 es2
  | NR23 => 0xff
  | NR24 => if le2 then 0xff else 0xbf
  | NR30 => if dac3 then 0xff else 0x7f
  | NR31 => 0xff
  | NR32 => N.lor 0x9f (shl8 ol3 5)
  | NR33 => 0xff
  | NR34 => if le3 then 0xff else 0xbf
  | NR41 => 0xff
  | NR42 => rd_nrx2 iv4 ei4 es4
  | NR43 => N.lor (N.lor (shl8 sh4 4) (shl8 wd4 3)) dv4
  | NR44 => if le4 then 0xff else 0xbf
  | NR50 => ReadNR50 (mkApu false square_zero sweep_zero square_zero wave_zero noise_zero c 0 0)
  | NR51 => ReadNR51 (mkApu false square_zero sweep_zero square_zero wave_zero noise_zero c 0 0)
  end.

Lemma rd_rdv s r : rd s r = rdv (apu_view s) r.
Proof. destruct r; reflexivity. Qed.

(* ------------------------------------------------------------------------------------------------- *)
(* effect of a register write on the view, while powered on *)
Definition F (r : reg) (vw : view_t) (v : N) : view_t :=
  let '(a1, sw, a2, a3, a4, c) := vw in
  let '(d1, iv1, ei1, es1, le1) := a1 in
  let '(d2, iv2, ei2, es2, le2) := a2 in
  let '(dac3, ol3, le3) := a3 in
  let '(iv4, ei4, es4, sh4, wd4, dv4, le4) := a4 in
  match r with
  | NR10 => (a1, (N.land (N.shiftr v 4) 7, N.land (N.shiftr v 3) 1 =? 0, N.land v 7), a2, a3, a4, c)
  | NR11 => ((N.shiftr v 6, iv1, ei1, es1, le1), sw, a2, a3, a4, c)
  | NR12 => ((d1, N.shiftr v 4, 0 <? N.land (N.shiftr v 3) 1, N.land v 7, le1), sw, a2, a3, a4, c)
  | NR13 => vw
  | NR14 => ((d1, iv1, ei1, es1, 0 <? N.land (N.shiftr v 6) 1), sw, a2, a3, a4, c)
  | NR21 => (a1, sw, (N.shiftr v 6, iv2, ei2, es2, le2), a3, a4, c)
  | NR22 => (a1, sw, (d2, N.shiftr v 4, 0 <? N.land (N.shiftr v 3) 1, N.land v 7, le2), a3, a4, c)
  | NR23 => vw
  | NR24 => (a1, sw, (d2, iv2, ei2, es2, 0 <? N.land (N.shiftr v 6) 1), a3, a4, c)
  | NR30 => (a1, sw, a2, (0 <? N.land (N.shiftr v 7) 1, ol3, le3), a4, c)
  | NR31 => vw
  | NR32 => (a1, sw, a2, (dac3, N.land (N.shiftr v 5) 3, le3), a4, c)
  | NR33 => vw
  | NR34 => (a1, sw, a2, (dac3, ol3, 0 <? N.land (N.shiftr v 6) 1), a4, c)
  | NR41 => vw
  | NR42 => (a1, sw, a2, a3, (N.shiftr v 4, 0 <? N.land (N.shiftr v 3) 1, N.land v 7, sh4, wd4, dv4, le4), c)
  | NR43 => (a1, sw, a2, a3, (iv4, ei4, es4, N.shiftr v 4, N.land (N.shiftr v 3) 1, N.land v 7, le4), c)
  | NR44 => (a1, sw, a2, a3, (iv4, ei4, es4, sh4, wd4, dv4, 0 <? N.land (N.shiftr v 6) 1), c)
  | NR50 => (a1, sw, a2, a3, a4,
             set_ctVolR (set_ctVinR (set_ctVolL (set_ctVinL c (0 <? N.land (N.shiftr v 7) 1))
                                          (N.land (N.shiftr v 4) 7)) (0 <? N.land (N.shiftr v 3) 1)) (N.land v 7))
  | NR51 => (a1, sw, a2, a3, a4,
             set_ct1R (set_ct2R (set_ct3R (set_ct4R (set_ct1L (set_ct2L (set_ct3L (set_ct4L c
               (0 <? N.land v 0x80)) (0 <? N.land v 0x40)) (0 <? N.land v 0x20)) (0 <? N.land v 0x10))
               (0 <? N.land v 0x08)) (0 <? N.land v 0x04)) (0 <? N.land v 0x02)) (0 <? N.land v 0x01))
  end.

Ltac unfold_writes :=
  unfold WriteNR10, WriteNR11, WriteNR12, WriteNR13, WriteNR14, WriteNR21, WriteNR22, WriteNR23, WriteNR24,
         WriteNR30, WriteNR31, WriteNR32, WriteNR33, WriteNR34, WriteNR41, WriteNR42, WriteNR43, WriteNR44,
         WriteNR50, WriteNR51, sq_write_nrx2.

Lemma view_write_off s r v :
  is_on s = false -> apu_view (apu_bus_write s (reg_addr r) v) = apu_view s.
Proof.
  unfold is_on; intros Hoff.
  destruct r; cbn [reg_addr apu_bus_write N.eqb Pos.eqb]; unfold_writes; rewrite ?Hoff; reflexivity.
Qed.

Lemma on_write s r v : is_on (apu_bus_write s (reg_addr r) v) = is_on s.
Proof.
  unfold is_on.
  destruct r; cbn [reg_addr apu_bus_write N.eqb Pos.eqb]; unfold_writes;
    destruct (ctOn (ctl s)) eqn:Hon; psimpl; try reflexivity; try exact Hon.
Qed.

Lemma view_write_on s r v :
  is_on s = true -> apu_view (apu_bus_write s (reg_addr r) v) = F r (apu_view s) v.
Proof.
  unfold is_on; intros Hon.
  destruct r; cbn [reg_addr apu_bus_write N.eqb Pos.eqb]; unfold_writes; rewrite ?Hon; unfold apu_view, F; psimpl.
  - (* NR10 *) break_ifs; reflexivity.
  - (* NR11 *) reflexivity.
  - (* NR12 *) unfold sq_view; break_ifs; reflexivity.
  - (* NR13 *) reflexivity.
  - (* NR14 *)
    set (c0 := set_sqFreq (ch1 s) _).
    set (le := 0 <? N.land (N.shiftr v 6) 1). set (tr := 0 <? N.land (N.shiftr v 7) 1).
    set (c1 := sq_extra_len c0 le tr (odd_seq s)).
    assert (H0 : sq_view c1 = sq_view (ch1 s)) by (unfold c1; rewrite sq_view_extra_len; reflexivity).
    set (cw := if tr then (sq_trig_len (fst (ch1_trigger c1 (sw1 s))) le (odd_seq s), snd (ch1_trigger c1 (sw1 s)))
               else (c1, sw1 s)).
    assert (HX : sq_view (fst cw) = sq_view (ch1 s) /\ sw_view (snd cw) = sw_view (sw1 s)).
    { unfold cw. destruct tr; cbn [fst snd]; [|split; [exact H0|reflexivity]].
      destruct (ch1_trigger_view c1 (sw1 s)) as [H1 H2]. rewrite sq_view_trig_len. split; congruence. }
    destruct HX as [HX HY]. clearbody cw. clear H0. clearbody c1.
    unfold sq_view, sw_view in *. psimpl. inversion HX. inversion HY. reflexivity.
  - (* NR21 *) reflexivity.
  - (* NR22 *) unfold sq_view; break_ifs; reflexivity.
  - (* NR23 *) reflexivity.
  - (* NR24 *)
    set (c0 := set_sqFreq (ch2 s) _).
    set (le := 0 <? N.land (N.shiftr v 6) 1). set (tr := 0 <? N.land (N.shiftr v 7) 1).
    set (c1 := sq_extra_len c0 le tr (odd_seq s)).
    assert (H0 : sq_view c1 = sq_view (ch2 s)) by (unfold c1; rewrite sq_view_extra_len; reflexivity).
    set (c2 := if tr then sq_trig_len (ch2_trigger c1) le (odd_seq s) else c1).
    assert (H3 : sq_view c2 = sq_view (ch2 s)).
    { unfold c2; destruct tr; [rewrite sq_view_trig_len, sq_view_ch2_trigger|]; exact H0. }
    clearbody c2. clear H0. clearbody c1.
    unfold sq_view in *. psimpl. inversion H3. reflexivity.
  - (* NR30 *) unfold wv_view; break_ifs; reflexivity.
  - (* NR31 *) reflexivity.
  - (* NR32 *) reflexivity.
  - (* NR33 *) reflexivity.
  - (* NR34 *)
    set (w0 := set_wvFreq (ch3 s) _).
    set (le := 0 <? N.land (N.shiftr v 6) 1). set (tr := 0 <? N.land (N.shiftr v 7) 1).
    set (w1 := wv_extra_len w0 le tr (odd_seq s)).
    assert (H0 : wv_view w1 = wv_view (ch3 s)) by (unfold w1; rewrite wv_view_extra_len; reflexivity).
    set (w2 := if tr then wv_trig_len (wv_trigger w1) le (odd_seq s) else w1).
    assert (H3 : wv_view w2 = wv_view (ch3 s)).
    { unfold w2; destruct tr; [rewrite wv_view_trig_len, wv_view_trigger|]; exact H0. }
    clearbody w2. clear H0. clearbody w1.
    unfold wv_view in *. psimpl. inversion H3. reflexivity.
  - (* NR41 *) reflexivity.
  - (* NR42 *) unfold ns_view; break_ifs; reflexivity.
  - (* NR43 *) reflexivity.
  - (* NR44 *)
    set (le := 0 <? N.land (N.shiftr v 6) 1). set (tr := 0 <? N.land (N.shiftr v 7) 1).
    set (n1 := ns_extra_len (ch4 s) le tr (odd_seq s)).
    assert (H0 : ns_view n1 = ns_view (ch4 s)) by apply ns_view_extra_len.
    set (n2 := if tr then ns_trig_len (ns_trigger n1) le (odd_seq s) else n1).
    assert (H3 : ns_view n2 = ns_view (ch4 s)).
    { unfold n2; destruct tr; [rewrite ns_view_trig_len, ns_view_trigger|]; exact H0. }
    clearbody n2. clear H0. clearbody n1.
    unfold ns_view in *. psimpl. inversion H3. reflexivity.
  - (* NR50 *) reflexivity.
  - (* NR51 *) reflexivity.
Qed.

(* ------------------------------------------------------------------------------------------------- *)
(* what the changed view reads: the written byte through the mask at its own register, unchanged elsewhere *)
Lemma bytes_eq (f g : N -> N) :
  forallb (fun v => f v =? g v) bytes = true -> forall v, v < 256 -> f v = g v.
Proof. intros H v Hv. apply N.eqb_eq. exact (sweep_bytes _ H v Hv). Qed.

Definition ctl0 : control := control_zero.

Lemma rdv_F_own r vw v : v < 256 -> rdv (F r vw v) r = N.lor v (reg_mask r).
Proof.
  intros Hv.
  destruct vw as [[[[[a1 sw] a2] a3] a4] c].
  destruct a1 as [[[[d1 iv1] ei1] es1] le1], sw as [[sp si] ss], a2 as [[[[d2 iv2] ei2] es2] le2],
           a3 as [[dac3 ol3] le3], a4 as [[[[[[iv4 ei4] es4] sh4] wd4] dv4] le4].
  destruct r; cbn [F rdv reg_mask]; unfold rd_nrx2, ReadNR50, ReadNR51; psimpl;
    match goal with
    | |- ?l = ?r =>
        let fl := (eval pattern v in l) in
        let fr := (eval pattern v in r) in
        match fl with
        | ?f _ => match fr with
                  | ?g _ => apply (bytes_eq f g); [vm_compute; reflexivity | exact Hv]
                  end
        end
    end.
Qed.

Lemma rdv_F_other r r' vw v : r' <> r -> rdv (F r vw v) r' = rdv vw r'.
Proof.
  intros Hne.
  destruct vw as [[[[[a1 sw] a2] a3] a4] c].
  destruct a1 as [[[[d1 iv1] ei1] es1] le1], sw as [[sp si] ss], a2 as [[[[d2 iv2] ei2] es2] le2],
           a3 as [[dac3 ol3] le3], a4 as [[[[[[iv4 ei4] es4] sh4] wd4] dv4] le4].
  destruct r, r'; try congruence; cbn [F rdv]; unfold ReadNR50, ReadNR51; psimpl; reflexivity.
Qed.

Lemma reg_eqb_eq x y : reg_eqb x y = true <-> x = y.
Proof. split; [|intros ->; apply N.eqb_refl]. destruct x, y; cbn; congruence. Qed.

Lemma reg_of_addr_reg r : reg_of_addr (reg_addr r) = Some r.
Proof. destruct r; reflexivity. Qed.

Lemma reg_addr_not_nr52 r : (reg_addr r =? NR52_addr) = false.
Proof. destruct r; reflexivity. Qed.

(* the control bit alone does not influence what NR10-NR51 read *)
Lemma rdv_on_irrelevant a1 sw a2 a3 a4 c b r :
  rdv (a1, sw, a2, a3, a4, set_ctOn c b) r = rdv (a1, sw, a2, a3, a4, c) r.
Proof.
  destruct a1 as [[[[d1 iv1] ei1] es1] le1], sw as [[sp si] ss], a2 as [[[[d2 iv2] ei2] es2] le2],
           a3 as [[dac3 ol3] le3], a4 as [[[[[[iv4 ei4] es4] sh4] wd4] dv4] le4].
  destruct r; cbn [rdv]; unfold ReadNR50, ReadNR51; psimpl; reflexivity.
Qed.

(* ------------------------------------------------------------------------------------------------- *)
(* NR52 *)
Lemma bit7_shift v : v < 256 -> (N.shiftr v 7 =? 0) = negb (N.testbit v 7).
Proof.
  intros Hv. apply Bool.eqb_prop.
  exact (sweep_bytes (fun v => Bool.eqb (N.shiftr v 7 =? 0) (negb (N.testbit v 7))) eq_refl v Hv).
Qed.

Definition off_regs : list reg :=
  [NR10; NR12; NR13; NR14; NR22; NR23; NR24; NR30; NR32; NR33; NR34; NR42; NR43; NR44; NR50; NR51].

Definition zero_writes (l : list reg) (s : apu) : apu :=
  fold_left (fun s r => apu_bus_write s (reg_addr r) 0) l s.

Definition power_off_tail (x : apu) : apu :=
  let x1 := set_ch1 x (set_sqDuty (ch1 x) 0) in
  let x2 := set_ch2 x1 (set_sqDuty (ch2 x1) 0) in
  set_on x2 false.

Lemma bus_write_NR10 s v : apu_bus_write s 0xFF10 v = WriteNR10 s v.
Proof. reflexivity. Qed.
Lemma bus_write_NR12 s v : apu_bus_write s 0xFF12 v = WriteNR12 s v.
Proof. reflexivity. Qed.
Lemma bus_write_NR13 s v : apu_bus_write s 0xFF13 v = WriteNR13 s v.
Proof. reflexivity. Qed.
Lemma bus_write_NR14 s v : apu_bus_write s 0xFF14 v = WriteNR14 s v.
Proof. reflexivity. Qed.
Lemma bus_write_NR22 s v : apu_bus_write s 0xFF17 v = WriteNR22 s v.
Proof. reflexivity. Qed.
Lemma bus_write_NR23 s v : apu_bus_write s 0xFF18 v = WriteNR23 s v.
Proof. reflexivity. Qed.
Lemma bus_write_NR24 s v : apu_bus_write s 0xFF19 v = WriteNR24 s v.
Proof. reflexivity. Qed.
Lemma bus_write_NR30 s v : apu_bus_write s 0xFF1A v = WriteNR30 s v.
Proof. reflexivity. Qed.
Lemma bus_write_NR32 s v : apu_bus_write s 0xFF1C v = WriteNR32 s v.
Proof. reflexivity. Qed.
Lemma bus_write_NR33 s v : apu_bus_write s 0xFF1D v = WriteNR33 s v.
Proof. reflexivity. Qed.
Lemma bus_write_NR34 s v : apu_bus_write s 0xFF1E v = WriteNR34 s v.
Proof. reflexivity. Qed.
Lemma bus_write_NR42 s v : apu_bus_write s 0xFF21 v = WriteNR42 s v.
Proof. reflexivity. Qed.
Lemma bus_write_NR43 s v : apu_bus_write s 0xFF22 v = WriteNR43 s v.
Proof. reflexivity. Qed.
Lemma bus_write_NR44 s v : apu_bus_write s 0xFF23 v = WriteNR44 s v.
Proof. reflexivity. Qed.
Lemma bus_write_NR50 s v : apu_bus_write s 0xFF24 v = WriteNR50 s v.
Proof. reflexivity. Qed.
Lemma bus_write_NR51 s v : apu_bus_write s 0xFF25 v = WriteNR51 s v.
Proof. reflexivity. Qed.

Lemma WriteNR52_off s v :
  (N.shiftr v 7 =? 0) = true -> WriteNR52 s v = power_off_tail (zero_writes off_regs (set_on s true)).
Proof.
  intros H. unfold WriteNR52. rewrite H.
  unfold power_off_tail, zero_writes, off_regs. cbn [fold_left reg_addr].
  rewrite bus_write_NR10, bus_write_NR12, bus_write_NR13, bus_write_NR14, bus_write_NR22, bus_write_NR23, bus_write_NR24, bus_write_NR30, bus_write_NR32, bus_write_NR33, bus_write_NR34, bus_write_NR42, bus_write_NR43, bus_write_NR44, bus_write_NR50, bus_write_NR51.
  reflexivity.
Qed.

Lemma WriteNR52_on s v :
  (N.shiftr v 7 =? 0) = false -> WriteNR52 s v = set_on (if ctOn (ctl s) then s else set_fseq s 0) true.
Proof. intros H. unfold WriteNR52. rewrite H. reflexivity. Qed.

Lemma view_zero_writes l : forall s,
  is_on s = true ->
  apu_view (zero_writes l s) = fold_left (fun vw r => F r vw 0) l (apu_view s) /\ is_on (zero_writes l s) = true.
Proof.
  induction l as [|r l IH]; intros s Hon; cbn [zero_writes fold_left]; [split; [reflexivity|exact Hon]|].
  fold (zero_writes l (apu_bus_write s (reg_addr r) 0)).
  destruct (IH (apu_bus_write s (reg_addr r) 0)) as [H1 H2]; [rewrite on_write; exact Hon|].
  rewrite H1, view_write_on by exact Hon. split; [reflexivity|exact H2].
Qed.

Definition G (vw : view_t) : view_t :=
  let '(a1, sw, a2, a3, a4, c) := vw in
  let '(d1, iv1, ei1, es1, le1) := a1 in
  let '(d2, iv2, ei2, es2, le2) := a2 in
  ((0, iv1, ei1, es1, le1), sw, (0, iv2, ei2, es2, le2), a3, a4, set_ctOn c false).

Lemma view_power_off_tail x : apu_view (power_off_tail x) = G (apu_view x).
Proof. reflexivity. Qed.

Lemma off_reads vw r : rdv (G (fold_left (fun vw r => F r vw 0) off_regs vw)) r = reg_mask r.
Proof.
  destruct vw as [[[[[a1 sw] a2] a3] a4] c].
  destruct a1 as [[[[d1 iv1] ei1] es1] le1], sw as [[sp si] ss], a2 as [[[[d2 iv2] ei2] es2] le2],
           a3 as [[dac3 ol3] le3], a4 as [[[[[[iv4 ei4] es4] sh4] wd4] dv4] le4].
  destruct r; vm_compute; reflexivity.
Qed.

Lemma rd_power_off s v r :
  (N.shiftr v 7 =? 0) = true -> rd (apu_bus_write s NR52_addr v) r = reg_mask r.
Proof.
  intros H. rewrite rd_rdv.
  change (apu_bus_write s NR52_addr v) with (WriteNR52 s v).
  rewrite (WriteNR52_off s v H), view_power_off_tail.
  destruct (view_zero_writes off_regs (set_on s true) eq_refl) as [H1 _]. rewrite H1.
  apply off_reads.
Qed.

Lemma on_power_off s v : (N.shiftr v 7 =? 0) = true -> is_on (apu_bus_write s NR52_addr v) = false.
Proof.
  intros H. change (apu_bus_write s NR52_addr v) with (WriteNR52 s v).
  rewrite (WriteNR52_off s v H). reflexivity.
Qed.

Lemma rd_power_on s v r :
  (N.shiftr v 7 =? 0) = false -> rd (apu_bus_write s NR52_addr v) r = rd s r.
Proof.
  intros H. rewrite !rd_rdv.
  change (apu_bus_write s NR52_addr v) with (WriteNR52 s v).
  rewrite (WriteNR52_on s v H).
  destruct (ctOn (ctl s)); unfold apu_view, set_on; psimpl; rewrite rdv_on_irrelevant; reflexivity.
Qed.

Lemma on_power_on s v : (N.shiftr v 7 =? 0) = false -> is_on (apu_bus_write s NR52_addr v) = true.
Proof.
  intros H. change (apu_bus_write s NR52_addr v) with (WriteNR52 s v).
  rewrite (WriteNR52_on s v H). reflexivity.
Qed.

(* addresses that are neither a register nor NR52: unused ones and wave RAM *)
Lemma view_write_other s a v :
  reg_of_addr a = None -> a <> NR52_addr -> apu_view (apu_bus_write s a v) = apu_view s.
Proof.
  intros H Hne. unfold apu_bus_write. unfold reg_of_addr in H. cbn [find all_regs reg_addr] in H.
  repeat match type of H with
         | (if ?c then _ else _) = None => destruct c; [discriminate H|]
         end.
  destruct (N.eqb_spec a 0xFF26) as [E|_]; [exfalso; exact (Hne E)|].
  destruct (a <? 0xFF30); [reflexivity|].
  destruct (a <? 0xFF40); [|reflexivity].
  unfold WriteWaveRAM. break_ifs; reflexivity.
Qed.

(* ------------------------------------------------------------------------------------------------- *)
(* refinement: the model run and the abstract machine stay related *)
Definition op_of (e : event) : apu_op :=
  match e with EWrite a v => OWrite a v | ECycle => OCycle end.

Definition RInv (s : apu) (sp : rspec) : Prop :=
  is_on s = power sp /\
  (forall r, rd s r = N.lor (last sp r) (reg_mask r)) /\
  (power sp = false -> forall r, last sp r = 0).

Lemma RInv_init att : RInv (apu_new att) rspec_init.
Proof.
  split; [destruct att; reflexivity|]. split; [|discriminate].
  intros r. destruct att, r; vm_compute; reflexivity.
Qed.

Lemma reg_of_addr_some a r : reg_of_addr a = Some r -> a = reg_addr r.
Proof.
  unfold reg_of_addr. intros H. apply find_some in H. destruct H as [_ H]. apply N.eqb_eq in H. exact H.
Qed.

Lemma is_on_view s s' : apu_view s = apu_view s' -> is_on s = is_on s'.
Proof. unfold apu_view, is_on. intros H. inversion H. reflexivity. Qed.

Lemma rd_view s s' r : apu_view s = apu_view s' -> rd s r = rd s' r.
Proof. intros H. rewrite !rd_rdv, H. reflexivity. Qed.

Lemma RInv_step s sp e : wf_event e -> RInv s sp -> RInv (apu_step s (op_of e)) (rspec_step sp e).
Proof.
  intros Hwf (Hon & Hrd & Hoff).
  destruct e as [a v|]; cbn [op_of apu_step rspec_step].
  - cbn [wf_event] in Hwf.
    destruct (a =? NR52_addr) eqn:E52.
    + apply N.eqb_eq in E52. subst a.
      pose proof (bit7_shift v Hwf) as Hb.
      destruct (N.testbit v 7); cbn [negb] in Hb.
      * split; [rewrite (on_power_on s v Hb); reflexivity|]. cbn [last power].
        split; [intros r; rewrite (rd_power_on s v r Hb); apply Hrd | discriminate].
      * split; [rewrite (on_power_off s v Hb); reflexivity|]. cbn [last power].
        split; [intros r; rewrite (rd_power_off s v r Hb); reflexivity | reflexivity].
    + apply N.eqb_neq in E52.
      destruct (reg_of_addr a) as [r|] eqn:Er.
      * apply reg_of_addr_some in Er. subst a.
        destruct (power sp) eqn:Ep.
        -- split; [rewrite on_write; rewrite Hon; reflexivity|]. cbn [last power].
           split; [|discriminate].
           intros r'. rewrite rd_rdv, (view_write_on s r v Hon).
           destruct (reg_eqb r' r) eqn:Eq.
           ++ apply reg_eqb_eq in Eq. subst r'. apply rdv_F_own. exact Hwf.
           ++ assert (Hne : r' <> r) by (intros ->; rewrite (proj2 (reg_eqb_eq r r) eq_refl) in Eq; discriminate).
              rewrite (rdv_F_other r r' _ v Hne), <- rd_rdv. apply Hrd.
        -- split; [rewrite on_write, Ep; exact Hon|].
           split; [|intros _; exact (Hoff eq_refl)].
           intros r'. rewrite (rd_view _ s r' (view_write_off s r v Hon)). apply Hrd.
      * pose proof (view_write_other s a v Er E52) as Hv.
        split; [rewrite (is_on_view _ _ Hv); exact Hon|].
        split; [|exact Hoff].
        intros r'. rewrite (rd_view _ s r' Hv). apply Hrd.
  - pose proof (view_end_cycle s) as Hv.
    split; [rewrite (is_on_view _ _ Hv); exact Hon|].
    split; [|exact Hoff].
    intros r'. rewrite (rd_view _ s r' Hv). apply Hrd.
Qed.

Lemma RInv_run h : forall s sp,
  Forall wf_event h -> RInv s sp -> RInv (apu_run s (map op_of h)) (fold_left rspec_step h sp).
Proof.
  induction h as [|e h IH]; intros s sp Hwf HR; cbn [map apu_run fold_left]; [exact HR|].
  inversion Hwf as [|? ? He Hh]; subst.
  apply IH; [exact Hh|]. apply RInv_step; assumption.
Qed.

Lemma RInv_read s sp r : RInv s sp -> rd s r = rspec_read sp r.
Proof.
  intros (Hon & Hrd & Hoff). unfold rspec_read. rewrite Hrd.
  destruct (power sp) eqn:Ep; [reflexivity|]. rewrite (Hoff eq_refl r). apply N.lor_0_l.
Qed.

(* C18_readback / C18_power_off_masks *)
Theorem apu_regs_refine att (h : list event) (r : reg) :
  Forall wf_event h ->
  apu_bus_read (apu_run (apu_new att) (map op_of h)) (reg_addr r) = rspec_read (rspec_run h) r.
Proof.
  intros Hwf. change (rd (apu_run (apu_new att) (map op_of h)) r = rspec_read (rspec_run h) r).
  exact (RInv_read _ _ r (RInv_run h _ _ Hwf (RInv_init att))).
Qed.

Theorem apu_power_tracks att (h : list event) :
  Forall wf_event h -> ctOn (ctl (apu_run (apu_new att) (map op_of h))) = power (rspec_run h).
Proof. intros Hwf. exact (proj1 (RInv_run h _ _ Hwf (RInv_init att))). Qed.

(* machine cycles never change what NR10-NR51 read, from any state whatsoever *)
Theorem cycle_keeps_reads s r :
  apu_bus_read (fst (apu_end_machine_cycle s)) (reg_addr r) = apu_bus_read s (reg_addr r).
Proof. exact (rd_view _ s r (view_end_cycle s)). Qed.

Theorem clock_keeps_reads s r :
  apu_bus_read (fst (apu_tick_clock s)) (reg_addr r) = apu_bus_read s (reg_addr r).
Proof. exact (rd_view _ s r (view_tick_clock s)). Qed.

(* unused addresses FF15, FF1F, FF27-FF2F read FF and ignore writes, in every state *)
Definition unused_addr (a : N) : bool :=
  (a =? 0xFF15) || (a =? 0xFF1F) || ((0xFF27 <=? a) && (a <? 0xFF30)).

Theorem unused_reads_ff s a : unused_addr a = true -> apu_bus_read s a = 0xFF.
Proof.
  unfold unused_addr, apu_bus_read. intros H.
  repeat match goal with
         | |- (if ?a =? ?k then _ else _) = _ => destruct (N.eqb_spec a k); [subst; discriminate H|]
         end.
  destruct (a <? 0xFF30) eqn:E; [reflexivity|]. lia.
Qed.

Theorem unused_write_ignored s a v : unused_addr a = true -> apu_bus_write s a v = s.
Proof.
  unfold unused_addr, apu_bus_write. intros H.
  repeat match goal with
         | |- (if ?a =? ?k then _ else _) = _ => destruct (N.eqb_spec a k); [subst; discriminate H|]
         end.
  destruct (a <? 0xFF30) eqn:E; [reflexivity|]. lia.
Qed.
