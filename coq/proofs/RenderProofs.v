(* RenderProofs.v — the renderer model (Render.v) computes the DMG composition (RenderSpec.v), for every scene. *)
From Coq Require Import ZArith Lia ZifyN ZifyNat ZifyBool Sorting.Sorted.
From V.lib Require Import Bits Mem Res.
From V.model Require Import Render.
From V.spec Require Import RenderSpec.
From V.proofs Require Import RenderLemmas.
Open Scope N_scope.

(* ---------------------------------------------------------------------------------------------------- *)
(* tiles *)

Lemma tile_colour_range s base px py : (0 <= tile_colour s base px py <= 3)%Z.
Proof.
  unfold tile_colour.
  pose proof (zbit_range (vbyte s (base + 2 * py + 1)) (7 - px)).
  pose proof (zbit_range (vbyte s (base + 2 * py)) (7 - px)). lia.
Qed.

Lemma read_tile_pixel_spec s tn ox oy :
  byte_mem (vram s) -> tn < 512 -> ox < 8 -> oy < 8 ->
  read_tile_pixel s tn ox oy = Ok (Z.to_N (tile_colour s (16 * Z.of_N tn) (Z.of_N ox) (Z.of_N oy))).
Proof.
  intros Hb Ht Hx Hy.
  unfold read_tile_pixel, vram_at, tile_colour, vbyte.
  assert (E1 : u8 (oy * 2) = oy * 2) by (unfold u8; lia). rewrite E1.
  destruct (N.ltb_spec (tn * 16 + oy * 2) 8192) as [_|]; [|lia].
  destruct (N.ltb_spec (tn * 16 + oy * 2 + 1) 8192) as [_|]; [|lia].
  cbn [bind].
  replace (Z.to_N (16 * Z.of_N tn + 2 * Z.of_N oy)) with (tn * 16 + oy * 2) by lia.
  replace (Z.to_N (16 * Z.of_N tn + 2 * Z.of_N oy + 1)) with (tn * 16 + oy * 2 + 1) by lia.
  set (a := Mem.get (vram s) (tn * 16 + oy * 2)).
  set (b := Mem.get (vram s) (tn * 16 + oy * 2 + 1)).
  assert (Ha : a < 256) by apply Hb. assert (Hb' : b < 256) by apply Hb.
  destruct (pattern_bit a ox Ha Hx) as (p & Ep & Ea).
  destruct (pattern_bit b ox Hb' Hx) as (p' & Ep' & Eb).
  rewrite Ep in Ep'. injection Ep' as <-. rewrite Ep. cbn [bind].
  rewrite Ea, Eb.
  pose proof (zbit_range (Z.of_N a) (7 - Z.of_N ox)).
  pose proof (zbit_range (Z.of_N b) (7 - Z.of_N ox)).
  destruct (Z.eqb_spec (zbit (Z.of_N a) (7 - Z.of_N ox)) 1) as [Ea1|Ea1];
    destruct (Z.eqb_spec (zbit (Z.of_N b) (7 - Z.of_N ox)) 1) as [Eb1|Eb1]; f_equal; lia.
Qed.

(* ---------------------------------------------------------------------------------------------------- *)
(* tile maps *)

Lemma map_pixel_spec s high x y :
  byte_mem (vram s) -> x < 256 -> y < 256 ->
  map_pixel s high x y = Ok (Z.to_N (map_colour s high (Z.of_N x) (Z.of_N y))).
Proof.
  intros Hb Hx Hy.
  unfold map_pixel, map_colour, vram_at.
  set (off := if high then 7168 else 6144).
  assert (Eaddr : add16 off (add16 (u16 (32 * (y / 8))) (x / 8)) = off + 32 * (y / 8) + x / 8).
  { unfold add16, u16. subst off. destruct high; lia. }
  rewrite Eaddr.
  destruct (N.ltb_spec (off + 32 * (y / 8) + x / 8) 8192) as [_|Hge]; [|subst off; destruct high; lia].
  cbn [bind].
  assert (Eidx : Z.to_N (map_base high + 32 * (Z.of_N y / 8) + Z.of_N x / 8) = off + 32 * (y / 8) + x / 8).
  { unfold map_base. subst off. destruct high; lia. }
  unfold vbyte at 1. rewrite Eidx.
  set (tb := Mem.get (vram s) (off + 32 * (y / 8) + x / 8)).
  assert (Htb : tb < 256) by apply Hb.
  set (tn := if lowTileData s then tb else Z.to_N (256 + s8 tb)).
  assert (Htn : tn < 512 /\ (16 * Z.of_N tn = bg_tile_base s (Z.of_N tb))%Z).
  { subst tn. unfold bg_tile_base, s8, signed_byte. destruct (lowTileData s).
    - lia.
    - destruct (N.leb_spec 128 tb); destruct (Z.ltb_spec (Z.of_N tb) 128); lia. }
  destruct Htn as [Htn Ebase].
  rewrite read_tile_pixel_spec; [|assumption|assumption|lia|lia].
  rewrite Ebase. do 3 f_equal; lia.
Qed.

Lemma find_background_pixel_spec s x y :
  byte_mem (vram s) ->
  find_background_pixel s x y = Ok (Z.to_N (background_colour s (Z.of_N x) (Z.of_N y))).
Proof.
  intros Hb. unfold find_background_pixel, background_colour, SCX, SCY.
  rewrite map_pixel_spec; [|assumption|apply u8_lt|apply u8_lt].
  do 3 f_equal; unfold u8; lia.
Qed.

(* ---------------------------------------------------------------------------------------------------- *)
(* objects *)

Lemma obj_y_N s i : obj_y s i = Z.of_N (Mem.get (oam s) (4 * i)).
Proof. unfold obj_y, obyte. do 2 f_equal. lia. Qed.
Lemma obj_x_N s i : obj_x s i = Z.of_N (Mem.get (oam s) (4 * i + 1)).
Proof. unfold obj_x, obyte. do 2 f_equal. lia. Qed.
Lemma obj_tile_N s i : obj_tile s i = Z.of_N (Mem.get (oam s) (4 * i + 2)).
Proof. unfold obj_tile, obyte. do 2 f_equal. lia. Qed.
Lemma obj_attr_N s i : obj_attr s i = Z.of_N (Mem.get (oam s) (4 * i + 3)).
Proof. unfold obj_attr, obyte. do 2 f_equal. lia. Qed.

Lemma oam_at_obj0 s i : i < 40 -> oam_at s (add16 65024 (u16 (i * 4))) = Ok (Mem.get (oam s) (4 * i)).
Proof.
  intros Hi. unfold oam_at.
  replace (sub16 (add16 65024 (u16 (i * 4))) 65024) with (4 * i) by (unfold sub16, add16, u16; lia).
  destruct (N.ltb_spec (4 * i) 160); [reflexivity | lia].
Qed.

Lemma oam_at_obj s i k : i < 40 -> k < 4 ->
  oam_at s (add16 (add16 65024 (u16 (i * 4))) k) = Ok (Mem.get (oam s) (4 * i + k)).
Proof.
  intros Hi Hk. unfold oam_at.
  replace (sub16 (add16 (add16 65024 (u16 (i * 4))) k) 65024) with (4 * i + k)
    by (unfold sub16, add16, u16; lia).
  destruct (N.ltb_spec (4 * i + k) 160); [reflexivity | lia].
Qed.

(* the mode-2 flag of the repaired checkOverlappingSprite is the integer row test *)
Lemma overlap_flag_spec s y i : i < 40 -> overlap_flag s y i = obj_on_line s (Z.of_N y) i.
Proof.
  intros Hi. unfold overlap_flag, obj_on_line. rewrite obj_y_N.
  replace (u16 (u8 (i * 4))) with (4 * i) by (unfold u16, u8; lia).
  set (sy := Mem.get (oam s) (4 * i)). lia.
Qed.

Lemma overlaps_for_line_spec s y :
  overlaps_for_line s y = map (obj_on_line s (Z.of_N y)) (upto 40).
Proof.
  unfold overlaps_for_line. apply map_ext_in. intros i Hi. apply In_upto in Hi.
  apply overlap_flag_spec. lia.
Qed.

(* the column test of renderPixel (uint8) is the integer column test, for x + 8 < 256 *)
Lemma column_test s x i : x < 248 ->
  let sx := Mem.get (oam s) (4 * i + 1) in
  ((sx <=? u8 (x + 8)) && (x <? sx)) = ((obj_x s i - 8 <=? Z.of_N x) && (Z.of_N x <? obj_x s i))%Z.
Proof.
  intros Hx sx. rewrite obj_x_N. fold sx. unfold u8. lia.
Qed.

(* inside its rows and columns, the object's pixel is the one the specification selects *)
Lemma sprite_tile_pixel_spec s x y i :
  byte_mem (vram s) -> byte_mem (oam s) ->
  obj_on_line s (Z.of_N y) i = true ->
  ((obj_x s i - 8 <=? Z.of_N x) && (Z.of_N x <? obj_x s i))%Z = true ->
  sprite_tile_pixel s x y (Mem.get (oam s) (4 * i + 1)) (Mem.get (oam s) (4 * i))
                    (Mem.get (oam s) (4 * i + 2)) (Mem.get (oam s) (4 * i + 3))
  = Ok (Z.to_N (obj_colour s (Z.of_N x) (Z.of_N y) i)).
Proof.
  intros Hv Ho Hon Hcol.
  unfold obj_colour. rewrite Hcol. unfold obj_on_line in Hon.
  unfold attr_bit. rewrite obj_attr_N, obj_tile_N.
  rewrite obj_x_N in *. rewrite obj_y_N in *.
  set (sx := Mem.get (oam s) (4 * i + 1)) in *. set (sy := Mem.get (oam s) (4 * i)) in *.
  set (tn := Mem.get (oam s) (4 * i + 2)). set (at_ := Mem.get (oam s) (4 * i + 3)).
  assert (Hsx : sx < 256) by apply Ho. assert (Hsy : sy < 256) by apply Ho.
  assert (Htn : tn < 256) by apply Ho. assert (Hat : at_ < 256) by apply Ho.
  destruct (flag_bits at_ Hat) as (_ & F6 & F5 & _).
  unfold sprite_tile_pixel. rewrite F6, F5.
  assert (Eox : (sub8 x sx) mod 8 = x + 8 - sx) by (unfold sub8; lia).
  assert (Eoy : (sub8 y sy) mod 8 = y + 16 - sy) by (unfold sub8; lia).
  rewrite Eox, Eoy.
  rewrite read_tile_pixel_spec; [|assumption|lia| |].
  - do 3 f_equal.
    + destruct (zbit (Z.of_N at_) 5 =? 1)%Z; unfold sub8; lia.
    + destruct (zbit (Z.of_N at_) 6 =? 1)%Z; unfold sub8; lia.
  - destruct (zbit (Z.of_N at_) 5 =? 1)%Z; unfold sub8; lia.
  - destruct (zbit (Z.of_N at_) 6 =? 1)%Z; unfold sub8; lia.
Qed.

Lemma obj_colour_range s x y i : (0 <= obj_colour s x y i <= 3)%Z.
Proof.
  unfold obj_colour. destruct ((obj_x s i - 8 <=? x) && (x <? obj_x s i))%Z; [apply tile_colour_range | lia].
Qed.

Definition opaque (s : scene) (x y : Z) (i : N) : bool := negb (obj_colour s x y i =? 0)%Z.

(* what the final state of the object loop says about the first opaque object *)
Definition scan_result (s : scene) (x y : Z) (found : option N) (st : sstate) : Prop :=
  match found with
  | Some i => spritePixel st = Z.to_N (obj_colour s x y i) /\ (obj_colour s x y i <> 0)%Z /\
              spriteBehindBackground st = attr_bit s i 7 /\ useSpritePalette1 st = attr_bit s i 4
  | None => spritePixel st = 0
  end.

Lemma sprite_scan_spec s x y :
  byte_mem (vram s) -> byte_mem (oam s) -> x < 248 ->
  forall idxs st, Forall (fun i => i < 40) idxs -> spritePixel st = 0 ->
  exists st', sprite_scan s x y (map (fun i => (i, obj_on_line s (Z.of_N y) i)) idxs) st = Ok st' /\
              scan_result s (Z.of_N x) (Z.of_N y)
                          (find (opaque s (Z.of_N x) (Z.of_N y)) (filter (obj_on_line s (Z.of_N y)) idxs)) st'.
Proof.
  intros Hv Ho Hx. induction idxs as [|i idxs IH]; intros st HF H0.
  - cbn [map sprite_scan filter find scan_result]. exists st. split; [reflexivity | exact H0].
  - inversion HF as [|? ? Hi HF']; subst.
    cbn [map sprite_scan filter].
    destruct (obj_on_line s (Z.of_N y) i) eqn:Hon; cbn [negb].
    + rewrite (oam_at_obj s i 1 Hi) by lia. cbn [bind].
      rewrite (column_test s x i Hx).
      destruct ((obj_x s i - 8 <=? Z.of_N x) && (Z.of_N x <? obj_x s i))%Z eqn:Hcol.
      * rewrite (oam_at_obj0 s i Hi), (oam_at_obj s i 2 Hi), (oam_at_obj s i 3 Hi) by lia. cbn [bind].
        rewrite (sprite_tile_pixel_spec s x y i Hv Ho Hon Hcol). cbn [bind find].
        pose proof (obj_colour_range s (Z.of_N x) (Z.of_N y) i) as Hr.
        unfold opaque at 1.
        destruct (Z.eqb_spec (obj_colour s (Z.of_N x) (Z.of_N y) i) 0) as [E0|E0]; cbn [negb].
        -- rewrite E0. cbn [Z.to_N N.ltb N.compare].
           apply IH; [assumption | reflexivity].
        -- destruct (N.ltb_spec 0 (Z.to_N (obj_colour s (Z.of_N x) (Z.of_N y) i))) as [_|Hbad]; [|lia].
           eexists. split; [reflexivity|].
           cbn [scan_result spritePixel spriteBehindBackground useSpritePalette1].
           assert (Hat : Mem.get (oam s) (4 * i + 3) < 256) by apply Ho.
           destruct (flag_bits _ Hat) as (F7 & _ & _ & F4).
           unfold attr_bit. rewrite obj_attr_N. auto.
      * cbn [find]. unfold opaque at 1. unfold obj_colour at 1. rewrite Hcol. cbn [Z.eqb negb].
        apply IH; [assumption | exact H0].
    + apply IH; assumption.
Qed.

(* ---------------------------------------------------------------------------------------------------- *)
(* priority: with the line's objects ordered by X in OAM, "smallest X, then first in OAM" is "first in OAM" *)

Lemma fold_pick_keep s x y l b :
  Forall (fun i => obj_x s b <= obj_x s i)%Z l -> fold_left (pick s x y) l (Some b) = Some b.
Proof.
  induction l as [|i l IH]; intros HF; cbn [fold_left]; [reflexivity|].
  inversion HF as [|? ? Hi HF']; subst.
  unfold pick at 2. destruct (obj_colour s x y i =? 0)%Z; [apply IH; assumption|].
  destruct (Z.ltb_spec (obj_x s i) (obj_x s b)); [lia | apply IH; assumption].
Qed.

Lemma fold_pick_sorted s x y l :
  StronglySorted (fun i j => obj_x s i <= obj_x s j)%Z l ->
  fold_left (pick s x y) l None = find (opaque s x y) l.
Proof.
  induction l as [|i l IH]; intros HS; cbn [fold_left find]; [reflexivity|].
  inversion HS as [|? ? HS' HF]; subst.
  unfold pick at 2, opaque at 1.
  destruct (obj_colour s x y i =? 0)%Z; cbn [negb]; [apply IH; assumption | apply fold_pick_keep; assumption].
Qed.

Lemma filter_sorted_x s y l :
  StronglySorted N.lt l -> Forall (fun i => i < 40) l ->
  (forall i j, i < j < 40 -> obj_on_line s y i = true -> obj_on_line s y j = true ->
               (obj_x s i <= obj_x s j)%Z) ->
  StronglySorted (fun i j => obj_x s i <= obj_x s j)%Z (filter (obj_on_line s y) l).
Proof.
  intros HS HF Hord. induction HS as [|i l HS IH Hlt]; cbn [filter]; [constructor|].
  inversion HF as [|? ? Hi HF']; subst.
  destruct (obj_on_line s y i) eqn:Hon; [|apply IH; assumption].
  constructor; [apply IH; assumption|].
  apply Forall_forall. intros j Hj. apply filter_In in Hj. destruct Hj as [Hj Honj].
  rewrite Forall_forall in Hlt, HF'. apply Hord; [|assumption|assumption].
  split; [apply Hlt, Hj | apply HF', Hj].
Qed.

Lemma upto_lt n : Forall (fun i => i < N.of_nat n) (upto n).
Proof. apply Forall_forall. intros i Hi. apply In_upto in Hi. exact Hi. Qed.

Lemma top_object_spec s x y :
  line_ok s y ->
  top_object s x y =
  if spritesEnabled s then find (opaque s x y) (filter (obj_on_line s y) (upto 40)) else None.
Proof.
  intros (Hlen & Hord). unfold top_object, line_objects.
  destruct (spritesEnabled s); [|reflexivity].
  rewrite firstn_short by exact Hlen.
  apply fold_pick_sorted. apply filter_sorted_x; [apply upto_sorted | apply (upto_lt 40) | exact Hord].
Qed.

(* ---------------------------------------------------------------------------------------------------- *)
(* background / window selection *)

Lemma bgwin_range s x y : (0 <= bgwin_colour s x y <= 3)%Z.
Proof.
  unfold bgwin_colour, window_colour, background_colour, map_colour.
  destruct (in_window s x y); apply tile_colour_range.
Qed.

Lemma bg_window_pixel_spec s x y :
  scene_wf s -> regs_ok s -> x < 160 -> y < 144 ->
  (if windowEnabled s && (wx s <=? 166) && (wy s <=? 143) && (sub8 (wx s) 7 <=? x) && (wy s <=? y)
   then find_window_pixel s (sub8 x (sub8 (wx s) 7)) (sub8 y (wy s))
   else if bgEnabled s then find_background_pixel s x y else Ok 0)
  = Ok (Z.to_N (bgwin_colour s (Z.of_N x) (Z.of_N y))).
Proof.
  intros (Hv & Ho & (Hscx & Hscy & Hwx & Hwy) & _) (Hbg & _ & Hwin) Hx Hy.
  unfold bgwin_colour, in_window, WX, WY in *.
  destruct (windowEnabled s) eqn:Ew; cbn [andb].
  - specialize (Hwin eq_refl).
    assert (E7 : sub8 (wx s) 7 = wx s - 7) by (unfold sub8; lia).
    rewrite E7.
    destruct (N.leb_spec (wx s) 166) as [_|]; [|lia]. cbn [andb].
    destruct (Z.leb_spec (Z.of_N (wx s)) (Z.of_N x + 7)) as [Hc|Hc];
      destruct (Z.leb_spec (Z.of_N (wy s)) (Z.of_N y)) as [Hr|Hr]; cbn [andb].
    + destruct (N.leb_spec (wy s) 143) as [_|]; [|lia].
      destruct (N.leb_spec (wx s - 7) x) as [_|]; [|lia].
      destruct (N.leb_spec (wy s) y) as [_|]; [|lia]. cbn [andb].
      unfold find_window_pixel, window_colour, WX, WY.
      assert (Ex : sub8 x (wx s - 7) = x + 7 - wx s) by (unfold sub8; lia).
      assert (Ey : sub8 y (wy s) = y - wy s) by (unfold sub8; lia).
      rewrite Ex, Ey. rewrite map_pixel_spec; [|assumption|lia|lia].
      do 3 f_equal; lia.
    + destruct (N.leb_spec (wy s) y) as [|_]; [lia|]. rewrite !Bool.andb_false_r.
      rewrite Hbg. apply find_background_pixel_spec; assumption.
    + destruct (N.leb_spec (wx s - 7) x) as [|_]; [lia|]. rewrite !Bool.andb_false_r. cbn [andb].
      rewrite Hbg. apply find_background_pixel_spec; assumption.
    + destruct (N.leb_spec (wy s) y) as [|_]; [lia|]. rewrite !Bool.andb_false_r.
      rewrite Hbg. apply find_background_pixel_spec; assumption.
  - rewrite Hbg. apply find_background_pixel_spec; assumption.
Qed.

(* ---------------------------------------------------------------------------------------------------- *)
(* palettes *)

Lemma pal_shade_spec p c :
  pal_ok p -> (0 <= c <= 3)%Z ->
  exists e, pal_get p (Z.to_N c) = Ok e /\ grey_at e = Ok e /\ e = Z.to_N (shade_of (pal_reg p) c).
Proof.
  intros Hp Hc.
  destruct (shade_of_pal p (Z.to_N c) Hp) as (e & Ee & He & Es); [lia|].
  exists e. split; [exact Ee|]. split; [apply grey_at_ok; exact He|].
  replace (Z.of_N (Z.to_N c)) with c in Es by lia. rewrite Es. lia.
Qed.

Lemma obj_shade_spec s st c :
  scene_wf s -> spritePixel st = Z.to_N c -> (0 <= c <= 3)%Z ->
  obj_shade s st = Ok (Z.to_N (shade_of (if useSpritePalette1 st then OBP1 s else OBP0 s) c)).
Proof.
  intros (_ & _ & _ & _ & Hp0 & Hp1) Ep Hc. unfold obj_shade, OBP1, OBP0. rewrite Ep.
  destruct (useSpritePalette1 st);
    [destruct (pal_shade_spec (obp1Colour s) c Hp1 Hc) as (e & Ee & Eg & ->)
    |destruct (pal_shade_spec (obp0Colour s) c Hp0 Hc) as (e & Ee & Eg & ->)];
    rewrite Ee; cbn [bind]; exact Eg.
Qed.

(* ---------------------------------------------------------------------------------------------------- *)
(* the pixel *)

Theorem render_pixel_spec s x y :
  scene_wf s -> regs_ok s -> line_ok s (Z.of_N y) -> x < 160 -> y < 144 ->
  render_pixel s (overlaps_for_line s y) x y = Ok (spec_pixel s x y).
Proof.
  intros Hwf Hregs Hline Hx Hy.
  pose proof Hwf as (Hv & Ho & _ & Hbgp & _).
  assert (Hscan : exists st,
             (if spritesEnabled s then sprite_scan s x y (sprite_list (overlaps_for_line s y)) ss_init
              else Ok ss_init) = Ok st /\
             scan_result s (Z.of_N x) (Z.of_N y) (top_object s (Z.of_N x) (Z.of_N y)) st).
  { rewrite (top_object_spec s (Z.of_N x) (Z.of_N y) Hline).
    destruct (spritesEnabled s).
    - unfold sprite_list. rewrite overlaps_for_line_spec, combine_map_r.
      apply sprite_scan_spec; [assumption | assumption | lia | apply (upto_lt 40) | reflexivity].
    - exists ss_init. split; reflexivity. }
  destruct Hscan as (st & Est & Hres).
  unfold render_pixel, render_pixel_full. rewrite Est. cbn [bind]. cbv zeta.
  rewrite (bg_window_pixel_spec s x y Hwf Hregs Hx Hy). cbn [bind].
  unfold spec_pixel, spec_shade.
  pose proof (bgwin_range s (Z.of_N x) (Z.of_N y)) as Hbgr.
  set (bg := bgwin_colour s (Z.of_N x) (Z.of_N y)) in *.
  destruct (top_object s (Z.of_N x) (Z.of_N y)) as [i|]; cbn [scan_result] in Hres.
  - destruct Hres as (Ep & Hne & Ebeh & Epal).
    pose proof (obj_colour_range s (Z.of_N x) (Z.of_N y) i) as Hcr.
    set (c := obj_colour s (Z.of_N x) (Z.of_N y) i) in *.
    assert (Eobj : obj_shade s st = Ok (Z.to_N (shade_of (if attr_bit s i 4 then OBP1 s else OBP0 s) c))).
    { rewrite <- Epal. apply obj_shade_spec; assumption. }
    destruct (N.ltb_spec 0 (spritePixel st)) as [_|]; [|lia].
    rewrite Ebeh.
    destruct (attr_bit s i 7); cbn [negb andb].
    + rewrite Bool.andb_false_r.
      destruct (N.eqb_spec (spritePixel st) 0) as [|_]; [lia|]. cbn [negb]. rewrite Bool.andb_true_r.
      destruct (Z.eqb_spec bg 0) as [E0|E0].
      * rewrite E0. cbn [Z.to_N N.eqb negb]. rewrite Eobj. reflexivity.
      * destruct (N.eqb_spec (Z.to_N bg) 0) as [|_]; [lia|]. cbn [negb].
        destruct (pal_shade_spec (bgpColour s) bg Hbgp Hbgr) as (e & Ee & Eg & ->).
        rewrite Ee. cbn [bind]. rewrite Eg. reflexivity.
    + rewrite Bool.andb_true_r. destruct (spritesEnabled s); cbn [andb].
      * rewrite Eobj. reflexivity.
      * injection Est as <-. cbn [ss_init spritePixel] in Ep. lia.
  - rewrite Hres. cbn [N.ltb N.compare N.eqb negb]. rewrite !Bool.andb_false_r. cbn [andb].
    destruct (pal_shade_spec (bgpColour s) bg Hbgp Hbgr) as (e & Ee & Eg & ->).
    rewrite Ee. cbn [bind]. rewrite Eg. reflexivity.
Qed.

Corollary render_pixel_spec_hyp s x y :
  hyp s -> x < 160 -> y < 144 -> render_pixel s (overlaps_for_line s y) x y = Ok (spec_pixel s x y).
Proof.
  intros (Hwf & Hregs & Hlines) Hx Hy.
  apply render_pixel_spec; try assumption. apply Hlines. lia.
Qed.

(* ---------------------------------------------------------------------------------------------------- *)
(* no Go panic: every index stays inside its array, for every scene, every flag list and every pixel *)

Lemma read_tile_pixel_ok s tn ox oy :
  byte_mem (vram s) -> tn < 512 -> ox < 8 -> oy < 8 ->
  exists p, read_tile_pixel s tn ox oy = Ok p /\ p < 4.
Proof.
  intros Hb Ht Hx Hy. rewrite read_tile_pixel_spec by assumption.
  eexists. split; [reflexivity|].
  pose proof (tile_colour_range s (16 * Z.of_N tn) (Z.of_N ox) (Z.of_N oy)). lia.
Qed.

Lemma map_pixel_ok s high x y :
  byte_mem (vram s) -> x < 256 -> y < 256 -> exists p, map_pixel s high x y = Ok p /\ p < 4.
Proof.
  intros Hb Hx Hy. rewrite map_pixel_spec by assumption.
  eexists. split; [reflexivity|].
  unfold map_colour.
  match goal with |- Z.to_N (tile_colour ?a ?b ?c ?d) < 4 => pose proof (tile_colour_range a b c d) end. lia.
Qed.

Lemma sprite_tile_pixel_ok s x y sx sy tn at_ :
  byte_mem (vram s) -> tn < 256 -> exists p, sprite_tile_pixel s x y sx sy tn at_ = Ok p /\ p < 4.
Proof.
  intros Hb Ht. unfold sprite_tile_pixel.
  apply read_tile_pixel_ok; [assumption | lia | |].
  - destruct (flag at_ 32); unfold sub8; lia.
  - destruct (flag at_ 64); unfold sub8; lia.
Qed.

Lemma sprite_scan_ok s x y :
  byte_mem (vram s) -> byte_mem (oam s) ->
  forall l st, Forall (fun e => fst e < 40) l -> spritePixel st < 4 ->
  exists st', sprite_scan s x y l st = Ok st' /\ spritePixel st' < 4.
Proof.
  intros Hv Ho. induction l as [|[i ov] l IH]; intros st HF Hp.
  - exists st. split; [reflexivity | exact Hp].
  - inversion HF as [|? ? Hi HF']; subst. cbn [fst] in Hi.
    cbn [sprite_scan]. destruct ov; cbn [negb]; [|apply IH; assumption].
    rewrite (oam_at_obj s i 1 Hi) by lia. cbn [bind].
    destruct ((Mem.get (oam s) (4 * i + 1) <=? u8 (x + 8)) && (x <? Mem.get (oam s) (4 * i + 1))).
    + rewrite (oam_at_obj0 s i Hi), (oam_at_obj s i 2 Hi), (oam_at_obj s i 3 Hi) by lia. cbn [bind].
      destruct (sprite_tile_pixel_ok s x y (Mem.get (oam s) (4 * i + 1)) (Mem.get (oam s) (4 * i))
                  (Mem.get (oam s) (4 * i + 2)) (Mem.get (oam s) (4 * i + 3)) Hv) as (p & Ep & Hp4);
        [apply Ho|].
      rewrite Ep. cbn [bind].
      destruct (0 <? p).
      * eexists. split; [reflexivity | exact Hp4].
      * apply IH; [assumption | exact Hp4].
    + apply IH; [assumption | exact Hp].
Qed.

Lemma sprite_list_lt ov : Forall (fun e => fst e < 40) (sprite_list ov).
Proof.
  apply Forall_forall. intros [i b] Hin. unfold sprite_list in Hin.
  apply in_combine_l in Hin. apply In_upto in Hin. cbn [fst]. lia.
Qed.

Lemma pal_grey_ok p c : pal_ok p -> c < 4 -> exists e, pal_get p c = Ok e /\ grey_at e = Ok e.
Proof.
  intros Hp Hc. destruct (shade_of_pal p c Hp Hc) as (e & Ee & He & _).
  exists e. split; [exact Ee | apply grey_at_ok; exact He].
Qed.

Lemma obj_shade_ok s st : scene_wf s -> spritePixel st < 4 -> exists g, obj_shade s st = Ok g.
Proof.
  intros (_ & _ & _ & _ & Hp0 & Hp1) Hp. unfold obj_shade.
  destruct (useSpritePalette1 st);
    [destruct (pal_grey_ok (obp1Colour s) _ Hp1 Hp) as (e & Ee & Eg)
    |destruct (pal_grey_ok (obp0Colour s) _ Hp0 Hp) as (e & Ee & Eg)];
    rewrite Ee; cbn [bind]; eexists; exact Eg.
Qed.

Theorem render_pixel_full_ok s ov x y :
  scene_wf s -> exists r, render_pixel_full s ov x y = Ok r /\ fst r < 4.
Proof.
  intros Hwf. pose proof Hwf as (Hv & Ho & _ & Hbgp & _).
  assert (Hscan : exists st,
             (if spritesEnabled s then sprite_scan s x y (sprite_list ov) ss_init else Ok ss_init) = Ok st /\
             spritePixel st < 4).
  { destruct (spritesEnabled s).
    - apply sprite_scan_ok; [assumption | assumption | apply sprite_list_lt | cbn; lia].
    - exists ss_init. split; [reflexivity | cbn; lia]. }
  destruct Hscan as (st & Est & Hp).
  unfold render_pixel_full. rewrite Est. cbn [bind]. cbv zeta.
  destruct (obj_shade_ok s st Hwf Hp) as (g & Eg).
  assert (Hg : g < 4).
  { unfold obj_shade in Eg. destruct (pal_get _ _) as [e| |]; cbn [bind] in Eg; try discriminate.
    unfold grey_at in Eg. destruct (N.ltb_spec e 4); [|discriminate]. injection Eg as <-. assumption. }
  destruct (spritesEnabled s && (0 <? spritePixel st) && negb (spriteBehindBackground st)).
  - rewrite Eg. cbn [bind]. eexists. split; [reflexivity | exact Hg].
  - assert (Hpix : exists pixel,
               (if windowEnabled s && (wx s <=? 166) && (wy s <=? 143) && (sub8 (wx s) 7 <=? x) && (wy s <=? y)
                then find_window_pixel s (sub8 x (sub8 (wx s) 7)) (sub8 y (wy s))
                else if bgEnabled s then find_background_pixel s x y else Ok 0) = Ok pixel /\ pixel < 4).
    { destruct (windowEnabled s && (wx s <=? 166) && (wy s <=? 143) && (sub8 (wx s) 7 <=? x) && (wy s <=? y)).
      - apply map_pixel_ok; [assumption | unfold sub8; lia | unfold sub8; lia].
      - destruct (bgEnabled s).
        + apply map_pixel_ok; [assumption | apply u8_lt | apply u8_lt].
        + exists 0. split; [reflexivity | lia]. }
    destruct Hpix as (pixel & Epix & Hpix). rewrite Epix. cbn [bind].
    destruct ((pixel =? 0) && negb (spritePixel st =? 0) && spriteBehindBackground st).
    + rewrite Eg. cbn [bind]. eexists. split; [reflexivity | exact Hg].
    + destruct (shade_of_pal (bgpColour s) pixel Hbgp Hpix) as (e & Ee & He & _).
      rewrite Ee. cbn [bind]. rewrite (grey_at_ok e He). cbn [bind].
      eexists. split; [reflexivity | exact He].
Qed.

Theorem render_pixel_no_crash s ov x y : scene_wf s -> is_ok (render_pixel s ov x y) = true.
Proof.
  intros Hwf. destruct (render_pixel_full_ok s ov x y Hwf) as (r & Er & _).
  unfold render_pixel. rewrite Er. reflexivity.
Qed.

Theorem render_pixel_shade_range s ov x y g : scene_wf s -> render_pixel s ov x y = Ok g -> g < 4.
Proof.
  intros Hwf E. destruct (render_pixel_full_ok s ov x y Hwf) as (r & Er & Hr).
  unfold render_pixel in E. rewrite Er in E. cbn [bind] in E. injection E as <-. exact Hr.
Qed.

(* ---------------------------------------------------------------------------------------------------- *)
(* the palette tables are what the register writes store: the table read back as a register byte is the byte
   written (BGP, OBP0, OBP1 alike) *)

Lemma write_bgp_sweep :
  forallb (fun v => (pal_reg (write_bgp v) =? Z.of_N v)%Z &&
                    (c0 (write_bgp v) <? 4) && (c1 (write_bgp v) <? 4) && (c2 (write_bgp v) <? 4) &&
                    (c3 (write_bgp v) <? 4)) bytes = true.
Proof. vm_compute. reflexivity. Qed.

Lemma write_bgp_spec v : v < 256 -> pal_reg (write_bgp v) = Z.of_N v /\ pal_ok (write_bgp v).
Proof.
  intros Hv. pose proof (sweep_bytes _ write_bgp_sweep v Hv) as H. cbv beta in H.
  unfold pal_ok. lia.
Qed.

Lemma write_obp_sweep :
  forallb (fun v => (pal_reg (write_obp v) =? Z.of_N v)%Z &&
                    (c0 (write_obp v) <? 4) && (c1 (write_obp v) <? 4) && (c2 (write_obp v) <? 4) &&
                    (c3 (write_obp v) <? 4)) bytes = true.
Proof. vm_compute. reflexivity. Qed.

(* after the repair the object palettes are stored exactly like BGP: the table read back is the byte written *)
Lemma write_obp_spec v : v < 256 -> pal_reg (write_obp v) = Z.of_N v /\ pal_ok (write_obp v).
Proof.
  intros Hv. pose proof (sweep_bytes _ write_obp_sweep v Hv) as H. cbv beta in H.
  unfold pal_ok. lia.
Qed.

(* ---------------------------------------------------------------------------------------------------- *)
(* the hypotheses are decidable *)

Definition line_ok_b (s : scene) (y : Z) : bool :=
  (length (filter (obj_on_line s y) (upto 40)) <=? 10)%nat &&
  forallb (fun i => forallb (fun j =>
     negb ((i <? j) && obj_on_line s y i && obj_on_line s y j) || (obj_x s i <=? obj_x s j)%Z)
     (upto 40)) (upto 40).

Lemma sorted_check_sound (on : N -> bool) (xv : N -> Z) :
  forallb (fun i => forallb (fun j => negb ((i <? j) && on i && on j) || (xv i <=? xv j)%Z) (upto 40)) (upto 40)
  = true ->
  forall i j, i < j < 40 -> on i = true -> on j = true -> (xv i <= xv j)%Z.
Proof.
  intros Hord i j Hij Hi Hj.
  assert (Hi40 : In i (upto 40)) by (apply In_upto; change (N.of_nat 40) with 40; lia).
  assert (Hj40 : In j (upto 40)) by (apply In_upto; change (N.of_nat 40) with 40; lia).
  rewrite forallb_forall in Hord. specialize (Hord i Hi40).
  rewrite forallb_forall in Hord. specialize (Hord j Hj40).
  rewrite Hi, Hj in Hord. lia.
Qed.

Lemma line_ok_b_sound s y : line_ok_b s y = true -> line_ok s y.
Proof.
  unfold line_ok_b, line_ok. intros H. apply andb_prop in H. destruct H as [Hlen Hord].
  split; [apply Nat.leb_le; exact Hlen|].
  exact (sorted_check_sound (obj_on_line s y) (obj_x s) Hord).
Qed.

Definition all_lines (f : Z -> bool) : bool := forallb (fun y => f (Z.of_N y)) (upto 144).

Lemma in_upto_144 y : (0 <= y < 144)%Z -> In (Z.to_N y) (upto 144).
Proof. intros Hy. apply In_upto. change (N.of_nat 144) with 144. lia. Qed.

Lemma all_lines_sound (f : Z -> bool) : all_lines f = true -> forall y, (0 <= y < 144)%Z -> f y = true.
Proof.
  unfold all_lines. intros H y Hy. rewrite forallb_forall in H.
  specialize (H (Z.to_N y) (in_upto_144 y Hy)).
  replace (Z.of_N (Z.to_N y)) with y in H by lia. exact H.
Qed.

Lemma lines_ok_b_sound s : all_lines (line_ok_b s) = true -> forall y, (0 <= y < 144)%Z -> line_ok s y.
Proof.
  intros H y Hy. apply line_ok_b_sound. apply (all_lines_sound (line_ok_b s) H y Hy).
Qed.

Lemma byte_mem_empty : byte_mem (Mem.empty 0).
Proof. intros a. rewrite Mem.get_empty. lia. Qed.

Lemma byte_mem_set m a v : byte_mem m -> v < 256 -> byte_mem (Mem.set m a v).
Proof. intros Hm Hv b. rewrite Mem.gsspec. destruct (a =? b); [exact Hv | apply Hm]. Qed.

(* memories given by a list of (address, byte) pairs over a zeroed store, for concrete examples *)
Definition mem_of_list (l : list (N * N)) : Mem.t := fold_left (fun m p => Mem.set m (fst p) (snd p)) l (Mem.empty 0).

Lemma byte_mem_of_list l : forallb (fun p => snd p <? 256) l = true -> byte_mem (mem_of_list l).
Proof.
  unfold mem_of_list. generalize byte_mem_empty. generalize (Mem.empty 0).
  induction l as [|p l IH]; intros m Hm H; cbn [fold_left]; [exact Hm|].
  cbn [forallb] in H. apply andb_prop in H. destruct H as [Hp Hl].
  apply IH; [|exact Hl]. apply byte_mem_set; [exact Hm | apply N.ltb_lt; exact Hp].
Qed.

(* ---------------------------------------------------------------------------------------------------- *)
(* the OAM addresses read through PPURead while a pixel is rendered lie in FE00-FE9F (so does the value left in
   OAM.ppuLastAccess) *)

Definition oam_addr (a : N) : Prop := 65024 <= a < 65184.

Lemma obj_addr_range i k : i < 40 -> k < 4 -> oam_addr (add16 (add16 65024 (u16 (i * 4))) k).
Proof. intros Hi Hk. unfold oam_addr, add16, u16. lia. Qed.

Lemma obj_addr0_range i : i < 40 -> oam_addr (add16 65024 (u16 (i * 4))).
Proof. intros Hi. unfold oam_addr, add16, u16. lia. Qed.

Lemma sprite_scan_reads s x y :
  forall l st st', Forall (fun e => fst e < 40) l -> Forall oam_addr (reads st) ->
  sprite_scan s x y l st = Ok st' -> Forall oam_addr (reads st').
Proof.
  induction l as [|[i ov] l IH]; intros st st' HF Hr E.
  - cbn [sprite_scan] in E. injection E as <-. exact Hr.
  - inversion HF as [|? ? Hi HF']; subst. cbn [fst] in Hi.
    cbn [sprite_scan] in E. destruct ov; cbn [negb] in E; [|eapply IH; eassumption].
    destruct (oam_at s (add16 (add16 65024 (u16 (i * 4))) 1)) as [sx| |]; cbn [bind] in E; try discriminate.
    destruct ((sx <=? u8 (x + 8)) && (x <? sx)).
    + destruct (oam_at s (add16 65024 (u16 (i * 4)))) as [sy| |]; cbn [bind] in E; try discriminate.
      destruct (oam_at s (add16 (add16 65024 (u16 (i * 4))) 2)) as [tn| |]; cbn [bind] in E; try discriminate.
      destruct (oam_at s (add16 (add16 65024 (u16 (i * 4))) 3)) as [at_| |]; cbn [bind] in E; try discriminate.
      destruct (sprite_tile_pixel s x y sx sy tn at_) as [p| |]; cbn [bind] in E; try discriminate.
      assert (Hr' : Forall oam_addr (add16 (add16 65024 (u16 (i * 4))) 3 :: add16 (add16 65024 (u16 (i * 4))) 2
                                     :: add16 65024 (u16 (i * 4)) :: add16 (add16 65024 (u16 (i * 4))) 1 :: reads st)).
      { constructor; [apply obj_addr_range; [exact Hi | lia]|].
        constructor; [apply obj_addr_range; [exact Hi | lia]|].
        constructor; [apply obj_addr0_range; exact Hi|].
        constructor; [apply obj_addr_range; [exact Hi | lia] | exact Hr]. }
      destruct (0 <? p).
      * injection E as <-. exact Hr'.
      * eapply IH; [exact HF' | | exact E]. exact Hr'.
    + eapply IH; [exact HF' | | exact E]. cbn [reads].
      constructor; [apply obj_addr_range; [exact Hi | lia] | exact Hr].
Qed.

Lemma render_pixel_full_reads s ov x y r :
  render_pixel_full s ov x y = Ok r -> Forall oam_addr (reads (snd r)).
Proof.
  unfold render_pixel_full. intros E.
  destruct (spritesEnabled s) eqn:Esp.
  - destruct (sprite_scan s x y (sprite_list ov) ss_init) as [st| |] eqn:Est; cbn [bind] in E; try discriminate.
    assert (Hst : Forall oam_addr (reads st)).
    { eapply sprite_scan_reads; [apply sprite_list_lt | | exact Est]. constructor. }
    revert E. cbv zeta.
    repeat match goal with
           | |- context [match ?c with Ok _ => _ | Crash _ => _ | Exit => _ end] => fail
           | |- (if ?c then _ else _) = _ -> _ => destruct c
           | |- bind ?c _ = _ -> _ => destruct c; cbn [bind]
           end; intros E; try discriminate; injection E as <-; exact Hst.
  - cbn [bind] in E. revert E. cbv zeta. cbn [andb].
    repeat match goal with
           | |- (if ?c then _ else _) = _ -> _ => destruct c
           | |- bind ?c _ = _ -> _ => destruct c; cbn [bind]
           end; intros E; try discriminate; injection E as <-; constructor.
Qed.

Theorem render_pixel_oam_reads_range s ov x y rs :
  render_pixel_oam_reads s ov x y = Ok rs -> Forall oam_addr rs.
Proof.
  unfold render_pixel_oam_reads. intros E.
  destruct (render_pixel_full s ov x y) as [r| |] eqn:Er; cbn [bind] in E; try discriminate.
  injection E as <-. apply Forall_rev. eapply render_pixel_full_reads. exact Er.
Qed.

Theorem render_pixel_last_access_range s ov x y a :
  render_pixel_last_access s ov x y = Ok (Some a) -> oam_addr a.
Proof.
  unfold render_pixel_last_access. intros E.
  destruct (render_pixel_full s ov x y) as [r| |] eqn:Er; cbn [bind] in E; try discriminate.
  injection E as E. pose proof (render_pixel_full_reads s ov x y r Er) as H.
  destruct (reads (snd r)) as [|a' l]; cbn [hd_error] in E; [discriminate|].
  injection E as <-. inversion H; assumption.
Qed.

(* the last access is the last element of the read sequence *)
Lemma last_access_is_last s ov x y :
  render_pixel_last_access s ov x y =
  (do rs <- render_pixel_oam_reads s ov x y; Ok (hd_error (rev rs))).
Proof.
  unfold render_pixel_last_access, render_pixel_oam_reads.
  destruct (render_pixel_full s ov x y) as [r| |]; cbn [bind]; try reflexivity.
  rewrite rev_involutive. reflexivity.
Qed.
