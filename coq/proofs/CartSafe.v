(* CartSafe.v — the cartridge half of C11: a constructed cartridge never crashes, whatever is read, written or
   ticked; construction itself either fails (a Go panic inside memory.New) or yields a safe cartridge. *)
From Coq Require Import ZArith ZifyN ZifyNat ZifyBool.
From V.lib Require Import Bits Mem Res.
From V.model Require Import Rtc Cart.
From V.spec Require Import CartSpec.
From V.proofs Require Import CartLemmas CartInv CartInv5 CartRun.

(* safe = the register/bounds invariant holds for some write history *)
Definition CartSafe (c : cart) : Prop := exists h, Inv h c.

Lemma construct_safe img c0 : cart_construct img = Ok c0 -> CartSafe c0.
Proof. intros H. exists []. apply (construct_inv img c0 H). Qed.

Lemma read_safe c a : CartSafe c -> exists v, cart_read c a = Ok v.
Proof. intros [h HI]. exact (read_ok h c a HI). Qed.

Lemma write_safe c a v : CartSafe c -> v < 256 ->
  exists c', cart_write c a v = Ok c' /\ CartSafe c' /\ same_frame c c'.
Proof.
  intros [h HI] Hv. destruct (cart_write_inv h c a v HI Hv) as (c' & E & I' & F).
  exists c'. split; [exact E|]. split; [eexists; exact I' | exact F].
Qed.

Lemma tick_safe c : CartSafe c -> CartSafe (cart_tick c).
Proof. intros [h HI]. exists h. apply tick_inv. exact HI. Qed.

Lemma advance_safe c n : CartSafe c -> CartSafe (cart_advance c n).
Proof.
  intros [h [Hpow Hr Hl Hen Hregs]]. exists h. constructor; assumption.
Qed.

Lemma run_safe c ops : CartSafe c -> Forall wf_op ops ->
  exists c', cart_run c ops = Ok c' /\ CartSafe c' /\ same_frame c c'.
Proof.
  intros [h HI] Hwf. destruct (run_inv ops h c HI Hwf) as (c' & E & I' & F).
  exists c'. split; [exact E|]. split; [eexists; exact I' | exact F].
Qed.

(* construction returns Ok or Crash, never Exit *)
Lemma construct_not_exit img : cart_construct img <> Exit.
Proof.
  unfold cart_construct.
  destruct (img_len img <? 336); [discriminate|].
  destruct (negb (img_len img mod 16384 =? 0)); [discriminate|].
  destruct (negb _); [discriminate|].
  destruct (kind_of_type (img_at img 327)) as [k|]; [|discriminate].
  destruct k; try discriminate.
  unfold mbc1_update, gomod.
  repeat match goal with
         | |- context [if ?b then _ else _] => destruct b; cbn [bind]
         end; discriminate.
Qed.

Theorem construct_or_safe img :
  (exists w, cart_construct img = Crash w) \/
  (exists c0, cart_construct img = Ok c0 /\
     forall ops, Forall wf_op ops -> exists c, cart_run c0 ops = Ok c).
Proof.
  destruct (cart_construct img) as [c0|w|] eqn:E.
  - right. exists c0. split; [reflexivity|]. intros ops Hwf.
    destruct (run_safe c0 ops (construct_safe img c0 E) Hwf) as (c & Ec & _). exists c. exact Ec.
  - left. exists w. reflexivity.
  - exfalso. exact (construct_not_exit img E).
Qed.

(* which images construct: exactly those with a complete, consistent header of a supported type *)
Theorem construct_succeeds img :
  336 <= img_len img -> img_len img mod 16384 = 0 ->
  img_at img 328 <= 61 -> img_len img / 16384 = 2 * 2 ^ img_at img 328 ->
  ctrl_of_type (img_at img 327) <> None ->
  exists c0, cart_construct img = Ok c0.
Proof.
  intros H1 H2 H3 H4 H5. unfold cart_construct.
  assert (E0 : (img_len img <? 336) = false) by lia. rewrite E0.
  assert (E1 : (img_len img mod 16384 =? 0) = true) by lia. rewrite E1. cbn [negb].
  assert (E2 : ((img_at img 328 <=? 61) && (img_len img / 16384 =? 2 * 2 ^ img_at img 328)) = true).
  { apply andb_true_intro. split; [lia | apply N.eqb_eq; exact H4]. }
  rewrite E2. cbn [negb].
  destruct (kind_of_type (img_at img 327)) as [k|] eqn:Ek.
  - destruct k; try (eexists; reflexivity).
    rewrite mbc1_update_ok; projs.
    + eexists; reflexivity.
    + rewrite H4; apply pow2_ge2.
    + apply ram_banks_ok.
    + lia.
    + lia.
  - exfalso. apply H5. apply ctrl_none_kind. exact Ek.
Qed.

Theorem construct_fails img :
  (img_len img < 336 \/ img_len img mod 16384 <> 0 \/ 61 < img_at img 328 \/
   img_len img / 16384 <> 2 * 2 ^ img_at img 328 \/ ctrl_of_type (img_at img 327) = None) ->
  exists w, cart_construct img = Crash w.
Proof.
  intros H. destruct (construct_or_safe img) as [Hc|(c0 & E & _)]; [exact Hc|exfalso].
  destruct (construct_inv img c0 E) as [_ [_ [L1 L2] [N1 N2] K _ _ _]].
  revert E. unfold cart_construct.
  destruct (img_len img <? 336) eqn:E0; [discriminate|].
  destruct (img_len img mod 16384 =? 0) eqn:E1; cbn [negb]; [|discriminate].
  destruct ((img_at img 328 <=? 61) && (img_len img / 16384 =? 2 * 2 ^ img_at img 328)) eqn:E2; cbn [negb]; [|discriminate].
  apply andb_prop in E2. destruct E2 as [E2a E2b]. apply N.eqb_eq in E2b.
  intros _. pose proof (kind_of_type_ctrl _ _ K) as Hc.
  destruct H as [H|[H|[H|[H|H]]]]; try lia; congruence.
Qed.
