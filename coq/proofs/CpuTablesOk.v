(* CpuTablesOk.v — the opcode tables regenerated from the Go source are the micro-programs proved correct. *)
From V.lib Require Import Bits.
From V.model Require Import Uop Cpu CpuTables.
From V.proofs Require Import ExpectedDispatch.

Theorem gen_tables_ok : gen_tables = expected_tables.
Proof. vm_compute. reflexivity. Qed.

(* rewriting the regenerated tables into the proved ones inside [cycle] *)
Lemma gen_tables_ok_cycle B brd bwr btrig bcorrupt bime bset_ime bpending back :
  cycle gen_tables B brd bwr btrig bcorrupt bime bset_ime bpending back =
  cycle expected_tables B brd bwr btrig bcorrupt bime bset_ime bpending back.
Proof. rewrite gen_tables_ok. reflexivity. Qed.
