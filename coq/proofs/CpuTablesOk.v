(* CpuTablesOk.v — the opcode tables regenerated from the Go source are the micro-programs proved correct. *)
From V.lib Require Import Bits.
From V.model Require Import Uop Cpu CpuTables.
From V.proofs Require Import ExpectedDispatch.

Theorem gen_tables_ok : gen_tables = expected_tables.
Proof. vm_compute. reflexivity. Qed.
