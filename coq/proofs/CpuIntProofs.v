(* CpuIntProofs.v — interrupt dispatch, EI/DI/RETI and HALT of the CPU model against IntSpec, for every bus and every
   environment acting between machine cycles. *)
From V.lib Require Import Bits.
From V.model Require Import Uop Alu Cpu CpuTables.
From V.spec Require Import Sm83Spec IntSpec.
From V.proofs Require Import AluProofs CpuLemmas ExpectedDispatch CpuTablesOk CpuProofs.
From Coq Require Import ZArith ZifyN ZifyBool.

Section Ints.
  Variable B : Type.
  Variable brd : B -> N -> B * N.
  Variable bwr : B -> N -> N -> B.
  Variable btrig : B -> N -> B.
  Variable bcorrupt : B -> B.
  Variable bime : B -> bool.
  Variable bset_ime : B -> bool -> B.
  Variable bpending : B -> N.
  Variable back : B -> N -> B.
  Hypothesis Htrig : forall b a, btrig b a = b.
  Hypothesis Hcor : forall b, bcorrupt b = b.

  Notation mcycle := (cycle gen_tables B brd bwr btrig bcorrupt bime bset_ime bpending back).
  Notation xcycle := (cycle expected_tables B brd bwr btrig bcorrupt bime bset_ime bpending back).

  (* the rest of the machine acts on the bus after every CPU cycle (video, timer ... raising requests): env k is its
     action after the k-th cycle *)
  Fixpoint run_env (T : tables) (env : nat -> B -> B) (k n : nat) (sb : cpu * B) : cpu * B :=
    match n with
    | O => sb
    | S n' => let r := cycle T B brd bwr btrig bcorrupt bime bset_ime bpending back sb in
              run_env T env (S k) n' (fst r, env k (snd r))
    end.

  Fixpoint env_bus (env : nat -> B -> B) (k n : nat) (b : B) : B :=
    match n with O => b | S n' => env_bus env (S k) n' (env k b) end.

  Definition boundary (s : cpu) : Prop := is_finished s = true /\ fault s = None.

  (* ---- no dispatch: the CPU leaves the bus alone at the boundary and starts the next instruction ---- *)
  Lemma no_dispatch s b : halted s = false ->
    (bime b = false \/ bpending b = 0) ->
    fst (check_interrupts gen_tables B bime bpending s b) = None.
  Proof.
    intros Hh [Hi|Hp]; unfold check_interrupts; rewrite Hh.
    - destruct (bpending b =? 0); [reflexivity|]. rewrite Hi. reflexivity.
    - rewrite Hp. reflexivity.
  Qed.

  (* ---- dispatch ---- *)
  Definition handle := handle_interrupt B bwr btrig bime bset_ime bpending back.

  Definition seq_state (s : cpu) (l : list uop) (k : nat) : cpu :=
    mkCpu (ra s) (rb s) (rc s) (rd s) (re s) (rf s) (rh s) (rl s) (sp s) (pc s) false (haltbug s) (stopped s) false
          (u8a s) (u8b s) (m8a s) (m8b s) l k None (mooneye s) None [].

  (* the first cycle of a dispatch: the sequence is installed and its first (idle) micro-operation executes *)
  Lemma dispatch_first s b l :
    boundary s -> bpending b <> 0 ->
    fst (check_interrupts expected_tables B bime bpending s b) = Some (UNop :: l) ->
    xcycle (s, b) = (seq_state s (UNop :: l) 1, commit B bset_ime s b).
  Proof.
    intros (Hfin & Hfa) Hp Hc.
    destruct s as [a_ b_ c_ d_ e_ f_ h_ l_ sp_ pc_ halted_ haltbug_ stopped_ eip_ u8a_ u8b_ m8a_ m8b_ cur_ cyc_ early_ moon_ fault_ trace_].
    cbn [fault] in Hfa. subst fault_.
    unfold cycle. cbn [fst snd fault]. rewrite Hfin. unfold next.
    destruct (check_interrupts expected_tables B bime bpending _ b) as [o s1] eqn:Ec. cbn [fst] in Hc. subst o.
    cbn [fst snd].
    assert (Es : s1 = mkCpu a_ b_ c_ d_ e_ f_ h_ l_ sp_ pc_ false haltbug_ stopped_ eip_ u8a_ u8b_ m8a_ m8b_ cur_ cyc_ early_ moon_ None trace_).
    { unfold check_interrupts in Ec. apply N.eqb_neq in Hp. rewrite Hp in Ec. cbn [halted] in Ec.
      destruct (bime b), halted_; inversion Ec; reflexivity. }
    subst s1. unfold commit, seq_state.
    cbv beta iota zeta delta [set_eip set_cyc set_cur set_early set_trace set_halted
        cur cyc early trace fault halted haltbug stopped eip ra rb rc rd re rf rh rl sp pc u8a u8b m8a m8b mooneye].
    cbn [fst snd nth_error exec]. rewrite Hcor. reflexivity.
  Qed.

  (* an idle cycle in the middle of a sequence *)
  Lemma seq_idle s b l k :
    nth_error l k = Some UNop -> Nat.eqb k (length l) = false ->
    xcycle (seq_state s l k, b) = (seq_state s l (S k), b).
  Proof.
    intros Hn Hl. unfold cycle, seq_state. cbn [fst snd fault is_finished early cyc cur].
    rewrite Hl. cbn [fst snd cur cyc]. rewrite Hn. cbn [exec fst snd]. rewrite Hcor.
    cbv beta iota zeta delta [set_cyc cur cyc early trace fault halted haltbug stopped eip ra rb rc rd re rf rh rl sp pc u8a u8b m8a m8b mooneye].
    reflexivity.
  Qed.

  (* the acknowledging cycle *)
  Lemma seq_handle s b l k :
    nth_error l k = Some UHandleInterrupt -> Nat.eqb k (length l) = false ->
    xcycle (seq_state s l k, b) =
      (set_cyc (S k) (fst (handle (seq_state s l k) b)), snd (handle (seq_state s l k) b)).
  Proof.
    intros Hn Hl. unfold cycle, seq_state. cbn [fst snd fault is_finished early cyc cur].
    rewrite Hl. cbn [fst snd cur cyc]. rewrite Hn. cbn [exec]. rewrite Hcor. fold handle.
    assert (E : cyc (fst (handle_interrupt B bwr btrig bime bset_ime bpending back
       (mkCpu (ra s) (rb s) (rc s) (rd s) (re s) (rf s) (rh s) (rl s) (sp s) (pc s) false (haltbug s) (stopped s) false
          (u8a s) (u8b s) (m8a s) (m8b s) l k None (mooneye s) None []) b)) = k).
    { unfold handle_interrupt. destruct (bime b); [|reflexivity].
      repeat match goal with |- context [if ?c then _ else _] => destruct c end; reflexivity. }
    unfold handle. rewrite E. reflexivity.
  Qed.

  Lemma bits_zero p : p < 32 -> N.testbit p 0 = false -> N.testbit p 1 = false -> N.testbit p 2 = false ->
    N.testbit p 3 = false -> N.testbit p 4 = false -> p = 0.
  Proof.
    intros Hp.
    assert (H : forallb (fun p => N.testbit p 0 || N.testbit p 1 || N.testbit p 2 || N.testbit p 3 || N.testbit p 4 || (p =? 0)) (upto 32) = true)
      by (vm_compute; reflexivity).
    pose proof (sweep_upto 32 _ H p Hp) as H1. cbv beta in H1.
    intros E0 E1 E2 E3 E4. rewrite E0, E1, E2, E3, E4 in H1. cbn [orb] in H1. apply N.eqb_eq. exact H1.
  Qed.

  (* the acknowledgement: IME cleared, the lowest pending bit acknowledged, PC pushed high byte first, PC := vector *)
  Lemma handle_dispatch s l k b :
    bime b = true -> bpending (bset_ime b false) <> 0 -> bpending (bset_ime b false) < 32 ->
    arch_of (fst (handle (seq_state s l k) b)) =
      fst (spec_dispatch B bwr bset_ime bpending back (arch_of (seq_state s l k)) b) /\
    snd (handle (seq_state s l k) b) = snd (spec_dispatch B bwr bset_ime bpending back (arch_of (seq_state s l k)) b) /\
    fault (fst (handle (seq_state s l k) b)) = None /\
    cur (fst (handle (seq_state s l k) b)) = l /\ early (fst (handle (seq_state s l k) b)) = None /\
    halted (fst (handle (seq_state s l k) b)) = false /\ eip (fst (handle (seq_state s l k) b)) = false.
  Proof.
    intros Hi Hp Hlt. unfold handle, handle_interrupt, spec_dispatch, lowest_bit. rewrite Hi.
    set (b0 := bset_ime b false) in *. set (p := bpending b0) in *.
    destruct s as [a_ b_ c_ d_ e_ f_ h_ l_ sp_ pc_ halted_ haltbug_ stopped_ eip_ u8a_ u8b_ m8a_ m8b_ cur_ cyc_ early_ moon_ fault_ trace_].
    unfold seq_state.
    cbv beta iota zeta delta [ra rb rc rd re rf rh rl sp pc haltbug stopped u8a u8b m8a m8b mooneye].
    destruct (N.testbit p 0) eqn:E0; [|destruct (N.testbit p 1) eqn:E1; [|destruct (N.testbit p 2) eqn:E2;
      [|destruct (N.testbit p 3) eqn:E3; [|destruct (N.testbit p 4) eqn:E4; [|exfalso; apply Hp; apply bits_zero; assumption]]]]];
      cbn [fst snd];
      unfold do_push, dec_sp, dwrite, do_rst, log, get_reg, arch_of, vector;
      cbv beta iota zeta delta [set_sp set_pc set_m8a set_m8b set_trace set_xhalted set_xpc set_xsp
        cur cyc early trace fault halted haltbug stopped eip ra rb rc rd re rf rh rl sp pc u8a u8b m8a m8b mooneye
        xa xb xc xd xe xh xl xf xsp xpc xhalted xhaltbug xstopped xeip fst snd];
      rewrite ?Htrig, ?sub16_1; repeat split; reflexivity.
  Qed.

  (* n idle cycles inside a sequence, the environment acting after each *)
  Lemma seq_idles env s l : forall n k k0 b,
    (forall j, (k <= j < k + n)%nat -> nth_error l j = Some UNop /\ Nat.eqb j (length l) = false) ->
    run_env expected_tables env k0 n (seq_state s l k, b) = (seq_state s l (k + n), env_bus env k0 n b).
  Proof.
    induction n as [|n IH]; intros k k0 b H; cbn [run_env env_bus].
    - rewrite Nat.add_0_r. reflexivity.
    - destruct (H k) as [Hn Hl]; [lia|]. rewrite (seq_idle s b l k Hn Hl). cbn [fst snd].
      rewrite IH; [f_equal; f_equal; lia|]. intros j Hj. apply H. lia.
  Qed.

  Lemma run_env_app T env : forall n m k sb,
    run_env T env k (n + m) sb = run_env T env (k + n) m (run_env T env k n sb).
  Proof.
    induction n as [|n IH]; intros m k sb; cbn [run_env Nat.add].
    - rewrite Nat.add_0_r. reflexivity.
    - rewrite IH. f_equal. lia.
  Qed.

  Lemma run_env_1 T env k sb :
    run_env T env k 1 sb = (fst (cycle T B brd bwr btrig bcorrupt bime bset_ime bpending back sb),
                            env k (snd (cycle T B brd bwr btrig bcorrupt bime bset_ime bpending back sb))).
  Proof. reflexivity. Qed.

  (* Dispatch from a running CPU: five machine cycles.  env is the rest of the machine acting after each cycle. *)
  Theorem dispatch_running env s b :
    boundary s -> halted s = false -> bime b = true -> bpending b <> 0 ->
    let b0 := commit B bset_ime s b in
    let b4 := env_bus env 1 3 (env 0%nat b0) in
    bime b4 = true -> bpending (bset_ime b4 false) <> 0 -> bpending (bset_ime b4 false) < 32 ->
    let r := run_env gen_tables env 0 5 (s, b) in
    arch_of (fst r) = fst (spec_dispatch B bwr bset_ime bpending back (arch_of (set_eip false s)) b4) /\
    snd r = env 4%nat (snd (spec_dispatch B bwr bset_ime bpending back (arch_of (set_eip false s)) b4)) /\
    boundary (fst r) /\ halted (fst r) = false /\ eip (fst r) = false.
  Proof.
    intros Hb Hh Hi Hp b0 b4 Hi4 Hp4 Hlt4 r. subst r. rewrite gen_tables_ok.
    assert (Hc : fst (check_interrupts expected_tables B bime bpending s b) = Some [UNop; UNop; UNop; UNop; UHandleInterrupt]).
    { unfold check_interrupts. apply N.eqb_neq in Hp. rewrite Hp, Hi, Hh. reflexivity. }
    change 5%nat with (1 + (3 + 1))%nat. rewrite !run_env_app. rewrite (run_env_1 _ env 0).
    rewrite (dispatch_first s b _ Hb Hp Hc). cbn [fst snd]. fold b0.
    rewrite (seq_idles env s _ 3 1 (0 + 1) (env 0%nat b0)).
    2:{ intros j Hj. assert (j = 1 \/ j = 2 \/ j = 3)%nat as [->|[->| ->]] by lia; split; reflexivity. }
    cbn [Nat.add]. fold b4. rewrite run_env_1.
    rewrite (seq_handle s b4 [UNop; UNop; UNop; UNop; UHandleInterrupt] 4 eq_refl eq_refl). cbn [fst snd].
    destruct (handle_dispatch s [UNop; UNop; UNop; UNop; UHandleInterrupt] 4 b4 Hi4 Hp4 Hlt4) as (Ha & Hbus & Hf & Hcur & Hear & Hha & Hei).
    assert (Hao : arch_of (seq_state s [UNop; UNop; UNop; UNop; UHandleInterrupt] 4) = arch_of (set_eip false s)).
    { destruct s; cbn in *. rewrite Hh. reflexivity. }
    rewrite Hao in Ha, Hbus.
    repeat split.
    - rewrite <- Ha. destruct (fst (handle _ b4)); reflexivity.
    - rewrite Hbus. reflexivity.
    - unfold is_finished. destruct (fst (handle _ b4)) eqn:E. cbn in *. subst. reflexivity.
    - destruct (fst (handle _ b4)); cbn in *; assumption.
    - destruct (fst (handle _ b4)); cbn in *; assumption.
    - destruct (fst (handle _ b4)); cbn in *; assumption.
  Qed.

  (* Dispatch out of HALT with the master enable set: six machine cycles (one more than from a running CPU). *)
  Theorem dispatch_halted env s b :
    boundary s -> halted s = true -> bime b = true -> bpending b <> 0 ->
    let b0 := commit B bset_ime s b in
    let b5 := env_bus env 1 4 (env 0%nat b0) in
    bime b5 = true -> bpending (bset_ime b5 false) <> 0 -> bpending (bset_ime b5 false) < 32 ->
    let r := run_env gen_tables env 0 6 (s, b) in
    arch_of (fst r) = fst (spec_dispatch B bwr bset_ime bpending back (arch_of (set_halted false (set_eip false s))) b5) /\
    snd r = env 5%nat (snd (spec_dispatch B bwr bset_ime bpending back (arch_of (set_halted false (set_eip false s))) b5)) /\
    boundary (fst r) /\ halted (fst r) = false /\ eip (fst r) = false.
  Proof.
    intros Hb Hh Hi Hp b0 b5 Hi5 Hp5 Hlt5 r. subst r. rewrite gen_tables_ok.
    assert (Hc : fst (check_interrupts expected_tables B bime bpending s b) = Some [UNop; UNop; UNop; UNop; UNop; UHandleInterrupt]).
    { unfold check_interrupts. apply N.eqb_neq in Hp. rewrite Hp, Hi, Hh. reflexivity. }
    change 6%nat with (1 + (4 + 1))%nat. rewrite !run_env_app. rewrite (run_env_1 _ env 0).
    rewrite (dispatch_first s b _ Hb Hp Hc). cbn [fst snd]. fold b0.
    rewrite (seq_idles env s _ 4 1 (0 + 1) (env 0%nat b0)).
    2:{ intros j Hj. assert (j = 1 \/ j = 2 \/ j = 3 \/ j = 4)%nat as [->|[->|[->| ->]]] by lia; split; reflexivity. }
    cbn [Nat.add]. fold b5. rewrite run_env_1.
    rewrite (seq_handle s b5 [UNop; UNop; UNop; UNop; UNop; UHandleInterrupt] 5 eq_refl eq_refl). cbn [fst snd].
    destruct (handle_dispatch s [UNop; UNop; UNop; UNop; UNop; UHandleInterrupt] 5 b5 Hi5 Hp5 Hlt5) as (Ha & Hbus & Hf & Hcur & Hear & Hha & Hei).
    assert (Hao : arch_of (seq_state s [UNop; UNop; UNop; UNop; UNop; UHandleInterrupt] 5) = arch_of (set_halted false (set_eip false s))).
    { destruct s; reflexivity. }
    rewrite Hao in Ha, Hbus.
    repeat split.
    - rewrite <- Ha. destruct (fst (handle _ b5)); reflexivity.
    - rewrite Hbus. reflexivity.
    - unfold is_finished. destruct (fst (handle _ b5)) eqn:E. cbn in *. subst. reflexivity.
    - destruct (fst (handle _ b5)); cbn in *; assumption.
    - destruct (fst (handle _ b5)); cbn in *; assumption.
    - destruct (fst (handle _ b5)); cbn in *; assumption.
  Qed.

  (* HALT with the master enable clear: an enabled request ends the idling in one machine cycle, nothing is dispatched,
     the request stays in IF, the master enable stays clear, and the next instruction starts at the following boundary. *)
  Theorem wake_without_ime s b :
    boundary s -> halted s = true -> bime b = false -> bpending b <> 0 ->
    let r := cycle gen_tables B brd bwr btrig bcorrupt bime bset_ime bpending back (s, b) in
    (bime (commit B bset_ime s b) = false ->
     arch_of (fst r) = arch_of (set_halted false (set_eip false s)) /\ snd r = commit B bset_ime s b) /\
    boundary (fst r) /\ halted (fst r) = false.
  Proof.
    intros (Hfin & Hfa) Hh Hi Hp r. subst r. rewrite gen_tables_ok.
    destruct s as [a_ b_ c_ d_ e_ f_ h_ l_ sp_ pc_ halted_ haltbug_ stopped_ eip_ u8a_ u8b_ m8a_ m8b_ cur_ cyc_ early_ moon_ fault_ trace_].
    cbn [fault halted] in Hfa, Hh. subst fault_ halted_.
    unfold cycle. cbn [fst snd fault]. rewrite Hfin. unfold next, check_interrupts.
    apply N.eqb_neq in Hp. rewrite Hp, Hi. cbn [halted fst snd eip].
    unfold commit. cbn [eip].
    cbv beta iota zeta delta [set_eip set_cyc set_cur set_early set_trace set_halted
        cur cyc early trace fault halted haltbug stopped eip ra rb rc rd re rf rh rl sp pc u8a u8b m8a m8b mooneye].
    cbn [fst snd t_vshort expected_tables x_veryShortInterrupt nth_error exec]. unfold handle_interrupt.
    set (bb := if eip_ then bset_ime b true else b).
    rewrite Hcor. repeat split.
    - destruct (bime bb) eqn:E; [congruence|]. reflexivity.
    - destruct (bime bb) eqn:E; [congruence|]. reflexivity.
    - unfold is_finished. destruct (bime bb); cbn; try reflexivity.
      repeat match goal with |- context [if ?c then _ else _] => destruct c end; reflexivity.
    - destruct (bime bb); cbn; try reflexivity.
      repeat match goal with |- context [if ?c then _ else _] => destruct c end; reflexivity.
    - destruct (bime bb); cbn; try reflexivity.
      repeat match goal with |- context [if ?c then _ else _] => destruct c end; reflexivity.
  Qed.

  (* HALT idles: with no enabled request the cycle changes nothing (beyond committing a pending EI) *)
  Lemma halt_idle_cycle s b :
    boundary s -> halted s = true -> bpending b = 0 ->
    cycle gen_tables B brd bwr btrig bcorrupt bime bset_ime bpending back (s, b) = (set_eip false s, commit B bset_ime s b).
  Proof.
    intros (Hfin & Hfa) Hh Hp.
    unfold cycle. cbn [fst snd]. rewrite Hfa, Hfin. unfold next, check_interrupts. rewrite Hp. cbn [N.eqb fst snd].
    destruct s; cbn in *. subst. reflexivity.
  Qed.

  (* ... for any number of cycles n, as long as the environment raises no enabled request *)
  Theorem halt_idles env s b : forall n k,
    boundary s -> halted s = true -> eip s = false ->
    (forall j, (j <= n)%nat -> bpending (env_bus env k j b) = 0) ->
    run_env gen_tables env k n (s, b) = (s, env_bus env k n b).
  Proof.
    intros n. revert b. induction n as [|n IH]; intros b k Hb Hh He Hq; cbn [run_env env_bus]; [reflexivity|].
    rewrite (halt_idle_cycle s b Hb Hh (Hq 0%nat (Nat.le_0_l _))).
    unfold commit. rewrite He. cbn [fst snd].
    replace (set_eip false s) with s by (destruct s; cbn in He; subst; reflexivity).
    apply IH; try assumption. intros j Hj. apply (Hq (S j)). lia.
  Qed.

  (* ---- EI, DI, RETI, HALT as documented (what instr_refines says for these four opcodes) ---- *)
  Notation spec_instr' := (spec_instr B brd bwr bset_ime bime bpending).

  Definition after_fetch (a : arch) : arch := if xhaltbug a then set_xhaltbug false a else pc1 a.

  Lemma spec_instr_base a b op : snd (brd b (xpc a)) = op -> op <> 203 ->
    spec_instr' a b = sem B brd bwr bset_ime bime bpending (decode op) (after_fetch a) (fst (brd b (xpc a))).
  Proof.
    intros Ho Hn. unfold spec_instr, rdv, rdb, after_fetch. rewrite Ho.
    destruct (N.eqb_spec op 203); [contradiction|]. reflexivity.
  Qed.

  (* DI clears the master enable in the instruction itself *)
  Lemma spec_di a b : snd (brd b (xpc a)) = 243 ->
    spec_instr' a b = (after_fetch a, bset_ime (fst (brd b (xpc a))) false, [], 1).
  Proof. intros H. rewrite (spec_instr_base a b 243 H) by discriminate. reflexivity. Qed.

  (* EI only marks the enable as pending: the master enable is untouched by the instruction *)
  Lemma spec_ei a b : snd (brd b (xpc a)) = 251 ->
    spec_instr' a b = (set_xeip true (after_fetch a), fst (brd b (xpc a)), [], 1).
  Proof. intros H. rewrite (spec_instr_base a b 251 H) by discriminate. reflexivity. Qed.

  (* RETI sets the master enable when it completes (after popping PC) *)
  Lemma spec_reti a b : snd (brd b (xpc a)) = 217 ->
    let a1 := after_fetch a in
    let b1 := fst (brd b (xpc a)) in
    let lo := snd (brd b1 (xsp a1)) in
    let b2 := fst (brd b1 (xsp a1)) in
    let hi := snd (brd b2 (inc16 (xsp a1))) in
    let b3 := fst (brd b2 (inc16 (xsp a1))) in
    spec_instr' a b = (set_xpc (w16 hi lo) (set_xsp (inc16 (inc16 (xsp a1))) a1), bset_ime b3 true,
                       [(2, DRead, xsp a1); (3, DRead, inc16 (xsp a1))], 4).
  Proof. intros H. rewrite (spec_instr_base a b 217 H) by discriminate. reflexivity. Qed.

  (* HALT: idles when the master enable is set or nothing is pending; otherwise the halt bug is armed *)
  Lemma spec_halt a b : snd (brd b (xpc a)) = 118 ->
    let a1 := after_fetch a in
    let b1 := fst (brd b (xpc a)) in
    spec_instr' a b =
      (if bime b1 then set_xhalted true a1 else if bpending b1 =? 0 then set_xhalted true a1 else set_xhaltbug true a1,
       b1, [], 1).
  Proof.
    intros H. rewrite (spec_instr_base a b 118 H) by discriminate. cbn zeta.
    change (decode 118) with IHalt. cbn [sem].
    destruct (bime (fst (brd b (xpc a)))); [reflexivity|].
    destruct (bpending (fst (brd b (xpc a))) =? 0); reflexivity.
  Qed.

  (* the halt bug: with the flag armed, the next instruction is decoded from the byte at PC and PC is not advanced past
     the opcode, so that byte is used twice *)
  Lemma halt_bug_fetch a : xhaltbug a = true ->
    xpc (after_fetch a) = xpc a /\ xhaltbug (after_fetch a) = false.
  Proof. intros H. unfold after_fetch. rewrite H. destruct a; split; reflexivity. Qed.

  (* EI delay: at the boundary that follows EI (master enable still clear) nothing is dispatched whatever is pending;
     the following instruction starts, and it runs with the master enable set *)
  Theorem ei_delay s b :
    halted s = false -> bime b = false -> eip s = true ->
    fst (check_interrupts gen_tables B bime bpending s b) = None /\ commit B bset_ime s b = bset_ime b true.
  Proof.
    intros Hh Hi He. split; [apply no_dispatch; auto|]. unfold commit. rewrite He. reflexivity.
  Qed.
End Ints.
