(* CartRamProofs.v — C09: the cartridge RAM of the model refines the abstract banked store of CartSpec
   (gated by the enable register, banked by the documented bank register modulo the bank count, retained
   across everything else), for every operation history. *)
From Coq Require Import ZArith ZifyN ZifyNat ZifyBool.
From V.lib Require Import Bits Mem Res.
From V.model Require Import Rtc Cart.
From V.spec Require Import CartSpec.
From V.proofs Require Import CartLemmas CartInv CartInv5 CartRun.

(* ---- what a write does to the RAM cells of the model ---- *)
Lemma write_ram_effect c a v c' :
  cart_write c a v = Ok c' ->
  c_ram c' =
  if between 40960 49152 a && c_en c then
    match c_kind c with
    | KNone => c_ram c
    | KMbc2 => Mem.set (c_ram c) ((a - 40960) mod 512) (N.lor v 240)
    | KMbc3 => if 8 <=? c_ramBank c then c_ram c
               else Mem.set (c_ram c) (c_ramBank c mod c_nram c * 8192 + (a - 40960)) v
    | _ => Mem.set (c_ram c) (c_ramBank c * 8192 + (a - 40960)) v
    end
  else c_ram c.
Proof.
  unfold cart_write, mbc1_write, mbc2_write, mbc3_write, mbc5_write, mbc1_update, ram_put, gomod, between.
  destruct (c_kind c) eqn:Hk;
    repeat match goal with
           | |- context [if ?b then _ else _] => destruct b eqn:?; cbn [bind]
           end;
    try discriminate; intros [= <-]; projs; try reflexivity; exfalso; lia.
Qed.

(* ---- abstraction relation ---- *)
Definition ram_rel (c : cart) (s : ramspec) : Prop :=
  match c_kind c with
  | KNone => True
  | KMbc2 => forall o, o < 512 -> Mem.get (c_ram c) o = rs_store s 0 o
  | _ => forall b o, b < c_nram c -> o < 8192 -> Mem.get (c_ram c) (b * 8192 + o) = rs_store s b o
  end.

Definition Rel (c : cart) (s : ramspec) : Prop := Inv (rs_hist s) c /\ ram_rel c s.

Lemma ram_rel_init c : c_ram c = Mem.empty 255 -> ram_rel c ramspec_init.
Proof.
  intros E. unfold ram_rel. rewrite E.
  destruct (c_kind c); try exact I; intros; rewrite Mem.get_empty; reflexivity.
Qed.

Lemma rs_hist_write k nr s w : rs_hist (ramspec_write k nr s w) = rs_hist s ++ [w].
Proof. destruct w as [a v]. reflexivity. Qed.

(* one write: the model's cells follow the abstract store *)
Lemma write_rel c s a v :
  Rel c s -> v < 256 ->
  exists c', cart_write c a v = Ok c' /\
             Rel c' (ramspec_write (kind_ctrl (c_kind c)) (c_nram c) s (a, v)) /\ same_frame c c'.
Proof.
  intros [HI HR] Hv.
  destruct (cart_write_inv _ c a v HI Hv) as (c' & Ew & I' & F).
  exists c'. split; [exact Ew|]. split; [|exact F]. split; [rewrite rs_hist_write; exact I'|].
  pose proof (write_ram_effect _ _ _ _ Ew) as Eram.
  destruct F as (F1 & F2 & F3 & F4).
  destruct HI as [Hpow Hr Hl Hen Hregs]. unfold regs_ok in Hregs.
  pose proof (nram_ok_pos _ Hr) as [Hr0 Hr16].
  unfold ram_rel in *. rewrite F1, ?F4. unfold ramspec_write. cbn [rs_store].
  rewrite <- Hen.
  destruct (between 40960 49152 a && c_en c) eqn:Eb.
  2:{ rewrite Eram. destruct (c_kind c); exact HR. }
  apply andb_prop in Eb. destruct Eb as [Ea Ee]. unfold between in Ea.
  assert (Hoff : a - 40960 < 8192) by lia.
  destruct (c_kind c) eqn:Hk; cbn [kind_ctrl ram_target cell kept].
  - exact I.
  - (* MBC1 *)
    destruct Hregs as (R1 & R2 & R3 & R4 & R5 & R6 & R7). specialize (R6 Ee).
    rewrite <- R6. intros b o Hb Ho. rewrite Eram, Mem.gsspec. unfold store_upd.
    destruct (N.eqb_spec (c_ramBank c * 8192 + (a - 40960)) (b * 8192 + o)) as [E|E].
    + assert (b = c_ramBank c /\ o = a - 40960) as [-> ->] by lia. rewrite !N.eqb_refl. reflexivity.
    + destruct (N.eqb_spec b (c_ramBank c)), (N.eqb_spec o (a - 40960)); cbn [andb]; try (apply HR; assumption).
      exfalso. subst. apply E. reflexivity.
  - (* MBC2 *)
    intros o Ho. rewrite Eram, Mem.gsspec. unfold store_upd. cbn [N.eqb andb].
    rewrite lor240 by exact Hv.
    destruct (N.eqb_spec ((a - 40960) mod 512) o) as [E|E].
    + subst o. rewrite N.eqb_refl. reflexivity.
    + destruct (N.eqb_spec o ((a - 40960) mod 512)); [exfalso; auto|]. apply HR. exact Ho.
  - (* MBC3 *)
    destruct Hregs as [R1 R2]. rewrite <- R2.
    destruct (N.leb_spec 8 (c_ramBank c)) as [Hge|Hlt].
    + assert (Es : (c_ramBank c <? 8) = false) by lia. rewrite Es, Eram. exact HR.
    + assert (Es : (c_ramBank c <? 8) = true) by lia. rewrite Es.
      assert (Hbm : c_ramBank c mod c_nram c < c_nram c) by (apply N.mod_lt; lia).
      intros b o Hb Ho. rewrite Eram, Mem.gsspec. unfold store_upd.
      destruct (N.eqb_spec (c_ramBank c mod c_nram c * 8192 + (a - 40960)) (b * 8192 + o)) as [E|E].
      * assert (b = c_ramBank c mod c_nram c /\ o = a - 40960) as [-> ->] by lia. rewrite !N.eqb_refl. reflexivity.
      * destruct (N.eqb_spec b (c_ramBank c mod c_nram c)), (N.eqb_spec o (a - 40960)); cbn [andb];
          try (apply HR; assumption).
        exfalso. subst. apply E. reflexivity.
  - (* MBC5 *)
    destruct Hregs as (R1 & R2 & R3 & RL & R4). rewrite <- R4.
    assert (Hbm : c_ramBank c < c_nram c) by (rewrite R4; apply N.mod_lt; lia).
    intros b o Hb Ho. rewrite Eram, Mem.gsspec. unfold store_upd.
    destruct (N.eqb_spec (c_ramBank c * 8192 + (a - 40960)) (b * 8192 + o)) as [E|E].
    + assert (b = c_ramBank c /\ o = a - 40960) as [-> ->] by lia. rewrite !N.eqb_refl. reflexivity.
    + destruct (N.eqb_spec b (c_ramBank c)), (N.eqb_spec o (a - 40960)); cbn [andb]; try (apply HR; assumption).
      exfalso. subst. apply E. reflexivity.
Qed.

(* reads of the window A000-BFFF *)
Lemma ram_read_spec c s addr :
  Rel c s -> 40960 <= addr < 49152 ->
  match ramspec_read (kind_ctrl (c_kind c)) (c_nram c) s addr with
  | Some v => cart_read c addr = Ok v
  | None => True
  end.
Proof.
  intros [HI HR] Ha.
  destruct HI as [Hpow Hr Hl Hen Hregs]. unfold regs_ok in Hregs.
  pose proof (nram_ok_pos _ Hr) as [Hr0 Hr16].
  unfold ramspec_read, cart_read, ram_window_read, ram_at, ram_rel in *.
  rewrite <- Hen.
  assert (E1 : (addr <? 16384) = false) by lia.
  assert (E2 : (addr <? 32768) = false) by lia.
  assert (E3 : (addr <? 40960) = false) by lia.
  assert (E4 : (addr <? 49152) = true) by lia.
  assert (Hoff : addr - 40960 < 8192) by lia.
  destruct (c_kind c) eqn:Hk; cbn [kind_ctrl ram_target cell]; rewrite ?E1, ?E2, ?E3, ?E4.
  - destruct (c_en c); reflexivity.
  - destruct (c_en c) eqn:Ee; [|reflexivity].
    destruct Hregs as (R1 & R2 & R3 & R4 & R5 & R6 & R7). specialize (R6 eq_refl). rewrite <- R6.
    assert (Hlt : (c_ramBank c <? c_nram c) = true) by lia. rewrite Hlt.
    rewrite HR by assumption. reflexivity.
  - destruct (c_en c); [|reflexivity]. rewrite HR by (apply N.mod_lt; lia). reflexivity.
  - destruct (c_en c); [|reflexivity]. destruct Hregs as [R1 R2]. rewrite <- R2.
    destruct (N.leb_spec 8 (c_ramBank c)) as [Hge|Hlt].
    + assert (Es : (c_ramBank c <? 8) = false) by lia. rewrite Es.
      destruct (N.leb_spec (c_ramBank c) 12) as [H12|H12]; [exact I|].
      unfold rtc_read. destruct (c_ramBank c) as [|p]; [lia|].
      do 4 (destruct p as [p|p|]; try lia; try reflexivity).
    + assert (Es : (c_ramBank c <? 8) = true) by lia. rewrite Es.
      rewrite gomod_ok by lia. cbn [bind].
      assert (Hbm : c_ramBank c mod c_nram c < c_nram c) by (apply N.mod_lt; lia).
      assert (Hb : (c_ramBank c mod c_nram c <? c_nram c) = true) by lia. rewrite Hb.
      rewrite HR by assumption. reflexivity.
  - destruct (c_en c); [|reflexivity]. destruct Hregs as (R1 & R2 & R3 & RL & R4). rewrite <- R4.
    assert (Hbm : c_ramBank c < c_nram c) by (rewrite R4; apply N.mod_lt; lia).
    assert (Hb : (c_ramBank c <? c_nram c) = true) by lia. rewrite Hb.
    rewrite HR by assumption. reflexivity.
Qed.

(* ---- the dump ---- *)
Lemma upto_aux_length n s : length (upto_aux n s) = n.
Proof. revert s. induction n as [|n IH]; intros s; cbn [upto_aux length]; [reflexivity | rewrite IH; reflexivity]. Qed.

Lemma upto_aux_nth n : forall s i d, (i < n)%nat -> nth i (upto_aux n s) d = s + N.of_nat i.
Proof.
  induction n as [|n IH]; intros s i d Hi; [lia|].
  cbn [upto_aux]. destruct i as [|i]; cbn [nth]; [lia|].
  rewrite IH by lia. lia.
Qed.

Lemma upto_length n : length (upto n) = n.
Proof. apply upto_aux_length. Qed.
Lemma upto_nth n i d : (i < n)%nat -> nth i (upto n) d = N.of_nat i.
Proof. intros H. unfold upto. rewrite upto_aux_nth by exact H. lia. Qed.

Lemma dump_spec c s :
  Rel c s ->
  let k := kind_ctrl (c_kind c) in
  length (cart_dump c) = N.to_nat (dump_len k (c_nram c)) /\
  forall i, i < dump_len k (c_nram c) -> nth (N.to_nat i) (cart_dump c) 0 = dump_at k s i.
Proof.
  intros [HI HR] k. subst k. unfold cart_dump, dump_len, dump_at, ram_rel in *.
  destruct (c_kind c) eqn:Hk; cbn [kind_ctrl].
  - split; [reflexivity|]. intros i Hi. lia.
  - split; [rewrite map_length, upto_length; reflexivity|]. intros i Hi.
    rewrite (nth_indep _ 0 (Mem.get (c_ram c) 0)) by (rewrite map_length, upto_length; lia).
    rewrite map_nth, upto_nth by lia. rewrite N2Nat.id.
    replace i with ((i / 8192) * 8192 + i mod 8192) at 1 by lia.
    apply HR; [|lia]. apply N.div_lt_upper_bound; lia.
  - split; [rewrite map_length, upto_length; reflexivity|]. intros i Hi.
    rewrite (nth_indep _ 0 (Mem.get (c_ram c) 0)) by (rewrite map_length, upto_length; lia).
    rewrite map_nth, upto_nth by lia. rewrite N2Nat.id. apply HR. exact Hi.
  - split; [rewrite map_length, upto_length; reflexivity|]. intros i Hi.
    rewrite (nth_indep _ 0 (Mem.get (c_ram c) 0)) by (rewrite map_length, upto_length; lia).
    rewrite map_nth, upto_nth by lia. rewrite N2Nat.id.
    replace i with ((i / 8192) * 8192 + i mod 8192) at 1 by lia.
    apply HR; [|lia]. apply N.div_lt_upper_bound; lia.
  - split; [rewrite map_length, upto_length; reflexivity|]. intros i Hi.
    rewrite (nth_indep _ 0 (Mem.get (c_ram c) 0)) by (rewrite map_length, upto_length; lia).
    rewrite map_nth, upto_nth by lia. rewrite N2Nat.id.
    replace i with ((i / 8192) * 8192 + i mod 8192) at 1 by lia.
    apply HR; [|lia]. apply N.div_lt_upper_bound; lia.
Qed.

(* ---- histories ---- *)
Lemma tick_rel c s : Rel c s -> Rel (cart_tick c) s.
Proof. intros [HI HR]. split; [apply tick_inv; exact HI|]. exact HR. Qed.

Lemma ticks_rel c s n : Rel c s -> Rel (N.iter n cart_tick c) s /\ same_frame c (N.iter n cart_tick c).
Proof.
  intros HR. induction n as [|n IH] using N.peano_ind.
  - split; [exact HR | apply same_frame_refl].
  - rewrite N.iter_succ. destruct IH as [R1 F1]. split; [apply tick_rel; exact R1|].
    eapply same_frame_trans; [exact F1|]. repeat split.
Qed.

Lemma run_rel ops : forall c s,
  Rel c s -> Forall wf_op ops ->
  exists c', cart_run c ops = Ok c' /\
             Rel c' (fold_left (ramspec_write (kind_ctrl (c_kind c)) (c_nram c)) (writes_of ops) s) /\
             same_frame c c'.
Proof.
  induction ops as [|o ops IH]; intros c s HR Hwf.
  - exists c. cbn. split; [reflexivity|]. split; [exact HR | apply same_frame_refl].
  - inversion Hwf as [|? ? Ho Hops]; subst.
    rewrite writes_of_cons, fold_left_app.
    destruct o as [a|a v|n|]; cbn [cart_run cart_step writes_of flat_map app fold_left].
    + destruct HR as [HI HRr]. destruct (read_ok _ _ a HI) as [v Hv]. rewrite Hv. cbn [bind].
      apply IH; [split; assumption | exact Hops].
    + destruct (write_rel c s a v HR Ho) as (c1 & E1 & R1 & F1). rewrite E1. cbn [bind].
      destruct (IH c1 _ R1 Hops) as (c2 & E2 & R2 & F2).
      pose proof F1 as F1'. destruct F1' as (K1 & K2 & K3 & K4). rewrite K1, K4 in R2.
      exists c2. split; [exact E2|]. split; [exact R2|].
      eapply same_frame_trans; [exact F1 | exact F2].
    + cbn [bind]. destruct (ticks_rel c s n HR) as [R1 F1].
      destruct (IH _ _ R1 Hops) as (c2 & E2 & R2 & F2).
      pose proof F1 as F1'. destruct F1' as (K1 & K2 & K3 & K4). rewrite K1, K4 in R2.
      exists c2. split; [exact E2|]. split; [exact R2|].
      eapply same_frame_trans; [exact F1 | exact F2].
    + cbn [bind]. apply IH; assumption.
Qed.

(* header: the number of RAM banks *)
Lemma ram_table s :
  match s with 1 => 1 | 2 => 1 | 3 => 4 | 4 => 16 | 5 => 8 | _ => 1 end = ram_banks_of_code s.
Proof.
  unfold ram_banks_of_code. destruct s as [|p]; [reflexivity|].
  do 3 (destruct p as [p|p|]; try reflexivity).
Qed.

Lemma nram_spec t s kd : kind_of_type t = Some kd -> ram_banks t s = spec_nram (kind_ctrl kd) s.
Proof.
  intros Hk. unfold ram_banks, spec_nram.
  destruct (N.eqb_spec t 5) as [->|N5]; [cbn in Hk; injection Hk as <-; reflexivity|].
  destruct (N.eqb_spec t 6) as [->|N6]; [cbn in Hk; injection Hk as <-; reflexivity|].
  cbn [orb]. rewrite ram_table.
  destruct kd; cbn [kind_ctrl]; try reflexivity.
  exfalso. destruct t as [|p]; [discriminate|].
  do 6 (destruct p as [p|p|]; try (cbn in Hk; discriminate); try lia).
Qed.

Theorem ram_refines img c0 ops :
  cart_construct img = Ok c0 -> Forall wf_op ops ->
  exists k c,
    ctrl_of_type (img_at img 327) = Some k /\ cart_run c0 ops = Ok c /\
    let nr := spec_nram k (img_at img 329) in
    let s := ramspec_run k nr (writes_of ops) in
    (forall addr, 40960 <= addr < 49152 ->
       match ramspec_read k nr s addr with Some v => cart_read c addr = Ok v | None => True end) /\
    length (cart_dump c) = N.to_nat (dump_len k nr) /\
    (forall i, i < dump_len k nr -> nth (N.to_nat i) (cart_dump c) 0 = dump_at k s i).
Proof.
  intros Hc Hwf.
  destruct (construct_inv img c0 Hc) as [I0 [Himg _ _ Hk Hnr _ Hram]].
  assert (R0 : Rel c0 ramspec_init) by (split; [exact I0 | apply ram_rel_init; exact Hram]).
  destruct (run_rel ops c0 _ R0 Hwf) as (c & Er & R1 & (F1 & F2 & F3 & F4)).
  exists (kind_ctrl (c_kind c0)), c.
  split; [apply kind_of_type_ctrl; exact Hk|]. split; [exact Er|].
  rewrite <- (nram_spec _ _ _ Hk), <- Hnr. cbv zeta. unfold ramspec_run.
  split.
  - intros addr Ha. pose proof (ram_read_spec _ _ addr R1 Ha) as G. rewrite F1, F4 in G. exact G.
  - pose proof (dump_spec _ _ R1) as G. cbv zeta in G. rewrite F1, F4 in G. exact G.
Qed.

(* ---- consequences stated on the abstract store ---- *)
(* a cell changes only by an enabled write that names it *)
Lemma store_retained k nr s a v b o :
  rs_store (ramspec_write k nr s (a, v)) b o <> rs_store s b o ->
  between 40960 49152 a = true /\ ram_enabled k (rs_hist s) = true /\
  ram_target k nr (rs_hist s) = TRam b /\ cell k a = o.
Proof.
  unfold ramspec_write. cbn [rs_store].
  destruct (between 40960 49152 a); cbn [andb]; [|intros H; exfalso; apply H; reflexivity].
  destruct (ram_enabled k (rs_hist s)); [|intros H; exfalso; apply H; reflexivity].
  destruct (ram_target k nr (rs_hist s)) as [b0| |]; try (intros H; exfalso; apply H; reflexivity).
  unfold store_upd.
  destruct (N.eqb_spec b b0) as [->|]; cbn [andb]; [|intros H; exfalso; apply H; reflexivity].
  destruct (N.eqb_spec o (cell k a)) as [->|]; [|intros H; exfalso; apply H; reflexivity].
  intros _. repeat split.
Qed.

(* MBC2: every cell keeps 1111 in its upper half, whatever is written *)
Lemma mbc2_store_nibble nr ws : Forall (fun w => snd w < 256) ws ->
  forall b o, 240 <= rs_store (ramspec_run Mbc2 nr ws) b o < 256.
Proof.
  unfold ramspec_run.
  assert (G : forall s, (forall b o, 240 <= rs_store s b o < 256) ->
                        Forall (fun w => snd w < 256) ws ->
                        forall b o, 240 <= rs_store (fold_left (ramspec_write Mbc2 nr) ws s) b o < 256).
  { induction ws as [|[a v] ws IH]; intros s Hs Hwf; cbn [fold_left]; [exact Hs|].
    inversion Hwf as [|? ? Hv Hws]; subst. apply IH; [|exact Hws].
    intros b o. unfold ramspec_write. cbn [rs_store].
    destruct (between 40960 49152 a && ram_enabled Mbc2 (rs_hist s)); [|apply Hs].
    cbn [ram_target kept]. unfold store_upd. destruct ((b =? 0) && (o =? cell Mbc2 a)); [|apply Hs].
    cbn [snd] in Hv. lia. }
  intros Hwf. apply G; [|exact Hwf]. intros b o. unfold ramspec_init, store_init. cbn [rs_store]. lia.
Qed.

Lemma writes_of_bytes ops : Forall wf_op ops -> Forall (fun w => snd w < 256) (writes_of ops).
Proof.
  induction ops as [|o ops IH]; intros Hwf; [constructor|].
  inversion Hwf as [|? ? Ho Hops]; subst. rewrite writes_of_cons. apply Forall_app. split; [|apply IH; exact Hops].
  destruct o; cbn; constructor; try constructor. exact Ho.
Qed.

Theorem mbc2_nibbles img c0 ops addr addr' :
  cart_construct img = Ok c0 -> Forall wf_op ops ->
  ctrl_of_type (img_at img 327) = Some Mbc2 ->
  40960 <= addr < 49152 -> 40960 <= addr' < 49152 ->
  exists c v, cart_run c0 ops = Ok c /\ cart_read c addr = Ok v /\
    (ram_enabled Mbc2 (writes_of ops) = true -> 240 <= v < 256) /\
    ((addr - 40960) mod 512 = (addr' - 40960) mod 512 -> cart_read c addr' = Ok v).
Proof.
  intros Hc Hwf Hk Ha Ha'.
  destruct (ram_refines img c0 ops Hc Hwf) as (k & c & Hk' & Er & Hrd & _).
  rewrite Hk in Hk'. injection Hk' as <-. cbv zeta in Hrd.
  pose proof (Hrd addr Ha) as G. pose proof (Hrd addr' Ha') as G'.
  assert (Eh : forall ws s, rs_hist (fold_left (ramspec_write Mbc2 (spec_nram Mbc2 (img_at img 329))) ws s) = rs_hist s ++ ws).
  { induction ws as [|w ws IH]; intros s; cbn [fold_left]; [rewrite app_nil_r; reflexivity|].
    rewrite IH, rs_hist_write, <- app_assoc. reflexivity. }
  unfold ramspec_read in G, G'. unfold ramspec_run in G, G'. rewrite Eh in G, G'. cbn [rs_hist ramspec_init app] in G, G'.
  cbn [ram_target cell] in G, G'.
  pose proof (mbc2_store_nibble (spec_nram Mbc2 (img_at img 329)) (writes_of ops) (writes_of_bytes _ Hwf)) as Hn.
  unfold ramspec_run in Hn.
  destruct (ram_enabled Mbc2 (writes_of ops)) eqn:Ee.
  - eexists c, _. split; [exact Er|]. split; [exact G|]. split; [intros _; apply Hn|].
    intros Em. rewrite Em. exact G'.
  - exists c, 255. split; [exact Er|]. split; [exact G|]. split; [discriminate|]. intros _. exact G'.
Qed.

Theorem romonly_ff img c0 ops addr :
  cart_construct img = Ok c0 -> Forall wf_op ops ->
  ctrl_of_type (img_at img 327) = Some RomOnly -> 40960 <= addr < 49152 ->
  exists c, cart_run c0 ops = Ok c /\ cart_read c addr = Ok 255 /\ cart_dump c = [].
Proof.
  intros Hc Hwf Hk Ha.
  destruct (ram_refines img c0 ops Hc Hwf) as (k & c & Hk' & Er & Hrd & Hlen & _).
  rewrite Hk in Hk'. injection Hk' as <-. cbv zeta in Hrd, Hlen.
  exists c. split; [exact Er|]. split.
  - pose proof (Hrd addr Ha) as G. unfold ramspec_read in G.
    destruct (ram_enabled RomOnly _); exact G.
  - cbn [dump_len] in Hlen. destruct (cart_dump c); [reflexivity|discriminate].
Qed.

Theorem disabled_ff img c0 ops addr :
  cart_construct img = Ok c0 -> Forall wf_op ops -> 40960 <= addr < 49152 ->
  exists k c, ctrl_of_type (img_at img 327) = Some k /\ cart_run c0 ops = Ok c /\
    (ram_enabled k (writes_of ops) = false -> cart_read c addr = Ok 255).
Proof.
  intros Hc Hwf Ha.
  destruct (ram_refines img c0 ops Hc Hwf) as (k & c & Hk' & Er & Hrd & _).
  exists k, c. split; [exact Hk'|]. split; [exact Er|]. intros Hd. cbv zeta in Hrd.
  pose proof (Hrd addr Ha) as G. unfold ramspec_read in G.
  assert (Eh : forall ws s, rs_hist (fold_left (ramspec_write k (spec_nram k (img_at img 329))) ws s) = rs_hist s ++ ws).
  { induction ws as [|w ws IH]; intros s; cbn [fold_left]; [rewrite app_nil_r; reflexivity|].
    rewrite IH, rs_hist_write, <- app_assoc. reflexivity. }
  unfold ramspec_run in G. rewrite Eh in G. cbn [rs_hist ramspec_init app] in G. rewrite Hd in G. exact G.
Qed.
