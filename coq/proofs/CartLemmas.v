(* CartLemmas.v — helper lemmas for the cartridge proofs: bit operations as arithmetic, the result monad,
   "last write" registers under history extension. *)
From Coq Require Import ZArith ZifyN ZifyNat ZifyBool.
From V.lib Require Import Bits Mem Res.
From V.model Require Import Rtc Cart.
From V.spec Require Import CartSpec.

(* ---- bit operations ---- *)
Lemma land_ones_mod v k : N.land v (N.ones k) = v mod 2 ^ k.
Proof. apply N.land_ones. Qed.

Lemma land3 v : N.land v 3 = v mod 4.    Proof. exact (land_ones_mod v 2). Qed.
Lemma land1 v : N.land v 1 = v mod 2.    Proof. exact (land_ones_mod v 1). Qed.
Lemma land15 v : N.land v 15 = v mod 16.  Proof. exact (land_ones_mod v 4). Qed.
Lemma land31 v : N.land v 31 = v mod 32.  Proof. exact (land_ones_mod v 5). Qed.
Lemma land63 v : N.land v 63 = v mod 64.  Proof. exact (land_ones_mod v 6). Qed.
Lemma land127 v : N.land v 127 = v mod 128. Proof. exact (land_ones_mod v 7). Qed.
Lemma land255 v : N.land v 255 = v mod 256. Proof. exact (land_ones_mod v 8). Qed.
Lemma land511 v : N.land v 511 = v mod 512. Proof. exact (land_ones_mod v 9). Qed.

Lemma enable_value_spec v : enable_value v = (v mod 16 =? 10).
Proof. unfold enable_value. rewrite land15. reflexivity. Qed.

(* x & 2^k is 2^k or 0 according to bit k *)
Lemma land_pow2 a k : N.land a (2 ^ k) = if N.testbit a k then 2 ^ k else 0.
Proof.
  apply N.bits_inj. intros n. rewrite N.land_spec, N.pow2_bits_eqb.
  destruct (N.eqb_spec k n) as [->|Hne].
  - destruct (N.testbit a n); [rewrite N.pow2_bits_true; reflexivity | rewrite N.bits_0; reflexivity].
  - rewrite andb_false_r. destruct (N.testbit a k); [rewrite N.pow2_bits_false by exact Hne | rewrite N.bits_0]; reflexivity.
Qed.

Lemma land256_a8 a : (N.land a 256 =? 0) = negb (a8 a).
Proof.
  unfold a8. change 256 with (2 ^ 8). rewrite land_pow2. destruct (N.testbit a 8); reflexivity.
Qed.

(* MBC1: bank1 | bank2<<5 *)
Lemma mbc1_combine_sweep :
  forallb (fun b1 => forallb (fun b2 =>
     (N.lor b1 (shl8 b2 5) =? 32 * b2 + b1) && (shl8 b2 5 =? 32 * b2)) (upto 4)) (upto 32) = true.
Proof. vm_compute. reflexivity. Qed.

Lemma mbc1_combine b1 b2 : b1 < 32 -> b2 < 4 ->
  N.lor b1 (shl8 b2 5) = 32 * b2 + b1 /\ shl8 b2 5 = 32 * b2.
Proof.
  intros H1 H2.
  pose proof (sweep_upto 32 _ mbc1_combine_sweep b1 H1) as G. cbv beta in G.
  pose proof (sweep_upto 4 _ G b2 H2) as G2. cbv beta in G2.
  apply andb_prop in G2. destruct G2 as [Ga Gb]. apply N.eqb_eq in Ga, Gb. split; assumption.
Qed.

(* MBC2: value | 0xf0 *)
Lemma lor240_sweep : forallb (fun v => N.lor v 240 =? 240 + v mod 16) bytes = true.
Proof. vm_compute. reflexivity. Qed.
Lemma lor240 v : v < 256 -> N.lor v 240 = 240 + v mod 16.
Proof. intros H. apply N.eqb_eq. exact (sweep_bytes _ lor240_sweep v H). Qed.

(* MBC5: romBank & 0xff00 for a 9-bit value *)
Lemma land_ff00_sweep : forallb (fun x => N.land x 65280 =? 256 * (x / 256)) (upto 512) = true.
Proof. vm_compute. reflexivity. Qed.
Lemma land_ff00 x : x < 512 -> N.land x 65280 = 256 * (x / 256).
Proof. intros H. apply N.eqb_eq. exact (sweep_upto 512 _ land_ff00_sweep x H). Qed.

Lemma shiftl8 v : N.shiftl v 8 = 256 * v.
Proof. rewrite N.shiftl_mul_pow2. change (2 ^ 8) with 256. lia. Qed.

(* ---- result monad ---- *)
Lemma gomod_ok x y : y <> 0 -> gomod x y = Ok (x mod y).
Proof. intros H. unfold gomod. apply N.eqb_neq in H. rewrite H. reflexivity. Qed.

Lemma bind_ok {A B} (a : A) (f : A -> res B) : bind (Ok a) f = f a.
Proof. reflexivity. Qed.

(* ---- registers under history extension ---- *)
Lemma last_write_snoc p h a v :
  last_write p (h ++ [(a, v)]) = if p a then Some v else last_write p h.
Proof.
  unfold last_write. rewrite rev_app_distr. cbn [rev app find fst].
  destruct (p a); reflexivity.
Qed.

Lemma reg_snoc p d h a v : reg p d (h ++ [(a, v)]) = if p a then v else reg p d h.
Proof. unfold reg. rewrite last_write_snoc. destruct (p a); reflexivity. Qed.

Lemma reg_nil p d : reg p d [] = d.
Proof. reflexivity. Qed.

Lemma reg_never p d h : (forall a, p a = false) -> reg p d h = d.
Proof.
  intros Hp. induction h as [|[a v] h IH] using rev_ind; [reflexivity|].
  rewrite reg_snoc, Hp. exact IH.
Qed.
