(* SafeBus.v — C11, bus level: the invariant of everything but the CPU, and its preservation by Mapper.Read,
   Mapper.Write (any address below 65536, any byte) and the hardware half of a machine cycle. *)
From Coq Require Import FMapPositive.
From V.lib Require Import Bits Mem Res.
From V.model Require Import Uop Alu Cpu CpuTables Ints Joypad Timer Rtc Cart Oam PpuTiming Apu MapperTypes System.
From V.model Require Render.
From V.gen Require Import GenMapper GenFrame.
From V.spec Require LcdSpec RenderSpec.
From V.proofs Require Import SafeLemmas SafeApu SafeOam SafeCart CartSafe DmaProofs LcdLemmas LcdProofs OamProofs.
From V.proofs Require RenderProofs.
From Coq Require Import ZArith ZifyN ZifyNat ZifyBool.

(* ---------------- the generated decoders are total and stay inside the arrays ---------------- *)
Definition handler_okb (rd : bool) (h : handler) (a : N) : bool :=
  match h with
  | HPanic => false
  | HInternalRAM base => (base <=? a) && (a - base <? internalRAM_size)
  | HZeroPage base => (base <=? a) && (a - base <? zeroPage_size)
  | HVideoRAM => (0x8000 <=? a) && (a <? 0xA000)
  | HOam => (0xFE00 <=? a) && (a <=? 0xFEFF)
  | HWaveRAM => (0xFF30 <=? a) && (a <? 0xFF40)
  | HMbc => (a <? 0x8000) || ((0xA000 <=? a) && (a <? 0xC000))
  | HReg _ => 0xFF00 <=? a
  | HConstFF => 0xFF00 <=? a
  end.

Definition decoder_check (a : N) : bool :=
  handler_okb true (read_handler a) a && handler_okb false (write_handler a) a.

(* all 65,536 addresses, as 256 pages of 256 *)
Lemma decoder_sweep : forallb (fun hi => forallb (fun lo => decoder_check (hi * 256 + lo)) bytes) bytes = true.
Proof. vm_compute. reflexivity. Qed.

Lemma decoder_at a : a < 65536 -> decoder_check a = true.
Proof.
  intros Ha.
  assert (Hh : a / 256 < 256) by lia. assert (Hl : a mod 256 < 256) by lia.
  pose proof (sweep_bytes _ decoder_sweep (a / 256) Hh) as H1. cbv beta in H1.
  pose proof (sweep_bytes _ H1 (a mod 256) Hl) as H2. cbv beta in H2.
  replace (a / 256 * 256 + a mod 256) with a in H2 by lia. exact H2.
Qed.

Lemma decoder_ok a : a < 65536 ->
  handler_okb true (read_handler a) a = true /\ handler_okb false (write_handler a) a = true.
Proof. intros Ha. apply andb_prop. exact (decoder_at a Ha). Qed.

(* ---------------- the invariant ---------------- *)
Definition pal4 (q : PpuTiming.pal) : Prop :=
  PpuTiming.c0 q < 4 /\ PpuTiming.c1 q < 4 /\ PpuTiming.c2 q < 4 /\ PpuTiming.c3 q < 4.

Record ppu_bytes (p : ppu) : Prop := mkPpuBytes {
  PB_vram : bmem (p_vram p);
  PB_scx : p_scx p < 256; PB_scy : p_scy p < 256; PB_wx : p_wx p < 256; PB_wy : p_wy p < 256;
  PB_lyc : p_lyc p < 256; PB_ly : p_ly p < 256;
  PB_bgp : pal4 (p_bgp p); PB_obp0 : pal4 (p_obp0 p); PB_obp1 : pal4 (p_obp1 p)
}.

Definition timer_bytes (t : timer) : Prop := t_tima t < 256 /\ t_tma t < 256 /\ t_tac t < 256.
Definition ints_bytes (i : ints) : Prop := ie i < 256 /\ ifl i < 32.

Definition lcd_inv (p : ppu) (o : oam) : Prop := exists a, R (p, o) a /\ W (p, o) a.

Record bus_inv (s : sys) : Prop := mkBusInv {
  BI_cart : cart_ok (s_cart s);
  BI_lcd : lcd_inv (s_ppu s) (s_oam s);
  BI_ppu : ppu_bytes (s_ppu s);
  BI_oam : oam_inv (s_oam s);
  BI_apu : apu_inv (s_apu s);
  BI_wram : bmem (s_wram s);
  BI_hram : bmem (s_hram s);
  BI_timer : timer_bytes (s_timer s);
  BI_ints : ints_bytes (s_ints s)
}.

(* frame lemmas: one component replaced *)
Lemma bi_set_cart s c : bus_inv s -> cart_ok c -> bus_inv (set_cart c s).
Proof. intros [] H. destruct s; constructor; assumption. Qed.
Lemma bi_set_apu s x : bus_inv s -> apu_inv x -> bus_inv (set_apu x s).
Proof. intros [] H. destruct s; constructor; assumption. Qed.
Lemma bi_set_wram s x : bus_inv s -> bmem x -> bus_inv (set_wram x s).
Proof. intros [] H. destruct s; constructor; assumption. Qed.
Lemma bi_set_hram s x : bus_inv s -> bmem x -> bus_inv (set_hram x s).
Proof. intros [] H. destruct s; constructor; assumption. Qed.
Lemma bi_set_timer s x : bus_inv s -> timer_bytes x -> bus_inv (set_timer x s).
Proof. intros [] H. destruct s; constructor; assumption. Qed.
Lemma bi_set_ints s x : bus_inv s -> ints_bytes x -> bus_inv (set_ints x s).
Proof. intros [] H. destruct s; constructor; assumption. Qed.
Lemma bi_set_joy s x : bus_inv s -> bus_inv (set_joy x s).
Proof. intros []. destruct s; constructor; assumption. Qed.
Lemma bi_set_serial s x : bus_inv s -> bus_inv (set_serial x s).
Proof. intros []. destruct s; constructor; assumption. Qed.
Lemma bi_set_frame s x : bus_inv s -> bus_inv (set_frame x s).
Proof. intros []. destruct s; constructor; assumption. Qed.
Lemma bi_set_samples s x : bus_inv s -> bus_inv (set_samples x s).
Proof. intros []. destruct s; constructor; assumption. Qed.
Lemma bi_set_crash s x : bus_inv s -> bus_inv (set_crash x s).
Proof. intros []. destruct s; constructor; assumption. Qed.
Lemma bi_set_ppu_oam s p o : bus_inv s -> lcd_inv p o -> ppu_bytes p -> oam_inv o -> bus_inv (set_oam o (set_ppu p s)).
Proof. intros [] H1 H2 H3. destruct s; constructor; assumption. Qed.
Lemma bi_set_oam s o : bus_inv s -> lcd_inv (s_ppu s) o -> oam_inv o -> bus_inv (set_oam o s).
Proof. intros [] H1 H3. destruct s; constructor; assumption. Qed.
Lemma bi_set_ppu s p : bus_inv s -> lcd_inv p (s_oam s) -> ppu_bytes p -> bus_inv (set_ppu p s).
Proof. intros [] H1 H3. destruct s; constructor; assumption. Qed.

(* the LCD invariant does not look at the OAM cells, the DMA engine or the access flags *)
Lemma R_oam_irrel p o o' a : R (p, o) a -> R (p, o') a.
Proof. intros []. constructor; assumption. Qed.

Lemma W_env p o o' a : W (p, o) a -> o_corrupt o' = o_corrupt o -> o_ppuLastAccess o' = o_ppuLastAccess o -> W (p, o') a.
Proof.
  intros [A B C] E1 E2. constructor; cbn [fst snd] in *; [rewrite E1; exact A| |exact C].
  intros X. unfold pla_in_oam. rewrite E2. apply B, X.
Qed.

Lemma lcd_inv_env p o o' : lcd_inv p o -> o_corrupt o' = o_corrupt o -> o_ppuLastAccess o' = o_ppuLastAccess o -> lcd_inv p o'.
Proof. intros (a & HR & HW) E1 E2. exists a. split; [eapply R_oam_irrel, HR|eapply W_env; eassumption]. Qed.

(* ---------------- register reads are bytes ---------------- *)
Lemma joy_read_byte j : joy_read j < 256.
Proof.
  unfold joy_read. apply lor256; [apply lor256|lia]; [apply land256_r; lia|].
  destruct (N.land (joyp j) 16 =? 0); destruct (N.land (joyp j) 32 =? 0);
    repeat first [apply land256_l; lia | apply land256_l | lia].
Qed.

Lemma pal_byte_lt q : pal_byte q < 256. Proof. unfold pal_byte, u8. lia. Qed.

Lemma reg_read_byte r s : bus_inv s -> reg_read r s < 256.
Proof.
  intros [_ _ PB OI AI _ _ (T1 & T2 & T3) (I1 & I2)].
  destruct r; cbn [reg_read]; try lia.
  - apply joy_read_byte.
  - unfold timer_read_div, u8. lia.
  - exact T1.
  - exact T2.
  - unfold timer_read_tac. apply lor256; [exact T3|lia].
  - unfold ints_read_if. lia.
  - exact (apu_read_byte _ 0xFF10 AI).
  - exact (apu_read_byte _ 0xFF11 AI).
  - exact (apu_read_byte _ 0xFF12 AI).
  - exact (apu_read_byte _ 0xFF13 AI).
  - exact (apu_read_byte _ 0xFF14 AI).
  - exact (apu_read_byte _ 0xFF16 AI).
  - exact (apu_read_byte _ 0xFF17 AI).
  - exact (apu_read_byte _ 0xFF18 AI).
  - exact (apu_read_byte _ 0xFF19 AI).
  - exact (apu_read_byte _ 0xFF1A AI).
  - exact (apu_read_byte _ 0xFF1B AI).
  - exact (apu_read_byte _ 0xFF1C AI).
  - exact (apu_read_byte _ 0xFF1D AI).
  - exact (apu_read_byte _ 0xFF1E AI).
  - exact (apu_read_byte _ 0xFF20 AI).
  - exact (apu_read_byte _ 0xFF21 AI).
  - exact (apu_read_byte _ 0xFF22 AI).
  - exact (apu_read_byte _ 0xFF23 AI).
  - exact (apu_read_byte _ 0xFF24 AI).
  - exact (apu_read_byte _ 0xFF25 AI).
  - exact (apu_read_byte _ 0xFF26 AI).
  - unfold ppu_read_lcdc, u8. lia.
  - unfold ppu_read_stat, u8. lia.
  - apply PB.
  - apply PB.
  - apply PB.
  - apply PB.
  - apply OI.
  - apply pal_byte_lt.
  - unfold ppu_read_obp0, u8. lia.
  - unfold ppu_read_obp1, u8. lia.
  - apply PB.
  - apply PB.
  - exact I1.
Qed.

(* ---------------- register writes ---------------- *)
Lemma lcd_inv_write p o (r : LcdSpec.reg) v :
  lcd_inv p o -> lcd_inv (fst (ppu_write_reg (addr_of r) p o v)) (snd (ppu_write_reg (addr_of r) p o v)).
Proof.
  intros (a & HR & HW).
  set (e := @LcdSpec.Write (oam -> oam) r v).
  destruct (R_step (p, o) a e HR) as (s' & Hs & HR').
  pose proof (W_step (p, o) a e s' HR HW I Hs) as HW'.
  cbn [op_of ppu_step fst snd e] in Hs. inversion Hs; subst s'.
  exists (LcdSpec.lcd_step a e).
  destruct (ppu_write_reg (addr_of r) p o v). split; assumption.
Qed.

Lemma two_lt4 v k : two v k < 4.
Proof. unfold two. pose proof (land_lt_pow2_r (N.shiftr v k) 3 2) as Q. change (2 ^ 2) with 4 in Q. apply Q. lia. Qed.
Lemma land3_lt4 v : N.land v 3 < 4.
Proof. pose proof (land_lt_pow2_r v 3 2) as Q. change (2 ^ 2) with 4 in Q. apply Q. lia. Qed.

Lemma ppu_bytes_lcdc p o v : ppu_bytes p -> ppu_bytes (fst (ppu_write_lcdc p o v)).
Proof.
  intros []. unfold ppu_write_lcdc, ppu_enable, ppu_disable.
  destruct (tb v 128 && negb (p_enabled p)); [|destruct (negb (tb v 128) && p_enabled p)];
    cbn [fst]; destruct p; constructor; cbn in *; try assumption; lia.
Qed.

Lemma oam_inv_lcdc p o v : oam_inv o -> oam_inv (snd (ppu_write_lcdc p o v)).
Proof.
  intros H. unfold ppu_write_lcdc, ppu_enable, ppu_disable, oam_enter_mode2, oam_exit_mode2.
  destruct (tb v 128 && negb (p_enabled p)); [|destruct (negb (tb v 128) && p_enabled p)]; cbn [snd];
    first [exact H | apply (same_engine_inv _ _ (se_corrupt _ _) H)].
Qed.

Lemma reg_write_inv r s v : bus_inv s -> v < 256 -> bus_inv (reg_write r s v).
Proof.
  intros H Hv. pose proof H as [CI LI PB OI AI WI HI (T1 & T2 & T3) (I1 & I2)].
  destruct r; cbn [reg_write]; unfold apu_w, ppu_w.
  - apply bi_set_joy, H.
  - destruct (s_ser_attached s); [apply bi_set_serial, H|exact H].
  - exact H.
  - apply bi_set_timer; [exact H|]. unfold timer_write_div, timer_set_counter, timer_bytes; cbn. auto.
  - apply bi_set_timer; [exact H|]. unfold timer_write_tima, timer_bytes.
    destruct (t_phase (s_timer s) =? phase_reload); cbn; auto.
  - apply bi_set_timer; [exact H|]. unfold timer_write_tma, timer_bytes; cbn.
    destruct (t_phase (s_timer s) =? phase_reload); auto.
  - apply bi_set_timer; [exact H|]. unfold timer_write_tac, timer_bytes; cbn. auto.
  - apply bi_set_ints; [exact H|]. unfold ints_write_if, ints_bytes; cbn. split; [exact I1|].
    pose proof (land_lt_pow2_r v 31 5) as Q. change (2 ^ 5) with 32 in Q. apply Q. lia.
  - apply bi_set_apu; [exact H|apply W10_inv; assumption].
  - apply bi_set_apu; [exact H|apply W11_inv; assumption].
  - apply bi_set_apu; [exact H|apply W12_inv; assumption].
  - apply bi_set_apu; [exact H|apply W13_inv; assumption].
  - apply bi_set_apu; [exact H|apply W14_inv; assumption].
  - apply bi_set_apu; [exact H|apply W21_inv; assumption].
  - apply bi_set_apu; [exact H|apply W22_inv; assumption].
  - apply bi_set_apu; [exact H|apply W23_inv; assumption].
  - apply bi_set_apu; [exact H|apply W24_inv; assumption].
  - apply bi_set_apu; [exact H|apply W30_inv; assumption].
  - apply bi_set_apu; [exact H|apply W31_inv; assumption].
  - apply bi_set_apu; [exact H|apply W32_inv; assumption].
  - apply bi_set_apu; [exact H|apply W33_inv; assumption].
  - apply bi_set_apu; [exact H|apply W34_inv; assumption].
  - apply bi_set_apu; [exact H|apply W41_inv; assumption].
  - apply bi_set_apu; [exact H|apply W42_inv; assumption].
  - apply bi_set_apu; [exact H|apply W43_inv; assumption].
  - apply bi_set_apu; [exact H|apply W44_inv; assumption].
  - apply bi_set_apu; [exact H|apply W50_inv; assumption].
  - apply bi_set_apu; [exact H|apply W51_inv; assumption].
  - apply bi_set_apu; [exact H|apply W52_inv; assumption].
  - (* LCDC *)
    cbv zeta. apply bi_set_ppu_oam; [exact H| | |].
    + exact (lcd_inv_write _ _ LcdSpec.LCDC v LI).
    + apply ppu_bytes_lcdc, PB.
    + apply oam_inv_lcdc, OI.
  - apply bi_set_ppu; [exact H|exact (lcd_inv_write _ _ LcdSpec.STAT v LI)|]. destruct PB. destruct (s_ppu s); constructor; assumption.
  - apply bi_set_ppu; [exact H|exact (lcd_inv_write _ _ LcdSpec.SCY v LI)|]. destruct PB. destruct (s_ppu s); constructor; assumption.
  - apply bi_set_ppu; [exact H|exact (lcd_inv_write _ _ LcdSpec.SCX v LI)|]. destruct PB. destruct (s_ppu s); constructor; assumption.
  - apply bi_set_ppu; [exact H|exact (lcd_inv_write _ _ LcdSpec.LY v LI)|]. destruct PB. destruct (s_ppu s); constructor; cbn in *; try assumption; lia.
  - apply bi_set_ppu; [exact H|exact (lcd_inv_write _ _ LcdSpec.LYC v LI)|]. destruct PB. destruct (s_ppu s); constructor; assumption.
  - (* DMA *)
    apply bi_set_oam; [exact H| |apply oam_write_dma_inv; assumption].
    apply (lcd_inv_env _ _ _ LI); reflexivity.
  - apply bi_set_ppu; [exact H|exact (lcd_inv_write _ _ LcdSpec.BGP v LI)|]. destruct PB. destruct (s_ppu s); constructor; cbn in *; try assumption.
    repeat split; first [apply land3_lt4 | apply two_lt4].
  - apply bi_set_ppu; [exact H|exact (lcd_inv_write _ _ LcdSpec.OBP0 v LI)|]. destruct PB. destruct (s_ppu s); constructor; cbn in *; try assumption.
    destruct PB_obp2 as (? & ? & ? & ?). repeat split; first [assumption | apply two_lt4].
  - apply bi_set_ppu; [exact H|exact (lcd_inv_write _ _ LcdSpec.OBP1 v LI)|]. destruct PB. destruct (s_ppu s); constructor; cbn in *; try assumption.
    destruct PB_obp3 as (? & ? & ? & ?). repeat split; first [assumption | apply two_lt4].
  - apply bi_set_ppu; [exact H|exact (lcd_inv_write _ _ LcdSpec.WY v LI)|]. destruct PB. destruct (s_ppu s); constructor; assumption.
  - apply bi_set_ppu; [exact H|exact (lcd_inv_write _ _ LcdSpec.WX v LI)|]. destruct PB. destruct (s_ppu s); constructor; assumption.
  - apply bi_set_ints; [exact H|]. unfold ints_write_ie, ints_bytes; cbn. auto.
Qed.

(* ---------------- Mapper.Read / Mapper.Write ---------------- *)
Lemma oam_read_ok o a : 0xFE00 <= a -> a <= 0xFEFF -> exists o' v, oam_read o a = Ok (o', v).
Proof.
  intros H1 H2. unfold oam_read. destruct (o_dmaRunning o); [eexists; eexists; reflexivity|].
  destruct (0xFEA0 <=? a) eqn:E; [eexists; eexists; reflexivity|].
  unfold get8, oam_size, sub16. change 0xFE00 with 65024 in *. change 0xFEA0 with 65184 in *.
  assert (X : ((a + 65536 - 65024 mod 65536) mod 65536 <? 160) = true) by lia.
  destruct (o_corrupt o); cbn [o_mem set_flags]; rewrite X; cbn [bind]; eexists; eexists; reflexivity.
Qed.

Lemma oam_write_ok o a v : 0xFE00 <= a -> a <= 0xFEFF -> exists o', oam_write o a v = Ok o'.
Proof.
  intros H1 H2. unfold oam_write.
  destruct (a <? 0xFEA0) eqn:E; [|eexists; reflexivity].
  unfold put8, oam_size, sub16. change 0xFE00 with 65024 in *. change 0xFEA0 with 65184 in *.
  assert (X : ((a + 65536 - 65024 mod 65536) mod 65536 <? 160) = true) by lia.
  rewrite X. cbn [bind]. eexists; reflexivity.
Qed.

(* what a read may change: the three access flags of the OAM component, nothing else *)
Definition only_oam_flags (s s' : sys) : Prop :=
  exists o', s' = set_oam o' s /\ same_engine (s_oam s) o' /\
             o_corrupt o' = o_corrupt (s_oam s) /\ o_ppuLastAccess o' = o_ppuLastAccess (s_oam s).

Lemma only_oam_flags_refl s : only_oam_flags s s.
Proof. exists (s_oam s). split; [destruct s; reflexivity|]. split; [apply se_refl|auto]. Qed.

Lemma oam_read_engine o a o' v : oam_read o a = Ok (o', v) -> same_engine o o'.
Proof.
  unfold oam_read. destruct (o_dmaRunning o); [intros X; inversion X; apply se_refl|].
  destruct (o_corrupt o); (destruct (0xFEA0 <=? a); [intros X; inversion X; subst; first [apply se_flags|apply se_refl]|]);
    match goal with |- context [get8 ?m ?i] => destruct (get8 m i) end; cbn [bind]; intros X; inversion X; subst;
    first [apply se_flags|apply se_refl].
Qed.

Theorem sys_read_safe s a : bus_inv s -> a < 65536 ->
  exists s' v, sys_read s a = Ok (s', v) /\ v < 256 /\ bus_inv s' /\ only_oam_flags s s'.
Proof.
  intros H Ha. destruct (decoder_ok a Ha) as [D _]. unfold sys_read.
  assert (Same : forall v, v < 256 -> exists s' v', Ok (s, v) = Ok (s', v') /\ v' < 256 /\ bus_inv s' /\ only_oam_flags s s').
  { intros v Hv. exists s, v. split; [reflexivity|]. split; [exact Hv|]. split; [exact H|apply only_oam_flags_refl]. }
  destruct (read_handler a) eqn:E; cbn [handler_okb] in D.
  - destruct (cart_ok_read _ a (BI_cart _ H)) as (v & Ev & Hv). rewrite Ev. cbn [bind]. apply Same, Hv.
  - unfold ppu_read_vram. assert (X : (sub16 a 0x8000 <? 0x2000) = true) by (unfold sub16; lia).
    rewrite X. cbn [bind]. apply Same. apply (PB_vram _ (BI_ppu _ H)).
  - unfold arr_get. assert (X : (a - base <? internalRAM_size) = true) by lia. rewrite X. cbn [bind].
    apply Same. apply (BI_wram _ H).
  - destruct (oam_read_ok (s_oam s) a) as (o' & v & Ev); [lia|lia|]. rewrite Ev. cbn [bind fst snd].
    destruct (oam_read_inv _ _ _ _ Ev (BI_oam _ H)) as [Ho Hv]. destruct (read_env _ _ _ _ Ev) as [C1 C2].
    exists (set_oam o' s), v. split; [reflexivity|]. split; [exact Hv|]. split.
    + apply bi_set_oam; [exact H|apply (lcd_inv_env _ _ _ (BI_lcd _ H)); assumption|exact Ho].
    + exists o'. split; [reflexivity|]. split; [eapply oam_read_engine, Ev|auto].
  - apply Same. apply reg_read_byte, H.
  - apply Same. lia.
  - destruct (apu_wave_read_safe _ a (BI_apu _ H)) as (v & Ev & Hv). rewrite Ev. cbn [bind]. apply Same, Hv.
  - unfold arr_get. assert (X : (a - base <? zeroPage_size) = true) by lia. rewrite X. cbn [bind].
    apply Same. apply (BI_hram _ H).
  - discriminate D.
Qed.

Theorem sys_write_safe s a v : bus_inv s -> a < 65536 -> v < 256 ->
  exists s', sys_write s a v = Ok s' /\ bus_inv s'.
Proof.
  intros H Ha Hv. destruct (decoder_ok a Ha) as [_ D]. unfold sys_write.
  destruct (write_handler a) eqn:E; cbn [handler_okb] in D.
  - destruct (cart_ok_write _ a v (BI_cart _ H) Hv) as (c' & Ec & Hc). rewrite Ec. cbn [bind].
    eexists; split; [reflexivity|apply bi_set_cart; assumption].
  - unfold ppu_write_vram. assert (X : (sub16 a 0x8000 <? 0x2000) = true) by (unfold sub16; lia).
    rewrite X. cbn [bind]. eexists; split; [reflexivity|].
    apply bi_set_ppu; [exact H| |].
    + destruct (BI_lcd _ H) as (x & HR & HW). exists x. destruct HR, HW. split; constructor; assumption.
    + destruct (BI_ppu _ H). destruct (s_ppu s); constructor; cbn in *; try assumption. apply bmem_set; assumption.
  - unfold arr_set. assert (X : (a - base <? internalRAM_size) = true) by lia. rewrite X. cbn [bind].
    eexists; split; [reflexivity|apply bi_set_wram; [exact H|apply bmem_set; [apply (BI_wram _ H)|exact Hv]]].
  - destruct (oam_write_ok (s_oam s) a v) as (o' & Eo); [lia|lia|]. rewrite Eo. cbn [bind].
    destruct (write_env _ _ _ _ Eo) as [C1 C2].
    eexists; split; [reflexivity|].
    apply bi_set_oam; [exact H|apply (lcd_inv_env _ _ _ (BI_lcd _ H)); assumption|].
    eapply oam_write_inv; [exact Eo|apply (BI_oam _ H)|exact Hv].
  - eexists; split; [reflexivity|apply reg_write_inv; assumption].
  - eexists; split; [reflexivity|exact H].
  - destruct (apu_wave_write_safe _ a v (BI_apu _ H) Hv) as (x & Ex & Hx). rewrite Ex. cbn [bind].
    eexists; split; [reflexivity|apply bi_set_apu; assumption].
  - unfold arr_set. assert (X : (a - base <? zeroPage_size) = true) by lia. rewrite X. cbn [bind].
    eexists; split; [reflexivity|apply bi_set_hram; [exact H|apply bmem_set; [apply (BI_hram _ H)|exact Hv]]].
  - discriminate D.
Qed.
