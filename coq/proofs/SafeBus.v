(* SafeBus.v — C11, bus level: the invariant of everything but the CPU, and its preservation by Mapper.Read,
   Mapper.Write (any address below 65536, any byte) and the hardware half of a machine cycle. *)
From Coq Require Import FMapPositive.
From V.lib Require Import Bits Mem Res.
From V.model Require Import Uop Alu Cpu CpuTables Ints Joypad Timer Rtc Cart Oam PpuTiming Apu MapperTypes System.
From V.model Require Render.
From V.gen Require Import GenMapper GenFrame.
From V.spec Require LcdSpec RenderSpec.
From V.proofs Require Import SafeLemmas SafeApu SafeOam SafeCart CartSafe DmaProofs LcdLemmas LcdProofs OamProofs.
From V.proofs Require RenderProofs.
From Coq Require Import ZArith ZifyN ZifyNat ZifyBool.

(* ---------------- the generated decoders are total and stay inside the arrays ---------------- *)
(* the documented address of every I/O register *)
Definition reg_addr (r : ioreg) : N :=
  match r with
  | R_JOYP => 0xFF00 | R_SB => 0xFF01 | R_SC => 0xFF02 | R_DIV => 0xFF04 | R_TIMA => 0xFF05 | R_TMA => 0xFF06 | R_TAC => 0xFF07
  | R_IF => 0xFF0F
  | R_NR10 => 0xFF10 | R_NR11 => 0xFF11 | R_NR12 => 0xFF12 | R_NR13 => 0xFF13 | R_NR14 => 0xFF14
  | R_NR21 => 0xFF16 | R_NR22 => 0xFF17 | R_NR23 => 0xFF18 | R_NR24 => 0xFF19
  | R_NR30 => 0xFF1A | R_NR31 => 0xFF1B | R_NR32 => 0xFF1C | R_NR33 => 0xFF1D | R_NR34 => 0xFF1E
  | R_NR41 => 0xFF20 | R_NR42 => 0xFF21 | R_NR43 => 0xFF22 | R_NR44 => 0xFF23
  | R_NR50 => 0xFF24 | R_NR51 => 0xFF25 | R_NR52 => 0xFF26
  | R_LCDC => 0xFF40 | R_STAT => 0xFF41 | R_SCY => 0xFF42 | R_SCX => 0xFF43 | R_LY => 0xFF44 | R_LYC => 0xFF45
  | R_DMA => 0xFF46 | R_BGP => 0xFF47 | R_OBP0 => 0xFF48 | R_OBP1 => 0xFF49 | R_WY => 0xFF4A | R_WX => 0xFF4B
  | R_IE => 0xFFFF
  end.

Definition handler_okb (rd : bool) (h : handler) (a : N) : bool :=
  match h with
  | HPanic => false
  | HInternalRAM base => (base <=? a) && (a - base <? internalRAM_size)
  | HZeroPage base => (base <=? a) && (a - base <? zeroPage_size)
  | HVideoRAM => (0x8000 <=? a) && (a <? 0xA000)
  | HOam => (0xFE00 <=? a) && (a <=? 0xFEFF)
  | HWaveRAM => (0xFF30 <=? a) && (a <? 0xFF40)
  | HMbc => (a <? 0x8000) || ((0xA000 <=? a) && (a <? 0xC000))
  | HReg r => a =? reg_addr r
  | HConstFF => 0xFF00 <=? a
  end.

Definition decoder_check (a : N) : bool :=
  handler_okb true (read_handler a) a && handler_okb false (write_handler a) a.

(* all 65,536 addresses, as 256 pages of 256 *)
Lemma decoder_sweep : forallb (fun hi => forallb (fun lo => decoder_check (hi * 256 + lo)) bytes) bytes = true.
Proof. vm_compute. reflexivity. Qed.

Lemma decoder_at a : a < 65536 -> decoder_check a = true.
Proof.
  intros Ha.
  assert (Hh : a / 256 < 256) by lia. assert (Hl : a mod 256 < 256) by lia.
  pose proof (sweep_bytes _ decoder_sweep (a / 256) Hh) as H1. cbv beta in H1.
  pose proof (sweep_bytes _ H1 (a mod 256) Hl) as H2. cbv beta in H2.
  replace (a / 256 * 256 + a mod 256) with a in H2 by lia. exact H2.
Qed.

Lemma decoder_ok a : a < 65536 ->
  handler_okb true (read_handler a) a = true /\ handler_okb false (write_handler a) a = true.
Proof. intros Ha. apply andb_prop. exact (decoder_at a Ha). Qed.

(* ---------------- the invariant ---------------- *)
Definition pal4 (q : PpuTiming.pal) : Prop :=
  PpuTiming.c0 q < 4 /\ PpuTiming.c1 q < 4 /\ PpuTiming.c2 q < 4 /\ PpuTiming.c3 q < 4.

Record ppu_bytes (p : ppu) : Prop := mkPpuBytes {
  PB_vram : bmem (p_vram p);
  PB_scx : p_scx p < 256; PB_scy : p_scy p < 256; PB_wx : p_wx p < 256; PB_wy : p_wy p < 256;
  PB_lyc : p_lyc p < 256; PB_ly : p_ly p < 256;
  PB_bgp : pal4 (p_bgp p); PB_obp0 : pal4 (p_obp0 p); PB_obp1 : pal4 (p_obp1 p)
}.

Definition timer_bytes (t : timer) : Prop := t_tima t < 256 /\ t_tma t < 256 /\ t_tac t < 256.
Definition ints_bytes (i : ints) : Prop := ie i < 256 /\ ifl i < 32.

Definition lcd_inv (p : ppu) (o : oam) : Prop := exists a, R (p, o) a /\ W (p, o) a.

Record bus_inv (s : sys) : Prop := mkBusInv {
  BI_cart : cart_ok (s_cart s);
  BI_lcd : lcd_inv (s_ppu s) (s_oam s);
  BI_ppu : ppu_bytes (s_ppu s);
  BI_oam : oam_inv (s_oam s);
  BI_apu : apu_inv (s_apu s);
  BI_wram : bmem (s_wram s);
  BI_hram : bmem (s_hram s);
  BI_timer : timer_bytes (s_timer s);
  BI_ints : ints_bytes (s_ints s)
}.

(* frame lemmas: one component replaced *)
Lemma bi_set_cart s c : bus_inv s -> cart_ok c -> bus_inv (set_cart c s).
Proof. intros [] H. destruct s; constructor; assumption. Qed.
Lemma bi_set_apu s x : bus_inv s -> apu_inv x -> bus_inv (set_apu x s).
Proof. intros [] H. destruct s; constructor; assumption. Qed.
Lemma bi_set_wram s x : bus_inv s -> bmem x -> bus_inv (set_wram x s).
Proof. intros [] H. destruct s; constructor; assumption. Qed.
Lemma bi_set_hram s x : bus_inv s -> bmem x -> bus_inv (set_hram x s).
Proof. intros [] H. destruct s; constructor; assumption. Qed.
Lemma bi_set_timer s x : bus_inv s -> timer_bytes x -> bus_inv (set_timer x s).
Proof. intros [] H. destruct s; constructor; assumption. Qed.
Lemma bi_set_ints s x : bus_inv s -> ints_bytes x -> bus_inv (set_ints x s).
Proof. intros [] H. destruct s; constructor; assumption. Qed.
Lemma bi_set_joy s x : bus_inv s -> bus_inv (set_joy x s).
Proof. intros []. destruct s; constructor; assumption. Qed.
Lemma bi_set_serial s x : bus_inv s -> bus_inv (set_serial x s).
Proof. intros []. destruct s; constructor; assumption. Qed.
Lemma bi_set_frame s x : bus_inv s -> bus_inv (set_frame x s).
Proof. intros []. destruct s; constructor; assumption. Qed.
Lemma bi_set_samples s x : bus_inv s -> bus_inv (set_samples x s).
Proof. intros []. destruct s; constructor; assumption. Qed.
Lemma bi_set_crash s x : bus_inv s -> bus_inv (set_crash x s).
Proof. intros []. destruct s; constructor; assumption. Qed.
Lemma bi_set_ppu_oam s p o : bus_inv s -> lcd_inv p o -> ppu_bytes p -> oam_inv o -> bus_inv (set_oam o (set_ppu p s)).
Proof. intros [] H1 H2 H3. destruct s; constructor; assumption. Qed.
Lemma bi_set_oam s o : bus_inv s -> lcd_inv (s_ppu s) o -> oam_inv o -> bus_inv (set_oam o s).
Proof. intros [] H1 H3. destruct s; constructor; assumption. Qed.
Lemma bi_set_ppu s p : bus_inv s -> lcd_inv p (s_oam s) -> ppu_bytes p -> bus_inv (set_ppu p s).
Proof. intros [] H1 H3. destruct s; constructor; assumption. Qed.

(* the LCD invariant does not look at the OAM cells, the DMA engine or the access flags *)
Lemma R_oam_irrel p o o' a : R (p, o) a -> R (p, o') a.
Proof. intros []. constructor; assumption. Qed.

Lemma W_env p o o' a : W (p, o) a -> o_corrupt o' = o_corrupt o -> o_ppuLastAccess o' = o_ppuLastAccess o -> W (p, o') a.
Proof.
  intros [A B C] E1 E2. constructor; cbn [fst snd] in *; [rewrite E1; exact A| |exact C].
  intros X. unfold pla_in_oam. rewrite E2. apply B, X.
Qed.

Lemma lcd_inv_env p o o' : lcd_inv p o -> o_corrupt o' = o_corrupt o -> o_ppuLastAccess o' = o_ppuLastAccess o -> lcd_inv p o'.
Proof. intros (a & HR & HW) E1 E2. exists a. split; [eapply R_oam_irrel, HR|eapply W_env; eassumption]. Qed.

(* ---------------- register reads are bytes ---------------- *)
Lemma joy_read_byte j : joy_read j < 256.
Proof.
  unfold joy_read. apply lor256; [apply lor256|lia]; [apply land256_r; lia|].
  destruct (N.land (joyp j) 16 =? 0); destruct (N.land (joyp j) 32 =? 0);
    repeat first [apply land256_l; lia | apply land256_l | lia].
Qed.

Lemma pal_byte_lt q : pal_byte q < 256. Proof. unfold pal_byte, u8. lia. Qed.

Lemma reg_read_byte r s : bus_inv s -> reg_read r s < 256.
Proof.
  intros [_ _ PB OI AI _ _ (T1 & T2 & T3) (I1 & I2)].
  destruct r; cbn [reg_read]; try lia.
  - apply joy_read_byte.
  - unfold timer_read_div, u8. lia.
  - exact T1.
  - exact T2.
  - unfold timer_read_tac. apply lor256; [exact T3|lia].
  - unfold ints_read_if. lia.
  - exact (apu_read_byte _ 0xFF10 AI).
  - exact (apu_read_byte _ 0xFF11 AI).
  - exact (apu_read_byte _ 0xFF12 AI).
  - exact (apu_read_byte _ 0xFF13 AI).
  - exact (apu_read_byte _ 0xFF14 AI).
  - exact (apu_read_byte _ 0xFF16 AI).
  - exact (apu_read_byte _ 0xFF17 AI).
  - exact (apu_read_byte _ 0xFF18 AI).
  - exact (apu_read_byte _ 0xFF19 AI).
  - exact (apu_read_byte _ 0xFF1A AI).
  - exact (apu_read_byte _ 0xFF1B AI).
  - exact (apu_read_byte _ 0xFF1C AI).
  - exact (apu_read_byte _ 0xFF1D AI).
  - exact (apu_read_byte _ 0xFF1E AI).
  - exact (apu_read_byte _ 0xFF20 AI).
  - exact (apu_read_byte _ 0xFF21 AI).
  - exact (apu_read_byte _ 0xFF22 AI).
  - exact (apu_read_byte _ 0xFF23 AI).
  - exact (apu_read_byte _ 0xFF24 AI).
  - exact (apu_read_byte _ 0xFF25 AI).
  - exact (apu_read_byte _ 0xFF26 AI).
  - unfold ppu_read_lcdc, u8. lia.
  - unfold ppu_read_stat, u8. lia.
  - apply PB.
  - apply PB.
  - apply PB.
  - apply PB.
  - apply OI.
  - apply pal_byte_lt.
  - apply pal_byte_lt.
  - apply pal_byte_lt.
  - apply PB.
  - apply PB.
  - exact I1.
Qed.

(* ---------------- register writes ---------------- *)
Lemma lcd_inv_write p o (r : LcdSpec.reg) v :
  lcd_inv p o -> lcd_inv (fst (ppu_write_reg (addr_of r) p o v)) (snd (ppu_write_reg (addr_of r) p o v)).
Proof.
  intros (a & HR & HW).
  set (e := @LcdSpec.Write (oam -> oam) r v).
  destruct (R_step (p, o) a e HR) as (s' & Hs & HR').
  pose proof (W_step (p, o) a e s' HR HW I Hs) as HW'.
  cbn [op_of ppu_step fst snd e] in Hs. inversion Hs; subst s'.
  exists (LcdSpec.lcd_step a e).
  destruct (ppu_write_reg (addr_of r) p o v). split; assumption.
Qed.

Lemma two_lt4 v k : two v k < 4.
Proof. unfold two. pose proof (land_lt_pow2_r (N.shiftr v k) 3 2) as Q. change (2 ^ 2) with 4 in Q. apply Q. lia. Qed.
Lemma land3_lt4 v : N.land v 3 < 4.
Proof. pose proof (land_lt_pow2_r v 3 2) as Q. change (2 ^ 2) with 4 in Q. apply Q. lia. Qed.

Lemma ppu_bytes_lcdc p o v : ppu_bytes p -> ppu_bytes (fst (ppu_write_lcdc p o v)).
Proof.
  intros []. unfold ppu_write_lcdc, ppu_enable, ppu_disable.
  destruct (tb v 128 && negb (p_enabled p)); [|destruct (negb (tb v 128) && p_enabled p)];
    cbn [fst]; destruct p; constructor; cbn in *; try assumption; lia.
Qed.

Lemma oam_inv_lcdc p o v : oam_inv o -> oam_inv (snd (ppu_write_lcdc p o v)).
Proof.
  intros H. unfold ppu_write_lcdc, ppu_enable, ppu_disable, oam_enter_mode2, oam_exit_mode2.
  destruct (tb v 128 && negb (p_enabled p)); [|destruct (negb (tb v 128) && p_enabled p)]; cbn [snd];
    first [exact H | apply (same_engine_inv _ _ (se_corrupt _ _) H)].
Qed.

Lemma reg_write_inv r s v : bus_inv s -> v < 256 -> bus_inv (reg_write r s v).
Proof.
  intros H Hv. pose proof H as [CI LI PB OI AI WI HI (T1 & T2 & T3) (I1 & I2)].
  destruct r; cbn [reg_write]; unfold apu_w, ppu_w.
  - apply bi_set_joy, H.
  - destruct (s_ser_attached s); [apply bi_set_serial, H|exact H].
  - exact H.
  - apply bi_set_timer; [exact H|]. unfold timer_write_div, timer_set_counter, timer_bytes; cbn. auto.
  - apply bi_set_timer; [exact H|]. unfold timer_write_tima, timer_bytes.
    destruct (t_phase (s_timer s) =? phase_reload); cbn; auto.
  - apply bi_set_timer; [exact H|]. unfold timer_write_tma, timer_bytes; cbn.
    destruct (t_phase (s_timer s) =? phase_reload); auto.
  - apply bi_set_timer; [exact H|]. unfold timer_write_tac, timer_bytes; cbn. auto.
  - apply bi_set_ints; [exact H|]. unfold ints_write_if, ints_bytes; cbn. split; [exact I1|].
    pose proof (land_lt_pow2_r v 31 5) as Q. change (2 ^ 5) with 32 in Q. apply Q. lia.
  - apply bi_set_apu; [exact H|apply W10_inv; assumption].
  - apply bi_set_apu; [exact H|apply W11_inv; assumption].
  - apply bi_set_apu; [exact H|apply W12_inv; assumption].
  - apply bi_set_apu; [exact H|apply W13_inv; assumption].
  - apply bi_set_apu; [exact H|apply W14_inv; assumption].
  - apply bi_set_apu; [exact H|apply W21_inv; assumption].
  - apply bi_set_apu; [exact H|apply W22_inv; assumption].
  - apply bi_set_apu; [exact H|apply W23_inv; assumption].
  - apply bi_set_apu; [exact H|apply W24_inv; assumption].
  - apply bi_set_apu; [exact H|apply W30_inv; assumption].
  - apply bi_set_apu; [exact H|apply W31_inv; assumption].
  - apply bi_set_apu; [exact H|apply W32_inv; assumption].
  - apply bi_set_apu; [exact H|apply W33_inv; assumption].
  - apply bi_set_apu; [exact H|apply W34_inv; assumption].
  - apply bi_set_apu; [exact H|apply W41_inv; assumption].
  - apply bi_set_apu; [exact H|apply W42_inv; assumption].
  - apply bi_set_apu; [exact H|apply W43_inv; assumption].
  - apply bi_set_apu; [exact H|apply W44_inv; assumption].
  - apply bi_set_apu; [exact H|apply W50_inv; assumption].
  - apply bi_set_apu; [exact H|apply W51_inv; assumption].
  - apply bi_set_apu; [exact H|apply W52_inv; assumption].
  - (* LCDC *)
    cbv zeta. apply bi_set_ppu_oam; [exact H| | |].
    + exact (lcd_inv_write _ _ LcdSpec.LCDC v LI).
    + apply ppu_bytes_lcdc, PB.
    + apply oam_inv_lcdc, OI.
  - apply bi_set_ppu; [exact H|exact (lcd_inv_write _ _ LcdSpec.STAT v LI)|]. destruct PB. destruct (s_ppu s); constructor; assumption.
  - apply bi_set_ppu; [exact H|exact (lcd_inv_write _ _ LcdSpec.SCY v LI)|]. destruct PB. destruct (s_ppu s); constructor; assumption.
  - apply bi_set_ppu; [exact H|exact (lcd_inv_write _ _ LcdSpec.SCX v LI)|]. destruct PB. destruct (s_ppu s); constructor; assumption.
  - apply bi_set_ppu; [exact H|exact (lcd_inv_write _ _ LcdSpec.LY v LI)|]. destruct PB. destruct (s_ppu s); constructor; cbn in *; try assumption; lia.
  - apply bi_set_ppu; [exact H|exact (lcd_inv_write _ _ LcdSpec.LYC v LI)|]. destruct PB. destruct (s_ppu s); constructor; assumption.
  - (* DMA *)
    apply bi_set_oam; [exact H| |apply oam_write_dma_inv; assumption].
    apply (lcd_inv_env _ _ _ LI); reflexivity.
  - apply bi_set_ppu; [exact H|exact (lcd_inv_write _ _ LcdSpec.BGP v LI)|]. destruct PB. destruct (s_ppu s); constructor; cbn in *; try assumption.
    repeat split; first [apply land3_lt4 | apply two_lt4].
  - apply bi_set_ppu; [exact H|exact (lcd_inv_write _ _ LcdSpec.OBP0 v LI)|]. destruct PB. destruct (s_ppu s); constructor; cbn in *; try assumption.
    repeat split; first [apply land3_lt4 | apply two_lt4].
  - apply bi_set_ppu; [exact H|exact (lcd_inv_write _ _ LcdSpec.OBP1 v LI)|]. destruct PB. destruct (s_ppu s); constructor; cbn in *; try assumption.
    repeat split; first [apply land3_lt4 | apply two_lt4].
  - apply bi_set_ppu; [exact H|exact (lcd_inv_write _ _ LcdSpec.WY v LI)|]. destruct PB. destruct (s_ppu s); constructor; assumption.
  - apply bi_set_ppu; [exact H|exact (lcd_inv_write _ _ LcdSpec.WX v LI)|]. destruct PB. destruct (s_ppu s); constructor; assumption.
  - apply bi_set_ints; [exact H|]. unfold ints_write_ie, ints_bytes; cbn. auto.
Qed.

(* ---------------- Mapper.Read / Mapper.Write ---------------- *)
Lemma oam_read_ok o a : 0xFE00 <= a -> a <= 0xFEFF -> exists o' v, oam_read o a = Ok (o', v).
Proof.
  intros H1 H2. unfold oam_read. destruct (o_dmaRunning o); [eexists; eexists; reflexivity|].
  destruct (0xFEA0 <=? a) eqn:E; [eexists; eexists; reflexivity|].
  unfold get8, oam_size, sub16. change 0xFE00 with 65024 in *. change 0xFEA0 with 65184 in *.
  assert (X : ((a + 65536 - 65024 mod 65536) mod 65536 <? 160) = true) by lia.
  destruct (o_corrupt o); cbn [o_mem set_flags]; rewrite X; cbn [bind]; eexists; eexists; reflexivity.
Qed.

Lemma oam_write_ok o a v : 0xFE00 <= a -> a <= 0xFEFF -> exists o', oam_write o a v = Ok o'.
Proof.
  intros H1 H2. unfold oam_write.
  destruct (a <? 0xFEA0) eqn:E; [|eexists; reflexivity].
  unfold put8, oam_size, sub16. change 0xFE00 with 65024 in *. change 0xFEA0 with 65184 in *.
  assert (X : ((a + 65536 - 65024 mod 65536) mod 65536 <? 160) = true) by lia.
  rewrite X. cbn [bind]. eexists; reflexivity.
Qed.

(* what a read may change: the three access flags of the OAM component, nothing else *)
Definition only_oam_flags (s s' : sys) : Prop :=
  exists o', s' = set_oam o' s /\ same_engine (s_oam s) o' /\
             o_corrupt o' = o_corrupt (s_oam s) /\ o_ppuLastAccess o' = o_ppuLastAccess (s_oam s) /\
             o_write o' = o_write (s_oam s) /\ o_doubleWrite o' = o_doubleWrite (s_oam s) /\
             (o_corrupt (s_oam s) = false -> o_read o' = o_read (s_oam s)).

Lemma only_oam_flags_refl s : only_oam_flags s s.
Proof. exists (s_oam s). split; [destruct s; reflexivity|]. split; [apply se_refl|]. repeat split; reflexivity. Qed.

Lemma oam_read_engine o a o' v : oam_read o a = Ok (o', v) -> same_engine o o'.
Proof.
  unfold oam_read. destruct (o_dmaRunning o); [intros X; inversion X; apply se_refl|].
  destruct (o_corrupt o); (destruct (0xFEA0 <=? a); [intros X; inversion X; subst; first [apply se_flags|apply se_refl]|]);
    match goal with |- context [get8 ?m ?i] => destruct (get8 m i) end; cbn [bind]; intros X; inversion X; subst;
    first [apply se_flags|apply se_refl].
Qed.

Lemma oam_read_wflags o a o' v : oam_read o a = Ok (o', v) ->
  o_write o' = o_write o /\ o_doubleWrite o' = o_doubleWrite o /\ (o_corrupt o = false -> o_read o' = o_read o).
Proof.
  unfold oam_read. destruct (o_dmaRunning o); [intros X; inversion X; auto|].
  destruct (o_corrupt o); (destruct (0xFEA0 <=? a); [intros X; inversion X; subst; cbn; auto; repeat split; auto; discriminate|]);
    match goal with |- context [get8 ?m ?i] => destruct (get8 m i) end; cbn [bind]; intros X; inversion X; subst; cbn;
    repeat split; auto; discriminate.
Qed.

Theorem sys_read_safe s a : bus_inv s -> a < 65536 ->
  exists s' v, sys_read s a = Ok (s', v) /\ v < 256 /\ bus_inv s' /\ only_oam_flags s s' /\
               (~ (0xFE00 <= a /\ a <= 0xFEFF) -> s' = s).
Proof.
  intros H Ha. destruct (decoder_ok a Ha) as [D _]. unfold sys_read.
  assert (Same : forall v, v < 256 -> exists s' v', Ok (s, v) = Ok (s', v') /\ v' < 256 /\ bus_inv s' /\ only_oam_flags s s' /\
                                                  (~ (0xFE00 <= a /\ a <= 0xFEFF) -> s' = s)).
  { intros v Hv. exists s, v. split; [reflexivity|]. split; [exact Hv|]. split; [exact H|]. split; [apply only_oam_flags_refl|reflexivity]. }
  destruct (read_handler a) eqn:E; cbn [handler_okb] in D.
  - destruct (cart_ok_read _ a (BI_cart _ H)) as (v & Ev & Hv). rewrite Ev. cbn [bind]. apply Same, Hv.
  - unfold ppu_read_vram. assert (X : (sub16 a 0x8000 <? 0x2000) = true) by (unfold sub16; lia).
    rewrite X. cbn [bind]. apply Same. apply (PB_vram _ (BI_ppu _ H)).
  - unfold arr_get. assert (X : (a - base <? internalRAM_size) = true) by lia. rewrite X. cbn [bind].
    apply Same. apply (BI_wram _ H).
  - destruct (oam_read_ok (s_oam s) a) as (o' & v & Ev); [lia|lia|]. rewrite Ev. cbn [bind fst snd].
    destruct (oam_read_inv _ _ _ _ Ev (BI_oam _ H)) as [Ho Hv]. destruct (read_env _ _ _ _ Ev) as [C1 C2].
    exists (set_oam o' s), v. split; [reflexivity|]. split; [exact Hv|]. split.
    + apply bi_set_oam; [exact H|apply (lcd_inv_env _ _ _ (BI_lcd _ H)); assumption|exact Ho].
    + split; [|intros X; exfalso; apply X; lia].
      exists o'. split; [reflexivity|]. split; [eapply oam_read_engine, Ev|].
      destruct (oam_read_wflags _ _ _ _ Ev) as (W1 & W2 & W3). repeat split; assumption.
  - apply Same. apply reg_read_byte, H.
  - apply Same. lia.
  - destruct (apu_wave_read_safe _ a (BI_apu _ H)) as (v & Ev & Hv). rewrite Ev. cbn [bind]. apply Same, Hv.
  - unfold arr_get. assert (X : (a - base <? zeroPage_size) = true) by lia. rewrite X. cbn [bind].
    apply Same. apply (BI_hram _ H).
  - discriminate D.
Qed.

Theorem sys_write_safe s a v : bus_inv s -> a < 65536 -> v < 256 ->
  exists s', sys_write s a v = Ok s' /\ bus_inv s'.
Proof.
  intros H Ha Hv. destruct (decoder_ok a Ha) as [_ D]. unfold sys_write.
  destruct (write_handler a) eqn:E; cbn [handler_okb] in D.
  - destruct (cart_ok_write _ a v (BI_cart _ H) Hv) as (c' & Ec & Hc). rewrite Ec. cbn [bind].
    eexists; split; [reflexivity|apply bi_set_cart; assumption].
  - unfold ppu_write_vram. assert (X : (sub16 a 0x8000 <? 0x2000) = true) by (unfold sub16; lia).
    rewrite X. cbn [bind]. eexists; split; [reflexivity|].
    apply bi_set_ppu; [exact H| |].
    + destruct (BI_lcd _ H) as (x & HR & HW). exists x. destruct HR, HW. split; constructor; assumption.
    + destruct (BI_ppu _ H). destruct (s_ppu s); constructor; cbn in *; try assumption. apply bmem_set; assumption.
  - unfold arr_set. assert (X : (a - base <? internalRAM_size) = true) by lia. rewrite X. cbn [bind].
    eexists; split; [reflexivity|apply bi_set_wram; [exact H|apply bmem_set; [apply (BI_wram _ H)|exact Hv]]].
  - destruct (oam_write_ok (s_oam s) a v) as (o' & Eo); [lia|lia|]. rewrite Eo. cbn [bind].
    destruct (write_env _ _ _ _ Eo) as [C1 C2].
    eexists; split; [reflexivity|].
    apply bi_set_oam; [exact H|apply (lcd_inv_env _ _ _ (BI_lcd _ H)); assumption|].
    eapply oam_write_inv; [exact Eo|apply (BI_oam _ H)|exact Hv].
  - eexists; split; [reflexivity|apply reg_write_inv; assumption].
  - eexists; split; [reflexivity|exact H].
  - destruct (apu_wave_write_safe _ a v (BI_apu _ H) Hv) as (x & Ex & Hx). rewrite Ex. cbn [bind].
    eexists; split; [reflexivity|apply bi_set_apu; assumption].
  - unfold arr_set. assert (X : (a - base <? zeroPage_size) = true) by lia. rewrite X. cbn [bind].
    eexists; split; [reflexivity|apply bi_set_hram; [exact H|apply bmem_set; [apply (BI_hram _ H)|exact Hv]]].
  - discriminate D.
Qed.

(* ---------------- the hardware half of a machine cycle ---------------- *)
(* what no hardware step touches: the crash latch and the three pending-access flags of the OAM bug; and the PPU's
   last OAM address stays inside OAM once it is *)
Definition oam_flags_eq (o o' : oam) : Prop :=
  o_read o' = o_read o /\ o_write o' = o_write o /\ o_doubleWrite o' = o_doubleWrite o.
Definition hw_keeps (s s' : sys) : Prop :=
  s_crash s' = s_crash s /\ oam_flags_eq (s_oam s) (s_oam s') /\ (pla_in_oam (s_oam s) -> pla_in_oam (s_oam s')).

Lemma hw_keeps_refl s : hw_keeps s s. Proof. split; [reflexivity|]. split; [repeat split|auto]. Qed.
Lemma hw_keeps_trans a b c : hw_keeps a b -> hw_keeps b c -> hw_keeps a c.
Proof.
  intros (A1 & (A2 & A3 & A4) & A5) (B1 & (B2 & B3 & B4) & B5).
  split; [congruence|]. split; [repeat split; congruence|auto].
Qed.
Lemma hw_keeps_same_oam s s' : s_crash s' = s_crash s -> s_oam s' = s_oam s -> hw_keeps s s'.
Proof. intros E1 E2. unfold hw_keeps, oam_flags_eq. rewrite E1, E2. split; [reflexivity|]. split; [repeat split|auto]. Qed.

Lemma ints_request_bytes i m : ints_bytes i -> ints_bytes (ints_request i m).
Proof.
  intros [A B]. unfold ints_request, ints_bytes; cbn. split; [exact A|].
  pose proof (lor_lt_pow2 (ifl i) (N.land m 31) 5) as Q. change (2 ^ 5) with 32 in Q. apply Q; [exact B|].
  pose proof (land_lt_pow2_r m 31 5) as Q2. change (2 ^ 5) with 32 in Q2. apply Q2. lia.
Qed.

Lemma scene_wf_of p o : ppu_bytes p -> oam_inv o -> RenderSpec.scene_wf (scene_of p o).
Proof.
  intros [] Ho. unfold RenderSpec.scene_wf, scene_of. cbn.
  split; [exact PB_vram0|]. split.
  { destruct (o_dmaRunning o); [apply bmem_empty; lia|apply (OI_mem _ Ho)]. }
  split; [auto|].
  unfold RenderSpec.pal_ok, to_rpal; cbn. auto.
Qed.

(* renderPixel x 4: never a crash, and the address it leaves in ppuLastAccess (if any) lies in OAM *)
Lemma render_fold_ok sc ov y (xs : list N) : RenderSpec.scene_wf sc -> forall fr la,
  (match la with Some a => RenderProofs.oam_addr a | None => True end) ->
  exists fr' la', fold_left (render_one sc ov y) xs (Ok (fr, la)) = Ok (fr', la') /\
                  (match la' with Some a => RenderProofs.oam_addr a | None => True end).
Proof.
  intros Hwf. induction xs as [|x xs IH]; intros fr la Hla; cbn [fold_left].
  - exists fr, la. split; [reflexivity|exact Hla].
  - unfold render_one at 2. cbn [bind fst snd].
    destruct (RenderProofs.render_pixel_full_ok sc ov x y Hwf) as (r & Er & _).
    pose proof (RenderProofs.render_pixel_last_access_range sc ov x y) as Hrange.
    unfold Render.render_pixel, Render.render_pixel_last_access in *. rewrite Er in *. cbn [bind] in *.
    apply IH. destruct (hd_error (Render.reads (snd r))) as [a|]; [apply Hrange; reflexivity|exact Hla].
Qed.

Lemma pla_of_addr o a : RenderProofs.oam_addr a -> pla_in_oam (set_ppuLastAccess o a).
Proof. unfold RenderProofs.oam_addr, pla_in_oam; cbn. change 0xFE00 with 65024. change 0xFE9F with 65183. lia. Qed.

Lemma tick_oam_engine p o : same_engine o (tick_oam p o).
Proof.
  unfold tick_oam, act, oam_enter_mode2, oam_exit_mode2.
  repeat match goal with |- context [match ?x with _ => _ end] => destruct x end; repeat split.
Qed.

Lemma tick_oam_flags p o : oam_flags_eq o (tick_oam p o).
Proof.
  unfold tick_oam, act, oam_enter_mode2, oam_exit_mode2.
  repeat match goal with |- context [match ?x with _ => _ end] => destruct x end; repeat split.
Qed.

Theorem sys_ppu_tick_safe s : bus_inv s ->
  exists s', sys_ppu_tick s = Ok s' /\ bus_inv s' /\ hw_keeps s s' /\
             (p_enabled (s_ppu s) = true -> pla_in_oam (s_oam s')).
Proof.
  intros H. pose proof H as [CI (a & HR & HW) PB OI AI WI HI TI II].
  unfold sys_ppu_tick.
  destruct (LcdSpec.on a) eqn:Hon.
  - (* LCD on *)
    destruct (tick_on _ a HR Hon) as (ovl & Ht & HR'). cbn [fst snd] in Ht, HR'.
    assert (Hs : ppu_step (s_ppu s, s_oam s) PTick = Ok (tick_ppu (s_ppu s) ovl, tick_oam (s_ppu s) (s_oam s)))
      by (cbn [ppu_step fst snd]; rewrite Ht; reflexivity).
    pose proof (W_step _ a (@LcdSpec.Tick (oam -> oam)) _ HR HW I Hs) as HW'.
    rewrite Ht. cbn [bind].
    set (p1 := tick_ppu (s_ppu s) ovl) in *. set (o1 := tick_oam (s_ppu s) (s_oam s)) in *.
    set (a' := LcdSpec.lcd_step a LcdSpec.Tick) in *.
    assert (PB1 : ppu_bytes p1).
    { destruct PB. pose proof (R_ticks _ _ HR) as Tk. cbn [fst] in Tk. rewrite Hon in Tk.
      pose proof (pos_lt (LcdSpec.since a + 1)) as PL. rewrite <- Tk in PL.
      subst p1. unfold tick_ppu. constructor; cbn; try assumption. lia. }
    assert (OI1 : oam_inv o1) by (apply (same_engine_inv _ _ (tick_oam_engine _ _) OI)).
    set (s1 := set_ints _ (set_oam o1 (set_ppu p1 s))).
    assert (H1 : bus_inv s1).
    { subst s1. apply bi_set_ints; [|apply ints_request_bytes, II].
      apply bi_set_ppu_oam; [exact H|exists a'; split; assumption|exact PB1|exact OI1]. }
    assert (Pla1 : pla_in_oam o1) by (apply (W_pla _ _ HW'); subst a'; unfold LcdSpec.lcd_step; rewrite Hon; reflexivity).
    assert (K1 : hw_keeps s s1 /\ (p_enabled (s_ppu s) = true -> pla_in_oam (s_oam s1))).
    { assert (E : s_oam s1 = o1) by (subst s1; destruct s; reflexivity). rewrite E.
      split; [|intros _; exact Pla1].
      split; [subst s1; destruct s; reflexivity|]. rewrite E. split; [apply tick_oam_flags|intros _; exact Pla1]. }
    destruct (p_enabled (s_ppu s) && (p_mode p1 =? 3)); [|exists s1; split; [reflexivity|split; [exact H1|exact K1]]].
    match goal with |- context [if ?c then _ else _] => destruct c end; [|exists s1; split; [reflexivity|split; [exact H1|exact K1]]].
    match goal with |- context [fold_left _ ?xs _] =>
      destruct (render_fold_ok (scene_of p1 o1) (overlaps_of p1) (p_ly p1) xs (scene_wf_of _ _ PB1 OI1)
                               (s_frame s1) None I) as (fr' & la' & Ef & Hla) end.
    rewrite Ef. cbn [bind fst snd].
    eexists; split; [reflexivity|].
    assert (Pla2 : pla_in_oam match la' with Some a0 => set_ppuLastAccess o1 a0 | None => o1 end)
      by (destruct la' as [x|]; [apply pla_of_addr, Hla|exact Pla1]).
    assert (Fl2 : oam_flags_eq (s_oam s) match la' with Some a0 => set_ppuLastAccess o1 a0 | None => o1 end)
      by (destruct la' as [x|]; exact (tick_oam_flags _ _)).
    split; [|split; [|intros _; subst s1; destruct s; exact Pla2]].
    2: { split; [subst s1; destruct s; reflexivity|]. split; [subst s1; destruct s; exact Fl2|intros _; subst s1; destruct s; exact Pla2]. }
    apply bi_set_frame.
    assert (E1 : s_ppu s1 = p1) by (subst s1; destruct s; reflexivity).
    apply bi_set_oam; [exact H1| |].
    + rewrite E1. exists a'. split; [eapply R_oam_irrel, HR'|].
      destruct la' as [x|]; [|exact HW'].
      destruct HW' as [A B C]. constructor; cbn [fst snd] in *; [exact A| |exact C].
      intros _. apply pla_of_addr, Hla.
    + destruct la' as [x|]; [apply (same_engine_inv _ _ (se_pla _ _) OI1)|exact OI1].
  - (* LCD off *)
    pose proof (tick_off _ a HR Hon) as Ht. cbn [fst snd] in Ht. rewrite Ht. cbn [bind].
    pose proof (R_en _ _ HR) as En. cbn [fst] in En. rewrite En, Hon. cbn [andb].
    eexists; split; [reflexivity|]. split; [|split; [apply hw_keeps_same_oam; destruct s; reflexivity|intros X; discriminate X]].
    apply bi_set_ints; [|apply ints_request_bytes, II].
    apply bi_set_ppu_oam; [exact H|exists a; split; assumption|exact PB|exact OI].
Qed.

Lemma dma_source_lt o a : oam_inv o -> dma_source o = Some a -> a < 65536.
Proof.
  intros Ho. unfold dma_source. pose proof (OI_base _ Ho) as B. change 0xDF00 with 57088 in B.
  destruct (o_dmaRunning o); [|discriminate].
  destruct (o_dmaCycle o =? 0); [discriminate|]. destruct (o_dmaCycle o =? 1); [intros X; inversion X; subst; lia|].
  destruct (o_dmaCycle o =? 161); [discriminate|]. intros X; inversion X; subst. unfold sub16. lia.
Qed.

Lemma dma_source_low o a : oam_inv o -> dma_source o = Some a -> a < 0xFE00.
Proof.
  intros Ho. unfold dma_source. pose proof (OI_base _ Ho) as B. pose proof (OI_dma _ Ho) as D. unfold dma_ok in D.
  change 0xDF00 with 57088 in B. change 0xFE00 with 65024.
  destruct (o_dmaRunning o); [specialize (D eq_refl)|discriminate].
  destruct (o_dmaCycle o =? 0) eqn:E0; [discriminate|]. destruct (o_dmaCycle o =? 1); [intros X; inversion X; subst; lia|].
  destruct (o_dmaCycle o =? 161); [discriminate|]. intros X; inversion X; subst. unfold sub16, add16. lia.
Qed.

Lemma tick_dma_flags rd o o' : oam_tick_dma rd o = Ok o' -> oam_flags_eq o o'.
Proof.
  unfold oam_tick_dma. destruct (o_dmaRunning o); [|intros X; inversion X; repeat split].
  destruct (o_dmaCycle o =? 0); [intros X; inversion X; repeat split|].
  destruct (o_dmaCycle o =? 1); [intros X; inversion X; repeat split|].
  destruct (o_dmaCycle o =? 161);
    match goal with |- context [put8 ?m ?i ?x] => destruct (put8 m i x) end; cbn [bind];
    intros X; inversion X; subst; repeat split.
Qed.

Lemma sys_mapper_step_safe st s : bus_inv s -> exists s', sys_mapper_step st s = Ok s' /\ bus_inv s' /\ hw_keeps s s'.
Proof.
  intros H. destruct st; cbn [sys_mapper_step].
  - (* DMA *)
    assert (S1 : match dma_source (s_oam s) with
                 | Some a => do r <- sys_read s a; Ok (fst r)
                 | None => Ok s
                 end = Ok s).
    { destruct (dma_source (s_oam s)) as [a|] eqn:Ed; [|reflexivity].
      destruct (sys_read_safe s a H (dma_source_lt _ _ (BI_oam _ H) Ed)) as (s' & v & Er & _ & _ & _ & Pure).
      rewrite Er. cbn [bind fst]. rewrite Pure; [reflexivity|]. pose proof (dma_source_low _ _ (BI_oam _ H) Ed). lia. }
    rewrite S1. cbn [bind].
    set (rd := fun a => match sys_read s a with Ok r => snd r | _ => 255 end).
    destruct (tick_dma_safe rd (s_oam s) (OI_dma _ (BI_oam _ H))) as (o' & Eo & _).
    rewrite Eo. cbn [bind]. eexists; split; [reflexivity|].
    destruct (tick_dma_env _ _ _ Eo) as [C1 C2].
    split.
    + apply bi_set_oam; [exact H|apply (lcd_inv_env _ _ _ (BI_lcd _ H)); assumption|].
      eapply oam_tick_dma_inv; [|exact Eo|apply (BI_oam _ H)].
      intros a Ha. subst rd. cbv beta.
      destruct (sys_read_safe s a H Ha) as (s' & v & Er & Hv & _ & _ & _). rewrite Er. exact Hv.
    + split; [destruct s; reflexivity|]. split; [destruct s; exact (tick_dma_flags _ _ _ Eo)|].
      destruct s; cbn in *. unfold pla_in_oam. rewrite C2. auto.
  - eexists; split; [reflexivity|]. split; [apply bi_set_cart; [exact H|apply cart_ok_tick, (BI_cart _ H)]|].
    apply hw_keeps_same_oam; destruct s; reflexivity.
Qed.

Lemma mapper_steps_safe l : forall s, bus_inv s ->
  exists s', fold_left (fun r st => do x <- r; sys_mapper_step st x) l (Ok s) = Ok s' /\ bus_inv s' /\ hw_keeps s s'.
Proof.
  induction l as [|st l IH]; intros s H; cbn [fold_left].
  - exists s. split; [reflexivity|]. split; [exact H|apply hw_keeps_refl].
  - cbn [bind]. destruct (sys_mapper_step_safe st s H) as (s1 & -> & H1 & K1).
    destruct (IH s1 H1) as (s2 & E2 & H2 & K2). exists s2. split; [exact E2|]. split; [exact H2|eapply hw_keeps_trans; eassumption].
Qed.

Theorem sys_mapper_end_safe s : bus_inv s -> exists s', sys_mapper_end s = Ok s' /\ bus_inv s' /\ hw_keeps s s'.
Proof. intros H. unfold sys_mapper_end. apply mapper_steps_safe, H. Qed.

Theorem sys_audio_end_safe s : bus_inv s -> exists s', sys_audio_end s = Ok s' /\ bus_inv s' /\ hw_keeps s s'.
Proof.
  intros H. unfold sys_audio_end. destruct (apu_cycle_safe _ (BI_apu _ H)) as (r & -> & Hr). cbn [bind].
  eexists; split; [reflexivity|]. split; [apply bi_set_samples, bi_set_apu; [exact H|exact Hr]|].
  apply hw_keeps_same_oam; destruct s; reflexivity.
Qed.

Lemma timer_tick_bytes t : timer_bytes t -> timer_bytes (fst (timer_tick t)).
Proof.
  intros (A & B & C). unfold timer_tick, timer_bytes.
  repeat match goal with |- context [if ?b then _ else _] => destruct b end; cbn; unfold u8; repeat split; try assumption; lia.
Qed.

(* one non-CPU step of runFrame's loop body *)
Lemma hw_step_safe st c s t : st <> FCpu -> bus_inv s ->
  exists s' t', frame_step_run st (c, s, t) = Ok (c, s', t') /\ bus_inv s' /\ hw_keeps s s' /\
                (st = FPpu -> p_enabled (s_ppu s) = true -> pla_in_oam (s_oam s')).
Proof.
  intros Hne H. destruct st; [congruence| | | | |]; cbn [frame_step_run].
  - destruct (sys_ppu_tick_safe s H) as (s' & -> & H' & K' & L'). cbn [bind]. eexists; eexists; split; [reflexivity|].
    split; [exact H'|]. split; [exact K'|intros _; exact L'].
  - destruct (sys_mapper_end_safe s H) as (s' & -> & H' & K'). cbn [bind]. eexists; eexists; split; [reflexivity|].
    split; [exact H'|]. split; [exact K'|discriminate].
  - destruct (sys_audio_end_safe s H) as (s' & -> & H' & K'). cbn [bind]. eexists; eexists; split; [reflexivity|].
    split; [exact H'|]. split; [exact K'|discriminate].
  - eexists; eexists; split; [reflexivity|]. split; [apply bi_set_timer; [exact H|apply timer_tick_bytes, (BI_timer _ H)]|].
    split; [apply hw_keeps_same_oam; destruct s; reflexivity|discriminate].
  - eexists; eexists; split; [reflexivity|].
    destruct t.
    + split; [apply bi_set_ints; [exact H|apply ints_request_bytes, (BI_ints _ H)]|].
      split; [apply hw_keeps_same_oam; destruct s; reflexivity|discriminate].
    + split; [exact H|]. split; [apply hw_keeps_refl|discriminate].
Qed.

Lemma hw_steps_safe l : forall c s t, bus_inv s ->
  exists s' t', fold_left (fun r st => match st with FCpu => r | _ => do x <- r; frame_step_run st x end) l (Ok (c, s, t))
                = Ok (c, s', t') /\ bus_inv s' /\ hw_keeps s s'.
Proof.
  induction l as [|st l IH]; intros c s t H; cbn [fold_left].
  - exists s, t. split; [reflexivity|]. split; [exact H|apply hw_keeps_refl].
  - destruct st; try (apply IH; exact H).
    all: match goal with |- context [frame_step_run ?st _] =>
           destruct (hw_step_safe st c s t ltac:(discriminate) H) as (s1 & t1 & E1 & H1 & K1 & _) end;
      cbn [bind]; rewrite E1; destruct (IH c s1 t1 H1) as (s2 & t2 & E2 & H2 & K2);
      exists s2, t2; (split; [exact E2|]); (split; [exact H2|eapply hw_keeps_trans; eassumption]).
Qed.

Theorem sys_hw_cycle_safe s : bus_inv s -> exists s', sys_hw_cycle s = Ok s' /\ bus_inv s'.
Proof.
  intros H. unfold sys_hw_cycle.
  destruct (hw_steps_safe frame_body cpu_init s false H) as (s' & t' & -> & H' & _). cbn [bind fst snd].
  exists s'. split; [reflexivity|exact H'].
Qed.

(* ---------------- construction ---------------- *)
Lemma ppu_power_on_bytes : ppu_bytes (fst ppu_power_on).
Proof.
  constructor; try (vm_compute; reflexivity).
  - assert (E : p_vram (fst ppu_power_on) = Mem.empty 0) by reflexivity. rewrite E. apply bmem_empty. lia.
  - repeat split; vm_compute; reflexivity.
  - repeat split; vm_compute; reflexivity.
  - repeat split; vm_compute; reflexivity.
Qed.

Lemma ppu_power_on_oam : oam_inv (snd ppu_power_on).
Proof.
  assert (E : snd ppu_power_on = set_corrupt oam_init true) by reflexivity. rewrite E.
  apply (same_engine_inv _ _ (se_corrupt _ _) oam_init_inv).
Qed.

Local Opaque ppu_power_on.
Theorem sys_new_inv img ser aud cs : img_bytes img -> sys_new img ser aud = Ok cs -> fst cs = cpu_init /\ bus_inv (snd cs).
Proof.
  intros Hi. unfold sys_new. destruct (cart_construct img) as [c| |] eqn:Ec; cbn [bind]; try discriminate.
  cbv zeta. change (ppu_new oam_init) with ppu_power_on.
  intros X; injection X as <-. cbn [fst snd]. split; [reflexivity|].
  constructor; cbn [s_cart s_ints s_oam s_ppu s_joy s_timer s_apu s_wram s_hram].
  - eapply cart_ok_construct; eassumption.
  - exists LcdSpec.lcd_init.
    assert (E : (fst ppu_power_on, snd ppu_power_on) = ppu_power_on) by (symmetry; apply surjective_pairing).
    rewrite E. split; [exact R_init|exact W_init].
  - exact ppu_power_on_bytes.
  - exact ppu_power_on_oam.
  - apply apu_new_inv.
  - apply bmem_empty; lia.
  - apply bmem_empty; lia.
  - unfold timer_bytes; cbn; lia.
  - unfold ints_bytes; cbn; lia.
Qed.

Local Transparent ppu_power_on.

Lemma sys_new_not_exit img ser aud : sys_new img ser aud <> Exit.
Proof.
  unfold sys_new. destruct (cart_construct img) eqn:E; cbn [bind]; try discriminate.
  exfalso. exact (construct_not_exit img E).
Qed.

(* ---------------- histories of bus operations ---------------- *)
Inductive bus_op :=
| BRead (a : N)                      (* Mapper.Read *)
| BWrite (a v : N)                   (* Mapper.Write *)
| BHw                                (* the hardware half of a machine cycle: PPU, DMA + RTC, APU, timer *)
| BButton (b : N) (pressed : bool).  (* controller.ButtonAction *)

Definition bus_op_wf (o : bus_op) : Prop :=
  match o with
  | BRead a => a < 65536
  | BWrite a v => a < 65536 /\ v < 256
  | _ => True
  end.

Definition bus_step (s : sys) (o : bus_op) : res sys :=
  match o with
  | BRead a => do r <- sys_read s a; Ok (fst r)
  | BWrite a v => sys_write s a v
  | BHw => sys_hw_cycle s
  | BButton b p => Ok (sys_button s b p)
  end.

Definition bus_run (s : sys) (ops : list bus_op) : res sys :=
  fold_left (fun r o => do x <- r; bus_step x o) ops (Ok s).

Lemma bus_step_safe s o : bus_inv s -> bus_op_wf o -> exists s', bus_step s o = Ok s' /\ bus_inv s'.
Proof.
  intros H Hw. destruct o; cbn [bus_step bus_op_wf] in *.
  - destruct (sys_read_safe s a H Hw) as (s' & v & -> & _ & H' & _ & _). cbn [bind fst]. exists s'. split; [reflexivity|exact H'].
  - destruct Hw. apply sys_write_safe; assumption.
  - apply sys_hw_cycle_safe, H.
  - eexists; split; [reflexivity|]. unfold sys_button. apply bi_set_joy, H.
Qed.

Theorem bus_run_safe ops : forall s, bus_inv s -> Forall bus_op_wf ops -> exists s', bus_run s ops = Ok s' /\ bus_inv s'.
Proof.
  unfold bus_run. induction ops as [|o ops IH]; intros s H Hw; cbn [fold_left].
  - exists s. split; [reflexivity|exact H].
  - inversion Hw; subst. cbn [bind]. destruct (bus_step_safe s o H) as (s1 & -> & H1); [assumption|]. apply IH; assumption.
Qed.

(* C11, bus level: any image either fails construction or yields a machine whose bus never crashes *)
Theorem bus_level_safe img ser aud : img_bytes img ->
  (exists w, sys_new img ser aud = Crash w) \/
  (exists cs0, sys_new img ser aud = Ok cs0 /\
     forall ops, Forall bus_op_wf ops -> exists s, bus_run (snd cs0) ops = Ok s).
Proof.
  intros Hi. destruct (sys_new img ser aud) as [cs| |] eqn:E.
  - right. exists cs. split; [reflexivity|]. intros ops Hw.
    destruct (sys_new_inv img ser aud cs Hi E) as [_ H0].
    destruct (bus_run_safe ops _ H0 Hw) as (s & Es & _). exists s. exact Es.
  - left. eexists; reflexivity.
  - exfalso. exact (sys_new_not_exit img ser aud E).
Qed.

(* every value read is a byte *)
Theorem bus_reads_bytes s a : bus_inv s -> a < 65536 -> exists s' v, sys_read s a = Ok (s', v) /\ v < 256.
Proof. intros H Ha. destruct (sys_read_safe s a H Ha) as (s' & v & E & Hv & _ & _ & _). exists s', v. auto. Qed.
