(* MapperHw.v — what the hardware half of a machine cycle (PPU tick incl. rendering, DMA, cartridge clock, APU,
   timer) leaves untouched: work RAM, high RAM, IE, the joypad latch, video RAM and every PPU register except the
   read-only status (LY, mode, coincidence), the DMA register, TAC / TMA, and — while no DMA runs — OAM.
   IF only gains bits.  ([hw_rel], proved for [sys_hw_cycle].) *)
From V.lib Require Import Bits Mem Res.
From V.model Require Import Ints Joypad Timer Rtc Cart Oam PpuTiming Apu MapperTypes System.
From V.model Require Render.
From V.gen Require Import GenMapper GenFrame.
From V.spec Require Import AddrSpec.
From V.proofs Require Import MapperDecode MapperFrame.

Definition ppu_cfg_eq (p p' : ppu) : Prop :=
  p_enabled p' = p_enabled p /\ p_lcdc p' = p_lcdc p /\ p_stat p' = p_stat p /\ p_bgp p' = p_bgp p /\
  p_obp0 p' = p_obp0 p /\ p_obp1 p' = p_obp1 p /\ p_lyc p' = p_lyc p /\ p_scx p' = p_scx p /\
  p_scy p' = p_scy p /\ p_wx p' = p_wx p /\ p_wy p' = p_wy p /\ p_vram p' = p_vram p.

Definition oam_bus_eq (o o' : oam) : Prop :=
  o_mem o' = o_mem o /\ o_dmaRunning o' = o_dmaRunning o /\ o_dmaCycle o' = o_dmaCycle o /\
  o_dmaBaseAddr o' = o_dmaBaseAddr o /\ o_dmaRead o' = o_dmaRead o /\ o_dmaReg o' = o_dmaReg o.

Ltac ppuf :=
  cbn [p_enabled p_lcdc p_stat p_coincidence p_mode p_bgp p_obp0 p_obp1 p_ly p_lyc p_scx p_scy p_wx p_wy
       p_vram p_overlaps p_ticks p_firstLine set_enabled_mode_first set_lcdc set_stat set_coincidence set_mode
       set_pals set_ly set_regs set_vram set_overlaps PpuTiming.set_ticks set_firstLine fst snd] in *.
Ltac oamf :=
  cbn [o_mem o_dmaRunning o_dmaCycle o_dmaBaseAddr o_dmaRead o_dmaReg o_corrupt o_ppuLastAccess o_read o_write
       o_doubleWrite set_mem set_dma set_dmaReg set_corrupt set_ppuLastAccess set_flags oam_enter_mode2
       oam_exit_mode2 fst snd] in *.

Lemma ppu_cfg_refl p : ppu_cfg_eq p p.
Proof. unfold ppu_cfg_eq; repeat split. Qed.
Lemma ppu_cfg_trans p1 p2 p3 : ppu_cfg_eq p1 p2 -> ppu_cfg_eq p2 p3 -> ppu_cfg_eq p1 p3.
Proof. unfold ppu_cfg_eq. intuition congruence. Qed.
Lemma oam_bus_refl o : oam_bus_eq o o.
Proof. unfold oam_bus_eq; repeat split. Qed.
Lemma oam_bus_trans o1 o2 o3 : oam_bus_eq o1 o2 -> oam_bus_eq o2 o3 -> oam_bus_eq o1 o3.
Proof. unfold oam_bus_eq. intuition congruence. Qed.

(* ---- the PPU tick ---- *)
Lemma oam_ppu_read_bus o a o' v : oam_ppu_read o a = Ok (o', v) -> oam_bus_eq o o'.
Proof.
  unfold oam_ppu_read. destruct (o_dmaRunning o) eqn:E; intros H.
  - inv_ok H. unfold oam_bus_eq; oamf; repeat split.
  - apply bind_ok in H. destruct H as (x & _ & H). inv_ok H. unfold oam_bus_eq; oamf; repeat split.
Qed.

Lemma check_sprite_frame p o sp p' o' :
  check_overlapping_sprite p o sp = Ok (p', o') -> ppu_cfg_eq p p' /\ p_mode p' = p_mode p /\ oam_bus_eq o o'.
Proof.
  unfold check_overlapping_sprite. cbv zeta. intros H. apply bind_ok in H. destruct H as ([o1 sy] & Hr & H).
  destruct (sp <? 40); [|discriminate H]. inv_ok H.
  split; [unfold ppu_cfg_eq; ppuf; repeat split|]. split; [reflexivity|]. exact (oam_ppu_read_bus _ _ _ _ Hr).
Qed.

Lemma check_sprites_frame p o lx p' o' :
  check_overlapping_sprites p o lx = Ok (p', o') -> ppu_cfg_eq p p' /\ p_mode p' = p_mode p /\ oam_bus_eq o o'.
Proof.
  unfold check_overlapping_sprites. intros H. apply bind_ok in H. destruct H as ([p1 o1] & H1 & H).
  destruct (check_sprite_frame _ _ _ _ _ H1) as (A1 & B1 & C1).
  destruct (check_sprite_frame _ _ _ _ _ H) as (A2 & B2 & C2).
  split; [eapply ppu_cfg_trans; eassumption|]. split; [congruence|]. eapply oam_bus_trans; eassumption.
Qed.

Lemma mode_switch_frame p o ly tl m o1 r :
  mode_switch p o ly tl = Ok (m, o1, r) -> oam_bus_eq o o1 /\ m < 4.
Proof.
  unfold mode_switch.
  repeat match goal with |- context [match ?x with _ => _ end] => destruct x end;
    intros H; try discriminate H; inv_ok H; (split; [unfold oam_bus_eq; oamf; repeat split | lia]).
Qed.

Lemma ppu_tick_frame p o p' o' r :
  ppu_tick p o = Ok (p', o', r) ->
  ppu_cfg_eq p p' /\ oam_bus_eq o o' /\ (p_mode p < 4 -> p_mode p' < 4).
Proof.
  unfold ppu_tick. destruct (negb (p_enabled p)).
  { intros H. inv_ok H. split; [apply ppu_cfg_refl|]. split; [apply oam_bus_refl | tauto]. }
  cbv zeta. intros H. apply bind_ok in H. destruct H as ([[m o1] req1] & Hsw & H).
  destruct (mode_switch_frame _ _ _ _ _ _ _ Hsw) as (Bo & Hm).
  assert (Cm : m = 0 \/ m = 1 \/ m = 2 \/ m = 3) by lia.
  set (ly := u8 (p_ticks p / 114)) in *. set (tl := u8 (p_ticks p mod 114)) in *.
  destruct (tl =? 0);
    apply bind_ok in H; destruct H as ([p3 o2] & Hex & H); inv_ok H;
    destruct Cm as [-> | [-> | [-> | ->]]]; cbv iota in Hex.
  all: try (destruct (p_firstLine _); inv_ok Hex;
            (split; [unfold ppu_cfg_eq; ppuf; repeat split|]); (split; [exact Bo | intros _; ppuf; lia])).
  all: try (inv_ok Hex; (split; [unfold ppu_cfg_eq; ppuf; repeat split|]); (split; [exact Bo | intros _; ppuf; lia])).
  all: try (destruct (check_sprites_frame _ _ _ _ _ Hex) as (A & B & C);
            split; [eapply ppu_cfg_trans; [|unfold ppu_cfg_eq in *; ppuf; exact A]; unfold ppu_cfg_eq; ppuf; repeat split|];
            split; [eapply oam_bus_trans; eassumption | intros _; ppuf; rewrite B; ppuf; lia]).
  all: try (cbv zeta in Hex; destruct (_ <? 160); unfold mode3_hook in Hex; inv_ok Hex;
            (split; [unfold ppu_cfg_eq; ppuf; repeat split|]); (split; [exact Bo | intros _; ppuf; lia])).
Qed.

(* ---- the relation between the machine before and after hardware activity ---- *)
Record hw_rel (s s' : sys) : Prop := mkHwRel {
  hr_wram : s_wram s' = s_wram s;
  hr_hram : s_hram s' = s_hram s;
  hr_joy : s_joy s' = s_joy s;
  hr_ser : s_ser_attached s' = s_ser_attached s;
  hr_ie : ie (s_ints s') = ie (s_ints s);
  hr_if : exists r, ifl (s_ints s') = N.lor (ifl (s_ints s)) (N.land r 31);
  hr_ppu : ppu_cfg_eq (s_ppu s) (s_ppu s');
  hr_mode : p_mode (s_ppu s) < 4 -> p_mode (s_ppu s') < 4;
  hr_dmareg : o_dmaReg (s_oam s') = o_dmaReg (s_oam s);
  hr_oam : o_dmaRunning (s_oam s) = false -> oam_bus_eq (s_oam s) (s_oam s');
  hr_tac : t_tac (s_timer s') = t_tac (s_timer s);
  hr_tma : t_tma (s_timer s') = t_tma (s_timer s)
}.

Lemma hw_rel_refl s : hw_rel s s.
Proof.
  constructor; try reflexivity; try tauto.
  - exists 0. rewrite N.land_0_l, N.lor_0_r. reflexivity.
  - apply ppu_cfg_refl.
  - intros _. apply oam_bus_refl.
Qed.

Lemma hw_rel_trans s1 s2 s3 : hw_rel s1 s2 -> hw_rel s2 s3 -> hw_rel s1 s3.
Proof.
  intros [a1 a2 a3 a4 a5 [r1 a6] a7 a8 a9 a10 a11 a12] [b1 b2 b3 b4 b5 [r2 b6] b7 b8 b9 b10 b11 b12].
  constructor; try congruence.
  - exists (N.lor r1 r2). rewrite b6, a6, N.land_lor_distr_l, N.lor_assoc. reflexivity.
  - eapply ppu_cfg_trans; eassumption.
  - tauto.
  - intros H. pose proof (a10 H) as A. eapply oam_bus_trans; [exact A|]. apply b10.
    destruct A as (_ & A & _). congruence.
Qed.

(* the four steps *)
Lemma ppu_step_rel s s' : sys_ppu_tick s = Ok s' -> hw_rel s s'.
Proof.
  unfold sys_ppu_tick. cbv zeta. intros H. apply bind_ok in H. destruct H as ([[p1 o1] req] & Ht & H).
  destruct (ppu_tick_frame _ _ _ _ _ Ht) as (Pc & Ob & Pm).
  assert (G : forall o2, oam_bus_eq o1 o2 ->
              forall fr, hw_rel s (set_frame fr (set_oam o2 (set_ints (ints_request (s_ints s) req)
                                                               (set_oam o1 (set_ppu p1 s)))))).
  { intros o2 B2 fr. constructor; sysf; try reflexivity; try assumption.
    - exists req. reflexivity.
    - destruct Ob as (_ & _ & _ & _ & _ & E). destruct B2 as (_ & _ & _ & _ & _ & E2). congruence.
    - intros _. eapply oam_bus_trans; eassumption. }
  assert (G0 : hw_rel s (set_ints (ints_request (s_ints s) req) (set_oam o1 (set_ppu p1 s)))).
  { constructor; sysf; try reflexivity; try assumption.
    - exists req. reflexivity.
    - destruct Ob as (_ & _ & _ & _ & _ & E). exact E.
    - intros _. exact Ob. }
  destruct (p_enabled (s_ppu s) && (p_mode p1 =? 3)); [|inv_ok H; exact G0].
  destruct (_ <? 160); [|inv_ok H; exact G0].
  apply bind_ok in H. destruct H as (fr & _ & H). inv_ok H.
  apply G. destruct (snd fr); [unfold oam_bus_eq; oamf; repeat split | apply oam_bus_refl].
Qed.

Lemma tick_dma_reg rdf o o' : oam_tick_dma rdf o = Ok o' -> o_dmaReg o' = o_dmaReg o.
Proof.
  unfold oam_tick_dma. destruct (o_dmaRunning o); [|intros H; inv_ok H; reflexivity]. cbv zeta.
  destruct (o_dmaCycle o =? 0); [intros H; inv_ok H; reflexivity|].
  destruct (o_dmaCycle o =? 1); [intros H; inv_ok H; reflexivity|].
  destruct (o_dmaCycle o =? 161); intros H; apply bind_ok in H; destruct H as (m & _ & H); inv_ok H; reflexivity.
Qed.

Lemma flags_only_bus o o' : flags_only o o' -> oam_bus_eq o o'.
Proof. intros (r & w & d & ->). unfold oam_bus_eq; oamf; repeat split. Qed.

Lemma mapper_step_rel s s' : sys_mapper_end s = Ok s' -> hw_rel s s'.
Proof.
  unfold sys_mapper_end, mapper_end_cycle. cbn [fold_left bind]. intros H.
  apply bind_ok in H. destruct H as (s2 & H2 & H). cbn [sys_mapper_step] in H. inv_ok H.
  cbn [sys_mapper_step] in H2. apply bind_ok in H2. destruct H2 as (s1 & H1 & H2).
  apply bind_ok in H2. destruct H2 as (o' & Ho & H2). inv_ok H2.
  assert (S1 : s1 = s \/ exists o1, flags_only (s_oam s) o1 /\ s1 = set_oam o1 s).
  { destruct (dma_source (s_oam s)).
    - apply bind_ok in H1. destruct H1 as ([sx vx] & Hr & H1). inv_ok H1. cbn [fst].
      exact (sys_read_state _ _ _ _ Hr).
    - inv_ok H1. left; reflexivity. }
  assert (B1 : oam_bus_eq (s_oam s) (s_oam s1) /\ s_wram s1 = s_wram s /\ s_hram s1 = s_hram s /\ s_joy s1 = s_joy s
               /\ s_ints s1 = s_ints s /\ s_ppu s1 = s_ppu s /\ s_timer s1 = s_timer s
               /\ s_ser_attached s1 = s_ser_attached s).
  { destruct S1 as [-> | (o1 & Hf & ->)]; sysf; (split; [first [apply oam_bus_refl | apply flags_only_bus; exact Hf] | repeat split]). }
  destruct B1 as (B1 & E1 & E2 & E3 & E4 & E5 & E6 & E7).
  constructor; sysf; try congruence.
  - exists 0. rewrite E4, N.land_0_l, N.lor_0_r. reflexivity.
  - rewrite E5. apply ppu_cfg_refl.
  - rewrite (tick_dma_reg _ _ _ Ho). destruct B1 as (_ & _ & _ & _ & _ & E). exact E.
  - intros Hr. assert (R1 : o_dmaRunning (s_oam s1) = false) by (destruct B1 as (_ & E & _); congruence).
    unfold oam_tick_dma in Ho. rewrite R1 in Ho. inv_ok Ho. exact B1.
Qed.

Lemma audio_step_rel s s' : sys_audio_end s = Ok s' -> hw_rel s s'.
Proof.
  unfold sys_audio_end. intros H. apply bind_ok in H. destruct H as (r & _ & H). inv_ok H.
  constructor; sysf; try reflexivity; try tauto.
  - exists 0. rewrite N.land_0_l, N.lor_0_r. reflexivity.
  - apply ppu_cfg_refl.
  - intros _. apply oam_bus_refl.
Qed.

Lemma timer_tick_regs t : t_tac (fst (timer_tick t)) = t_tac t /\ t_tma (fst (timer_tick t)) = t_tma t.
Proof.
  unfold timer_tick. cbv zeta.
  repeat match goal with |- context [if ?c then _ else _] =>
           lazymatch c with context [if _ then _ else _] => fail | _ => destruct c end end;
    split; reflexivity.
Qed.

Lemma timer_step_rel s :
  hw_rel s (let r := timer_tick (s_timer s) in
            let s4 := set_timer (fst r) s in
            if snd r then set_ints (ints_request (s_ints s4) 4) s4 else s4).
Proof.
  cbv zeta. destruct (timer_tick_regs (s_timer s)) as (E1 & E2).
  destruct (snd (timer_tick (s_timer s))); constructor; sysf; try reflexivity; try tauto; try assumption;
    try apply ppu_cfg_refl; try (intros _; apply oam_bus_refl).
  - exists 4. reflexivity.
  - exists 0. rewrite N.land_0_l, N.lor_0_r. reflexivity.
Qed.

(* the hardware half of a machine cycle, in the generated order of runFrame's loop body *)
Theorem hw_cycle_rel s s' : sys_hw_cycle s = Ok s' -> hw_rel s s'.
Proof.
  unfold sys_hw_cycle, frame_body. cbn [fold_left bind frame_step_run]. intros H.
  apply bind_ok in H. destruct H as ([[c x] tirq] & H & Hf). inv_ok Hf. cbn [fst snd].
  apply bind_ok in H. destruct H as ([[c5 x5] t5] & H & H6). cbn [frame_step_run] in H6. inv_ok H6.
  apply bind_ok in H. destruct H as ([[c4 x4] t4] & H & H5). cbn [frame_step_run] in H5. inv_ok H5.
  apply bind_ok in H. destruct H as ([[c3 x3] t3] & H & H4). cbn [frame_step_run] in H4.
  apply bind_ok in H4. destruct H4 as (y4 & A4 & H4). inv_ok H4.
  apply bind_ok in H. destruct H as ([[c2 x2] t2] & H & H3). cbn [frame_step_run] in H3.
  apply bind_ok in H3. destruct H3 as (y3 & A3 & H3). inv_ok H3.
  apply bind_ok in H. destruct H as (y2 & A2 & H). inv_ok H.
  eapply hw_rel_trans; [apply (ppu_step_rel _ _ A2)|].
  eapply hw_rel_trans; [apply (mapper_step_rel _ _ A3)|].
  eapply hw_rel_trans; [apply (audio_step_rel _ _ A4)|].
  apply timer_step_rel.
Qed.
