(* SysProofs.v — whole-machine facts: the frame loop (C26), serial output (C23), instances (C25), determinism (C24). *)
From V.lib Require Import Bits Mem Res.
From V.model Require Import Uop Alu Cpu CpuTables Ints Joypad Timer Rtc Cart Oam PpuTiming Apu MapperTypes System FrameLoop.
From V.gen Require Import GenMapper GenFrame GenDispatch.
From Coq Require Import ZArith ZifyN ZifyNat ZifyBool Lia.

Arguments frame_step_run : simpl never.

(* ================= C26: the frame loop ================= *)

(* the loop body and bound regenerated from gameboy.go, and Mapper.EndMachineCycle from mapper.go *)
Theorem frame_order :
  frame_body = [FCpu; FPpu; FMapper; FAudio; FTimer; FTimerIrq] /\ frame_bound = 17556 /\
  mapper_end_cycle = [MTickDMA; MTickRTC].
Proof. repeat split; reflexivity. Qed.

(* one iteration = the CPU first, then video, memory (DMA, clock), audio and timer once each, a timer overflow raising IF bit 2 *)
Definition cycle_explicit (cs : cpu * sys) : res (cpu * sys) :=
  do x1 <- frame_step_run FCpu (fst cs, snd cs, false);
  do x2 <- frame_step_run FPpu x1;
  do x3 <- frame_step_run FMapper x2;
  do x4 <- frame_step_run FAudio x3;
  do x5 <- frame_step_run FTimer x4;
  do x6 <- frame_step_run FTimerIrq x5;
  Ok (fst (fst x6), snd (fst x6)).

Theorem sys_cycle_explicit cs : sys_cycle cs = cycle_explicit cs.
Proof.
  unfold sys_cycle, cycle_explicit. rewrite (proj1 frame_order). cbn [fold_left bind].
  destruct (frame_step_run FCpu (fst cs, snd cs, false)) as [x1| |]; cbn [bind]; try reflexivity.
  destruct (frame_step_run FPpu x1) as [x2| |]; cbn [bind]; try reflexivity.
  destruct (frame_step_run FMapper x2) as [x3| |]; cbn [bind]; try reflexivity.
  destruct (frame_step_run FAudio x3) as [x4| |]; cbn [bind]; try reflexivity.
  destruct (frame_step_run FTimer x4) as [x5| |]; cbn [bind]; try reflexivity.
Qed.

(* a frame is exactly frame_bound = 17,556 iterations *)
Theorem run_frame_iter cs : sys_run_frame cs = N.iter 17556 (fun r => bind r sys_cycle) (Ok cs).
Proof. unfold sys_run_frame. rewrite (proj1 (proj2 frame_order)). reflexivity. Qed.

(* the timer step of the iteration: the timer advances once and an overflow raises the timer request (IF bit 2) *)
Theorem timer_irq c s tirq :
  frame_step_run FTimer (c, s, tirq) = Ok (c, set_timer (fst (timer_tick (s_timer s))) s, snd (timer_tick (s_timer s))) /\
  (forall b, frame_step_run FTimerIrq (c, s, b) =
             Ok (c, (if b then set_ints (ints_request (s_ints s) 4) s else s), b)).
Proof. split; reflexivity. Qed.

Lemma request_timer_sets_bit2 i : N.testbit (ifl (ints_request i 4)) 2 = true.
Proof. unfold ints_request. cbn [ifl]. rewrite N.lor_spec. apply orb_true_r. Qed.

(* hardware-only cycles: per-component projections *)
Definition hw_explicit (s : sys) : res sys :=
  do x2 <- frame_step_run FPpu (cpu_init, s, false);
  do x3 <- frame_step_run FMapper x2;
  do x4 <- frame_step_run FAudio x3;
  do x5 <- frame_step_run FTimer x4;
  do x6 <- frame_step_run FTimerIrq x5;
  Ok (snd (fst x6)).

Lemma sys_hw_cycle_explicit s : sys_hw_cycle s = hw_explicit s.
Proof.
  unfold sys_hw_cycle, hw_explicit. rewrite (proj1 frame_order). cbn [fold_left bind].
  destruct (frame_step_run FPpu (cpu_init, s, false)) as [x2| |]; cbn [bind]; try reflexivity.
  destruct (frame_step_run FMapper x2) as [x3| |]; cbn [bind]; try reflexivity.
  destruct (frame_step_run FAudio x3) as [x4| |]; cbn [bind]; try reflexivity.
  destruct (frame_step_run FTimer x4) as [x5| |]; cbn [bind]; try reflexivity.
Qed.

(* the memory step: the DMA engine ticks once, then the cartridge clock ticks once *)
Theorem mapper_end_explicit s :
  sys_mapper_end s = do s1 <- sys_mapper_step MTickDMA s; Ok (set_cart (cart_tick (s_cart s1)) s1).
Proof.
  unfold sys_mapper_end. rewrite (proj2 (proj2 frame_order)). cbn [fold_left bind].
  destruct (sys_mapper_step MTickDMA s); reflexivity.
Qed.

(* ================= C26: Run stops on request ================= *)
(* [first_true c f]: c is the first index at which the monotone oracle f is true *)
Definition first_true (c : nat) (f : nat -> bool) : Prop := f c = true /\ forall k, (k < c)%nat -> f k = false.

Lemma run_loop_cancel : forall fuel k c cancelled,
  first_true c cancelled -> (k <= c)%nat -> (c - k <= fuel)%nat ->
  run_loop fuel k cancelled (fun _ => false) = c.
Proof.
  induction fuel as [|f IH]; intros k c cancelled [Hc Hb] Hk Hf; cbn [run_loop].
  - lia.
  - destruct (cancelled k) eqn:E.
    + destruct (Nat.eq_dec k c) as [->|Hn]; [reflexivity|]. rewrite Hb in E by lia. discriminate.
    + assert (k <> c) by (intros ->; congruence).
      apply IH; [split; assumption | lia | lia].
Qed.

(* once the context is cancelled (observed at the c-th check) no further frame starts: Run has run exactly c frames,
   i.e. at most the one frame that was in progress when the cancellation arrived; and Cleanup runs exactly once *)
Theorem run_stops_on_cancel fuel video c cancelled :
  first_true c cancelled -> (c <= fuel)%nat ->
  run fuel false cancelled (fun _ => false) = mkLoop c 1 /\ cleanups (run fuel video cancelled (fun _ => false)) = 1%nat.
Proof.
  intros Hc Hf. split; [|reflexivity]. unfold run. f_equal. apply run_loop_cancel; [exact Hc | lia | lia].
Qed.

Lemma run_loop_close : forall fuel k c closes,
  first_true c closes -> (k < c)%nat -> (c - k <= fuel)%nat ->
  run_loop fuel k (fun _ => false) closes = c.
Proof.
  induction fuel as [|f IH]; intros k c closes [Hc Hb] Hk Hf; cbn [run_loop].
  - lia.
  - destruct (closes (S k)) eqn:E.
    + destruct (Nat.eq_dec (S k) c) as [<-|Hn]; [reflexivity|]. rewrite Hb in E by lia. discriminate.
    + assert (S k <> c) by (intros <-; congruence).
      apply IH; [split; assumption | lia | lia].
Qed.

(* when the display asks to close at the end of frame c, Run returns after exactly c frames *)
Theorem run_stops_on_close fuel c closes :
  first_true c closes -> (0 < c)%nat -> (c <= fuel)%nat ->
  run fuel true (fun _ => false) closes = mkLoop c 1.
Proof. intros Hc H0 Hf. unfold run. f_equal. apply run_loop_close; [exact Hc | lia | lia]. Qed.

(* ================= C25: instances ================= *)
(* several instances in one process: a list of independent machine states; stepping instance i *)
Fixpoint step_at (i : nat) (l : list (cpu * sys)) : res (list (cpu * sys)) :=
  match l, i with
  | [], _ => Ok []
  | x :: t, O => do y <- sys_cycle x; Ok (y :: t)
  | x :: t, S j => do t' <- step_at j t; Ok (x :: t')
  end.

Theorem instances_independent : forall i l l',
  step_at i l = Ok l' ->
  length l' = length l /\
  (forall j d, j <> i -> nth j l' d = nth j l d) /\
  (forall x, nth_error l i = Some x -> exists y, sys_cycle x = Ok y /\ nth_error l' i = Some y).
Proof.
  induction i as [|i IH]; intros l l' H; destruct l as [|x t]; cbn [step_at] in H.
  - inversion H; subst. repeat split; auto. intros x Hx; discriminate.
  - destruct (sys_cycle x) as [y| |] eqn:E; cbn [bind] in H; try discriminate. inversion H; subst.
    repeat split; auto.
    + intros j d Hj. destruct j; [contradiction|reflexivity].
    + intros x0 Hx. cbn in Hx. inversion Hx; subst. exists y. split; [exact E|reflexivity].
  - inversion H; subst. repeat split; auto. intros x Hx; discriminate.
  - destruct (step_at i t) as [t'| |] eqn:E; cbn [bind] in H; try discriminate. inversion H; subst.
    destruct (IH t t' E) as (Hl & Hn & Hx).
    repeat split.
    + cbn. rewrite Hl. reflexivity.
    + intros j d Hj. destruct j; [reflexivity|]. cbn. apply Hn. intros ->. apply Hj. reflexivity.
    + intros x0 Hx0. cbn in Hx0. apply Hx in Hx0. exact Hx0.
Qed.

(* the obligation on the source that makes the product model faithful: the opcode tables are not package-level state *)
Theorem tables_per_instance : tables_package_level = false.
Proof. reflexivity. Qed.

(* ================= C24: determinism ================= *)
Theorem run_functional : forall (img img' : image) ser aud n,
  img = img' ->
  (do cs <- sys_new img ser aud; sys_cycles n cs) = (do cs <- sys_new img' ser aud; sys_cycles n cs).
Proof. intros; subst; reflexivity. Qed.

(* ---- C25 over whole schedules: any interleaving of steps of the instances gives every instance exactly the state
   its solo run of as many cycles as it was scheduled gives ---- *)
Fixpoint run_sched (sch : list nat) (l : list (cpu * sys)) : res (list (cpu * sys)) :=
  match sch with
  | [] => Ok l
  | i :: r => do l' <- step_at i l; run_sched r l'
  end.

Lemma sys_cycles_snoc n x y z : sys_cycle x = Ok y -> sys_cycles n y = Ok z -> sys_cycles (S n) x = Ok z.
Proof. intros H1 H2. cbn [sys_cycles]. rewrite H1. cbn [bind]. exact H2. Qed.

Lemma nth_error_nth_eq (A : Type) (l l' : list A) j :
  length l' = length l -> (forall d, nth j l' d = nth j l d) -> nth_error l' j = nth_error l j.
Proof.
  revert l' j. induction l as [|a l IH]; intros l' j Hl Hn; destruct l' as [|a' l']; try discriminate.
  - reflexivity.
  - destruct j as [|j]; cbn.
    + specialize (Hn a). cbn in Hn. rewrite Hn. reflexivity.
    + apply IH; [cbn in Hl; congruence|]. intros d. apply (Hn d).
Qed.

Theorem schedule_independent : forall sch l l',
  run_sched sch l = Ok l' ->
  length l' = length l /\
  forall j x, nth_error l j = Some x ->
    exists y, sys_cycles (count_occ Nat.eq_dec sch j) x = Ok y /\ nth_error l' j = Some y.
Proof.
  induction sch as [|i r IH]; intros l l' H; cbn [run_sched] in H.
  - inversion H; subst. split; [reflexivity|]. intros j x Hx. exists x. split; [reflexivity|exact Hx].
  - destruct (step_at i l) as [l1| |] eqn:E; cbn [bind] in H; try discriminate.
    destruct (instances_independent i l l1 E) as (Hl & Hn & Hx).
    destruct (IH l1 l' H) as (Hl' & Hr).
    split; [congruence|].
    intros j x Hj. cbn [count_occ]. destruct (Nat.eq_dec i j) as [->|Hne].
    + destruct (Hx x Hj) as (y & Hy & Hy1). destruct (Hr j y Hy1) as (z & Hz & Hz1).
      exists z. split; [|exact Hz1]. apply (sys_cycles_snoc _ _ _ _ Hy Hz).
    + assert (Hj1 : nth_error l1 j = Some x).
      { rewrite <- Hj. apply nth_error_nth_eq; [exact Hl|]. intros d. apply Hn. intros ->. apply Hne. reflexivity. }
      exact (Hr j x Hj1).
Qed.

(* ---- key events (display callback): the joypad latch and STOP mode only ---- *)
Lemma key_keeps_cpu : forall cs k a,
  let c := fst cs in let c' := fst (sys_key cs k a) in
  halted c' = halted c /\ haltbug c' = haltbug c /\ eip c' = eip c /\ pc c' = pc c /\ sp c' = sp c /\
  ra c' = ra c /\ rf c' = rf c /\ cur c' = cur c /\ cyc c' = cyc c /\
  (stopped c' = false \/ stopped c' = stopped c).
Proof.
  intros [c s] k a. unfold sys_key. cbn [fst snd].
  destruct ((a =? 0) || (a =? 1)); [|repeat split; right; reflexivity].
  destruct (key_button k); cbn [fst]; [destruct c; cbn; repeat split; left; reflexivity | repeat split; right; reflexivity].
Qed.

Lemma key_keeps_hw : forall cs k a,
  let s := snd cs in let s' := snd (sys_key cs k a) in
  s_ints s' = s_ints s /\ s_timer s' = s_timer s /\ s_ppu s' = s_ppu s /\ s_oam s' = s_oam s /\ s_apu s' = s_apu s /\
  s_cart s' = s_cart s /\ s_wram s' = s_wram s /\ s_hram s' = s_hram s /\ s_serial s' = s_serial s.
Proof.
  intros [c s] k a. unfold sys_key, sys_button. cbn [fst snd].
  destruct ((a =? 0) || (a =? 1)); [|repeat split].
  destruct (key_button k); cbn [snd]; [destruct s; cbn; repeat split | repeat split].
Qed.
