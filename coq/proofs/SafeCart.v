(* SafeCart.v — the cartridge part of the C11 safety invariant beyond CartSafe: everything a cartridge returns on a
   read is a byte, provided the image is a byte string and written values are bytes. *)
From V.lib Require Import Bits Mem Res.
From V.model Require Import Rtc Cart.
From V.proofs Require Import SafeLemmas CartInv CartSafe.
From Coq Require Import ZArith ZifyN ZifyNat ZifyBool.

(* a ROM image is a byte string *)
Definition img_bytes (img : image) : Prop := forall a, img_at img a < 256.

Definition cart_bytes (c : cart) : Prop := img_bytes (c_img c) /\ bmem (c_ram c).

Lemma rtc_read_byte r sel v : rtc_read r sel = Ok v -> v < 256.
Proof.
  unfold rtc_read.
  assert (L1 : forall x, N.land x 63 < 256) by (intros; apply land256_r; lia).
  assert (L2 : forall x, N.land x 31 < 256) by (intros; apply land256_r; lia).
  assert (L3 : forall x, N.land x 1 <= 1).
  { intros x. pose proof (land_lt_pow2_r x 1 1) as Q. change (2 ^ 1) with 2 in Q. specialize (Q ltac:(lia)). lia. }
  repeat match goal with |- context [match ?x with _ => _ end] => destruct x end;
    intros X; inversion X; subst; clear X; try lia; try apply L1; try apply L2; unfold u8; try lia.
  all: match goal with |- N.land ?t 1 + _ + _ < 256 => pose proof (L3 t); lia end.
Qed.

Lemma cart_read_byte c a v : cart_bytes c -> cart_read c a = Ok v -> v < 256.
Proof.
  intros [Hi Hr]. unfold cart_read, rom_at, ram_window_read, ram_at, gomod.
  repeat match goal with
         | |- context [match ?x with _ => _ end] => destruct x eqn:?; cbn [bind]
         end; intros X; try discriminate X; try (inversion X; subst; clear X; first [apply Hi | apply Hr | lia]).
  all: try (eapply rtc_read_byte; eassumption).
Qed.

Lemma mbc1_update_frame c c' : mbc1_update c = Ok c' -> c_img c' = c_img c /\ c_ram c' = c_ram c.
Proof.
  unfold mbc1_update, gomod.
  repeat match goal with
         | |- context [if ?b then _ else _] => destruct b; cbn [bind]
         end; intros X; try discriminate X; inversion X; subst; split; reflexivity.
Qed.

Lemma cart_write_bytes c a v c' : cart_bytes c -> v < 256 -> cart_write c a v = Ok c' -> cart_bytes c'.
Proof.
  intros [Hi Hr] Hv. unfold cart_bytes.
  assert (Hv2 : N.lor v 240 < 256) by (apply lor256; lia).
  unfold cart_write. destruct (c_kind c).
  - intros X; inversion X; subst; auto.
  - unfold mbc1_write, ram_put.
    repeat match goal with
           | |- context [if ?b then _ else _] => destruct b; cbn [bind]
           end; intros X; try discriminate X;
      try (apply mbc1_update_frame in X; destruct X as [-> ->]; cbn; auto);
      try (inversion X; subst; cbn; auto).
    split; [exact Hi|apply bmem_set; assumption].
  - unfold mbc2_write, gomod.
    repeat match goal with
           | |- context [if ?b then _ else _] => destruct b; cbn [bind]
           end; intros X; try discriminate X; inversion X; subst; cbn; auto.
    split; [exact Hi|apply bmem_set; assumption].
  - unfold mbc3_write, gomod, ram_put.
    repeat match goal with
           | |- context [if ?b then _ else _] => destruct b; cbn [bind]
           end; intros X; try discriminate X; inversion X; subst; cbn; auto.
    split; [exact Hi|apply bmem_set; assumption].
  - unfold mbc5_write, gomod, ram_put.
    repeat match goal with
           | |- context [if ?b then _ else _] => destruct b; cbn [bind]
           end; intros X; try discriminate X; inversion X; subst; cbn; auto.
    split; [exact Hi|apply bmem_set; assumption].
Qed.

Lemma cart_tick_bytes c : cart_bytes c -> cart_bytes (cart_tick c).
Proof. intros H. exact H. Qed.

Lemma cart_construct_bytes img c : img_bytes img -> cart_construct img = Ok c -> cart_bytes c.
Proof.
  intros Hi. unfold cart_construct.
  repeat match goal with
         | |- context [if ?b then _ else _] => destruct b
         end; try discriminate.
  destruct (kind_of_type (img_at img 327)) as [k|]; [|discriminate].
  assert (B : cart_bytes (cart_blank k img (img_len img / 16384) (ram_banks (img_at img 327) (img_at img 329))
                                     (Mem.empty 255) rtc_init))
    by (split; [exact Hi|apply bmem_empty; lia]).
  destruct k; try (intros X; inversion X; subst; exact B).
  intros X. apply mbc1_update_frame in X. destruct X as [E1 E2]. unfold cart_bytes. rewrite E1, E2. exact B.
Qed.

(* the two invariants together *)
Definition cart_ok (c : cart) : Prop := CartSafe c /\ cart_bytes c.

Lemma cart_ok_read c a : cart_ok c -> exists v, cart_read c a = Ok v /\ v < 256.
Proof.
  intros [Hs Hb]. destruct (read_safe c a Hs) as [v Hv]. exists v. split; [exact Hv|eapply cart_read_byte; eassumption].
Qed.

Lemma cart_ok_write c a v : cart_ok c -> v < 256 -> exists c', cart_write c a v = Ok c' /\ cart_ok c'.
Proof.
  intros [Hs Hb] Hv. destruct (write_safe c a v Hs Hv) as (c' & E & Hs' & _).
  exists c'. split; [exact E|]. split; [exact Hs'|eapply cart_write_bytes; eassumption].
Qed.

Lemma cart_ok_tick c : cart_ok c -> cart_ok (cart_tick c).
Proof. intros [Hs Hb]. split; [apply tick_safe, Hs|exact Hb]. Qed.

Lemma cart_ok_construct img c : img_bytes img -> cart_construct img = Ok c -> cart_ok c.
Proof. intros Hi E. split; [eapply construct_safe, E|eapply cart_construct_bytes; eassumption]. Qed.
