(* CartRomProofs.v — C08: for every image that constructs and every operation history, the bytes visible at
   0000-7FFF are those of the bank selected by the documented registers, reduced modulo the ROM size; and no
   operation changes the ROM. *)
From Coq Require Import ZArith ZifyN ZifyNat ZifyBool.
From V.lib Require Import Bits Mem Res.
From V.model Require Import Rtc Cart.
From V.spec Require Import CartSpec.
From V.proofs Require Import CartLemmas CartInv CartInv5 CartRun.

Theorem rom_read_history img c0 ops addr :
  cart_construct img = Ok c0 -> Forall wf_op ops -> addr < 32768 ->
  exists k c,
    ctrl_of_type (img_at img 327) = Some k /\ cart_run c0 ops = Ok c /\
    (addressable k (img_len img / 16384) = true ->
     cart_read c addr = Ok (spec_rom_read k (img_len img / 16384) (img_at img) (writes_of ops) addr)).
Proof.
  intros Hc Hwf Ha.
  destruct (construct_inv img c0 Hc) as [I0 [Himg _ [Hn _] Hk _ _ _]].
  destruct (run_inv ops [] c0 I0 Hwf) as (c & Er & I1 & (F1 & F2 & F3 & F4)).
  exists (kind_ctrl (c_kind c0)), c.
  split; [apply kind_of_type_ctrl; exact Hk|]. split; [exact Er|].
  intros Hadr. cbn [app] in I1.
  rewrite <- Hn, <- F3, <- F1 in Hadr.
  rewrite (rom_read_spec _ _ _ I1 Ha Hadr).
  rewrite F1, F2, F3, Himg, Hn. reflexivity.
Qed.

(* frame: no operation, well-formed or not, changes kind, image or sizes *)
Lemma write_frame c a v c' : cart_write c a v = Ok c' -> same_frame c c'.
Proof.
  unfold cart_write, mbc1_write, mbc2_write, mbc3_write, mbc5_write, mbc1_update, ram_put, gomod.
  destruct (c_kind c) eqn:Hk;
    repeat match goal with
           | |- context [if ?b then _ else _] => destruct b; cbn [bind]
           end;
    try discriminate; intros [= <-]; repeat split.
Qed.

Lemma ticks_frame c n : same_frame c (N.iter n cart_tick c).
Proof.
  induction n as [|n IH] using N.peano_ind; [apply same_frame_refl|].
  rewrite N.iter_succ. eapply same_frame_trans; [exact IH|]. repeat split.
Qed.

Lemma step_frame c o c' : cart_step c o = Ok c' -> same_frame c c'.
Proof.
  destruct o as [a|a v|n|]; cbn [cart_step].
  - destruct (cart_read c a); cbn [bind]; try discriminate. intros [= <-]. apply same_frame_refl.
  - apply write_frame.
  - intros [= <-]. apply ticks_frame.
  - intros [= <-]. apply same_frame_refl.
Qed.

Lemma run_frame ops : forall c c', cart_run c ops = Ok c' -> same_frame c c'.
Proof.
  induction ops as [|o ops IH]; intros c c'; cbn [cart_run].
  - intros [= <-]. apply same_frame_refl.
  - destruct (cart_step c o) as [c1| |] eqn:E; cbn [bind]; try discriminate.
    intros H. eapply same_frame_trans; [exact (step_frame _ _ _ E) | exact (IH _ _ H)].
Qed.

Theorem rom_immutable img c0 ops c :
  cart_construct img = Ok c0 -> cart_run c0 ops = Ok c ->
  c_img c = img /\ c_nrom c = img_len img / 16384 /\ c_kind c = c_kind c0.
Proof.
  intros Hc Hr.
  destruct (construct_inv img c0 Hc) as [_ [Himg _ [Hn _] _ _ _ _]].
  destruct (run_frame _ _ _ Hr) as (F1 & F2 & F3 & F4).
  repeat split; congruence.
Qed.
