(* CartInv.v — the invariant tying every controller register of the model to the documented register computed
   from the write history, together with the bounds that make every indexing safe.  Established by
   cart_construct, preserved by every write (with any address and any byte), tick and read. *)
From Coq Require Import ZArith ZifyN ZifyNat ZifyBool.
From V.lib Require Import Bits Mem Res.
From V.model Require Import Rtc Cart.
From V.spec Require Import CartSpec.
From V.proofs Require Import CartLemmas.

Definition kind_ctrl (k : kind) : ctrl :=
  match k with KNone => RomOnly | KMbc1 => Mbc1 | KMbc2 => Mbc2 | KMbc3 => Mbc3 | KMbc5 => Mbc5 end.

Definition nram_ok (n : N) : Prop := n = 1 \/ n = 4 \/ n = 8 \/ n = 16.

Definition regs_ok (h : list write) (c : cart) : Prop :=
  let n := c_nrom c in
  let nr := c_nram c in
  match c_kind c with
  | KNone => True
  | KMbc1 =>
      c_bank1 c = mbc1_bank1 h /\ c_bank2 c = mbc1_bank2 h /\ c_mode1 c = mbc1_mode h /\
      c_romBank0 c = (if mbc1_mode h then 32 * mbc1_bank2 h else 0) mod n /\
      c_romBank c = (32 * mbc1_bank2 h + mbc1_bank1 h) mod n /\
      (c_en c = true -> c_ramBank c = if mbc1_mode h then mbc1_bank2 h mod nr else 0) /\
      c_ramBank c < nr
  | KMbc2 => c_romBank c = mbc2_bank h mod n
  | KMbc3 => c_romBank c = mbc3_bank h mod n /\ c_ramBank c = ram_select h
  | KMbc5 =>
      c_romBank c < n /\ c_romBank c < 65536 /\
      (n <= 512 -> c_romBank c = mbc5_bank h mod n) /\
      reg (between 8192 12288) 1 h < 256 /\
      c_ramBank c = ram_select h mod nr
  end.

Record Inv (h : list write) (c : cart) : Prop := mkInv {
  inv_nrom : exists k, c_nrom c = 2 * 2 ^ k;
  inv_nram : nram_ok (c_nram c);
  inv_len : c_kind c = KNone -> 32768 <= img_len (c_img c);
  inv_en : c_en c = ram_enabled (kind_ctrl (c_kind c)) h;
  inv_regs : regs_ok h c
}.

(* what no operation changes *)
Definition same_frame (c c' : cart) : Prop :=
  c_kind c' = c_kind c /\ c_img c' = c_img c /\ c_nrom c' = c_nrom c /\ c_nram c' = c_nram c.

Lemma same_frame_refl c : same_frame c c.
Proof. repeat split. Qed.

Lemma same_frame_trans a b c : same_frame a b -> same_frame b c -> same_frame a c.
Proof. unfold same_frame. intros (?&?&?&?) (?&?&?&?). repeat split; congruence. Qed.

Lemma pow2_ge2 k : 2 <= 2 * 2 ^ k.
Proof. assert (2 ^ k <> 0) by (apply N.pow_nonzero; discriminate). lia. Qed.

Lemma inv_nrom_ge2 h c : Inv h c -> 2 <= c_nrom c.
Proof. intros [[k Hk] _ _ _ _]. rewrite Hk. apply pow2_ge2. Qed.

(* powers of two up to 512 *)
Lemma pow2_small k : 2 * 2 ^ k <= 512 -> k <= 8.
Proof.
  intros H. apply N.nlt_ge. intros Hk.
  assert (2 ^ 9 <= 2 ^ k) by (apply N.pow_le_mono_r; lia).
  change (2 ^ 9) with 512 in *. lia.
Qed.

Lemma pow2_enum n : (exists k, n = 2 * 2 ^ k) -> n <= 512 ->
  n = 2 \/ n = 4 \/ n = 8 \/ n = 16 \/ n = 32 \/ n = 64 \/ n = 128 \/ n = 256 \/ n = 512.
Proof.
  intros [k Hk] Hle. subst n. pose proof (pow2_small k Hle) as Hk8.
  assert (k = 0 \/ k = 1 \/ k = 2 \/ k = 3 \/ k = 4 \/ k = 5 \/ k = 6 \/ k = 7 \/ k = 8) as Hc by lia.
  destruct Hc as [->|[->|[->|[->|[->|[->|[->|[->| ->]]]]]]]]; cbn; tauto.
Qed.

(* ---- register functions under history extension ---- *)
Lemma mbc1_bank1_snoc h a v :
  mbc1_bank1 (h ++ [(a, v)]) = if between 8192 16384 a then nz (v mod 32) else mbc1_bank1 h.
Proof. unfold mbc1_bank1. rewrite reg_snoc. destruct (between 8192 16384 a); reflexivity. Qed.
Lemma mbc1_bank2_snoc h a v :
  mbc1_bank2 (h ++ [(a, v)]) = if between 16384 24576 a then v mod 4 else mbc1_bank2 h.
Proof. unfold mbc1_bank2. rewrite reg_snoc. destruct (between 16384 24576 a); reflexivity. Qed.
Lemma mbc1_mode_snoc h a v :
  mbc1_mode (h ++ [(a, v)]) = if between 24576 32768 a then v mod 2 =? 1 else mbc1_mode h.
Proof. unfold mbc1_mode. rewrite reg_snoc. destruct (between 24576 32768 a); reflexivity. Qed.
Lemma mbc2_bank_snoc h a v :
  mbc2_bank (h ++ [(a, v)]) = if (a <? 16384) && a8 a then nz (v mod 16) else mbc2_bank h.
Proof. unfold mbc2_bank. rewrite reg_snoc. destruct ((a <? 16384) && a8 a); reflexivity. Qed.
Lemma mbc3_bank_snoc h a v :
  mbc3_bank (h ++ [(a, v)]) = if between 8192 16384 a then nz (v mod 128) else mbc3_bank h.
Proof. unfold mbc3_bank. rewrite reg_snoc. destruct (between 8192 16384 a); reflexivity. Qed.
Lemma mbc5_bank_snoc h a v :
  mbc5_bank (h ++ [(a, v)]) =
  256 * ((if between 12288 16384 a then v else reg (between 12288 16384) 0 h) mod 2)
  + (if between 8192 12288 a then v else reg (between 8192 12288) 1 h).
Proof. unfold mbc5_bank. rewrite !reg_snoc. reflexivity. Qed.
Lemma ram_select_snoc h a v :
  ram_select (h ++ [(a, v)]) = if between 16384 24576 a then v mod 16 else ram_select h.
Proof. unfold ram_select. rewrite reg_snoc. destruct (between 16384 24576 a); reflexivity. Qed.
Lemma ram_enabled_snoc k h a v :
  ram_enabled k (h ++ [(a, v)]) = if enable_region k a then v mod 16 =? 10 else ram_enabled k h.
Proof. unfold ram_enabled. rewrite reg_snoc. destruct (enable_region k a); reflexivity. Qed.

Lemma mbc1_bank1_lt h : mbc1_bank1 h < 32.
Proof. unfold mbc1_bank1, nz. destruct (_ =? 0); lia. Qed.
Lemma mbc1_bank2_lt h : mbc1_bank2 h < 4.
Proof. unfold mbc1_bank2. lia. Qed.

(* resolve [between lo hi a] from the comparisons in the context *)
Ltac region :=
  repeat match goal with
  | |- context [between ?lo ?hi ?a] =>
      let E := fresh "E" in
      first [ assert (E : between lo hi a = true) by (unfold between; lia)
            | assert (E : between lo hi a = false) by (unfold between; lia) ];
      rewrite !E; clear E
  end.

Ltac snocs :=
  rewrite ?mbc1_bank1_snoc, ?mbc1_bank2_snoc, ?mbc1_mode_snoc, ?mbc2_bank_snoc, ?mbc3_bank_snoc,
          ?mbc5_bank_snoc, ?ram_select_snoc, ?ram_enabled_snoc.

Ltac projs :=
  cbn [c_kind c_img c_nrom c_nram c_ram c_en c_bank1 c_bank2 c_mode1 c_romBank0 c_romBank c_ramBank c_rtc
       set_ram set_en set_regs1 set_romBank0 set_romBank set_ramBank set_rtc cart_blank].
Tactic Notation "projs" "in" "*" :=
  cbn [c_kind c_img c_nrom c_nram c_ram c_en c_bank1 c_bank2 c_mode1 c_romBank0 c_romBank c_ramBank c_rtc
       set_ram set_en set_regs1 set_romBank0 set_romBank set_ramBank set_rtc cart_blank] in *.

(* ---- construction ---- *)
Lemma ram_banks_ok t s : nram_ok (ram_banks t s).
Proof.
  unfold ram_banks, nram_ok. destruct ((t =? 5) || (t =? 6)); [tauto|].
  destruct s as [|p]; [tauto|].
  do 3 (destruct p as [p|p|]; try tauto).
Qed.

(* updateBanks computes the three cached bank numbers from the registers *)
Lemma mbc1_update_ok c :
  2 <= c_nrom c -> nram_ok (c_nram c) -> c_bank1 c < 32 -> c_bank2 c < 4 ->
  mbc1_update c =
  Ok (mkCart (c_kind c) (c_img c) (c_nrom c) (c_nram c) (c_ram c) (c_en c) (c_bank1 c) (c_bank2 c) (c_mode1 c)
        ((if c_mode1 c then 32 * c_bank2 c else 0) mod c_nrom c)
        ((32 * c_bank2 c + c_bank1 c) mod c_nrom c)
        (if c_en c then if c_mode1 c then c_bank2 c mod c_nram c else 0 else c_ramBank c)
        (c_rtc c)).
Proof.
  intros Hn Hr H1 H2. unfold mbc1_update.
  destruct c as [k img n nr ram en b1 b2 md rb0 rb rmb rt]. projs in *.
  destruct (mbc1_combine _ _ H1 H2) as [Ec Es]. rewrite Ec, Es.
  assert (Hn0 : n <> 0) by lia.
  assert (Hr8 : u8 (nr) = nr) by (apply u8_id; destruct Hr as [->|[->|[->| ->]]]; lia).
  assert (Hr0 : nr <> 0) by (destruct Hr as [->|[->|[->| ->]]]; lia).
  rewrite Hr8, !gomod_ok by assumption.
  assert (Hb1 : u8 ((32 * b2 + b1) mod n) = (32 * b2 + b1) mod n).
  { apply u8_id. pose proof (N.mod_le (32 * b2 + b1) (n) Hn0). lia. }
  assert (Hb0 : u8 ((32 * b2) mod n) = (32 * b2) mod n).
  { apply u8_id. pose proof (N.mod_le (32 * b2) (n) Hn0). lia. }
  destruct md; cbn [bind]; rewrite ?Hb1, ?Hb0.
  - destruct en; cbn [bind]; reflexivity.
  - rewrite N.mod_0_l by assumption. change (u8 0) with 0.
    destruct en; reflexivity.
Qed.

Lemma kind_of_type_ctrl t k : kind_of_type t = Some k -> ctrl_of_type t = Some (kind_ctrl k).
Proof.
  intros H.
  assert (Hlt : t < 31).
  { destruct (N.ltb_spec t 31) as [L|G]; [exact L|exfalso].
    destruct t as [|p]; [lia|].
    do 5 (destruct p as [p|p|]; try (cbn in H; discriminate); try lia). }
  revert H.
  assert (Hall : forallb (fun t => match kind_of_type t with
                                    | Some k => match ctrl_of_type t with
                                                | Some c' => match kind_ctrl k, c' with
                                                             | RomOnly, RomOnly | Mbc1, Mbc1 | Mbc2, Mbc2
                                                             | Mbc3, Mbc3 | Mbc5, Mbc5 => true
                                                             | _, _ => false end
                                                | None => false end
                                    | None => true end) (upto 31) = true) by (vm_compute; reflexivity).
  pose proof (sweep_upto 31 _ Hall t Hlt) as G. cbv beta in G.
  intros H. rewrite H in G.
  destruct (ctrl_of_type t) as [c'|]; [|discriminate].
  destruct k, c'; cbn in G; try discriminate; reflexivity.
Qed.

Lemma ctrl_none_kind t : kind_of_type t = None -> ctrl_of_type t = None.
Proof.
  intros H.
  destruct (N.ltb_spec t 31) as [L|G].
  - assert (Hall : forallb (fun t => match kind_of_type t, ctrl_of_type t with
                                      | None, Some _ => false | _, _ => true end) (upto 31) = true)
      by (vm_compute; reflexivity).
    pose proof (sweep_upto 31 _ Hall t L) as G. cbv beta in G. rewrite H in G.
    destruct (ctrl_of_type t); [discriminate|reflexivity].
  - unfold ctrl_of_type.
    repeat match goal with |- context [?x =? ?y] => destruct (N.eqb_spec x y); try lia end.
    repeat match goal with |- context [?x <=? ?y] => destruct (N.leb_spec x y); try lia end; reflexivity.
Qed.

(* the header facts a successful construction establishes *)
Record header_ok (img : image) (c0 : cart) : Prop := mkHeaderOk {
  hd_img : c_img c0 = img;
  hd_len : 336 <= img_len img /\ img_len img mod 16384 = 0;
  hd_nrom : c_nrom c0 = img_len img / 16384 /\ c_nrom c0 = 2 * 2 ^ img_at img 328;
  hd_kind : kind_of_type (img_at img 327) = Some (c_kind c0);
  hd_nram : c_nram c0 = ram_banks (img_at img 327) (img_at img 329);
  hd_rtc : c_rtc c0 = rtc_init;
  hd_ram : c_ram c0 = Mem.empty 255
}.

Lemma construct_inv img c0 : cart_construct img = Ok c0 -> Inv [] c0 /\ header_ok img c0.
Proof.
  unfold cart_construct.
  destruct (img_len img <? 336) eqn:E0; [discriminate|].
  destruct (img_len img mod 16384 =? 0) eqn:E1; cbn [negb]; [|discriminate].
  destruct ((img_at img 328 <=? 61) && (img_len img / 16384 =? 2 * 2 ^ img_at img 328)) eqn:E2; cbn [negb]; [|discriminate].
  apply andb_prop in E2. destruct E2 as [E2a E2b]. apply N.eqb_eq in E2b, E1.
  destruct (kind_of_type (img_at img 327)) as [k|] eqn:Ek; [|discriminate].
  pose proof (ram_banks_ok (img_at img 327) (img_at img 329)) as Hr.
  set (nr := ram_banks (img_at img 327) (img_at img 329)) in *.
  assert (Hn2 : 2 <= img_len img / 16384) by (rewrite E2b; apply pow2_ge2).
  assert (Hgen : forall k', k' <> KMbc1 -> k = k' ->
            Ok (cart_blank k' img (img_len img / 16384) nr (Mem.empty 255) rtc_init) = Ok c0 ->
            Inv [] c0 /\ header_ok img c0).
  { intros k' Hk1 -> [= <-]. split.
    - constructor; cbn [cart_blank c_nrom c_nram c_kind c_img c_en c_romBank c_ramBank].
      + eexists; exact E2b.
      + exact Hr.
      + intros _. lia.
      + unfold ram_enabled. rewrite reg_nil. reflexivity.
      + unfold regs_ok; cbn [cart_blank c_nrom c_nram c_kind c_img c_en c_romBank c_ramBank].
        destruct k'; try exact I; try congruence.
        * unfold mbc2_bank. rewrite reg_nil. cbn. rewrite N.mod_small by lia. reflexivity.
        * unfold mbc3_bank, ram_select. rewrite !reg_nil. cbn. rewrite N.mod_small by lia. split; reflexivity.
        * unfold mbc5_bank, ram_select. rewrite !reg_nil. cbn.
          repeat split; try lia.
          intros _. rewrite N.mod_small by lia. reflexivity.
    - constructor; cbn [cart_blank c_nrom c_nram c_kind c_img c_en c_romBank c_ramBank c_rtc c_ram]; auto; split; auto; lia. }
  destruct k; try (apply Hgen; [discriminate|reflexivity]).
  (* MBC1: the constructor runs updateBanks *)
  rewrite mbc1_update_ok; cbn [cart_blank c_nrom c_nram c_kind c_img c_en c_romBank c_ramBank c_bank1 c_bank2 c_mode1 c_ram c_rtc c_romBank0];
    try lia; try exact Hr.
  intros [= <-]. split.
  - constructor; cbn [c_nrom c_nram c_kind c_img c_en c_romBank c_ramBank].
    + eexists; exact E2b.
    + exact Hr.
    + discriminate.
    + unfold ram_enabled. rewrite reg_nil. reflexivity.
    + unfold regs_ok; cbn [c_nrom c_nram c_kind c_img c_en c_romBank c_romBank0 c_ramBank c_bank1 c_bank2 c_mode1].
      unfold mbc1_bank1, mbc1_bank2, mbc1_mode. rewrite !reg_nil. cbn [N.eqb].
      change (nz (1 mod 32)) with 1. change (0 mod 4) with 0. change (0 mod 2 =? 1) with false. cbv iota.
      repeat split; try reflexivity; try discriminate.
      destruct Hr as [->|[->|[->| ->]]]; lia.
  - constructor; cbn [c_nrom c_nram c_kind c_img c_en c_romBank c_ramBank c_rtc c_ram]; auto; split; auto; lia.
Qed.

(* ---- writes ---- *)
Definition post (h : list write) (c : cart) (a v : N) (r : res cart) : Prop :=
  exists c', r = Ok c' /\ Inv (h ++ [(a, v)]) c' /\ same_frame c c'.

Lemma nram_ok_pos n : nram_ok n -> 0 < n /\ n <= 16.
Proof. intros [->|[->|[->| ->]]]; lia. Qed.

Lemma mbc1_write_inv h c a v :
  c_kind c = KMbc1 -> Inv h c -> v < 256 -> post h c a v (mbc1_write c a v).
Proof.
  intros Hk HI Hv. pose proof (inv_nrom_ge2 _ _ HI) as Hn.
  destruct HI as [Hpow Hr _ Hen Hregs]. unfold regs_ok in Hregs. rewrite Hk in Hregs, Hen. cbn [kind_ctrl] in Hen.
  destruct Hregs as (R1 & R2 & R3 & R4 & R5 & R6 & R7).
  pose proof (mbc1_bank1_lt h) as L1. pose proof (mbc1_bank2_lt h) as L2.
  pose proof (nram_ok_pos _ Hr) as [Hr0 Hr16].
  unfold mbc1_write, post.
  assert (Hm : forall x, x mod c_nram c < c_nram c) by (intros x; apply N.mod_lt; lia).
  destruct (a <? 8192) eqn:E1.
  { rewrite mbc1_update_ok; projs; try lia; try exact Hr.
    eexists; split; [reflexivity|]. split; [|repeat split].
    constructor; projs; try assumption; try (rewrite Hk; discriminate).
    - rewrite Hk. cbn [kind_ctrl]. snocs. unfold enable_region. rewrite E1. apply enable_value_spec.
    - unfold regs_ok; projs. rewrite Hk. snocs. region.
      rewrite <- R1, <- R2, <- R3.
      repeat split; try assumption; try reflexivity.
      + intros ->. reflexivity.
      + destruct (enable_value v), (c_mode1 c); try apply Hm; lia. }
  assert (Een : forall w, ram_enabled Mbc1 (h ++ [(a, w)]) = ram_enabled Mbc1 h).
  { intros w. snocs. unfold enable_region. rewrite E1. reflexivity. }
  destruct (a <? 16384) eqn:E2.
  { rewrite mbc1_update_ok; projs; try lia; try exact Hr.
    2:{ rewrite land31. destruct (v mod 32 =? 0); lia. }
    eexists; split; [reflexivity|]. split; [|repeat split].
    constructor; projs; try assumption; try (rewrite Hk; discriminate).
    - rewrite Hk. cbn [kind_ctrl]. rewrite Een. exact Hen.
    - unfold regs_ok; projs. rewrite Hk. snocs. region. rewrite land31. fold (nz (v mod 32)).
      rewrite <- R2, <- R3.
      repeat split; try assumption; try reflexivity.
      + intros He. rewrite He. reflexivity.
      + destruct (c_en c) eqn:He; [|exact R7]. destruct (c_mode1 c); try apply Hm; lia. }
  destruct (a <? 24576) eqn:E3.
  { rewrite mbc1_update_ok; projs; try lia; try exact Hr.
    2:{ rewrite land3. lia. }
    eexists; split; [reflexivity|]. split; [|repeat split].
    constructor; projs; try assumption; try (rewrite Hk; discriminate).
    - rewrite Hk. cbn [kind_ctrl]. rewrite Een. exact Hen.
    - unfold regs_ok; projs. rewrite Hk. snocs. region. rewrite land3.
      rewrite <- R1, <- R3.
      repeat split; try assumption; try reflexivity.
      + intros He. rewrite He. reflexivity.
      + destruct (c_en c) eqn:He; [|exact R7]. destruct (c_mode1 c); try apply Hm; lia. }
  destruct (a <? 32768) eqn:E4.
  { rewrite mbc1_update_ok; projs; try lia; try exact Hr.
    eexists; split; [reflexivity|]. split; [|repeat split].
    assert (Emode : negb (N.land v 1 =? 0) = (v mod 2 =? 1)).
    { rewrite land1. assert (v mod 2 < 2) by (apply N.mod_lt; lia).
      destruct (N.eqb_spec (v mod 2) 0), (N.eqb_spec (v mod 2) 1); cbn; try reflexivity; lia. }
    constructor; projs; try assumption; try (rewrite Hk; discriminate).
    - rewrite Hk. cbn [kind_ctrl]. rewrite Een. exact Hen.
    - unfold regs_ok; projs. rewrite Hk. snocs. region. rewrite Emode.
      rewrite <- R1, <- R2.
      repeat split; try assumption; try reflexivity.
      + intros He. rewrite He. reflexivity.
      + destruct (c_en c) eqn:He; [|exact R7]. destruct (v mod 2 =? 1); try apply Hm; lia. }
  (* no register is written from 8000 on *)
  assert (Hsame : forall c', c_kind c' = KMbc1 -> c_nrom c' = c_nrom c -> c_nram c' = c_nram c ->
            c_en c' = c_en c -> c_bank1 c' = c_bank1 c -> c_bank2 c' = c_bank2 c -> c_mode1 c' = c_mode1 c ->
            c_romBank0 c' = c_romBank0 c -> c_romBank c' = c_romBank c -> c_ramBank c' = c_ramBank c ->
            c_img c' = c_img c ->
            Inv (h ++ [(a, v)]) c' /\ same_frame c c').
  { intros c' K1 K2 K3 K4 K5 K6 K7 K8 K9 K10 K11. split; [|repeat split; congruence].
    constructor; try (rewrite ?K1, ?K2, ?K3; assumption); try (rewrite K1; discriminate).
    - rewrite K1, K4. cbn [kind_ctrl]. rewrite Een. exact Hen.
    - unfold regs_ok. rewrite K1, K2, K3, K4, K5, K6, K7, K8, K9, K10. snocs. region.
      repeat split; assumption. }
  destruct (a <? 40960) eqn:E5.
  { eexists; split; [reflexivity|]. apply Hsame; (reflexivity || assumption). }
  destruct (a <? 49152) eqn:E6.
  { destruct (c_en c) eqn:He.
    - unfold ram_put. assert (Hlt : (c_ramBank c <? c_nram c) = true) by lia. rewrite Hlt.
      eexists; split; [reflexivity|]. apply Hsame; projs; (reflexivity || assumption).
    - eexists; split; [reflexivity|]. apply Hsame; (reflexivity || assumption). }
  eexists; split; [reflexivity|]. apply Hsame; (reflexivity || assumption).
Qed.

Lemma mbc2_write_inv h c a v :
  c_kind c = KMbc2 -> Inv h c -> v < 256 -> post h c a v (mbc2_write c a v).
Proof.
  intros Hk HI Hv. pose proof (inv_nrom_ge2 _ _ HI) as Hn.
  destruct HI as [Hpow Hr _ Hen Hregs]. unfold regs_ok in Hregs. rewrite Hk in Hregs, Hen. cbn [kind_ctrl] in Hen.
  unfold mbc2_write, post.
  assert (Hsame : forall c', c_kind c' = KMbc2 -> c_nrom c' = c_nrom c -> c_nram c' = c_nram c ->
            c_img c' = c_img c ->
            c_en c' = ram_enabled Mbc2 (h ++ [(a, v)]) ->
            c_romBank c' = mbc2_bank (h ++ [(a, v)]) mod c_nrom c ->
            Inv (h ++ [(a, v)]) c' /\ same_frame c c').
  { intros c' K1 K2 K3 K4 K5 K6. split; [|repeat split; congruence].
    constructor; try (rewrite ?K1, ?K2, ?K3; assumption); try (rewrite K1; discriminate).
    unfold regs_ok. rewrite K1, K2. exact K6. }
  destruct (a <? 16384) eqn:E1.
  - rewrite land256_a8. destruct (a8 a) eqn:E8; cbn [negb].
    + rewrite gomod_ok by lia. cbn [bind].
      eexists; split; [reflexivity|]. apply Hsame; projs; try (reflexivity || assumption).
      * snocs. unfold enable_region. rewrite E1, E8. exact Hen.
      * snocs. rewrite E1, E8. cbn [andb]. rewrite land15. fold (nz (v mod 16)).
        apply u8_id. assert (nz (v mod 16) < 16) by (unfold nz; destruct (_ =? 0); lia).
        pose proof (N.mod_le (nz (v mod 16)) (c_nrom c)). lia.
    + eexists; split; [reflexivity|]. apply Hsame; projs; try (reflexivity || assumption).
      * snocs. unfold enable_region. rewrite E1, E8. apply enable_value_spec.
      * snocs. rewrite E1, E8. exact Hregs.
  - assert (Hs : forall c', c_kind c' = KMbc2 -> c_nrom c' = c_nrom c -> c_nram c' = c_nram c ->
              c_img c' = c_img c -> c_en c' = c_en c -> c_romBank c' = c_romBank c ->
              Inv (h ++ [(a, v)]) c' /\ same_frame c c').
    { intros c' K1 K2 K3 K4 K5 K6. apply Hsame; try assumption.
      - rewrite K5. snocs. unfold enable_region. rewrite E1. exact Hen.
      - rewrite K6. snocs. rewrite E1. exact Hregs. }
    destruct (a <? 40960); [eexists; split; [reflexivity|]; apply Hs; (reflexivity || assumption)|].
    destruct (a <? 49152); [|eexists; split; [reflexivity|]; apply Hs; (reflexivity || assumption)].
    destruct (c_en c) eqn:He; eexists; (split; [reflexivity|]); apply Hs; projs; (reflexivity || assumption).
Qed.

Lemma mbc3_write_inv h c a v :
  c_kind c = KMbc3 -> Inv h c -> v < 256 -> post h c a v (mbc3_write c a v).
Proof.
  intros Hk HI Hv. pose proof (inv_nrom_ge2 _ _ HI) as Hn.
  destruct HI as [Hpow Hr _ Hen Hregs]. unfold regs_ok in Hregs. rewrite Hk in Hregs, Hen. cbn [kind_ctrl] in Hen.
  destruct Hregs as [R1 R2].
  pose proof (nram_ok_pos _ Hr) as [Hr0 Hr16].
  unfold mbc3_write, post.
  assert (Hsame : forall c', c_kind c' = KMbc3 -> c_nrom c' = c_nrom c -> c_nram c' = c_nram c ->
            c_img c' = c_img c ->
            c_en c' = ram_enabled Mbc3 (h ++ [(a, v)]) ->
            c_romBank c' = mbc3_bank (h ++ [(a, v)]) mod c_nrom c ->
            c_ramBank c' = ram_select (h ++ [(a, v)]) ->
            Inv (h ++ [(a, v)]) c' /\ same_frame c c').
  { intros c' K1 K2 K3 K4 K5 K6 K7. split; [|repeat split; congruence].
    constructor; try (rewrite ?K1, ?K2, ?K3; assumption); try (rewrite K1; discriminate).
    unfold regs_ok. rewrite K1, K2. split; assumption. }
  destruct (a <? 8192) eqn:E1.
  { eexists; split; [reflexivity|]. apply Hsame; projs; try (reflexivity || assumption); snocs; region.
    - unfold enable_region. rewrite E1. apply enable_value_spec.
    - exact R1.
    - exact R2. }
  destruct (a <? 16384) eqn:E2.
  { rewrite gomod_ok by lia. cbn [bind].
    eexists; split; [reflexivity|]. apply Hsame; projs; try (reflexivity || assumption); snocs; region.
    - unfold enable_region. rewrite E1. exact Hen.
    - rewrite land127. fold (nz (v mod 128)).
      apply u8_id. assert (nz (v mod 128) < 128) by (unfold nz; destruct (_ =? 0); lia).
      pose proof (N.mod_le (nz (v mod 128)) (c_nrom c)). lia.
    - exact R2. }
  destruct (a <? 24576) eqn:E3.
  { eexists; split; [reflexivity|]. apply Hsame; projs; try (reflexivity || assumption); snocs; region.
    - unfold enable_region. rewrite E1. exact Hen.
    - exact R1.
    - apply land15. }
  assert (Hs : forall c', c_kind c' = KMbc3 -> c_nrom c' = c_nrom c -> c_nram c' = c_nram c ->
            c_img c' = c_img c -> c_en c' = c_en c -> c_romBank c' = c_romBank c -> c_ramBank c' = c_ramBank c ->
            Inv (h ++ [(a, v)]) c' /\ same_frame c c').
  { intros c' K1 K2 K3 K4 K5 K6 K7. apply Hsame; try assumption; snocs; region.
    - rewrite K5. unfold enable_region. rewrite E1. exact Hen.
    - rewrite K6. exact R1.
    - rewrite K7. exact R2. }
  destruct (a <? 32768); [eexists; split; [reflexivity|]; apply Hs; projs; (reflexivity || assumption)|].
  destruct (a <? 40960); [eexists; split; [reflexivity|]; apply Hs; projs; (reflexivity || assumption)|].
  destruct (a <? 49152); [|eexists; split; [reflexivity|]; apply Hs; projs; (reflexivity || assumption)].
  destruct (c_en c) eqn:He; [|eexists; split; [reflexivity|]; apply Hs; projs; (reflexivity || assumption)].
  destruct (8 <=? c_ramBank c); [eexists; split; [reflexivity|]; apply Hs; projs; (reflexivity || assumption)|].
  rewrite gomod_ok by lia. cbn [bind]. unfold ram_put.
  assert (Hlt : (c_ramBank c mod c_nram c <? c_nram c) = true).
  { apply N.ltb_lt. apply N.mod_lt. lia. }
  rewrite Hlt. eexists; split; [reflexivity|]; apply Hs; projs; (reflexivity || assumption).
Qed.
