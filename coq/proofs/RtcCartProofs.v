(* RtcCartProofs.v — C10 through the cartridge interface: how the operations on an MBC3 cartridge reach the
   clock (latch writes at 6000-7FFF, register writes/reads at A000-BFFF with a clock register selected and RAM
   enabled, Mapper.EndMachineCycle), so that the clock-level refinement of RtcProofs speaks about
   Mapper.Read(0xA000). *)
From Coq Require Import ZArith ZifyN ZifyNat ZifyBool.
From V.lib Require Import Bits Mem Res.
From V.model Require Import Rtc Cart.
From V.spec Require Import CartSpec RtcSpec.
From V.proofs Require Import CartLemmas CartInv CartInv5 CartRun RtcProofs.

(* the clock events an operation causes, given the cartridge state it meets *)
Definition rtc_events_of (c : cart) (o : cop) : list rtc_event :=
  match o with
  | CTick n => [EvCycles n]
  | CWrite a v =>
      match c_kind c with
      | KMbc3 =>
          if between 24576 32768 a then [EvLatch v]
          else if between 40960 49152 a && c_en c && (8 <=? c_ramBank c) then [EvWrite (c_ramBank c) v]
          else []
      | _ => []
      end
  | _ => []
  end.

Lemma ticks_rtc c n : c_rtc (N.iter n cart_tick c) = N.iter n rtc_tick (c_rtc c).
Proof.
  induction n as [|n IH] using N.peano_ind; [reflexivity|].
  rewrite !N.iter_succ. unfold cart_tick at 1. cbn [c_rtc set_rtc]. rewrite IH. reflexivity.
Qed.

Lemma write_rtc c a v c' :
  cart_write c a v = Ok c' -> c_rtc c' = fold_left rtc_apply (rtc_events_of c (CWrite a v)) (c_rtc c).
Proof.
  unfold rtc_events_of, cart_write, mbc1_write, mbc2_write, mbc3_write, mbc5_write, mbc1_update, ram_put, gomod, between.
  destruct (c_kind c) eqn:Hk;
    repeat match goal with
           | |- context [if ?b then _ else _] => destruct b eqn:?; cbn [bind]
           end;
    try discriminate; intros [= <-]; projs; cbn [fold_left rtc_apply];
    try reflexivity; try (exfalso; lia);
    repeat match goal with H : (N.land v 1 =? 0) = _ |- _ => rewrite H end; reflexivity.
Qed.

Lemma step_rtc c o c' :
  cart_step c o = Ok c' -> c_rtc c' = fold_left rtc_apply (rtc_events_of c o) (c_rtc c).
Proof.
  destruct o as [a|a v|n|]; cbn [cart_step].
  - destruct (cart_read c a); cbn [bind]; try discriminate. intros [= <-]. reflexivity.
  - apply write_rtc.
  - intros [= <-]. cbn [rtc_events_of fold_left rtc_apply]. apply ticks_rtc.
  - intros [= <-]. reflexivity.
Qed.

Fixpoint rtc_history (c : cart) (ops : list cop) : list rtc_event :=
  match ops with
  | [] => []
  | o :: rest => rtc_events_of c o ++ match cart_step c o with Ok c' => rtc_history c' rest | _ => [] end
  end.

Lemma run_rtc ops : forall c c',
  cart_run c ops = Ok c' -> c_rtc c' = fold_left rtc_apply (rtc_history c ops) (c_rtc c).
Proof.
  induction ops as [|o ops IH]; intros c c'; cbn [cart_run rtc_history].
  - intros [= <-]. reflexivity.
  - destruct (cart_step c o) as [c1| |] eqn:E; cbn [bind]; try discriminate.
    intros H. rewrite fold_left_app, <- (step_rtc _ _ _ E). apply IH. exact H.
Qed.

Lemma events_wf c o : wf_op o -> Forall wf_event (rtc_events_of c o).
Proof.
  destruct o as [a|a v|n|]; cbn [rtc_events_of wf_op]; intros H; try constructor; try exact I; try constructor.
  destruct (c_kind c); try constructor.
  destruct (between 24576 32768 a); [repeat constructor; exact H|].
  destruct (between 40960 49152 a && c_en c && (8 <=? c_ramBank c)); repeat constructor. exact H.
Qed.

Lemma history_wf ops : forall c, Forall wf_op ops -> Forall wf_event (rtc_history c ops).
Proof.
  induction ops as [|o ops IH]; intros c Hwf; cbn [rtc_history]; [constructor|].
  inversion Hwf as [|? ? Ho Hops]; subst. apply Forall_app. split; [apply events_wf; exact Ho|].
  destruct (cart_step c o); [apply IH; exact Hops | constructor | constructor].
Qed.

(* reading A000-BFFF of an MBC3 cartridge with RAM enabled and a clock register selected *)
Lemma read_clock c a :
  c_kind c = KMbc3 -> c_en c = true -> 8 <= c_ramBank c -> 40960 <= a < 49152 ->
  cart_read c a = rtc_read (c_rtc c) (c_ramBank c).
Proof.
  intros Hk He Hs Ha. unfold cart_read, ram_window_read. rewrite Hk, He.
  assert (E1 : (a <? 16384) = false) by lia. assert (E2 : (a <? 32768) = false) by lia.
  assert (E3 : (a <? 40960) = false) by lia. assert (E4 : (a <? 49152) = true) by lia.
  assert (E5 : (8 <=? c_ramBank c) = true) by lia.
  rewrite E1, E2, E3, E4, E5. reflexivity.
Qed.

Theorem cart_clock_reads img c0 ops a :
  cart_construct img = Ok c0 -> Forall wf_op ops ->
  ctrl_of_type (img_at img 327) = Some Mbc3 ->
  40960 <= a < 49152 ->
  exists c, cart_run c0 ops = Ok c /\
    (ram_enabled Mbc3 (writes_of ops) = true -> 8 <= ram_select (writes_of ops) ->
     cart_read c a = Ok (rtcspec_read (rtcspec_run (rtc_history c0 ops)) (ram_select (writes_of ops)))).
Proof.
  intros Hc Hwf Hk Ha.
  destruct (construct_inv img c0 Hc) as [I0 [_ _ _ Hkind _ Hrtc _]].
  destruct (run_inv ops [] c0 I0 Hwf) as (c & Er & I1 & (F1 & _)).
  exists c. split; [exact Er|]. intros He Hs. cbn [app] in I1.
  pose proof (kind_of_type_ctrl _ _ Hkind) as Hk'. rewrite Hk in Hk'. injection Hk' as Hk'.
  assert (Hk3 : c_kind c = KMbc3) by (rewrite F1; destruct (c_kind c0); cbn in Hk'; congruence).
  destruct I1 as [_ _ _ Hen Hregs]. unfold regs_ok in Hregs. rewrite Hk3 in Hregs, Hen. cbn [kind_ctrl] in Hen.
  destruct Hregs as [_ Hsel].
  rewrite (read_clock c a Hk3) by (rewrite ?Hen, ?Hsel; assumption).
  rewrite (run_rtc _ _ _ Er), Hrtc, Hsel.
  apply rtc_refines. apply history_wf. exact Hwf.
Qed.
