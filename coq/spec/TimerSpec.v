(* TimerSpec.v — the DMG timer as the statement of C12 describes it, at machine-cycle granularity.
   Written from the statement, not from timer.go: the divider is a number modulo 2^16 and DIV is its
   quotient by 256; the multiplexer selects a *bit position* (9/3/5/7) tested with N.testbit; only the three
   meaningful TAC bits are kept; the overflow/reload sequence is an explicit three-valued phase that is
   advanced by the end of a machine cycle and by nothing else - in particular not by the divider.

   One machine cycle = the bus writes of that cycle (any number, in order) followed by [Tick], the end of the
   cycle, at which the selected signal is sampled. *)
From V.lib Require Import Bits.

(* operations of a schedule *)
Inductive top := Tick | WDiv (v : N) | WTima (v : N) | WTma (v : N) | WTac (v : N).

Definition wf_top (o : top) : Prop :=
  match o with Tick => True | WDiv v | WTima v | WTma v | WTac v => v < 256 end.

(* where the timer is in the overflow sequence *)
Inductive phase :=
| Running      (* nothing pending *)
| Zeroed       (* the cycle after an overflow: TIMA reads 0, the reload is pending *)
| Reloaded.    (* the cycle after the reload: TIMA writes are ignored, TMA writes go through to TIMA *)

Record tspec := mkTSpec {
  cnt : N;            (* 16-bit divider *)
  tima : N;
  tma : N;
  tac3 : N;           (* low three bits of the last TAC write *)
  sig_prev : bool;    (* the selected signal as sampled at the end of the previous machine cycle *)
  ph : phase
}.

Definition tspec_init (c0 : N) : tspec := mkTSpec c0 0 0 0 false Running.

(* which divider bit feeds TIMA for TAC & 3 = 0, 1, 2, 3 *)
Definition tap (sel : N) : N :=
  match sel with 0 => 9 | 1 => 3 | 2 => 5 | _ => 7 end.

(* sig = TAC enable AND selected divider bit *)
Definition sig_of (c t3 : N) : bool := N.testbit t3 2 && N.testbit c (tap (t3 mod 4)).
Definition sig (s : tspec) : bool := sig_of (cnt s) (tac3 s).

(* register reads *)
Definition tspec_div (s : tspec) : N := cnt s / 256.
Definition tspec_tima (s : tspec) : N := tima s.
Definition tspec_tma (s : tspec) : N := tma s.
Definition tspec_tac (s : tspec) : N := 248 + tac3 s.      (* upper five bits read 1 *)

(* register writes *)
Definition tspec_write (s : tspec) (o : top) : tspec :=
  match o with
  | Tick => s
  | WDiv _ => mkTSpec 0 (tima s) (tma s) (tac3 s) (sig_prev s) (ph s)
  | WTima v =>
      match ph s with
      | Reloaded => s                                                            (* ignored *)
      | Zeroed => mkTSpec (cnt s) v (tma s) (tac3 s) (sig_prev s) Running         (* cancels the reload *)
      | Running => mkTSpec (cnt s) v (tma s) (tac3 s) (sig_prev s) Running
      end
  | WTma v =>
      match ph s with
      | Reloaded => mkTSpec (cnt s) v v (tac3 s) (sig_prev s) Reloaded           (* also loads TIMA *)
      | p => mkTSpec (cnt s) (tima s) v (tac3 s) (sig_prev s) p
      end
  | WTac v => mkTSpec (cnt s) (tima s) (tma s) (v mod 8) (sig_prev s) (ph s)
  end.

(* the end of a machine cycle: the divider advances by 4, a pending reload happens, the signal is sampled and a
   falling edge increments TIMA; an increment that wraps is an overflow and requests the interrupt *)
Definition tspec_tick (s : tspec) : tspec * bool :=
  let c := (cnt s + 4) mod 65536 in
  let base := match ph s with Zeroed => tma s | _ => tima s end in
  let p := match ph s with Zeroed => Reloaded | _ => Running end in
  let now := sig_of c (tac3 s) in
  if sig_prev s && negb now then
    if base =? 255 then (mkTSpec c 0 (tma s) (tac3 s) now Zeroed, true)
    else (mkTSpec c (base + 1) (tma s) (tac3 s) now p, false)
  else (mkTSpec c base (tma s) (tac3 s) now p, false).

Definition tspec_step (s : tspec) (o : top) : tspec * bool :=
  match o with
  | Tick => tspec_tick s
  | _ => (tspec_write s o, false)
  end.

(* what a program can observe after an operation: the interrupt request of the operation (only a Tick can
   raise it) and the four registers *)
Definition obs := (bool * (N * N * N * N))%type.
Definition tspec_obs (s : tspec) : N * N * N * N := (tspec_div s, tspec_tima s, tspec_tma s, tspec_tac s).

Fixpoint tspec_trace (s : tspec) (ops : list top) : list obs :=
  match ops with
  | [] => []
  | o :: r => let '(s', irq) := tspec_step s o in (irq, tspec_obs s') :: tspec_trace s' r
  end.

Definition tspec_run (s : tspec) (ops : list top) : tspec := fold_left (fun s o => fst (tspec_step s o)) ops s.

(* ---- closed forms used by the corollaries ---- *)

(* machine cycles completed since the last DIV write (or since the start), and whether there was one *)
Fixpoint since_div (ops : list top) (base n : N) : N * N :=
  match ops with
  | [] => (base, n)
  | Tick :: r => since_div r base (n + 1)
  | WDiv _ :: r => since_div r 0 0
  | _ :: r => since_div r base n
  end.

(* the divider after a schedule started at c0: 4 per completed cycle since the last clearing, modulo 2^16 *)
Definition divider_after (c0 : N) (ops : list top) : N :=
  let '(base, n) := since_div ops c0 0 in (base + 4 * n) mod 65536.

Definition is_write (o : top) : bool := match o with Tick => false | _ => true end.

(* last value written to TIMA / TMA by a list of operations, if any *)
Fixpoint last_wtima (ws : list top) : option N :=
  match ws with
  | [] => None
  | o :: r => match last_wtima r with
              | Some v => Some v
              | None => match o with WTima v => Some v | _ => None end
              end
  end.
Fixpoint last_wtma (ws : list top) : option N :=
  match ws with
  | [] => None
  | o :: r => match last_wtma r with
              | Some v => Some v
              | None => match o with WTma v => Some v | _ => None end
              end
  end.

(* The divider, the TAC bits and the sampled signal depend on the schedule alone (not on TIMA/TMA): walking a
   schedule from divider c, TAC bits t3 and last sample smp gives their final values. *)
Fixpoint signal_walk (ops : list top) (c t3 : N) (smp : bool) : N * N * bool :=
  match ops with
  | [] => (c, t3, smp)
  | Tick :: r => let c' := (c + 4) mod 65536 in signal_walk r c' t3 (sig_of c' t3)
  | WDiv _ :: r => signal_walk r 0 t3 smp
  | WTac v :: r => signal_walk r c (v mod 8) smp
  | _ :: r => signal_walk r c t3 smp
  end.

(* sig as sampled at the end of the last completed machine cycle of a schedule started at divider c0 with the
   power-on registers (false before the first cycle ends) *)
Definition sampled (c0 : N) (ops : list top) : bool :=
  let '(_, _, smp) := signal_walk ops c0 0 false in smp.

(* an overflow: the end of a cycle at which TIMA is incremented from FF (after a pending reload, from TMA = FF) *)
Definition wraps (s : tspec) : bool :=
  sig_prev s && negb (sig_of ((cnt s + 4) mod 65536) (tac3 s))
  && ((match ph s with Zeroed => tma s | _ => tima s end) =? 255).

Fixpoint overflow_count (s : tspec) (ops : list top) : N :=
  match ops with
  | [] => 0
  | o :: r => (match o with Tick => b2n (wraps s) | _ => 0 end) + overflow_count (fst (tspec_step s o)) r
  end.

Fixpoint irq_count (tr : list obs) : N :=
  match tr with
  | [] => 0
  | (irq, _) :: r => b2n irq + irq_count r
  end.
