(* DmaSpec.v — OAM DMA as the statement of C16 (and Pan Docs "FF46 - DMA") describes it. *)
From V.lib Require Import Bits.

(* Writing XX to FF46 copies XX00-XX9F to FE00-FE9F; sources E000-FFFF are read through the work-RAM
   mirror, i.e. from C000-DFFF. *)
Definition dma_source (xx : N) : N := if xx <? 0xE0 then xx * 256 else xx * 256 - 0x2000.

Definition dma_bytes : N := 160.
(* the transfer is over after this many machine cycles *)
Definition dma_cycles : N := 162.

(* Byte i of OAM after the transfer: the source byte as it was when copied — the bus value of address
   source+i during the (i+2)-th cycle after the write (cycle numbers t0, t0+1, ... ; rd t is the bus during
   cycle t). *)
Definition dma_result (rd : N -> N -> N) (t0 xx i : N) : N := rd (t0 + i + 1) (dma_source xx + i).

(* the OAM region as the CPU addresses it *)
Definition in_oam_region (a : N) : Prop := 0xFE00 <= a /\ a <= 0xFEFF.
