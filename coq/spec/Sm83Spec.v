(* Sm83Spec.v — the SM83 instruction set as documented (Pan Docs / the "complete technical reference" per-cycle
   tables), written independently of the emulator's opcode tables: an instruction AST, a decoder by bit fields
   (x = op[7:6], y = op[5:3], z = op[2:0], p = y[2:1], q = y[0]), and a big-step semantics over architectural state and
   an abstract bus.  Flags are computed from arithmetic definitions (carry out of bit 3 / bit 7 / bit 11 / bit 15),
   never by the bit tricks of the implementation.  Each data access carries the machine cycle (1-based) in which the
   documentation places it; operand fetches from PC are not data accesses. *)
From V.lib Require Import Bits.
From V.model Require Import Uop.

(* ---------- architectural state ---------- *)
Record arch := mkArch {
  xa : N; xb : N; xc : N; xd : N; xe : N; xh : N; xl : N; xf : N; xsp : N; xpc : N;
  xhalted : bool; xhaltbug : bool; xstopped : bool;
  xeip : bool   (* EI executed: the master enable is set after the following instruction has been fetched *)
}.

Inductive dkind := DRead | DWrite.
Definition daccess := (N * dkind * N)%type.   (* (machine cycle, 1-based; kind; address) *)

(* ---------- instruction AST ---------- *)
Inductive r8 := rB | rC | rD | rE | rH | rL | rHLm | rA.      (* rHLm = (HL) *)
Inductive r16 := pBC | pDE | pHL | pSP.
Inductive r16s := qBC | qDE | qHL | qAF.
Inductive ccond := cNZ | cZ | cNC | cC.
Inductive ind := iBC | iDE | iHLI | iHLD.

Inductive instr :=
| INop | IStop | IHalt | IDi | IEi | IUndef
| ILdRR (d s : r8) | ILdRN (d : r8)
| ILdRPNN (p : r16) | ILdNNSP | ILdSPHL | ILdHLSP | IAddSP
| ILdIndA (i : ind) | ILdAInd (i : ind)
| ILdhNA | ILdhAN | ILdhCA | ILdhAC | ILdNNA | ILdANN
| IInc (r : r8) | IDec (r : r8) | IIncRP (p : r16) | IDecRP (p : r16) | IAddHL (p : r16)
| IAlu (o : aluop) (s : r8) | IAluN (o : aluop)
| IRlca | IRrca | IRla | IRra | IDaa | ICpl | IScf | ICcf
| IJr (c : option ccond) | IJp (c : option ccond) | IJpHL
| ICall (c : option ccond) | IRet (c : option ccond) | IReti | IRst (v : N)
| IPush (q : r16s) | IPop (q : r16s)
| ICbRot (o : rotop) (r : r8) | ICbBit (n : N) (r : r8) | ICbRes (n : N) (r : r8) | ICbSet (n : N) (r : r8).

Definition r8_of (i : N) : r8 :=
  match i with 0 => rB | 1 => rC | 2 => rD | 3 => rE | 4 => rH | 5 => rL | 6 => rHLm | _ => rA end.
Definition r16_of (i : N) : r16 := match i with 0 => pBC | 1 => pDE | 2 => pHL | _ => pSP end.
Definition r16s_of (i : N) : r16s := match i with 0 => qBC | 1 => qDE | 2 => qHL | _ => qAF end.
Definition cc_of (i : N) : ccond := match i with 0 => cNZ | 1 => cZ | 2 => cNC | _ => cC end.
Definition ind_of (i : N) : ind := match i with 0 => iBC | 1 => iDE | 2 => iHLI | _ => iHLD end.
Definition alu_of (i : N) : aluop :=
  match i with 0 => ADD | 1 => ADC | 2 => SUB | 3 => SBC | 4 => AND | 5 => XOR | 6 => OR | _ => CP end.
Definition rot_of (i : N) : rotop :=
  match i with 0 => OpRLC | 1 => OpRRC | 2 => OpRL | 3 => OpRR | 4 => OpSLA | 5 => OpSRA | 6 => OpSWAP | _ => OpSRL end.

Definition decode (op : N) : instr :=
  let x := op / 64 in
  let y := (op / 8) mod 8 in
  let z := op mod 8 in
  let p := y / 2 in
  let q := y mod 2 in
  match x with
  | 0 =>
      match z with
      | 0 => match y with
             | 0 => INop | 1 => ILdNNSP | 2 => IStop | 3 => IJr None
             | _ => IJr (Some (cc_of (y - 4)))
             end
      | 1 => if q =? 0 then ILdRPNN (r16_of p) else IAddHL (r16_of p)
      | 2 => if q =? 0 then ILdIndA (ind_of p) else ILdAInd (ind_of p)
      | 3 => if q =? 0 then IIncRP (r16_of p) else IDecRP (r16_of p)
      | 4 => IInc (r8_of y)
      | 5 => IDec (r8_of y)
      | 6 => ILdRN (r8_of y)
      | _ => match y with
             | 0 => IRlca | 1 => IRrca | 2 => IRla | 3 => IRra | 4 => IDaa | 5 => ICpl | 6 => IScf | _ => ICcf
             end
      end
  | 1 => if (z =? 6) && (y =? 6) then IHalt else ILdRR (r8_of y) (r8_of z)
  | 2 => IAlu (alu_of y) (r8_of z)
  | _ =>
      match z with
      | 0 => match y with
             | 4 => ILdhNA | 5 => IAddSP | 6 => ILdhAN | 7 => ILdHLSP
             | _ => IRet (Some (cc_of y))
             end
      | 1 => if q =? 0 then IPop (r16s_of p)
             else match p with 0 => IRet None | 1 => IReti | 2 => IJpHL | _ => ILdSPHL end
      | 2 => match y with
             | 4 => ILdhCA | 5 => ILdNNA | 6 => ILdhAC | 7 => ILdANN
             | _ => IJp (Some (cc_of y))
             end
      | 3 => match y with
             | 0 => IJp None | 6 => IDi | 7 => IEi
             | _ => IUndef      (* y = 1 is the CB prefix, handled before decoding *)
             end
      | 4 => if y <? 4 then ICall (Some (cc_of y)) else IUndef
      | 5 => if q =? 0 then IPush (r16s_of p)
             else if p =? 0 then ICall None else IUndef
      | 6 => IAluN (alu_of y)
      | _ => IRst (y * 8)
      end
  end.

Definition decode_cb (op : N) : instr :=
  let x := op / 64 in
  let y := (op / 8) mod 8 in
  let z := op mod 8 in
  match x with
  | 0 => ICbRot (rot_of y) (r8_of z)
  | 1 => ICbBit y (r8_of z)
  | 2 => ICbRes y (r8_of z)
  | _ => ICbSet y (r8_of z)
  end.

(* the 11 opcodes with no instruction (0xCB is the prefix) *)
Definition defined (op : N) : bool :=
  match decode op with IUndef => false | _ => true end.

(* ---------- flags ---------- *)
Definition pack (z n h c : bool) : N := 128 * b2n z + 64 * b2n n + 32 * b2n h + 16 * b2n c.
Definition fz (f : N) : bool := N.testbit f 7.
Definition fn (f : N) : bool := N.testbit f 6.
Definition fh (f : N) : bool := N.testbit f 5.
Definition fc (f : N) : bool := N.testbit f 4.

Definition cond_holds (c : ccond) (f : N) : bool :=
  match c with cNZ => negb (fz f) | cZ => fz f | cNC => negb (fc f) | cC => fc f end.

(* ---------- arithmetic, as documented ---------- *)
(* 8-bit ALU on A: (result stored in A, F) *)
Definition alu_doc (o : aluop) (a u f : N) : N * N :=
  let c := b2n (fc f) in
  match o with
  | ADD => let r := a + u in (r mod 256, pack (r mod 256 =? 0) false (16 <=? a mod 16 + u mod 16) (256 <=? r))
  | ADC => let r := a + u + c in (r mod 256, pack (r mod 256 =? 0) false (16 <=? a mod 16 + u mod 16 + c) (256 <=? r))
  | SUB => let r := (a + 256 - u) mod 256 in (r, pack (r =? 0) true (a mod 16 <? u mod 16) (a <? u))
  | SBC => let r := (a + 512 - u - c) mod 256 in (r, pack (r =? 0) true (a mod 16 <? u mod 16 + c) (a <? u + c))
  | AND => let r := N.land a u in (r, pack (r =? 0) false true false)
  | XOR => let r := N.lxor a u in (r, pack (r =? 0) false false false)
  | OR => let r := N.lor a u in (r, pack (r =? 0) false false false)
  | CP => let r := (a + 256 - u) mod 256 in (a, pack (r =? 0) true (a mod 16 <? u mod 16) (a <? u))
  end.

Definition inc_doc (r f : N) : N * N :=
  let r' := (r + 1) mod 256 in (r', pack (r' =? 0) false (r mod 16 =? 15) (fc f)).
Definition dec_doc (r f : N) : N * N :=
  let r' := (r + 255) mod 256 in (r', pack (r' =? 0) true (r mod 16 =? 0) (fc f)).

(* rotates / shifts: (result, F) with Z from the result *)
Definition rot_doc (o : rotop) (r f : N) : N * N :=
  let c := b2n (fc f) in
  let b7 := r / 128 in
  let b0 := r mod 2 in
  let res :=
    match o with
    | OpRLC => (2 * r) mod 256 + b7
    | OpRRC => r / 2 + 128 * b0
    | OpRL => (2 * r) mod 256 + c
    | OpRR => r / 2 + 128 * c
    | OpSLA => (2 * r) mod 256
    | OpSRA => r / 2 + 128 * b7
    | OpSWAP => (r mod 16) * 16 + r / 16
    | OpSRL => r / 2
    end in
  let cout :=
    match o with
    | OpRLC | OpRL | OpSLA => b7 =? 1
    | OpRRC | OpRR | OpSRA | OpSRL => b0 =? 1
    | OpSWAP => false
    end in
  (res, pack (res =? 0) false false cout).

(* RLCA / RLA / RRCA / RRA: as the CB forms on A but Z is always cleared *)
Definition rota_doc (o : rotop) (a f : N) : N * N :=
  let p := rot_doc o a f in (fst p, pack false false false (fc (snd p))).

(* DAA: decimal adjustment after an addition (N = 0) or a subtraction (N = 1) *)
Definition daa_doc (a f : N) : N * N :=
  if fn f then
    let corr := (if fh f then 6 else 0) + (if fc f then 96 else 0) in
    let r := (a + 256 - corr) mod 256 in
    (r, pack (r =? 0) true false (fc f))
  else
    let lo := fh f || (9 <? a mod 16) in
    let hi := fc f || (153 <? a) in
    let corr := (if lo then 6 else 0) + (if hi then 96 else 0) in
    let r := (a + corr) mod 256 in
    (r, pack (r =? 0) false false hi).

Definition cpl_doc (a f : N) : N * N := (255 - a, pack (fz f) true true (fc f)).
Definition scf_doc (f : N) : N := pack (fz f) false false true.
Definition ccf_doc (f : N) : N := pack (fz f) false false (negb (fc f)).

Definition addhl_doc (hl u f : N) : N * N :=
  ((hl + u) mod 65536, pack (fz f) false (4096 <=? hl mod 4096 + u mod 4096) (65536 <=? hl + u)).

(* sign-extended 8-bit displacement added to a 16-bit value *)
Definition add_disp (v e : N) : N := if e <? 128 then (v + e) mod 65536 else (v + 65536 - (256 - e)) mod 65536.

(* ADD SP,e and LD HL,SP+e: flags from the unsigned addition of the low byte *)
Definition addsp_doc (spv e : N) : N * N :=
  (add_disp spv e, pack false false (16 <=? spv mod 16 + e mod 16) (256 <=? spv mod 256 + e)).

(* ---------- state access ---------- *)
Definition set_xa v a := mkArch v (xb a) (xc a) (xd a) (xe a) (xh a) (xl a) (xf a) (xsp a) (xpc a) (xhalted a) (xhaltbug a) (xstopped a) (xeip a).
Definition set_xb v a := mkArch (xa a) v (xc a) (xd a) (xe a) (xh a) (xl a) (xf a) (xsp a) (xpc a) (xhalted a) (xhaltbug a) (xstopped a) (xeip a).
Definition set_xc v a := mkArch (xa a) (xb a) v (xd a) (xe a) (xh a) (xl a) (xf a) (xsp a) (xpc a) (xhalted a) (xhaltbug a) (xstopped a) (xeip a).
Definition set_xd v a := mkArch (xa a) (xb a) (xc a) v (xe a) (xh a) (xl a) (xf a) (xsp a) (xpc a) (xhalted a) (xhaltbug a) (xstopped a) (xeip a).
Definition set_xe v a := mkArch (xa a) (xb a) (xc a) (xd a) v (xh a) (xl a) (xf a) (xsp a) (xpc a) (xhalted a) (xhaltbug a) (xstopped a) (xeip a).
Definition set_xh v a := mkArch (xa a) (xb a) (xc a) (xd a) (xe a) v (xl a) (xf a) (xsp a) (xpc a) (xhalted a) (xhaltbug a) (xstopped a) (xeip a).
Definition set_xl v a := mkArch (xa a) (xb a) (xc a) (xd a) (xe a) (xh a) v (xf a) (xsp a) (xpc a) (xhalted a) (xhaltbug a) (xstopped a) (xeip a).
Definition set_xf v a := mkArch (xa a) (xb a) (xc a) (xd a) (xe a) (xh a) (xl a) v (xsp a) (xpc a) (xhalted a) (xhaltbug a) (xstopped a) (xeip a).
Definition set_xsp v a := mkArch (xa a) (xb a) (xc a) (xd a) (xe a) (xh a) (xl a) (xf a) v (xpc a) (xhalted a) (xhaltbug a) (xstopped a) (xeip a).
Definition set_xpc v a := mkArch (xa a) (xb a) (xc a) (xd a) (xe a) (xh a) (xl a) (xf a) (xsp a) v (xhalted a) (xhaltbug a) (xstopped a) (xeip a).
Definition set_xhalted v a := mkArch (xa a) (xb a) (xc a) (xd a) (xe a) (xh a) (xl a) (xf a) (xsp a) (xpc a) v (xhaltbug a) (xstopped a) (xeip a).
Definition set_xhaltbug v a := mkArch (xa a) (xb a) (xc a) (xd a) (xe a) (xh a) (xl a) (xf a) (xsp a) (xpc a) (xhalted a) v (xstopped a) (xeip a).
Definition set_xstopped v a := mkArch (xa a) (xb a) (xc a) (xd a) (xe a) (xh a) (xl a) (xf a) (xsp a) (xpc a) (xhalted a) (xhaltbug a) v (xeip a).
Definition set_xeip v a := mkArch (xa a) (xb a) (xc a) (xd a) (xe a) (xh a) (xl a) (xf a) (xsp a) (xpc a) (xhalted a) (xhaltbug a) (xstopped a) v.

Definition w16 (hi lo : N) : N := hi * 256 + lo.
Definition xhl (a : arch) : N := w16 (xh a) (xl a).
Definition xbc (a : arch) : N := w16 (xb a) (xc a).
Definition xde (a : arch) : N := w16 (xd a) (xe a).

Definition get16 (p : r16) (a : arch) : N :=
  match p with pBC => xbc a | pDE => xde a | pHL => xhl a | pSP => xsp a end.
Definition set16 (p : r16) (v : N) (a : arch) : arch :=
  match p with
  | pBC => set_xc (v mod 256) (set_xb (v / 256) a)
  | pDE => set_xe (v mod 256) (set_xd (v / 256) a)
  | pHL => set_xl (v mod 256) (set_xh (v / 256) a)
  | pSP => set_xsp v a
  end.

(* register operand other than (HL) *)
Definition getr (r : r8) (a : arch) : N :=
  match r with
  | rB => xb a | rC => xc a | rD => xd a | rE => xe a | rH => xh a | rL => xl a | rA => xa a
  | rHLm => 0
  end.
Definition setr (r : r8) (v : N) (a : arch) : arch :=
  match r with
  | rB => set_xb v a | rC => set_xc v a | rD => set_xd v a | rE => set_xe v a
  | rH => set_xh v a | rL => set_xl v a | rA => set_xa v a
  | rHLm => a
  end.
Definition is_mem (r : r8) : bool := match r with rHLm => true | _ => false end.

Definition inc16 (v : N) : N := (v + 1) mod 65536.
Definition dec16 (v : N) : N := (v + 65535) mod 65536.

Section Spec.
  Variable B : Type.
  Variable bus_rd : B -> N -> B * N.
  Variable bus_wr : B -> N -> N -> B.
  Variable bus_set_ime : B -> bool -> B.
  Variable bus_ime : B -> bool.
  Variable bus_pending : B -> N.

  Definition rdv (b : B) (a : N) : N := snd (bus_rd b a).
  Definition rdb (b : B) (a : N) : B := fst (bus_rd b a).

  (* result of one instruction: state, bus, data accesses (in order), machine cycles *)
  Definition outcome := (arch * B * list daccess * N)%type.

  Definition done (a : arch) (b : B) (t : list daccess) (n : N) : outcome := (a, b, t, n).

  Definition pc1 (a : arch) : arch := set_xpc (inc16 (xpc a)) a.

  (* the three shapes of an 8-bit operand: register (no access), (HL) (read in cycle k) *)
  Definition sem (i : instr) (a : arch) (b : B) : outcome :=
    match i with
    | INop => done a b [] 1
    | IStop => done (set_xstopped true a) b [] 1
    | IHalt =>
        if bus_ime b then done (set_xhalted true a) b [] 1
        else if bus_pending b =? 0 then done (set_xhalted true a) b [] 1
        else done (set_xhaltbug true a) b [] 1
    | IDi => done a (bus_set_ime b false) [] 1
    | IEi => done (set_xeip true a) b [] 1
    | IUndef => done a b [] 1
    | ILdRR d s =>
        match is_mem d, is_mem s with
        | false, false => done (setr d (getr s a) a) b [] 1
        | false, true => done (setr d (rdv b (xhl a)) a) (rdb b (xhl a)) [(2, DRead, xhl a)] 2
        | true, false => done a (bus_wr b (xhl a) (getr s a)) [(2, DWrite, xhl a)] 2
        | true, true => done a b [] 1
        end
    | ILdRN d =>
        let n := rdv b (xpc a) in
        let b1 := rdb b (xpc a) in
        let a1 := pc1 a in
        if is_mem d then done a1 (bus_wr b1 (xhl a1) n) [(3, DWrite, xhl a1)] 3
        else done (setr d n a1) b1 [] 2
    | ILdRPNN p =>
        let lo := rdv b (xpc a) in
        let b1 := rdb b (xpc a) in
        let a1 := pc1 a in
        let hi := rdv b1 (xpc a1) in
        let b2 := rdb b1 (xpc a1) in
        done (set16 p (w16 hi lo) (pc1 a1)) b2 [] 3
    | ILdNNSP =>
        let lo := rdv b (xpc a) in
        let b1 := rdb b (xpc a) in
        let a1 := pc1 a in
        let hi := rdv b1 (xpc a1) in
        let b2 := rdb b1 (xpc a1) in
        let a2 := pc1 a1 in
        let nn := w16 hi lo in
        let b3 := bus_wr b2 nn (xsp a2 mod 256) in
        let b4 := bus_wr b3 (inc16 nn) (xsp a2 / 256) in
        done a2 b4 [(4, DWrite, nn); (5, DWrite, inc16 nn)] 5
    | ILdSPHL => done (set_xsp (xhl a) a) b [] 2
    | ILdHLSP =>
        let e := rdv b (xpc a) in
        let b1 := rdb b (xpc a) in
        let a1 := pc1 a in
        let r := addsp_doc (xsp a1) e in
        done (set_xf (snd r) (set16 pHL (fst r) a1)) b1 [] 3
    | IAddSP =>
        let e := rdv b (xpc a) in
        let b1 := rdb b (xpc a) in
        let a1 := pc1 a in
        let r := addsp_doc (xsp a1) e in
        done (set_xf (snd r) (set_xsp (fst r) a1)) b1 [] 4
    | ILdIndA i0 =>
        match i0 with
        | iBC => done a (bus_wr b (xbc a) (xa a)) [(2, DWrite, xbc a)] 2
        | iDE => done a (bus_wr b (xde a) (xa a)) [(2, DWrite, xde a)] 2
        | iHLI => done (set16 pHL (inc16 (xhl a)) a) (bus_wr b (xhl a) (xa a)) [(2, DWrite, xhl a)] 2
        | iHLD => done (set16 pHL (dec16 (xhl a)) a) (bus_wr b (xhl a) (xa a)) [(2, DWrite, xhl a)] 2
        end
    | ILdAInd i0 =>
        match i0 with
        | iBC => done (set_xa (rdv b (xbc a)) a) (rdb b (xbc a)) [(2, DRead, xbc a)] 2
        | iDE => done (set_xa (rdv b (xde a)) a) (rdb b (xde a)) [(2, DRead, xde a)] 2
        | iHLI => done (set16 pHL (inc16 (xhl a)) (set_xa (rdv b (xhl a)) a)) (rdb b (xhl a)) [(2, DRead, xhl a)] 2
        | iHLD => done (set16 pHL (dec16 (xhl a)) (set_xa (rdv b (xhl a)) a)) (rdb b (xhl a)) [(2, DRead, xhl a)] 2
        end
    | ILdhNA =>
        let n := rdv b (xpc a) in
        let b1 := rdb b (xpc a) in
        let a1 := pc1 a in
        done a1 (bus_wr b1 (65280 + n) (xa a1)) [(3, DWrite, 65280 + n)] 3
    | ILdhAN =>
        let n := rdv b (xpc a) in
        let b1 := rdb b (xpc a) in
        let a1 := pc1 a in
        done (set_xa (rdv b1 (65280 + n)) a1) (rdb b1 (65280 + n)) [(3, DRead, 65280 + n)] 3
    | ILdhCA => done a (bus_wr b (65280 + xc a) (xa a)) [(2, DWrite, 65280 + xc a)] 2
    | ILdhAC => done (set_xa (rdv b (65280 + xc a)) a) (rdb b (65280 + xc a)) [(2, DRead, 65280 + xc a)] 2
    | ILdNNA =>
        let lo := rdv b (xpc a) in
        let b1 := rdb b (xpc a) in
        let a1 := pc1 a in
        let hi := rdv b1 (xpc a1) in
        let b2 := rdb b1 (xpc a1) in
        let a2 := pc1 a1 in
        done a2 (bus_wr b2 (w16 hi lo) (xa a2)) [(4, DWrite, w16 hi lo)] 4
    | ILdANN =>
        let lo := rdv b (xpc a) in
        let b1 := rdb b (xpc a) in
        let a1 := pc1 a in
        let hi := rdv b1 (xpc a1) in
        let b2 := rdb b1 (xpc a1) in
        let a2 := pc1 a1 in
        done (set_xa (rdv b2 (w16 hi lo)) a2) (rdb b2 (w16 hi lo)) [(4, DRead, w16 hi lo)] 4
    | IInc r =>
        if is_mem r then
          let p := inc_doc (rdv b (xhl a)) (xf a) in
          done (set_xf (snd p) a) (bus_wr (rdb b (xhl a)) (xhl a) (fst p)) [(2, DRead, xhl a); (3, DWrite, xhl a)] 3
        else let p := inc_doc (getr r a) (xf a) in done (set_xf (snd p) (setr r (fst p) a)) b [] 1
    | IDec r =>
        if is_mem r then
          let p := dec_doc (rdv b (xhl a)) (xf a) in
          done (set_xf (snd p) a) (bus_wr (rdb b (xhl a)) (xhl a) (fst p)) [(2, DRead, xhl a); (3, DWrite, xhl a)] 3
        else let p := dec_doc (getr r a) (xf a) in done (set_xf (snd p) (setr r (fst p) a)) b [] 1
    | IIncRP p => done (set16 p (inc16 (get16 p a)) a) b [] 2
    | IDecRP p => done (set16 p (dec16 (get16 p a)) a) b [] 2
    | IAddHL p =>
        let r := addhl_doc (xhl a) (get16 p a) (xf a) in
        done (set_xf (snd r) (set16 pHL (fst r) a)) b [] 2
    | IAlu o s =>
        if is_mem s then
          let r := alu_doc o (xa a) (rdv b (xhl a)) (xf a) in
          done (set_xf (snd r) (set_xa (fst r) a)) (rdb b (xhl a)) [(2, DRead, xhl a)] 2
        else
          let r := alu_doc o (xa a) (getr s a) (xf a) in
          done (set_xf (snd r) (set_xa (fst r) a)) b [] 1
    | IAluN o =>
        let n := rdv b (xpc a) in
        let b1 := rdb b (xpc a) in
        let a1 := pc1 a in
        let r := alu_doc o (xa a1) n (xf a1) in
        done (set_xf (snd r) (set_xa (fst r) a1)) b1 [] 2
    | IRlca => let p := rota_doc OpRLC (xa a) (xf a) in done (set_xf (snd p) (set_xa (fst p) a)) b [] 1
    | IRrca => let p := rota_doc OpRRC (xa a) (xf a) in done (set_xf (snd p) (set_xa (fst p) a)) b [] 1
    | IRla => let p := rota_doc OpRL (xa a) (xf a) in done (set_xf (snd p) (set_xa (fst p) a)) b [] 1
    | IRra => let p := rota_doc OpRR (xa a) (xf a) in done (set_xf (snd p) (set_xa (fst p) a)) b [] 1
    | IDaa => let p := daa_doc (xa a) (xf a) in done (set_xf (snd p) (set_xa (fst p) a)) b [] 1
    | ICpl => let p := cpl_doc (xa a) (xf a) in done (set_xf (snd p) (set_xa (fst p) a)) b [] 1
    | IScf => done (set_xf (scf_doc (xf a)) a) b [] 1
    | ICcf => done (set_xf (ccf_doc (xf a)) a) b [] 1
    | IJr c =>
        let e := rdv b (xpc a) in
        let b1 := rdb b (xpc a) in
        let a1 := pc1 a in
        let taken := match c with None => true | Some c0 => cond_holds c0 (xf a1) end in
        if taken then done (set_xpc (add_disp (xpc a1) e) a1) b1 [] 3 else done a1 b1 [] 2
    | IJp c =>
        let lo := rdv b (xpc a) in
        let b1 := rdb b (xpc a) in
        let a1 := pc1 a in
        let hi := rdv b1 (xpc a1) in
        let b2 := rdb b1 (xpc a1) in
        let a2 := pc1 a1 in
        let taken := match c with None => true | Some c0 => cond_holds c0 (xf a2) end in
        if taken then done (set_xpc (w16 hi lo) a2) b2 [] 4 else done a2 b2 [] 3
    | IJpHL => done (set_xpc (xhl a) a) b [] 1
    | ICall c =>
        let lo := rdv b (xpc a) in
        let b1 := rdb b (xpc a) in
        let a1 := pc1 a in
        let hi := rdv b1 (xpc a1) in
        let b2 := rdb b1 (xpc a1) in
        let a2 := pc1 a1 in
        let taken := match c with None => true | Some c0 => cond_holds c0 (xf a2) end in
        if taken then
          let s1 := dec16 (xsp a2) in
          let s2 := dec16 s1 in
          let b3 := bus_wr b2 s1 (xpc a2 / 256) in
          let b4 := bus_wr b3 s2 (xpc a2 mod 256) in
          done (set_xpc (w16 hi lo) (set_xsp s2 a2)) b4 [(5, DWrite, s1); (6, DWrite, s2)] 6
        else done a2 b2 [] 3
    | IRet c =>
        let taken := match c with None => true | Some c0 => cond_holds c0 (xf a) end in
        let k := match c with None => 2 | Some _ => 3 end in
        if taken then
          let lo := rdv b (xsp a) in
          let b1 := rdb b (xsp a) in
          let s1 := inc16 (xsp a) in
          let hi := rdv b1 s1 in
          let b2 := rdb b1 s1 in
          done (set_xpc (w16 hi lo) (set_xsp (inc16 s1) a)) b2 [(k, DRead, xsp a); (k + 1, DRead, s1)] (k + 2)
        else done a b [] 2
    | IReti =>
        let lo := rdv b (xsp a) in
        let b1 := rdb b (xsp a) in
        let s1 := inc16 (xsp a) in
        let hi := rdv b1 s1 in
        let b2 := rdb b1 s1 in
        done (set_xpc (w16 hi lo) (set_xsp (inc16 s1) a)) (bus_set_ime b2 true) [(2, DRead, xsp a); (3, DRead, s1)] 4
    | IRst v =>
        let s1 := dec16 (xsp a) in
        let s2 := dec16 s1 in
        let b1 := bus_wr b s1 (xpc a / 256) in
        let b2 := bus_wr b1 s2 (xpc a mod 256) in
        done (set_xpc v (set_xsp s2 a)) b2 [(3, DWrite, s1); (4, DWrite, s2)] 4
    | IPush q =>
        let hi := match q with qBC => xb a | qDE => xd a | qHL => xh a | qAF => xa a end in
        let lo := match q with qBC => xc a | qDE => xe a | qHL => xl a | qAF => xf a end in
        let s1 := dec16 (xsp a) in
        let s2 := dec16 s1 in
        let b1 := bus_wr b s1 hi in
        let b2 := bus_wr b1 s2 lo in
        done (set_xsp s2 a) b2 [(3, DWrite, s1); (4, DWrite, s2)] 4
    | IPop q =>
        let lo := rdv b (xsp a) in
        let b1 := rdb b (xsp a) in
        let s1 := inc16 (xsp a) in
        let hi := rdv b1 s1 in
        let b2 := rdb b1 s1 in
        let a1 := set_xsp (inc16 s1) a in
        let a2 :=
          match q with
          | qBC => set_xb hi (set_xc lo a1)
          | qDE => set_xd hi (set_xe lo a1)
          | qHL => set_xh hi (set_xl lo a1)
          | qAF => set_xa hi (set_xf (N.land lo 240) a1)   (* the low four bits of F do not exist *)
          end in
        done a2 b2 [(2, DRead, xsp a); (3, DRead, s1)] 3
    | ICbRot o r =>
        if is_mem r then
          let p := rot_doc o (rdv b (xhl a)) (xf a) in
          done (set_xf (snd p) a) (bus_wr (rdb b (xhl a)) (xhl a) (fst p)) [(3, DRead, xhl a); (4, DWrite, xhl a)] 4
        else let p := rot_doc o (getr r a) (xf a) in done (set_xf (snd p) (setr r (fst p) a)) b [] 2
    | ICbBit n r =>
        if is_mem r then
          done (set_xf (pack (negb (N.testbit (rdv b (xhl a)) n)) false true (fc (xf a))) a) (rdb b (xhl a))
               [(3, DRead, xhl a)] 3
        else done (set_xf (pack (negb (N.testbit (getr r a) n)) false true (fc (xf a))) a) b [] 2
    | ICbRes n r =>
        if is_mem r then
          let v := rdv b (xhl a) in
          done a (bus_wr (rdb b (xhl a)) (xhl a) (if N.testbit v n then v - 2 ^ n else v)) [(3, DRead, xhl a); (4, DWrite, xhl a)] 4
        else let v := getr r a in done (setr r (if N.testbit v n then v - 2 ^ n else v) a) b [] 2
    | ICbSet n r =>
        if is_mem r then
          let v := rdv b (xhl a) in
          done a (bus_wr (rdb b (xhl a)) (xhl a) (if N.testbit v n then v else v + 2 ^ n)) [(3, DRead, xhl a); (4, DWrite, xhl a)] 4
        else let v := getr r a in done (setr r (if N.testbit v n then v else v + 2 ^ n) a) b [] 2
    end.

  (* one whole instruction from a boundary: opcode fetch (two bytes on the CB page), then the semantics above.
     Halt bug: when set, the byte after HALT is used twice (PC is not advanced once). *)
  Definition spec_instr (a : arch) (b : B) : outcome :=
    let op := rdv b (xpc a) in
    let b1 := rdb b (xpc a) in
    if op =? 203 then
      let a1 := pc1 a in
      let op2 := rdv b1 (xpc a1) in
      let b2 := rdb b1 (xpc a1) in
      let a2 := if xhaltbug a1 then set_xhaltbug false a1 else pc1 a1 in
      sem (decode_cb op2) a2 b2
    else
      let a1 := if xhaltbug a then set_xhaltbug false a else pc1 a in
      sem (decode op) a1 b1.

  (* the cycle count alone, from the AST and the flags at the boundary *)
  Definition spec_cycles (i : instr) (f : N) : N :=
    let taken (c : option ccond) := match c with None => true | Some c0 => cond_holds c0 f end in
    match i with
    | INop | IStop | IHalt | IDi | IEi | IUndef => 1
    | ILdRR d s => if is_mem d && is_mem s then 1 else if is_mem d || is_mem s then 2 else 1
    | ILdRN d => if is_mem d then 3 else 2
    | ILdRPNN _ => 3 | ILdNNSP => 5 | ILdSPHL => 2 | ILdHLSP => 3 | IAddSP => 4
    | ILdIndA _ | ILdAInd _ => 2
    | ILdhNA | ILdhAN => 3 | ILdhCA | ILdhAC => 2 | ILdNNA | ILdANN => 4
    | IInc r | IDec r => if is_mem r then 3 else 1
    | IIncRP _ | IDecRP _ | IAddHL _ => 2
    | IAlu _ s => if is_mem s then 2 else 1
    | IAluN _ => 2
    | IRlca | IRrca | IRla | IRra | IDaa | ICpl | IScf | ICcf => 1
    | IJr c => if taken c then 3 else 2
    | IJp c => if taken c then 4 else 3
    | IJpHL => 1
    | ICall c => if taken c then 6 else 3
    | IRet None => 4
    | IRet (Some c) => if cond_holds c f then 5 else 2
    | IReti => 4 | IRst _ => 4 | IPush _ => 4 | IPop _ => 3
    | ICbRot _ r | ICbRes _ r | ICbSet _ r => if is_mem r then 4 else 2
    | ICbBit _ r => if is_mem r then 3 else 2
    end.
End Spec.
