(* AddrSpec.v — specification of the DMG address space for C06 (what every address reads back) and C07 (what a
   write may change).  Written from the DMG memory map (Pan Docs "Memory Map", "I/O Ranges", the register
   descriptions), NOT from memory/mapper.go:

     0000-7FFF  cartridge ROM / controller registers      FE00-FE9F  object attribute memory
     8000-9FFF  video RAM                                 FEA0-FEFF  not usable (reads 00 on a DMG when OAM is accessible)
     A000-BFFF  cartridge RAM window                      FF00-FF7F  I/O registers (list below; everything else
     C000-DFFF  work RAM                                             reads FF and ignores writes), FF30-FF3F wave RAM
     E000-FDFF  echo of C000-DDFF                         FF80-FFFE  high RAM        FFFF  IE

   Three parts:
     1. the region table  [spec_region : N -> region]  (page / offset arithmetic and a register -> address list),
        and the component [handler_of] a region must be served by;
     2. the abstract "last write wins" machine over bus histories and the register table
        (writable mask, bits that always read 1);
     3. [fp_ranges] / [footprint]: the documented effect set of a write. *)
From V.lib Require Import Bits Mem Res.
From V.model Require Import MapperTypes Cart System.

(* ------------------------------------------------------------------------------------------------- *)
(* 1. regions *)

Inductive region :=
| GRom            (* 0000-7FFF *)
| GVram           (* 8000-9FFF *)
| GCartRam        (* A000-BFFF *)
| GWram           (* C000-DFFF *)
| GEcho           (* E000-FDFF *)
| GOam            (* FE00-FE9F *)
| GUnusable       (* FEA0-FEFF *)
| GIo (r : ioreg) (* a hardware register, IE included *)
| GUnmapped       (* FF00-FF7F without a register *)
| GWave           (* FF30-FF3F *)
| GHram.          (* FF80-FFFE *)

(* the register list of the DMG: register -> address *)
Definition reg_addr (r : ioreg) : N :=
  match r with
  | R_JOYP => 0xFF00 | R_SB => 0xFF01 | R_SC => 0xFF02
  | R_DIV => 0xFF04 | R_TIMA => 0xFF05 | R_TMA => 0xFF06 | R_TAC => 0xFF07
  | R_IF => 0xFF0F
  | R_NR10 => 0xFF10 | R_NR11 => 0xFF11 | R_NR12 => 0xFF12 | R_NR13 => 0xFF13 | R_NR14 => 0xFF14
  | R_NR21 => 0xFF16 | R_NR22 => 0xFF17 | R_NR23 => 0xFF18 | R_NR24 => 0xFF19
  | R_NR30 => 0xFF1A | R_NR31 => 0xFF1B | R_NR32 => 0xFF1C | R_NR33 => 0xFF1D | R_NR34 => 0xFF1E
  | R_NR41 => 0xFF20 | R_NR42 => 0xFF21 | R_NR43 => 0xFF22 | R_NR44 => 0xFF23
  | R_NR50 => 0xFF24 | R_NR51 => 0xFF25 | R_NR52 => 0xFF26
  | R_LCDC => 0xFF40 | R_STAT => 0xFF41 | R_SCY => 0xFF42 | R_SCX => 0xFF43 | R_LY => 0xFF44 | R_LYC => 0xFF45
  | R_DMA => 0xFF46 | R_BGP => 0xFF47 | R_OBP0 => 0xFF48 | R_OBP1 => 0xFF49 | R_WY => 0xFF4A | R_WX => 0xFF4B
  | R_IE => 0xFFFF
  end.

Definition all_regs : list ioreg :=
  [ R_JOYP; R_SB; R_SC; R_DIV; R_TIMA; R_TMA; R_TAC; R_IF;
    R_NR10; R_NR11; R_NR12; R_NR13; R_NR14; R_NR21; R_NR22; R_NR23; R_NR24;
    R_NR30; R_NR31; R_NR32; R_NR33; R_NR34; R_NR41; R_NR42; R_NR43; R_NR44; R_NR50; R_NR51; R_NR52;
    R_LCDC; R_STAT; R_SCY; R_SCX; R_LY; R_LYC; R_DMA; R_BGP; R_OBP0; R_OBP1; R_WY; R_WX; R_IE ].

Definition reg_at (a : N) : option ioreg := find (fun r => reg_addr r =? a) all_regs.

Definition spec_region (a : N) : region :=
  let page := a / 256 in
  let off := a mod 256 in
  if page <? 0x80 then GRom
  else if page <? 0xA0 then GVram
  else if page <? 0xC0 then GCartRam
  else if page <? 0xE0 then GWram
  else if page <? 0xFE then GEcho
  else if page =? 0xFE then (if off <? 0xA0 then GOam else GUnusable)
  else match reg_at a with
       | Some r => GIo r
       | None => if 0x80 <=? off then GHram
                 else if (0x30 <=? off) && (off <? 0x40) then GWave
                 else GUnmapped
       end.

(* which component serves a region (the vocabulary of MapperTypes): work RAM and its echo are the same 8 KiB
   store, indexed from C000 resp. E000; both halves of page FE belong to the OAM component *)
Definition handler_of (g : region) : handler :=
  match g with
  | GRom | GCartRam => HMbc
  | GVram => HVideoRAM
  | GWram => HInternalRAM 0xC000
  | GEcho => HInternalRAM 0xE000
  | GOam | GUnusable => HOam
  | GIo r => HReg r
  | GUnmapped => HConstFF
  | GWave => HWaveRAM
  | GHram => HZeroPage 0xFF80
  end.

(* every 16-bit address, page by page: 256 * p + o *)
Definition all_addrs : list N := flat_map (fun p => map (fun o => 256 * p + o) bytes) bytes.

(* ------------------------------------------------------------------------------------------------- *)
(* 2. bus histories and the last-write machine *)

Inductive bop :=
| BRead (a : N)          (* Mapper.Read *)
| BWrite (a v : N)       (* Mapper.Write *)
| BHw.                   (* the hardware half of a machine cycle: PPU, DMA, RTC, APU, timer *)

Definition bus_step (s : sys) (o : bop) : res sys :=
  match o with
  | BRead a => do r <- sys_read s a; Ok (fst r)
  | BWrite a v => sys_write s a v
  | BHw => sys_hw_cycle s
  end.

Definition bus_run (s : sys) (h : list bop) : res sys :=
  fold_left (fun r o => do x <- r; bus_step x o) h (Ok s).

(* the value Mapper.Read returns *)
Definition peek (s : sys) (a : N) : res N := do r <- sys_read s a; Ok (snd r).

(* E000-FDFF and C000-DDFF name the same cell *)
Definition canon (a : N) : N := if (0xE000 <=? a) && (a <? 0xFE00) then a - 0x2000 else a.

(* abstract memory: canonical address -> byte; a write replaces exactly one cell, nothing else ever changes it *)
Definition amem := N -> N.
Definition amem_step (m : amem) (o : bop) : amem :=
  match o with
  | BWrite a v => fun x => if x =? canon a then v else m x
  | _ => m
  end.
Definition amem_run (m : amem) (h : list bop) : amem := fold_left amem_step h m.

(* the plain-memory regions of the statement *)
Definition is_wram (a : N) : bool := (0xC000 <=? a) && (a <? 0xE000).
Definition is_echo (a : N) : bool := (0xE000 <=? a) && (a <? 0xFE00).
Definition is_hram (a : N) : bool := (0xFF80 <=? a) && (a <? 0xFFFF).
Definition is_vram (a : N) : bool := (0x8000 <=? a) && (a <? 0xA000).
Definition is_oam (a : N) : bool := (0xFE00 <=? a) && (a <? 0xFEA0).
Definition is_unusable (a : N) : bool := (0xFEA0 <=? a) && (a <? 0xFF00).
Definition is_unmapped (a : N) : bool :=
  (a =? 0xFF03) || ((0xFF08 <=? a) && (a <=? 0xFF0E)) || (a =? 0xFF15) || (a =? 0xFF1F)
  || ((0xFF27 <=? a) && (a <=? 0xFF2F)) || ((0xFF4C <=? a) && (a <=? 0xFF7F)).

(* histories that keep the OAM accessible: no write to FF46 *)
Definition no_dma_start (h : list bop) : bool :=
  forallb (fun o => match o with BWrite a _ => negb (a =? 0xFF46) | _ => true end) h.
(* histories that keep the LCD off: no write to FF40 with bit 7 set *)
Definition keeps_lcd_off (h : list bop) : bool :=
  forallb (fun o => match o with BWrite a v => negb ((a =? 0xFF40) && N.testbit v 7) | _ => true end) h.

(* the register table: (bits that read back what was last written, bits that always read 1); the remaining bits
   are read-only status.  Registers that count or that belong to the sound unit (C18) are not in the table. *)
Definition reg_masks (r : ioreg) : option (N * N) :=
  match r with
  | R_IF => Some (0x1F, 0xE0)
  | R_TAC => Some (0x07, 0xF8)
  | R_TMA | R_SCY | R_SCX | R_LYC | R_BGP | R_WY | R_WX | R_LCDC | R_DMA | R_IE => Some (0xFF, 0x00)
  | R_OBP0 | R_OBP1 => Some (0xFF, 0x00)
  | R_STAT => Some (0x78, 0x80)            (* bits 2-0: coincidence and mode, read-only *)
  | R_JOYP => Some (0x30, 0xC0)            (* bits 3-0: the selected button lines (C22) *)
  | R_SB | R_SC => Some (0x00, 0xFF)       (* this emulator: serial registers read FF *)
  | _ => None
  end.

(* last value written to address a in a history (None if never written) *)
Definition last_written (a : N) (h : list bop) : option N :=
  fold_left (fun acc o => match o with BWrite x v => if x =? a then Some v else acc | _ => acc end) h None.

(* hardware cycles since the last write to a (true = at least one) *)
Definition hw_since_write (a : N) (h : list bop) : bool :=
  fold_left (fun acc o => match o with
                          | BWrite x _ => if x =? a then false else acc
                          | BHw => true
                          | BRead _ => acc
                          end) h false.

(* ------------------------------------------------------------------------------------------------- *)
(* 3. the documented effect set of a write to address a, as inclusive ranges of addresses whose read value may
      change.  Everything not listed must read the same before and after the write. *)

Definition mbc2_images (a : N) : list (N * N) :=
  map (fun k => let x := 0xA000 + 512 * k + (a - 0xA000) mod 512 in (x, x)) (upto 16).

Definition fp_ranges (k : kind) (a : N) : list (N * N) :=
  if a <? 0x8000 then [(0x0000, 0x7FFF); (0xA000, 0xBFFF)]          (* controller registers: both ROM windows, RAM window *)
  else if a <? 0xA000 then [(a, a)]
  else if a <? 0xC000 then
    match k with KMbc2 => mbc2_images a | _ => [(a, a)] end          (* MBC2: 512 half-bytes repeated *)
  else if a <? 0xDE00 then [(a, a); (a + 0x2000, a + 0x2000)]       (* work RAM and its echo *)
  else if a <? 0xE000 then [(a, a)]
  else if a <? 0xFE00 then [(a, a); (a - 0x2000, a - 0x2000)]
  else if a =? 0xFF06 then [(0xFF05, 0xFF06)]                        (* TMA: also TIMA during the reload cycle (C12) *)
  else if (a =? 0xFF10) || (a =? 0xFF12) || (a =? 0xFF14) || (a =? 0xFF17) || (a =? 0xFF19)
          || (a =? 0xFF21) || (a =? 0xFF23)
       then [(a, a); (0xFF26, 0xFF26)]                               (* sweep / envelope (DAC) / trigger: channel status in NR52 *)
  else if (a =? 0xFF1A) || (a =? 0xFF1E)
       then [(a, a); (0xFF26, 0xFF26); (0xFF30, 0xFF3F)]             (* channel 3 DAC / trigger: status, and the wave RAM view *)
  else if a =? 0xFF26 then [(0xFF10, 0xFF26); (0xFF30, 0xFF3F)]     (* power: all sound registers, and the wave RAM view *)
  else if (0xFF30 <=? a) && (a <? 0xFF40) then [(0xFF30, 0xFF3F)]   (* wave RAM (while channel 3 plays: the byte in use) *)
  else if a =? 0xFF40 then [(0xFF40, 0xFF41); (0xFF44, 0xFF44)]     (* LCDC: LCD off resets LY and the STAT mode *)
  else if a =? 0xFF46 then [(0xFF46, 0xFF46); (0xFE00, 0xFEFF)]     (* DMA: OAM is blocked, then overwritten *)
  else [(a, a)].

Definition in_ranges (l : list (N * N)) (b : N) : bool :=
  existsb (fun r => (fst r <=? b) && (b <=? snd r)) l.

Definition footprint (s : sys) (a b : N) : bool := in_ranges (fp_ranges (c_kind (s_cart s)) a) b.
