(* LcdSpec.v — the LCD frame schedule of a DMG as the statements of C13/C14 describe it, written as closed
   forms in k = number of machine cycles (PPU ticks) since the LCD was last switched on.  Independent of the
   code's representation (no tick counter, no mode variable, no first-line flag). *)
From V.lib Require Import Bits.

Definition line_len : N := 114.
Definition frame_len : N := 17556.          (* 154 lines x 114 cycles *)
Definition vblank_start : N := 16416.       (* 144 x 114 *)

(* Position inside the frame during the k-th cycle after switch-on (k >= 1): the first line is two cycles
   short, so positions 62 and 63 are skipped once. *)
Definition pos (k : N) : N := if k <=? 62 then k - 1 else (k + 1) mod frame_len.

Definition line_of (p : N) : N := p / line_len.
Definition dot_of (p : N) : N := p mod line_len.

(* STAT mode as a function of the position *)
Definition mode_at (p : N) : N :=
  if line_of p <? 144 then
    (if dot_of p <? 20 then 2 else if dot_of p <? 61 then 3 else 0)
  else 1.

(* Observed after k cycles; k = 0 is the state right after switching on, before the first cycle. *)
Definition spec_ly (k : N) : N := if k =? 0 then 0 else line_of (pos k).
Definition spec_mode (k : N) : N := if k =? 0 then 2 else mode_at (pos k).

(* ---- histories ---- *)
Inductive reg := LCDC | STAT | SCY | SCX | LY | LYC | BGP | OBP0 | OBP1 | WY | WX.

Definition reg_eqb (a b : reg) : bool :=
  match a, b with
  | LCDC, LCDC | STAT, STAT | SCY, SCY | SCX, SCX | LY, LY | LYC, LYC
  | BGP, BGP | OBP0, OBP0 | OBP1, OBP1 | WY, WY | WX, WX => true
  | _, _ => false
  end.

(* What can happen to the LCD controller: a machine cycle elapses, a register is written, or the rest of the
   machine does something (E is whatever the environment can do; the LCD schedule ignores it). *)
Inductive event (E : Type) :=
| Tick
| Write (r : reg) (v : N)
| Env (e : E).
Arguments Tick {E}.
Arguments Write {E} r v.
Arguments Env {E} e.

(* Abstract LCD state determined by the history alone *)
Record lcd := mkLcd {
  on : bool;              (* LCDC bit 7 as last written *)
  since : N;              (* cycles since the last off -> on transition *)
  ly_stale : bool;        (* LY was written, with the LCD on, since the last cycle: what it reads back
                             before the next cycle ends is left open *)
  ticked : bool;          (* at least one cycle elapsed with the LCD on *)
  lastw : reg -> N        (* last value written to each register *)
}.

Definition power_on_value (r : reg) : N :=
  match r with
  | LCDC => 0x91 | BGP => 0xFC | OBP0 => 0xFF | OBP1 => 0xFF | _ => 0
  end.

(* after construction: LCD on, no cycle elapsed yet *)
Definition lcd_init : lcd := mkLcd true 0 false false power_on_value.

Definition upd (f : reg -> N) (r : reg) (v : N) : reg -> N :=
  fun x => if reg_eqb x r then v else f x.

Definition lcd_step {E} (s : lcd) (e : event E) : lcd :=
  match e with
  | Tick => if on s then mkLcd true (since s + 1) false true (lastw s) else s
  | Write LCDC v =>
      if N.testbit v 7
      then (if on s then mkLcd true (since s) (ly_stale s) (ticked s) (upd (lastw s) LCDC v)
            else mkLcd true 0 false (ticked s) (upd (lastw s) LCDC v))
      else mkLcd false 0 false (ticked s) (upd (lastw s) LCDC v)
  | Write LY v => mkLcd (on s) (since s) (on s) (ticked s) (upd (lastw s) LY v)
  | Write r v => mkLcd (on s) (since s) (ly_stale s) (ticked s) (upd (lastw s) r v)
  | Env _ => s
  end.

Definition lcd_run {E} (h : list (event E)) : lcd := fold_left lcd_step h lcd_init.

(* ---- C13: what LY and the STAT mode bits must read ---- *)
Definition lcd_ly (s : lcd) : N := if on s then spec_ly (since s) else 0.
Definition lcd_mode (s : lcd) : N := if on s then spec_mode (since s) else 0.

(* ---- C14: request instants, as sets of k (k >= 1: the k-th cycle after switch-on) ---- *)
(* VBlank interrupt (IF bit 0) and the STAT VBlank source: when line 144 begins *)
Definition vblank_instant (k : N) : bool := pos k =? vblank_start.
(* STAT HBlank source: entry to mode 0, i.e. dot 61 of a line 0-143 *)
Definition hblank_instant (k : N) : bool := (dot_of (pos k) =? 61) && (line_of (pos k) <? 144).
(* STAT OAM source: the start of each line 0-143 *)
Definition oam_instant (k : N) : bool := (dot_of (pos k) =? 0) && (line_of (pos k) <? 144).
(* ... but the statement leaves open the start of line 144 and the cycle right after switch-on *)
Definition oam_open (k : N) : bool := (k =? 1) || (pos k =? vblank_start).
(* STAT LYC source: the start of line lyc; never for lyc > 153 *)
Definition lyc_instant (lyc k : N) : bool := (lyc <=? 153) && (pos k =? line_len * lyc).
(* what the comparison does in the cycle right after switch-on (LY was already 0) is left open *)
Definition lyc_open (k : N) : bool := k =? 1.

(* STAT enable bits 6..3 select exactly one source *)
Definition only_source (stat mask : N) : Prop := N.land stat 0x78 = mask.
Definition SRC_LYC : N := 0x40.
Definition SRC_OAM : N := 0x20.
Definition SRC_VBLANK : N := 0x10.
Definition SRC_HBLANK : N := 0x08.

(* a request observation [b] is acceptable for a source whose instants are [inst] and open cycles [open] *)
Definition req_ok (open inst : N -> bool) (k : N) (b : bool) : Prop :=
  open k = true \/ b = inst k.
Definition never_open (k : N) : bool := false.
