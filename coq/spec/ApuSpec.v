(* ApuSpec.v — specifications of the audio unit, written from the statements of C18-C21 and the DMG
   documentation they refer to, independently of the representation used by gameboy/audio:
     part 1 (C18): registers as a "last written value" map with the DMG read masks and the power switch;
     part 2 (C19): frame sequencer / length counter closed forms;
     part 3 (C20): sample clock closed forms and the mixer over exact rationals;
     part 4 (C21): waveform positions as quotients of elapsed clocks, noise period table, LFSR recurrence. *)
From V.lib Require Import Bits.
From Coq Require Import QArith.
Open Scope N_scope.

(* ================================================================================================= *)
(* Part 1 — C18 *)

Inductive reg :=
| NR10 | NR11 | NR12 | NR13 | NR14
| NR21 | NR22 | NR23 | NR24
| NR30 | NR31 | NR32 | NR33 | NR34
| NR41 | NR42 | NR43 | NR44
| NR50 | NR51.

Definition all_regs : list reg :=
  [NR10; NR11; NR12; NR13; NR14; NR21; NR22; NR23; NR24; NR30; NR31; NR32; NR33; NR34; NR41; NR42; NR43; NR44;
   NR50; NR51].

Definition reg_addr (r : reg) : N :=
  match r with
  | NR10 => 0xFF10 | NR11 => 0xFF11 | NR12 => 0xFF12 | NR13 => 0xFF13 | NR14 => 0xFF14
  | NR21 => 0xFF16 | NR22 => 0xFF17 | NR23 => 0xFF18 | NR24 => 0xFF19
  | NR30 => 0xFF1A | NR31 => 0xFF1B | NR32 => 0xFF1C | NR33 => 0xFF1D | NR34 => 0xFF1E
  | NR41 => 0xFF20 | NR42 => 0xFF21 | NR43 => 0xFF22 | NR44 => 0xFF23
  | NR50 => 0xFF24 | NR51 => 0xFF25
  end.

Definition NR52_addr : N := 0xFF26.

(* the DMG read masks of the statement *)
Definition reg_mask (r : reg) : N :=
  match r with
  | NR10 => 0x80 | NR11 => 0x3F | NR12 => 0x00 | NR13 => 0xFF | NR14 => 0xBF
  | NR21 => 0x3F | NR22 => 0x00 | NR23 => 0xFF | NR24 => 0xBF
  | NR30 => 0x7F | NR31 => 0xFF | NR32 => 0x9F | NR33 => 0xFF | NR34 => 0xBF
  | NR41 => 0xFF | NR42 => 0x00 | NR43 => 0x00 | NR44 => 0xBF
  | NR50 => 0x00 | NR51 => 0x00
  end.

Definition reg_eqb (x y : reg) : bool := reg_addr x =? reg_addr y.

Definition reg_of_addr (a : N) : option reg := find (fun r => a =? reg_addr r) all_regs.

(* bus events: a write of a byte to an address of FF10-FF3F, or one machine cycle *)
Inductive event := EWrite (a v : N) | ECycle.

Definition wf_event (e : event) : Prop := match e with EWrite _ v => v < 256 | ECycle => True end.

Record rspec := mkRSpec { last : reg -> N; power : bool }.

(* the state audio.New leaves behind: powered on, every register as after a power cycle, except that the
   sweep direction bit of NR10 reads 1 until NR10 is first written (the statement fixes no initial values) *)
Definition rspec_init : rspec := mkRSpec (fun r => match r with NR10 => 0x08 | _ => 0 end) true.

Definition rspec_step (s : rspec) (e : event) : rspec :=
  match e with
  | ECycle => s                                       (* time never changes a readable register *)
  | EWrite a v =>
      if a =? NR52_addr then
        if N.testbit v 7 then mkRSpec (last s) true   (* power on: nothing else changes *)
        else mkRSpec (fun _ => 0) false               (* power off: everything cleared *)
      else
        match reg_of_addr a with
        | Some r => if power s then mkRSpec (fun x => if reg_eqb x r then v else last s x) true
                    else s                            (* ignored while off *)
        | None => s                                   (* wave RAM, unused addresses *)
        end
  end.

Definition rspec_run (h : list event) : rspec := fold_left rspec_step h rspec_init.

Definition rspec_read (s : rspec) (r : reg) : N :=
  if power s then N.lor (last s r) (reg_mask r) else reg_mask r.
