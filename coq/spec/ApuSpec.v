(* ApuSpec.v — specifications of the audio unit, written from the statements of C18-C21 and the DMG
   documentation they refer to, independently of the representation used by gameboy/audio:
     part 1 (C18): registers as a "last written value" map with the DMG read masks and the power switch;
     part 2 (C19): frame sequencer / length counter closed forms;
     part 3 (C20): sample clock closed forms and the mixer over exact rationals;
     part 4 (C21): waveform positions as quotients of elapsed clocks, noise period table, LFSR recurrence. *)
From V.lib Require Import Bits.
From Coq Require Import QArith.
Open Scope N_scope.

(* ================================================================================================= *)
(* Part 1 — C18 *)

Inductive reg :=
| NR10 | NR11 | NR12 | NR13 | NR14
| NR21 | NR22 | NR23 | NR24
| NR30 | NR31 | NR32 | NR33 | NR34
| NR41 | NR42 | NR43 | NR44
| NR50 | NR51.

Definition all_regs : list reg :=
  [NR10; NR11; NR12; NR13; NR14; NR21; NR22; NR23; NR24; NR30; NR31; NR32; NR33; NR34; NR41; NR42; NR43; NR44;
   NR50; NR51].

Definition reg_addr (r : reg) : N :=
  match r with
  | NR10 => 0xFF10 | NR11 => 0xFF11 | NR12 => 0xFF12 | NR13 => 0xFF13 | NR14 => 0xFF14
  | NR21 => 0xFF16 | NR22 => 0xFF17 | NR23 => 0xFF18 | NR24 => 0xFF19
  | NR30 => 0xFF1A | NR31 => 0xFF1B | NR32 => 0xFF1C | NR33 => 0xFF1D | NR34 => 0xFF1E
  | NR41 => 0xFF20 | NR42 => 0xFF21 | NR43 => 0xFF22 | NR44 => 0xFF23
  | NR50 => 0xFF24 | NR51 => 0xFF25
  end.

Definition NR52_addr : N := 0xFF26.

(* the DMG read masks of the statement *)
Definition reg_mask (r : reg) : N :=
  match r with
  | NR10 => 0x80 | NR11 => 0x3F | NR12 => 0x00 | NR13 => 0xFF | NR14 => 0xBF
  | NR21 => 0x3F | NR22 => 0x00 | NR23 => 0xFF | NR24 => 0xBF
  | NR30 => 0x7F | NR31 => 0xFF | NR32 => 0x9F | NR33 => 0xFF | NR34 => 0xBF
  | NR41 => 0xFF | NR42 => 0x00 | NR43 => 0x00 | NR44 => 0xBF
  | NR50 => 0x00 | NR51 => 0x00
  end.

Definition reg_eqb (x y : reg) : bool := reg_addr x =? reg_addr y.

Definition reg_of_addr (a : N) : option reg := find (fun r => a =? reg_addr r) all_regs.

(* bus events: a write of a byte to an address of FF10-FF3F, or one machine cycle *)
Inductive event := EWrite (a v : N) | ECycle.

Definition wf_event (e : event) : Prop := match e with EWrite _ v => v < 256 | ECycle => True end.

Record rspec := mkRSpec { last : reg -> N; power : bool }.

(* the state audio.New leaves behind: powered on, every register as after a power cycle, except that the
   sweep direction bit of NR10 reads 1 until NR10 is first written (the statement fixes no initial values) *)
Definition rspec_init : rspec := mkRSpec (fun r => match r with NR10 => 0x08 | _ => 0 end) true.

Definition rspec_step (s : rspec) (e : event) : rspec :=
  match e with
  | ECycle => s                                       (* time never changes a readable register *)
  | EWrite a v =>
      if a =? NR52_addr then
        if N.testbit v 7 then mkRSpec (last s) true   (* power on: nothing else changes *)
        else mkRSpec (fun _ => 0) false               (* power off: everything cleared *)
      else
        match reg_of_addr a with
        | Some r => if power s then mkRSpec (fun x => if reg_eqb x r then v else last s x) true
                    else s                            (* ignored while off *)
        | None => s                                   (* wave RAM, unused addresses *)
        end
  end.

Definition rspec_run (h : list event) : rspec := fold_left rspec_step h rspec_init.

Definition rspec_read (s : rspec) (r : reg) : N :=
  if power s then N.lor (last s r) (reg_mask r) else reg_mask r.

(* ================================================================================================= *)
(* Part 2 — C19: frame sequencer and length counters as functions of elapsed clock cycles.
   A state of the sample clock is (k, q): k = clock cycles already consumed in the current emulated second
   (0 <= k < 4194304), q = index of the next frame-sequencer step (0 <= q < 512; even steps clock the length
   counters).  The sequencer steps every 8192 clocks: the m-th clock from now (m >= 1) is a step iff
   (k + m) mod 8192 = 0. *)

(* sequencer steps among the next n clocks *)
Definition seq_hits (k n : N) : N := (k mod 8192 + n) / 8192.

(* length clocks among the next n clocks: the steps with an even index *)
Definition lc_count (k q n : N) : N := (seq_hits k n + (1 - q mod 2)) / 2.

(* is the m-th clock from now a length clock? *)
Definition length_clock_at (k q m : N) : bool :=
  (0 <? m) && ((k + m) mod 8192 =? 0) && (((q + seq_hits k (m - 1)) mod 512) mod 2 =? 0).

(* The documented DMG algorithm for the length counter when NRx4 is written with trigger and length enable
   (full = 64, or 256 for channel 3; L0 = counter before the write; oldEn = length was already enabled;
   first_half = the next sequencer step does not clock length): *)
Definition trigger_length (full L0 : N) (oldEn first_half : bool) : N :=
  let L1 := if negb oldEn && (0 <? L0) && first_half then L0 - 1 else L0 in   (* extra clock when length gets enabled *)
  let L2 := if L1 =? 0 then full else L1 in                                   (* a trigger reloads an empty counter *)
  if first_half && (L2 =? full) then full - 1 else L2.                        (* full counter in the first half: one less *)

(* ================================================================================================= *)
(* Part 3 — C20: the sample clock and the mixer.
   The APU's sample clock counts 1 .. 4194304 and restarts; a stereo pair is due whenever the count is a multiple
   of 95.  With k clocks of the current second already consumed, the m-th clock from now carries the count
   ((k + m - 1) mod 4194304) + 1. *)
Definition sample_due (k m : N) : bool := (((k + m - 1) mod 4194304) + 1) mod 95 =? 0.

(* pairs due among the first x clocks of the stream (x counted from a restart of the sample clock):
   44150 per full second (= 4194304 / 95 rounded down), one per 95 clocks within a second *)
Definition pairs_upto (x : N) : N := (x / 4194304) * 44150 + (x mod 4194304) / 95.

(* pairs due among the next n clocks when k clocks of the current second are consumed *)
Definition pairs_between (k n : N) : N := pairs_upto (k + n) - pairs_upto k.

(* the mixer over exact rationals: each routed channel contributes its level, the sum is divided by 4 and scaled
   by volume/8 and the fixed master volume 0.6 *)
Open Scope Q_scope.
Definition q_square (level volume : N) : Q := inject_Z (Z.of_N level) * (inject_Z (Z.of_N volume) / 8).
Definition q_wave (sample : N) : Q := inject_Z (Z.of_N sample) / 15.
Definition q_mix (b1 b2 b3 b4 : bool) (w1 w2 w3 w4 : Q) (vol : N) : Q :=
  ((if b1 then w1 else 0) + (if b2 then w2 else 0) + (if b3 then w3 else 0) + (if b4 then w4 else 0)) / 4
  * (inject_Z (Z.of_N vol) / 8 * (6 # 10)).
Close Scope Q_scope.

(* ================================================================================================= *)
(* Part 4 — C21: waveform generators as functions of the number of elapsed clock cycles.
   n counts the clock cycles after the machine cycle in which the trigger was written (n = 1 is the first). *)

(* channels 1 and 2: one of 8 duty steps every 4 * (2048 - f) clocks; a trigger does not reset the position *)
Definition square_step_period (f : N) : N := 4 * (2048 - f).
Definition duty_position (start f n : N) : N := (start + (n - 1) / square_step_period f) mod 8.

(* channel 3: one of 32 samples every 2 * (2048 - f) clocks; a trigger resets the position to 0 *)
Definition wave_step_period (f : N) : N := 2 * (2048 - f).
Definition wave_position (f n : N) : N := ((n - 1) / wave_step_period f) mod 32.

(* channel 4: divisor table of the statement and the clock period d(r) * 2^s *)
Definition noise_divisor (r : N) : N :=
  match r with 0 => 8 | 1 => 16 | 2 => 32 | 3 => 48 | 4 => 64 | 5 => 80 | 6 => 96 | _ => 112 end.
Definition noise_clock_period (r s : N) : N := noise_divisor r * 2 ^ s.
Definition noise_steps (r s n : N) : N := (n - 1) / noise_clock_period r s.

(* the documented shift register: 15 bits; feedback = bit 0 xor bit 1; shift right; feedback into bit 14 and,
   in 7-bit mode, also into bit 6 (replacing what was shifted there) *)
Definition dmg_lfsr_next (short : bool) (x : N) : N :=
  let fb := b2n (xorb (N.testbit x 0) (N.testbit x 1)) in
  let y := x / 2 in
  let y := y mod 16384 + 16384 * fb in
  if short then (y / 128) * 128 + 64 * fb + y mod 64 else y.
Definition dmg_lfsr_start : N := 32767.     (* all 15 bits set by a trigger *)
Definition dmg_lfsr_seq (short : bool) (k : N) : N := N.iter k (dmg_lfsr_next short) dmg_lfsr_start.
