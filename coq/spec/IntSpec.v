(* IntSpec.v — interrupt dispatch and HALT as documented (Pan Docs, "Interrupts" and "halt"), over the abstract bus.
   Dispatch: the master enable is cleared, the IF bit of the highest-priority pending interrupt (lowest bit number:
   VBlank 0, STAT 1, Timer 2, Serial 3, Joypad 4) is cleared, PC is pushed (high byte first) and execution continues at
   0x40 + 8*bit, five machine cycles after the boundary (six when the CPU was halted). *)
From V.lib Require Import Bits.
From V.spec Require Import Sm83Spec.

Definition lowest_bit (p : N) : N :=
  if N.testbit p 0 then 0 else if N.testbit p 1 then 1 else if N.testbit p 2 then 2 else if N.testbit p 3 then 3 else 4.

Definition vector (i : N) : N := 64 + 8 * i.

Section IntSpec.
  Variable B : Type.
  Variable bus_wr : B -> N -> N -> B.
  Variable bus_set_ime : B -> bool -> B.
  Variable bus_pending : B -> N.
  Variable bus_ack : B -> N -> B.

  (* the architectural effect of dispatching from state a on bus b (b = the bus at the moment of acknowledgement) *)
  Definition spec_dispatch (a : arch) (b : B) : arch * B :=
    let b0 := bus_set_ime b false in
    let i := lowest_bit (bus_pending b0) in
    let s1 := dec16 (xsp a) in
    let s2 := dec16 s1 in
    (set_xhalted false (set_xpc (vector i) (set_xsp s2 a)),
     bus_wr (bus_wr (bus_ack b0 i) s1 (xpc a / 256)) s2 (xpc a mod 256)).
End IntSpec.
