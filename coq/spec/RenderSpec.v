(* RenderSpec.v — the DMG composition of one pixel, written from the statement of C15 and the DMG documentation
   (Pan Docs: "Tile Data", "Tile Maps", "OAM", "LCDC", "Palettes", "Scrolling"), over the integers Z: no
   fixed-width arithmetic, no wrap-around; subtraction is integer subtraction.

   Only the data of a scene is shared with the model (the [scene] record: register fields, VRAM, OAM).

   - a tile is 16 bytes, two per row: first the low bit plane, then the high bit plane; bit 7 is the leftmost
     pixel; colour number = 2*high + low
   - the background is a 256x256 map; the screen shows it from (SCX, SCY), wrapping modulo 256
   - LCDC.4 selects tile addressing: 8000 + 16*n (n unsigned) or 9000 + 16*n (n signed); LCDC.3 / LCDC.6 select
     the map (9800 / 9C00) of background / window
   - the window covers screen pixels with x + 7 >= WX and y >= WY and shows its map from its own origin
   - OAM entry i: bytes Y, X, tile, attributes; the object covers screen pixels Y-16 <= y < Y-8, X-8 <= x < X
     (so an object partly outside any edge of the screen is clipped, not hidden); only the first ten objects
     of a line in OAM order are displayed; attributes: bit 7 BG priority, bit 6 Y flip, bit 5 X flip,
     bit 4 palette (OBP0 / OBP1); colour 0 is transparent
   - among opaque object pixels the object with the smaller X wins, at equal X the one first in OAM
   - the object pixel is shown unless the object has BG priority and the background / window colour is not 0
   - BGP / OBP0 / OBP1 map colour c to the shade in bits 2c+1..2c; shade 0 is white, 3 is black *)
From Coq Require Import ZArith.
From V.lib Require Import Bits Mem.
From V.model Require Import Render.
Open Scope Z_scope.

Definition vbyte (s : scene) (a : Z) : Z := Z.of_N (Mem.get (vram s) (Z.to_N a)).   (* a = address - 8000h *)
Definition obyte (s : scene) (a : Z) : Z := Z.of_N (Mem.get (oam s) (Z.to_N a)).    (* a = address - FE00h *)

Definition zbit (v i : Z) : Z := (v / 2 ^ i) mod 2.

(* colour number of pixel (px, py), 0 <= px, py < 8, of the tile whose 16 bytes start at VRAM offset base *)
Definition tile_colour (s : scene) (base px py : Z) : Z :=
  let lo := vbyte s (base + 2 * py) in
  let hi := vbyte s (base + 2 * py + 1) in
  2 * zbit hi (7 - px) + zbit lo (7 - px).

Definition signed_byte (n : Z) : Z := if n <? 128 then n else n - 256.

(* VRAM offset of BG / window tile number n *)
Definition bg_tile_base (s : scene) (n : Z) : Z :=
  if lowTileData s then 16 * n (* 8000h + 16 n *) else 4096 + 16 * signed_byte n (* 9000h + 16 n, n signed *).

Definition map_base (high : bool) : Z := if high then 7168 (* 9C00h *) else 6144 (* 9800h *).

(* colour number at pixel (px, py) of a 256x256 tile map *)
Definition map_colour (s : scene) (high : bool) (px py : Z) : Z :=
  let n := vbyte s (map_base high + 32 * (py / 8) + px / 8) in
  tile_colour s (bg_tile_base s n) (px mod 8) (py mod 8).

Definition SCX s := Z.of_N (scx s).
Definition SCY s := Z.of_N (scy s).
Definition WX s := Z.of_N (wx s).
Definition WY s := Z.of_N (wy s).

Definition background_colour (s : scene) (x y : Z) : Z :=
  map_colour s (highBgTileMap s) ((x + SCX s) mod 256) ((y + SCY s) mod 256).

Definition in_window (s : scene) (x y : Z) : bool :=
  windowEnabled s && (WX s <=? x + 7) && (WY s <=? y).

Definition window_colour (s : scene) (x y : Z) : Z :=
  map_colour s (highWindowTileMap s) (x - (WX s - 7)) (y - WY s).

Definition bgwin_colour (s : scene) (x y : Z) : Z :=
  if in_window s x y then window_colour s x y else background_colour s x y.

(* ---- objects ---- *)
Definition obj_y (s : scene) (i : N) : Z := obyte s (4 * Z.of_N i).
Definition obj_x (s : scene) (i : N) : Z := obyte s (4 * Z.of_N i + 1).
Definition obj_tile (s : scene) (i : N) : Z := obyte s (4 * Z.of_N i + 2).
Definition obj_attr (s : scene) (i : N) : Z := obyte s (4 * Z.of_N i + 3).
Definition attr_bit (s : scene) (i : N) (b : Z) : bool := zbit (obj_attr s i) b =? 1.

Definition obj_on_line (s : scene) (y : Z) (i : N) : bool :=
  (obj_y s i - 16 <=? y) && (y <? obj_y s i - 8).

(* the objects displayed on line y: the first ten, in OAM order, whose rows include y *)
Definition line_objects (s : scene) (y : Z) : list N :=
  firstn 10 (filter (obj_on_line s y) (upto 40)).

(* colour number object i contributes at (x, y); 0 = nothing (outside its columns, or transparent) *)
Definition obj_colour (s : scene) (x y : Z) (i : N) : Z :=
  if (obj_x s i - 8 <=? x) && (x <? obj_x s i) then
    let px := x - (obj_x s i - 8) in
    let py := y - (obj_y s i - 16) in
    tile_colour s (16 * obj_tile s i)
                (if attr_bit s i 5 then 7 - px else px)
                (if attr_bit s i 6 then 7 - py else py)
  else 0.

(* the winning object: smallest X among the opaque ones, the earliest in OAM at equal X *)
Definition pick (s : scene) (x y : Z) (best : option N) (i : N) : option N :=
  if obj_colour s x y i =? 0 then best
  else match best with
       | None => Some i
       | Some b => if obj_x s i <? obj_x s b then Some i else best
       end.

Definition top_object (s : scene) (x y : Z) : option N :=
  if spritesEnabled s then fold_left (pick s x y) (line_objects s y) None else None.

(* ---- palettes ---- *)
(* the register byte whose four 2-bit fields are the entries of a colour table *)
Definition pal_reg (p : pal) : Z := Z.of_N (64 * c3 p + 16 * c2 p + 4 * c1 p + c0 p).
Definition BGP s := pal_reg (bgpColour s).
Definition OBP0 s := pal_reg (obp0Colour s).
Definition OBP1 s := pal_reg (obp1Colour s).

Definition shade_of (reg c : Z) : Z := (reg / 4 ^ c) mod 4.

(* ---- the pixel: shade 0 (white) .. 3 (black) ---- *)
Definition spec_shade (s : scene) (x y : Z) : Z :=
  let bg := bgwin_colour s x y in
  match top_object s x y with
  | Some i =>
      if attr_bit s i 7 && negb (bg =? 0) then shade_of (BGP s) bg
      else shade_of (if attr_bit s i 4 then OBP1 s else OBP0 s) (obj_colour s x y i)
  | None => shade_of (BGP s) bg
  end.

Definition spec_pixel (s : scene) (x y : N) : N := Z.to_N (spec_shade s (Z.of_N x) (Z.of_N y)).

(* ---- the hypotheses of C15 ---- *)
Definition byte_mem (m : Mem.t) : Prop := forall a, (Mem.get m a < 256)%N.
Definition pal_ok (p : pal) : Prop := (c0 p < 4 /\ c1 p < 4 /\ c2 p < 4 /\ c3 p < 4)%N.

(* well-formedness: cells and registers are bytes, palette tables hold 2-bit shades *)
Definition scene_wf (s : scene) : Prop :=
  byte_mem (vram s) /\ byte_mem (oam s) /\
  (scx s < 256 /\ scy s < 256 /\ wx s < 256 /\ wy s < 256)%N /\
  pal_ok (bgpColour s) /\ pal_ok (obp0Colour s) /\ pal_ok (obp1Colour s).

(* background enabled, 8x8 objects, window (when on) at WX 7..166 *)
Definition regs_ok (s : scene) : Prop :=
  bgEnabled s = true /\ spritesLarge s = false /\
  (windowEnabled s = true -> 7 <= WX s <= 166).

(* at most ten objects on line y, and those ordered by X in OAM *)
Definition line_ok (s : scene) (y : Z) : Prop :=
  (length (filter (obj_on_line s y) (upto 40)) <= 10)%nat /\
  (forall i j, (i < j < 40)%N -> obj_on_line s y i = true -> obj_on_line s y j = true ->
               obj_x s i <= obj_x s j).

Definition hyp (s : scene) : Prop :=
  scene_wf s /\ regs_ok s /\ forall y, 0 <= y < 144 -> line_ok s y.
