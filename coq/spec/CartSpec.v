(* CartSpec.v — cartridge behaviour as the statements of C08 / C09 describe it (Pan Docs register semantics),
   independent of the code's representation:
   - a controller register is "the value most recently written to its address region" (a search in the write
     history), not a field updated by a state machine;
   - the selected banks are arithmetic functions of those registers;
   - cartridge RAM is a function (bank, offset) -> byte updated pointwise.
   Nothing here mentions the model. *)
From V.lib Require Import Bits.

Inductive ctrl := RomOnly | Mbc1 | Mbc2 | Mbc3 | Mbc5.

(* ---- header ---- *)
Definition ctrl_of_type (t : N) : option ctrl :=
  if t =? 0 then Some RomOnly
  else if (1 <=? t) && (t <=? 3) then Some Mbc1
  else if (5 <=? t) && (t <=? 6) then Some Mbc2
  else if (15 <=? t) && (t <=? 19) then Some Mbc3       (* 0F-13 *)
  else if (25 <=? t) && (t <=? 30) then Some Mbc5       (* 19-1E *)
  else None.

(* 8 KiB RAM banks per RAM-size code; a single bank when the header declares none (or an unknown code) *)
Definition ram_banks_of_code (k : N) : N :=
  if k =? 3 then 4 else if k =? 4 then 16 else if k =? 5 then 8 else 1.
Definition spec_nram (c : ctrl) (ramcode : N) : N :=
  match c with Mbc2 => 1 | _ => ram_banks_of_code ramcode end.

(* ---- registers as functions of the write history ---- *)
Definition write := (N * N)%type.        (* address, value *)

Definition last_write (p : N -> bool) (h : list write) : option N :=
  option_map snd (find (fun w => p (fst w)) (rev h)).
Definition reg (p : N -> bool) (dflt : N) (h : list write) : N :=
  match last_write p h with Some v => v | None => dflt end.

Definition between (lo hi a : N) : bool := (lo <=? a) && (a <? hi).
Definition a8 (a : N) : bool := N.testbit a 8.
Definition nz (x : N) : N := if x =? 0 then 1 else x.          (* "writing 0 selects 1" *)

(* MBC1: 5-bit BANK1 (2000-3FFF, 0 -> 1), 2-bit BANK2 (4000-5FFF), 1-bit MODE (6000-7FFF) *)
Definition mbc1_bank1 (h : list write) : N := nz (reg (between 8192 16384) 1 h mod 32).
Definition mbc1_bank2 (h : list write) : N := reg (between 16384 24576) 0 h mod 4.
Definition mbc1_mode (h : list write) : bool := reg (between 24576 32768) 0 h mod 2 =? 1.
(* MBC2: 4-bit bank, written below 4000 with address bit 8 set, 0 -> 1 *)
Definition mbc2_bank (h : list write) : N := nz (reg (fun a => (a <? 16384) && a8 a) 1 h mod 16).
(* MBC3: 7-bit bank (2000-3FFF), 0 -> 1 *)
Definition mbc3_bank (h : list write) : N := nz (reg (between 8192 16384) 1 h mod 128).
(* MBC5: 9-bit bank, low 8 bits at 2000-2FFF, bit 8 at 3000-3FFF; 0 is allowed *)
Definition mbc5_bank (h : list write) : N :=
  256 * (reg (between 12288 16384) 0 h mod 2) + reg (between 8192 12288) 1 h.

(* bank shown in the window containing addr (before reduction modulo the ROM size) *)
Definition spec_bank (c : ctrl) (h : list write) (addr : N) : N :=
  if addr <? 16384 then
    match c with
    | Mbc1 => if mbc1_mode h then 32 * mbc1_bank2 h else 0
    | _ => 0
    end
  else
    match c with
    | RomOnly => 1
    | Mbc1 => 32 * mbc1_bank2 h + mbc1_bank1 h
    | Mbc2 => mbc2_bank h
    | Mbc3 => mbc3_bank h
    | Mbc5 => mbc5_bank h
    end.

(* C08: the byte visible at addr < 0x8000; [rom] is the image, [nbanks] its number of 16 KiB banks *)
Definition spec_rom_read (c : ctrl) (nbanks : N) (rom : N -> N) (h : list write) (addr : N) : N :=
  rom ((spec_bank c h addr mod nbanks) * 16384 + addr mod 16384).

(* ROM sizes each controller's registers can address (16 KiB banks): the reduction "modulo the ROM size" of
   the documented register is only meaningful up to there *)
Definition addressable (c : ctrl) (nbanks : N) : bool :=
  match c with
  | Mbc5 => nbanks <=? 512
  | _ => true
  end.

(* ---- cartridge RAM ---- *)
Definition enable_region (c : ctrl) (a : N) : bool :=
  match c with
  | RomOnly => false
  | Mbc2 => (a <? 16384) && negb (a8 a)
  | _ => a <? 8192
  end.
Definition ram_enabled (c : ctrl) (h : list write) : bool := reg (enable_region c) 0 h mod 16 =? 10.

(* what the window A000-BFFF shows *)
Inductive target := TRam (bank : N) | TClock (sel : N) | TNothing.
Definition ram_select (h : list write) : N := reg (between 16384 24576) 0 h mod 16.
Definition ram_target (c : ctrl) (nram : N) (h : list write) : target :=
  match c with
  | RomOnly => TNothing
  | Mbc1 => TRam (if mbc1_mode h then mbc1_bank2 h mod nram else 0)
  | Mbc2 => TRam 0
  | Mbc3 => if ram_select h <? 8 then TRam (ram_select h mod nram) else TClock (ram_select h)
  | Mbc5 => TRam (ram_select h mod nram)
  end.

Definition store := N -> N -> N.          (* bank, offset -> byte *)
Definition store_init : store := fun _ _ => 255.
Definition store_upd (s : store) (b o v : N) : store :=
  fun b' o' => if (b' =? b) && (o' =? o) then v else s b' o'.

(* the cell a window address names: MBC2 has 512 cells repeated; the others 8 KiB per bank *)
Definition cell (c : ctrl) (addr : N) : N :=
  match c with Mbc2 => (addr - 40960) mod 512 | _ => addr - 40960 end.
(* what a cell keeps of a written byte: MBC2 keeps the low half-byte, the upper four bits read as 1 *)
Definition kept (c : ctrl) (v : N) : N :=
  match c with Mbc2 => 240 + v mod 16 | _ => v end.

(* abstract machine: the write history so far and the RAM contents *)
Record ramspec := mkRamSpec { rs_hist : list write; rs_store : store }.
Definition ramspec_init : ramspec := mkRamSpec [] store_init.

Definition ramspec_write (c : ctrl) (nram : N) (s : ramspec) (w : write) : ramspec :=
  let (a, v) := w in
  let st :=
    if between 40960 49152 a && ram_enabled c (rs_hist s) then
      match ram_target c nram (rs_hist s) with
      | TRam b => store_upd (rs_store s) b (cell c a) (kept c v)
      | _ => rs_store s
      end
    else rs_store s in
  mkRamSpec (rs_hist s ++ [w]) st.

Definition ramspec_run (c : ctrl) (nram : N) (ws : list write) : ramspec :=
  fold_left (ramspec_write c nram) ws ramspec_init.

(* value read at A000-BFFF; None = the window shows a clock register (C10 constrains it, C09 does not) *)
Definition ramspec_read (c : ctrl) (nram : N) (s : ramspec) (addr : N) : option N :=
  if ram_enabled c (rs_hist s) then
    match ram_target c nram (rs_hist s) with
    | TRam b => Some (rs_store s b (cell c addr))
    | TClock sel => if sel <=? 12 then None else Some 255
    | TNothing => Some 255
    end
  else Some 255.

(* the RAM dump: the stored banks one after the other *)
Definition dump_len (c : ctrl) (nram : N) : N :=
  match c with RomOnly => 0 | Mbc2 => 512 | _ => nram * 8192 end.
Definition dump_at (c : ctrl) (s : ramspec) (i : N) : N :=
  match c with
  | Mbc2 => rs_store s 0 i
  | _ => rs_store s (i / 8192) (i mod 8192)
  end.
