(* SpecExec.v — the documented instruction semantics instantiated on the simple bus, so that the correspondence
   can also compare the implementation directly with the specification (used when a proof obligation about a
   regenerated table no longer checks and the model therefore follows the changed code). *)
From V.lib Require Import Bits.
From V.model Require Import Uop Alu Cpu Ints SimpleBus.
From V.spec Require Import Sm83Spec.

Definition arch_of (s : cpu) : arch :=
  mkArch (ra s) (rb s) (rc s) (rd s) (re s) (rh s) (rl s) (rf s) (sp s) (pc s)
         (halted s) (haltbug s) (stopped s) (eip s).

(* write an architectural state back into a CPU record that is at an instruction boundary *)
Definition cpu_of_arch (a : arch) (s : cpu) : cpu :=
  mkCpu (xa a) (xb a) (xc a) (xd a) (xe a) (xf a) (xh a) (xl a) (xsp a) (xpc a)
        (xhalted a) (xhaltbug a) (xstopped a) (xeip a)
        0 0 0 0 [] 0%nat None (mooneye s) (fault s) [].

Definition sb_spec_instr (sb : cpu * sbus) : cpu * sbus * list daccess * N :=
  let o := spec_instr sbus sb_rd sb_wr sb_set_ime sb_ime sb_pending (arch_of (fst sb)) (snd sb) in
  (cpu_of_arch (fst (fst (fst o))) (fst sb), snd (fst (fst o)), snd (fst o), snd o).

Definition sb_opcode_defined (sb : cpu * sbus) : bool :=
  let op := snd (sb_rd (snd sb) (pc (fst sb))) in
  if op =? 203 then true else defined op.
