(* JoypadSpec.v — the JOYP register as the statement of C22 describes it, independent of the code's
   representation: which buttons are held is a function of the event history; the register is assembled
   bit by bit. *)
From V.lib Require Import Bits.

Inductive button := Up | Down | Left | Right | BtnA | BtnB | Start | Select.

Definition button_eqb (x y : button) : bool :=
  match x, y with
  | Up, Up | Down, Down | Left, Left | Right, Right
  | BtnA, BtnA | BtnB, BtnB | Start, Start | Select, Select => true
  | _, _ => false
  end.

Definition opposite (b : button) : option button :=
  match b with
  | Up => Some Down | Down => Some Up | Left => Some Right | Right => Some Left
  | _ => None
  end.

Inductive event := Press (b : button) | Release (b : button) | WriteSel (v : N).

Record jspec := mkJSpec { held : button -> bool; sel : N }.

(* power-on: nothing held, both select lines low (the register's reset value) *)
Definition jspec_init : jspec := mkJSpec (fun _ => false) 15.

Definition jspec_step (s : jspec) (e : event) : jspec :=
  match e with
  | Press b =>
      mkJSpec (fun x => if button_eqb x b then true
                        else match opposite b with
                             | Some o => if button_eqb x o then false else held s x
                             | None => held s x
                             end) (sel s)
  | Release b => mkJSpec (fun x => if button_eqb x b then false else held s x) (sel s)
  | WriteSel v => mkJSpec (held s) v
  end.

Definition jspec_run (h : list event) : jspec := fold_left jspec_step h jspec_init.

(* line i of the low nibble: direction button and action button wired to it *)
Definition dir_of_line (i : N) : button :=
  match i with 0 => Right | 1 => Left | 2 => Up | _ => Down end.
Definition btn_of_line (i : N) : button :=
  match i with 0 => BtnA | 1 => BtnB | 2 => Select | _ => Start end.

Definition dirs_selected (s : jspec) : bool := negb (N.testbit (sel s) 4).
Definition btns_selected (s : jspec) : bool := negb (N.testbit (sel s) 5).

(* a line reads 0 exactly when a held button of a selected group pulls it low *)
Definition line_low (s : jspec) (i : N) : bool :=
  (dirs_selected s && held s (dir_of_line i)) || (btns_selected s && held s (btn_of_line i)).

Definition jspec_read (s : jspec) : N :=
  128 + 64
  + 32 * b2n (N.testbit (sel s) 5) + 16 * b2n (N.testbit (sel s) 4)
  + 8 * b2n (negb (line_low s 3)) + 4 * b2n (negb (line_low s 2))
  + 2 * b2n (negb (line_low s 1)) + b2n (negb (line_low s 0)).
