(* RtcSpec.v — the MBC3 real-time clock as the statement of C10 and Pan Docs describe it:
   - four hardware counters (seconds 6 bits / 60, minutes 6 bits / 60, hours 5 bits / 24, days 9 bits / 512);
     a counter that stands at modulus-1 returns to 0 and carries; any other value just counts up within its bit
     width (so an out-of-range value such as 63 wraps to 0 WITHOUT carrying);
   - one second per 1,048,576 machine cycles while not halted;
   - the registers visible to the program are a snapshot taken when the latch register receives a value
     with bit 0 = 1 right after one with bit 0 = 0;
   - writes go to the running counters; a seconds write restarts the sub-second count.
   Nothing here mentions the model. *)
From V.lib Require Import Bits.

Record clock := mkClock { k_sec : N; k_min : N; k_hour : N; k_day : N; k_carry : bool; k_halt : bool }.

Definition clock_zero : clock := mkClock 0 0 0 0 false false.

(* one counter: width in bits, modulus, current value -> next value and carry-out *)
Definition ctr_step (w m v : N) : N * bool :=
  if v =? m - 1 then (0, true) else ((v + 1) mod 2 ^ w, false).

(* one second: the cascade seconds -> minutes -> hours -> days -> day-carry flag (sticky) *)
Definition second (k : clock) : clock :=
  let (s, cs) := ctr_step 6 60 (k_sec k) in
  let (m, cm) := if cs then ctr_step 6 60 (k_min k) else (k_min k, false) in
  let (h, ch) := if cm then ctr_step 5 24 (k_hour k) else (k_hour k, false) in
  let (d, cd) := if ch then ctr_step 9 512 (k_day k) else (k_day k, false) in
  mkClock s m h d (k_carry k || cd) (k_halt k).

Definition cycles_per_second : N := 1048576.

(* in-range clocks as a number of seconds *)
Definition in_range (k : clock) : Prop := k_sec k < 60 /\ k_min k < 60 /\ k_hour k < 24 /\ k_day k < 512.
Definition total_seconds (k : clock) : N := k_sec k + 60 * k_min k + 3600 * k_hour k + 86400 * k_day k.
Definition period : N := 512 * 86400.

(* ---- the clock as the program sees it ---- *)
Record rtcspec := mkRtcSpec {
  sp_live : clock;                  (* running counters *)
  sp_sub : N;                       (* machine cycles since the last whole second *)
  sp_snap : clock;                  (* latched copy *)
  sp_latch : option N               (* the value most recently written to the latch register *)
}.

Definition rtcspec_init : rtcspec := mkRtcSpec clock_zero 0 clock_zero None.

Inductive rtc_event :=
| EvCycles (n : N)             (* n machine cycles pass *)
| EvLatch (v : N)              (* v written to 6000-7FFF *)
| EvWrite (sel v : N).         (* v written to A000-BFFF with register sel mapped *)

Definition elapse (s : rtcspec) (n : N) : rtcspec :=
  if k_halt (sp_live s) then s
  else
    let t := sp_sub s + n in
    mkRtcSpec (N.iter (t / cycles_per_second) second (sp_live s)) (t mod cycles_per_second) (sp_snap s) (sp_latch s).

Definition with_sec (k : clock) (x : N) := mkClock x (k_min k) (k_hour k) (k_day k) (k_carry k) (k_halt k).
Definition with_min (k : clock) (x : N) := mkClock (k_sec k) x (k_hour k) (k_day k) (k_carry k) (k_halt k).
Definition with_hour (k : clock) (x : N) := mkClock (k_sec k) (k_min k) x (k_day k) (k_carry k) (k_halt k).

Definition reg_write (s : rtcspec) (sel v : N) : rtcspec :=
  let k := sp_live s in
  if sel =? 8 then mkRtcSpec (with_sec k (v mod 64)) 0 (sp_snap s) (sp_latch s)
  else if sel =? 9 then mkRtcSpec (with_min k (v mod 64)) (sp_sub s) (sp_snap s) (sp_latch s)
  else if sel =? 10 then mkRtcSpec (with_hour k (v mod 32)) (sp_sub s) (sp_snap s) (sp_latch s)
  else if sel =? 11 then
    mkRtcSpec (mkClock (k_sec k) (k_min k) (k_hour k) (256 * (k_day k / 256 mod 2) + v) (k_carry k) (k_halt k))
              (sp_sub s) (sp_snap s) (sp_latch s)
  else if sel =? 12 then
    mkRtcSpec (mkClock (k_sec k) (k_min k) (k_hour k) (256 * (v mod 2) + k_day k mod 256)
                       (N.testbit v 7) (N.testbit v 6))
              (sp_sub s) (sp_snap s) (sp_latch s)
  else s.

Definition latch_write (s : rtcspec) (v : N) : rtcspec :=
  let rising := match sp_latch s with
                | Some u => negb (N.testbit u 0) && N.testbit v 0
                | None => false
                end in
  mkRtcSpec (sp_live s) (sp_sub s) (if rising then sp_live s else sp_snap s) (Some v).

Definition rtcspec_step (s : rtcspec) (e : rtc_event) : rtcspec :=
  match e with
  | EvCycles n => elapse s n
  | EvLatch v => latch_write s v
  | EvWrite sel v => reg_write s sel v
  end.

Definition rtcspec_run (h : list rtc_event) : rtcspec := fold_left rtcspec_step h rtcspec_init.

(* register read: the snapshot, masked to the register widths; control = day bit 8, halt (bit 6), carry (bit 7) *)
Definition rtcspec_read (s : rtcspec) (sel : N) : N :=
  let k := sp_snap s in
  if sel =? 8 then k_sec k mod 64
  else if sel =? 9 then k_min k mod 64
  else if sel =? 10 then k_hour k mod 32
  else if sel =? 11 then k_day k mod 256
  else if sel =? 12 then k_day k / 256 mod 2 + 64 * b2n (k_halt k) + 128 * b2n (k_carry k)
  else 255.
