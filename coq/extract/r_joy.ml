open Model
open Util

let st = ref joy_init

let () =
  on_reset (fun () -> st := joy_init);
  register "joy.new" (fun _ -> st := joy_init);
  register "joy.w" (fun a -> st := joy_step !st (JWrite (an a 1)));
  register "joy.b" (fun a -> st := joy_step !st (JButton (an a 1, ab a 2)));
  register "joy.r" (fun _ -> emit (string_of_int (int_of_n (joy_read !st))))
