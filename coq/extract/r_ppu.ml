(* r_ppu.ml — script operations on the extracted PPU-timing / OAM model; mirrors harness/run/ops_ppu.go *)
open Model
open Util

let o = ref oam_init
let p = ref (fst (ppu_new oam_init))
let ifr = ref 0
let dma_t = ref 0

let pnew () =
  let (p0, o0) = ppu_new oam_init in
  p := p0; o := o0; ifr := 1 (* interrupts.New writes IF = 0x01 *); dma_t := 0

let dma_src addr t a b = (((addr land 0xff) * a) + ((addr lsr 8) * 3) + (t * b) + 5) land 0xff

let b2i b = if b then 1 else 0
let ni = int_of_n

(* run-length encoder *)
let rle_buf = Buffer.create 4096
let rle_last = ref ""
let rle_n = ref 0
let rle_reset () = Buffer.clear rle_buf; rle_last := ""; rle_n := 0
let rle_flush () =
  if !rle_n > 0 then Buffer.add_string rle_buf (Printf.sprintf " %s*%d" !rle_last !rle_n);
  rle_n := 0
let rle_add s =
  if s = !rle_last && !rle_n > 0 then incr rle_n
  else begin rle_flush (); rle_last := s; rle_n := 1 end
let rle_get () = rle_flush (); Buffer.contents rle_buf

let ppu_write reg v =
  match reg with
  | 0x40 -> let (p1, o1) = ppu_write_lcdc !p !o v in p := p1; o := o1
  | 0x41 -> p := ppu_write_stat !p v
  | 0x42 -> p := ppu_write_scy !p v
  | 0x43 -> p := ppu_write_scx !p v
  | 0x44 -> p := ppu_write_ly !p v
  | 0x45 -> p := ppu_write_lyc !p v
  | 0x47 -> p := ppu_write_bgp !p v
  | 0x48 -> p := ppu_write_obp0 !p v
  | 0x49 -> p := ppu_write_obp1 !p v
  | 0x4a -> p := ppu_write_wy !p v
  | 0x4b -> p := ppu_write_wx !p v
  | _ -> raise (Crash_ "explicit")

let ppu_read reg =
  match reg with
  | 0x40 -> ppu_read_lcdc !p
  | 0x41 -> ppu_read_stat !p
  | 0x42 -> ppu_read_scy !p
  | 0x43 -> ppu_read_scx !p
  | 0x44 -> ppu_read_ly !p
  | 0x45 -> ppu_read_lyc !p
  | 0x47 -> ppu_read_bgp !p
  | 0x48 -> ppu_read_obp0 !p
  | 0x49 -> ppu_read_obp1 !p
  | 0x4a -> ppu_read_wy !p
  | 0x4b -> ppu_read_wx !p
  | _ -> raise (Crash_ "explicit")

let () =
  on_reset pnew;
  register "ppu.new" (fun _ -> pnew (); emit "new");
  register "ppu.tick" (fun a ->
    rle_reset ();
    for _ = 1 to ai a 1 do
      let ((p1, o1), req) = ok (ppu_tick !p !o) in
      p := p1; o := o1; ifr := ni req;
      rle_add (Printf.sprintf "%d,%d,%d" (ni (ppu_read_ly !p)) ((ni (ppu_read_stat !p)) land 7) (!ifr land 3))
    done;
    emit ("T" ^ rle_get ()));
  register "ppu.w" (fun a ->
    ppu_write (ai a 1) (n_of_int ((ai a 2) land 0xff));
    emit (Printf.sprintf "w %d %d" (ai a 1) ((ai a 2) land 0xff)));
  (* register writes request nothing in the model: ppu_write returns no request mask *)
  register "ppu.wi" (fun a ->
    ppu_write (ai a 1) (n_of_int ((ai a 2) land 0xff));
    emit (Printf.sprintf "w %d %d" (ai a 1) ((ai a 2) land 0xff));
    emit "I 0");
  register "ppu.r" (fun a -> emit (string_of_int (ni (ppu_read (ai a 1)))));
  register "ppu.st" (fun _ ->
    let s = !p and m = !o in
    emit (Printf.sprintf "ppu en=%d mode=%d ticks=%d first=%d ly=%d co=%d | oam corrupt=%d pla=%d r=%d w=%d dw=%d"
            (b2i s.p_enabled) (ni s.p_mode) (ni s.p_ticks) (b2i s.p_firstLine) (ni s.p_ly) (b2i s.p_coincidence)
            (b2i m.o_corrupt) (ni m.o_ppuLastAccess) (b2i m.o_read) (b2i m.o_write) (b2i m.o_doubleWrite)));
  register "ppu.ov" (fun _ ->
    let b = Buffer.create 48 in
    for i = 0 to 39 do Buffer.add_char b (if ppu_overlap !p (n_of_int i) then '1' else '0') done;
    emit ("ov " ^ Buffer.contents b));
  register "vram.w" (fun a -> p := ok (ppu_write_vram !p (an a 1) (n_of_int ((ai a 2) land 0xff))));
  register "vram.r" (fun a -> emit (string_of_int (ni (ok (ppu_read_vram !p (an a 1))))));
  register "if.clear" (fun _ -> ifr := 0);
  register "if.r" (fun _ -> emit (string_of_int (!ifr land 0x1f)));

  register "oam.w" (fun a -> o := ok (oam_write !o (an a 1) (n_of_int ((ai a 2) land 0xff))));
  register "oam.r" (fun a -> let (o1, v) = ok (oam_read !o (an a 1)) in o := o1; emit (string_of_int (ni v)));
  register "oam.pr" (fun a -> let (o1, v) = ok (oam_ppu_read !o (an a 1)) in o := o1; emit (string_of_int (ni v)));
  register "oam.trig" (fun a -> o := oam_trigger_write_corruption !o (an a 1));
  register "oam.corrupt" (fun _ -> o := ok (oam_corrupt !o));
  register "oam.enter" (fun _ -> o := oam_enter_mode2 !o);
  register "oam.exit" (fun _ -> o := oam_exit_mode2 !o);
  register "oam.pla" (fun a -> o := set_ppuLastAccess !o (an a 1));
  register "oam.fill" (fun a ->
    let l = List.init 160 (fun i -> n_of_int ((i * ai a 1 + ai a 2) land 0xff)) in
    o := set_mem !o (write_run (!o).o_mem N0 l));
  register "oam.dump" (fun _ ->
    let b = Buffer.create 330 in
    List.iter (fun x -> Buffer.add_string b (Printf.sprintf "%02x" (ni x))) (oam_bytes !o);
    emit ("oam " ^ Buffer.contents b));
  register "oam.st" (fun _ ->
    let m = !o in
    emit (Printf.sprintf "dma run=%d cyc=%d base=%d rd=%d | corrupt=%d pla=%d r=%d w=%d dw=%d"
            (b2i m.o_dmaRunning) (ni m.o_dmaCycle) (ni m.o_dmaBaseAddr) (ni m.o_dmaRead)
            (b2i m.o_corrupt) (ni m.o_ppuLastAccess) (b2i m.o_read) (b2i m.o_write) (b2i m.o_doubleWrite)));
  register "dma.start" (fun a -> o := oam_write_dma !o (n_of_int ((ai a 1) land 0xff)));
  register "dma.r" (fun _ -> emit (string_of_int (ni (oam_read_dma !o))));
  register "dma.run" (fun a ->
    rle_reset ();
    let ca = ai a 2 and cb = ai a 3 in
    for _ = 1 to ai a 1 do
      let t = !dma_t in
      o := ok (oam_tick_dma (fun addr -> n_of_int (dma_src (ni addr) t ca cb)) !o);
      incr dma_t;
      let (o1, v) = ok (oam_read !o (n_of_int (0xfe00 + ((37 * !dma_t) land 0xff)))) in
      o := o1;
      rle_add (string_of_int (ni v))
    done;
    emit ("D" ^ rle_get ()))
