(* r_sys.ml — script operations of the whole-machine model (System.v) *)
open Model
open Util

let st : (cpu * sys) option ref = ref None
let cur () = match !st with Some x -> x | None -> raise (Crash_ "nil")

let b2i b = if b then 1 else 0

let cpu_test_rom () : Bytes.t =
  let b = Bytes.create 0x8000 in
  for a = 0 to 0x7fff do Bytes.set b a (Char.chr (int_of_n (test_rom (n_of_int a)))) done;
  b

let decode_path (p : string) : string = String.concat " " (Str.split_delim (Str.regexp_string "%20") p)

let read_file (path : string) : Bytes.t =
  let ic = open_in_bin (decode_path path) in
  let n = in_channel_length ic in
  let b = Bytes.create n in
  really_input ic b 0 n; close_in ic; b

let construct (b : Bytes.t) (ser : bool) (aud : bool) =
  st := None;
  st := Some (ok (sys_new (R_cart.image_of_bytes b) ser aud))

let hexbuf = Buffer.create 1024

let check_fault () =
  let (c, s) = cur () in
  (match c.fault with Some FExit -> raise (Exit_ "") | Some FCrash -> raise (Crash_ "index") | None -> ());
  (match s.s_crash with Some k -> raise (Crash_ (crash_name k)) | None -> ())

let frame_digest (fr : Mem.t) : int =
  let h = ref 7 in
  for y = 0 to 143 do
    for x = 0 to 159 do
      h := ((!h * 1000003) lxor (int_of_n (Mem.get fr (n_of_int (160 * y + x))))) land 0xFFFFFFFFFF
    done
  done; !h

let () =
  on_reset (fun () -> st := None);
  register "sys.new" (fun a ->
      let romc = ai a 2 in
      let ser = if Array.length a > 4 then ab a 4 else true in
      let aud = if Array.length a > 5 then ab a 5 else false in
      construct (R_cart.make_image (0x8000 lsl romc) (ai a 1) romc (ai a 3)) ser aud);
  register "sys.image" (fun a -> construct (R_cart.make_image (ai a 1) (ai a 2) (ai a 3) (ai a 4)) true false);
  register "sys.cpurom" (fun a ->
      let ser = if Array.length a > 1 then ab a 1 else true in
      let aud = if Array.length a > 2 then ab a 2 else false in
      construct (cpu_test_rom ()) ser aud);
  register "sys.rom" (fun a ->
      let ser = if Array.length a > 2 then ab a 2 else true in
      let aud = if Array.length a > 3 then ab a 3 else false in
      construct (read_file a.(1)) ser aud);
  register "sys.w" (fun a -> let (c, s) = cur () in st := Some (c, ok (sys_write s (an a 1) (an a 2))));
  register "sys.r" (fun a ->
      let (c, s) = cur () in
      let (s', v) = ok (sys_read s (an a 1)) in
      st := Some (c, s'); emit (string_of_int (int_of_n v)));
  register "sys.rr" (fun a ->
      Buffer.clear hexbuf;
      for ad = ai a 1 to ai a 2 do
        let (c, s) = cur () in
        let (s', v) = ok (sys_read s (n_of_int ad)) in
        st := Some (c, s');
        Buffer.add_string hexbuf (Printf.sprintf "%02x" (int_of_n v))
      done;
      emit (Buffer.contents hexbuf));
  register "sys.cyc" (fun a ->
      for _ = 1 to ai a 1 do st := Some (ok (sys_cycle (cur ()))) done);
  register "sys.hw" (fun a ->
      for _ = 1 to ai a 1 do let (c, s) = cur () in st := Some (c, ok (sys_hw_cycle s)) done);
  register "sys.cpucyc" (fun a ->
      for _ = 1 to ai a 1 do st := Some (sys_cpu_cycle (cur ())); check_fault () done);
  register "sys.frame" (fun a ->
      for _ = 1 to ai a 1 do st := Some (ok (sys_run_frame (cur ()))) done);
  (* sys.lcdtrace N : N hardware cycles; (LY, STAT mode bits, IF bits 1-0) after each, run-length encoded *)
  register "sys.lcdtrace" (fun a ->
      let buf = Buffer.create 256 in
      Buffer.add_string buf "L";
      let last = ref (-1, -1, -1) and cnt = ref 0 in
      let flush () = if !cnt > 0 then begin
          let (x, y, z) = !last in Buffer.add_string buf (Printf.sprintf " %d,%d,%d*%d" x y z !cnt) end in
      for _ = 1 to ai a 1 do
        let (c, s) = cur () in
        let s1 = ok (sys_hw_cycle s) in
        st := Some (c, s1);
        let rd ad = let (_, v) = ok (sys_read s1 (n_of_int ad)) in int_of_n v in
        let cur3 = (rd 0xff44, rd 0xff41 land 3, rd 0xff0f land 3) in
        if cur3 = !last then incr cnt else begin flush (); last := cur3; cnt := 1 end
      done;
      flush ();
      emit (Buffer.contents buf));
  register "sys.step" (fun _ ->
      let n = ref 0 in
      st := Some (ok (sys_cycle (cur ()))); incr n;
      while not (is_finished (fst (cur ()))) && !n < 64 do
        st := Some (ok (sys_cycle (cur ()))); incr n
      done;
      emit ("cyc " ^ string_of_int !n));
  register "sys.set" (fun a ->
      let (c, s) = cur () in
      st := Some ({ c with ra = an a 1; rb = an a 2; rc = an a 3; rd = an a 4; re = an a 5; rf = an a 6; rh = an a 7;
                           rl = an a 8; sp = an a 9; pc = an a 10 }, s));
  register "sys.get" (fun _ ->
      let (c, s) = cur () in
      let i = int_of_n in
      emit (Printf.sprintf "%d %d %d %d %d %d %d %d %d %d %d %d %d %d %d %d"
              (i c.ra) (i c.rb) (i c.rc) (i c.rd) (i c.re) (i c.rf) (i c.rh) (i c.rl) (i c.sp) (i c.pc)
              (b2i c.halted) (b2i c.haltbug) (b2i c.stopped) (b2i (bus_ime s)) (b2i c.eip) (b2i (is_finished c))));
  register "sys.ime" (fun a -> let (c, s) = cur () in st := Some (c, bus_set_ime s (ab a 1)));
  register "sys.req" (fun a ->
      let (c, s) = cur () in st := Some (c, set_ints (ints_request s.s_ints (an a 1)) s));
  register "sys.btn" (fun a -> let (c, s) = cur () in st := Some (c, sys_button s (an a 1) (ab a 2)));
  register "sys.serial" (fun _ ->
      let (_, s) = cur () in
      emit ("ser " ^ String.concat "" (List.rev_map (fun v -> Printf.sprintf "%02x" (int_of_n v)) s.s_serial)));
  register "sys.pix" (fun _ -> let (_, s) = cur () in emit (Printf.sprintf "pix %d" (frame_digest s.s_frame)));
  register "sys.pixrow" (fun a ->
      let (_, s) = cur () in
      let y = ai a 1 in
      Buffer.clear hexbuf;
      for x = 0 to 159 do Buffer.add_string hexbuf (string_of_int (int_of_n (Mem.get s.s_frame (n_of_int (160 * y + x))))) done;
      emit (Buffer.contents hexbuf));
  register "sys.nsamples" (fun _ -> let (_, s) = cur () in emit (Printf.sprintf "samples %d" (List.length s.s_samples)));
  register "sys.oam" (fun _ ->
      let (_, s) = cur () in
      emit (String.concat "" (List.map (fun v -> Printf.sprintf "%02x" (int_of_n v)) (oam_bytes s.s_oam))));
  register "sys.dump" (fun _ ->
      let (_, s) = cur () in
      let (k, h) = R_cart.digest (cart_dump s.s_cart) in
      emit (Printf.sprintf "dump %d %d" k h))
