(* r_apu.ml — script operations on the extracted APU model; mirrors harness/run/ops_apu.go line by line *)
open Model
open Util

let st = ref (apu_new true)
let ls : int list ref = ref []   (* newest first *)
let rs : int list ref = ref []
let nl = ref 0
let nr = ref 0

let chk_mod = 1000000007

let fresh att =
  st := apu_new (att = 1);
  ls := []; rs := []; nl := 0; nr := 0

(* take the emitted pairs (oldest first) into the buffers; fold into the checksum *)
let absorb (idx : int) (chk : int ref option) (out : (n * n) list) : int =
  let k = ref 0 in
  List.iter (fun (l, r) ->
      let l = int_of_n l and r = int_of_n r in
      ls := l :: !ls; rs := r :: !rs; incr nl; incr nr; incr k;
      match chk with
      | Some c -> c := (!c * 1000003 + (idx * 16777259 + l * 8209 + r + 1) mod chk_mod) mod chk_mod
      | None -> ()) out;
  !k

let rle_buf = Buffer.create 256
let rle_cur = ref ""
let rle_cnt = ref 0
let rle_reset () = Buffer.clear rle_buf; rle_cur := ""; rle_cnt := 0
let rle_flush () =
  if !rle_cnt > 0 then begin
    if Buffer.length rle_buf > 0 then Buffer.add_char rle_buf ',';
    Buffer.add_string rle_buf (Printf.sprintf "%sx%d" !rle_cur !rle_cnt)
  end;
  rle_cnt := 0
let rle_add s =
  if !rle_cnt > 0 && s = !rle_cur then incr rle_cnt
  else begin rle_flush (); rle_cur := s; rle_cnt := 1 end
let rle_get () = rle_flush (); Buffer.contents rle_buf

let ints (l : n list) : string = String.concat " " (List.map (fun x -> string_of_int (int_of_n x)) l)
let sel_str sel s = String.concat "/" (List.map (fun x -> string_of_int (int_of_n x)) (apu_obs_sel sel s))

let read a = int_of_n (ok (apu_bus_read_r !st (n_of_int a)))

let seq_period (seq : int array) (from : int) : int =
  let n = Array.length seq in
  let res = ref 0 in
  let p = ref 1 in
  while !res = 0 && !p <= (n - from) / 2 do
    let okk = ref true in
    let i = ref from in
    while !okk && !i + !p < n do
      if seq.(!i + !p) <> seq.(!i) then okk := false;
      incr i
    done;
    if !okk then res := !p;
    incr p
  done;
  !res

let () =
  on_reset (fun () -> fresh 1);
  register "apu.new" (fun a -> fresh (ai a 1));
  register "apu.w" (fun a -> st := ok (apu_bus_write_r !st (an a 1) (an a 2)));
  register "apu.r" (fun a -> emit (string_of_int (read (ai a 1))));
  register "apu.rall" (fun _ ->
      let b = Buffer.create 256 in
      for addr = 0xff10 to 0xff3f do
        if addr > 0xff10 then Buffer.add_char b ' ';
        Buffer.add_string b (string_of_int (read addr))
      done;
      emit (Buffer.contents b));
  register "apu.cyc" (fun a ->
      let n = ai a 1 in
      rle_reset ();
      let pairs = ref 0 and chk = ref 0 in
      for i = 0 to n - 1 do
        let (s', out) = ok (apu_end_machine_cycle_r !st) in
        st := s';
        pairs := !pairs + absorb i (Some chk) out;
        rle_add (string_of_int (read 0xff26))
      done;
      emit (Printf.sprintf "c %s p %d k %d" (rle_get ()) !pairs !chk));
  register "apu.clk" (fun a ->
      let n = ai a 1 and sel = an a 2 in
      let b = Buffer.create 256 in
      let cur = ref (sel_str sel !st) in
      Buffer.add_string b ("0:" ^ !cur);
      let pairs = ref 0 in
      for i = 1 to n do
        let (s', out) = ok (apu_tick_clock_r !st) in
        st := s';
        pairs := !pairs + absorb i None out;
        let v = sel_str sel !st in
        if v <> !cur then begin
          Buffer.add_string b (Printf.sprintf " %d:%s" i v);
          cur := v
        end
      done;
      emit (Printf.sprintf "t %s p %d" (Buffer.contents b) !pairs));
  register "apu.samples" (fun _ ->
      rle_reset ();
      List.iter2 (fun l r -> rle_add (Printf.sprintf "%d:%d" l r)) (List.rev !ls) (List.rev !rs);
      emit (Printf.sprintf "s %d %d %d %s" !nl !nr 0 (rle_get ()));
      ls := []; rs := []; nl := 0; nr := 0);
  register "apu.st" (fun _ ->
      emit (Printf.sprintf "st %s | %s" (ints (apu_obs_state !st)) (ints (apu_obs_aux !st))));
  register "apu.setticks" (fun a -> st := apu_set_ticks !st (an a 1) (an a 2));
  register "apu.setlfsr" (fun a -> st := apu_set_lfsr !st (an a 1));
  register "apu.lfsrper" (fun a ->
      let k = ai a 1 and maxclk = ai a 2 in
      let states = ref [] and cnt = ref 0 in
      let last_step = ref (-1) and gap = ref 0 and gap_ok = ref true in
      let c = ref 0 in
      while !c < maxclk && !cnt < k do
        let step = int_of_n (apu_noise_timer !st) = 0 in
        let (s', out) = ok (apu_tick_clock_r !st) in
        st := s';
        ignore (absorb !c None out);
        if step then begin
          states := int_of_n (apu_noise_lfsr !st) :: !states;
          incr cnt;
          if !last_step >= 0 then begin
            if !gap = 0 then gap := !c - !last_step
            else if !gap <> !c - !last_step then gap_ok := false
          end;
          last_step := !c
        end;
        incr c
      done;
      if not !gap_ok then gap := 0;
      let arr = Array.of_list (List.rev !states) in
      let outs = Array.map (fun l -> l land 1) arr in
      let b = Buffer.create 64 in
      Array.iteri (fun i l -> if i < 8 then Buffer.add_string b (Printf.sprintf " %d" l)) arr;
      emit (Printf.sprintf "lp %d %d %d %d%s" (Array.length arr) (seq_period arr 16) (seq_period outs 16) !gap
              (Buffer.contents b)))
