(* r_cart.ml — script operations of the cartridge model (Cart.v, Rtc.v).
   The ROM image is synthetic and built here with the same formula as harness/run/ops_cart.go:
   every 16 KiB page carries its own page number (two bytes) and its offsets, so the page selected by a
   read is identified exactly. *)
open Model
open Util

(* byte of the synthetic image at absolute position a *)
let syn_byte (a : int) : int =
  let p = a lsr 14 and o = a land 0x3fff in
  match o land 3 with
  | 0 -> p land 0xff
  | 1 -> (p lsr 8) land 0xff
  | 2 -> (o lsr 2) land 0xff
  | _ -> ((o lsr 10) + 37 * p + 11) land 0xff

let image_cache : (int * int * int * int, Bytes.t) Hashtbl.t = Hashtbl.create 16

let make_image (len : int) (typ : int) (romc : int) (ramc : int) : Bytes.t =
  let key = (len, typ, romc, ramc) in
  match Hashtbl.find_opt image_cache key with
  | Some b -> b
  | None ->
    let b = Bytes.create len in
    for a = 0 to len - 1 do Bytes.unsafe_set b a (Char.unsafe_chr (syn_byte a)) done;
    if len > 0x147 then Bytes.set b 0x147 (Char.chr (typ land 0xff));
    if len > 0x148 then Bytes.set b 0x148 (Char.chr (romc land 0xff));
    if len > 0x149 then Bytes.set b 0x149 (Char.chr (ramc land 0xff));
    if Hashtbl.length image_cache > 64 then Hashtbl.reset image_cache;
    Hashtbl.replace image_cache key b;
    b

let byte_n : n array = Array.init 256 n_of_int

let image_of_bytes (b : Bytes.t) : image =
  let len = Bytes.length b in
  { img_len = n_of_int len;
    img_at = (fun a ->
      let i = int_of_n a in
      if i < len then byte_n.(Char.code (Bytes.unsafe_get b i))
      else failwith "model read the image out of range") }

let st : cart option ref = ref None

let cur () : cart = match !st with Some c -> c | None -> raise (Crash_ "nil")

let construct (len : int) (typ : int) (romc : int) (ramc : int) =
  st := None;
  st := Some (ok (cart_construct (image_of_bytes (make_image len typ romc ramc))))

let digest (l : n list) : int * int =
  let h = ref 7 and k = ref 0 in
  List.iter (fun x -> h := ((!h * 1000003) lxor (int_of_n x)) land 0xFFFFFFFFFF; incr k) l;
  (!k, !h)

let b2i b = if b then 1 else 0

let () =
  on_reset (fun () -> st := None);
  register "cart.new" (fun a ->
    let romc = ai a 2 in construct (0x8000 lsl romc) (ai a 1) romc (ai a 3));
  register "cart.image" (fun a -> construct (ai a 1) (ai a 2) (ai a 3) (ai a 4));
  register "cart.w" (fun a -> st := Some (ok (cart_write (cur ()) (an a 1) (an a 2))));
  register "cart.r" (fun a -> emit (string_of_int (int_of_n (ok (cart_read (cur ()) (an a 1))))));
  register "cart.rr" (fun a ->
    let lo = ai a 1 and hi = ai a 2 and step = ai a 3 in
    let buf = Buffer.create 64 in
    let i = ref lo in
    (try
       while !i <= hi do
         let v = ok (cart_read (cur ()) (n_of_int !i)) in
         if Buffer.length buf > 0 then Buffer.add_char buf ' ';
         Buffer.add_string buf (string_of_int (int_of_n v));
         i := !i + step
       done
     with e -> (if Buffer.length buf > 0 then emit (Buffer.contents buf)); raise e);
    emit (Buffer.contents buf));
  (* n machine cycles through the closed form rtc_advance (RtcProofs.tick_n_advance) *)
  register "cart.tick" (fun a -> st := Some (cart_advance (cur ()) (an a 1)));
  (* n machine cycles one by one *)
  register "cart.tick1" (fun a ->
    let c = ref (cur ()) in
    for _ = 1 to ai a 1 do c := cart_tick !c done;
    st := Some !c);
  register "cart.dump" (fun _ ->
    let (k, h) = digest (cart_dump (cur ())) in
    emit (Printf.sprintf "%d %d" k h));
  register "rtc.set" (fun a ->
    let c = cur () in
    let r = { r_s = an a 1; r_m = an a 2; r_h = an a 3; r_d = an a 4; r_carry = ab a 5; r_halt = ab a 6;
              r_ls = an a 7; r_lm = an a 8; r_lh = an a 9; r_ld = an a 10; r_lcarry = ab a 11; r_lhalt = ab a 12;
              r_ticks = an a 13; r_low = ab a 14 } in
    st := Some (set_rtc c r));
  register "rtc.get" (fun _ ->
    let r = (cur ()).c_rtc in
    emit (Printf.sprintf "%d %d %d %d %d %d %d %d %d %d %d %d %d %d"
            (int_of_n r.r_s) (int_of_n r.r_m) (int_of_n r.r_h) (int_of_n r.r_d) (b2i r.r_carry) (b2i r.r_halt)
            (int_of_n r.r_ls) (int_of_n r.r_lm) (int_of_n r.r_lh) (int_of_n r.r_ld) (b2i r.r_lcarry) (b2i r.r_lhalt)
            (int_of_n r.r_ticks) (b2i r.r_low)));
  register "rtc.inc" (fun _ -> let c = cur () in st := Some (set_rtc c (rtc_increment c.c_rtc)));
  (* the increment sweep: for every listed state print the state after one increment, compactly *)
  register "rtc.incsweep" (fun a ->
    (* args: s_lo s_hi m_lo m_hi h_lo h_hi d_lo d_hi carry *)
    let c = cur () in
    let h = ref 7 and k = ref 0 in
    let mix x = h := ((!h * 1000003) lxor x) land 0xFFFFFFFFFF in
    for s = ai a 1 to ai a 2 do for m = ai a 3 to ai a 4 do for hh = ai a 5 to ai a 6 do
      for d = ai a 7 to ai a 8 do
        let r0 = { c.c_rtc with r_s = n_of_int s; r_m = n_of_int m; r_h = n_of_int hh; r_d = n_of_int d;
                                r_carry = ab a 9 } in
        let r = rtc_increment r0 in
        mix (int_of_n r.r_s); mix (int_of_n r.r_m); mix (int_of_n r.r_h); mix (int_of_n r.r_d);
        mix (b2i r.r_carry); incr k
      done done done done;
    emit (Printf.sprintf "%d %d" !k !h));
  (* n machine cycles of the clock alone (Go side: the tick hook), closed form *)
  register "rtc.tick" (fun a -> let c = cur () in st := Some (set_rtc c (rtc_advance c.c_rtc (an a 1))))
