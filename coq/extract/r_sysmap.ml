(* r_sysmap.ml — sweep operations over the whole address space of the machine of r_sys.ml (C06 / C07).
   (named r_sysmap so that it is linked after r_sys.ml)
   Reads go through [sys_read_with (read_handler a)], proved equal to [sys_read] (MapperDecode.sys_read_with_ok);
   the handler of each address is looked up once per process. *)
open Model
open Util

let addr_n : n array = Array.init 65536 n_of_int
let hcache : handler option array = Array.make 65536 None
let handler_at (a : int) : handler =
  match hcache.(a) with
  | Some h -> h
  | None -> let h = read_handler addr_n.(a) in hcache.(a) <- Some h; h

let read_at (a : int) : int =
  let (c, s) = R_sys.cur () in
  let (s', v) = ok (sys_read_with (handler_at a) s addr_n.(a)) in
  R_sys.st := Some (c, s'); int_of_n v

let write_at (a : int) (v : int) =
  let (c, s) = R_sys.cur () in
  R_sys.st := Some (c, ok (sys_write s addr_n.(a land 0xffff) (n_of_int v)))

let prev : Bytes.t option ref = ref None

let snapshot () : Bytes.t =
  let b = Bytes.create 65536 in
  for a = 0 to 65535 do Bytes.unsafe_set b a (Char.unsafe_chr (read_at a land 0xff)) done;
  b

let value_of (v : int) (k : int) (l : int) (a : int) : int = (v + k * (a land 0xff) + l * (a lsr 8)) land 0xff

(* the difference between two snapshots: count, exact ranges (when at most 64), touched pages, digest of (addr,new) *)
let diff_line (tag : string) (o : Bytes.t) (n : Bytes.t) : string =
  let cnt = ref 0 and h = ref 7 in
  let ranges = ref [] and pages = ref [] in
  let start = ref (-1) and last = ref (-2) in
  let close () = if !start >= 0 then ranges := (!start, !last) :: !ranges in
  for a = 0 to 65535 do
    if Bytes.unsafe_get o a <> Bytes.unsafe_get n a then begin
      incr cnt;
      h := ((!h * 1000003) lxor (a * 256 + Char.code (Bytes.unsafe_get n a))) land 0xFFFFFFFFFF;
      if a = !last + 1 && !start >= 0 then last := a
      else begin close (); start := a; last := a end;
      (match !pages with
       | (plo, phi) :: t when phi = a lsr 8 -> ()
       | (plo, phi) :: t when phi + 1 = a lsr 8 -> pages := (plo, a lsr 8) :: t
       | _ -> pages := (a lsr 8, a lsr 8) :: !pages)
    end
  done;
  close ();
  let rs = List.rev !ranges and ps = List.rev !pages in
  let fmt w (lo, hi) = if lo = hi then Printf.sprintf "%0*x" w lo else Printf.sprintf "%0*x-%0*x" w lo w hi in
  let r = if List.length rs <= 64 then String.concat "," (List.map (fmt 4) rs) else "many" in
  Printf.sprintf "%s n=%d r=%s p=%s h=%d" tag !cnt r (String.concat "," (List.map (fmt 2) ps)) !h

let () =
  on_reset (fun () -> prev := None);
  (* map.wr LO HI V K L : for every address write value_of then read it back; one hex line *)
  register "map.wr" (fun a ->
      let buf = Buffer.create 1024 in
      for ad = ai a 1 to ai a 2 do
        write_at ad (value_of (ai a 3) (ai a 4) (ai a 5) ad);
        Buffer.add_string buf (Printf.sprintf "%02x" (read_at ad))
      done;
      emit (Buffer.contents buf));
  register "map.fill" (fun a ->
      for ad = ai a 1 to ai a 2 do write_at ad (value_of (ai a 3) (ai a 4) (ai a 5) ad) done);
  register "map.snap" (fun _ -> prev := None; prev := Some (snapshot ()));
  (* map.wd A V : the difference one write makes to the 64 KiB read through Mapper.Read *)
  register "map.wd" (fun a ->
      let o = match !prev with Some b -> b | None -> snapshot () in
      prev := None;
      write_at (ai a 1) (ai a 2);
      let n = snapshot () in
      prev := Some n;
      emit (diff_line (Printf.sprintf "wd %04x %02x" (ai a 1) (ai a 2)) o n));
  (* map.rd A : the difference one read makes (none expected) *)
  register "map.rd" (fun a ->
      let o = match !prev with Some b -> b | None -> snapshot () in
      prev := None;
      let v = read_at (ai a 1) in
      let n = snapshot () in
      prev := Some n;
      emit (diff_line (Printf.sprintf "rd %04x %02x" (ai a 1) v) o n));
  (* model only: the documented effect set of a write to A on this machine (AddrSpec.fp_ranges) *)
  register "map.fp" (fun a ->
      let (_, s) = R_sys.cur () in
      let rs = fp_ranges s.s_cart.c_kind (an a 1) in
      emit (Printf.sprintf "fp %04x %s" (ai a 1)
              (String.concat "," (List.map (fun (lo, hi) -> Printf.sprintf "%04x-%04x" (int_of_n lo) (int_of_n hi)) rs))))
