(* Extract.v — extraction of the executable model for the correspondence runner.
   Only ExtrOcamlBasic's directives are used; N, Z and positive stay inductive. *)
From Coq Require Extraction.
From Coq Require Import ExtrOcamlBasic.
From V.lib Require Import Bits.
From V.model Require Import Joypad.

Extraction "model.ml"
  joy_init joy_step joy_read.
