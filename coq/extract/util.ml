(* util.ml — int <-> N conversion, op registry, output *)
open Model

let rec pos_of_int (i : int) : positive =
  if i = 1 then XH
  else if i land 1 = 0 then XO (pos_of_int (i lsr 1))
  else XI (pos_of_int (i lsr 1))

let n_of_int (i : int) : n = if i <= 0 then N0 else Npos (pos_of_int i)

let rec int_of_pos (p : positive) : int =
  match p with
  | XH -> 1
  | XO q -> 2 * int_of_pos q
  | XI q -> 2 * int_of_pos q + 1

let int_of_n (x : n) : int = match x with N0 -> 0 | Npos p -> int_of_pos p

exception Crash_ of string
exception Exit_ of string

let crash_name (c : crash) : string =
  match c with CIndex -> "index" | CNil -> "nil" | CDiv0 -> "div0" | CExplicit -> "explicit"

(* unwrap a model result; a crash / exit ends the case like a recovered panic / child exit on the Go side *)
let ok (r : 'a res) : 'a =
  match r with
  | Ok a -> a
  | Crash c -> raise (Crash_ (crash_name c))
  | Exit -> raise (Exit_ "")

let out = Buffer.create (1 lsl 20)
let flush_out () = print_string (Buffer.contents out); Buffer.clear out
let emit (s : string) =
  Buffer.add_string out s; Buffer.add_char out '\n';
  if Buffer.length out > (1 lsl 20) then flush_out ()

let ops : (string, string array -> unit) Hashtbl.t = Hashtbl.create 64
let resets : (unit -> unit) list ref = ref []
let register (name : string) (f : string array -> unit) = Hashtbl.replace ops name f
let on_reset (f : unit -> unit) = resets := f :: !resets

let ai (a : string array) (i : int) : int = int_of_string a.(i)
let an (a : string array) (i : int) : n = n_of_int (ai a i)
let ab (a : string array) (i : int) : bool = ai a i <> 0
