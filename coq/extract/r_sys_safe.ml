(* r_sys_safe.ml — script operations of the C11 / C17 checks on the whole-machine model (System.v).
   (Named r_sys_safe so that it is linked after r_sys.ml, whose state it shares.)

   safe.img LEN SEED [A V]...            arbitrary image: byte i = fill SEED i, then the listed overrides; construct
   safe.prog TYPE ROMC RAMC [A HEX]...   synthetic image of 0x8000<<ROMC bytes (cartgen formula) with byte strings patched in
   safe.ok                               prints "constructed" (separates construction panics from later ones)
   safe.mark WORD                        prints "mark WORD" (the checks bracket every constructing operation with marks)
   safe.load A HEX                       consecutive Mapper.Write calls
   safe.oamst                            OAM bookkeeping: corrupt pla read write doubleWrite dmaRunning dmaCycle
   safe.lcd                              LCDC bit 7, STAT mode, LY as the registers read
   safe.cycoam N                         N machine cycles; one line: number of cycles after which the OAM bytes differed
                                         from the cycle before, and a digest of (cycle, OAM) at those cycles *)
open Model
open Util

let fill (seed : int) (i : int) : int =
  if seed >= 1000 then (seed - 1000) land 0xff
  else (i * 73 + seed * 29 + (i lsr 8) * 151 + (i lsr 16) * 211 + seed * (i land 7)) land 0xff

let hex_bytes (s : string) : int list =
  let n = String.length s / 2 in
  List.init n (fun k -> int_of_string ("0x" ^ String.sub s (2 * k) 2))

let b2i b = if b then 1 else 0

let oam_string (o : oam) : string =
  String.concat "" (List.map (fun v -> Printf.sprintf "%02x" (int_of_n v)) (oam_bytes o))

let () =
  register "safe.img" (fun a ->
      let len = ai a 1 and seed = ai a 2 in
      let b = Bytes.create len in
      for i = 0 to len - 1 do Bytes.unsafe_set b i (Char.unsafe_chr (fill seed i)) done;
      let k = ref 3 in
      while !k + 1 < Array.length a do
        let ad = ai a !k and v = ai a (!k + 1) in
        if ad < len then Bytes.set b ad (Char.chr (v land 0xff));
        k := !k + 2
      done;
      R_sys.construct b true false);
  register "safe.prog" (fun a ->
      let romc = ai a 2 in
      let base = R_cart.make_image (0x8000 lsl romc) (ai a 1) romc (ai a 3) in
      let b = Bytes.copy base in
      let len = Bytes.length b in
      let k = ref 4 in
      while !k + 1 < Array.length a do
        let ad = ai a !k in
        List.iteri (fun j v -> if ad + j < len then Bytes.set b (ad + j) (Char.chr v)) (hex_bytes a.(!k + 1));
        k := !k + 2
      done;
      if len > 0x147 then Bytes.set b 0x147 (Char.chr ((ai a 1) land 0xff));
      if len > 0x148 then Bytes.set b 0x148 (Char.chr (romc land 0xff));
      if len > 0x149 then Bytes.set b 0x149 (Char.chr ((ai a 3) land 0xff));
      R_sys.construct b true false);
  register "safe.mark" (fun a -> emit ("mark " ^ a.(1)));
  register "safe.ok" (fun _ -> let _ = R_sys.cur () in emit "constructed");
  register "safe.load" (fun a ->
      let ad = ai a 1 in
      List.iteri (fun j v ->
          let (c, s) = R_sys.cur () in
          R_sys.st := Some (c, ok (sys_write s (n_of_int ((ad + j) land 0xffff)) (n_of_int v))))
        (hex_bytes a.(2)));
  register "safe.oamst" (fun _ ->
      let (_, s) = R_sys.cur () in
      let o = s.s_oam in
      emit (Printf.sprintf "oamst c=%d pla=%d r=%d w=%d dw=%d run=%d cyc=%d" (b2i o.o_corrupt) (int_of_n o.o_ppuLastAccess)
              (b2i o.o_read) (b2i o.o_write) (b2i o.o_doubleWrite) (b2i o.o_dmaRunning) (int_of_n o.o_dmaCycle)));
  register "safe.lcd" (fun _ ->
      let (_, s) = R_sys.cur () in
      let p = s.s_ppu in
      emit (Printf.sprintf "lcd on=%d mode=%d ly=%d" (b2i p.p_enabled) (int_of_n p.p_mode) (int_of_n p.p_ly)));
  register "safe.cycoam" (fun a ->
      let n = ai a 1 in
      let h = ref 7 and k = ref 0 in
      let bytes_of (o : oam) = List.map int_of_n (oam_bytes o) in
      let prev = ref (let (_, s) = R_sys.cur () in bytes_of s.s_oam) in
      for t = 1 to n do
        R_sys.st := Some (ok (sys_cycle (R_sys.cur ())));
        let (_, s) = R_sys.cur () in
        let now = bytes_of s.s_oam in
        if now <> !prev then begin
          incr k;
          h := ((!h * 1000003) lxor t) land 0xFFFFFFFFFF;
          List.iter (fun b -> h := ((!h * 1000003) lxor b) land 0xFFFFFFFFFF) now;
          prev := now
        end
      done;
      emit (Printf.sprintf "cycoam %d %d" !k !h))
