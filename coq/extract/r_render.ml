(* r_render.ml — model side of the renderer operations (property C15); see harness/run/ops_render.go *)
open Model
open Util

let sc = ref scene_init
let regs = ref [| 0x91; 0; 0; 0; 0; 0xfc; 0xff; 0xff |]   (* lcdc scx scy wx wy bgp obp0 obp1 *)

let reset () =
  sc := scene_init;
  regs := [| 0x91; 0; 0; 0; 0; 0xfc; 0xff; 0xff |]

let small = Array.init 65536 n_of_int
let nn i = if i >= 0 && i < 65536 then small.(i) else n_of_int i

let scene () =
  let r = !regs in
  scene_set_regs !sc (nn r.(0)) (nn r.(1)) (nn r.(2)) (nn r.(3)) (nn r.(4)) (nn r.(5)) (nn r.(6)) (nn r.(7))

let hexbytes (s : string) : int list =
  let n = String.length s / 2 in
  List.init n (fun i -> int_of_string ("0x" ^ String.sub s (2 * i) 2))

let reg_index = function
  | "lcdc" -> 0 | "scx" -> 1 | "scy" -> 2 | "wx" -> 3 | "wy" -> 4 | "bgp" -> 5 | "obp0" -> 6 | "obp1" -> 7
  | _ -> raise (Crash_ "explicit")

let digit (v : n) : char =
  match int_of_n v with 0 -> '0' | 1 -> '1' | 2 -> '2' | 3 -> '3' | _ -> '?'

let line_of (s : scene) (y : int) : string =
  let ov = overlaps_for_line s (nn y) in
  String.init 160 (fun x -> digit (ok (render_pixel s ov (nn x) (nn y))))

let () =
  on_reset reset;
  register "scn.new" (fun _ -> reset ());
  register "scn.mark" (fun a -> emit ("MARK " ^ a.(1)));
  register "scn.vram" (fun a ->
      let addr = ai a 1 in
      List.iteri (fun i b -> sc := scene_set_vram !sc (nn ((addr + i) land 0x1fff)) (nn b)) (hexbytes a.(2)));
  register "scn.oam" (fun a ->
      List.iteri (fun i b -> sc := scene_set_oam !sc (nn (i mod 160)) (nn b)) (hexbytes a.(1)));
  register "scn.obj" (fun a ->
      let i = ai a 1 mod 40 in
      for k = 0 to 3 do
        sc := scene_set_oam !sc (nn (4 * i + k)) (nn (ai a (2 + k) land 0xff))
      done);
  register "scn.reg" (fun a -> !regs.(reg_index a.(1)) <- ai a 2 land 0xff);
  (* the whole frame through the call sequence of a frame *)
  register "scn.frame" (fun _ ->
      let s = scene () in
      let r = ok (run_calls s rstate_init frame_calls) in
      for y = 0 to 143 do
        emit (String.init 160 (fun x -> digit (rs_pixel r (nn x) (nn y))))
      done);
  (* one line / one pixel through overlaps_for_line + render_pixel *)
  register "scn.line" (fun a -> emit (line_of (scene ()) (ai a 1)));
  register "scn.px" (fun a ->
      let s = scene () in
      let x = ai a 1 and y = ai a 2 in
      let ov = overlaps_for_line s (nn y) in
      emit (String.make 1 (digit (ok (render_pixel s ov (nn x) (nn y))))));
  register "scn.overlaps" (fun _ ->
      let s = scene () in
      for y = 0 to 143 do
        let ov = overlaps_for_line s (nn y) in
        emit (String.concat "" (List.map (fun b -> if b then "1" else "0") ov))
      done);
  register "scn.access" (fun _ ->
      let s = scene () in
      let r = ref rstate_init in
      for y = 0 to 143 do
        let b = Buffer.create 80 in
        for t = 0 to 113 do
          r := ok (run_calls s !r (tick_calls (nn y) (nn t)));
          if t >= 20 && t < 60 then
            Buffer.add_string b (Printf.sprintf "%02x" ((int_of_n (rs_last !r) - 0xfe00) land 0xffff))
        done;
        emit (Buffer.contents b)
      done)
