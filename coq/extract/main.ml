(* main.ml — model runner: reads a script (file argument or stdin), prints observables *)
open Util

let dead = ref false

let handle_line (line : string) =
  let line = String.trim line in
  if line = "" || line.[0] = '%' then ()
  else begin
    let a = Array.of_list (List.filter (fun s -> s <> "") (String.split_on_char ' ' line)) in
    if a.(0) = "case" then begin
      dead := false;
      List.iter (fun f -> f ()) !resets;
      emit ("# " ^ (if Array.length a > 1 then a.(1) else ""))
    end else if !dead then ()
    else
      match Hashtbl.find_opt ops a.(0) with
      | Some f ->
        (try f a with
         | Crash_ why -> emit ("PANIC " ^ why); dead := true
         | Exit_ _ -> emit "EXIT"; dead := true)
      | None -> emit ("UNKNOWN-OP " ^ a.(0))
  end

let () =
  let ic = if Array.length Sys.argv > 1 then open_in Sys.argv.(1) else stdin in
  (try
     while true do
       handle_line (input_line ic)
     done
   with End_of_file -> ());
  flush_out ()
