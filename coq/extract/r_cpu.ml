open Model
open Util

let st = ref (cpu_init, sb_init)

let b2i b = if b then 1 else 0

let with_regs (c : cpu) (a : string array) : cpu =
  { c with ra = an a 1; rb = an a 2; rc = an a 3; rd = an a 4; re = an a 5; rf = an a 6; rh = an a 7; rl = an a 8;
           sp = an a 9; pc = an a 10 }

let fault_check () =
  match (fst !st).fault with
  | Some FExit -> raise (Exit_ "")
  | Some FCrash -> raise (Crash_ "index")
  | None -> ()

let () =
  on_reset (fun () -> st := (cpu_init, sb_init));
  register "mayexit" (fun _ -> ());
  register "cpu.new" (fun _ -> st := (cpu_init, sb_init));
  register "cpu.set" (fun a -> let (c, b) = !st in st := (with_regs c a, b));
  register "cpu.mode" (fun a -> let (c, b) = !st in
                        st := ({ c with halted = ab a 1; haltbug = ab a 2; stopped = ab a 3 }, b));
  register "cpu.ime" (fun a -> let (c, b) = !st in st := (c, sb_set_ime b (ab a 1)));
  register "cpu.req" (fun a -> let (c, b) = !st in st := (c, sb_request b (an a 1)));
  register "w" (fun a -> let (c, b) = !st in st := (c, sb_wr b (an a 1) (an a 2)));
  register "r" (fun a -> let (_, b) = !st in emit (string_of_int (int_of_n (snd (sb_rd b (an a 1))))));
  register "cpu.cyc" (fun a -> for _ = 1 to ai a 1 do st := sb_cycle !st; fault_check () done);
  register "cpu.step" (fun _ ->
      (* run machine cycles until the next instruction boundary; print the number of cycles *)
      let n = ref 0 in
      st := sb_cycle !st; incr n; fault_check ();
      while not (sb_at_boundary (fst !st)) && !n < 64 do
        st := sb_cycle !st; incr n; fault_check ()
      done;
      emit ("cyc " ^ string_of_int !n));
  register "cpu.get" (fun _ ->
      let (c, b) = !st in
      let i = int_of_n in
      emit (Printf.sprintf "%d %d %d %d %d %d %d %d %d %d %d %d %d %d %d %d"
              (i c.ra) (i c.rb) (i c.rc) (i c.rd) (i c.re) (i c.rf) (i c.rh) (i c.rl) (i c.sp) (i c.pc)
              (b2i c.halted) (b2i c.haltbug) (b2i c.stopped) (b2i (sb_ime b)) (b2i c.eip) (b2i (sb_at_boundary c))))

(* ---- compact finite sweeps through real opcodes (same loops as ops_cpu.go) ---- *)
let set_loc (c, b) (loc : string) (u : int) =
  let un = n_of_int u in
  match loc with
  | "B" -> ({ c with rb = un }, b) | "C" -> ({ c with rc = un }, b) | "D" -> ({ c with rd = un }, b)
  | "E" -> ({ c with re = un }, b) | "H" -> ({ c with rh = un }, b) | "L" -> ({ c with rl = un }, b)
  | "A" -> ({ c with ra = un }, b)
  | "M" -> (c, sb_wr b (n_of_int (int_of_n c.rh * 256 + int_of_n c.rl)) un)
  | "I" -> (c, sb_wr b (n_of_int ((int_of_n c.pc + 1) land 65535)) un)
  | "J" -> (c, sb_wr b (n_of_int ((int_of_n c.pc + 2) land 65535)) un)
  | _ -> (c, b)

let get_loc (c, b) (loc : string) : int =
  match loc with
  | "B" -> int_of_n c.rb | "C" -> int_of_n c.rc | "D" -> int_of_n c.rd | "E" -> int_of_n c.re
  | "H" -> int_of_n c.rh | "L" -> int_of_n c.rl | "A" -> int_of_n c.ra
  | "M" -> int_of_n (snd (sb_rd b (n_of_int (int_of_n c.rh * 256 + int_of_n c.rl))))
  | _ -> 0

let step_once () =
  let n = ref 0 in
  st := sb_cycle !st; incr n; fault_check ();
  while not (sb_at_boundary (fst !st)) && !n < 64 do
    st := sb_cycle !st; incr n; fault_check ()
  done;
  !n

let () =
  (* cpu.sweepau LOC RESLOC F0 F1 ... : for a, u in 0..255 and each listed F: A=a, LOC=u, F=f; one step;
     prints per a one line of (A, F, RESLOC value, cycles) in hex *)
  register "cpu.sweepau" (fun a ->
      let an_ = ai a 1 and loc = a.(2) and resloc = a.(3) in
      let fs = Array.to_list (Array.sub a 4 (Array.length a - 4)) |> List.map int_of_string in
      let base = !st in
      let urange = if loc = "N" then [0] else List.init 256 (fun i -> i) in
      for av = 0 to an_ - 1 do
        let buf = Buffer.create 4096 in
        let cbuf = Buffer.create 1024 in
        Buffer.add_string cbuf "cyc ";
        List.iter (fun u ->
            List.iter (fun f ->
                let (c, b) = base in
                let s0 = set_loc ({ c with ra = n_of_int av; rf = n_of_int f }, b) loc u in
                (* when LOC is A the operand is the accumulator itself: u overrides a *)
                st := s0;
                let n = step_once () in
                let (c1, _) = !st in
                Buffer.add_string buf (Printf.sprintf "%02x%02x%02x " (int_of_n c1.ra) (int_of_n c1.rf) (get_loc !st resloc));
                Buffer.add_string cbuf (Printf.sprintf "%x" n))
              fs) urange;
        emit (Buffer.contents buf);
        emit (Buffer.contents cbuf)
      done;
      st := base);
  (* cpu.sweep16 PAIR STEP : PAIR in BC DE HL SP takes every value 0, STEP, 2*STEP ... < 65536; prints the pair and F after *)
  register "cpu.sweep16" (fun a ->
      let pair = a.(1) and stepv = ai a 2 in
      let base = !st in
      let buf = Buffer.create 65536 in
      let v = ref 0 in
      let k = ref 0 in
      while !v < 65536 do
        let (c, b) = base in
        let hi = n_of_int (!v lsr 8) and lo = n_of_int (!v land 255) in
        let c0 = match pair with
          | "BC" -> { c with rb = hi; rc = lo } | "DE" -> { c with rd = hi; re = lo }
          | "HL" -> { c with rh = hi; rl = lo } | _ -> { c with sp = n_of_int !v } in
        st := (c0, b);
        let _ = step_once () in
        let (c1, _) = !st in
        let r = match pair with
          | "BC" -> int_of_n c1.rb * 256 + int_of_n c1.rc | "DE" -> int_of_n c1.rd * 256 + int_of_n c1.re
          | "HL" -> int_of_n c1.rh * 256 + int_of_n c1.rl | _ -> int_of_n c1.sp in
        Buffer.add_string buf (Printf.sprintf "%04x%02x " r (int_of_n c1.rf));
        incr k;
        if !k mod 256 = 0 then (emit (Buffer.contents buf); Buffer.clear buf);
        v := !v + stepv
      done;
      if Buffer.length buf > 0 then emit (Buffer.contents buf);
      st := base);
  (* cpu.sweepsp SPHI F : SP = SPHI*256 + lo for lo in 0..255, operand byte e (at pc+1) in 0..255;
     prints SP, HL, F after one step *)
  register "cpu.sweepsp" (fun a ->
      let hi = ai a 1 and f = ai a 2 in
      let base = !st in
      for lo = 0 to 255 do
        let buf = Buffer.create 4096 in
        for e = 0 to 255 do
          let (c, b) = base in
          let b1 = sb_wr b (n_of_int ((int_of_n c.pc + 1) land 65535)) (n_of_int e) in
          st := ({ c with sp = n_of_int (hi * 256 + lo); rf = n_of_int f }, b1);
          let _ = step_once () in
          let (c1, _) = !st in
          Buffer.add_string buf (Printf.sprintf "%04x%02x%02x%02x " (int_of_n c1.sp) (int_of_n c1.rh) (int_of_n c1.rl) (int_of_n c1.rf))
        done;
        emit (Buffer.contents buf)
      done;
      st := base)

(* ---- executable specification on the same state (implementation-vs-spec comparison) ---- *)
let () =
  (* spec.step: one instruction by the documented semantics; prints the documented cycle count *)
  register "spec.step" (fun _ ->
      if not (sb_opcode_defined !st) then raise (Exit_ "");
      let (((c, b), _), n) = sb_spec_instr !st in
      st := (c, b);
      emit ("cyc " ^ string_of_int (int_of_n n)));
  (* spec.dtrace: like spec.step but prints the documented data accesses "cycle kind addr" *)
  register "spec.dtrace" (fun _ ->
      if not (sb_opcode_defined !st) then raise (Exit_ "");
      let (((c, b), t), n) = sb_spec_instr !st in
      st := (c, b);
      emit ("cyc " ^ string_of_int (int_of_n n));
      emit ("sched " ^ String.concat " " (List.map (fun ((cy, k), ad) ->
          Printf.sprintf "%d%s%d" (int_of_n cy) (match k with DRead -> "R" | DWrite -> "W") (int_of_n ad)) t)));
  (* cpu.trace: the model's ghost trace of the current instruction, in the specification's format (data accesses only) *)
  register "cpu.trace" (fun _ ->
      let (c, _) = !st in
      let items = List.rev (List.filter_map (fun ((i, k), ad) ->
          match k with
          | ARead -> Some (Printf.sprintf "%dR%d" (int_of_n (n_of_int 0) + (let rec nat_to_int = function O -> 0 | S m -> 1 + nat_to_int m in nat_to_int i) + 1) (int_of_n ad))
          | AWrite -> Some (Printf.sprintf "%dW%d" ((let rec nat_to_int = function O -> 0 | S m -> 1 + nat_to_int m in nat_to_int i) + 1) (int_of_n ad))
          | AFetch -> None) c.trace) in
      emit ("sched " ^ String.concat " " items))

(* cpu.stepdiff: one instruction; prints the cycle count and every bus-visible location whose value changed.
   The model's memory only holds written cells, so the candidates are the written cells (with their echo), IF and IE;
   the implementation side really reads the whole address space before and after. *)
let candidates () =
  let (_, b) = !st in
  let ks = List.map int_of_n (sb_written b) in
  let extra = List.filter_map (fun a -> if a >= 0xc000 && a < 0xde00 then Some (a + 0x2000) else None) ks in
  List.sort_uniq compare (0xff0f :: 0xffff :: (ks @ extra))
let in_ranges a = (a < 0xa000) || (a >= 0xc000 && a < 0xff00) || a = 0xff0f || a >= 0xff80
let () =
  register "cpu.stepdiff" (fun _ ->
      let rd a = let (_, b) = !st in int_of_n (snd (sb_rd b (n_of_int a))) in
      let c0 = candidates () in
      let before = List.map (fun a -> (a, rd a)) c0 in
      let n = step_once () in
      let c1 = candidates () in
      let all = List.sort_uniq compare (c0 @ c1) in
      emit ("cyc " ^ string_of_int n);
      let buf = Buffer.create 64 in
      Buffer.add_string buf "diff";
      List.iter (fun a ->
          if in_ranges a then begin
            let old = (try List.assoc a before with Not_found -> if a >= 0xfea0 && a < 0xff00 then 0 else 0) in
            let nw = rd a in
            if old <> nw then Buffer.add_string buf (Printf.sprintf " %d:%d" a nw)
          end) all;
      emit (Buffer.contents buf))
