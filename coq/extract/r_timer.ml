(* r_timer.ml — script operations tm.* on the extracted timer model (coq/model/Timer.v) *)
open Model
open Util

let tm = ref timer_init
let tmb = ref timer_init

(* observation of a state as five small integers *)
let obs_ints (t : timer) : int * int * int * int =
  let (((d, a), m), c) = timer_obs t in
  (int_of_n d, int_of_n a, int_of_n m, int_of_n c)

let line_r t = let (d, a, m, c) = obs_ints t in Printf.sprintf "%d %d %d %d" d a m c

(* encoded operation: kind * 256 + value; kinds 0 tick, 1 wDIV, 2 wTIMA, 3 wTMA, 4 wTAC *)
let op_of_code (c : int) : timer_op =
  let v = n_of_int (c land 255) in
  match c lsr 8 with
  | 0 -> TTick | 1 -> TWDiv v | 2 -> TWTima v | 3 -> TWTma v | 4 -> TWTac v
  | _ -> failwith "bad op code"

let mask40 = (1 lsl 40) - 1
let mix (h : int) (irq : bool) (t : timer) : int =
  let (d, a, m, c) = obs_ints t in
  let x = (if irq then 1 else 0) + 2 * (d + 256 * (a + 256 * (m + 256 * c))) in
  (h * 1000003 + x) land mask40

(* depth-first enumeration of every operation sequence of length [depth] over [alpha] from [t]; returns the
   digest of all observations in visiting order and the number of complete sequences on which TIMA changed or
   an interrupt was requested *)
let rec dfs (alpha : timer_op array) (t : timer) (depth : int) (h : int) (nt : bool) : int * int =
  if depth = 0 then (h, if nt then 1 else 0)
  else begin
    let h = ref h and cnt = ref 0 in
    Array.iter (fun o ->
        let (t', irq) = timer_step t o in
        let nt' = nt || irq || int_of_n (t'.t_tima) <> int_of_n (t.t_tima) in
        let (h', c') = dfs alpha t' (depth - 1) (mix !h irq t') nt' in
        h := h'; cnt := !cnt + c') alpha;
    (!h, !cnt)
  end

(* deterministic pseudo-random schedule shared with the Go runner and props/c12.py *)
let lcg (x : int) : int = (x * 1103515245 + 12345) land 0x7fffffff
let rand_op (x : int) : timer_op =
  let kind = (x lsr 8) land 15 and v = (x lsr 16) land 255 in
  match kind with
  | 10 -> if v < 64 then TWDiv (n_of_int v) else TTick
  | 11 -> TWTima (n_of_int (v lor 0xf8))
  | 12 -> TWTma (n_of_int v)
  | 13 -> TWTac (n_of_int 5)
  | 14 -> TWTac (n_of_int v)
  | 15 -> TWTima (n_of_int v)
  | _ -> TTick

let () =
  on_reset (fun () -> tm := timer_init; tmb := timer_init);
  register "tm.new" (fun _ -> tm := timer_init);
  register "tm.setc" (fun a -> tm := timer_set_counter !tm (an a 1));
  register "tm.tick" (fun _ ->
      let (t', irq) = timer_step !tm TTick in
      tm := t';
      emit ((if irq then "1 " else "0 ") ^ line_r t'));
  register "tm.wdiv" (fun a -> tm := fst (timer_step !tm (TWDiv (an a 1))));
  register "tm.wtima" (fun a -> tm := fst (timer_step !tm (TWTima (an a 1))));
  register "tm.wtma" (fun a -> tm := fst (timer_step !tm (TWTma (an a 1))));
  register "tm.wtac" (fun a -> tm := fst (timer_step !tm (TWTac (an a 1))));
  register "tm.r" (fun _ -> emit (line_r !tm));
  register "tm.c" (fun _ -> emit (string_of_int (int_of_n (!tm).t_counter)));
  (* tmb.*: the same model behind a register decoder FF04-FF07 (glue only: address -> operation) *)
  register "tmb.new" (fun _ -> tmb := timer_init);
  register "tmb.setc" (fun a -> tmb := timer_set_counter !tmb (an a 1));
  register "tmb.w" (fun a ->
      let v = an a 2 in
      match ai a 1 with
      | 0xff04 -> tmb := fst (timer_step !tmb (TWDiv v))
      | 0xff05 -> tmb := fst (timer_step !tmb (TWTima v))
      | 0xff06 -> tmb := fst (timer_step !tmb (TWTma v))
      | 0xff07 -> tmb := fst (timer_step !tmb (TWTac v))
      | _ -> ());
  register "tmb.r" (fun _ -> emit (line_r !tmb));
  register "tmb.cycle" (fun _ ->
      let (t', irq) = timer_step !tmb TTick in
      tmb := t';
      emit ((if irq then "1 " else "0 ") ^ line_r t'));
  (* tm.sweep DEPTH code... : one line per first operation: index digest nontrivial-sequences *)
  register "tm.sweep" (fun a ->
      let depth = ai a 1 in
      let alpha = Array.init (Array.length a - 2) (fun i -> op_of_code (ai a (i + 2))) in
      Array.iteri (fun i o ->
          let (t', irq) = timer_step !tm o in
          let nt = irq || int_of_n (t'.t_tima) <> int_of_n ((!tm).t_tima) in
          let (h, c) = dfs alpha t' (depth - 1) (mix 0 irq t') nt in
          emit (Printf.sprintf "%d %d %d" i h c)) alpha);
  (* tm.rand SEED N : N pseudo-random operations; a digest line after every 256 operations and at the end *)
  register "tm.rand" (fun a ->
      let x = ref (ai a 1) and n = ai a 2 in
      let h = ref 0 and irqs = ref 0 in
      for i = 1 to n do
        x := lcg !x;
        let (t', irq) = timer_step !tm (rand_op !x) in
        tm := t';
        if irq then incr irqs;
        h := mix !h irq t';
        if i mod 256 = 0 || i = n then emit (Printf.sprintf "%d %d %d" i !h !irqs)
      done)
