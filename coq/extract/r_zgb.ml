(* r_gb.ml — several whole-machine instances and the Run loop (counterpart of harness/run/ops_gb.go) *)
open Model
open Util

let insts : (int, (cpu * sys) * (bool * bool)) Hashtbl.t = Hashtbl.create 8   (* state, (audio, video) *)
let get i = match Hashtbl.find_opt insts i with Some (x, _) -> x | None -> raise (Crash_ "nil")
let flags i = match Hashtbl.find_opt insts i with Some (_, f) -> f | None -> (false, false)
let put i x = Hashtbl.replace insts i (x, flags i)

let optb (a : string array) (i : int) (d : bool) = if Array.length a > i then ab a i else d
let b2i b = if b then 1 else 0

let rec nat_of_int (i : int) : nat = if i <= 0 then O else S (nat_of_int (i - 1))
let rec int_of_nat (n : nat) : int = match n with O -> 0 | S m -> 1 + int_of_nat m

let obs ((c, s) : cpu * sys) : string =
  let i = int_of_n in
  Printf.sprintf "%d %d %d %d %d %d %d %d %d %d %d %d %d %d | div %d tima %d | ly %d mode %d pticks %d | rtc %d | aticks %d fseq %d | if %d"
    (i c.ra) (i c.rb) (i c.rc) (i c.rd) (i c.re) (i c.rf) (i c.rh) (i c.rl) (i c.sp) (i c.pc)
    (b2i c.halted) (b2i c.haltbug) (b2i c.stopped) (b2i (bus_ime s))
    (i s.s_timer.t_counter) (i (timer_read_tima s.s_timer)) (i s.s_ppu.p_ly) (i s.s_ppu.p_mode) (i s.s_ppu.p_ticks)
    (i s.s_cart.c_rtc.r_ticks) (i s.s_apu.ticks) (i s.s_apu.fseq) (i (ints_read_if s.s_ints))

let () =
  on_reset (fun () -> Hashtbl.reset insts);
  register "gb.new" (fun a ->
      let ser = optb a 3 true and aud = optb a 4 false and vid = optb a 5 false in
      let x = ok (sys_new (R_cart.image_of_bytes (R_sys.read_file a.(2))) ser aud) in
      Hashtbl.replace insts (ai a 1) (x, (aud, vid)));
  register "gb.newsyn" (fun a ->
      let romc = ai a 3 in
      let x = ok (sys_new (R_cart.image_of_bytes (R_cart.make_image (0x8000 lsl romc) (ai a 2) romc (ai a 4))) true false) in
      Hashtbl.replace insts (ai a 1) (x, (false, false)));
  register "gb.newloop" (fun a ->
      (* an image of NOPs whose entry point is an endless loop (JR -2) *)
      let romc = ai a 3 in
      let b = Bytes.make (0x8000 lsl romc) '\000' in
      Bytes.set b 0x100 '\x18'; Bytes.set b 0x101 '\xfe';
      Bytes.set b 0x147 (Char.chr (ai a 2)); Bytes.set b 0x148 (Char.chr romc); Bytes.set b 0x149 (Char.chr (ai a 4));
      let x = ok (sys_new (R_cart.image_of_bytes b) (optb a 7 true) (optb a 5 false)) in
      Hashtbl.replace insts (ai a 1) (x, (optb a 5 false, optb a 6 false)));
  register "gb.newsame" (fun a -> (Hashtbl.find Util.ops "gb.newloop") a);
  register "gb.frames" (fun a -> for _ = 1 to ai a 2 do put (ai a 1) (ok (sys_run_frame (get (ai a 1)))) done);
  register "gb.framesc" (fun a -> for _ = 1 to ai a 2 do put (ai a 1) (ok (sys_run_frame (get (ai a 1)))) done);
  register "gb.cyc" (fun a -> for _ = 1 to ai a 2 do put (ai a 1) (ok (sys_cycle (get (ai a 1)))) done);
  register "gb.obs" (fun a -> emit (obs (get (ai a 1))));
  register "gb.pix" (fun a -> let (_, s) = get (ai a 1) in emit (Printf.sprintf "pix %d" (R_sys.frame_digest s.s_frame)));
  register "gb.serial" (fun a ->
      let (_, s) = get (ai a 1) in
      emit ("ser " ^ String.concat "" (List.rev_map (fun v -> Printf.sprintf "%02x" (int_of_n v)) s.s_serial)));
  register "gb.r" (fun a ->
      let (c, s) = get (ai a 1) in
      let (s', v) = ok (sys_read s (an a 2)) in put (ai a 1) (c, s'); emit (string_of_int (int_of_n v)));
  register "gb.w" (fun a -> let (c, s) = get (ai a 1) in put (ai a 1) (c, ok (sys_write s (an a 2) (an a 3))));
  register "gb.rr" (fun a ->
      let buf = Buffer.create 256 in
      for ad = ai a 2 to ai a 3 do
        let (c, s) = get (ai a 1) in
        let (s', v) = ok (sys_read s (n_of_int ad)) in
        put (ai a 1) (c, s'); Buffer.add_string buf (Printf.sprintf "%02x" (int_of_n v))
      done; emit (Buffer.contents buf));
  register "gb.dump" (fun a ->
      let (_, s) = get (ai a 1) in
      let (k, h) = R_cart.digest (cart_dump s.s_cart) in emit (Printf.sprintf "dump %d %d" k h));
  register "gb.btn" (fun a -> let (c, s) = get (ai a 1) in put (ai a 1) (c, sys_button s (an a 2) (ab a 3)));
  register "gb.key" (fun a ->
      let (_, vid) = flags (ai a 1) in
      if vid then put (ai a 1) (sys_key (get (ai a 1)) (an a 2) (an a 3)));
  register "gb.audio" (fun a ->
      let (aud, _) = flags (ai a 1) in
      if not aud then emit "audio none" else begin
        let (_, s) = get (ai a 1) in
        let pairs = List.rev s.s_samples in
        let n = (List.length pairs / 63) * 63 in
        let h = ref 7 in
        List.iteri (fun i (l, r) ->
            if i < n then begin
              h := ((!h * 1000003) lxor (int_of_n l)) land 0xFFFFFFFFFF;
              h := ((!h * 1000003) lxor (int_of_n r)) land 0xFFFFFFFFFF end) pairs;
        emit (Printf.sprintf "audio %d %d bad=0" n !h) end);
  register "gb.audiobits" (fun a -> let (aud, _) = flags (ai a 1) in emit (if aud then "audiobits 0" else "audiobits none"));
  register "gb.set" (fun a ->
      let (c, s) = get (ai a 1) in
      put (ai a 1) ({ c with ra = an a 2; rb = an a 3; rc = an a 4; rd = an a 5; re = an a 6; rf = an a 7; rh = an a 8;
                             rl = an a 9; sp = an a 10; pc = an a 11 }, s));
  register "gb.conc" (fun a ->
      for i = 0 to ai a 1 - 1 do
        for _ = 1 to ai a 2 do put i (ok (sys_run_frame (get i))) done
      done);
  register "gb.runclose" (fun a ->
      let (aud, vid) = flags (ai a 1) in
      let k = ai a 2 in
      let r = run (nat_of_int (k + 5)) vid (fun _ -> false) (fun j -> int_of_nat j >= k && k > 0) in
      let ((g, pc), pt) = cleanup_effects vid aud in
      for _ = 1 to int_of_nat r.frames_run do put (ai a 1) (ok (sys_run_frame (get (ai a 1)))) done;
      emit (Printf.sprintf "run returned frames=%d glfwTerminate=%d paClose=%d paTerminate=%d"
              (int_of_nat r.frames_run) (int_of_n g) (int_of_n pc) (int_of_n pt)));
  register "gb.dbgser" (fun a ->
      let b = Bytes.make 0x8000 '\000' in
      Bytes.set b 0x100 '\x18'; Bytes.set b 0x101 '\xfe';
      let (c, s) = ok (sys_new (R_cart.image_of_bytes b) true false) in
      let s = List.fold_left (fun s (i, v) -> ok (sys_write s (n_of_int (0xc000 + i)) (n_of_int v))) s
                (List.mapi (fun i v -> (i, v)) [0x3e; 0xf0; 0xe0; 0x01; 0x3c; 0x20; 0xfb; 0x18; 0xf7]) in
      let c = { c with ra = n_of_int 1; sp = n_of_int 0xdfff; pc = n_of_int 0xc000 } in
      let x = ref (c, s) in
      for _ = 1 to ai a 1 do x := ok (sys_cycle !x) done;
      let (_, s) = !x in
      emit ("dbgser " ^ String.concat "" (List.rev_map (fun v -> Printf.sprintf "%02x" (int_of_n v)) s.s_serial)));
  register "gb.rundeadline" (fun a ->
      let (aud, vid) = flags (ai a 1) in
      let ((g, pc), pt) = cleanup_effects vid aud in
      emit (Printf.sprintf "run returned extra_le_1=1 glfwTerminate=%d paClose=%d paTerminate=%d" (int_of_n g) (int_of_n pc) (int_of_n pt)));
  register "gb.runcancel" (fun a ->
      let (aud, vid) = flags (ai a 1) in
      let ((g, pc), pt) = cleanup_effects vid aud in
      emit (Printf.sprintf "run returned extra_le_1=1 glfwTerminate=%d paClose=%d paTerminate=%d" (int_of_n g) (int_of_n pc) (int_of_n pt)))
