(* Joypad.v — executable model of gameboy/controller/controller.go *)
From V.lib Require Import Bits.

Record joy := mkJoy { joyp : N; dirIn : N; btnIn : N }.

Definition joy_init : joy := mkJoy 15 15 15.

(* Button numbering as in controller.go: Up 0, Down 1, Left 2, Right 3, A 4, B 5, Start 6, Select 7 *)
Definition joy_read (j : joy) : N :=
  let low0 := 15 in
  let low1 := if N.land (joyp j) 16 =? 0 then N.land low0 (dirIn j) else low0 in
  let low2 := if N.land (joyp j) 32 =? 0 then N.land low1 (btnIn j) else low1 in
  N.lor (N.lor (N.land (joyp j) 48) low2) 192.

Definition joy_write (j : joy) (v : N) : joy := mkJoy v (dirIn j) (btnIn j).

Definition clr (x m : N) : N := andnot x m.
Definition set (x m : N) : N := N.lor x m.

Definition joy_button (j : joy) (b : N) (pressed : bool) : joy :=
  match b with
  | 6 => mkJoy (joyp j) (dirIn j) (if pressed then clr (btnIn j) 8 else set (btnIn j) 8)
  | 7 => mkJoy (joyp j) (dirIn j) (if pressed then clr (btnIn j) 4 else set (btnIn j) 4)
  | 5 => mkJoy (joyp j) (dirIn j) (if pressed then clr (btnIn j) 2 else set (btnIn j) 2)
  | 4 => mkJoy (joyp j) (dirIn j) (if pressed then clr (btnIn j) 1 else set (btnIn j) 1)
  | 1 => mkJoy (joyp j) (if pressed then set (clr (dirIn j) 8) 4 else set (dirIn j) 8) (btnIn j)
  | 0 => mkJoy (joyp j) (if pressed then set (clr (dirIn j) 4) 8 else set (dirIn j) 4) (btnIn j)
  | 2 => mkJoy (joyp j) (if pressed then set (clr (dirIn j) 2) 1 else set (dirIn j) 2) (btnIn j)
  | 3 => mkJoy (joyp j) (if pressed then set (clr (dirIn j) 1) 2 else set (dirIn j) 1) (btnIn j)
  | _ => j
  end.

(* operations of the controller as seen through the bus and the UI *)
Inductive joy_op := JWrite (v : N) | JButton (b : N) (pressed : bool).

Definition joy_step (j : joy) (o : joy_op) : joy :=
  match o with
  | JWrite v => joy_write j v
  | JButton b p => joy_button j b p
  end.

Definition joy_run (ops : list joy_op) : joy := fold_left joy_step ops joy_init.
