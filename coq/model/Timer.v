(* Timer.v — executable model of gameboy/timer/timer.go (after "fix: timer reload sequence advanced by machine
   cycles, not keyed to counter values").  Definitions only; one definition per Go method, same order of
   effects as the Go code. *)
From V.lib Require Import Bits.

Record timer := mkTimer {
  t_counter : N;       (* uint16 *)
  t_tac : N;           (* uint8, stored as written *)
  t_tima : N;          (* uint8 *)
  t_tma : N;           (* uint8 *)
  t_lastEdge : bool;   (* lastEdgeSet *)
  t_phase : N          (* uint8: phaseIdle 0, phaseOverflow 1, phaseReload 2 *)
}.

Definition phase_idle : N := 0.
Definition phase_overflow : N := 1.
Definition phase_reload : N := 2.

(* New(): counter 0xabcc, everything else zero *)
Definition timer_init : timer := mkTimer 43980 0 0 0 false phase_idle.

(* verif hook VSetCounter *)
Definition timer_set_counter (t : timer) (c : N) : timer :=
  mkTimer c (t_tac t) (t_tima t) (t_tma t) (t_lastEdge t) (t_phase t).

(* counterBitMasks[tac & 3]: the index is masked in the same expression and the table has four entries *)
Definition counter_bit_mask (i : N) : N :=
  match i with 0 => 512 | 1 => 8 | 2 => 32 | _ => 128 end.

(* EndMachineCycle; the boolean is the interrupt request *)
Definition timer_tick (t : timer) : timer * bool :=
  let c := add16 (t_counter t) 4 in
  (* switch t.phase *)
  let tima1 := if t_phase t =? phase_overflow then t_tma t else t_tima t in
  let ph1 := if t_phase t =? phase_overflow then phase_reload
             else if t_phase t =? phase_reload then phase_idle else t_phase t in
  (* falling edge of (enable && selected counter bit) *)
  let edge := (0 <? N.land (t_tac t) 4) && (0 <? N.land c (counter_bit_mask (N.land (t_tac t) 3))) in
  if t_lastEdge t && negb edge then
    let tima2 := u8 (tima1 + 1) in
    if tima2 =? 0
    then (mkTimer c (t_tac t) tima2 (t_tma t) edge phase_overflow, true)
    else (mkTimer c (t_tac t) tima2 (t_tma t) edge ph1, false)
  else (mkTimer c (t_tac t) tima1 (t_tma t) edge ph1, false).

Definition timer_read_div (t : timer) : N := u8 (N.shiftr (t_counter t) 8).
Definition timer_read_tac (t : timer) : N := N.lor (t_tac t) 248.
Definition timer_read_tima (t : timer) : N := t_tima t.
Definition timer_read_tma (t : timer) : N := t_tma t.

(* WriteDIV -> Reset *)
Definition timer_write_div (t : timer) (v : N) : timer := timer_set_counter t 0.

Definition timer_write_tac (t : timer) (v : N) : timer :=
  mkTimer (t_counter t) v (t_tima t) (t_tma t) (t_lastEdge t) (t_phase t).

Definition timer_write_tima (t : timer) (v : N) : timer :=
  if t_phase t =? phase_reload then t
  else mkTimer (t_counter t) (t_tac t) v (t_tma t) (t_lastEdge t)
               (if t_phase t =? phase_overflow then phase_idle else t_phase t).

Definition timer_write_tma (t : timer) (v : N) : timer :=
  mkTimer (t_counter t) (t_tac t) (if t_phase t =? phase_reload then v else t_tima t) v (t_lastEdge t)
          (t_phase t).

(* operations of a schedule, as the CPU bus (Mapper FF04-FF07) and the frame loop (runFrame) issue them *)
Inductive timer_op := TTick | TWDiv (v : N) | TWTima (v : N) | TWTma (v : N) | TWTac (v : N).

Definition timer_step (t : timer) (o : timer_op) : timer * bool :=
  match o with
  | TTick => timer_tick t
  | TWDiv v => (timer_write_div t v, false)
  | TWTima v => (timer_write_tima t v, false)
  | TWTma v => (timer_write_tma t v, false)
  | TWTac v => (timer_write_tac t v, false)
  end.

(* DIV, TIMA, TMA, TAC as read through the bus *)
Definition timer_obs (t : timer) : N * N * N * N :=
  (timer_read_div t, timer_read_tima t, timer_read_tma t, timer_read_tac t).

(* observable trace: after each operation its interrupt request and the four registers *)
Fixpoint timer_trace (t : timer) (ops : list timer_op) : list (bool * (N * N * N * N)) :=
  match ops with
  | [] => []
  | o :: r => let '(t', irq) := timer_step t o in (irq, timer_obs t') :: timer_trace t' r
  end.

Definition timer_run (t : timer) (ops : list timer_op) : timer := fold_left (fun t o => fst (timer_step t o)) ops t.
