(* Timer.v — executable model of gameboy/timer/timer.go AS IT IS BEFORE THE REPAIR (reload keyed to absolute
   counter values endCycleA/endCycleB).  Definitions only. *)
From V.lib Require Import Bits.

Record timer := mkTimer {
  t_counter : N;       (* uint16 *)
  t_tac : N;           (* uint8, as written *)
  t_tima : N;
  t_tma : N;
  t_lastEdge : bool;
  t_timaWrite : bool;
  t_tmaWrite : bool;
  t_overflow : bool;
  t_endA : N;          (* uint16 *)
  t_endB : N
}.

(* New(): counter 0xabcc, everything else zero *)
Definition timer_init : timer := mkTimer 43980 0 0 0 false false false false 0 0.

(* verif hook VSetCounter *)
Definition timer_set_counter (t : timer) (c : N) : timer :=
  mkTimer c (t_tac t) (t_tima t) (t_tma t) (t_lastEdge t) (t_timaWrite t) (t_tmaWrite t) (t_overflow t)
          (t_endA t) (t_endB t).

(* counterBitMasks[tac & 3]; the index is masked in the same expression, the table has four entries *)
Definition counter_bit_mask (i : N) : N :=
  match i with 0 => 512 | 1 => 8 | 2 => 32 | _ => 128 end.

(* EndMachineCycle *)
Definition timer_tick (t : timer) : timer * bool :=
  let c := add16 (t_counter t) 4 in
  let hitA := t_overflow t && (c =? t_endA t) in
  let endA := if hitA then 65535 else t_endA t in
  let tima1 := if hitA && negb (t_timaWrite t) then t_tma t else t_tima t in
  let hitB := t_overflow t && (c =? t_endB t) in
  let endB := if hitB then 65535 else t_endB t in
  let ovf := if hitB then false else t_overflow t in
  let tima2 := if hitB && t_tmaWrite t then t_tma t else tima1 in
  let edge := (0 <? N.land (t_tac t) 4) && (0 <? N.land c (counter_bit_mask (N.land (t_tac t) 3))) in
  if t_lastEdge t && negb edge then
    let tima3 := u8 (tima2 + 1) in
    if tima3 =? 0
    then (mkTimer c (t_tac t) tima3 (t_tma t) edge false false true (add16 c 4) (add16 c 8), true)
    else (mkTimer c (t_tac t) tima3 (t_tma t) edge false false ovf endA endB, false)
  else (mkTimer c (t_tac t) tima2 (t_tma t) edge false false ovf endA endB, false).

Definition timer_read_div (t : timer) : N := u8 (N.shiftr (t_counter t) 8).
Definition timer_read_tac (t : timer) : N := N.lor (t_tac t) 248.
Definition timer_read_tima (t : timer) : N := t_tima t.
Definition timer_read_tma (t : timer) : N := t_tma t.

Definition timer_write_div (t : timer) (v : N) : timer := timer_set_counter t 0.

Definition timer_write_tac (t : timer) (v : N) : timer :=
  mkTimer (t_counter t) v (t_tima t) (t_tma t) (t_lastEdge t) (t_timaWrite t) (t_tmaWrite t) (t_overflow t)
          (t_endA t) (t_endB t).

Definition timer_write_tima (t : timer) (v : N) : timer :=
  if t_counter t =? sub16 (t_endB t) 4 then t
  else mkTimer (t_counter t) (t_tac t) v (t_tma t) (t_lastEdge t) true (t_tmaWrite t) (t_overflow t)
               (t_endA t) (t_endB t).

Definition timer_write_tma (t : timer) (v : N) : timer :=
  mkTimer (t_counter t) (t_tac t) (if t_counter t =? t_endB t then v else t_tima t) v (t_lastEdge t)
          (t_timaWrite t) true (t_overflow t) (t_endA t) (t_endB t).

(* operations of a schedule, as the CPU bus and the frame loop issue them *)
Inductive timer_op := TTick | TWDiv (v : N) | TWTima (v : N) | TWTma (v : N) | TWTac (v : N).

Definition timer_step (t : timer) (o : timer_op) : timer * bool :=
  match o with
  | TTick => timer_tick t
  | TWDiv v => (timer_write_div t v, false)
  | TWTima v => (timer_write_tima t v, false)
  | TWTma v => (timer_write_tma t v, false)
  | TWTac v => (timer_write_tac t v, false)
  end.

Definition timer_obs (t : timer) : N * N * N * N :=
  (timer_read_div t, timer_read_tima t, timer_read_tma t, timer_read_tac t).

Fixpoint timer_trace (t : timer) (ops : list timer_op) : list (bool * (N * N * N * N)) :=
  match ops with
  | [] => []
  | o :: r => let '(t', irq) := timer_step t o in (irq, timer_obs t') :: timer_trace t' r
  end.

Definition timer_run (t : timer) (ops : list timer_op) : timer := fold_left (fun t o => fst (timer_step t o)) ops t.
