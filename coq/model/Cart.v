(* Cart.v — executable model of the cartridge side of gameboy/memory: mbc.go (newMBC, prepareROM, prepareRAM,
   the ROM-only controller), mbc1.go, mbc2.go, mbc3.go, mbc5.go, and the clock owned by the Mapper (rtc.go,
   ticked by Mapper.EndMachineCycle for every cartridge type).  Definitions only.

   The ROM image is an input: its length and a byte accessor.  The model never calls [img_at] at or beyond
   [img_len] without first returning [Crash CIndex], so the accessor's value there is irrelevant. *)
From V.lib Require Import Bits Mem Res.
From V.model Require Import Rtc.

Record image := mkImage { img_len : N; img_at : N -> N }.

Inductive kind := KNone | KMbc1 | KMbc2 | KMbc3 | KMbc5.

Record cart := mkCart {
  c_kind : kind;
  c_img : image;          (* the ROM image; pages[i][j] = image[i*0x4000+j] *)
  c_nrom : N;             (* len(rom): number of 16 KiB pages *)
  c_nram : N;             (* len(ram): number of 8 KiB banks (MBC2: unused, its RAM is 512 bytes) *)
  c_ram : Mem.t;          (* cell bank*0x2000+offset (MBC2: offset mod 512) *)
  c_en : bool;            (* ramEnabled *)
  c_bank1 : N; c_bank2 : N; c_mode1 : bool;       (* MBC1 registers *)
  c_romBank0 : N;         (* MBC1 romBank0 *)
  c_romBank : N;          (* MBC1 romBank1 / MBC2, MBC3, MBC5 romBank *)
  c_ramBank : N;          (* MBC1, MBC3 (also the clock register selector), MBC5 ramBank *)
  c_rtc : rtc             (* Mapper.rtc, shared with an MBC3 controller *)
}.

Definition set_ram (c : cart) (m : Mem.t) : cart :=
  mkCart (c_kind c) (c_img c) (c_nrom c) (c_nram c) m (c_en c) (c_bank1 c) (c_bank2 c) (c_mode1 c)
         (c_romBank0 c) (c_romBank c) (c_ramBank c) (c_rtc c).
Definition set_en (c : cart) (b : bool) : cart :=
  mkCart (c_kind c) (c_img c) (c_nrom c) (c_nram c) (c_ram c) b (c_bank1 c) (c_bank2 c) (c_mode1 c)
         (c_romBank0 c) (c_romBank c) (c_ramBank c) (c_rtc c).
Definition set_regs1 (c : cart) (b1 b2 : N) (md : bool) : cart :=
  mkCart (c_kind c) (c_img c) (c_nrom c) (c_nram c) (c_ram c) (c_en c) b1 b2 md
         (c_romBank0 c) (c_romBank c) (c_ramBank c) (c_rtc c).
Definition set_romBank0 (c : cart) (b : N) : cart :=
  mkCart (c_kind c) (c_img c) (c_nrom c) (c_nram c) (c_ram c) (c_en c) (c_bank1 c) (c_bank2 c) (c_mode1 c)
         b (c_romBank c) (c_ramBank c) (c_rtc c).
Definition set_romBank (c : cart) (b : N) : cart :=
  mkCart (c_kind c) (c_img c) (c_nrom c) (c_nram c) (c_ram c) (c_en c) (c_bank1 c) (c_bank2 c) (c_mode1 c)
         (c_romBank0 c) b (c_ramBank c) (c_rtc c).
Definition set_ramBank (c : cart) (b : N) : cart :=
  mkCart (c_kind c) (c_img c) (c_nrom c) (c_nram c) (c_ram c) (c_en c) (c_bank1 c) (c_bank2 c) (c_mode1 c)
         (c_romBank0 c) (c_romBank c) b (c_rtc c).
Definition set_rtc (c : cart) (r : rtc) : cart :=
  mkCart (c_kind c) (c_img c) (c_nrom c) (c_nram c) (c_ram c) (c_en c) (c_bank1 c) (c_bank2 c) (c_mode1 c)
         (c_romBank0 c) (c_romBank c) (c_ramBank c) r.

(* Go's x % y: panics when y = 0 *)
Definition gomod (x y : N) : res N := if y =? 0 then Crash CDiv0 else Ok (x mod y).

(* m.rom[bank][off] with off < 0x4000 ; m.ram[bank][off] with off < 0x2000 *)
Definition rom_at (c : cart) (bank off : N) : res N :=
  if bank <? c_nrom c then Ok (img_at (c_img c) (bank * 16384 + off)) else Crash CIndex.
Definition ram_at (c : cart) (bank off : N) : res N :=
  if bank <? c_nram c then Ok (Mem.get (c_ram c) (bank * 8192 + off)) else Crash CIndex.
Definition ram_put (c : cart) (bank off v : N) : res cart :=
  if bank <? c_nram c then Ok (set_ram c (Mem.set (c_ram c) (bank * 8192 + off) v)) else Crash CIndex.

Definition enable_value (v : N) : bool := N.land v 15 =? 10.

(* ---------------- construction: memory.New -> newMBC ---------------- *)

Definition kind_of_type (t : N) : option kind :=
  match t with
  | 0 => Some KNone
  | 1 | 2 | 3 => Some KMbc1
  | 5 | 6 => Some KMbc2
  | 15 | 16 | 17 | 18 | 19 => Some KMbc3
  | 25 | 26 | 27 | 28 | 29 | 30 => Some KMbc5
  | _ => None
  end.

(* prepareRAM: number of 8 KiB banks *)
Definition ram_banks (cartType ramSize : N) : N :=
  if (cartType =? 5) || (cartType =? 6) then 1
  else match ramSize with
       | 1 => 1 | 2 => 1 | 3 => 4 | 4 => 16 | 5 => 8
       | _ => 1
       end.

(* func (m *mbc1) updateBanks() *)
Definition mbc1_update (c : cart) : res cart :=
  (* uint8(int(m.bank2<<5) % len(m.rom)), uint8(int(m.bank1|m.bank2<<5) % len(m.rom)) *)
  do b0 <- (if c_mode1 c then gomod (shl8 (c_bank2 c) 5) (c_nrom c) else Ok 0);
  do b1 <- gomod (N.lor (c_bank1 c) (shl8 (c_bank2 c) 5)) (c_nrom c);
  let c1 := set_romBank (set_romBank0 c (u8 b0)) (u8 b1) in
  if c_en c then
    if c_mode1 c then
      do rb <- gomod (c_bank2 c) (u8 (c_nram c));
      Ok (set_ramBank c1 rb)
    else Ok (set_ramBank c1 0)
  else Ok c1.

Definition cart_blank (k : kind) (img : image) (nrom nram : N) (ram : Mem.t) (r : rtc) : cart :=
  mkCart k img nrom nram ram false 1 0 false 0 1 0 r.

Definition cart_construct (img : image) : res cart :=
  if img_len img <? 336 (* 0x150 *) then Crash CExplicit          (* too short to hold a header *)
  else
    let romSize := img_at img 328 in
    (* prepareROM *)
    if negb (img_len img mod 16384 =? 0) then Crash CExplicit
    else
      let pages := img_len img / 16384 in
      (* 0x02 << romSize in a 64-bit int: 0 from 63 on, negative at 62 *)
      if negb ((romSize <=? 61) && (pages =? 2 * 2 ^ romSize)) then Crash CExplicit
      else
        let cartType := img_at img 327 in
        let ramSize := img_at img 329 in
        let nram := ram_banks cartType ramSize in
        match kind_of_type cartType with
        | None => Crash CExplicit
        | Some KMbc1 => mbc1_update (cart_blank KMbc1 img pages nram (Mem.empty 255) rtc_init)
        | Some k => Ok (cart_blank k img pages nram (Mem.empty 255) rtc_init)
        end.

(* ---------------- Read ---------------- *)

Definition ram_window_read (c : cart) (addr : N) : res N :=
  match c_kind c with
  | KMbc2 => if c_en c then Ok (Mem.get (c_ram c) ((addr - 40960) mod 512)) else Ok 255
  | KMbc3 =>
      if c_en c then
        if 8 <=? c_ramBank c then rtc_read (c_rtc c) (c_ramBank c)
        else do b <- gomod (c_ramBank c) (c_nram c); ram_at c b (addr - 40960)
      else Ok 255
  | _ => if c_en c then ram_at c (c_ramBank c) (addr - 40960) else Ok 255
  end.

Definition cart_read (c : cart) (addr : N) : res N :=
  match c_kind c with
  | KNone =>
      if addr <? 32768 then
        if addr <? img_len (c_img c) then Ok (img_at (c_img c) addr) else Crash CIndex       (* n.rom[addr] *)
      else Ok 255
  | k =>
      if addr <? 16384 then rom_at c (match k with KMbc1 => c_romBank0 c | _ => 0 end) addr
      else if addr <? 32768 then rom_at c (c_romBank c) (addr - 16384)
      else if addr <? 40960 then Ok 255
      else if addr <? 49152 then ram_window_read c addr
      else Ok 255
  end.

(* ---------------- Write ---------------- *)

Definition mbc1_write (c : cart) (addr v : N) : res cart :=
  if addr <? 8192 then mbc1_update (set_en c (enable_value v))
  else if addr <? 16384 then
    let b := N.land v 31 in
    mbc1_update (set_regs1 c (if b =? 0 then 1 else b) (c_bank2 c) (c_mode1 c))
  else if addr <? 24576 then mbc1_update (set_regs1 c (c_bank1 c) (N.land v 3) (c_mode1 c))
  else if addr <? 32768 then mbc1_update (set_regs1 c (c_bank1 c) (c_bank2 c) (negb (N.land v 1 =? 0)))
  else if addr <? 40960 then Ok c
  else if addr <? 49152 then
    if c_en c then ram_put c (c_ramBank c) (addr - 40960) v else Ok c
  else Ok c.

Definition mbc2_write (c : cart) (addr v : N) : res cart :=
  if addr <? 16384 then
    if N.land addr 256 =? 0 then Ok (set_en c (enable_value v))
    else
      let b := N.land v 15 in
      do r <- gomod (if b =? 0 then 1 else b) (c_nrom c);
      Ok (set_romBank c (u8 r))
  else if addr <? 40960 then Ok c
  else if addr <? 49152 then
    if c_en c then Ok (set_ram c (Mem.set (c_ram c) ((addr - 40960) mod 512) (N.lor v 240))) else Ok c
  else Ok c.

Definition mbc3_write (c : cart) (addr v : N) : res cart :=
  if addr <? 8192 then Ok (set_en c (enable_value v))
  else if addr <? 16384 then
    let b := N.land v 127 in
    do r <- gomod (if b =? 0 then 1 else b) (c_nrom c);
    Ok (set_romBank c (u8 r))
  else if addr <? 24576 then Ok (set_ramBank c (N.land v 15))
  else if addr <? 32768 then
    Ok (set_rtc c (if N.land v 1 =? 0 then rtc_latch_low (c_rtc c) else rtc_latch_high (c_rtc c)))
  else if addr <? 40960 then Ok c
  else if addr <? 49152 then
    if c_en c then
      if 8 <=? c_ramBank c then Ok (set_rtc c (rtc_write (c_rtc c) (c_ramBank c) v))
      else do b <- gomod (c_ramBank c) (c_nram c); ram_put c b (addr - 40960) v
    else Ok c
  else Ok c.

Definition mbc5_write (c : cart) (addr v : N) : res cart :=
  if addr <? 8192 then Ok (set_en c (enable_value v))
  else if addr <? 12288 then
    do r <- gomod (u16 (N.land (c_romBank c) 65280 + v)) (c_nrom c);
    Ok (set_romBank c (u16 r))
  else if addr <? 16384 then
    do r <- gomod (u16 (u16 (N.shiftl v 8) + N.land (c_romBank c) 255)) (c_nrom c);
    Ok (set_romBank c (u16 r))
  else if addr <? 24576 then
    do r <- gomod (N.land v 15) (u8 (c_nram c));
    Ok (set_ramBank c r)
  else if addr <? 40960 then Ok c
  else if addr <? 49152 then
    if c_en c then ram_put c (c_ramBank c) (addr - 40960) v else Ok c
  else Ok c.

Definition cart_write (c : cart) (addr v : N) : res cart :=
  match c_kind c with
  | KNone => Ok c
  | KMbc1 => mbc1_write c addr v
  | KMbc2 => mbc2_write c addr v
  | KMbc3 => mbc3_write c addr v
  | KMbc5 => mbc5_write c addr v
  end.

(* Mapper.EndMachineCycle: the clock ticks whatever the cartridge type *)
Definition cart_tick (c : cart) : cart := set_rtc c (rtc_tick (c_rtc c)).
(* n machine cycles at once, through the closed form *)
Definition cart_advance (c : cart) (n : N) : cart := set_rtc c (rtc_advance (c_rtc c) n).

(* DumpRAM *)
Definition cart_dump (c : cart) : list N :=
  match c_kind c with
  | KNone => []
  | KMbc2 => map (Mem.get (c_ram c)) (upto 512)
  | _ => map (Mem.get (c_ram c)) (upto (N.to_nat (c_nram c * 8192)))
  end.

(* ---------------- operation histories ---------------- *)
Inductive cop := CRead (a : N) | CWrite (a v : N) | CTick (n : N) | CDump.

Definition cart_step (c : cart) (o : cop) : res cart :=
  match o with
  | CRead a => do _ <- cart_read c a; Ok c
  | CWrite a v => cart_write c a v
  | CTick n => Ok (N.iter n cart_tick c)
  | CDump => Ok c
  end.

Fixpoint cart_run (c : cart) (ops : list cop) : res cart :=
  match ops with
  | [] => Ok c
  | o :: rest => do c' <- cart_step c o; cart_run c' rest
  end.
