(* Rtc.v — executable model of gameboy/memory/rtc.go (the MBC3 real-time clock).
   Definitions only.  uint8/uint16 wrap-around of the Go fields is explicit (u8/u16). *)
From V.lib Require Import Bits Res.

Record rtc := mkRtc {
  r_s : N; r_m : N; r_h : N; r_d : N; r_carry : bool; r_halt : bool;          (* live registers *)
  r_ls : N; r_lm : N; r_lh : N; r_ld : N; r_lcarry : bool; r_lhalt : bool;    (* latched registers *)
  r_ticks : N;                                                                 (* sub-second machine cycles *)
  r_low : bool                                                                 (* last latch write had bit 0 = 0 *)
}.

Definition rtc_init : rtc := mkRtc 0 0 0 0 false false 0 0 0 0 false false 0 false.

(* setters *)
Definition set_counters (c : rtc) (s m h d : N) (cy : bool) : rtc :=
  mkRtc s m h d cy (r_halt c) (r_ls c) (r_lm c) (r_lh c) (r_ld c) (r_lcarry c) (r_lhalt c) (r_ticks c) (r_low c).
Definition set_ticks (c : rtc) (t : N) : rtc :=
  mkRtc (r_s c) (r_m c) (r_h c) (r_d c) (r_carry c) (r_halt c)
        (r_ls c) (r_lm c) (r_lh c) (r_ld c) (r_lcarry c) (r_lhalt c) t (r_low c).
Definition set_low (c : rtc) (b : bool) : rtc :=
  mkRtc (r_s c) (r_m c) (r_h c) (r_d c) (r_carry c) (r_halt c)
        (r_ls c) (r_lm c) (r_lh c) (r_ld c) (r_lcarry c) (r_lhalt c) (r_ticks c) b.
Definition set_halt (c : rtc) (b : bool) : rtc :=
  mkRtc (r_s c) (r_m c) (r_h c) (r_d c) (r_carry c) b
        (r_ls c) (r_lm c) (r_lh c) (r_ld c) (r_lcarry c) (r_lhalt c) (r_ticks c) (r_low c).
Definition copy_latch (c : rtc) : rtc :=
  mkRtc (r_s c) (r_m c) (r_h c) (r_d c) (r_carry c) (r_halt c)
        (r_s c) (r_m c) (r_h c) (r_d c) (r_carry c) (r_halt c) (r_ticks c) (r_low c).

(* func (r *rtc) increment() : nested carries, then the four width masks *)
Definition rtc_increment (c : rtc) : rtc :=
  let s1 := u8 (r_s c + 1) in
  if s1 =? 60 then
    let m1 := u8 (r_m c + 1) in
    if m1 =? 60 then
      let h1 := u8 (r_h c + 1) in
      if h1 =? 24 then
        let d1 := u16 (r_d c + 1) in
        if d1 =? 512 then set_counters c 0 0 0 0 true
        else set_counters c 0 0 0 (N.land d1 511) (r_carry c)
      else set_counters c 0 0 (N.land h1 31) (N.land (r_d c) 511) (r_carry c)
    else set_counters c 0 (N.land m1 63) (N.land (r_h c) 31) (N.land (r_d c) 511) (r_carry c)
  else set_counters c (N.land s1 63) (N.land (r_m c) 63) (N.land (r_h c) 31) (N.land (r_d c) 511) (r_carry c).

(* func (r *rtc) tick() : one machine cycle *)
Definition rtc_tick (c : rtc) : rtc :=
  if r_halt c then c
  else
    let t := r_ticks c + 1 in
    if t =? 1048576 then rtc_increment (set_ticks c 0) else set_ticks c t.

Definition rtc_latch_low (c : rtc) : rtc := set_low c true.
Definition rtc_latch_high (c : rtc) : rtc :=
  if r_low c then set_low (copy_latch c) false else set_low c false.

(* func (r *rtc) read(ramBank uint8) uint8 *)
Definition rtc_read (c : rtc) (sel : N) : res N :=
  match sel with
  | 8 => Ok (N.land (r_ls c) 63)
  | 9 => Ok (N.land (r_lm c) 63)
  | 10 => Ok (N.land (r_lh c) 31)
  | 11 => Ok (u8 (r_ld c))
  | 12 => Ok (N.land (u8 (shr (r_ld c) 8)) 1
              + (if r_lcarry c then 128 else 0) + (if r_lhalt c then 64 else 0))
  | _ => Ok 255               (* 0x0D-0x0F select no clock register *)
  end.

(* func (r *rtc) write(ramBank uint8, value uint8) *)
Definition rtc_write (c : rtc) (sel v : N) : rtc :=
  match sel with
  | 8 => set_ticks (set_counters c (N.land v 63) (r_m c) (r_h c) (r_d c) (r_carry c)) 0
  | 9 => set_counters c (r_s c) (N.land v 63) (r_h c) (r_d c) (r_carry c)
  | 10 => set_counters c (r_s c) (r_m c) (N.land v 31) (r_d c) (r_carry c)
  | 11 => set_counters c (r_s c) (r_m c) (r_h c) (N.lor (N.land (r_d c) 256) v) (r_carry c)
  | 12 => set_halt
            (set_counters c (r_s c) (r_m c) (r_h c)
               (N.lor (N.shiftl (N.land v 1) 8) (N.land (r_d c) 255)) (0 <? shr v 7))
            (0 <? N.land (shr v 6) 1)
  | _ => c
  end.

(* ---- elapsed time in closed form ---- *)
Definition rtc_in_range (c : rtc) : bool :=
  (r_s c <? 60) && (r_m c <? 60) && (r_h c <? 24) && (r_d c <? 512).
Definition rtc_total (c : rtc) : N := r_s c + 60 * r_m c + 3600 * r_h c + 86400 * r_d c.
Definition rtc_of_total (c : rtc) (T : N) : rtc :=
  set_counters c (T mod 60) ((T / 60) mod 60) ((T / 3600) mod 24) ((T / 86400) mod 512)
               (r_carry c || (512 <=? T / 86400)).

(* k whole seconds: arithmetic on the total for in-range counters, k single increments otherwise *)
Definition rtc_add_seconds (c : rtc) (k : N) : rtc :=
  if rtc_in_range c then rtc_of_total c (rtc_total c + k) else N.iter k rtc_increment c.

(* n machine cycles (proved equal to n-fold rtc_tick in proofs/RtcProofs.v) *)
Definition rtc_advance (c : rtc) (n : N) : rtc :=
  if r_halt c then c
  else
    let t := r_ticks c + n in
    set_ticks (rtc_add_seconds c (t / 1048576)) (t mod 1048576).

Definition rtc_tick_n (c : rtc) (n : N) : rtc := N.iter n rtc_tick c.
