(* Cpu.v — executable model of gameboy/cpu (cpu.go, execution.go, instructions.go, flags.go) over an abstract
   bus.  The opcode tables are GenDispatch.v (regenerated from dispatch.go on every run).  No proofs here. *)
From V.lib Require Import Bits.
From V.model Require Import Uop Alu.

Inductive fault_kind := FExit | FCrash.
Inductive akind := AFetch | ARead | AWrite.
(* (index of the micro-operation within the current instruction, kind, address); ghost state for C03 *)
Definition access := (nat * akind * N)%type.

Record cpu := mkCpu {
  ra : N;
  rb : N;
  rc : N;
  rd : N;
  re : N;
  rf : N;
  rh : N;
  rl : N;
  sp : N;
  pc : N;
  halted : bool;
  haltbug : bool;
  stopped : bool;
  eip : bool;
  u8a : N;
  u8b : N;
  m8a : N;
  m8b : N;
  cur : list uop;
  cyc : nat;
  early : option (cond * nat * nat);
  mooneye : bool;
  fault : option fault_kind;
  trace : list access
}.

Definition set_ra (v : N) (s : cpu) : cpu := mkCpu v (rb s) (rc s) (rd s) (re s) (rf s) (rh s) (rl s) (sp s) (pc s) (halted s) (haltbug s) (stopped s) (eip s) (u8a s) (u8b s) (m8a s) (m8b s) (cur s) (cyc s) (early s) (mooneye s) (fault s) (trace s).
Definition set_rb (v : N) (s : cpu) : cpu := mkCpu (ra s) v (rc s) (rd s) (re s) (rf s) (rh s) (rl s) (sp s) (pc s) (halted s) (haltbug s) (stopped s) (eip s) (u8a s) (u8b s) (m8a s) (m8b s) (cur s) (cyc s) (early s) (mooneye s) (fault s) (trace s).
Definition set_rc (v : N) (s : cpu) : cpu := mkCpu (ra s) (rb s) v (rd s) (re s) (rf s) (rh s) (rl s) (sp s) (pc s) (halted s) (haltbug s) (stopped s) (eip s) (u8a s) (u8b s) (m8a s) (m8b s) (cur s) (cyc s) (early s) (mooneye s) (fault s) (trace s).
Definition set_rd (v : N) (s : cpu) : cpu := mkCpu (ra s) (rb s) (rc s) v (re s) (rf s) (rh s) (rl s) (sp s) (pc s) (halted s) (haltbug s) (stopped s) (eip s) (u8a s) (u8b s) (m8a s) (m8b s) (cur s) (cyc s) (early s) (mooneye s) (fault s) (trace s).
Definition set_re (v : N) (s : cpu) : cpu := mkCpu (ra s) (rb s) (rc s) (rd s) v (rf s) (rh s) (rl s) (sp s) (pc s) (halted s) (haltbug s) (stopped s) (eip s) (u8a s) (u8b s) (m8a s) (m8b s) (cur s) (cyc s) (early s) (mooneye s) (fault s) (trace s).
Definition set_rf (v : N) (s : cpu) : cpu := mkCpu (ra s) (rb s) (rc s) (rd s) (re s) v (rh s) (rl s) (sp s) (pc s) (halted s) (haltbug s) (stopped s) (eip s) (u8a s) (u8b s) (m8a s) (m8b s) (cur s) (cyc s) (early s) (mooneye s) (fault s) (trace s).
Definition set_rh (v : N) (s : cpu) : cpu := mkCpu (ra s) (rb s) (rc s) (rd s) (re s) (rf s) v (rl s) (sp s) (pc s) (halted s) (haltbug s) (stopped s) (eip s) (u8a s) (u8b s) (m8a s) (m8b s) (cur s) (cyc s) (early s) (mooneye s) (fault s) (trace s).
Definition set_rl (v : N) (s : cpu) : cpu := mkCpu (ra s) (rb s) (rc s) (rd s) (re s) (rf s) (rh s) v (sp s) (pc s) (halted s) (haltbug s) (stopped s) (eip s) (u8a s) (u8b s) (m8a s) (m8b s) (cur s) (cyc s) (early s) (mooneye s) (fault s) (trace s).
Definition set_sp (v : N) (s : cpu) : cpu := mkCpu (ra s) (rb s) (rc s) (rd s) (re s) (rf s) (rh s) (rl s) v (pc s) (halted s) (haltbug s) (stopped s) (eip s) (u8a s) (u8b s) (m8a s) (m8b s) (cur s) (cyc s) (early s) (mooneye s) (fault s) (trace s).
Definition set_pc (v : N) (s : cpu) : cpu := mkCpu (ra s) (rb s) (rc s) (rd s) (re s) (rf s) (rh s) (rl s) (sp s) v (halted s) (haltbug s) (stopped s) (eip s) (u8a s) (u8b s) (m8a s) (m8b s) (cur s) (cyc s) (early s) (mooneye s) (fault s) (trace s).
Definition set_halted (v : bool) (s : cpu) : cpu := mkCpu (ra s) (rb s) (rc s) (rd s) (re s) (rf s) (rh s) (rl s) (sp s) (pc s) v (haltbug s) (stopped s) (eip s) (u8a s) (u8b s) (m8a s) (m8b s) (cur s) (cyc s) (early s) (mooneye s) (fault s) (trace s).
Definition set_haltbug (v : bool) (s : cpu) : cpu := mkCpu (ra s) (rb s) (rc s) (rd s) (re s) (rf s) (rh s) (rl s) (sp s) (pc s) (halted s) v (stopped s) (eip s) (u8a s) (u8b s) (m8a s) (m8b s) (cur s) (cyc s) (early s) (mooneye s) (fault s) (trace s).
Definition set_stopped (v : bool) (s : cpu) : cpu := mkCpu (ra s) (rb s) (rc s) (rd s) (re s) (rf s) (rh s) (rl s) (sp s) (pc s) (halted s) (haltbug s) v (eip s) (u8a s) (u8b s) (m8a s) (m8b s) (cur s) (cyc s) (early s) (mooneye s) (fault s) (trace s).
Definition set_eip (v : bool) (s : cpu) : cpu := mkCpu (ra s) (rb s) (rc s) (rd s) (re s) (rf s) (rh s) (rl s) (sp s) (pc s) (halted s) (haltbug s) (stopped s) v (u8a s) (u8b s) (m8a s) (m8b s) (cur s) (cyc s) (early s) (mooneye s) (fault s) (trace s).
Definition set_u8a (v : N) (s : cpu) : cpu := mkCpu (ra s) (rb s) (rc s) (rd s) (re s) (rf s) (rh s) (rl s) (sp s) (pc s) (halted s) (haltbug s) (stopped s) (eip s) v (u8b s) (m8a s) (m8b s) (cur s) (cyc s) (early s) (mooneye s) (fault s) (trace s).
Definition set_u8b (v : N) (s : cpu) : cpu := mkCpu (ra s) (rb s) (rc s) (rd s) (re s) (rf s) (rh s) (rl s) (sp s) (pc s) (halted s) (haltbug s) (stopped s) (eip s) (u8a s) v (m8a s) (m8b s) (cur s) (cyc s) (early s) (mooneye s) (fault s) (trace s).
Definition set_m8a (v : N) (s : cpu) : cpu := mkCpu (ra s) (rb s) (rc s) (rd s) (re s) (rf s) (rh s) (rl s) (sp s) (pc s) (halted s) (haltbug s) (stopped s) (eip s) (u8a s) (u8b s) v (m8b s) (cur s) (cyc s) (early s) (mooneye s) (fault s) (trace s).
Definition set_m8b (v : N) (s : cpu) : cpu := mkCpu (ra s) (rb s) (rc s) (rd s) (re s) (rf s) (rh s) (rl s) (sp s) (pc s) (halted s) (haltbug s) (stopped s) (eip s) (u8a s) (u8b s) (m8a s) v (cur s) (cyc s) (early s) (mooneye s) (fault s) (trace s).
Definition set_cur (v : list uop) (s : cpu) : cpu := mkCpu (ra s) (rb s) (rc s) (rd s) (re s) (rf s) (rh s) (rl s) (sp s) (pc s) (halted s) (haltbug s) (stopped s) (eip s) (u8a s) (u8b s) (m8a s) (m8b s) v (cyc s) (early s) (mooneye s) (fault s) (trace s).
Definition set_cyc (v : nat) (s : cpu) : cpu := mkCpu (ra s) (rb s) (rc s) (rd s) (re s) (rf s) (rh s) (rl s) (sp s) (pc s) (halted s) (haltbug s) (stopped s) (eip s) (u8a s) (u8b s) (m8a s) (m8b s) (cur s) v (early s) (mooneye s) (fault s) (trace s).
Definition set_early (v : option (cond * nat * nat)) (s : cpu) : cpu := mkCpu (ra s) (rb s) (rc s) (rd s) (re s) (rf s) (rh s) (rl s) (sp s) (pc s) (halted s) (haltbug s) (stopped s) (eip s) (u8a s) (u8b s) (m8a s) (m8b s) (cur s) (cyc s) v (mooneye s) (fault s) (trace s).
Definition set_mooneye (v : bool) (s : cpu) : cpu := mkCpu (ra s) (rb s) (rc s) (rd s) (re s) (rf s) (rh s) (rl s) (sp s) (pc s) (halted s) (haltbug s) (stopped s) (eip s) (u8a s) (u8b s) (m8a s) (m8b s) (cur s) (cyc s) (early s) v (fault s) (trace s).
Definition set_fault (v : option fault_kind) (s : cpu) : cpu := mkCpu (ra s) (rb s) (rc s) (rd s) (re s) (rf s) (rh s) (rl s) (sp s) (pc s) (halted s) (haltbug s) (stopped s) (eip s) (u8a s) (u8b s) (m8a s) (m8b s) (cur s) (cyc s) (early s) (mooneye s) v (trace s).
Definition set_trace (v : list access) (s : cpu) : cpu := mkCpu (ra s) (rb s) (rc s) (rd s) (re s) (rf s) (rh s) (rl s) (sp s) (pc s) (halted s) (haltbug s) (stopped s) (eip s) (u8a s) (u8b s) (m8a s) (m8b s) (cur s) (cyc s) (early s) (mooneye s) (fault s) v.

Definition cpu_init : cpu :=
  mkCpu 1 0 19 0 216 176 1 77 65534 256 false false false false 0 0 0 0 [] 0%nat None false None [].

Definition get_reg (r : reg) (s : cpu) : N :=
  match r with
  | RA => ra s | RB => rb s | RC => rc s | RD => rd s | RE => re s | RF => rf s | RH => rh s | RL => rl s
  | RM8A => m8a s | RM8B => m8b s
  end.

Definition set_reg (r : reg) (v : N) (s : cpu) : cpu :=
  match r with
  | RA => set_ra v s | RB => set_rb v s | RC => set_rc v s | RD => set_rd v s | RE => set_re v s
  | RF => set_rf v s | RH => set_rh v s | RL => set_rl v s | RM8A => set_m8a v s | RM8B => set_m8b v s
  end.

Definition pair16 (hi lo : N) : N := hi * 256 + lo.
Definition bc (s : cpu) : N := pair16 (rb s) (rc s).
Definition de (s : cpu) : N := pair16 (rd s) (re s).
Definition hl (s : cpu) : N := pair16 (rh s) (rl s).
Definition imm16 (s : cpu) : N := pair16 (u8b s) (u8a s).

Definition get_rp (p : rp) (s : cpu) : N :=
  match p with BC => bc s | DE => de s | HL => hl s | SPp => sp s end.

Definition set_rp (p : rp) (v : N) (s : cpu) : cpu :=
  match p with
  | BC => set_rc (v mod 256) (set_rb (v / 256) s)
  | DE => set_re (v mod 256) (set_rd (v / 256) s)
  | HL => set_rl (v mod 256) (set_rh (v / 256) s)
  | SPp => set_sp v s
  end.

Definition log (k : akind) (a : N) (s : cpu) : cpu := set_trace ((cyc s, k, a) :: trace s) s.

Definition check_cond (c : cond) (f : N) : bool :=
  match c with CZ => zf f | CNZ => negb (zf f) | CC => cf f | CNC => negb (cf f) end.

Fixpoint lookup_early (op : N) (t : list (N * (cond * nat * nat))) : option (cond * nat * nat) :=
  match t with
  | [] => None
  | (k, e) :: t' => if k =? op then Some e else lookup_early op t'
  end.

(* the opcode tables of dispatch.go: two pages of micro-operation lists, the conditional early exits and the three
   interrupt sequences.  The model is parametric in them; CpuTables.gen_tables is the instance regenerated from the Go
   source on every run. *)
Record tables := mkTables {
  t_normal : list (list uop);
  t_prefix : list (list uop);
  t_early : list (N * (cond * nat * nat));
  t_vshort : list uop;
  t_short : list uop;
  t_long : list uop
}.

Section Bus.
  Variable T : tables.
  Variable B : Type.
  Variable bus_rd : B -> N -> B * N.          (* Mapper.Read *)
  Variable bus_wr : B -> N -> N -> B.         (* Mapper.Write *)
  Variable bus_trig : B -> N -> B.            (* oam.TriggerWriteCorruption *)
  Variable bus_corrupt : B -> B.              (* oam.Corrupt, after every executed micro-operation *)
  Variable bus_ime : B -> bool.               (* interrupts.Enabled *)
  Variable bus_set_ime : B -> bool -> B.      (* interrupts.Enable / Disable *)
  Variable bus_pending : B -> N.              (* IE land IF land 31: bit i set <=> interrupt i enabled and requested *)
  Variable bus_ack : B -> N -> B.             (* interrupts.ResetX for bit i *)

  (* data read / write through the bus, logged with the current micro-operation index *)
  Definition dread (s : cpu) (b : B) (a : N) : cpu * B * N :=
    (log ARead a s, fst (bus_rd b a), snd (bus_rd b a)).
  Definition dwrite (s : cpu) (b : B) (a v : N) : cpu * B :=
    (log AWrite a s, bus_wr b a v).

  Definition inc_sp (s : cpu) (b : B) : cpu * B := (set_sp (add16 (sp s) 1) s, bus_trig b (sp s)).
  Definition dec_sp (s : cpu) (b : B) : cpu * B := (set_sp (sub16 (sp s) 1) s, bus_trig b (sp s)).
  Definition inc_hl (s : cpu) (b : B) : cpu * B := (set_rp HL (add16 (hl s) 1) s, bus_trig b (hl s)).
  Definition dec_hl (s : cpu) (b : B) : cpu * B := (set_rp HL (sub16 (hl s) 1) s, bus_trig b (hl s)).

  Definition do_rst (a : N) (s : cpu) : cpu :=
    set_pc a (set_m8b (pc s / 256) (set_m8a (pc s mod 256) s)).

  Definition do_push (r : reg) (s : cpu) (b : B) : cpu * B :=
    let sb := dec_sp s b in
    dwrite (fst sb) (snd sb) (sp (fst sb)) (get_reg r (fst sb)).

  Definition handle_interrupt (s : cpu) (b : B) : cpu * B :=
    if bus_ime b then
      let b0 := bus_set_ime b false in
      let p := bus_pending b0 in
      let sb :=
        if N.testbit p 0 then (do_rst 64 s, bus_ack b0 0)
        else if N.testbit p 1 then (do_rst 72 s, bus_ack b0 1)
        else if N.testbit p 2 then (do_rst 80 s, bus_ack b0 2)
        else if N.testbit p 3 then (do_rst 88 s, bus_ack b0 3)
        else if N.testbit p 4 then (do_rst 96 s, bus_ack b0 4)
        else (s, b0) in
      let sb1 := do_push RM8B (fst sb) (snd sb) in
      do_push RM8A (fst sb1) (snd sb1)
    else (s, b).

  Definition src_val (x : src) (s : cpu) (b : B) : cpu * B * N :=
    match x with
    | SReg r => (s, b, get_reg r s)
    | SImm => (s, b, u8a s)
    | SMemHL => dread s b (hl s)
    end.

  Definition exec (u : uop) (s : cpu) (b : B) : cpu * B :=
    match u with
    | UNop => (s, b)
    | UReadA =>
        (set_pc (add16 (pc s) 1) (set_u8a (snd (bus_rd b (pc s))) (log AFetch (pc s) s)), fst (bus_rd b (pc s)))
    | UReadB =>
        (set_pc (add16 (pc s) 1) (set_u8b (snd (bus_rd b (pc s))) (log AFetch (pc s) s)), fst (bus_rd b (pc s)))
    | UAlu o x =>
        let r := src_val x s b in
        let s1 := fst (fst r) in
        let p := alu o (ra s1) (snd r) (rf s1) in
        (set_rf (snd p) (set_ra (fst p) s1), snd (fst r))
    | UMov d x => (set_reg d (get_reg x s) s, b)
    | UMovImm d => (set_reg d (u8a s) s, b)
    | ULdRM d => let r := dread s b (hl s) in (set_reg d (snd r) (fst (fst r)), snd (fst r))
    | UStMR x => dwrite s b (hl s) (get_reg x s)
    | UStMImm => dwrite s b (hl s) (u8a s)
    | UInc8 r => let p := inc8 (get_reg r s) (rf s) in (set_rf (snd p) (set_reg r (fst p) s), b)
    | UDec8 r => let p := dec8 (get_reg r s) (rf s) in (set_rf (snd p) (set_reg r (fst p) s), b)
    | UIncM =>
        let p := inc8 (m8a s) (rf s) in
        let s1 := set_rf (snd p) (set_m8a (fst p) s) in
        dwrite s1 b (hl s1) (m8a s1)
    | UDecM =>
        let p := dec8 (m8a s) (rf s) in
        let s1 := set_rf (snd p) (set_m8a (fst p) s) in
        dwrite s1 b (hl s1) (m8a s1)
    | UInc16 p => (set_rp p (add16 (get_rp p s) 1) s, bus_trig b (get_rp p s))
    | UDec16 p => (set_rp p (sub16 (get_rp p s) 1) s, bus_trig b (get_rp p s))
    | UAddHL p =>
        let r := alu_addhl (hl s) (get_rp p s) (rf s) in
        (set_rf (snd r) (set_rp HL (fst r) s), b)
    | UAddSP =>
        let r := alu_addsp (sp s) (u8a s) (rf s) in
        (set_rf (snd r) (set_sp (fst r) s), b)
    | ULdHLSP =>
        let r := alu_addsp (sp s) (u8a s) (rf s) in
        (set_rf (snd r) (set_rp HL (fst r) s), b)
    | ULd16 p => (set_rp p (imm16 s) s, b)
    | ULdSPHL => (set_sp (hl s) s, b)
    | UStA p => dwrite s b (get_rp p s) (ra s)
    | ULdA p => let r := dread s b (get_rp p s) in (set_ra (snd r) (fst (fst r)), snd (fst r))
    | UStHLI => let r := dwrite s b (hl s) (ra s) in inc_hl (fst r) (snd r)
    | UStHLD => let r := dwrite s b (hl s) (ra s) in dec_hl (fst r) (snd r)
    | ULdHLI => let r := dread s b (hl s) in inc_hl (set_ra (snd r) (fst (fst r))) (snd (fst r))
    | ULdHLD => let r := dread s b (hl s) in dec_hl (set_ra (snd r) (fst (fst r))) (snd (fst r))
    | ULdACX => let r := dread s b (65280 + rc s) in (set_ra (snd r) (fst (fst r)), snd (fst r))
    | UStCXA => dwrite s b (65280 + rc s) (ra s)
    | ULdAUX => let r := dread s b (65280 + u8a s) in (set_ra (snd r) (fst (fst r)), snd (fst r))
    | UStUXA => dwrite s b (65280 + u8a s) (ra s)
    | ULdAUX16 => let r := dread s b (imm16 s) in (set_ra (snd r) (fst (fst r)), snd (fst r))
    | UStUX16A => dwrite s b (imm16 s) (ra s)
    | UWriteLowSP => dwrite s b (imm16 s) (sp s mod 256)
    | UWriteHighSP => dwrite s b (add16 (imm16 s) 1) (sp s / 256)
    | URot o r => let p := rot o (get_reg r s) (rf s) in (set_rf (snd p) (set_reg r (fst p) s), b)
    | URotM o =>
        let p := rot o (m8a s) (rf s) in
        let s1 := set_rf (snd p) (set_m8a (fst p) s) in
        dwrite s1 b (hl s1) (m8a s1)
    | URla => let p := rot_a OpRL (ra s) (rf s) in (set_rf (snd p) (set_ra (fst p) s), b)
    | URlca => let p := rot_a OpRLC (ra s) (rf s) in (set_rf (snd p) (set_ra (fst p) s), b)
    | URra => let p := rot_a OpRR (ra s) (rf s) in (set_rf (snd p) (set_ra (fst p) s), b)
    | URrca => let p := rot_a OpRRC (ra s) (rf s) in (set_rf (snd p) (set_ra (fst p) s), b)
    | UBit n r => (set_rf (bit_test n (get_reg r s) (rf s)) s, b)
    | UBitM n => let r := dread s b (hl s) in
                 (set_rf (bit_test n (snd r) (rf s)) (fst (fst r)), snd (fst r))
    | URes n r => (set_reg r (bit_res n (get_reg r s)) s, b)
    | UResM n => let s1 := set_m8a (bit_res n (m8a s)) s in dwrite s1 b (hl s1) (m8a s1)
    | USet n r => (set_reg r (bit_set n (get_reg r s)) s, b)
    | USetM n => let s1 := set_m8a (bit_set n (m8a s)) s in dwrite s1 b (hl s1) (m8a s1)
    | UPop r => let x := dread s b (sp s) in inc_sp (set_reg r (snd x) (fst (fst x))) (snd (fst x))
    | UPopF => let x := dread s b (sp s) in inc_sp (set_rf (N.land (snd x) 240) (fst (fst x))) (snd (fst x))
    | UPush r => do_push r s b
    | URst a => (do_rst a s, b)
    | UCall => (set_pc (imm16 s) (set_m8b (pc s / 256) (set_m8a (pc s mod 256) s)), b)
    | URet => (set_pc (N.lor (m8b s * 256) (m8a s)) s, b)
    | UReti => (set_pc (N.lor (m8b s * 256) (m8a s)) s, bus_set_ime b true)
    | UJr => (set_pc (jr_target (pc s) (u8a s)) s, b)
    | UJp => (set_pc (imm16 s) s, b)
    | UJpHL => (set_pc (hl s) s, b)
    | UDaa => let p := alu_daa (ra s) (rf s) in (set_rf (snd p) (set_ra (fst p) s), b)
    | UCpl => let p := alu_cpl (ra s) (rf s) in (set_rf (snd p) (set_ra (fst p) s), b)
    | UCcf => (set_rf (alu_ccf (rf s)) s, b)
    | UScf => (set_rf (alu_scf (rf s)) s, b)
    | UDi => (s, bus_set_ime b false)
    | UEi => (set_eip true s, b)
    | UHalt =>
        if bus_ime b then (set_halted true s, b)
        else if bus_pending b =? 0 then (set_halted true s, b)
        else (set_haltbug true s, b)
    | UStop => (set_stopped true s, b)
    | UMooneye => (set_mooneye true s, b)
    | UFatal => (set_fault (Some FExit) s, b)
    | UHandleInterrupt => handle_interrupt s b
    end.

  (* checkInterrupts: the interrupt sequence to run, if any, and the CPU with halted cleared *)
  Definition check_interrupts (s : cpu) (b : B) : option (list uop) * cpu :=
    if bus_pending b =? 0 then (None, s)
    else if bus_ime b then
      (if halted s then (Some (t_long T), set_halted false s) else (Some (t_short T), s))
    else if halted s then (Some (t_vshort T), set_halted false s)
    else (None, s).

  Definition fetch (s : cpu) (b : B) : cpu * B :=
    let op := snd (bus_rd b (pc s)) in
    let b1 := fst (bus_rd b (pc s)) in
    let s0 := set_trace [] s in
    let sb :=
      if op =? 203 then
        let pc1 := add16 (pc s0) 1 in
        let op2 := snd (bus_rd b1 pc1) in
        (set_early None (set_cur (nth (N.to_nat op2) (t_prefix T) []) (set_cyc 0%nat (set_pc pc1 s0))),
         fst (bus_rd b1 pc1))
      else
        (set_early (lookup_early op (t_early T)) (set_cur (nth (N.to_nat op) (t_normal T) []) (set_cyc 0%nat s0)), b1) in
    let s1 := set_m8b 0 (set_m8a 0 (set_u8b 0 (set_u8a 0 (fst sb)))) in
    let s2 := if haltbug s1 then set_haltbug false s1 else set_pc (add16 (pc s1) 1) s1 in
    (s2, snd sb).

  (* next: (cpu, bus, "halted": nothing to execute in this cycle) *)
  Definition next (s : cpu) (b : B) : cpu * B * bool :=
    let ci := check_interrupts s b in
    let s1 := snd ci in
    let b1 := if eip s1 then bus_set_ime b true else b in
    let s2 := set_eip false s1 in
    match fst ci with
    | Some l => (set_trace [] (set_early None (set_cur l (set_cyc 0%nat s2))), b1, false)
    | None =>
        if halted s2 || stopped s2 then (s2, b1, true)
        else (fetch s2 b1, false)
    end.

  Definition is_finished (s : cpu) : bool :=
    match early s with
    | None => Nat.eqb (cyc s) (length (cur s))
    | Some (c, e, l) => (Nat.eqb (cyc s) e && check_cond c (rf s)) || Nat.eqb (cyc s) l
    end.

  (* ExecuteMachineCycle *)
  Definition cycle (sb : cpu * B) : cpu * B :=
    let s := fst sb in
    let b := snd sb in
    match fault s with
    | Some _ => sb
    | None =>
        let n := if is_finished s then next s b else (s, b, false) in
        if snd n then fst n
        else
          let s1 := fst (fst n) in
          let b1 := snd (fst n) in
          match nth_error (cur s1) (cyc s1) with
          | None => (set_fault (Some FCrash) s1, b1)
          | Some u =>
              let r := exec u s1 b1 in
              (set_cyc (S (cyc (fst r))) (fst r), bus_corrupt (snd r))
          end
    end.

  Definition at_boundary (s : cpu) : bool := is_finished s.

End Bus.
