(* Uop.v — vocabulary of CPU micro-operations.  One micro-operation is what the Go code executes in one machine
   cycle (an element of the per-opcode closure lists of gameboy/cpu/dispatch.go).  GenDispatch.v, regenerated
   from the Go source on every run, is written in this vocabulary. *)
From Coq Require Import NArith.

Inductive reg := RA | RB | RC | RD | RE | RF | RH | RL | RM8A | RM8B.
Inductive rp := BC | DE | HL | SPp.
Inductive src := SReg (r : reg) | SImm | SMemHL.
Inductive aluop := ADD | ADC | SUB | SBC | AND | XOR | OR | CP.
Inductive rotop := OpRLC | OpRRC | OpRL | OpRR | OpSLA | OpSRA | OpSWAP | OpSRL.
Inductive cond := CZ | CNZ | CC | CNC.

Inductive uop :=
| UNop | UReadA | UReadB
| UAlu (o : aluop) (s : src)
| UMov (d s : reg) | UMovImm (d : reg)
| ULdRM (d : reg) | UStMR (s : reg) | UStMImm
| UInc8 (r : reg) | UDec8 (r : reg) | UIncM | UDecM
| UInc16 (p : rp) | UDec16 (p : rp)
| UAddHL (p : rp) | UAddSP | ULdHLSP
| ULd16 (p : rp) | ULdSPHL
| UStA (p : rp) | ULdA (p : rp) | UStHLI | UStHLD | ULdHLI | ULdHLD
| ULdACX | UStCXA | ULdAUX | UStUXA | ULdAUX16 | UStUX16A | UWriteLowSP | UWriteHighSP
| URot (o : rotop) (r : reg) | URotM (o : rotop) | URla | URlca | URra | URrca
| UBit (n : N) (r : reg) | UBitM (n : N) | URes (n : N) (r : reg) | UResM (n : N) | USet (n : N) (r : reg) | USetM (n : N)
| UPop (r : reg) | UPopF | UPush (r : reg) | URst (a : N) | UCall | URet | UReti | UJr | UJp | UJpHL
| UDaa | UCpl | UCcf | UScf | UDi | UEi | UHalt | UStop | UMooneye | UFatal
| UHandleInterrupt.
