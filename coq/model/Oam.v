(* Oam.v — executable model of gameboy/oam/oam.go (object attribute memory, its DMA engine and the
   bookkeeping of the DMG "OAM corruption bug").  Definitions only.

   Conventions: every machine value is an N; Go's uint16 arithmetic is written with sub16/add16/u16;
   every array index or slice bound of the Go code that is not guarded in the same expression is
   checked here and yields [Crash CIndex] (Go: "index out of range" / "slice bounds out of range").
   The model follows the repaired code (see known/C16.json, known/C17.json):
     - WriteDMA keeps the written byte in its own field, ReadDMA returns it        (fix for C06/C16)
     - doubleWriteCorruption returns when the accessed row is 0                     (fix for C11/C17) *)
From V.lib Require Import Bits Mem Res.

Record oam := mkOam {
  o_mem : Mem.t;            (* oam [0xa0]byte, indices 0..159 *)
  o_dmaRunning : bool;
  o_dmaCycle : N;           (* uint16 *)
  o_dmaBaseAddr : N;        (* uint16 *)
  o_dmaRead : N;            (* uint8: byte fetched in the previous DMA cycle *)
  o_dmaReg : N;             (* uint8: last byte written to FF46 *)
  o_corrupt : bool;         (* the PPU is in mode 2 *)
  o_ppuLastAccess : N;      (* uint16 *)
  o_read : bool;
  o_write : bool;
  o_doubleWrite : bool
}.

Definition oam_init : oam :=
  mkOam (Mem.empty 0) false 0 0 0 0 false 0 false false false.

(* ---- setters ---- *)
Definition set_mem (o : oam) (m : Mem.t) : oam :=
  mkOam m (o_dmaRunning o) (o_dmaCycle o) (o_dmaBaseAddr o) (o_dmaRead o) (o_dmaReg o)
        (o_corrupt o) (o_ppuLastAccess o) (o_read o) (o_write o) (o_doubleWrite o).
Definition set_dma (o : oam) (running : bool) (cycle base rd : N) : oam :=
  mkOam (o_mem o) running cycle base rd (o_dmaReg o)
        (o_corrupt o) (o_ppuLastAccess o) (o_read o) (o_write o) (o_doubleWrite o).
Definition set_dmaReg (o : oam) (v : N) : oam :=
  mkOam (o_mem o) (o_dmaRunning o) (o_dmaCycle o) (o_dmaBaseAddr o) (o_dmaRead o) v
        (o_corrupt o) (o_ppuLastAccess o) (o_read o) (o_write o) (o_doubleWrite o).
Definition set_corrupt (o : oam) (b : bool) : oam :=
  mkOam (o_mem o) (o_dmaRunning o) (o_dmaCycle o) (o_dmaBaseAddr o) (o_dmaRead o) (o_dmaReg o)
        b (o_ppuLastAccess o) (o_read o) (o_write o) (o_doubleWrite o).
Definition set_ppuLastAccess (o : oam) (a : N) : oam :=
  mkOam (o_mem o) (o_dmaRunning o) (o_dmaCycle o) (o_dmaBaseAddr o) (o_dmaRead o) (o_dmaReg o)
        (o_corrupt o) a (o_read o) (o_write o) (o_doubleWrite o).
Definition set_flags (o : oam) (r w dw : bool) : oam :=
  mkOam (o_mem o) (o_dmaRunning o) (o_dmaCycle o) (o_dmaBaseAddr o) (o_dmaRead o) (o_dmaReg o)
        (o_corrupt o) (o_ppuLastAccess o) r w dw.

(* ---- checked array access: m.oam[i] with i a uint16 ---- *)
Definition oam_size : N := 160.

Definition get8 (m : Mem.t) (i : N) : res N :=
  if i <? oam_size then Ok (Mem.get m i) else Crash CIndex.
Definition put8 (m : Mem.t) (i v : N) : res Mem.t :=
  if i <? oam_size then Ok (Mem.set m i v) else Crash CIndex.

(* uint16(m.oam[i])<<8 + uint16(m.oam[i+1]) ; the sum of a byte<<8 and a byte never wraps *)
Definition word_at (m : Mem.t) (i : N) : res N :=
  do hi <- get8 m i;
  do lo <- get8 m (add16 i 1);
  Ok (u16 (u16 (hi * 256) + lo)).

(* m.oam[i] = uint8(w >> 8); m.oam[i+1] = uint8(w & 0xff) *)
Definition put_word (m : Mem.t) (i w : N) : res Mem.t :=
  do m1 <- put8 m i (u8 (N.shiftr w 8));
  put8 m1 (add16 i 1) (N.land w 255).

(* copy(m.oam[dlo:dhi], m.oam[slo:shi]) for slices of the 160-byte array: Go checks
   lo <= hi <= 160 for both slices, then moves min(len dst, len src) bytes (memmove semantics: the source
   bytes are read before any is overwritten). *)
Fixpoint read_run (m : Mem.t) (start : N) (n : nat) : list N :=
  match n with
  | O => []
  | S k => Mem.get m start :: read_run m (N.succ start) k
  end.
Fixpoint write_run (m : Mem.t) (start : N) (l : list N) : Mem.t :=
  match l with
  | [] => m
  | v :: t => write_run (Mem.set m start v) (N.succ start) t
  end.
Definition slice_ok (lo hi : N) : bool := (lo <=? hi) && (hi <=? oam_size).
Definition copy_slice (m : Mem.t) (dlo dhi slo shi : N) : res Mem.t :=
  if slice_ok dlo dhi && slice_ok slo shi then
    let n := N.min (dhi - dlo) (shi - slo) in
    Ok (write_run m dlo (read_run m slo (N.to_nat n)))
  else Crash CIndex.

(* ---- the corruption window ---- *)
Definition oam_enter_mode2 (o : oam) : oam := set_corrupt o true.
Definition oam_exit_mode2 (o : oam) : oam := set_corrupt o false.

(* TriggerWriteCorruption(u16): a 16-bit register of the CPU is incremented/decremented *)
Definition oam_trigger_write_corruption (o : oam) (a : N) : oam :=
  if negb (o_corrupt o) || (a <? 0xFE00) || (0xFEFF <? a) then o
  else if o_write o then set_flags o (o_read o) (o_write o) true
       else set_flags o (o_read o) true (o_doubleWrite o).

(* ---- the four corruption patterns ---- *)
(* offset of the PPU's last access inside OAM, as the Go code computes it in uint16 *)
Definition pla_off (o : oam) : N := sub16 (o_ppuLastAccess o) 0xFE00.

(* the body shared by write / double-write / read corruption, for the row starting at rowStart >= 8:
   first word := f a b c, remaining three words copied from the preceding row *)
Definition corrupt_row (m : Mem.t) (rowStart : N) (f : N -> N -> N -> N) : res Mem.t :=
  do a <- word_at m rowStart;
  do b <- word_at m (sub16 rowStart 8);
  do c <- word_at m (sub16 rowStart 4);
  do m1 <- put_word m rowStart (f a b c);
  copy_slice m1 (add16 rowStart 2) (add16 rowStart 8) (sub16 rowStart 6) rowStart.

Definition f_write (a b c : N) : N := N.lxor (N.land (N.lxor a c) (N.lxor b c)) c.
Definition f_read (a b c : N) : N := N.lor b (N.land a c).

Definition write_corruption (o : oam) : res oam :=
  let rowStart := u16 ((pla_off o / 8) * 8) in
  if rowStart =? 0 then Ok o
  else do m <- corrupt_row (o_mem o) rowStart f_write; Ok (set_mem o m).

Definition read_corruption (o : oam) : res oam :=
  let rowStart := u16 ((pla_off o / 8) * 8) in
  if rowStart =? 0 then Ok o
  else do m <- corrupt_row (o_mem o) rowStart f_read; Ok (set_mem o m).

(* repaired: "if row == 0 { return }" before (row-1)*8 is formed *)
Definition double_write_corruption (o : oam) : res oam :=
  let row := pla_off o / 8 in
  if row =? 0 then Ok o
  else
    let rowStart := u16 (sub16 row 1 * 8) in
    if rowStart <? 1 then Ok o
    else do m <- corrupt_row (o_mem o) rowStart f_write; Ok (set_mem o m).

Definition f_rw (a b c d : N) : N :=
  N.lor (N.land b (N.lor (N.lor a c) d)) (N.land (N.land a c) d).

Definition read_write_corruption (o : oam) : res oam :=
  let row := pla_off o / 8 in
  if (row <? 5) || (row =? 19) then Ok o
  else
    let rowStart := u16 (row * 8) in
    let m := o_mem o in
    do a <- word_at m (sub16 rowStart 16);
    do b <- word_at m (sub16 rowStart 8);
    do c <- word_at m rowStart;
    do d <- word_at m (sub16 rowStart 4);
    do m1 <- put_word m (sub16 rowStart 8) (f_rw a b c d);
    do m2 <- copy_slice m1 rowStart (add16 rowStart 8) (sub16 rowStart 8) rowStart;
    do m3 <- copy_slice m2 (sub16 rowStart 16) (sub16 rowStart 8) (sub16 rowStart 8) rowStart;
    Ok (set_mem o m3).

(* Corrupt(): called by the CPU at the end of every machine cycle *)
Definition oam_corrupt (o : oam) : res oam :=
  if negb (o_read o) && negb (o_write o) then Ok o
  else
    do o1 <- (if o_read o && o_write o then read_write_corruption o else Ok o);
    do o2 <- (if o_read o1 then read_corruption o1
              else
                do o3 <- (if o_doubleWrite o1 then double_write_corruption o1 else Ok o1);
                if o_write o3 then write_corruption o3 else Ok o3);
    Ok (set_flags o2 false false false).

(* ---- CPU-side and PPU-side accesses ---- *)
(* Read(addr): the decoder passes FE00 <= addr <= FEFF; any other address indexes out of range *)
Definition oam_read (o : oam) (addr : N) : res (oam * N) :=
  if o_dmaRunning o then Ok (o, 255)
  else
    let o1 := if o_corrupt o then set_flags o true (o_write o) (o_doubleWrite o) else o in
    if 0xFEA0 <=? addr then Ok (o1, 0)
    else do v <- get8 (o_mem o1) (sub16 addr 0xFE00); Ok (o1, v).

Definition oam_write (o : oam) (addr v : N) : res oam :=
  let o1 := if o_corrupt o
            then (if o_write o then set_flags o (o_read o) (o_write o) true
                  else set_flags o (o_read o) true (o_doubleWrite o))
            else o in
  if addr <? 0xFEA0
  then do m <- put8 (o_mem o1) (sub16 addr 0xFE00) v; Ok (set_mem o1 m)
  else Ok o1.

Definition oam_ppu_read (o : oam) (addr : N) : res (oam * N) :=
  let o1 := set_ppuLastAccess o addr in
  if o_dmaRunning o then Ok (o1, 255)
  else do v <- get8 (o_mem o1) (sub16 addr 0xFE00); Ok (o1, v).

(* ---- DMA ---- *)
(* startDMA(value) with the E000-FFFF -> C000-DFFF adjustment *)
Definition oam_write_dma (o : oam) (v : N) : oam :=
  let base := u16 (N.shiftl v 8) in
  let base' := if 0xE000 <=? base then sub16 base 0x2000 else base in
  set_dmaReg (set_dma o true 0 base' (o_dmaRead o)) v.

Definition oam_read_dma (o : oam) : N := o_dmaReg o.

(* TickDMA(read): [rd] is the bus-read function valid during this machine cycle *)
Definition oam_tick_dma (rd : N -> N) (o : oam) : res oam :=
  if o_dmaRunning o then
    let c := o_dmaCycle o in
    let bump (o' : oam) := set_dma o' (o_dmaRunning o') (add16 c 1) (o_dmaBaseAddr o') (o_dmaRead o') in
    if c =? 0 then Ok (bump o)
    else if c =? 1 then
      Ok (bump (set_dma o true c (o_dmaBaseAddr o) (rd (o_dmaBaseAddr o))))
    else if c =? 161 then
      do m <- put8 (o_mem o) 159 (o_dmaRead o);
      Ok (bump (set_dma (set_mem o m) false c (o_dmaBaseAddr o) (o_dmaRead o)))
    else
      do m <- put8 (o_mem o) (sub16 c 2) (o_dmaRead o);
      Ok (bump (set_dma (set_mem o m) true c (o_dmaBaseAddr o)
                        (rd (sub16 (add16 (o_dmaBaseAddr o) c) 1))))
  else Ok o.

(* the 160 bytes, for dumps *)
Definition oam_bytes (o : oam) : list N := read_run (o_mem o) 0 160.

(* ---- running the DMA engine for n machine cycles ----
   [rd t] is the bus-read function valid during tick number t (the source may change between ticks);
   t0 is the number of the first tick executed. *)
Definition dma_step (rd : N -> N -> N) (st : N * res oam) : N * res oam :=
  (N.succ (fst st), do o <- snd st; oam_tick_dma (rd (fst st)) o).

Definition dma_run (rd : N -> N -> N) (t0 n : N) (o : oam) : res oam :=
  snd (N.iter n (dma_step rd) (t0, Ok o)).
