(* FrameLoop.v — executable model of gameboy.go's Run loop and Cleanup (the concurrency-free logic of it):
     defer Cleanup(); for { select { case <-ctx.Done(): return; default: if runFrame(ctx) { return } } }
   The environment is an oracle: [cancelled k] = ctx.Done() is observed ready at the k-th check (k frames already run),
   [closes k] = the display's RenderFrame returns true at the end of the k-th frame. *)
From V.lib Require Import Bits.

Record loop_result := mkLoop { frames_run : nat; cleanups : nat }.

Fixpoint run_loop (fuel : nat) (k : nat) (cancelled closes : nat -> bool) : nat :=
  match fuel with
  | O => k
  | S f => if cancelled k then k
           else if closes (S k) then S k
           else run_loop f (S k) cancelled closes
  end.

(* Run with a display (video enabled) / without: without a display runFrame always returns false *)
Definition run (fuel : nat) (video : bool) (cancelled closes : nat -> bool) : loop_result :=
  mkLoop (run_loop fuel 0 cancelled (if video then closes else fun _ => false)) 1.

(* what Cleanup releases: (glfw.Terminate calls, stream.Close calls, portaudio.Terminate calls) *)
Definition cleanup_effects (video audio : bool) : N * N * N := (b2n video, b2n audio, b2n audio).
