(* System.v — the whole machine: the address decoder of memory/mapper.go (as regenerated in GenMapper.v) over the
   component models, the CPU's bus, and the frame loop of gameboy.go (its body and bound as regenerated in
   GenFrame.v).  Executable definitions only. *)
From Coq Require Import FMapPositive.
From V.lib Require Import Bits Mem Res.
From V.model Require Import Uop Alu Cpu CpuTables Ints Joypad Timer Rtc Cart Oam PpuTiming Apu MapperTypes.
From V.model Require Render.
From V.gen Require Import GenMapper GenFrame.

(* everything but the CPU: this is the CPU's bus *)
Record sys := mkSys {
  s_ints : ints;
  s_oam : oam;
  s_ppu : ppu;
  s_cart : cart;
  s_joy : joy;
  s_timer : timer;
  s_apu : apu;
  s_wram : Mem.t;            (* internalRAM [0x2000]byte *)
  s_hram : Mem.t;            (* zeroPage [0x8f]byte *)
  s_serial : list N;         (* bytes delivered to the serial writer, newest first *)
  s_ser_attached : bool;     (* Config.SerialWriter != nil *)
  s_frame : Mem.t;           (* the 160x144 frame as shade indices 0-3, index = 160*y + x *)
  s_samples : list sample_pair;   (* stereo pairs emitted so far, newest first *)
  s_crash : option crash     (* a Go panic happened on the bus *)
}.

Definition set_ints v s := mkSys v (s_oam s) (s_ppu s) (s_cart s) (s_joy s) (s_timer s) (s_apu s) (s_wram s) (s_hram s) (s_serial s) (s_ser_attached s) (s_frame s) (s_samples s) (s_crash s).
Definition set_oam v s := mkSys (s_ints s) v (s_ppu s) (s_cart s) (s_joy s) (s_timer s) (s_apu s) (s_wram s) (s_hram s) (s_serial s) (s_ser_attached s) (s_frame s) (s_samples s) (s_crash s).
Definition set_ppu v s := mkSys (s_ints s) (s_oam s) v (s_cart s) (s_joy s) (s_timer s) (s_apu s) (s_wram s) (s_hram s) (s_serial s) (s_ser_attached s) (s_frame s) (s_samples s) (s_crash s).
Definition set_cart v s := mkSys (s_ints s) (s_oam s) (s_ppu s) v (s_joy s) (s_timer s) (s_apu s) (s_wram s) (s_hram s) (s_serial s) (s_ser_attached s) (s_frame s) (s_samples s) (s_crash s).
Definition set_joy v s := mkSys (s_ints s) (s_oam s) (s_ppu s) (s_cart s) v (s_timer s) (s_apu s) (s_wram s) (s_hram s) (s_serial s) (s_ser_attached s) (s_frame s) (s_samples s) (s_crash s).
Definition set_timer v s := mkSys (s_ints s) (s_oam s) (s_ppu s) (s_cart s) (s_joy s) v (s_apu s) (s_wram s) (s_hram s) (s_serial s) (s_ser_attached s) (s_frame s) (s_samples s) (s_crash s).
Definition set_apu v s := mkSys (s_ints s) (s_oam s) (s_ppu s) (s_cart s) (s_joy s) (s_timer s) v (s_wram s) (s_hram s) (s_serial s) (s_ser_attached s) (s_frame s) (s_samples s) (s_crash s).
Definition set_wram v s := mkSys (s_ints s) (s_oam s) (s_ppu s) (s_cart s) (s_joy s) (s_timer s) (s_apu s) v (s_hram s) (s_serial s) (s_ser_attached s) (s_frame s) (s_samples s) (s_crash s).
Definition set_hram v s := mkSys (s_ints s) (s_oam s) (s_ppu s) (s_cart s) (s_joy s) (s_timer s) (s_apu s) (s_wram s) v (s_serial s) (s_ser_attached s) (s_frame s) (s_samples s) (s_crash s).
Definition set_serial v s := mkSys (s_ints s) (s_oam s) (s_ppu s) (s_cart s) (s_joy s) (s_timer s) (s_apu s) (s_wram s) (s_hram s) v (s_ser_attached s) (s_frame s) (s_samples s) (s_crash s).
Definition set_frame v s := mkSys (s_ints s) (s_oam s) (s_ppu s) (s_cart s) (s_joy s) (s_timer s) (s_apu s) (s_wram s) (s_hram s) (s_serial s) (s_ser_attached s) v (s_samples s) (s_crash s).
Definition set_samples v s := mkSys (s_ints s) (s_oam s) (s_ppu s) (s_cart s) (s_joy s) (s_timer s) (s_apu s) (s_wram s) (s_hram s) (s_serial s) (s_ser_attached s) (s_frame s) v (s_crash s).
Definition set_crash v s := mkSys (s_ints s) (s_oam s) (s_ppu s) (s_cart s) (s_joy s) (s_timer s) (s_apu s) (s_wram s) (s_hram s) (s_serial s) (s_ser_attached s) (s_frame s) (s_samples s) v.

(* ---- the generated decoder ---- *)
Definition cond_holds (c : acond) (a : N) : bool :=
  match c with ALt k => a <? k | AEq k => a =? k end.

Fixpoint find_handler (a : N) (cases : list (acond * handler)) (dflt : handler) : handler :=
  match cases with
  | [] => dflt
  | (c, h) :: t => if cond_holds c a then h else find_handler a t dflt
  end.

Definition read_handler (a : N) : handler := find_handler a read_cases read_cases_default.
Definition write_handler (a : N) : handler := find_handler a write_cases write_cases_default.

(* Go array index with bound: zeroPage [0x8f]byte, internalRAM [0x2000]byte *)
Definition arr_get (m : Mem.t) (size i : N) : res N := if i <? size then Ok (Mem.get m i) else Crash CIndex.
Definition arr_set (m : Mem.t) (size i v : N) : res Mem.t := if i <? size then Ok (Mem.set m i v) else Crash CIndex.

(* registers by the name of the Go method the decoder calls *)
Definition reg_read (r : ioreg) (s : sys) : N :=
  match r with
  | R_JOYP => joy_read (s_joy s)
  | R_SB => 255 | R_SC => 255
  | R_DIV => timer_read_div (s_timer s) | R_TIMA => timer_read_tima (s_timer s)
  | R_TMA => timer_read_tma (s_timer s) | R_TAC => timer_read_tac (s_timer s)
  | R_IF => ints_read_if (s_ints s)
  | R_NR10 => ReadNR10 (s_apu s) | R_NR11 => ReadNR11 (s_apu s) | R_NR12 => ReadNR12 (s_apu s)
  | R_NR13 => ReadNR13 (s_apu s) | R_NR14 => ReadNR14 (s_apu s)
  | R_NR21 => ReadNR21 (s_apu s) | R_NR22 => ReadNR22 (s_apu s) | R_NR23 => ReadNR23 (s_apu s) | R_NR24 => ReadNR24 (s_apu s)
  | R_NR30 => ReadNR30 (s_apu s) | R_NR31 => ReadNR31 (s_apu s) | R_NR32 => ReadNR32 (s_apu s)
  | R_NR33 => ReadNR33 (s_apu s) | R_NR34 => ReadNR34 (s_apu s)
  | R_NR41 => ReadNR41 (s_apu s) | R_NR42 => ReadNR42 (s_apu s) | R_NR43 => ReadNR43 (s_apu s) | R_NR44 => ReadNR44 (s_apu s)
  | R_NR50 => ReadNR50 (s_apu s) | R_NR51 => ReadNR51 (s_apu s) | R_NR52 => ReadNR52 (s_apu s)
  | R_LCDC => ppu_read_lcdc (s_ppu s) | R_STAT => ppu_read_stat (s_ppu s)
  | R_SCY => ppu_read_scy (s_ppu s) | R_SCX => ppu_read_scx (s_ppu s)
  | R_LY => ppu_read_ly (s_ppu s) | R_LYC => ppu_read_lyc (s_ppu s)
  | R_DMA => oam_read_dma (s_oam s)
  | R_BGP => ppu_read_bgp (s_ppu s) | R_OBP0 => ppu_read_obp0 (s_ppu s) | R_OBP1 => ppu_read_obp1 (s_ppu s)
  | R_WY => ppu_read_wy (s_ppu s) | R_WX => ppu_read_wx (s_ppu s)
  | R_IE => ints_read_ie (s_ints s)
  end.

Definition apu_w (f : apu -> N -> apu) (s : sys) (v : N) : sys := set_apu (f (s_apu s) v) s.
Definition ppu_w (f : ppu -> N -> ppu) (s : sys) (v : N) : sys := set_ppu (f (s_ppu s) v) s.

Definition reg_write (r : ioreg) (s : sys) (v : N) : sys :=
  match r with
  | R_JOYP => set_joy (joy_write (s_joy s) v) s
  | R_SB => if s_ser_attached s then set_serial (v :: s_serial s) s else s
  | R_SC => s
  | R_DIV => set_timer (timer_write_div (s_timer s) v) s
  | R_TIMA => set_timer (timer_write_tima (s_timer s) v) s
  | R_TMA => set_timer (timer_write_tma (s_timer s) v) s
  | R_TAC => set_timer (timer_write_tac (s_timer s) v) s
  | R_IF => set_ints (ints_write_if (s_ints s) v) s
  | R_NR10 => apu_w WriteNR10 s v | R_NR11 => apu_w WriteNR11 s v | R_NR12 => apu_w WriteNR12 s v
  | R_NR13 => apu_w WriteNR13 s v | R_NR14 => apu_w WriteNR14 s v
  | R_NR21 => apu_w WriteNR21 s v | R_NR22 => apu_w WriteNR22 s v | R_NR23 => apu_w WriteNR23 s v | R_NR24 => apu_w WriteNR24 s v
  | R_NR30 => apu_w WriteNR30 s v | R_NR31 => apu_w WriteNR31 s v | R_NR32 => apu_w WriteNR32 s v
  | R_NR33 => apu_w WriteNR33 s v | R_NR34 => apu_w WriteNR34 s v
  | R_NR41 => apu_w WriteNR41 s v | R_NR42 => apu_w WriteNR42 s v | R_NR43 => apu_w WriteNR43 s v | R_NR44 => apu_w WriteNR44 s v
  | R_NR50 => apu_w WriteNR50 s v | R_NR51 => apu_w WriteNR51 s v | R_NR52 => apu_w WriteNR52 s v
  | R_LCDC => let r := ppu_write_lcdc (s_ppu s) (s_oam s) v in set_oam (snd r) (set_ppu (fst r) s)
  | R_STAT => ppu_w ppu_write_stat s v
  | R_SCY => ppu_w ppu_write_scy s v | R_SCX => ppu_w ppu_write_scx s v
  | R_LY => ppu_w ppu_write_ly s v | R_LYC => ppu_w ppu_write_lyc s v
  | R_DMA => set_oam (oam_write_dma (s_oam s) v) s
  | R_BGP => ppu_w ppu_write_bgp s v | R_OBP0 => ppu_w ppu_write_obp0 s v | R_OBP1 => ppu_w ppu_write_obp1 s v
  | R_WY => ppu_w ppu_write_wy s v | R_WX => ppu_w ppu_write_wx s v
  | R_IE => set_ints (ints_write_ie (s_ints s) v) s
  end.

(* Mapper.Read *)
Definition sys_read (s : sys) (a : N) : res (sys * N) :=
  match read_handler a with
  | HMbc => do v <- cart_read (s_cart s) a; Ok (s, v)
  | HVideoRAM => do v <- ppu_read_vram (s_ppu s) a; Ok (s, v)
  | HInternalRAM base => do v <- arr_get (s_wram s) internalRAM_size (a - base); Ok (s, v)
  | HOam => do r <- oam_read (s_oam s) a; Ok (set_oam (fst r) s, snd r)
  | HReg r => Ok (s, reg_read r s)
  | HConstFF => Ok (s, 255)
  | HWaveRAM => do v <- apu_bus_read_r (s_apu s) a; Ok (s, v)
  | HZeroPage base => do v <- arr_get (s_hram s) zeroPage_size (a - base); Ok (s, v)
  | HPanic => Crash CExplicit
  end.

(* Mapper.Write *)
Definition sys_write (s : sys) (a v : N) : res sys :=
  match write_handler a with
  | HMbc => do c <- cart_write (s_cart s) a v; Ok (set_cart c s)
  | HVideoRAM => do p <- ppu_write_vram (s_ppu s) a v; Ok (set_ppu p s)
  | HInternalRAM base => do m <- arr_set (s_wram s) internalRAM_size (a - base) v; Ok (set_wram m s)
  | HOam => do o <- oam_write (s_oam s) a v; Ok (set_oam o s)
  | HReg r => Ok (reg_write r s v)
  | HConstFF => Ok s
  | HWaveRAM => do x <- apu_bus_write_r (s_apu s) a v; Ok (set_apu x s)
  | HZeroPage base => do m <- arr_set (s_hram s) zeroPage_size (a - base) v; Ok (set_hram m s)
  | HPanic => Crash CExplicit
  end.

(* ---- the CPU's bus: total functions, a panic on the bus is latched in s_crash ---- *)
Definition bus_rd (s : sys) (a : N) : sys * N :=
  match s_crash s with
  | Some _ => (s, 255)
  | None => match sys_read s a with
            | Ok r => r
            | Crash c => (set_crash (Some c) s, 255)
            | Exit => (set_crash (Some CExplicit) s, 255)
            end
  end.
Definition bus_wr (s : sys) (a v : N) : sys :=
  match s_crash s with
  | Some _ => s
  | None => match sys_write s a v with
            | Ok r => r
            | Crash c => set_crash (Some c) s
            | Exit => set_crash (Some CExplicit) s
            end
  end.
Definition bus_trig (s : sys) (a : N) : sys := set_oam (oam_trigger_write_corruption (s_oam s) a) s.
Definition bus_corrupt (s : sys) : sys :=
  match s_crash s with
  | Some _ => s
  | None => match oam_corrupt (s_oam s) with
            | Ok o => set_oam o s
            | Crash c => set_crash (Some c) s
            | Exit => set_crash (Some CExplicit) s
            end
  end.
Definition bus_ime (s : sys) : bool := ime (s_ints s).
Definition bus_set_ime (s : sys) (v : bool) : sys := set_ints (ints_set_ime (s_ints s) v) s.
Definition bus_pending (s : sys) : N := ints_pending (s_ints s).
Definition bus_ack (s : sys) (n : N) : sys := set_ints (ints_ack (s_ints s) n) s.

Definition sys_cpu_cycle (cs : cpu * sys) : cpu * sys :=
  cycle gen_tables sys bus_rd bus_wr bus_trig bus_corrupt bus_ime bus_set_ime bus_pending bus_ack cs.

(* ---- video: the timing tick of PpuTiming plus the pixel renderer in mode 3 ---- *)
Definition to_rpal (q : PpuTiming.pal) : Render.pal :=
  Render.mkPal (PpuTiming.c0 q) (PpuTiming.c1 q) (PpuTiming.c2 q) (PpuTiming.c3 q).

Definition scene_of (p : ppu) (o : oam) : Render.scene :=
  let f := p_lcdc p in
  Render.mkScene (highWindowTileMap f) (windowEnabled f) (lowTileData f) (highBgTileMap f) (spritesLarge f)
                 (spritesEnabled f) (bgEnabled f) (p_scx p) (p_scy p) (p_wx p) (p_wy p)
                 (to_rpal (p_bgp p)) (to_rpal (p_obp0 p)) (to_rpal (p_obp1 p)) (p_vram p)
                 (if o_dmaRunning o then Mem.empty 255 else o_mem o).

Definition overlaps_of (p : ppu) : list bool := map (fun i => ppu_overlap p i) (upto 40).

(* renderPixel(x, y): frame and ppuLastAccess *)
Definition render_one (sc : Render.scene) (ov : list bool) (y : N) (st : res (Mem.t * option N)) (x : N) : res (Mem.t * option N) :=
  do fr <- st;
  do g <- Render.render_pixel sc ov x y;
  do la <- Render.render_pixel_last_access sc ov x y;
  Ok (Mem.set (fst fr) (160 * y + x) g, match la with Some a => Some a | None => snd fr end).

Definition sys_ppu_tick (s : sys) : res sys :=
  let p := s_ppu s in
  do r <- ppu_tick p (s_oam s);
  let '(p1, o1, req) := r in
  let s1 := set_ints (ints_request (s_ints s) req) (set_oam o1 (set_ppu p1 s)) in
  if p_enabled p && (p_mode p1 =? 3) then
    let tl := u8 (p_ticks p mod 114) in
    let lx := u8 (sub8 tl 20 * 4) in
    if lx <? 160 then
      let sc := scene_of p1 o1 in
      let ov := overlaps_of p1 in
      do fr <- fold_left (render_one sc ov (p_ly p1)) [lx; lx + 1; lx + 2; lx + 3] (Ok (s_frame s1, None));
      let o2 := match snd fr with Some a => set_ppuLastAccess o1 a | None => o1 end in
      Ok (set_frame (fst fr) (set_oam o2 s1))
    else Ok s1
  else Ok s1.

(* ---- Mapper.EndMachineCycle: DMA (reading through Mapper.Read) then the cartridge clock ---- *)
Definition dma_source (o : oam) : option N :=
  if o_dmaRunning o then
    let c := o_dmaCycle o in
    if c =? 0 then None
    else if c =? 1 then Some (o_dmaBaseAddr o)
    else if c =? 161 then None
    else Some (sub16 (add16 (o_dmaBaseAddr o) c) 1)
  else None.

Definition sys_mapper_step (st : mapper_step) (s : sys) : res sys :=
  match st with
  | MTickDMA =>
      do s1 <- match dma_source (s_oam s) with
               | Some a => do r <- sys_read s a; Ok (fst r)
               | None => Ok s
               end;
      let rd a := match sys_read s a with Ok r => snd r | _ => 255 end in
      do o <- oam_tick_dma rd (s_oam s1); Ok (set_oam o s1)
  | MTickRTC => Ok (set_cart (cart_tick (s_cart s)) s)
  end.

Definition sys_mapper_end (s : sys) : res sys :=
  fold_left (fun r st => do x <- r; sys_mapper_step st x) mapper_end_cycle (Ok s).

Definition sys_audio_end (s : sys) : res sys :=
  do r <- apu_end_machine_cycle_r (s_apu s);
  Ok (set_samples (rev (snd r) ++ s_samples s) (set_apu (fst r) s)).

(* ---- one iteration of runFrame's loop, in the generated order ---- *)
Definition frame_step_run (st : frame_step) (x : cpu * sys * bool) : res (cpu * sys * bool) :=
  let '(c, s, tirq) := x in
  match st with
  | FCpu =>
      let r := sys_cpu_cycle (c, s) in
      match fault (fst r), s_crash (snd r) with
      | Some FExit, _ => Exit
      | Some FCrash, _ => Crash CIndex
      | None, Some k => Crash k
      | None, None => Ok (fst r, snd r, tirq)
      end
  | FPpu => do s1 <- sys_ppu_tick s; Ok (c, s1, tirq)
  | FMapper => do s1 <- sys_mapper_end s; Ok (c, s1, tirq)
  | FAudio => do s1 <- sys_audio_end s; Ok (c, s1, tirq)
  | FTimer => let r := timer_tick (s_timer s) in Ok (c, set_timer (fst r) s, snd r)
  | FTimerIrq => Ok (c, (if tirq then set_ints (ints_request (s_ints s) 4) s else s), tirq)
  end.

Definition sys_cycle (cs : cpu * sys) : res (cpu * sys) :=
  do r <- fold_left (fun r st => do x <- r; frame_step_run st x) frame_body (Ok (fst cs, snd cs, false));
  Ok (fst (fst r), snd (fst r)).

(* the hardware half of a machine cycle (everything but the CPU), for scripts that drive the bus directly *)
Definition sys_hw_cycle (s : sys) : res sys :=
  do r <- fold_left (fun r st => match st with FCpu => r | _ => do x <- r; frame_step_run st x end) frame_body
                    (Ok (cpu_init, s, false));
  Ok (snd (fst r)).

Fixpoint sys_cycles (n : nat) (cs : cpu * sys) : res (cpu * sys) :=
  match n with
  | O => Ok cs
  | S k => do r <- sys_cycle cs; sys_cycles k r
  end.

(* runFrame: frame_bound iterations *)
Definition sys_run_frame (cs : cpu * sys) : res (cpu * sys) :=
  N.iter frame_bound (fun r => do x <- r; sys_cycle x) (Ok cs).

(* ---- construction (gameboy.New) ---- *)
Definition sys_new (img : image) (serial_attached audio_attached : bool) : res (cpu * sys) :=
  do c <- cart_construct img;
  let po := ppu_new oam_init in
  Ok (cpu_init,
      mkSys ints_init (snd po) (fst po) c joy_init timer_init (apu_new audio_attached)
            (Mem.empty 0) (Mem.empty 0) [] serial_attached (Mem.empty 4) [] None).

Definition sys_button (s : sys) (b : N) (pressed : bool) : sys := set_joy (joy_button (s_joy s) b pressed) s.

(* the display's key callback (display.go onKeyFunc, wired by gameboy.New to Controller.ButtonAction and CPU.OnInput): a
   press or release of a mapped key updates the joypad latch and ends STOP mode; nothing else - in particular HALT is
   not left.  Keys are GLFW key codes, actions 0 = release, 1 = press, 2 = repeat (ignored). *)
Definition key_button (k : N) : option N :=
  match k with
  | 65 => Some 6 (* A: Start *) | 83 => Some 7 (* S: Select *) | 90 => Some 5 (* Z: B *) | 88 => Some 4 (* X: A *)
  | 265 => Some 0 (* Up *) | 264 => Some 1 (* Down *) | 263 => Some 2 (* Left *) | 262 => Some 3 (* Right *)
  | _ => None
  end.
Definition sys_key (cs : cpu * sys) (k action : N) : cpu * sys :=
  if (action =? 0) || (action =? 1) then
    match key_button k with
    | Some b => (set_stopped false (fst cs), sys_button (snd cs) b (action =? 1))
    | None => cs
    end
  else cs.
