(* SimpleBus.v — a small instance of the CPU's bus used by the CPU-level correspondence: 32 KiB ROM, plain RAM
   at 8000-9FFF / C000-DFFF with its echo / FE00-FE9F / FF80-FFFE, IF and IE; the LCD is off, so the OAM-bug hooks
   are inert.  Addresses A000-BFFF and FF00-FF7F other than FF0F are outside this instance (scripts avoid them). *)
From Coq Require Import FMapPositive.
From V.lib Require Import Bits Mem.
From V.model Require Import Uop Alu Cpu CpuTables Ints.

Record sbus := mkSbus { sb_mem : Mem.t; sb_rom : N -> N; sb_ints : ints }.

Definition sb_rd (b : sbus) (a : N) : sbus * N :=
  (b,
   if a <? 32768 then sb_rom b a
   else if (40960 <=? a) && (a <? 49152) then 255   (* ROM-only cartridge: no external RAM *)
   else if (57344 <=? a) && (a <? 65024) then Mem.get (sb_mem b) (a - 8192)
   else if (65184 <=? a) && (a <? 65280) then 0
   else if a =? 65295 then ints_read_if (sb_ints b)
   else if a =? 65535 then ints_read_ie (sb_ints b)
   else Mem.get (sb_mem b) a).

Definition sb_wr (b : sbus) (a v : N) : sbus :=
  if a <? 32768 then b
  else if (40960 <=? a) && (a <? 49152) then b
  else if (57344 <=? a) && (a <? 65024) then mkSbus (Mem.set (sb_mem b) (a - 8192) v) (sb_rom b) (sb_ints b)
  else if (65184 <=? a) && (a <? 65280) then b
  else if a =? 65295 then mkSbus (sb_mem b) (sb_rom b) (ints_write_if (sb_ints b) v)
  else if a =? 65535 then mkSbus (sb_mem b) (sb_rom b) (ints_write_ie (sb_ints b) v)
  else mkSbus (Mem.set (sb_mem b) a v) (sb_rom b) (sb_ints b).

Definition sb_trig (b : sbus) (a : N) : sbus := b.
Definition sb_corrupt (b : sbus) : sbus := b.
Definition sb_ime (b : sbus) : bool := ime (sb_ints b).
Definition sb_set_ime (b : sbus) (v : bool) : sbus := mkSbus (sb_mem b) (sb_rom b) (ints_set_ime (sb_ints b) v).
Definition sb_pending (b : sbus) : N := ints_pending (sb_ints b).
Definition sb_ack (b : sbus) (n : N) : sbus := mkSbus (sb_mem b) (sb_rom b) (ints_ack (sb_ints b) n).
Definition sb_request (b : sbus) (m : N) : sbus := mkSbus (sb_mem b) (sb_rom b) (ints_request (sb_ints b) m).

(* ROM contents of the synthetic ROM-only cartridge used by the CPU scripts (header bytes 0x147-0x149 are 0) *)
Definition test_rom (a : N) : N :=
  if (327 <=? a) && (a <=? 329) then 0
  else if (64 <=? a) && (a <? 104) then
    (* interrupt handlers: INC B / C / D / E / H ; RETI ; NOPs *)
    match a mod 8 with
    | 0 => match a / 8 with 8 => 4 | 9 => 12 | 10 => 20 | 11 => 28 | _ => 36 end
    | 1 => 217
    | _ => 0
    end
  else N.land (a * 31 + (a / 256) * 7 + 5) 255.

Definition sb_init : sbus := mkSbus (Mem.empty 0) test_rom ints_init.

Definition sb_cycle (sb : cpu * sbus) : cpu * sbus :=
  cycle gen_tables sbus sb_rd sb_wr sb_trig sb_corrupt sb_ime sb_set_ime sb_pending sb_ack sb.

Definition sb_at_boundary (s : cpu) : bool := is_finished s.

(* addresses of the cells that have ever been written (used by the runner to diff memory cheaply) *)
Definition sb_written (b : sbus) : list N :=
  map (fun p => Pos.pred_N (fst p)) (PositiveMap.elements (Mem.cells (sb_mem b))).
