(* MapperExec.v — runner support for the decoder checks (C06/C07): Mapper.Read with the handler passed in, so
   that a runner sweeping the whole address space can look the handler of each address up once
   ([read_handler a], a pure function of the address) instead of once per read.  Definitions only;
   proofs/MapperDecode.v proves [sys_read s a = sys_read_with (read_handler a) s a]. *)
From V.lib Require Import Bits Mem Res.
From V.model Require Import Ints Joypad Timer Cart Oam PpuTiming Apu MapperTypes System.
From V.gen Require Import GenMapper.

Definition sys_read_with (h : handler) (s : sys) (a : N) : res (sys * N) :=
  match h with
  | HMbc => do v <- cart_read (s_cart s) a; Ok (s, v)
  | HVideoRAM => do v <- ppu_read_vram (s_ppu s) a; Ok (s, v)
  | HInternalRAM base => do v <- arr_get (s_wram s) internalRAM_size (a - base); Ok (s, v)
  | HOam => do r <- oam_read (s_oam s) a; Ok (set_oam (fst r) s, snd r)
  | HReg r => Ok (s, reg_read r s)
  | HConstFF => Ok (s, 255)
  | HWaveRAM => do v <- apu_bus_read_r (s_apu s) a; Ok (s, v)
  | HZeroPage base => do v <- arr_get (s_hram s) zeroPage_size (a - base); Ok (s, v)
  | HPanic => Crash CExplicit
  end.

(* the cartridge kind of a machine, for the footprint table *)
Definition sys_kind_code (s : sys) : N :=
  match c_kind (s_cart s) with KNone => 0 | KMbc1 => 1 | KMbc2 => 2 | KMbc3 => 3 | KMbc5 => 5 end.
