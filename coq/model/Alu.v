(* Alu.v — executable model of the arithmetic helpers of gameboy/cpu/instructions.go and flags.go.
   Every function mirrors the Go body statement by statement; uint8/uint16 wrap-around is explicit. *)
From V.lib Require Import Bits.
From V.model Require Import Uop.

Definition zFlag : N := 128.
Definition nFlag : N := 64.
Definition hFlag : N := 32.
Definition cFlag : N := 16.

Definition zf (f : N) : bool := 0 <? N.land f zFlag.
Definition nf (f : N) : bool := 0 <? N.land f nFlag.
Definition hf (f : N) : bool := 0 <? N.land f hFlag.
Definition cf (f : N) : bool := 0 <? N.land f cFlag.

Definition setbit (f m : N) (v : bool) : N := if v then N.lor f m else N.ldiff f m.
Definition setZf (f : N) (v : bool) : N := setbit f zFlag v.
Definition setNf (f : N) (v : bool) : N := setbit f nFlag v.
Definition setHf (f : N) (v : bool) : N := setbit f hFlag v.
Definition setCf (f : N) (v : bool) : N := setbit f cFlag v.

(* the four setters in the order the Go helpers call them *)
Definition set_znhc (f : N) (z n h c : bool) : N := setCf (setHf (setNf (setZf f z) n) h) c.
Definition set_znh (f : N) (z n h : bool) : N := setHf (setNf (setZf f z) n) h.
Definition set_nhc (f : N) (n h c : bool) : N := setCf (setHf (setNf f n) h) c.

Definition hc8 (a b : N) : bool := 15 <? N.land a 15 + N.land b 15.
Definition c8 (a b : N) : bool := 255 <? a + b.
Definition hc16 (a b : N) : bool := 4095 <? N.land a 4095 + N.land b 4095.
Definition c16 (a b : N) : bool := 65535 <? a + b.
Definition hc8Sub (a b : N) : bool := N.land a 15 <? N.land b 15.
Definition c8Sub (a b : N) : bool := a <? b.

(* 8-bit ALU operations on A: result (a', f') *)
Definition alu_add (a u f : N) : N * N :=
  let a' := add8 a u in
  (a', set_znhc f (a' =? 0) false (hc8 a u) (c8 a u)).

Definition alu_adc (a u f : N) : N * N :=
  let a1 := add8 a u in
  let h0 := hc8 a u in
  let c0 := c8 a u in
  if cf f then
    let a2 := add8 a1 1 in
    (a2, set_znhc f (a2 =? 0) false (h0 || (N.land a2 15 =? 0)) (c0 || (a2 =? 0)))
  else (a1, set_znhc f (a1 =? 0) false h0 c0).

Definition alu_sub (a u f : N) : N * N :=
  let a' := sub8 a u in
  (a', set_znhc f (a' =? 0) true (hc8Sub a u) (c8Sub a u)).

Definition alu_sbc (a u f : N) : N * N :=
  let a1 := sub8 a u in
  let h0 := hc8Sub a u in
  let c0 := c8Sub a u in
  if cf f then
    let a2 := sub8 a1 1 in
    (a2, set_znhc f (a2 =? 0) true (h0 || (N.land a2 15 =? 15)) (c0 || (a2 =? 255)))
  else (a1, set_znhc f (a1 =? 0) true h0 c0).

Definition alu_and (a u f : N) : N * N :=
  let a' := N.land a u in (a', set_znhc f (a' =? 0) false true false).
Definition alu_xor (a u f : N) : N * N :=
  let a' := N.lxor a u in (a', set_znhc f (a' =? 0) false false false).
Definition alu_or (a u f : N) : N * N :=
  let a' := N.lor a u in (a', set_znhc f (a' =? 0) false false false).
Definition alu_cp (a u f : N) : N * N :=
  (a, set_znhc f (a =? u) true (hc8Sub a u) (c8Sub a u)).

Definition alu (o : aluop) (a u f : N) : N * N :=
  match o with
  | ADD => alu_add a u f | ADC => alu_adc a u f | SUB => alu_sub a u f | SBC => alu_sbc a u f
  | AND => alu_and a u f | XOR => alu_xor a u f | OR => alu_or a u f | CP => alu_cp a u f
  end.

(* inc / dec of an 8-bit cell: (r', f') *)
Definition inc8 (r f : N) : N * N :=
  let r' := add8 r 1 in (r', set_znh f (r' =? 0) false (hc8 r 1)).
Definition dec8 (r f : N) : N * N :=
  let r' := sub8 r 1 in (r', set_znh f (r' =? 0) true (hc8Sub r 1)).

(* rotates and shifts of an 8-bit cell: (r', f') *)
Definition rot_rl (r f : N) : N * N :=
  let c := 0 <? N.land r 128 in
  let r1 := shl8 r 1 in
  let r2 := if cf f then N.lor r1 1 else r1 in
  (r2, set_znhc f (r2 =? 0) false false c).
Definition rot_rlc (r f : N) : N * N :=
  let c := 0 <? N.land r 128 in
  let r1 := shl8 r 1 in
  let r2 := if c then N.lor r1 1 else r1 in
  (r2, set_znhc f (r2 =? 0) false false c).
Definition rot_rr (r f : N) : N * N :=
  let c := 0 <? N.land r 1 in
  let r1 := shr r 1 in
  let r2 := if cf f then N.lor r1 128 else r1 in
  (r2, set_znhc f (r2 =? 0) false false c).
Definition rot_rrc (r f : N) : N * N :=
  let c := 0 <? N.land r 1 in
  let r1 := shr r 1 in
  let r2 := if c then N.lor r1 128 else r1 in
  (r2, set_znhc f (r2 =? 0) false false c).
Definition rot_sla (r f : N) : N * N :=
  let c := 0 <? N.land r 128 in
  let r1 := shl8 r 1 in
  (r1, set_znhc f (r1 =? 0) false false c).
Definition rot_sra (r f : N) : N * N :=
  let c := 0 <? N.land r 1 in
  let b7 := 0 <? N.land r 128 in
  let r1 := shr r 1 in
  let r2 := if b7 then N.lor r1 128 else r1 in
  (r2, set_znhc f (r2 =? 0) false false c).
Definition rot_srl (r f : N) : N * N :=
  let c := 0 <? N.land r 1 in
  let r1 := shr r 1 in
  (r1, set_znhc f (r1 =? 0) false false c).
Definition rot_swap (r f : N) : N * N :=
  let r1 := N.lor (shl8 r 4) (shr r 4) in
  (r1, set_znhc f (r1 =? 0) false false false).

Definition rot (o : rotop) (r f : N) : N * N :=
  match o with
  | OpRLC => rot_rlc r f | OpRRC => rot_rrc r f | OpRL => rot_rl r f | OpRR => rot_rr r f
  | OpSLA => rot_sla r f | OpSRA => rot_sra r f | OpSWAP => rot_swap r f | OpSRL => rot_srl r f
  end.

(* rla / rlca / rra / rrca: the rotate on A followed by clearing Z (rla and rlca clear it twice) *)
Definition rot_a (o : rotop) (a f : N) : N * N :=
  let '(a', f') := rot o a f in (a', setZf f' false).

Definition bits_tbl (pos : N) : N := N.shiftl 1 pos.  (* bits[pos] for pos < 8 *)

Definition bit_test (pos r f : N) : N := set_znh f (N.land r (bits_tbl pos) =? 0) false true.
Definition bit_res (pos r : N) : N := N.ldiff r (bits_tbl pos).
Definition bit_set (pos r : N) : N := N.lor r (bits_tbl pos).

Definition alu_daa (a f : N) : N * N :=
  if nf f then
    let a1 := if hf f then sub8 a 6 else a in
    let a2 := if cf f then sub8 a1 96 else a1 in
    (a2, setHf (setZf f (a2 =? 0)) false)
  else
    let a1 := if hf f || (9 <? N.land a 15) then add8 a 6 else a in
    if cf f || (144 <? N.land a 240) || (144 <? N.land a1 240) then
      let a2 := add8 a1 96 in
      let f1 := setCf f true in
      (a2, setHf (setZf f1 (a2 =? 0)) false)
    else (a1, setHf (setZf f (a1 =? 0)) false).

Definition alu_cpl (a f : N) : N * N := (N.lxor a 255, setHf (setNf f true) true).
Definition alu_ccf (f : N) : N := set_nhc f false false (negb (cf f)).
Definition alu_scf (f : N) : N := set_nhc f false false true.

(* ADD HL,rr : (hl', f') *)
Definition alu_addhl (hl u f : N) : N * N :=
  (add16 hl u, set_nhc f false (hc16 hl u) (c16 hl u)).

(* ADD SP,e / LD HL,SP+e : the 16-bit sum and the flags, e = the operand byte.
   Go: sum := uint16(int(sp) + int(int8(e))); H and C from the unsigned low nibble / low byte sums. *)
Definition sp_plus_e (spv e : N) : N :=
  if 128 <=? e then (spv + 65536 - (256 - e)) mod 65536 else (spv + e) mod 65536.

Definition alu_addsp (spv e f : N) : N * N :=
  let r := sp_plus_e spv e in
  let h := 15 <? N.land spv 15 + N.land e 15 in
  let c := 255 <? N.land spv 255 + e in
  (r, set_znhc f false false h c).

(* JR: pc := uint16(int16(pc) + int16(int8(e))) *)
Definition jr_target (pcv e : N) : N := sp_plus_e pcv e.
