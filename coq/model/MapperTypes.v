(* MapperTypes.v — vocabulary of the generated address decoders (GenMapper.v) and frame loop (GenFrame.v). *)
From Coq Require Import NArith.

Inductive ioreg :=
| R_JOYP | R_SB | R_SC | R_DIV | R_TIMA | R_TMA | R_TAC | R_IF
| R_NR10 | R_NR11 | R_NR12 | R_NR13 | R_NR14
| R_NR21 | R_NR22 | R_NR23 | R_NR24
| R_NR30 | R_NR31 | R_NR32 | R_NR33 | R_NR34
| R_NR41 | R_NR42 | R_NR43 | R_NR44
| R_NR50 | R_NR51 | R_NR52
| R_LCDC | R_STAT | R_SCY | R_SCX | R_LY | R_LYC | R_DMA | R_BGP | R_OBP0 | R_OBP1 | R_WY | R_WX
| R_IE.

Inductive acond := ALt (k : N) | AEq (k : N).

Inductive handler :=
| HMbc | HVideoRAM | HInternalRAM (base : N) | HOam | HReg (r : ioreg)
| HConstFF (* read: 0xFF; write: ignored *) | HWaveRAM | HZeroPage (base : N) | HPanic.

Inductive mapper_step := MTickDMA | MTickRTC.

Inductive frame_step := FCpu | FPpu | FMapper | FAudio | FTimer | FTimerIrq.
