(* PpuTiming.v — executable model of gameboy/ppu/ppu.go + registers.go WITHOUT pixel composition
   (render.go belongs to C15): the registers FF40-FF45, FF47-FF4B, enable/disable, and EndMachineCycle's
   line/mode state machine, the interrupt requests it raises (returned as a mask of IF bits: 1 = VBlank,
   2 = STAT), the coincidence flag, EnterMode2/ExitMode2 and the mode-2 object scan.  Definitions only.

   The model follows the repaired code (known/C14.json, known/C17.json):
     - the mode 1 -> 2 transition at the start of line 0 requests STAT when the OAM source is enabled
     - disable() calls oam.ExitMode2()
   [mode3_hook] is the place where the pixel renderer will be plugged in. *)
From V.lib Require Import Bits Mem Res.
From V.model Require Import Oam.

(* LCDC bits 6..0 as the Go struct keeps them *)
Record lcdc_flags := mkLcdc {
  highWindowTileMap : bool; windowEnabled : bool; lowTileData : bool; highBgTileMap : bool;
  spritesLarge : bool; spritesEnabled : bool; bgEnabled : bool
}.
(* STAT interrupt sources (bits 6..3) *)
Record stat_flags := mkStat {
  coincidenceInterrupt : bool; oamInterrupt : bool; vblankInterrupt : bool; hblankInterrupt : bool
}.
(* a palette: four 2-bit shades (BGP, OBP0, OBP1 alike) *)
Record pal := mkPal { c0 : N; c1 : N; c2 : N; c3 : N }.

Record ppu := mkPpu {
  p_enabled : bool;
  p_lcdc : lcdc_flags;
  p_stat : stat_flags;
  p_coincidence : bool;
  p_mode : N;                (* uint8 *)
  p_bgp : pal; p_obp0 : pal; p_obp1 : pal;
  p_ly : N; p_lyc : N; p_scx : N; p_scy : N; p_wx : N; p_wy : N;
  p_vram : Mem.t;            (* videoRAM [0x2000]byte *)
  p_overlaps : Mem.t;        (* spriteOverlaps [40]bool as 0/1 *)
  p_ticks : N;               (* Go int: position in the frame, in machine cycles *)
  p_firstLine : bool
}.

(* ---- setters ---- *)
Definition set_enabled_mode_first (p : ppu) (en : bool) (mode : N) (fl : bool) : ppu :=
  mkPpu en (p_lcdc p) (p_stat p) (p_coincidence p) mode (p_bgp p) (p_obp0 p) (p_obp1 p)
        (p_ly p) (p_lyc p) (p_scx p) (p_scy p) (p_wx p) (p_wy p) (p_vram p) (p_overlaps p)
        (p_ticks p) fl.
Definition set_lcdc (p : ppu) (f : lcdc_flags) : ppu :=
  mkPpu (p_enabled p) f (p_stat p) (p_coincidence p) (p_mode p) (p_bgp p) (p_obp0 p) (p_obp1 p)
        (p_ly p) (p_lyc p) (p_scx p) (p_scy p) (p_wx p) (p_wy p) (p_vram p) (p_overlaps p)
        (p_ticks p) (p_firstLine p).
Definition set_stat (p : ppu) (f : stat_flags) : ppu :=
  mkPpu (p_enabled p) (p_lcdc p) f (p_coincidence p) (p_mode p) (p_bgp p) (p_obp0 p) (p_obp1 p)
        (p_ly p) (p_lyc p) (p_scx p) (p_scy p) (p_wx p) (p_wy p) (p_vram p) (p_overlaps p)
        (p_ticks p) (p_firstLine p).
Definition set_coincidence (p : ppu) (b : bool) : ppu :=
  mkPpu (p_enabled p) (p_lcdc p) (p_stat p) b (p_mode p) (p_bgp p) (p_obp0 p) (p_obp1 p)
        (p_ly p) (p_lyc p) (p_scx p) (p_scy p) (p_wx p) (p_wy p) (p_vram p) (p_overlaps p)
        (p_ticks p) (p_firstLine p).
Definition set_mode (p : ppu) (m : N) : ppu :=
  mkPpu (p_enabled p) (p_lcdc p) (p_stat p) (p_coincidence p) m (p_bgp p) (p_obp0 p) (p_obp1 p)
        (p_ly p) (p_lyc p) (p_scx p) (p_scy p) (p_wx p) (p_wy p) (p_vram p) (p_overlaps p)
        (p_ticks p) (p_firstLine p).
Definition set_pals (p : ppu) (bgp obp0 obp1 : pal) : ppu :=
  mkPpu (p_enabled p) (p_lcdc p) (p_stat p) (p_coincidence p) (p_mode p) bgp obp0 obp1
        (p_ly p) (p_lyc p) (p_scx p) (p_scy p) (p_wx p) (p_wy p) (p_vram p) (p_overlaps p)
        (p_ticks p) (p_firstLine p).
Definition set_ly (p : ppu) (v : N) : ppu :=
  mkPpu (p_enabled p) (p_lcdc p) (p_stat p) (p_coincidence p) (p_mode p) (p_bgp p) (p_obp0 p) (p_obp1 p)
        v (p_lyc p) (p_scx p) (p_scy p) (p_wx p) (p_wy p) (p_vram p) (p_overlaps p)
        (p_ticks p) (p_firstLine p).
Definition set_regs (p : ppu) (lyc scx scy wx wy : N) : ppu :=
  mkPpu (p_enabled p) (p_lcdc p) (p_stat p) (p_coincidence p) (p_mode p) (p_bgp p) (p_obp0 p) (p_obp1 p)
        (p_ly p) lyc scx scy wx wy (p_vram p) (p_overlaps p)
        (p_ticks p) (p_firstLine p).
Definition set_vram (p : ppu) (m : Mem.t) : ppu :=
  mkPpu (p_enabled p) (p_lcdc p) (p_stat p) (p_coincidence p) (p_mode p) (p_bgp p) (p_obp0 p) (p_obp1 p)
        (p_ly p) (p_lyc p) (p_scx p) (p_scy p) (p_wx p) (p_wy p) m (p_overlaps p)
        (p_ticks p) (p_firstLine p).
Definition set_overlaps (p : ppu) (m : Mem.t) : ppu :=
  mkPpu (p_enabled p) (p_lcdc p) (p_stat p) (p_coincidence p) (p_mode p) (p_bgp p) (p_obp0 p) (p_obp1 p)
        (p_ly p) (p_lyc p) (p_scx p) (p_scy p) (p_wx p) (p_wy p) (p_vram p) m
        (p_ticks p) (p_firstLine p).
Definition set_ticks (p : ppu) (t : N) : ppu :=
  mkPpu (p_enabled p) (p_lcdc p) (p_stat p) (p_coincidence p) (p_mode p) (p_bgp p) (p_obp0 p) (p_obp1 p)
        (p_ly p) (p_lyc p) (p_scx p) (p_scy p) (p_wx p) (p_wy p) (p_vram p) (p_overlaps p)
        t (p_firstLine p).
Definition set_firstLine (p : ppu) (b : bool) : ppu :=
  mkPpu (p_enabled p) (p_lcdc p) (p_stat p) (p_coincidence p) (p_mode p) (p_bgp p) (p_obp0 p) (p_obp1 p)
        (p_ly p) (p_lyc p) (p_scx p) (p_scy p) (p_wx p) (p_wy p) (p_vram p) (p_overlaps p)
        (p_ticks p) b.

(* value & mask > 0 *)
Definition tb (v m : N) : bool := negb (N.land v m =? 0).

(* ---- enable / disable ---- *)
Definition ppu_enable (p : ppu) (o : oam) : ppu * oam :=
  (set_enabled_mode_first p true 2 true, oam_enter_mode2 o).

(* repaired: disable() also closes the OAM corruption window *)
Definition ppu_disable (p : ppu) (o : oam) : ppu * oam :=
  (set_ticks (set_ly (set_enabled_mode_first p false 0 (p_firstLine p)) 0) 0, oam_exit_mode2 o).

(* ---- registers ---- *)
Definition ppu_write_lcdc (p : ppu) (o : oam) (v : N) : ppu * oam :=
  let en := tb v 0x80 in
  let '(p1, o1) :=
    if en && negb (p_enabled p) then ppu_enable p o
    else if negb en && p_enabled p then ppu_disable p o
    else (p, o) in
  (set_lcdc p1 (mkLcdc (tb v 0x40) (tb v 0x20) (tb v 0x10) (tb v 0x08) (tb v 0x04) (tb v 0x02) (tb v 0x01)), o1).

Definition ppu_read_lcdc (p : ppu) : N :=
  let f := p_lcdc p in
  u8 ((if p_enabled p then 0x80 else 0) + (if highWindowTileMap f then 0x40 else 0)
      + (if windowEnabled f then 0x20 else 0) + (if lowTileData f then 0x10 else 0)
      + (if highBgTileMap f then 0x08 else 0) + (if spritesLarge f then 0x04 else 0)
      + (if spritesEnabled f then 0x02 else 0) + (if bgEnabled f then 0x01 else 0)).

Definition ppu_write_stat (p : ppu) (v : N) : ppu :=
  set_stat p (mkStat (tb v 0x40) (tb v 0x20) (tb v 0x10) (tb v 0x08)).

Definition ppu_read_stat (p : ppu) : N :=
  let f := p_stat p in
  u8 (0x80 + (if coincidenceInterrupt f then 0x40 else 0) + (if oamInterrupt f then 0x20 else 0)
      + (if vblankInterrupt f then 0x10 else 0) + (if hblankInterrupt f then 0x08 else 0)
      + (if p_coincidence p then 0x04 else 0) + p_mode p).

Definition ppu_write_scy (p : ppu) (v : N) : ppu := set_regs p (p_lyc p) (p_scx p) v (p_wx p) (p_wy p).
Definition ppu_read_scy (p : ppu) : N := p_scy p.
Definition ppu_write_scx (p : ppu) (v : N) : ppu := set_regs p (p_lyc p) v (p_scy p) (p_wx p) (p_wy p).
Definition ppu_read_scx (p : ppu) : N := p_scx p.
(* WriteLY ignores the value and zeroes the visible LY (recomputed by the next EndMachineCycle when on) *)
Definition ppu_write_ly (p : ppu) (v : N) : ppu := set_ly p 0.
Definition ppu_read_ly (p : ppu) : N := p_ly p.
Definition ppu_write_lyc (p : ppu) (v : N) : ppu := set_regs p v (p_scx p) (p_scy p) (p_wx p) (p_wy p).
Definition ppu_read_lyc (p : ppu) : N := p_lyc p.
Definition ppu_write_wy (p : ppu) (v : N) : ppu := set_regs p (p_lyc p) (p_scx p) (p_scy p) (p_wx p) v.
Definition ppu_read_wy (p : ppu) : N := p_wy p.
Definition ppu_write_wx (p : ppu) (v : N) : ppu := set_regs p (p_lyc p) (p_scx p) (p_scy p) v (p_wy p).
Definition ppu_read_wx (p : ppu) : N := p_wx p.

Definition two (v k : N) : N := N.land (N.shiftr v k) 3.
(* c3<<6 + c2<<4 + c1<<2 + c0 in uint8 arithmetic *)
Definition pal_byte (q : pal) : N :=
  u8 (u8 (u8 (shl8 (c3 q) 6 + shl8 (c2 q) 4) + shl8 (c1 q) 2) + c0 q).

Definition ppu_write_bgp (p : ppu) (v : N) : ppu :=
  set_pals p (mkPal (N.land v 3) (two v 2) (two v 4) (two v 6)) (p_obp0 p) (p_obp1 p).
Definition ppu_read_bgp (p : ppu) : N := pal_byte (p_bgp p).
(* OBP0/OBP1: all four entries, as BGP (repaired: entry 0 used to be dropped, so bits 1-0 read 0) *)
Definition ppu_write_obp0 (p : ppu) (v : N) : ppu :=
  set_pals p (p_bgp p) (mkPal (N.land v 3) (two v 2) (two v 4) (two v 6)) (p_obp1 p).
Definition ppu_read_obp0 (p : ppu) : N := pal_byte (p_obp0 p).
Definition ppu_write_obp1 (p : ppu) (v : N) : ppu :=
  set_pals p (p_bgp p) (p_obp0 p) (mkPal (N.land v 3) (two v 2) (two v 4) (two v 6)).
Definition ppu_read_obp1 (p : ppu) : N := pal_byte (p_obp1 p).

(* videoRAM[addr-0x8000]: unguarded *)
Definition ppu_read_vram (p : ppu) (addr : N) : res N :=
  let i := sub16 addr 0x8000 in
  if i <? 0x2000 then Ok (Mem.get (p_vram p) i) else Crash CIndex.
Definition ppu_write_vram (p : ppu) (addr v : N) : res ppu :=
  let i := sub16 addr 0x8000 in
  if i <? 0x2000 then Ok (set_vram p (Mem.set (p_vram p) i v)) else Crash CIndex.

Definition ppu_overlap (p : ppu) (i : N) : bool := negb (Mem.get (p_overlaps p) i =? 0).

(* ---- construction: ppu.New (LCDC=0x91 switches the LCD on, so it needs the OAM) ---- *)
Definition ppu_zero : ppu :=
  mkPpu false (mkLcdc false false false false false false false) (mkStat false false false false)
        false 0 (mkPal 0 0 0 0) (mkPal 0 0 0 0) (mkPal 0 0 0 0)
        0 0 0 0 0 0 (Mem.empty 0) (Mem.empty 0) 0 false.

Definition ppu_new (o : oam) : ppu * oam :=
  let '(p1, o1) := ppu_write_lcdc ppu_zero o 0x91 in
  let p2 := ppu_write_ly p1 0 in
  let p3 := ppu_write_lyc p2 0 in
  let p4 := ppu_write_scx p3 0 in
  let p5 := ppu_write_scy p4 0 in
  let p6 := ppu_write_stat p5 0 in
  let p7 := ppu_write_wx p6 0 in
  let p8 := ppu_write_wy p7 0 in
  let p9 := ppu_write_bgp p8 0xFC in
  let p10 := ppu_write_obp0 p9 0xFF in
  (ppu_write_obp1 p10 0xFF, o1).

(* ---- mode 2: the object scan ---- *)
(* checkOverlappingSprite(sprite uint8) *)
Definition check_overlapping_sprite (p : ppu) (o : oam) (sprite : N) : res (ppu * oam) :=
  let addr := u16 (0xFE00 + u8 (sprite * 4)) in
  do r <- oam_ppu_read o addr;
  let '(o1, startY) := r in
  if sprite <? 40 then
    (* line := int(ppu.ly); line+16 >= int(startY) && line+8 < int(startY)  (no uint8 wrap: objects partly above the
       top edge are clipped, not hidden) *)
    let ov := (startY <=? p_ly p + 16) && (p_ly p + 8 <? startY) in
    Ok (set_overlaps p (Mem.set (p_overlaps p) sprite (b2n ov)), o1)
  else Crash CIndex.

(* checkOverlappingSprites(lx uint8) *)
Definition check_overlapping_sprites (p : ppu) (o : oam) (lx : N) : res (ppu * oam) :=
  do r <- check_overlapping_sprite p o (u8 (lx * 2));
  let '(p1, o1) := r in
  check_overlapping_sprite p1 o1 (u8 (u8 (lx * 2) + 1)).

(* ---- mode 3: PLACEHOLDER for the pixel renderer (C15).  renderPixel(lx..lx+3, ly) will be plugged in
   here; it writes the frame and, when objects are enabled and overlap the line, calls oam.PPURead (which
   changes ppuLastAccess).  For now it leaves everything untouched. ---- *)
Definition mode3_hook (p : ppu) (o : oam) (lx ly : N) : res (ppu * oam) := Ok (p, o).

(* ---- EndMachineCycle ---- *)
Definition IF_VBLANK : N := 1.
Definition IF_STAT : N := 2.

(* first switch: mode transitions; returns new mode, new oam, requested IF bits *)
Definition mode_switch (p : ppu) (o : oam) (ly tl : N) : res (N * oam * N) :=
  let st := p_stat p in
  match p_mode p with
  | 2 => if tl =? 20 then Ok (3, oam_exit_mode2 o, 0) else Ok (2, o, 0)
  | 3 => if tl =? 61 then Ok (0, o, if hblankInterrupt st then IF_STAT else 0) else Ok (3, o, 0)
  | 0 => if tl =? 0 then
           if ly =? 144
           then Ok (1, o, N.lor IF_VBLANK (if vblankInterrupt st then IF_STAT else 0))
           else Ok (2, oam_enter_mode2 o, if oamInterrupt st then IF_STAT else 0)
         else Ok (0, o, 0)
  | 1 => if p_ticks p =? 0
         then Ok (2, oam_enter_mode2 o, if oamInterrupt st then IF_STAT else 0)   (* repaired *)
         else Ok (1, o, 0)
  | _ => Crash CExplicit
  end.

Definition ppu_tick (p : ppu) (o : oam) : res (ppu * oam * N) :=
  if negb (p_enabled p) then Ok (p, o, 0)
  else
    let ly := u8 (p_ticks p / 114) in
    let tl := u8 (p_ticks p mod 114) in
    let p0 := set_ly p ly in
    do sw <- mode_switch p0 o ly tl;
    let '(mode, o1, req1) := sw in
    let p1 := set_mode p0 mode in
    (* coincidence flag *)
    let '(p2, req2) :=
      if tl =? 0 then
        let co := ly =? p_lyc p1 in
        (set_coincidence p1 co, if co && coincidenceInterrupt (p_stat p1) then IF_STAT else 0)
      else (p1, 0) in
    (* execute a single tick *)
    do ex <- match mode with
             | 2 => check_overlapping_sprites p2 o1 tl
             | 3 => let lx := u8 (sub8 tl 20 * 4) in
                    if lx <? 160 then mode3_hook p2 o1 lx ly else Ok (p2, o1)
             | 0 => if p_firstLine p2
                    then Ok (set_firstLine (set_ticks p2 (p_ticks p2 + 2)) false, o1)
                    else Ok (p2, o1)
             | 1 => Ok (p2, o1)
             | _ => Crash CExplicit
             end;
    let '(p3, o2) := ex in
    let t := p_ticks p3 + 1 in
    Ok (set_ticks p3 (if t =? 17556 then 0 else t), o2, N.lor req1 req2).

(* ---- register file by address (low byte of FF40-FF4B; FF46 belongs to the OAM DMA engine) ---- *)
Definition ppu_write_reg (a : N) (p : ppu) (o : oam) (v : N) : ppu * oam :=
  match a with
  | 64 => ppu_write_lcdc p o v
  | 65 => (ppu_write_stat p v, o)
  | 66 => (ppu_write_scy p v, o)
  | 67 => (ppu_write_scx p v, o)
  | 68 => (ppu_write_ly p v, o)
  | 69 => (ppu_write_lyc p v, o)
  | 71 => (ppu_write_bgp p v, o)
  | 72 => (ppu_write_obp0 p v, o)
  | 73 => (ppu_write_obp1 p v, o)
  | 74 => (ppu_write_wy p v, o)
  | 75 => (ppu_write_wx p v, o)
  | _ => (p, o)
  end.

Definition ppu_read_reg (a : N) (p : ppu) : N :=
  match a with
  | 64 => ppu_read_lcdc p
  | 65 => ppu_read_stat p
  | 66 => ppu_read_scy p
  | 67 => ppu_read_scx p
  | 68 => ppu_read_ly p
  | 69 => ppu_read_lyc p
  | 71 => ppu_read_bgp p
  | 72 => ppu_read_obp0 p
  | 73 => ppu_read_obp1 p
  | 74 => ppu_read_wy p
  | 75 => ppu_read_wx p
  | _ => 255
  end.

(* ---- histories of the PPU seen in isolation: machine cycles, register writes, and arbitrary activity of
   the rest of the machine on the OAM component (CPU accesses, DMA, corruption), given as a function ---- *)
Inductive ppu_op :=
| PTick
| PWrite (a v : N)
| POam (g : oam -> oam).

Definition ppu_step (s : ppu * oam) (op : ppu_op) : res (ppu * oam) :=
  match op with
  | PTick => do r <- ppu_tick (fst s) (snd s); Ok (fst r)
  | PWrite a v => Ok (ppu_write_reg a (fst s) (snd s) v)
  | POam g => Ok (fst s, g (snd s))
  end.

Definition ppu_run_from (s : ppu * oam) (h : list ppu_op) : res (ppu * oam) :=
  fold_left (fun acc op => do x <- acc; ppu_step x op) h (Ok s).

Definition ppu_power_on : ppu * oam := ppu_new oam_init.

Definition ppu_run (h : list ppu_op) : res (ppu * oam) := ppu_run_from ppu_power_on h.

(* the IF bits requested by one more machine cycle after history h *)
Definition ppu_next_req (h : list ppu_op) : res N :=
  do s <- ppu_run h; do r <- ppu_tick (fst s) (snd s); Ok (snd r).
