(* Apu.v — executable model of gameboy/audio (audio.go, channel.go, square.go, wave.go, noise.go, registers.go)
   and of the FF10-FF3F routing of gameboy/memory/mapper.go.  Definitions only, no proofs.

   Go types are kept exactly: square.timer / wave.timer / frequencies / shadow are uint16, noise.timer is uint32
   (after the repair "fix: noise channel period honours the NR43 shift"), every other counter is uint8,
   ticks / frameSeqTicks are uint64.  All wrap-arounds are written out (u8/u16/sub8/sub16/add8/add16).

   Samples: the Go code computes float32 values; the model computes the exact rational value as an integer
   numerator over the fixed denominator [sample_den] = 6400 (see design/C20.md for the float32 assumption).

   Index safety: the only indexings whose bound is not enforced by the indexing expression itself are
   waveduty[duty][dutyIndex] (square.takeSample), waveram[lastAccessed] and waveram[addr-0xff30]
   (Read/WriteWaveRAM).  The functions below are total; the [_r] wrappers at the end of the file perform the
   bound checks first and return [Crash CIndex] exactly where Go would panic (they are what the runner uses). *)
From V.lib Require Import Bits Mem Res.

Record sweep := mkSweep {
  swPeriod : N;
  swIncrease : bool;
  swShift : N;
  swEnabled : bool;
  swDescending : bool;
  swTimer : N;
  swShadow : N
}.

Definition set_swPeriod (x : sweep) (v : N) : sweep := mkSweep v (swIncrease x) (swShift x) (swEnabled x) (swDescending x) (swTimer x) (swShadow x).
Definition set_swIncrease (x : sweep) (v : bool) : sweep := mkSweep (swPeriod x) v (swShift x) (swEnabled x) (swDescending x) (swTimer x) (swShadow x).
Definition set_swShift (x : sweep) (v : N) : sweep := mkSweep (swPeriod x) (swIncrease x) v (swEnabled x) (swDescending x) (swTimer x) (swShadow x).
Definition set_swEnabled (x : sweep) (v : bool) : sweep := mkSweep (swPeriod x) (swIncrease x) (swShift x) v (swDescending x) (swTimer x) (swShadow x).
Definition set_swDescending (x : sweep) (v : bool) : sweep := mkSweep (swPeriod x) (swIncrease x) (swShift x) (swEnabled x) v (swTimer x) (swShadow x).
Definition set_swTimer (x : sweep) (v : N) : sweep := mkSweep (swPeriod x) (swIncrease x) (swShift x) (swEnabled x) (swDescending x) v (swShadow x).
Definition set_swShadow (x : sweep) (v : N) : sweep := mkSweep (swPeriod x) (swIncrease x) (swShift x) (swEnabled x) (swDescending x) (swTimer x) v.

Record square := mkSquare {
  sqDuty : N;
  sqLength : N;
  sqInitVol : N;
  sqEnvInc : bool;
  sqEnvSweep : N;
  sqFreq : N;
  sqLenEn : bool;
  sqEnabled : bool;
  sqDac : bool;
  sqDutyIdx : N;
  sqVolume : N;
  sqTimer : N;
  sqEnvTimer : N;
  sqTriggered : bool
}.

Definition set_sqDuty (x : square) (v : N) : square := mkSquare v (sqLength x) (sqInitVol x) (sqEnvInc x) (sqEnvSweep x) (sqFreq x) (sqLenEn x) (sqEnabled x) (sqDac x) (sqDutyIdx x) (sqVolume x) (sqTimer x) (sqEnvTimer x) (sqTriggered x).
Definition set_sqLength (x : square) (v : N) : square := mkSquare (sqDuty x) v (sqInitVol x) (sqEnvInc x) (sqEnvSweep x) (sqFreq x) (sqLenEn x) (sqEnabled x) (sqDac x) (sqDutyIdx x) (sqVolume x) (sqTimer x) (sqEnvTimer x) (sqTriggered x).
Definition set_sqInitVol (x : square) (v : N) : square := mkSquare (sqDuty x) (sqLength x) v (sqEnvInc x) (sqEnvSweep x) (sqFreq x) (sqLenEn x) (sqEnabled x) (sqDac x) (sqDutyIdx x) (sqVolume x) (sqTimer x) (sqEnvTimer x) (sqTriggered x).
Definition set_sqEnvInc (x : square) (v : bool) : square := mkSquare (sqDuty x) (sqLength x) (sqInitVol x) v (sqEnvSweep x) (sqFreq x) (sqLenEn x) (sqEnabled x) (sqDac x) (sqDutyIdx x) (sqVolume x) (sqTimer x) (sqEnvTimer x) (sqTriggered x).
Definition set_sqEnvSweep (x : square) (v : N) : square := mkSquare (sqDuty x) (sqLength x) (sqInitVol x) (sqEnvInc x) v (sqFreq x) (sqLenEn x) (sqEnabled x) (sqDac x) (sqDutyIdx x) (sqVolume x) (sqTimer x) (sqEnvTimer x) (sqTriggered x).
Definition set_sqFreq (x : square) (v : N) : square := mkSquare (sqDuty x) (sqLength x) (sqInitVol x) (sqEnvInc x) (sqEnvSweep x) v (sqLenEn x) (sqEnabled x) (sqDac x) (sqDutyIdx x) (sqVolume x) (sqTimer x) (sqEnvTimer x) (sqTriggered x).
Definition set_sqLenEn (x : square) (v : bool) : square := mkSquare (sqDuty x) (sqLength x) (sqInitVol x) (sqEnvInc x) (sqEnvSweep x) (sqFreq x) v (sqEnabled x) (sqDac x) (sqDutyIdx x) (sqVolume x) (sqTimer x) (sqEnvTimer x) (sqTriggered x).
Definition set_sqEnabled (x : square) (v : bool) : square := mkSquare (sqDuty x) (sqLength x) (sqInitVol x) (sqEnvInc x) (sqEnvSweep x) (sqFreq x) (sqLenEn x) v (sqDac x) (sqDutyIdx x) (sqVolume x) (sqTimer x) (sqEnvTimer x) (sqTriggered x).
Definition set_sqDac (x : square) (v : bool) : square := mkSquare (sqDuty x) (sqLength x) (sqInitVol x) (sqEnvInc x) (sqEnvSweep x) (sqFreq x) (sqLenEn x) (sqEnabled x) v (sqDutyIdx x) (sqVolume x) (sqTimer x) (sqEnvTimer x) (sqTriggered x).
Definition set_sqDutyIdx (x : square) (v : N) : square := mkSquare (sqDuty x) (sqLength x) (sqInitVol x) (sqEnvInc x) (sqEnvSweep x) (sqFreq x) (sqLenEn x) (sqEnabled x) (sqDac x) v (sqVolume x) (sqTimer x) (sqEnvTimer x) (sqTriggered x).
Definition set_sqVolume (x : square) (v : N) : square := mkSquare (sqDuty x) (sqLength x) (sqInitVol x) (sqEnvInc x) (sqEnvSweep x) (sqFreq x) (sqLenEn x) (sqEnabled x) (sqDac x) (sqDutyIdx x) v (sqTimer x) (sqEnvTimer x) (sqTriggered x).
Definition set_sqTimer (x : square) (v : N) : square := mkSquare (sqDuty x) (sqLength x) (sqInitVol x) (sqEnvInc x) (sqEnvSweep x) (sqFreq x) (sqLenEn x) (sqEnabled x) (sqDac x) (sqDutyIdx x) (sqVolume x) v (sqEnvTimer x) (sqTriggered x).
Definition set_sqEnvTimer (x : square) (v : N) : square := mkSquare (sqDuty x) (sqLength x) (sqInitVol x) (sqEnvInc x) (sqEnvSweep x) (sqFreq x) (sqLenEn x) (sqEnabled x) (sqDac x) (sqDutyIdx x) (sqVolume x) (sqTimer x) v (sqTriggered x).
Definition set_sqTriggered (x : square) (v : bool) : square := mkSquare (sqDuty x) (sqLength x) (sqInitVol x) (sqEnvInc x) (sqEnvSweep x) (sqFreq x) (sqLenEn x) (sqEnabled x) (sqDac x) (sqDutyIdx x) (sqVolume x) (sqTimer x) (sqEnvTimer x) v.

Record wave := mkWave {
  wvLength : N;
  wvOutLevel : N;
  wvFreq : N;
  wvLenEn : bool;
  wvRam : Mem.t;
  wvEnabled : bool;
  wvDac : bool;
  wvTimer : N;
  wvOutShift : N;
  wvPosition : N;
  wvLastAcc : N;
  wvSampleBuf : N;
  wvSampleTimer : N;
  wvTriggered : bool
}.

Definition set_wvLength (x : wave) (v : N) : wave := mkWave v (wvOutLevel x) (wvFreq x) (wvLenEn x) (wvRam x) (wvEnabled x) (wvDac x) (wvTimer x) (wvOutShift x) (wvPosition x) (wvLastAcc x) (wvSampleBuf x) (wvSampleTimer x) (wvTriggered x).
Definition set_wvOutLevel (x : wave) (v : N) : wave := mkWave (wvLength x) v (wvFreq x) (wvLenEn x) (wvRam x) (wvEnabled x) (wvDac x) (wvTimer x) (wvOutShift x) (wvPosition x) (wvLastAcc x) (wvSampleBuf x) (wvSampleTimer x) (wvTriggered x).
Definition set_wvFreq (x : wave) (v : N) : wave := mkWave (wvLength x) (wvOutLevel x) v (wvLenEn x) (wvRam x) (wvEnabled x) (wvDac x) (wvTimer x) (wvOutShift x) (wvPosition x) (wvLastAcc x) (wvSampleBuf x) (wvSampleTimer x) (wvTriggered x).
Definition set_wvLenEn (x : wave) (v : bool) : wave := mkWave (wvLength x) (wvOutLevel x) (wvFreq x) v (wvRam x) (wvEnabled x) (wvDac x) (wvTimer x) (wvOutShift x) (wvPosition x) (wvLastAcc x) (wvSampleBuf x) (wvSampleTimer x) (wvTriggered x).
Definition set_wvRam (x : wave) (v : Mem.t) : wave := mkWave (wvLength x) (wvOutLevel x) (wvFreq x) (wvLenEn x) v (wvEnabled x) (wvDac x) (wvTimer x) (wvOutShift x) (wvPosition x) (wvLastAcc x) (wvSampleBuf x) (wvSampleTimer x) (wvTriggered x).
Definition set_wvEnabled (x : wave) (v : bool) : wave := mkWave (wvLength x) (wvOutLevel x) (wvFreq x) (wvLenEn x) (wvRam x) v (wvDac x) (wvTimer x) (wvOutShift x) (wvPosition x) (wvLastAcc x) (wvSampleBuf x) (wvSampleTimer x) (wvTriggered x).
Definition set_wvDac (x : wave) (v : bool) : wave := mkWave (wvLength x) (wvOutLevel x) (wvFreq x) (wvLenEn x) (wvRam x) (wvEnabled x) v (wvTimer x) (wvOutShift x) (wvPosition x) (wvLastAcc x) (wvSampleBuf x) (wvSampleTimer x) (wvTriggered x).
Definition set_wvTimer (x : wave) (v : N) : wave := mkWave (wvLength x) (wvOutLevel x) (wvFreq x) (wvLenEn x) (wvRam x) (wvEnabled x) (wvDac x) v (wvOutShift x) (wvPosition x) (wvLastAcc x) (wvSampleBuf x) (wvSampleTimer x) (wvTriggered x).
Definition set_wvOutShift (x : wave) (v : N) : wave := mkWave (wvLength x) (wvOutLevel x) (wvFreq x) (wvLenEn x) (wvRam x) (wvEnabled x) (wvDac x) (wvTimer x) v (wvPosition x) (wvLastAcc x) (wvSampleBuf x) (wvSampleTimer x) (wvTriggered x).
Definition set_wvPosition (x : wave) (v : N) : wave := mkWave (wvLength x) (wvOutLevel x) (wvFreq x) (wvLenEn x) (wvRam x) (wvEnabled x) (wvDac x) (wvTimer x) (wvOutShift x) v (wvLastAcc x) (wvSampleBuf x) (wvSampleTimer x) (wvTriggered x).
Definition set_wvLastAcc (x : wave) (v : N) : wave := mkWave (wvLength x) (wvOutLevel x) (wvFreq x) (wvLenEn x) (wvRam x) (wvEnabled x) (wvDac x) (wvTimer x) (wvOutShift x) (wvPosition x) v (wvSampleBuf x) (wvSampleTimer x) (wvTriggered x).
Definition set_wvSampleBuf (x : wave) (v : N) : wave := mkWave (wvLength x) (wvOutLevel x) (wvFreq x) (wvLenEn x) (wvRam x) (wvEnabled x) (wvDac x) (wvTimer x) (wvOutShift x) (wvPosition x) (wvLastAcc x) v (wvSampleTimer x) (wvTriggered x).
Definition set_wvSampleTimer (x : wave) (v : N) : wave := mkWave (wvLength x) (wvOutLevel x) (wvFreq x) (wvLenEn x) (wvRam x) (wvEnabled x) (wvDac x) (wvTimer x) (wvOutShift x) (wvPosition x) (wvLastAcc x) (wvSampleBuf x) v (wvTriggered x).
Definition set_wvTriggered (x : wave) (v : bool) : wave := mkWave (wvLength x) (wvOutLevel x) (wvFreq x) (wvLenEn x) (wvRam x) (wvEnabled x) (wvDac x) (wvTimer x) (wvOutShift x) (wvPosition x) (wvLastAcc x) (wvSampleBuf x) (wvSampleTimer x) v.

Record noise := mkNoise {
  nsLength : N;
  nsInitVol : N;
  nsEnvInc : bool;
  nsEnvSweep : N;
  nsShift : N;
  nsWidth : N;
  nsDivisor : N;
  nsLenEn : bool;
  nsEnabled : bool;
  nsDac : bool;
  nsVolume : N;
  nsTimer : N;
  nsEnvTimer : N;
  nsLfsr : N;
  nsTriggered : bool
}.

Definition set_nsLength (x : noise) (v : N) : noise := mkNoise v (nsInitVol x) (nsEnvInc x) (nsEnvSweep x) (nsShift x) (nsWidth x) (nsDivisor x) (nsLenEn x) (nsEnabled x) (nsDac x) (nsVolume x) (nsTimer x) (nsEnvTimer x) (nsLfsr x) (nsTriggered x).
Definition set_nsInitVol (x : noise) (v : N) : noise := mkNoise (nsLength x) v (nsEnvInc x) (nsEnvSweep x) (nsShift x) (nsWidth x) (nsDivisor x) (nsLenEn x) (nsEnabled x) (nsDac x) (nsVolume x) (nsTimer x) (nsEnvTimer x) (nsLfsr x) (nsTriggered x).
Definition set_nsEnvInc (x : noise) (v : bool) : noise := mkNoise (nsLength x) (nsInitVol x) v (nsEnvSweep x) (nsShift x) (nsWidth x) (nsDivisor x) (nsLenEn x) (nsEnabled x) (nsDac x) (nsVolume x) (nsTimer x) (nsEnvTimer x) (nsLfsr x) (nsTriggered x).
Definition set_nsEnvSweep (x : noise) (v : N) : noise := mkNoise (nsLength x) (nsInitVol x) (nsEnvInc x) v (nsShift x) (nsWidth x) (nsDivisor x) (nsLenEn x) (nsEnabled x) (nsDac x) (nsVolume x) (nsTimer x) (nsEnvTimer x) (nsLfsr x) (nsTriggered x).
Definition set_nsShift (x : noise) (v : N) : noise := mkNoise (nsLength x) (nsInitVol x) (nsEnvInc x) (nsEnvSweep x) v (nsWidth x) (nsDivisor x) (nsLenEn x) (nsEnabled x) (nsDac x) (nsVolume x) (nsTimer x) (nsEnvTimer x) (nsLfsr x) (nsTriggered x).
Definition set_nsWidth (x : noise) (v : N) : noise := mkNoise (nsLength x) (nsInitVol x) (nsEnvInc x) (nsEnvSweep x) (nsShift x) v (nsDivisor x) (nsLenEn x) (nsEnabled x) (nsDac x) (nsVolume x) (nsTimer x) (nsEnvTimer x) (nsLfsr x) (nsTriggered x).
Definition set_nsDivisor (x : noise) (v : N) : noise := mkNoise (nsLength x) (nsInitVol x) (nsEnvInc x) (nsEnvSweep x) (nsShift x) (nsWidth x) v (nsLenEn x) (nsEnabled x) (nsDac x) (nsVolume x) (nsTimer x) (nsEnvTimer x) (nsLfsr x) (nsTriggered x).
Definition set_nsLenEn (x : noise) (v : bool) : noise := mkNoise (nsLength x) (nsInitVol x) (nsEnvInc x) (nsEnvSweep x) (nsShift x) (nsWidth x) (nsDivisor x) v (nsEnabled x) (nsDac x) (nsVolume x) (nsTimer x) (nsEnvTimer x) (nsLfsr x) (nsTriggered x).
Definition set_nsEnabled (x : noise) (v : bool) : noise := mkNoise (nsLength x) (nsInitVol x) (nsEnvInc x) (nsEnvSweep x) (nsShift x) (nsWidth x) (nsDivisor x) (nsLenEn x) v (nsDac x) (nsVolume x) (nsTimer x) (nsEnvTimer x) (nsLfsr x) (nsTriggered x).
Definition set_nsDac (x : noise) (v : bool) : noise := mkNoise (nsLength x) (nsInitVol x) (nsEnvInc x) (nsEnvSweep x) (nsShift x) (nsWidth x) (nsDivisor x) (nsLenEn x) (nsEnabled x) v (nsVolume x) (nsTimer x) (nsEnvTimer x) (nsLfsr x) (nsTriggered x).
Definition set_nsVolume (x : noise) (v : N) : noise := mkNoise (nsLength x) (nsInitVol x) (nsEnvInc x) (nsEnvSweep x) (nsShift x) (nsWidth x) (nsDivisor x) (nsLenEn x) (nsEnabled x) (nsDac x) v (nsTimer x) (nsEnvTimer x) (nsLfsr x) (nsTriggered x).
Definition set_nsTimer (x : noise) (v : N) : noise := mkNoise (nsLength x) (nsInitVol x) (nsEnvInc x) (nsEnvSweep x) (nsShift x) (nsWidth x) (nsDivisor x) (nsLenEn x) (nsEnabled x) (nsDac x) (nsVolume x) v (nsEnvTimer x) (nsLfsr x) (nsTriggered x).
Definition set_nsEnvTimer (x : noise) (v : N) : noise := mkNoise (nsLength x) (nsInitVol x) (nsEnvInc x) (nsEnvSweep x) (nsShift x) (nsWidth x) (nsDivisor x) (nsLenEn x) (nsEnabled x) (nsDac x) (nsVolume x) (nsTimer x) v (nsLfsr x) (nsTriggered x).
Definition set_nsLfsr (x : noise) (v : N) : noise := mkNoise (nsLength x) (nsInitVol x) (nsEnvInc x) (nsEnvSweep x) (nsShift x) (nsWidth x) (nsDivisor x) (nsLenEn x) (nsEnabled x) (nsDac x) (nsVolume x) (nsTimer x) (nsEnvTimer x) v (nsTriggered x).
Definition set_nsTriggered (x : noise) (v : bool) : noise := mkNoise (nsLength x) (nsInitVol x) (nsEnvInc x) (nsEnvSweep x) (nsShift x) (nsWidth x) (nsDivisor x) (nsLenEn x) (nsEnabled x) (nsDac x) (nsVolume x) (nsTimer x) (nsEnvTimer x) (nsLfsr x) v.

Record control := mkControl {
  ctOn : bool;
  ct1R : bool;
  ct2R : bool;
  ct3R : bool;
  ct4R : bool;
  ct1L : bool;
  ct2L : bool;
  ct3L : bool;
  ct4L : bool;
  ctVinL : bool;
  ctVolL : N;
  ctVinR : bool;
  ctVolR : N
}.

Definition set_ctOn (x : control) (v : bool) : control := mkControl v (ct1R x) (ct2R x) (ct3R x) (ct4R x) (ct1L x) (ct2L x) (ct3L x) (ct4L x) (ctVinL x) (ctVolL x) (ctVinR x) (ctVolR x).
Definition set_ct1R (x : control) (v : bool) : control := mkControl (ctOn x) v (ct2R x) (ct3R x) (ct4R x) (ct1L x) (ct2L x) (ct3L x) (ct4L x) (ctVinL x) (ctVolL x) (ctVinR x) (ctVolR x).
Definition set_ct2R (x : control) (v : bool) : control := mkControl (ctOn x) (ct1R x) v (ct3R x) (ct4R x) (ct1L x) (ct2L x) (ct3L x) (ct4L x) (ctVinL x) (ctVolL x) (ctVinR x) (ctVolR x).
Definition set_ct3R (x : control) (v : bool) : control := mkControl (ctOn x) (ct1R x) (ct2R x) v (ct4R x) (ct1L x) (ct2L x) (ct3L x) (ct4L x) (ctVinL x) (ctVolL x) (ctVinR x) (ctVolR x).
Definition set_ct4R (x : control) (v : bool) : control := mkControl (ctOn x) (ct1R x) (ct2R x) (ct3R x) v (ct1L x) (ct2L x) (ct3L x) (ct4L x) (ctVinL x) (ctVolL x) (ctVinR x) (ctVolR x).
Definition set_ct1L (x : control) (v : bool) : control := mkControl (ctOn x) (ct1R x) (ct2R x) (ct3R x) (ct4R x) v (ct2L x) (ct3L x) (ct4L x) (ctVinL x) (ctVolL x) (ctVinR x) (ctVolR x).
Definition set_ct2L (x : control) (v : bool) : control := mkControl (ctOn x) (ct1R x) (ct2R x) (ct3R x) (ct4R x) (ct1L x) v (ct3L x) (ct4L x) (ctVinL x) (ctVolL x) (ctVinR x) (ctVolR x).
Definition set_ct3L (x : control) (v : bool) : control := mkControl (ctOn x) (ct1R x) (ct2R x) (ct3R x) (ct4R x) (ct1L x) (ct2L x) v (ct4L x) (ctVinL x) (ctVolL x) (ctVinR x) (ctVolR x).
Definition set_ct4L (x : control) (v : bool) : control := mkControl (ctOn x) (ct1R x) (ct2R x) (ct3R x) (ct4R x) (ct1L x) (ct2L x) (ct3L x) v (ctVinL x) (ctVolL x) (ctVinR x) (ctVolR x).
Definition set_ctVinL (x : control) (v : bool) : control := mkControl (ctOn x) (ct1R x) (ct2R x) (ct3R x) (ct4R x) (ct1L x) (ct2L x) (ct3L x) (ct4L x) v (ctVolL x) (ctVinR x) (ctVolR x).
Definition set_ctVolL (x : control) (v : N) : control := mkControl (ctOn x) (ct1R x) (ct2R x) (ct3R x) (ct4R x) (ct1L x) (ct2L x) (ct3L x) (ct4L x) (ctVinL x) v (ctVinR x) (ctVolR x).
Definition set_ctVinR (x : control) (v : bool) : control := mkControl (ctOn x) (ct1R x) (ct2R x) (ct3R x) (ct4R x) (ct1L x) (ct2L x) (ct3L x) (ct4L x) (ctVinL x) (ctVolL x) v (ctVolR x).
Definition set_ctVolR (x : control) (v : N) : control := mkControl (ctOn x) (ct1R x) (ct2R x) (ct3R x) (ct4R x) (ct1L x) (ct2L x) (ct3L x) (ct4L x) (ctVinL x) (ctVolL x) (ctVinR x) v.

Record apu := mkApu {
  attached : bool;
  ch1 : square;
  sw1 : sweep;
  ch2 : square;
  ch3 : wave;
  ch4 : noise;
  ctl : control;
  ticks : N;
  fseq : N
}.

Definition set_attached (x : apu) (v : bool) : apu := mkApu v (ch1 x) (sw1 x) (ch2 x) (ch3 x) (ch4 x) (ctl x) (ticks x) (fseq x).
Definition set_ch1 (x : apu) (v : square) : apu := mkApu (attached x) v (sw1 x) (ch2 x) (ch3 x) (ch4 x) (ctl x) (ticks x) (fseq x).
Definition set_sw1 (x : apu) (v : sweep) : apu := mkApu (attached x) (ch1 x) v (ch2 x) (ch3 x) (ch4 x) (ctl x) (ticks x) (fseq x).
Definition set_ch2 (x : apu) (v : square) : apu := mkApu (attached x) (ch1 x) (sw1 x) v (ch3 x) (ch4 x) (ctl x) (ticks x) (fseq x).
Definition set_ch3 (x : apu) (v : wave) : apu := mkApu (attached x) (ch1 x) (sw1 x) (ch2 x) v (ch4 x) (ctl x) (ticks x) (fseq x).
Definition set_ch4 (x : apu) (v : noise) : apu := mkApu (attached x) (ch1 x) (sw1 x) (ch2 x) (ch3 x) v (ctl x) (ticks x) (fseq x).
Definition set_ctl (x : apu) (v : control) : apu := mkApu (attached x) (ch1 x) (sw1 x) (ch2 x) (ch3 x) (ch4 x) v (ticks x) (fseq x).
Definition set_ticks (x : apu) (v : N) : apu := mkApu (attached x) (ch1 x) (sw1 x) (ch2 x) (ch3 x) (ch4 x) (ctl x) v (fseq x).
Definition set_fseq (x : apu) (v : N) : apu := mkApu (attached x) (ch1 x) (sw1 x) (ch2 x) (ch3 x) (ch4 x) (ctl x) (ticks x) v.

(* ------------------------------------------------------------------------------------------------- *)
(* constants of audio.go *)
Definition frameSeqPeriod : N := 8192.      (* 4194304 / 512 *)
Definition frameSeqMask : N := 8191.       (* frameSeqPeriod - 1 *)
Definition samplerPeriod : N := 95.         (* 4194304 / 44100, integer division *)
Definition ticksPerSecond : N := 4194304.
Definition two64 : N := 18446744073709551616.

Definition sample_den : N := 6400.
Definition sample_pair : Type := (N * N)%type.   (* (left, right) numerators over sample_den *)

(* x-- and x++ on a value that already is a uint16 / uint32 / uint8 (every field holding one is only ever
   assigned wrapped values): the wrap-around written as a comparison instead of a modulo, for speed *)
Definition dec16 (x : N) : N := if x =? 0 then 65535 else N.pred x.
Definition dec32 (x : N) : N := if x =? 0 then 4294967295 else N.pred x.
Definition inc8 (x : N) : N := if x =? 255 then 0 else N.succ x.

(* ------------------------------------------------------------------------------------------------- *)
(* square.go *)

(* (2048 - s.frequency) * 4 in uint16 *)
Definition sq_period (c : square) : N := u16 (sub16 2048 (sqFreq c) * 4).

(* calculateFrequency: returns the new frequency; may disable the channel and set sweepDescending *)
Definition calc_freq (c : square) (w : sweep) : square * sweep * N :=
  let d := N.shiftr (swShadow w) (swShift w) in
  let d' := if swIncrease w then d else sub16 0 d in
  let w' := if swIncrease w then w else set_swDescending w true in
  let nf := add16 (swShadow w) d' in
  let c' := if 2047 <? nf then set_sqEnabled c false else c in
  (c', w', nf).

Definition sq_trigger_common (c : square) : square :=
  let c := set_sqTriggered c true in
  let c := set_sqEnabled c true in
  let c := if sqLength c =? 0 then set_sqLength c 64 else c in
  let c := set_sqTimer c (sq_period c) in
  let c := set_sqEnvTimer c (if sqEnvSweep c =? 0 then 8 else sqEnvSweep c) in
  set_sqVolume c (sqInitVol c).

Definition sq_dac_check (c : square) : square := if sqDac c then c else set_sqEnabled c false.

(* channel 2: s.sweep == nil *)
Definition ch2_trigger (c : square) : square := sq_dac_check (sq_trigger_common c).

(* channel 1 *)
Definition ch1_trigger (c : square) (w : sweep) : square * sweep :=
  let c := sq_trigger_common c in
  let w := set_swShadow w (sqFreq c) in
  let w := set_swTimer w (if swPeriod w =? 0 then 8 else swPeriod w) in
  let w := set_swEnabled w ((0 <? swPeriod w) || (0 <? swShift w)) in
  let cw := if 0 <? swShift w then fst (calc_freq c w) else (c, w) in
  (sq_dac_check (fst cw), snd cw).

Definition sq_tick_timer (c : square) : square :=
  let c := if sqTimer c =? 0
           then set_sqDutyIdx (set_sqTimer c (sq_period c))
                  (let i := add8 (sqDutyIdx c) 1 in if 8 <=? i then 0 else i)
           else c in
  set_sqTimer c (dec16 (sqTimer c)).

Definition sq_tick_length (c : square) : square :=
  if sqLenEn c then
    if 0 <? sqLength c then
      let c := set_sqLength c (sub8 (sqLength c) 1) in
      if sqLength c =? 0 then set_sqEnabled c false else c
    else c
  else c.

Definition sq_tick_envelope (c : square) : square :=
  if sqEnvSweep c =? 0 then c else
  let c := if sqEnvTimer c =? 0 then
             if sqEnvInc c then
               (if sqVolume c <? 15 then set_sqEnvTimer (set_sqVolume c (add8 (sqVolume c) 1)) (sqEnvSweep c) else c)
             else
               (if 0 <? sqVolume c then set_sqEnvTimer (set_sqVolume c (sub8 (sqVolume c) 1)) (sqEnvSweep c) else c)
           else c in
  set_sqEnvTimer c (sub8 (sqEnvTimer c) 1).

Definition ch1_tick_sweep (c : square) (w : sweep) : square * sweep :=
  if swEnabled w then
    let w := set_swTimer w (sub8 (swTimer w) 1) in
    if swTimer w =? 0 then
      let w := set_swTimer w (swPeriod w) in
      if swTimer w =? 0 then (c, set_swTimer w 8)
      else
        let '(c1, w1, nf) := calc_freq c w in
        if (nf <? 2048) && (0 <? swShift w1) then
          let c2 := set_sqFreq c1 nf in
          let w2 := set_swShadow w1 nf in
          fst (calc_freq c2 w2)
        else (c1, w1)
    else (c, w)
  else (c, w).

(* waveduty[d][i] as 0 / 1 *)
Definition waveduty : list (list N) :=
  [ [0;1;1;1;1;1;1;1]; [0;0;1;1;1;1;1;1]; [0;0;0;0;1;1;1;1]; [0;0;0;0;0;0;1;1] ].
Definition duty_level (d i : N) : N := nth (N.to_nat i) (nth (N.to_nat d) waveduty []) 0.

(* channel output in 120ths:  waveduty * volume / 8  =  15 * level * volume / 120 *)
Definition sq_sample (c : square) : N :=
  if sqEnabled c && sqDac c then 15 * (duty_level (sqDuty c) (sqDutyIdx c) * sqVolume c) else 0.

(* ------------------------------------------------------------------------------------------------- *)
(* wave.go *)

Definition wave_init_ram : list N :=
  [0x84; 0x40; 0x43; 0xAA; 0x2D; 0x78; 0x92; 0x3C; 0x60; 0x59; 0x59; 0xB0; 0x34; 0xB8; 0x2E; 0xDA].

Fixpoint ram_of_list (l : list N) (i : N) (m : Mem.t) : Mem.t :=
  match l with [] => m | x :: r => ram_of_list r (N.succ i) (Mem.set m i x) end.

Definition wv_period (w : wave) : N := u16 (sub16 2048 (wvFreq w) * 2).

Definition ram_copy (m : Mem.t) (dst src : N) : Mem.t := Mem.set m dst (Mem.get m src).

Definition wv_corrupt (w : wave) : wave :=
  let addr := (u8 (wvPosition w + 1) mod 32) / 2 in
  let m := wvRam w in
  let m' :=
    if addr <? 4 then ram_copy m 0 addr
    else
      let base := if addr <? 8 then 4 else if addr <? 12 then 8 else 12 in
      ram_copy (ram_copy (ram_copy (ram_copy m 0 base) 1 (base + 1)) 2 (base + 2)) 3 (base + 3) in
  set_wvRam w m'.

Definition wv_trigger (w : wave) : wave :=
  let w := if wvEnabled w then (if wvTimer w =? 0 then wv_corrupt w else w) else set_wvTriggered w true in
  let w := set_wvEnabled w true in
  let w := if wvLength w =? 0 then set_wvLength w 256 else w in
  let w := set_wvTimer w (wv_period w) in
  let w := set_wvOutShift w (if wvOutLevel w =? 0 then 4 else sub8 (wvOutLevel w) 1) in
  let w := set_wvPosition w 0 in
  if wvDac w then w else set_wvEnabled w false.

Definition wv_tick_timer (w : wave) : wave :=
  if wvEnabled w then
    let w := if wvTimer w =? 0 then
               let w := set_wvTimer w (wv_period w) in
               let p := add8 (wvPosition w) 1 in
               let p := if 32 <=? p then 0 else p in
               let w := set_wvPosition w p in
               let la := p / 2 in
               let w := set_wvLastAcc w la in
               let b := Mem.get (wvRam w) la in
               let w := set_wvSampleBuf w (if p mod 2 =? 0 then N.shiftr b 4 else N.land b 15) in
               set_wvSampleTimer w 0
             else w in
    let w := set_wvTimer w (dec16 (wvTimer w)) in
    set_wvSampleTimer w (inc8 (wvSampleTimer w))
  else w.

Definition wv_tick_length (w : wave) : wave :=
  if wvLenEn w then
    if 0 <? wvLength w then
      let w := set_wvLength w (sub16 (wvLength w) 1) in
      if wvLength w =? 0 then set_wvEnabled w false else w
    else w
  else w.

(* float32(sampleBuffer >> outputShift) / 15  =  8 * (...) / 120 *)
Definition wv_sample (w : wave) : N :=
  if wvEnabled w then 8 * N.shiftr (wvSampleBuf w) (wvOutShift w) else 0.

(* ------------------------------------------------------------------------------------------------- *)
(* noise.go *)

(* period(): uint32(divisor)*16, 8 when that is 0, shifted left by shift, in uint32 *)
Definition ns_period (n : noise) : N :=
  let p := nsDivisor n * 16 in
  let p := if p =? 0 then 8 else p in
  (N.shiftl p (nsShift n)) mod 4294967296.

Definition ns_trigger (n : noise) : noise :=
  let n := set_nsTriggered n true in
  let n := set_nsEnabled n true in
  let n := if nsLength n =? 0 then set_nsLength n 64 else n in
  let n := set_nsTimer n (ns_period n) in
  let n := set_nsEnvTimer n (if nsEnvSweep n =? 0 then 8 else nsEnvSweep n) in
  let n := set_nsVolume n (nsInitVol n) in
  let n := set_nsLfsr n 0xffff in
  if nsDac n then n else set_nsEnabled n false.

(* one step of the shift register (uint16) *)
Definition lfsr_step (width l : N) : N :=
  let nw := N.lxor (N.land l 1) (N.land (N.shiftr l 1) 1) in
  let l := N.shiftr l 1 in
  let l := N.lor l (N.shiftl nw 14) in
  if 0 <? width then N.lor (N.ldiff l 64) (N.shiftl nw 6) else l.

Definition ns_tick_timer (n : noise) : noise :=
  let n := if nsTimer n =? 0
           then set_nsLfsr (set_nsTimer n (ns_period n)) (lfsr_step (nsWidth n) (nsLfsr n))
           else n in
  set_nsTimer n (dec32 (nsTimer n)).

Definition ns_tick_length (n : noise) : noise :=
  if nsLenEn n then
    if 0 <? nsLength n then
      let n := set_nsLength n (sub8 (nsLength n) 1) in
      if nsLength n =? 0 then set_nsEnabled n false else n
    else n
  else n.

Definition ns_tick_envelope (n : noise) : noise :=
  if nsEnvSweep n =? 0 then n else
  let n := if nsEnvTimer n =? 0 then
             if nsEnvInc n then
               (if nsVolume n <? 15 then set_nsEnvTimer (set_nsVolume n (add8 (nsVolume n) 1)) (nsEnvSweep n) else n)
             else
               (if 0 <? nsVolume n then set_nsEnvTimer (set_nsVolume n (sub8 (nsVolume n) 1)) (nsEnvSweep n) else n)
           else n in
  set_nsEnvTimer n (sub8 (nsEnvTimer n) 1).

(* float32(1 - lfsr&1) * volume / 8 *)
Definition ns_sample (n : noise) : N :=
  if nsEnabled n && nsDac n then 15 * ((1 - N.land (nsLfsr n) 1) * nsVolume n) else 0.

(* ------------------------------------------------------------------------------------------------- *)
(* channel.go: takeSample.  Channel values are in 120ths; the mix
      sum / 4 * (float32(volume) / 8 * 0.6)  =  sum120 * volume / 6400                                   *)
Definition mix (b1 b2 b3 b4 : bool) (w1 w2 w3 w4 vol : N) : N :=
  ((if b1 then w1 else 0) + (if b2 then w2 else 0) + (if b3 then w3 else 0) + (if b4 then w4 else 0)) * vol.

Definition take_sample (s : apu) : list sample_pair :=
  if negb (ctOn (ctl s)) || negb (attached s) then [] else
  let w1 := sq_sample (ch1 s) in
  let w2 := sq_sample (ch2 s) in
  let w3 := wv_sample (ch3 s) in
  let w4 := ns_sample (ch4 s) in
  let c := ctl s in
  [ (mix (ct1L c) (ct2L c) (ct3L c) (ct4L c) w1 w2 w3 w4 (ctVolL c),
     mix (ct1R c) (ct2R c) (ct3R c) (ct4R c) w1 w2 w3 w4 (ctVolR c)) ].

(* ------------------------------------------------------------------------------------------------- *)
(* audio.go *)

Definition tick_timers (s : apu) : apu :=
  let s := if sqTriggered (ch1 s) then s else set_ch1 s (sq_tick_timer (ch1 s)) in
  let s := if sqTriggered (ch2 s) then s else set_ch2 s (sq_tick_timer (ch2 s)) in
  let s := if wvTriggered (ch3 s) then s else set_ch3 s (wv_tick_timer (ch3 s)) in
  if nsTriggered (ch4 s) then s else set_ch4 s (ns_tick_timer (ch4 s)).

Definition tick_lengths (s : apu) : apu :=
  set_ch4 (set_ch3 (set_ch2 (set_ch1 s (sq_tick_length (ch1 s))) (sq_tick_length (ch2 s)))
             (wv_tick_length (ch3 s))) (ns_tick_length (ch4 s)).

Definition tick_envelopes (s : apu) : apu :=
  set_ch4 (set_ch2 (set_ch1 s (sq_tick_envelope (ch1 s))) (sq_tick_envelope (ch2 s))) (ns_tick_envelope (ch4 s)).

Definition tick_sweep (s : apu) : apu :=
  let cw := ch1_tick_sweep (ch1 s) (sw1 s) in set_sw1 (set_ch1 s (fst cw)) (snd cw).

(* uint64 subtraction as in (a.frameSeqTicks-7)%8 *)
Definition sub64 (x y : N) : N := (x + two64 - y) mod two64.

Definition tick_frame_sequencer (s : apu) : apu :=
  let q := fseq s in
  let s := if q mod 2 =? 0 then tick_lengths s else s in
  let s := if sub64 q 7 mod 8 =? 0 then tick_envelopes s else s in
  let s := if sub64 q 2 mod 4 =? 0 then tick_sweep s else s in
  set_fseq s (q + 1).

(* tickClock (after "fix: keep the frame sequencer index across the once-per-second wrap of the sample clock":
   the wrap only resets ticks) *)
Definition apu_tick_clock (s : apu) : apu * list sample_pair :=
  let s := if ticksPerSecond <? ticks s then set_ticks s 1 else s in
  let s := tick_timers s in
  (* a.ticks%frameSeqPeriod == 0 with frameSeqPeriod = 8192 = 2^13, computed as a mask (ApuLemmas.fs_hit_mod
     proves the two equal); a.ticks%samplerPeriod below is a genuine division *)
  let s := if N.land (ticks s) frameSeqMask =? 0
           then let s := tick_frame_sequencer s in
                if 512 <=? fseq s then set_fseq s 0 else s
           else s in
  let out := if ticks s mod samplerPeriod =? 0 then take_sample s else [] in
  (set_ticks s (ticks s + 1), out).

Definition clear_triggered (s : apu) : apu :=
  set_ch4 (set_ch3 (set_ch2 (set_ch1 s (set_sqTriggered (ch1 s) false)) (set_sqTriggered (ch2 s) false))
             (set_wvTriggered (ch3 s) false)) (set_nsTriggered (ch4 s) false).

Definition apu_end_machine_cycle (s : apu) : apu * list sample_pair :=
  let '(s, o1) := apu_tick_clock s in
  let '(s, o2) := apu_tick_clock s in
  let '(s, o3) := apu_tick_clock s in
  let '(s, o4) := apu_tick_clock s in
  (clear_triggered s, o1 ++ o2 ++ o3 ++ o4).

(* ------------------------------------------------------------------------------------------------- *)
(* registers.go *)

Definition bitb (v i : N) : bool := N.testbit v i.
Definition odd_seq (s : apu) : bool := fseq s mod 2 =? 1.

Definition WriteNR10 (s : apu) (v : N) : apu :=
  if ctOn (ctl s) then
    let w := sw1 s in
    let w := set_swPeriod w (N.land (N.shiftr v 4) 7) in
    let w := set_swIncrease w (N.land (N.shiftr v 3) 1 =? 0) in
    let w := set_swShift w (N.land v 7) in
    let c := if swIncrease w && swDescending w then set_sqEnabled (ch1 s) false else ch1 s in
    let w := set_swDescending w false in
    set_sw1 (set_ch1 s c) w
  else s.

Definition ReadNR10 (s : apu) : N :=
  let w := sw1 s in
  let x := N.lor (N.lor 0x80 (shl8 (swPeriod w) 4)) (swShift w) in
  if swIncrease w then x else add8 x 8.

Definition WriteNR11 (s : apu) (v : N) : apu :=
  let c := ch1 s in
  let c := if ctOn (ctl s) then set_sqDuty c (N.shiftr v 6) else c in
  set_ch1 s (set_sqLength c (sub8 64 (N.land v 0x3f))).

Definition ReadNR11 (s : apu) : N := N.lor 0x3f (shl8 (sqDuty (ch1 s)) 6).

Definition sq_write_nrx2 (c : square) (v : N) : square :=
  let c := set_sqInitVol c (N.shiftr v 4) in
  let c := set_sqEnvInc c (0 <? N.land (N.shiftr v 3) 1) in
  let c := set_sqEnvSweep c (N.land v 7) in
  let c := set_sqDac c ((0 <? sqInitVol c) || sqEnvInc c) in
  if sqDac c then c else set_sqEnabled c false.

Definition sq_read_nrx2 (c : square) : N :=
  let x := N.lor (shl8 (sqInitVol c) 4) (sqEnvSweep c) in
  if sqEnvInc c then add8 x 8 else x.

Definition WriteNR12 (s : apu) (v : N) : apu :=
  if ctOn (ctl s) then set_ch1 s (sq_write_nrx2 (ch1 s) v) else s.
Definition ReadNR12 (s : apu) : N := sq_read_nrx2 (ch1 s).

Definition WriteNR13 (s : apu) (v : N) : apu :=
  if ctOn (ctl s) then
    let c := ch1 s in
    let c := set_sqFreq c (N.lor (N.land (sqFreq c) 0xff00) v) in
    set_ch1 s (set_sqTimer c (sq_period c))
  else s.
Definition ReadNR13 (s : apu) : N := 0xff.

(* The length part of the NRx4 handlers (the Go code repeats it in each handler):
   [sq_extra_len]  - enabling length in the first half of a length period clocks the counter once;
   [sq_trig_len]   - a trigger that reloaded the counter to 64 in the first half with length enabled makes it 63 *)
Definition sq_extra_len (c : square) (lenEn trigger odd : bool) : square :=
  if negb (sqLenEn c) && lenEn && (0 <? sqLength c) && odd then
    let c := set_sqLength c (sub8 (sqLength c) 1) in
    if (sqLength c =? 0) && negb trigger then set_sqEnabled c false else c
  else c.
Definition sq_trig_len (c : square) (lenEn odd : bool) : square :=
  if lenEn && (sqLength c =? 64) && odd then set_sqLength c (sub8 (sqLength c) 1) else c.
Definition wv_extra_len (w : wave) (lenEn trigger odd : bool) : wave :=
  if negb (wvLenEn w) && lenEn && (0 <? wvLength w) && odd then
    let w := set_wvLength w (sub16 (wvLength w) 1) in
    if (wvLength w =? 0) && negb trigger then set_wvEnabled w false else w
  else w.
Definition wv_trig_len (w : wave) (lenEn odd : bool) : wave :=
  if lenEn && (wvLength w =? 256) && odd then set_wvLength w (sub16 (wvLength w) 1) else w.
Definition ns_extra_len (n : noise) (lenEn trigger odd : bool) : noise :=
  if negb (nsLenEn n) && lenEn && (0 <? nsLength n) && odd then
    let n := set_nsLength n (sub8 (nsLength n) 1) in
    if (nsLength n =? 0) && negb trigger then set_nsEnabled n false else n
  else n.
Definition ns_trig_len (n : noise) (lenEn odd : bool) : noise :=
  if lenEn && (nsLength n =? 64) && odd then set_nsLength n (sub8 (nsLength n) 1) else n.

Definition WriteNR14 (s : apu) (v : N) : apu :=
  if ctOn (ctl s) then
    let c := ch1 s in
    let c := set_sqFreq c (N.lor (N.land (sqFreq c) 0x00ff) (N.shiftl (N.land v 7) 8)) in
    let trigger := 0 <? N.land (N.shiftr v 7) 1 in
    let lenEn := 0 <? N.land (N.shiftr v 6) 1 in
    let c := sq_extra_len c lenEn trigger (odd_seq s) in
    let cw := if trigger then
                let cw := ch1_trigger c (sw1 s) in (sq_trig_len (fst cw) lenEn (odd_seq s), snd cw)
              else (c, sw1 s) in
    set_sw1 (set_ch1 s (set_sqLenEn (fst cw) lenEn)) (snd cw)
  else s.
Definition ReadNR14 (s : apu) : N := if sqLenEn (ch1 s) then 0xff else 0xbf.

Definition WriteNR21 (s : apu) (v : N) : apu :=
  let c := ch2 s in
  let c := if ctOn (ctl s) then set_sqDuty c (N.shiftr v 6) else c in
  set_ch2 s (set_sqLength c (sub8 64 (N.land v 0x3f))).
Definition ReadNR21 (s : apu) : N := N.lor 0x3f (shl8 (sqDuty (ch2 s)) 6).

Definition WriteNR22 (s : apu) (v : N) : apu :=
  if ctOn (ctl s) then set_ch2 s (sq_write_nrx2 (ch2 s) v) else s.
Definition ReadNR22 (s : apu) : N := sq_read_nrx2 (ch2 s).

Definition WriteNR23 (s : apu) (v : N) : apu :=
  if ctOn (ctl s) then
    let c := ch2 s in set_ch2 s (set_sqFreq c (N.lor (N.land (sqFreq c) 0xff00) v))
  else s.
Definition ReadNR23 (s : apu) : N := 0xff.

Definition WriteNR24 (s : apu) (v : N) : apu :=
  if ctOn (ctl s) then
    let c := ch2 s in
    let c := set_sqFreq c (N.lor (N.land (sqFreq c) 0x00ff) (N.shiftl (N.land v 7) 8)) in
    let trigger := 0 <? N.land (N.shiftr v 7) 1 in
    let lenEn := 0 <? N.land (N.shiftr v 6) 1 in
    let c := sq_extra_len c lenEn trigger (odd_seq s) in
    let c := if trigger then sq_trig_len (ch2_trigger c) lenEn (odd_seq s) else c in
    set_ch2 s (set_sqLenEn c lenEn)
  else s.
Definition ReadNR24 (s : apu) : N := if sqLenEn (ch2 s) then 0xff else 0xbf.

Definition WriteNR30 (s : apu) (v : N) : apu :=
  if ctOn (ctl s) then
    let w := set_wvDac (ch3 s) (0 <? N.land (N.shiftr v 7) 1) in
    set_ch3 s (if wvDac w then w else set_wvEnabled w false)
  else s.
Definition ReadNR30 (s : apu) : N := if wvDac (ch3 s) then 0xff else 0x7f.

Definition WriteNR31 (s : apu) (v : N) : apu := set_ch3 s (set_wvLength (ch3 s) (sub16 256 v)).
Definition ReadNR31 (s : apu) : N := 0xff.

Definition WriteNR32 (s : apu) (v : N) : apu :=
  if ctOn (ctl s) then set_ch3 s (set_wvOutLevel (ch3 s) (N.land (N.shiftr v 5) 3)) else s.
Definition ReadNR32 (s : apu) : N := N.lor 0x9f (shl8 (wvOutLevel (ch3 s)) 5).

Definition WriteNR33 (s : apu) (v : N) : apu :=
  if ctOn (ctl s) then
    let w := ch3 s in set_ch3 s (set_wvFreq w (N.lor (N.land (wvFreq w) 0xff00) v))
  else s.
Definition ReadNR33 (s : apu) : N := 0xff.

Definition WriteNR34 (s : apu) (v : N) : apu :=
  if ctOn (ctl s) then
    let w := ch3 s in
    let w := set_wvFreq w (N.lor (N.land (wvFreq w) 0x00ff) (N.shiftl (N.land v 7) 8)) in
    let trigger := 0 <? N.land (N.shiftr v 7) 1 in
    let lenEn := 0 <? N.land (N.shiftr v 6) 1 in
    let w := wv_extra_len w lenEn trigger (odd_seq s) in
    let w := if trigger then wv_trig_len (wv_trigger w) lenEn (odd_seq s) else w in
    set_ch3 s (set_wvLenEn w lenEn)
  else s.
Definition ReadNR34 (s : apu) : N := if wvLenEn (ch3 s) then 0xff else 0xbf.

Definition WriteNR41 (s : apu) (v : N) : apu := set_ch4 s (set_nsLength (ch4 s) (sub8 64 (N.land v 0x3f))).
Definition ReadNR41 (s : apu) : N := 0xff.

Definition WriteNR42 (s : apu) (v : N) : apu :=
  if ctOn (ctl s) then
    let n := ch4 s in
    let n := set_nsInitVol n (N.shiftr v 4) in
    let n := set_nsEnvInc n (0 <? N.land (N.shiftr v 3) 1) in
    let n := set_nsEnvSweep n (N.land v 7) in
    let n := set_nsDac n ((0 <? nsInitVol n) || nsEnvInc n) in
    set_ch4 s (if nsDac n then n else set_nsEnabled n false)
  else s.
Definition ReadNR42 (s : apu) : N :=
  let n := ch4 s in
  let x := N.lor (shl8 (nsInitVol n) 4) (nsEnvSweep n) in
  if nsEnvInc n then add8 x 8 else x.

Definition WriteNR43 (s : apu) (v : N) : apu :=
  if ctOn (ctl s) then
    let n := ch4 s in
    set_ch4 s (set_nsDivisor (set_nsWidth (set_nsShift n (N.shiftr v 4)) (N.land (N.shiftr v 3) 1)) (N.land v 7))
  else s.
Definition ReadNR43 (s : apu) : N :=
  let n := ch4 s in N.lor (N.lor (shl8 (nsShift n) 4) (shl8 (nsWidth n) 3)) (nsDivisor n).

Definition WriteNR44 (s : apu) (v : N) : apu :=
  if ctOn (ctl s) then
    let n := ch4 s in
    let trigger := 0 <? N.land (N.shiftr v 7) 1 in
    let lenEn := 0 <? N.land (N.shiftr v 6) 1 in
    let n := ns_extra_len n lenEn trigger (odd_seq s) in
    let n := if trigger then ns_trig_len (ns_trigger n) lenEn (odd_seq s) else n in
    set_ch4 s (set_nsLenEn n lenEn)
  else s.
Definition ReadNR44 (s : apu) : N := if nsLenEn (ch4 s) then 0xff else 0xbf.

Definition WriteNR50 (s : apu) (v : N) : apu :=
  if ctOn (ctl s) then
    let c := ctl s in
    let c := set_ctVinL c (0 <? N.land (N.shiftr v 7) 1) in
    let c := set_ctVolL c (N.land (N.shiftr v 4) 7) in
    let c := set_ctVinR c (0 <? N.land (N.shiftr v 3) 1) in
    set_ctl s (set_ctVolR c (N.land v 7))
  else s.
Definition ReadNR50 (s : apu) : N :=
  let c := ctl s in
  let x := N.lor (shl8 (ctVolL c) 4) (ctVolR c) in
  let x := if ctVinL c then add8 x 0x80 else x in
  if ctVinR c then add8 x 0x08 else x.

Definition WriteNR51 (s : apu) (v : N) : apu :=
  if ctOn (ctl s) then
    let c := ctl s in
    let c := set_ct4L c (0 <? N.land v 0x80) in
    let c := set_ct3L c (0 <? N.land v 0x40) in
    let c := set_ct2L c (0 <? N.land v 0x20) in
    let c := set_ct1L c (0 <? N.land v 0x10) in
    let c := set_ct4R c (0 <? N.land v 0x08) in
    let c := set_ct3R c (0 <? N.land v 0x04) in
    let c := set_ct2R c (0 <? N.land v 0x02) in
    set_ctl s (set_ct1R c (0 <? N.land v 0x01))
  else s.
Definition ReadNR51 (s : apu) : N :=
  let c := ctl s in
  (if ct4L c then 0x80 else 0) + (if ct3L c then 0x40 else 0) + (if ct2L c then 0x20 else 0) +
  (if ct1L c then 0x10 else 0) + (if ct4R c then 0x08 else 0) + (if ct3R c then 0x04 else 0) +
  (if ct2R c then 0x02 else 0) + (if ct1R c then 0x01 else 0).

Definition set_on (s : apu) (b : bool) : apu := set_ctl s (set_ctOn (ctl s) b).

Definition WriteNR52 (s : apu) (v : N) : apu :=
  if N.shiftr v 7 =? 0 then
    let s := set_on s true in
    let s := WriteNR10 s 0 in
    let s := WriteNR12 s 0 in
    let s := WriteNR13 s 0 in
    let s := WriteNR14 s 0 in
    let s := WriteNR22 s 0 in
    let s := WriteNR23 s 0 in
    let s := WriteNR24 s 0 in
    let s := WriteNR30 s 0 in
    let s := WriteNR32 s 0 in
    let s := WriteNR33 s 0 in
    let s := WriteNR34 s 0 in
    let s := WriteNR42 s 0 in
    let s := WriteNR43 s 0 in
    let s := WriteNR44 s 0 in
    let s := WriteNR50 s 0 in
    let s := WriteNR51 s 0 in
    let s := set_ch1 s (set_sqDuty (ch1 s) 0) in
    let s := set_ch2 s (set_sqDuty (ch2 s) 0) in
    set_on s false
  else
    let s := if ctOn (ctl s) then s else set_fseq s 0 in
    set_on s true.

Definition ReadNR52 (s : apu) : N :=
  0x70 + (if ctOn (ctl s) then 0x80 else 0) + (if nsEnabled (ch4 s) then 0x08 else 0) +
  (if wvEnabled (ch3 s) then 0x04 else 0) + (if sqEnabled (ch2 s) then 0x02 else 0) +
  (if sqEnabled (ch1 s) then 0x01 else 0).

(* wave RAM; [i] is the index the Go code uses (addr - 0xff30 in uint16, or lastAccessed) *)
Definition wave_index (s : apu) (addr : N) : N :=
  if wvEnabled (ch3 s) then wvLastAcc (ch3 s) else sub16 addr 0xff30.

Definition WriteWaveRAM (s : apu) (addr v : N) : apu :=
  let w := ch3 s in
  if wvEnabled w then
    if wvSampleTimer w <? 4 then set_ch3 s (set_wvRam w (Mem.set (wvRam w) (wvLastAcc w) v)) else s
  else set_ch3 s (set_wvRam w (Mem.set (wvRam w) (sub16 addr 0xff30) v)).

Definition ReadWaveRAM (s : apu) (addr : N) : N :=
  let w := ch3 s in
  if wvEnabled w then
    if wvSampleTimer w <? 4 then Mem.get (wvRam w) (wvLastAcc w) else 0xff
  else Mem.get (wvRam w) (sub16 addr 0xff30).

(* ------------------------------------------------------------------------------------------------- *)
(* audio.New *)

Definition sweep_zero : sweep := mkSweep 0 false 0 false false 0 0.
Definition square_zero : square := mkSquare 0 0 0 false 0 0 false false false 0 0 0 0 false.
Definition wave_zero : wave :=
  mkWave 0 0 0 false (ram_of_list wave_init_ram 0 (Mem.empty 0)) false false 0 0 0 0 0 0 false.
Definition noise_zero : noise := mkNoise 0 0 false 0 0 0 0 false false false 0 0 0 0 false.
Definition control_zero : control :=
  mkControl false false false false false false false false false false 0 false 0.

Definition apu_zero (att : bool) : apu :=
  mkApu att square_zero sweep_zero square_zero wave_zero noise_zero control_zero 1 0.

Definition apu_new (att : bool) : apu :=
  let s := apu_zero att in
  let s := WriteNR10 s 0x80 in
  let s := WriteNR11 s 0xbf in
  let s := WriteNR12 s 0xf3 in
  let s := WriteNR13 s 0xff in
  let s := WriteNR14 s 0xbf in
  let s := WriteNR21 s 0x3f in
  let s := WriteNR23 s 0xff in
  let s := WriteNR24 s 0xbf in
  let s := WriteNR30 s 0x7f in
  let s := WriteNR31 s 0xff in
  let s := WriteNR32 s 0x9f in
  let s := WriteNR33 s 0xff in
  let s := WriteNR34 s 0xbf in
  let s := WriteNR41 s 0xff in
  let s := WriteNR44 s 0xbf in
  let s := WriteNR50 s 0x77 in
  let s := WriteNR51 s 0xf3 in
  WriteNR52 s 0xf1.

(* the state after audio.New(l, r) with both outputs present *)
Definition apu_init : apu := apu_new true.

(* ------------------------------------------------------------------------------------------------- *)
(* mapper.go: routing of FF10-FF3F (addresses outside that range are not the APU's) *)

(* Mapper.Read / Mapper.Write are a Go "switch { case addr == NR10: ... }": sequential tests in source order *)
Definition apu_bus_read (s : apu) (a : N) : N :=
  if a =? 0xFF10 then ReadNR10 s else
  if a =? 0xFF11 then ReadNR11 s else
  if a =? 0xFF12 then ReadNR12 s else
  if a =? 0xFF13 then ReadNR13 s else
  if a =? 0xFF14 then ReadNR14 s else
  if a =? 0xFF16 then ReadNR21 s else
  if a =? 0xFF17 then ReadNR22 s else
  if a =? 0xFF18 then ReadNR23 s else
  if a =? 0xFF19 then ReadNR24 s else
  if a =? 0xFF1A then ReadNR30 s else
  if a =? 0xFF1B then ReadNR31 s else
  if a =? 0xFF1C then ReadNR32 s else
  if a =? 0xFF1D then ReadNR33 s else
  if a =? 0xFF1E then ReadNR34 s else
  if a =? 0xFF20 then ReadNR41 s else
  if a =? 0xFF21 then ReadNR42 s else
  if a =? 0xFF22 then ReadNR43 s else
  if a =? 0xFF23 then ReadNR44 s else
  if a =? 0xFF24 then ReadNR50 s else
  if a =? 0xFF25 then ReadNR51 s else
  if a =? 0xFF26 then ReadNR52 s else
  if a <? 0xFF30 then 0xff else if a <? 0xFF40 then ReadWaveRAM s a else 0xff.

Definition apu_bus_write (s : apu) (a v : N) : apu :=
  if a =? 0xFF10 then WriteNR10 s v else
  if a =? 0xFF11 then WriteNR11 s v else
  if a =? 0xFF12 then WriteNR12 s v else
  if a =? 0xFF13 then WriteNR13 s v else
  if a =? 0xFF14 then WriteNR14 s v else
  if a =? 0xFF16 then WriteNR21 s v else
  if a =? 0xFF17 then WriteNR22 s v else
  if a =? 0xFF18 then WriteNR23 s v else
  if a =? 0xFF19 then WriteNR24 s v else
  if a =? 0xFF1A then WriteNR30 s v else
  if a =? 0xFF1B then WriteNR31 s v else
  if a =? 0xFF1C then WriteNR32 s v else
  if a =? 0xFF1D then WriteNR33 s v else
  if a =? 0xFF1E then WriteNR34 s v else
  if a =? 0xFF20 then WriteNR41 s v else
  if a =? 0xFF21 then WriteNR42 s v else
  if a =? 0xFF22 then WriteNR43 s v else
  if a =? 0xFF23 then WriteNR44 s v else
  if a =? 0xFF24 then WriteNR50 s v else
  if a =? 0xFF25 then WriteNR51 s v else
  if a =? 0xFF26 then WriteNR52 s v else
  if a <? 0xFF30 then s else if a <? 0xFF40 then WriteWaveRAM s a v else s.

(* the register-level API for the system model: identical to the routed functions on FF10-FF3F *)
Definition apu_read : apu -> N -> N := apu_bus_read.
Definition apu_write : apu -> N -> N -> apu := apu_bus_write.

(* ------------------------------------------------------------------------------------------------- *)
(* crash-aware wrappers: the bound checks Go performs implicitly *)

Definition sq_idx_ok (c : square) : bool := (sqDuty c <? 4) && (sqDutyIdx c <? 8).
Definition apu_idx_ok (s : apu) : bool := sq_idx_ok (ch1 s) && sq_idx_ok (ch2 s) && (wvLastAcc (ch3 s) <? 16).

Definition apu_tick_clock_r (s : apu) : res (apu * list sample_pair) :=
  if apu_idx_ok s then Ok (apu_tick_clock s) else Crash CIndex.
Definition apu_end_machine_cycle_r (s : apu) : res (apu * list sample_pair) :=
  if apu_idx_ok s then Ok (apu_end_machine_cycle s) else Crash CIndex.
Definition apu_bus_read_r (s : apu) (a : N) : res N :=
  if (0xFF30 <=? a) && (a <? 0xFF40) && negb (wave_index s a <? 16) then Crash CIndex else Ok (apu_bus_read s a).
Definition apu_bus_write_r (s : apu) (a v : N) : res apu :=
  if (0xFF30 <=? a) && (a <? 0xFF40) && negb (wave_index s a <? 16) then Crash CIndex else Ok (apu_bus_write s a v).

(* ------------------------------------------------------------------------------------------------- *)
(* operation histories *)
Inductive apu_op := OWrite (a v : N) | OCycle.

Definition apu_step (s : apu) (o : apu_op) : apu :=
  match o with
  | OWrite a v => apu_bus_write s a v
  | OCycle => fst (apu_end_machine_cycle s)
  end.

Definition apu_run (s : apu) (ops : list apu_op) : apu := fold_left apu_step ops s.

(* n clock cycles (quarter machine cycles), dropping the samples *)
Definition apu_clocks (n : N) (s : apu) : apu := N.iter n (fun s => fst (apu_tick_clock s)) s.

(* ------------------------------------------------------------------------------------------------- *)
(* observation / hook functions used by the runner (mirror gameboy/audio/verif_hooks.go) *)
Definition apu_obs_state (s : apu) : list N :=
  [ ticks s; fseq s; b2n (ctOn (ctl s)); sqDuty (ch1 s); sqDuty (ch2 s); sqDutyIdx (ch1 s); sqDutyIdx (ch2 s);
    sqTimer (ch1 s); sqTimer (ch2 s); wvTimer (ch3 s); nsTimer (ch4 s); wvPosition (ch3 s); nsLfsr (ch4 s);
    sqLength (ch1 s); sqLength (ch2 s); nsLength (ch4 s); wvLength (ch3 s);
    b2n (sqEnabled (ch1 s)); b2n (sqEnabled (ch2 s)); b2n (wvEnabled (ch3 s)); b2n (nsEnabled (ch4 s));
    sqVolume (ch1 s); sqVolume (ch2 s); nsVolume (ch4 s); sqFreq (ch1 s); sqFreq (ch2 s); wvFreq (ch3 s) ].

Definition apu_obs_aux (s : apu) : list N :=
  [ swShadow (sw1 s); swTimer (sw1 s); b2n (swEnabled (sw1 s)); b2n (swDescending (sw1 s));
    sqEnvTimer (ch1 s); sqEnvTimer (ch2 s); nsEnvTimer (ch4 s);
    wvSampleBuf (ch3 s); wvLastAcc (ch3 s); wvSampleTimer (ch3 s); wvOutShift (ch3 s);
    b2n (sqTriggered (ch1 s)); b2n (sqTriggered (ch2 s)); b2n (wvTriggered (ch3 s)); b2n (nsTriggered (ch4 s));
    b2n (sqLenEn (ch1 s)); b2n (sqLenEn (ch2 s)); b2n (wvLenEn (ch3 s)); b2n (nsLenEn (ch4 s));
    b2n (sqDac (ch1 s)); b2n (sqDac (ch2 s)); b2n (wvDac (ch3 s)); b2n (nsDac (ch4 s)) ].

(* apu.clk SEL: 1 duty index 1, 2 duty index 2, 4 wave position, 8 LFSR, 16 the four timers, 32 NR52 *)
Definition apu_obs_sel (sel : N) (s : apu) : list N :=
  (if N.testbit sel 0 then [sqDutyIdx (ch1 s)] else []) ++
  (if N.testbit sel 1 then [sqDutyIdx (ch2 s)] else []) ++
  (if N.testbit sel 2 then [wvPosition (ch3 s)] else []) ++
  (if N.testbit sel 3 then [nsLfsr (ch4 s)] else []) ++
  (if N.testbit sel 4 then [sqTimer (ch1 s); sqTimer (ch2 s); wvTimer (ch3 s); nsTimer (ch4 s)] else []) ++
  (if N.testbit sel 5 then [ReadNR52 s] else []).

Definition apu_set_ticks (s : apu) (t f : N) : apu := set_fseq (set_ticks s t) f.
Definition apu_set_lfsr (s : apu) (v : N) : apu := set_ch4 s (set_nsLfsr (ch4 s) v).
Definition apu_noise_timer (s : apu) : N := nsTimer (ch4 s).
Definition apu_noise_lfsr (s : apu) : N := nsLfsr (ch4 s).
