(* Ints.v — executable model of gameboy/interrupts/interrupts.go *)
From V.lib Require Import Bits.

Record ints := mkInts { ime : bool; ie : N; ifl : N (* five request bits *) }.

(* New(): Enable(); WriteIE(0x00); WriteIF(0x01) *)
Definition ints_init : ints := mkInts true 0 1.

Definition ints_write_ie (i : ints) (v : N) : ints := mkInts (ime i) v (ifl i).
Definition ints_read_ie (i : ints) : N := ie i.
Definition ints_write_if (i : ints) (v : N) : ints := mkInts (ime i) (ie i) (N.land v 31).
Definition ints_read_if (i : ints) : N := 224 + ifl i.
Definition ints_set_ime (i : ints) (v : bool) : ints := mkInts v (ie i) (ifl i).
(* RequestX: OR a mask of request bits (1 VBlank, 2 STAT, 4 Timer, 8 Serial, 16 Joypad) into IF *)
Definition ints_request (i : ints) (mask : N) : ints := mkInts (ime i) (ie i) (N.lor (ifl i) (N.land mask 31)).
(* ResetX for bit n *)
Definition ints_ack (i : ints) (n : N) : ints := mkInts (ime i) (ie i) (N.ldiff (ifl i) (N.shiftl 1 n)).
(* bit k set <=> interrupt k enabled and requested *)
Definition ints_pending (i : ints) : N := N.land (N.land (ie i) (ifl i)) 31.
