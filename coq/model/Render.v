(* Render.v — executable model of the pixel renderer of gameboy/ppu:
     render.go   renderPixel, findWindowPixel, findBackgroundPixel, readTilePixel, patterns, grey
     ppu.go      checkOverlappingSprite (the mode-2 object scan, one flag per object)
     registers.go  the LCDC flags and the palette tables written by WriteLCDC / WriteBGP / WriteOBP0 / WriteOBP1
     oam.go      PPURead (index into the 160 OAM bytes; the address of the last call is kept in ppuLastAccess)
   Definitions only.  Go's uint8 / uint16 arithmetic is written out (u8, sub8, add16 ...); where the Go code
   computes in int the model uses unbounded N (no value here reaches 2^63).  Every Go index expression is
   bounds-checked and yields Res.Crash CIndex when out of range.
   The PPU is assumed to be built as gameboy.New does (debug = false: the palette table is always [grey]). *)
From Coq Require Import ZArith.
From V.lib Require Import Bits Mem Res.

(* a colour table, Go type [4]uint8 (bgpColour, obp0Colour, obp1Colour) *)
Record pal := mkPal { c0 : N; c1 : N; c2 : N; c3 : N }.

Record scene := mkScene {
  highWindowTileMap : bool;   (* LCDC bit 6 *)
  windowEnabled : bool;       (* LCDC bit 5 *)
  lowTileData : bool;         (* LCDC bit 4 *)
  highBgTileMap : bool;       (* LCDC bit 3 *)
  spritesLarge : bool;        (* LCDC bit 2 (never read by the renderer) *)
  spritesEnabled : bool;      (* LCDC bit 1 *)
  bgEnabled : bool;           (* LCDC bit 0 *)
  scx : N; scy : N; wx : N; wy : N;
  bgpColour : pal; obp0Colour : pal; obp1Colour : pal;
  vram : Mem.t;               (* videoRAM [0x2000]byte, index = address - 0x8000 *)
  oam : Mem.t                 (* what OAM.PPURead returns for index = address - 0xfe00 (160 bytes); while a DMA
                                 runs PPURead returns 0xff for every address: pass [Mem.empty 255] *)
}.

(* ---- register writes (registers.go) ---- *)
Definition write_bgp (v : N) : pal :=
  mkPal (N.land v 3) (N.land (N.shiftr v 2) 3) (N.land (N.shiftr v 4) 3) (N.land (N.shiftr v 6) 3).
(* WriteOBP0 / WriteOBP1 store all four entries, like WriteBGP (after "fix: OBP0 and OBP1 read back all eight
   bits"); entry 0 is never displayed: colour 0 of an object is transparent *)
Definition write_obp (v : N) : pal :=
  mkPal (N.land v 3) (N.land (N.shiftr v 2) 3) (N.land (N.shiftr v 4) 3) (N.land (N.shiftr v 6) 3).
Definition pal_zero : pal := mkPal 0 0 0 0.

Definition flag (v m : N) : bool := 0 <? N.land v m.

Definition scene_set_lcdc (s : scene) (v : N) : scene :=
  mkScene (flag v 64) (flag v 32) (flag v 16) (flag v 8) (flag v 4) (flag v 2) (flag v 1)
          (scx s) (scy s) (wx s) (wy s) (bgpColour s) (obp0Colour s) (obp1Colour s) (vram s) (oam s).
Definition scene_set_scroll (s : scene) (x y : N) : scene :=
  mkScene (highWindowTileMap s) (windowEnabled s) (lowTileData s) (highBgTileMap s) (spritesLarge s)
          (spritesEnabled s) (bgEnabled s) x y (wx s) (wy s) (bgpColour s) (obp0Colour s) (obp1Colour s)
          (vram s) (oam s).
Definition scene_set_window (s : scene) (x y : N) : scene :=
  mkScene (highWindowTileMap s) (windowEnabled s) (lowTileData s) (highBgTileMap s) (spritesLarge s)
          (spritesEnabled s) (bgEnabled s) (scx s) (scy s) x y (bgpColour s) (obp0Colour s) (obp1Colour s)
          (vram s) (oam s).
Definition scene_set_pals (s : scene) (b p0 p1 : pal) : scene :=
  mkScene (highWindowTileMap s) (windowEnabled s) (lowTileData s) (highBgTileMap s) (spritesLarge s)
          (spritesEnabled s) (bgEnabled s) (scx s) (scy s) (wx s) (wy s) b p0 p1 (vram s) (oam s).
Definition scene_set_vram (s : scene) (a v : N) : scene :=
  mkScene (highWindowTileMap s) (windowEnabled s) (lowTileData s) (highBgTileMap s) (spritesLarge s)
          (spritesEnabled s) (bgEnabled s) (scx s) (scy s) (wx s) (wy s) (bgpColour s) (obp0Colour s)
          (obp1Colour s) (Mem.set (vram s) a v) (oam s).
Definition scene_set_oam (s : scene) (a v : N) : scene :=
  mkScene (highWindowTileMap s) (windowEnabled s) (lowTileData s) (highBgTileMap s) (spritesLarge s)
          (spritesEnabled s) (bgEnabled s) (scx s) (scy s) (wx s) (wy s) (bgpColour s) (obp0Colour s)
          (obp1Colour s) (vram s) (Mem.set (oam s) a v).

(* all video registers at once, as WriteLCDC (flags only), WriteSCX/SCY/WX/WY, WriteBGP/OBP0/OBP1 store them
   (entry 0 of the object palettes is never written: it keeps the zero of the fresh PPU) *)
Definition scene_set_regs (s : scene) (lcdc sx sy wx_ wy_ bgp obp0 obp1 : N) : scene :=
  scene_set_pals (scene_set_window (scene_set_scroll (scene_set_lcdc s lcdc) sx sy) wx_ wy_)
                 (write_bgp bgp) (write_obp obp0) (write_obp obp1).

(* the registers as ppu.New leaves them (LCDC 0x91, BGP 0xFC, OBP0 = OBP1 = 0xFF), memories zeroed *)
Definition scene_init : scene :=
  scene_set_lcdc
    (mkScene false false false false false false false 0 0 0 0
             (write_bgp 252) (write_obp 255) (write_obp 255) (Mem.empty 0) (Mem.empty 0))
    145.

(* ---- checked indexing ---- *)
Definition pal_get (p : pal) (i : N) : res N :=
  match i with
  | 0 => Ok (c0 p) | 1 => Ok (c1 p) | 2 => Ok (c2 p) | 3 => Ok (c3 p)
  | _ => Crash CIndex
  end.

(* ppu.videoRAM[i] *)
Definition vram_at (s : scene) (i : N) : res N :=
  if i <? 8192 then Ok (Mem.get (vram s) i) else Crash CIndex.

(* oam.PPURead(addr): m.oam[addr-0xfe00] in uint16 *)
Definition oam_at (s : scene) (addr : N) : res N :=
  let i := sub16 addr 65024 in
  if i <? 160 then Ok (Mem.get (oam s) i) else Crash CIndex.

(* patterns[i] *)
Definition patterns : list N := [128; 64; 32; 16; 8; 4; 2; 1].
Definition pattern_at (i : N) : res N :=
  match nth_error patterns (N.to_nat i) with Some p => Ok p | None => Crash CIndex end.

(* grey[i]: the frame receives grey[i]; the model returns the index i of the shade
   (0 = FFFFFF, 1 = AAAAAA, 2 = 777777, 3 = 333333) *)
Definition grey_at (i : N) : res N := if i <? 4 then Ok i else Crash CIndex.

(* ---- ppu.go: checkOverlappingSprite ---- *)
(* sprite is a uint8, sprite*4 is computed in uint8; the call sites pass lx*2 and lx*2+1 for the 20 machine
   cycles of mode 2, i.e. the literal range 0..39, so the OAM index 4*sprite is at most 156 *)
Definition overlap_flag (s : scene) (ly sprite : N) : bool :=
  let startY := Mem.get (oam s) (u16 (u8 (sprite * 4))) in
  (* line := int(ppu.ly); line+16 >= int(startY) && line+8 < int(startY) *)
  (startY <=? ly + 16) && (ly + 8 <? startY).

Definition overlaps_for_line (s : scene) (ly : N) : list bool :=
  map (overlap_flag s ly) (upto 40).

(* ---- render.go: readTilePixel(tileNumber int, tileOffsetX, tileOffsetY uint8) ---- *)
Definition read_tile_pixel (s : scene) (tileNumber ox oy : N) : res N :=
  let startAddr := tileNumber * 16 in
  do a <- vram_at s (startAddr + u8 (oy * 2));
  do b <- vram_at s (startAddr + u8 (oy * 2) + 1);
  do p <- pattern_at ox;
  let aset := 0 <? N.land a p in
  let bset := 0 <? N.land b p in
  Ok (match aset, bset with
      | false, false => 0
      | true, false => 1
      | false, true => 2
      | true, true => 3
      end).

(* shared tail of findWindowPixel / findBackgroundPixel: x and y are the uint8 coordinates inside the map *)
Definition map_pixel (s : scene) (high : bool) (x y : N) : res N :=
  let tileX := x / 8 in
  let tileY := y / 8 in
  let tileOffsetX := x mod 8 in
  let tileOffsetY := y mod 8 in
  let offsetAddr := if high then 7168 else 6144 in
  let tileAddr := add16 (u16 (32 * tileY)) tileX in
  do tileByte <- vram_at s (add16 offsetAddr tileAddr);
  (* tileNumber = int(tileByte)  or  256 + int(int8(tileByte)) *)
  let tileNumber := if lowTileData s then tileByte else Z.to_N (256 + s8 tileByte) in
  read_tile_pixel s tileNumber tileOffsetX tileOffsetY.

Definition find_window_pixel (s : scene) (x y : N) : res N :=
  map_pixel s (highWindowTileMap s) x y.

Definition find_background_pixel (s : scene) (x y : N) : res N :=
  map_pixel s (highBgTileMap s) (u8 (x + scx s)) (u8 (y + scy s)).

(* ---- render.go: the object loop of renderPixel ---- *)
Record sstate := mkSS {
  spritePixel : N;
  spriteBehindBackground : bool;
  useSpritePalette1 : bool;
  reads : list N               (* addresses passed to PPURead so far, most recent first *)
}.

Definition ss_init : sstate := mkSS 0 false false [].

(* the pixel of an object whose columns contain x: tile offsets in uint8, flips, tile lookup *)
Definition sprite_tile_pixel (s : scene) (x y spriteX spriteY tileNumber attributes : N) : res N :=
  let ox := (sub8 x spriteX) mod 8 in
  let oy := (sub8 y spriteY) mod 8 in
  let ox' := if flag attributes 32 then sub8 7 ox else ox in
  let oy' := if flag attributes 64 then sub8 7 oy else oy in
  read_tile_pixel s tileNumber ox' oy'.

Fixpoint sprite_scan (s : scene) (x y : N) (l : list (N * bool)) (st : sstate) : res sstate :=
  match l with
  | [] => Ok st
  | (sprite, overlaps) :: tl =>
      if negb overlaps then sprite_scan s x y tl st
      else
        let spriteAddr := add16 65024 (u16 (sprite * 4)) in
        do spriteX <- oam_at s (add16 spriteAddr 1);
        if (spriteX <=? u8 (x + 8)) && (x <? spriteX) then
          do spriteY <- oam_at s spriteAddr;
          do tileNumber <- oam_at s (add16 spriteAddr 2);
          do attributes <- oam_at s (add16 spriteAddr 3);
          do p <- sprite_tile_pixel s x y spriteX spriteY tileNumber attributes;
          let st' := mkSS p (flag attributes 128) (flag attributes 16)
                          (add16 spriteAddr 3 :: add16 spriteAddr 2 :: spriteAddr :: add16 spriteAddr 1
                           :: reads st) in
          if 0 <? p then Ok st' else sprite_scan s x y tl st'
        else
          sprite_scan s x y tl
            (mkSS (spritePixel st) (spriteBehindBackground st) (useSpritePalette1 st)
                  (add16 spriteAddr 1 :: reads st))
  end.

(* for sprite, overlaps := range ppu.spriteOverlaps: the array has 40 entries *)
Definition sprite_list (ov : list bool) : list (N * bool) := combine (upto 40) ov.

Definition obj_shade (s : scene) (st : sstate) : res N :=
  do c <- pal_get (if useSpritePalette1 st then obp1Colour s else obp0Colour s) (spritePixel st);
  grey_at c.

(* renderPixel(x, y uint8): the shade index written to the frame at (x, y) and the final object-loop state *)
Definition render_pixel_full (s : scene) (ov : list bool) (x y : N) : res (N * sstate) :=
  do st <- (if spritesEnabled s then sprite_scan s x y (sprite_list ov) ss_init else Ok ss_init);
  if spritesEnabled s && (0 <? spritePixel st) && negb (spriteBehindBackground st) then
    do g <- obj_shade s st; Ok (g, st)
  else
    let inWindow :=
      windowEnabled s && (wx s <=? 166) && (wy s <=? 143) && (sub8 (wx s) 7 <=? x) && (wy s <=? y) in
    do pixel <- (if inWindow then find_window_pixel s (sub8 x (sub8 (wx s) 7)) (sub8 y (wy s))
                 else if bgEnabled s then find_background_pixel s x y
                 else Ok 0);
    if (pixel =? 0) && negb (spritePixel st =? 0) && spriteBehindBackground st then
      do g <- obj_shade s st; Ok (g, st)
    else
      do c <- pal_get (bgpColour s) pixel;
      do g <- grey_at c; Ok (g, st).

Definition render_pixel (s : scene) (ov : list bool) (x y : N) : res N :=
  do r <- render_pixel_full s ov x y; Ok (fst r).

(* OAM addresses read through PPURead while rendering the pixel, in order *)
Definition render_pixel_oam_reads (s : scene) (ov : list bool) (x y : N) : res (list N) :=
  do r <- render_pixel_full s ov x y; Ok (rev (reads (snd r))).

(* the address left in OAM.ppuLastAccess by the pixel ([None]: no PPURead, ppuLastAccess keeps its value) *)
Definition render_pixel_last_access (s : scene) (ov : list bool) (x y : N) : res (option N) :=
  do r <- render_pixel_full s ov x y; Ok (hd_error (reads (snd r))).

(* ---- a frame as a sequence of renderer calls (what EndMachineCycle asks of the renderer) ---- *)
Inductive call :=
| Scan (ly sprite : N)          (* checkOverlappingSprite(sprite) with ppu.ly = ly *)
| Draw (x y : N).               (* renderPixel(x, y) *)

Record rstate := mkRS {
  flags : list bool;            (* spriteOverlaps [40]bool *)
  frame : Mem.t;                (* shade index per pixel, address 160*y + x *)
  lastAccess : N                (* OAM.ppuLastAccess *)
}.

Fixpoint set_nth {A} (l : list A) (n : nat) (v : A) : list A :=
  match l, n with
  | [], _ => []
  | _ :: tl, O => v :: tl
  | h :: tl, S k => h :: set_nth tl k v
  end.

Definition run_call (s : scene) (r : rstate) (c : call) : res rstate :=
  match c with
  | Scan ly sprite =>
      if sprite <? 40 then
        Ok (mkRS (set_nth (flags r) (N.to_nat sprite) (overlap_flag s ly sprite)) (frame r)
                 (add16 65024 (u16 (u8 (sprite * 4)))))
      else Crash CIndex
  | Draw x y =>
      do p <- render_pixel_full s (flags r) x y;
      Ok (mkRS (flags r) (Mem.set (frame r) (160 * y + x) (fst p))
               (match hd_error (reads (snd p)) with Some a => a | None => lastAccess r end))
  end.

Fixpoint run_calls (s : scene) (r : rstate) (cs : list call) : res rstate :=
  match cs with
  | [] => Ok r
  | c :: tl => do r' <- run_call s r c; run_calls s r' tl
  end.

(* the renderer calls of machine cycle t (0..113) of displayed line ly, as EndMachineCycle issues them when the
   line timing is the one of property C13 (mode 2 during cycles 0-19, mode 3 during cycles 20-60):
   cycles 0-19 scan objects 2t and 2t+1 with the current line number; cycles 20-60 compute
   lx = (t-20)*4 in uint8 and draw lx .. lx+3 when lx < 160 *)
Definition tick_calls (ly t : N) : list call :=
  if t <? 20 then [Scan ly (u8 (t * 2)); Scan ly (u8 (u8 (t * 2) + 1))]
  else if t <? 61 then
    let lx := u8 (sub8 t 20 * 4) in
    if lx <? 160 then [Draw lx ly; Draw (u8 (lx + 1)) ly; Draw (u8 (lx + 2)) ly; Draw (u8 (lx + 3)) ly]
    else []
  else [].
Definition line_calls (ly : N) : list call := flat_map (tick_calls ly) (upto 114).
Definition frame_calls : list call := flat_map line_calls (upto 144).

Definition rs_pixel (r : rstate) (x y : N) : N := Mem.get (frame r) (160 * y + x).
Definition rs_last (r : rstate) : N := lastAccess r.

Definition rstate_init : rstate := mkRS (repeat false 40) (Mem.empty 0) 0.
