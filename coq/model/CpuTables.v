(* CpuTables.v — the opcode tables regenerated from gameboy/cpu/dispatch.go, packaged for the CPU model *)
From V.model Require Import Uop Cpu.
From V.gen Require Import GenDispatch.

Definition gen_tables : tables :=
  mkTables normal_table prefix_table early_table veryShortInterrupt shortInterrupt longInterrupt.
