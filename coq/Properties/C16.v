(* C16 — an OAM DMA transfer copies 160 bytes and blocks OAM meanwhile.
   Only statements, each closed by [exact] of a lemma proved in proofs/, with Print Assumptions.

   [oam_write_dma o xx] is the write of xx to FF46 in ANY state o of the OAM component (idle, or in the
   middle of another transfer).  [dma_run rd t0 n o] runs n machine cycles of the DMA engine (TickDMA); during
   cycle number t (t = t0, t0+1, ...) the bus read function is [rd t], so the source may change between any
   two cycles; rd is universally quantified.  [dma_result rd t0 xx i] = rd (t0+i+1) (source xx + i): the
   source byte i as it is during the (i+2)-th cycle, with source xx = xx*256, minus 0x2000 for xx >= 0xE0. *)
From V.lib Require Import Bits Mem Res.
From V.model Require Import Oam.
From V.spec Require Import DmaSpec.
From V.proofs Require Import DmaProofs.

(* Writing XX (00-F1) and letting 162 cycles pass: the transfer is over, OAM byte i (all i < 160) holds source
   byte i as it was when copied, the 160 bytes are the only thing that changed, FF46 reads XX. *)
Theorem C16_copy : forall (rd : N -> N -> N) (t0 xx : N) (o : oam),
  xx <= 0xF1 ->
  exists o', dma_run rd t0 dma_cycles (oam_write_dma o xx) = Ok o'
    /\ o_dmaRunning o' = false
    /\ (forall i, i < 160 -> Mem.get (o_mem o') i = dma_result rd t0 xx i)
    /\ (forall i, 160 <= i -> Mem.get (o_mem o') i = Mem.get (o_mem o) i)
    /\ o_corrupt o' = o_corrupt o /\ o_ppuLastAccess o' = o_ppuLastAccess o
    /\ o_read o' = o_read o /\ o_write o' = o_write o /\ o_doubleWrite o' = o_doubleWrite o
    /\ oam_read_dma o' = xx.
Proof. intros rd t0 xx o H. apply dma_copy. change 0xF1 with 241 in H. lia. Qed.
Print Assumptions C16_copy.

(* the same holds for every byte value (pages F2-FF are read through the mirror as well) *)
Theorem C16_copy_any_page : forall (rd : N -> N -> N) (t0 xx : N) (o : oam),
  xx < 256 ->
  exists o', dma_run rd t0 dma_cycles (oam_write_dma o xx) = Ok o'
    /\ o_dmaRunning o' = false
    /\ (forall i, i < 160 -> Mem.get (o_mem o') i = dma_result rd t0 xx i)
    /\ (forall i, 160 <= i -> Mem.get (o_mem o') i = Mem.get (o_mem o) i)
    /\ o_corrupt o' = o_corrupt o /\ o_ppuLastAccess o' = o_ppuLastAccess o
    /\ o_read o' = o_read o /\ o_write o' = o_write o /\ o_doubleWrite o' = o_doubleWrite o
    /\ oam_read_dma o' = xx.
Proof. exact dma_copy. Qed.
Print Assumptions C16_copy_any_page.

(* While the copy runs — after every number n < 162 of cycles — Read returns 0xFF for every address (FE00-FEFF
   is what the decoder passes) and does not touch the state. *)
Theorem C16_blocked : forall (rd : N -> N -> N) (t0 xx n : N) (o : oam),
  xx < 256 -> n < dma_cycles ->
  exists o', dma_run rd t0 n (oam_write_dma o xx) = Ok o'
    /\ o_dmaRunning o' = true /\ o_dmaCycle o' = n
    /\ forall a, oam_read o' a = Ok (o', 255).
Proof. exact dma_blocked. Qed.
Print Assumptions C16_blocked.

(* ... and afterwards the CPU reads the copied bytes at FE00+i (outside mode 2). *)
Theorem C16_readable_after : forall (rd : N -> N -> N) (t0 xx : N) (o : oam),
  xx < 256 -> o_corrupt o = false ->
  exists o', dma_run rd t0 dma_cycles (oam_write_dma o xx) = Ok o'
    /\ forall i, i < 160 -> oam_read o' (0xFE00 + i) = Ok (o', dma_result rd t0 xx i).
Proof. exact dma_then_read. Qed.
Print Assumptions C16_readable_after.

(* A second write n1 cycles after a first one, for EVERY n1 (before, at, or after the end of the first
   transfer): progress is reset, the engine runs and blocks for the next 162 cycles, and the final contents are
   those of the last transfer alone.  (By C16_copy's quantification over o this extends to any number of
   restarts.) *)
Theorem C16_restart : forall (rd : N -> N -> N) (t0 xx1 xx2 n1 : N) (o : oam),
  xx2 < 256 ->
  exists o1, dma_run rd t0 n1 (oam_write_dma o xx1) = Ok o1
    /\ o_dmaCycle (oam_write_dma o1 xx2) = 0 /\ o_dmaRunning (oam_write_dma o1 xx2) = true
    /\ (forall n2, n2 < dma_cycles ->
          exists o2, dma_run rd (t0 + n1) n2 (oam_write_dma o1 xx2) = Ok o2
                     /\ o_dmaRunning o2 = true /\ o_dmaCycle o2 = n2
                     /\ forall a, oam_read o2 a = Ok (o2, 255))
    /\ exists o3, dma_run rd (t0 + n1) dma_cycles (oam_write_dma o1 xx2) = Ok o3
                  /\ o_dmaRunning o3 = false
                  /\ forall i, i < 160 -> Mem.get (o_mem o3) i = dma_result rd (t0 + n1) xx2 i.
Proof. exact dma_restart. Qed.
Print Assumptions C16_restart.

(* The engine never crashes: from any state in which a running transfer has not passed its last cycle (true
   of the initial state and preserved by writes to FF46 and by ticks), any number of ticks is safe. *)
Theorem C16_never_crashes : forall (rd : N -> N -> N) (t0 n : N) (o : oam),
  dma_ok o -> exists o', dma_run rd t0 n o = Ok o' /\ dma_ok o'.
Proof. exact dma_run_safe. Qed.
Print Assumptions C16_never_crashes.

(* FF46 reads back the byte written (C06's clause; repaired defect) *)
Theorem C16_ff46_readback : forall (o : oam) (v : N), oam_read_dma (oam_write_dma o v) = v.
Proof. exact dma_reg_readback. Qed.
Print Assumptions C16_ff46_readback.

(* Non-vacuity: page E5 (mirror of C5), a source that changes every cycle, started in the middle of another
   transfer; byte 7 is the bus value of C507 during cycle t0+8. *)
Example C16_example :
  let rd := fun t a => (a + 3 * t) mod 256 in
  let o := match dma_run rd 0 40 (oam_write_dma oam_init 0x12) with Ok o => o | _ => oam_init end in
  0xE5 <= 0xF1 /\ o_dmaRunning o = true
  /\ dma_source 0xE5 = 0xC500
  /\ match dma_run rd 40 dma_cycles (oam_write_dma o 0xE5) with
     | Ok o' => Mem.get (o_mem o') 7 = (0xC507 + 3 * 48) mod 256 /\ o_dmaRunning o' = false
     | _ => False
     end.
Proof. vm_compute. repeat split; discriminate. Qed.
