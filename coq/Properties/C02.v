(* C02 — every instruction takes its documented number of machine cycles. *)
From V.lib Require Import Bits.
From V.model Require Import Uop Alu Cpu CpuTables.
From V.spec Require Import Sm83Spec.
From V.proofs Require Import AluProofs CpuLemmas CpuProofs CpuTiming.

(* For every bus, every well-formed boundary state and every defined opcode: the number of machine cycles the model
   spends until the next boundary equals the documented count of the instruction decoded by bit fields, the taken /
   not-taken length being chosen from the flags at the boundary (spec_cycles: CALL 6/3, JR 3/2, RET cc 5/2, JP 4/3,
   CB (HL) 4, BIT n,(HL) 3, ...). *)
Theorem C02_cycles :
  forall (B : Type) (brd : B -> N -> B * N) (bwr : B -> N -> N -> B) (btrig : B -> N -> B) (bcorrupt : B -> B)
         (bime : B -> bool) (bset_ime : B -> bool -> B) (bpending : B -> N) (back : B -> N -> B),
    (forall b a, btrig b a = b) -> (forall b, bcorrupt b = b) ->
  forall s b,
    starts gen_tables B bime bpending s b -> wf s -> byte_bus B brd -> defined_at B brd bset_ime s b ->
    N.of_nat (snd (run_instr gen_tables B brd bwr btrig bcorrupt bime bset_ime bpending back s b)) =
    spec_cycles (instr_at B brd bset_ime s b) (rf s).
Proof. exact instr_cycles. Qed.
Print Assumptions C02_cycles.

(* Every conditional entry of the regenerated tables is well formed: "last" is the length of the micro-operation
   list and the early exit lies strictly inside it. *)
Theorem C02_early_exit_wf : early_wf_check = true.
Proof. exact early_exit_wf. Qed.
Print Assumptions C02_early_exit_wf.

(* The repository's own timing table (instruction_metadata.go, regenerated as GenMeta.v) agrees with the opcode tables
   for all 245 + 256 entries: clock cycles / 4 = list length, not-taken count = early-exit index. *)
Theorem C02_metadata_agrees :
  meta_disagreements = [] /\ length V.gen.GenMeta.meta_unprefixed = 245%nat /\ length V.gen.GenMeta.meta_cbprefixed = 256%nat.
Proof. exact metadata_agrees. Qed.
Print Assumptions C02_metadata_agrees.

Theorem C02_table_lengths : table_lengths_ok = true.
Proof. exact table_lengths. Qed.
Print Assumptions C02_table_lengths.

Example C02_examples :
  spec_cycles (decode 205) 0 = 6 (* CALL nn *) /\ spec_cycles (decode 24) 0 = 3 (* JR e *) /\
  spec_cycles (decode 192) 0 = 5 /\ spec_cycles (decode 192) 128 = 2 (* RET NZ taken / not taken *) /\
  spec_cycles (decode_cb 6) 0 = 4 (* RLC (HL) *) /\ spec_cycles (decode_cb 70) 0 = 3 (* BIT 0,(HL) *).
Proof. vm_compute. repeat split. Qed.
