(* C11 (cartridge half) — no cartridge image or bank number can crash the emulator.
   The system half of C11 is built on top of these statements (CartSafe is the invariant to carry). *)
From V.lib Require Import Bits Mem Res.
From V.model Require Import Rtc Cart.
From V.spec Require Import CartSpec.
From V.proofs Require Import CartLemmas CartInv CartRun CartSafe.

(* Loading ANY image (any length, any bytes; img ranges over all length/accessor pairs) either fails during
   construction (a Go panic inside memory.New, allowed by the statement) or yields a cartridge on which every
   history of reads (any address), writes (any address, any byte), clock ticks and RAM dumps runs to the end
   without a crash (index out of range, nil controller, division by zero, explicit panic). *)
Theorem C11_cart_construct_or_safe : forall img : image,
  (exists w, cart_construct img = Crash w) \/
  (exists c0, cart_construct img = Ok c0 /\
     forall ops : list cop, Forall wf_op ops -> exists c, cart_run c0 ops = Ok c).
Proof. exact construct_or_safe. Qed.
Print Assumptions C11_cart_construct_or_safe.

(* The invariant and its step lemmas, for composition into the system invariant. *)
Theorem C11_cart_construct_safe : forall img c0, cart_construct img = Ok c0 -> CartSafe c0.
Proof. exact construct_safe. Qed.
Print Assumptions C11_cart_construct_safe.

Theorem C11_cart_read_safe : forall c a, CartSafe c -> exists v, cart_read c a = Ok v.
Proof. exact read_safe. Qed.
Print Assumptions C11_cart_read_safe.

Theorem C11_cart_write_safe : forall c a v, CartSafe c -> v < 256 ->
  exists c', cart_write c a v = Ok c' /\ CartSafe c' /\ same_frame c c'.
Proof. exact write_safe. Qed.
Print Assumptions C11_cart_write_safe.

Theorem C11_cart_tick_safe : forall c, CartSafe c -> CartSafe (cart_tick c).
Proof. exact tick_safe. Qed.
Print Assumptions C11_cart_tick_safe.

Theorem C11_cart_advance_safe : forall c n, CartSafe c -> CartSafe (cart_advance c n).
Proof. exact advance_safe. Qed.
Print Assumptions C11_cart_advance_safe.

(* Non-vacuity: both alternatives occur. *)
Example C11_cart_example_fail :
  exists w, cart_construct (mkImage 100 (fun _ => 0)) = Crash w.
Proof. eexists. vm_compute. reflexivity. Qed.

Example C11_cart_example_ok :
  exists c0, cart_construct (mkImage 32768 (fun a => if a =? 327 then 19 else if a =? 329 then 3 else 0)) = Ok c0 /\
             exists c, cart_run c0 [CWrite 0 10; CWrite 16384 7; CWrite 40960 1; CRead 40960; CWrite 16384 15;
                                    CRead 40960; CWrite 8192 127; CRead 16384; CTick 3; CDump] = Ok c.
Proof. eexists. split; [vm_compute; reflexivity|]. eexists. vm_compute. reflexivity. Qed.
