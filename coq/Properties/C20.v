(* C20 — the audio sample stream is paced, routed and bounded.
   Only statements, each closed by [exact] of a lemma proved in proofs/, with Print Assumptions.

   Vocabulary: [apu_tick_clock s] returns the next state and the list of stereo pairs emitted by that clock (each
   pair = (left, right) numerators over 6400: the exact rational value of the float32 sample the Go code sends,
   see design/C20.md); [emits s] = the clock executed in state s sends a pair; [pace_inv on att s] = well-formed
   sample clock, power flag = on, outputs attached = att; [phase s] = clocks consumed in the current second;
   [sample_due], [pairs_upto], [pairs_between], [q_mix] are the closed forms of ApuSpec part 3;
   [run_pairs l s] / [hist_pairs h s] count the pairs emitted along a run / a history. *)
From V.lib Require Import Bits Mem Res.
From V.model Require Import Apu.
From V.spec Require Import ApuSpec.
From V.proofs Require ConstsTie.
From V.gen Require GenConsts.
From V.proofs Require Import ApuLemmas ApuStatusProofs ApuFreqProofs ApuLengthProofs ApuSampleProofs.
From Coq Require Import QArith.
Open Scope N_scope.

(* every clock sends exactly one stereo pair (one left and one right value) or nothing, in every state *)
Theorem C20_one_pair_or_none : forall s : apu,
  length (snd (apu_tick_clock s)) = if emits s then 1%nat else 0%nat.
Proof. exact tick_emits. Qed.
Print Assumptions C20_one_pair_or_none.

(* instants: with sound on and outputs attached, the clock after n earlier ones sends a pair iff one is due:
   ((phase + n) mod 4194304 + 1) mod 95 = 0 *)
Theorem C20_instants : forall (s : apu) (l : list uop),
  pace_inv true true s -> emits (fold_left exec_u l s) = sample_due (phase s) (n_ticks l + 1).
Proof. exact emits_closed. Qed.
Print Assumptions C20_instants.

(* count over any run of n clocks (n unbounded): the pairs due between stream positions phase and phase + n,
   i.e. one per 95 clocks, 44150 per 4194304 clocks (the sample clock restarts every 4194304 clocks, which
   stretches one gap per emulated second from 95 to 149 clocks) *)
Theorem C20_count : forall (l : list uop) (s : apu),
  pace_inv true true s -> run_pairs l s = pairs_between (phase s) (n_ticks l).
Proof. exact run_pairs_on. Qed.
Print Assumptions C20_count.

(* the same over whole histories with arbitrary register traffic (everything except NR52) between the cycles *)
Theorem C20_count_history : forall (h : list apu_op) (s : apu),
  pace_inv true true s ->
  Forall (fun o => match o with OWrite a v => a <> 0xFF26 | OCycle => True end) h ->
  hist_pairs h s = pairs_between (phase s) (4 * n_cycles h).
Proof. exact hist_pairs_on. Qed.
Print Assumptions C20_count_history.

(* from audio.New(l, r): the count is (n / 4194304) * 44150 + (n mod 4194304) / 95 for n = 4 * cycles *)
Theorem C20_count_from_new : forall h : list apu_op,
  Forall (fun o => match o with OWrite a v => a <> 0xFF26 | OCycle => True end) h ->
  let n := 4 * n_cycles h in
  hist_pairs h (apu_new true) = n / 4194304 * 44150 + (n mod 4194304) / 95.
Proof. exact pairs_from_new. Qed.
Print Assumptions C20_count_from_new.

(* nothing is sent while sound is off or an output is missing *)
Theorem C20_none_when_off_or_detached : forall (l : list uop) (on att : bool) (s : apu),
  pace_inv on att s -> on && att = false -> run_pairs l s = 0.
Proof. exact run_pairs_silent. Qed.
Print Assumptions C20_none_when_off_or_detached.

(* the value sent is the exact rational mix of the documented per-channel levels *)
Theorem C20_sample_is_mix : forall (b1 b2 b3 b4 : bool) (w1 w2 w3 w4 vol : N),
  (inj (mix b1 b2 b3 b4 w1 w2 w3 w4 vol) / 6400 ==
   q_mix b1 b2 b3 b4 (inj w1 / 120) (inj w2 / 120) (inj w3 / 120) (inj w4 / 120) vol)%Q.
Proof. exact mix_is_q_mix. Qed.
Print Assumptions C20_sample_is_mix.

Theorem C20_channel_levels : forall level volume x : N,
  (inj (15 * (level * volume)) / 120 == q_square level volume)%Q /\ (inj (8 * x) / 120 == q_wave x)%Q.
Proof. intros. split; [apply sq_level_q | apply wv_level_q]. Qed.
Print Assumptions C20_channel_levels.

(* a channel whose status flag is off contributes nothing, whatever its DAC, volume and waveform state are
   (so a channel ended by its length counter or a sweep overflow is silent although its DAC is still on) *)
Theorem C20_disabled_channel_silent : forall (c : square) (w : wave) (n : noise),
  (sqEnabled c = false -> sq_sample c = 0) /\ (wvEnabled w = false -> wv_sample w = 0) /\
  (nsEnabled n = false -> ns_sample n = 0).
Proof. intros c w n. split; [exact (sq_sample_off c)|]. split; [exact (wv_sample_off w) | exact (ns_sample_off n)]. Qed.
Print Assumptions C20_disabled_channel_silent.

(* a side's sample is 0 when no enabled channel is routed to it *)
Theorem C20_routing_zero : forall s : apu,
  ((ct1L (ctl s) = true -> en1 s = false) -> (ct2L (ctl s) = true -> en2 s = false) ->
   (ct3L (ctl s) = true -> en3 s = false) -> (ct4L (ctl s) = true -> en4 s = false) -> left_sample s = 0) /\
  ((ct1R (ctl s) = true -> en1 s = false) -> (ct2R (ctl s) = true -> en2 s = false) ->
   (ct3R (ctl s) = true -> en3 s = false) -> (ct4R (ctl s) = true -> en4 s = false) -> right_sample s = 0).
Proof. intros s. split; [exact (left_zero s) | exact (right_zero s)]. Qed.
Print Assumptions C20_routing_zero.

(* an APU power cycle clears NR50 and NR51: whatever is written or triggered afterwards (except NR50, NR51, NR52)
   and however much time passes, both sides are 0 and NR51 reads 0 - from every state *)
Theorem C20_power_cycle_silent : forall (s : apu) (v_off v_on : N) (h : list apu_op),
  (N.shiftr v_off 7 =? 0) = true -> (N.shiftr v_on 7 =? 0) = false -> Forall keeps_mixer h ->
  let s' := apu_run (apu_bus_write (apu_bus_write s 0xFF26 v_off) 0xFF26 v_on) h in
  mixer_cleared (ctl s') /\ left_sample s' = 0 /\ right_sample s' = 0 /\ apu_bus_read s' 0xFF25 = 0.
Proof. exact power_cycle_silent. Qed.
Print Assumptions C20_power_cycle_silent.

(* non-interference: a side's sample does not depend on channels that are not routed to it *)
Theorem C20_noninterference : forall s s' : apu,
  ctl s = ctl s' ->
  ((ct1L (ctl s) = true -> ch1 s = ch1 s') -> (ct2L (ctl s) = true -> ch2 s = ch2 s') ->
   (ct3L (ctl s) = true -> ch3 s = ch3 s') -> (ct4L (ctl s) = true -> ch4 s = ch4 s') ->
   left_sample s = left_sample s') /\
  ((ct1R (ctl s) = true -> ch1 s = ch1 s') -> (ct2R (ctl s) = true -> ch2 s = ch2 s') ->
   (ct3R (ctl s) = true -> ch3 s = ch3 s') -> (ct4R (ctl s) = true -> ch4 s = ch4 s') ->
   right_sample s = right_sample s').
Proof. intros s s' Hc. split; [exact (left_noninterference s s' Hc) | exact (right_noninterference s s' Hc)]. Qed.
Print Assumptions C20_noninterference.

(* range: every value sent in any state reachable from audio.New by byte writes and machine cycles - at every
   clock, including those inside a machine cycle - is in [0, 1) *)
Theorem C20_range : forall (att : bool) (h : list apu_op) (l : list uop) (x y : N),
  Forall byte_op h ->
  let s := fold_left exec_u l (apu_run (apu_new att) h) in
  In (x, y) (snd (apu_tick_clock s)) ->
  (0 <= inj x / 6400 /\ inj x / 6400 < 1)%Q /\ (0 <= inj y / 6400 /\ inj y / 6400 < 1)%Q.
Proof. exact range_reachable. Qed.
Print Assumptions C20_range.

(* the bound behind it: the numerator never exceeds 5565 of 6400 (0.8695...) *)
Theorem C20_mix_bound : forall (b1 b2 b3 b4 : bool) (w1 w2 w3 w4 vol : N),
  levels_ok w1 w2 w3 w4 vol -> mix b1 b2 b3 b4 w1 w2 w3 w4 vol <= 5565.
Proof. exact mix_bound. Qed.
Print Assumptions C20_mix_bound.

(* Non-vacuity: one emulated second from audio.New sends 44150 pairs; the clock with count 95 sends the first. *)
Example C20_example :
  pairs_between 0 4194304 = 44150 /\ sample_due 0 95 = true /\ sample_due 0 96 = false /\
  pace_inv true true (apu_new true) /\ emits (apu_clocks 94 (apu_new true)) = true.
Proof. vm_compute. repeat split; try reflexivity; discriminate. Qed.

(* the sample period of the model is the constant regenerated from audio.go on this run *)
Theorem C20_sampler_period_regenerated : V.model.Apu.samplerPeriod = V.gen.GenConsts.samplerPeriod.
Proof. exact (proj2 V.proofs.ConstsTie.apu_periods_tie). Qed.
Print Assumptions C20_sampler_period_regenerated.
