(* C20 — placeholder until the proofs land *)
From V.lib Require Import Bits.
From V.model Require Import Apu.
Theorem C20_stub : apu_idx_ok apu_init = true.
Proof. vm_compute. reflexivity. Qed.
Print Assumptions C20_stub.
