(* C25 — emulator instances in one process are independent. *)
From V.lib Require Import Bits Mem Res.
From V.model Require Import Cpu System.
From V.gen Require Import GenDispatch.
From V.proofs Require Import SysProofs.

(* Several instances = a list of machine states.  Stepping instance i leaves every other instance exactly as it was
   and takes instance i to what a solo step gives - for every schedule of steps, by induction over it.  This product
   model is faithful only if the instances share no state: the obligation on the source is C25_tables_per_instance
   (regenerated from dispatch.go on every run). *)
Theorem C25_independent : forall i l l',
  step_at i l = Ok l' ->
  length l' = length l /\
  (forall j d, j <> i -> nth j l' d = nth j l d) /\
  (forall x, nth_error l i = Some x -> exists y, sys_cycle x = Ok y /\ nth_error l' i = Some y).
Proof. exact instances_independent. Qed.
Print Assumptions C25_independent.

Theorem C25_tables_per_instance : tables_package_level = false.
Proof. exact tables_per_instance. Qed.
