(* C25 — emulator instances in one process are independent. *)
From V.lib Require Import Bits Mem Res.
From V.model Require Import Cpu System.
From V.gen Require Import GenDispatch.
From V.proofs Require Import SysProofs.

(* Several instances = a list of machine states.  Stepping instance i leaves every other instance exactly as it was
   and takes instance i to what a solo step gives - for every schedule of steps, by induction over it.  This product
   model is faithful only if the instances share no state: the obligation on the source is C25_tables_per_instance
   (regenerated from dispatch.go on every run). *)
Theorem C25_independent : forall i l l',
  step_at i l = Ok l' ->
  (length l' = length l)%nat /\
  (forall j d, j <> i -> nth j l' d = nth j l d) /\
  (forall x, nth_error l i = Some x -> exists y, sys_cycle x = Ok y /\ nth_error l' i = Some y).
Proof. exact instances_independent. Qed.
Print Assumptions C25_independent.

(* ... and for every schedule (any interleaving of the instances' machine cycles): instance j ends exactly where its solo
   run of as many cycles as it was scheduled ends. *)
Theorem C25_schedule : forall sch l l',
  run_sched sch l = Ok l' ->
  (length l' = length l)%nat /\
  forall j x, nth_error l j = Some x ->
    exists y, sys_cycles (count_occ PeanoNat.Nat.eq_dec sch j) x = Ok y /\ nth_error l' j = Some y.
Proof. exact schedule_independent. Qed.
Print Assumptions C25_schedule.

Theorem C25_tables_per_instance : tables_package_level = false.
Proof. exact tables_per_instance. Qed.
Print Assumptions C25_tables_per_instance.

(* non-vacuity: two machines built from different images, stepped in an interleaved schedule *)
From V.model Require Import Cart.
Example C25_example :
  let i1 := mkImage 32768 (fun a => if a =? 327 then 19 else if a =? 329 then 3 else 0) in
  let i2 := mkImage 32768 (fun a => if a =? 256 then 24 else if a =? 257 then 254 else 0) in
  exists a b, sys_new i1 true false = Ok a /\ sys_new i2 false false = Ok b /\
              is_ok (run_sched [0; 1; 1; 0; 1; 0; 0; 1]%nat [a; b]) = true.
Proof. eexists. eexists. split; [vm_compute; reflexivity|]. split; [vm_compute; reflexivity|]. vm_compute. reflexivity. Qed.
