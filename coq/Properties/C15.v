(* placeholder while the pipeline is brought up *)
From V.lib Require Import Bits Mem Res.
From V.model Require Import Render.
From V.spec Require Import RenderSpec.
Example C15_placeholder : is_ok (render_pixel scene_init (overlaps_for_line scene_init 0) 0 0) = true.
Proof. vm_compute. reflexivity. Qed.
