(* C15 — rendered frames equal the DMG composition of VRAM, OAM and registers.
   Only statements, each closed by [exact] of a lemma proved in proofs/, with Print Assumptions.

   Model (model/Render.v): render_pixel / overlaps_for_line mirror renderPixel, findWindowPixel, findBackgroundPixel,
   readTilePixel (render.go) and checkOverlappingSprite (ppu.go) of the repaired tree, with Go's uint8 / uint16
   arithmetic written out and every index bounds-checked (Res.Crash).
   Specification (spec/RenderSpec.v): spec_pixel, the DMG composition over the integers. *)
From Coq Require Import ZArith.
From V.lib Require Import Bits Mem Res.
From V.model Require Import Render.
From V.spec Require Import RenderSpec.
From V.proofs Require Import RenderLemmas RenderProofs RenderFrame.

(* For EVERY scene (VRAM, OAM, registers, palette tables universally quantified) that meets the hypotheses of the
   statement — cells and registers are bytes, palette tables hold 2-bit shades; background enabled, 8x8 objects,
   window (when enabled) at WX 7..166; on every displayed line at most ten objects, ordered by X in OAM — and for
   every pixel of the 160x144 screen, the shade the renderer writes for the pixel, given the object flags its
   mode-2 scan computes for that line, is the DMG composition. *)
Theorem C15_pixel : forall (s : scene) (x y : N),
  hyp s -> x < 160 -> y < 144 ->
  render_pixel s (overlaps_for_line s y) x y = Ok (spec_pixel s x y).
Proof. exact render_pixel_spec_hyp. Qed.
Print Assumptions C15_pixel.

(* The same with the object hypotheses required of the pixel's own line only. *)
Theorem C15_pixel_line : forall (s : scene) (x y : N),
  scene_wf s -> regs_ok s -> line_ok s (Z.of_N y) -> x < 160 -> y < 144 ->
  render_pixel s (overlaps_for_line s y) x y = Ok (spec_pixel s x y).
Proof. exact render_pixel_spec. Qed.
Print Assumptions C15_pixel_line.

(* The mode-2 flags are the integer row test Y-16 <= ly < Y-8 (no uint8 wrap): objects partly above the top edge
   (Y < 16) are on the lines they cover. *)
Theorem C15_overlaps : forall (s : scene) (ly : N),
  overlaps_for_line s ly = map (obj_on_line s (Z.of_N ly)) (upto 40).
Proof. exact overlaps_for_line_spec. Qed.
Print Assumptions C15_overlaps.

(* No Go panic in renderPixel: for every well-formed scene (hypotheses of the statement NOT required: any LCDC,
   any WX / WY, any number and order of objects), every list of object flags and every pixel coordinates. *)
Theorem C15_no_crash : forall (s : scene) (ov : list bool) (x y : N),
  scene_wf s -> is_ok (render_pixel s ov x y) = true.
Proof. exact render_pixel_no_crash. Qed.
Print Assumptions C15_no_crash.

(* ... and what is written is one of the four shades. *)
Theorem C15_shade_range : forall (s : scene) (ov : list bool) (x y g : N),
  scene_wf s -> render_pixel s ov x y = Ok g -> g < 4.
Proof. exact render_pixel_shade_range. Qed.
Print Assumptions C15_shade_range.

(* The palette tables are the register bytes: BGP, OBP0 and OBP1 read back from their tables are
   the bytes written (OBP0 / OBP1 since "fix: OBP0 and OBP1 read back all eight bits"; entry 0 of an object palette
   is never displayed, colour 0 of an object is transparent). *)
Theorem C15_bgp_table : forall v : N, v < 256 -> pal_reg (write_bgp v) = Z.of_N v /\ pal_ok (write_bgp v).
Proof. exact write_bgp_spec. Qed.
Print Assumptions C15_bgp_table.

Theorem C15_obp_table : forall v : N, v < 256 -> pal_reg (write_obp v) = Z.of_N v /\ pal_ok (write_obp v).
Proof. exact write_obp_spec. Qed.
Print Assumptions C15_obp_table.

(* For the system model (OAM corruption, C17): every address renderPixel passes to OAM.PPURead lies in FE00-FE9F,
   and the address left in OAM.ppuLastAccess is the last of that sequence. *)
Theorem C15_reads_in_oam : forall (s : scene) (ov : list bool) (x y : N) (rs : list N),
  render_pixel_oam_reads s ov x y = Ok rs -> Forall (fun a => 65024 <= a < 65184) rs.
Proof. exact render_pixel_oam_reads_range. Qed.
Print Assumptions C15_reads_in_oam.

Theorem C15_last_access : forall (s : scene) (ov : list bool) (x y : N),
  render_pixel_last_access s ov x y = (do rs <- render_pixel_oam_reads s ov x y; Ok (hd_error (rev rs))).
Proof. exact last_access_is_last. Qed.
Print Assumptions C15_last_access.

(* Frames.  [trace] stands for the sequence of renderer calls (Scan = checkOverlappingSprite, Draw = renderPixel)
   that the PPU's tick function issues during one frame on a constant scene.  The full statement: that sequence
   leaves the composition in every pixel of the frame.  The timing model that produces the sequence belongs to
   C13 / C14 (another component); what is proved here is the statement for [frame_calls], the sequence
   EndMachineCycle issues when mode 2 spans machine cycles 0-19 and mode 3 cycles 20-60 of each line 0-143
   (the closed form of C13): 40 scans with the line's LY, then 160 pixels, each exactly once.
   Missing for the full statement: [ppu trace = frame_calls], from the PPU timing model. *)
Definition C15_frame (trace : list call) : Prop :=
  forall (s : scene) (r : rstate),
    hyp s -> length (flags r) = 40%nat ->
    exists r', run_calls s r trace = Ok r' /\
               forall x y, x < 160 -> y < 144 -> rs_pixel r' x y = spec_pixel s x y.

Theorem C15_frame_partial : C15_frame frame_calls.
Proof. exact frame_calls_spec. Qed.
Print Assumptions C15_frame_partial.

(* in frame_calls every pixel of a line is drawn exactly once and every object scanned exactly once per line *)
Theorem C15_frame_once : forallb line_once (upto 144) = true.
Proof. exact frame_calls_once. Qed.
Print Assumptions C15_frame_once.

(* Non-vacuity: a concrete scene meeting the hypotheses.  Tile 1 has colour 1 everywhere (low plane FF, high 00),
   tile 2 colour 3; map entry (0,0) of 9800 is tile 1; window on at WX = 100, WY = 50 (map 9C00, tile 2 at its origin);
   object 0 at Y = 10, X = 4 (partly above the top edge and partly left of the left edge), tile 2;
   object 1 at Y = 16, X = 12 with BG priority over the colour-1 background;
   BGP = E4, OBP0 = E4, OBP1 = 1B. *)
Definition ex_vram : Mem.t :=
  mem_of_list ([(16, 255); (18, 255); (20, 255); (22, 255); (24, 255); (26, 255); (28, 255); (30, 255)] ++
               map (fun a => (a, 255)) (upto_aux 16 32) ++ [(6144, 1); (7168, 2)]).
Definition ex_oam : Mem.t := mem_of_list [(0, 10); (1, 4); (2, 2); (3, 0); (4, 16); (5, 12); (6, 2); (7, 128)].
Definition ex_scene : scene :=
  scene_set_regs (mkScene false false false false false false false 0 0 0 0 pal_zero pal_zero pal_zero ex_vram ex_oam)
                 243 0 0 100 50 228 228 27.

Example C15_example :
  hyp ex_scene /\
  render_pixel ex_scene (overlaps_for_line ex_scene 0) 0 0 = Ok 3 /\      (* object 0, clipped at two edges *)
  render_pixel ex_scene (overlaps_for_line ex_scene 0) 4 0 = Ok 1 /\      (* object 1 behind background colour 1 *)
  render_pixel ex_scene (overlaps_for_line ex_scene 0) 8 0 = Ok 3 /\      (* object 1 over background colour 0 *)
  render_pixel ex_scene (overlaps_for_line ex_scene 50) 93 50 = Ok 3 /\   (* window origin *)
  render_pixel ex_scene (overlaps_for_line ex_scene 50) 92 50 = Ok 0 /\
  spec_pixel ex_scene 0 0 = 3.
Proof.
  split.
  - split; [|split].
    + split; [apply byte_mem_of_list; vm_compute; reflexivity|].
      split; [apply byte_mem_of_list; vm_compute; reflexivity|].
      vm_compute. repeat split; reflexivity.
    + split; [reflexivity|]. split; [reflexivity|]. intros _. vm_compute. split; discriminate.
    + apply lines_ok_b_sound. vm_compute. reflexivity.
  - repeat split; vm_compute; reflexivity.
Qed.

(* The object hypotheses of the statement are needed: outside them the code (first opaque object in OAM order, no
   limit per line) departs from the DMG composition (smallest X first, ten objects per line).
   - object 0 at X = 20 and object 1 at X = 16, same rows, both solid: at x = 12 the DMG shows object 1 (OBP1 -> shade 0),
     the code shows object 0 (OBP0 -> shade 3);
   - eleven solid objects on line 0, the eleventh at X = 100: the DMG does not display it. *)
Definition ex_unsorted : scene :=
  scene_set_regs (mkScene false false false false false false false 0 0 0 0 pal_zero pal_zero pal_zero ex_vram
                          (mem_of_list [(0, 16); (1, 20); (2, 2); (3, 0); (4, 16); (5, 16); (6, 2); (7, 16)]))
                 147 0 0 0 0 228 228 27.
Definition ex_eleven : scene :=
  scene_set_regs (mkScene false false false false false false false 0 0 0 0 pal_zero pal_zero pal_zero ex_vram
                          (mem_of_list (flat_map (fun i => [(4 * i, 16); (4 * i + 1, 8 * i + 8); (4 * i + 2, 2)]) (upto 10)
                                        ++ [(40, 16); (41, 100); (42, 2)])))
                 147 0 0 0 0 228 228 27.

Example C15_hypotheses_needed :
  (scene_wf ex_unsorted /\ regs_ok ex_unsorted /\
   render_pixel ex_unsorted (overlaps_for_line ex_unsorted 0) 12 0 = Ok 3 /\ spec_pixel ex_unsorted 12 0 = 0) /\
  (scene_wf ex_eleven /\ regs_ok ex_eleven /\
   render_pixel ex_eleven (overlaps_for_line ex_eleven 0) 95 0 = Ok 3 /\ spec_pixel ex_eleven 95 0 = 0).
Proof.
  split; (split; [|split; [|split; vm_compute; reflexivity]]).
  - split; [apply byte_mem_of_list; vm_compute; reflexivity|].
    split; [apply byte_mem_of_list; vm_compute; reflexivity|]. vm_compute. repeat split; reflexivity.
  - split; [reflexivity|]. split; [reflexivity|]. intros H; discriminate H.
  - split; [apply byte_mem_of_list; vm_compute; reflexivity|].
    split; [apply byte_mem_of_list; vm_compute; reflexivity|]. vm_compute. repeat split; reflexivity.
  - split; [reflexivity|]. split; [reflexivity|]. intros H; discriminate H.
Qed.
