(* C18 — sound registers read back through their masks and obey APU power.
   Only statements, each closed by [exact] of a lemma proved in proofs/, with Print Assumptions.

   Vocabulary: [event] = EWrite addr byte | ECycle (one machine cycle); [op_of] maps events to operations of the
   model of gameboy/audio + the FF10-FF3F routing of mapper.go; [apu_new att] is the state after
   audio.New(l, r) (att = both outputs present); [rspec_run h] is the abstract machine of the statement
   (last written value per register while on, power flag; power-off clears everything; writes while off are
   ignored); [reg_mask] is the DMG mask table of the statement. *)
From V.lib Require Import Bits Mem Res.
From V.model Require Import Apu.
From V.spec Require Import ApuSpec.
From V.proofs Require Import ApuLemmas ApuStatusProofs ApuRegProofs ApuWaveProofs.

(* For every history of bus writes (of bytes, to any address: registers, NR52, wave RAM, unused) and machine
   cycles, every register NR10-NR51 reads last-written-while-on | mask when powered on and its mask when off. *)
Theorem C18_readback : forall (att : bool) (h : list event) (r : reg),
  Forall wf_event h ->
  apu_bus_read (apu_run (apu_new att) (map op_of h)) (reg_addr r) = rspec_read (rspec_run h) r.
Proof. exact apu_regs_refine. Qed.
Print Assumptions C18_readback.

(* Powering off makes all of them read as their masks (instance of the above, spelt out). *)
Theorem C18_power_off_masks : forall (att : bool) (h : list event) (r : reg),
  Forall wf_event h -> power (rspec_run h) = false ->
  apu_bus_read (apu_run (apu_new att) (map op_of h)) (reg_addr r) = reg_mask r.
Proof.
  intros att h r Hwf Hp. rewrite (apu_regs_refine att h r Hwf). unfold rspec_read. rewrite Hp. reflexivity.
Qed.
Print Assumptions C18_power_off_masks.

(* NR52 = 0x70 | power<<7 | status bits, with the model's power flag equal to the abstract one, status < 16 and
   no status bit while off (so NR52 reads 0x70). *)
Theorem C18_nr52 : forall (att : bool) (h : list event),
  Forall wf_event h ->
  let s := apu_run (apu_new att) (map op_of h) in
  apu_bus_read s NR52_addr = 0x70 + 0x80 * b2n (power (rspec_run h)) + status_bits s /\
  status_bits s < 16 /\
  (power (rspec_run h) = false -> apu_bus_read s NR52_addr = 0x70).
Proof.
  intros att h Hwf s.
  pose proof (apu_power_tracks att h Hwf) as Hp. fold s in Hp.
  destruct (nr52_value att (map op_of h)) as (H1 & H2 & H3). fold s in H1, H2, H3.
  unfold is_on in H1, H3. rewrite Hp in H1, H3. auto.
Qed.
Print Assumptions C18_nr52.

(* While off, a write to FF10-FF2F other than NR52 changes nothing except the length counter addressed by
   NR11/NR21/NR31/NR41 — for every state (equality of complete states). *)
Theorem C18_off_ignores_writes : forall (s : apu) (a v : N),
  is_on s = false -> a < 0xFF30 -> a <> 0xFF26 -> apu_bus_write s a v = off_write_effect s a v.
Proof. exact off_write. Qed.
Print Assumptions C18_off_ignores_writes.

(* The length registers NR11/NR21/NR31/NR41 stay writable while powered off - in every state, whatever the power
   flag, the write loads the length counter with 64 - t (256 - t for NR31). (C18_off_ignores_writes says nothing
   else changes while off.) *)
Theorem C18_length_writable_while_off : forall (s : apu) (v : N),
  sqLength (ch1 (apu_bus_write s 0xFF11 v)) = 64 - v mod 64 /\
  sqLength (ch2 (apu_bus_write s 0xFF16 v)) = 64 - v mod 64 /\
  (v < 256 -> wvLength (ch3 (apu_bus_write s 0xFF1B v)) = 256 - v) /\
  nsLength (ch4 (apu_bus_write s 0xFF20 v)) = 64 - v mod 64.
Proof. exact length_writable. Qed.
Print Assumptions C18_length_writable_while_off.

(* Machine cycles (and single clocks) never change what NR10-NR51 read — from every state. *)
Theorem C18_cycles_keep_reads : forall (s : apu) (r : reg),
  apu_bus_read (fst (apu_end_machine_cycle s)) (reg_addr r) = apu_bus_read s (reg_addr r).
Proof. exact cycle_keeps_reads. Qed.
Print Assumptions C18_cycles_keep_reads.

(* Wave RAM, read while channel 3 is off, keeps its contents across power cycles, any other register traffic
   (everything except wave RAM writes and NR34) and any number of machine cycles — from every state. *)
Theorem C18_wave_ram_survives_power : forall (s : apu) (ops : list apu_op) (i : N),
  forallb ram_safe ops = true -> i < 16 -> en3 s = false -> en3 (apu_run s ops) = false ->
  apu_bus_read (apu_run s ops) (0xFF30 + i) = apu_bus_read s (0xFF30 + i).
Proof. exact wave_ram_survives. Qed.
Print Assumptions C18_wave_ram_survives_power.

(* ... and while channel 3 is off it is a plain last-write-wins memory. *)
Theorem C18_wave_ram_plain : forall (s : apu) (i j v : N),
  en3 s = false -> i < 16 -> j < 16 ->
  apu_bus_read (apu_bus_write s (0xFF30 + i) v) (0xFF30 + j) = if i =? j then v else apu_bus_read s (0xFF30 + j).
Proof. exact wave_ram_plain. Qed.
Print Assumptions C18_wave_ram_plain.

(* Unused addresses FF15, FF1F, FF27-FF2F read FF and ignore writes. *)
Theorem C18_unused : forall (s : apu) (a v : N),
  unused_addr a = true -> apu_bus_read s a = 0xFF /\ apu_bus_write s a v = s.
Proof. intros s a v H. split; [exact (unused_reads_ff s a H) | exact (unused_write_ignored s a v H)]. Qed.
Print Assumptions C18_unused.

(* Non-vacuity: a concrete history with a power cycle in the middle. *)
Example C18_example :
  let h := [EWrite 0xFF12 0xF3; EWrite 0xFF14 0xC7; ECycle; EWrite 0xFF30 0x12; EWrite 0xFF26 0x00; ECycle;
            EWrite 0xFF12 0xFF; EWrite 0xFF26 0x80; EWrite 0xFF1C 0x20] in
  let s := apu_run (apu_new true) (map op_of h) in
  Forall wf_event h /\ apu_bus_read s 0xFF12 = 0x00 /\ apu_bus_read s 0xFF1C = 0xBF /\
  apu_bus_read s 0xFF26 = 0xF0 /\ apu_bus_read s 0xFF30 = 0x12.
Proof. split; [repeat constructor; cbn; lia | vm_compute; repeat split]. Qed.
