(* C22 — JOYP reflects held buttons for the selected groups.
   Only statements, each closed by [exact] of a lemma proved in proofs/, with Print Assumptions. *)
From V.lib Require Import Bits.
From V.model Require Import Joypad.
From V.spec Require Import JoypadSpec.
From V.proofs Require Import JoypadProofs.

(* For every history of presses, releases and select writes (of bytes), the value the model of
   controller.go returns for a JOYP read equals the register assembled from the statement:
   bits 7-6 = 1, bits 5-4 = last written select bits, bits 3-0 low exactly for held buttons of
   selected groups (both groups combined when both are selected, all ones when none is). *)
Theorem C22_read : forall h : list event,
  Forall wf_event h ->
  joy_read (joy_run (map op_of h)) = jspec_read (jspec_run h).
Proof. exact joy_refines. Qed.
Print Assumptions C22_read.

(* Pressing a direction releases its opposite: no history holds Up and Down, or Left and Right. *)
Theorem C22_no_opposites : forall h : list event,
  (held (jspec_run h) Up && held (jspec_run h) Down = false) /\
  (held (jspec_run h) Left && held (jspec_run h) Right = false).
Proof. exact no_opposites_spec. Qed.
Print Assumptions C22_no_opposites.

(* ... observed through the register: with only the direction group selected, Up and Down never both read 0. *)
Theorem C22_no_opposites_read : forall h : list event,
  Forall wf_event h ->
  let v := joy_read (joy_run (map op_of h)) in
  (N.testbit v 2 || N.testbit v 3 = true) \/ btns_selected (jspec_run h) = true.
Proof. exact no_opposites_read. Qed.
Print Assumptions C22_no_opposites_read.

(* Non-vacuity: a concrete history (select directions, press Up, press Down, press A, select both). *)
Example C22_example :
  let h := [WriteSel 32; Press Up; Press Down; Press BtnA; WriteSel 0] in
  Forall wf_event h /\ joy_read (joy_run (map op_of h)) = 198 (* C6: Down and A low *).
Proof. split; [repeat constructor; cbn; lia | vm_compute; reflexivity]. Qed.
