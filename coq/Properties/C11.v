(* C11 — no cartridge image or guest program can crash the emulator.
   Crashes are values in the model (Res.Crash for every Go panic: index out of range, nil controller, division by
   zero, explicit panic; Res.Exit for os.Exit), so "never crashes" is "never returns Crash".
   The cartridge half is also stated on its own in Properties/C11_cart.v. *)
From V.lib Require Import Bits Mem Res.
From V.model Require Import Rtc Cart Cpu CpuTables System.
From V.proofs Require Import CartSafe SafeCart SafeBus SafeCpu SafeSys.

(* ---- the whole machine: ANY image (any length, any bytes) either fails construction or yields a machine that, for
   every number n of machine cycles of runFrame's loop (CPU micro-operation, PPU with renderer, DMA + cartridge clock,
   APU, timer, in the order regenerated from gameboy.go), has not crashed: the run either is still going, or has
   stopped by os.Exit, which happens only in a cycle whose CPU step was executing the micro-program of one of the 11
   undefined opcodes.  "Any guest program" is covered because the program is the content of the image and of RAM,
   which are universally quantified.  (sys_cycles returns Crash for every Go panic: index out of range, nil controller,
   division by zero, explicit panic, the model's micro-operation index leaving its list.) ---- *)
Theorem C11_construct_or_safe : forall (img : image) (serial_attached audio_attached : bool),
  img_bytes img ->
  (exists w, sys_new img serial_attached audio_attached = Crash w) \/
  (exists cs0, sys_new img serial_attached audio_attached = Ok cs0 /\
     forall n : nat,
       (exists cs, sys_cycles n cs0 = Ok cs) \/
       (sys_cycles n cs0 = Exit /\
        exists k cs1, (k < n)%nat /\ sys_cycles k cs0 = Ok cs1 /\ sys_cycle cs1 = Exit /\
                      runs_undefined (fst (sys_cpu_cycle cs1)))).
Proof. exact whole_machine_safe. Qed.
Print Assumptions C11_construct_or_safe.

(* in particular: never a crash *)
Corollary C11_never_crashes : forall img ser aud cs0 n w,
  img_bytes img -> sys_new img ser aud = Ok cs0 -> sys_cycles n cs0 <> Crash w.
Proof.
  intros img ser aud cs0 n w Hi E X.
  destruct (whole_machine_safe img ser aud Hi) as [(w0 & E0)|(cs & E0 & H)]; [congruence|].
  assert (cs = cs0) by congruence. subst cs.
  destruct (H n) as [(c & Ec)|(Ec & _)]; congruence.
Qed.
Print Assumptions C11_never_crashes.

(* the invariant: established by the first machine cycle from power-on, kept by every later one *)
Theorem C11_safe_preserved : forall cs, Safe cs ->
  (exists cs', sys_cycle cs = Ok cs' /\ Safe cs') \/ (sys_cycle cs = Exit /\ runs_undefined (fst (sys_cpu_cycle cs))).
Proof. exact sys_cycle_safe. Qed.
Print Assumptions C11_safe_preserved.

(* the 11 undefined opcodes are exactly the entries of the regenerated table that contain the fatal micro-operation *)
Theorem C11_fatal_table : fatal_check gen_tables = true.
Proof. exact gen_fatal_check. Qed.
Print Assumptions C11_fatal_table.

(* ---- bus level: every history of Mapper.Read / Mapper.Write (any 16-bit address, any byte), hardware cycles
   (PPU with the renderer, OAM DMA, cartridge clock, APU, timer and its interrupt request) and button events, on the
   machine built from ANY image (any length, any bytes) ---- *)
Theorem C11_bus_construct_or_safe : forall (img : image) (serial_attached audio_attached : bool),
  img_bytes img ->
  (exists w, sys_new img serial_attached audio_attached = Crash w) \/
  (exists cs0, sys_new img serial_attached audio_attached = Ok cs0 /\
     forall ops : list bus_op, Forall bus_op_wf ops -> exists s, bus_run (snd cs0) ops = Ok s).
Proof. exact bus_level_safe. Qed.
Print Assumptions C11_bus_construct_or_safe.

(* the invariant behind it, for composition: established by construction, kept by every operation, and it makes
   every bus read return a byte *)
Theorem C11_bus_inv_construct : forall img ser aud cs,
  img_bytes img -> sys_new img ser aud = Ok cs -> fst cs = cpu_init /\ bus_inv (snd cs).
Proof. exact sys_new_inv. Qed.
Print Assumptions C11_bus_inv_construct.

Theorem C11_bus_inv_step : forall s o, bus_inv s -> bus_op_wf o -> exists s', bus_step s o = Ok s' /\ bus_inv s'.
Proof. exact bus_step_safe. Qed.
Print Assumptions C11_bus_inv_step.

Theorem C11_bus_reads_bytes : forall s a, bus_inv s -> a < 65536 -> exists s' v, sys_read s a = Ok (s', v) /\ v < 256.
Proof. exact bus_reads_bytes. Qed.
Print Assumptions C11_bus_reads_bytes.

(* the generated address decoders are total on 16-bit addresses and index the two RAM arrays within the sizes
   declared in mapper.go (a shrunk array or a mis-routed case breaks this obligation) *)
Theorem C11_decoder_total : forall a, a < 65536 ->
  handler_okb true (read_handler a) a = true /\ handler_okb false (write_handler a) a = true.
Proof. exact decoder_ok. Qed.
Print Assumptions C11_decoder_total.

(* Non-vacuity: an image that constructs, and a history that exercises every kind of operation *)
Example C11_example_image : image :=
  mkImage 32768 (fun a => if a =? 327 then 19 else if a =? 329 then 3 else 0).

Example C11_bus_example :
  img_bytes C11_example_image /\
  exists cs0, sys_new C11_example_image true false = Ok cs0 /\
  exists s, bus_run (snd cs0) [BWrite 0xFF40 0x91; BHw; BRead 0xFE00; BWrite 0xFE00 7; BWrite 0xFF46 0xC0; BHw; BHw;
                               BWrite 0x2000 0x7F; BRead 0x4000; BWrite 0xFF1E 0x80; BRead 0xFF30; BButton 4 true;
                               BWrite 0xFFFF 0xFF; BRead 0xFFFF; BHw] = Ok s.
Proof.
  split.
  - intros a. unfold C11_example_image; cbn. destruct (a =? 327); [lia|]. destruct (a =? 329); lia.
  - eexists. split; [vm_compute; reflexivity|]. eexists. vm_compute. reflexivity.
Qed.

(* the example image runs: 400 machine cycles from power-on without crash or exit *)
Example C11_run_example :
  exists cs0, sys_new C11_example_image true false = Ok cs0 /\ is_ok (sys_cycles 400 cs0) = true.
Proof. eexists. split; [vm_compute; reflexivity|]. vm_compute. reflexivity. Qed.
