(* C11 — no cartridge image or guest program can crash the emulator.
   Crashes are values in the model (Res.Crash for every Go panic: index out of range, nil controller, division by
   zero, explicit panic; Res.Exit for os.Exit), so "never crashes" is "never returns Crash".
   The cartridge half is also stated on its own in Properties/C11_cart.v. *)
From V.lib Require Import Bits Mem Res.
From V.model Require Import Rtc Cart Cpu System.
From V.proofs Require Import CartSafe SafeCart SafeBus.

(* ---- bus level: every history of Mapper.Read / Mapper.Write (any 16-bit address, any byte), hardware cycles
   (PPU with the renderer, OAM DMA, cartridge clock, APU, timer and its interrupt request) and button events, on the
   machine built from ANY image (any length, any bytes) ---- *)
Theorem C11_bus_construct_or_safe : forall (img : image) (serial_attached audio_attached : bool),
  img_bytes img ->
  (exists w, sys_new img serial_attached audio_attached = Crash w) \/
  (exists cs0, sys_new img serial_attached audio_attached = Ok cs0 /\
     forall ops : list bus_op, Forall bus_op_wf ops -> exists s, bus_run (snd cs0) ops = Ok s).
Proof. exact bus_level_safe. Qed.
Print Assumptions C11_bus_construct_or_safe.

(* the invariant behind it, for composition: established by construction, kept by every operation, and it makes
   every bus read return a byte *)
Theorem C11_bus_inv_construct : forall img ser aud cs,
  img_bytes img -> sys_new img ser aud = Ok cs -> fst cs = cpu_init /\ bus_inv (snd cs).
Proof. exact sys_new_inv. Qed.
Print Assumptions C11_bus_inv_construct.

Theorem C11_bus_inv_step : forall s o, bus_inv s -> bus_op_wf o -> exists s', bus_step s o = Ok s' /\ bus_inv s'.
Proof. exact bus_step_safe. Qed.
Print Assumptions C11_bus_inv_step.

Theorem C11_bus_reads_bytes : forall s a, bus_inv s -> a < 65536 -> exists s' v, sys_read s a = Ok (s', v) /\ v < 256.
Proof. exact bus_reads_bytes. Qed.
Print Assumptions C11_bus_reads_bytes.

(* the generated address decoders are total on 16-bit addresses and index the two RAM arrays within the sizes
   declared in mapper.go (a shrunk array or a mis-routed case breaks this obligation) *)
Theorem C11_decoder_total : forall a, a < 65536 ->
  handler_okb true (read_handler a) a = true /\ handler_okb false (write_handler a) a = true.
Proof. exact decoder_ok. Qed.
Print Assumptions C11_decoder_total.

(* Non-vacuity: an image that constructs, and a history that exercises every kind of operation *)
Example C11_example_image : image :=
  mkImage 32768 (fun a => if a =? 327 then 19 else if a =? 329 then 3 else 0).

Example C11_bus_example :
  img_bytes C11_example_image /\
  exists cs0, sys_new C11_example_image true false = Ok cs0 /\
  exists s, bus_run (snd cs0) [BWrite 0xFF40 0x91; BHw; BRead 0xFE00; BWrite 0xFE00 7; BWrite 0xFF46 0xC0; BHw; BHw;
                               BWrite 0x2000 0x7F; BRead 0x4000; BWrite 0xFF1E 0x80; BRead 0xFF30; BButton 4 true;
                               BWrite 0xFFFF 0xFF; BRead 0xFFFF; BHw] = Ok s.
Proof.
  split.
  - intros a. unfold C11_example_image; cbn. destruct (a =? 327); [lia|]. destruct (a =? 329); lia.
  - eexists. split; [vm_compute; reflexivity|]. eexists. vm_compute. reflexivity.
Qed.
