(* C11 — no cartridge image or guest program can crash the emulator (whole machine).  WORK IN PROGRESS: the
   whole-machine theorems are added below as they are proved; the cartridge half is Properties/C11_cart.v. *)
From V.lib Require Import Bits Mem Res.
From V.model Require Import Rtc Cart.
From V.proofs Require Import CartSafe.

Theorem C11_cart_safe_after_construction : forall img c0, cart_construct img = Ok c0 -> CartSafe c0.
Proof. exact construct_safe. Qed.
Print Assumptions C11_cart_safe_after_construction.
