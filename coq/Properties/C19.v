(* C19 — channel status bits and length counters behave as on a DMG.
   Only statements, each closed by [exact] of a lemma proved in proofs/, with Print Assumptions.

   Vocabulary: [en c s] is the status flag of channel c (bit c of NR52, see C18_nr52 / [read_nr52]); [dac c s]
   its DAC flag; [apu_bus_write s a v] a bus write, [apu_tick_clock] one clock cycle, [apu_end_machine_cycle]
   four of them plus the end-of-cycle bookkeeping; [phase s] = clock cycles consumed in the current second of the
   sample clock, [fseq s] = index of the next frame-sequencer step.  [seq_hits], [lc_count], [length_clock_at],
   [trigger_length] are the closed forms of ApuSpec part 2. *)
From V.lib Require Import Bits Mem Res.
From V.model Require Import Apu.
From V.spec Require Import ApuSpec.
From V.proofs Require ConstsTie.
From V.gen Require GenConsts.
From V.proofs Require Import ApuLemmas ApuStatusProofs ApuFreqProofs ApuLengthProofs.

(* EXACT effect of any bus write (any address, any value) on any status flag, from every state:
   the flag afterwards = (flag before, unless an off-cause applies) or an on-cause applies. *)
Theorem C19_status_write_exact : forall (c : chan) (s : apu) (a v : N),
  en c (apu_bus_write s a v) = (en c s && negb (off_cause c s a v)) || on_cause c s a v.
Proof. exact status_write_exact. Qed.
Print Assumptions C19_status_write_exact.

(* A status bit turns on only by a write to the channel's NRx4 with the trigger bit, power on, DAC on and (channel
   1) no overflow of the sweep calculation done by the trigger. *)
Theorem C19_on_only_by_trigger : forall (c : chan) (s : apu) (a v : N),
  en c s = false -> en c (apu_bus_write s a v) = true ->
  a = trig_addr c /\ trig_bit v = true /\ is_on s = true /\ dac c s = true /\ trigger_overflow c s v = false.
Proof. exact on_only_by_trigger. Qed.
Print Assumptions C19_on_only_by_trigger.

(* Channel 1's trigger with a non-zero sweep shift performs the frequency calculation at once: the channel is on
   afterwards iff the DAC is on and, in addition mode, f + f / 2^shift <= 2047 (f = the 11-bit frequency after the
   write; subtraction mode never overflows) - from every state.  In particular an overflowing trigger leaves the
   channel off. *)
Theorem C19_trigger_sweep_overflow : forall (s : apu) (v : N),
  is_on s = true -> trig_bit v = true ->
  en1 (apu_bus_write s 0xFF14 v) =
  sqDac (ch1 s) && negb (sweep_calc_overflows (sqFreq (nr14_freq s v)) (swShift (sw1 s)) (swIncrease (sw1 s))).
Proof. exact trigger_sweep_overflow. Qed.
Print Assumptions C19_trigger_sweep_overflow.

Theorem C19_trigger_overflow_documented : forall (s : apu) (v : N),
  trigger_overflow Ch1 s v =
  sweep_calc_overflows (sqFreq (nr14_freq s v)) (swShift (sw1 s)) (swIncrease (sw1 s)) /\
  sqFreq (nr14_freq s v) < 2048.
Proof. intros s v. split; [exact (trigger_overflow_spec s v) | exact (nr14_freq_lt s v)]. Qed.
Print Assumptions C19_trigger_overflow_documented.

(* ... and never by the passage of time. *)
Theorem C19_time_never_switches_on : forall (c : chan) (s : apu),
  (en c (fst (apu_tick_clock s)) = true -> en c s = true) /\
  (en c (fst (apu_end_machine_cycle s)) = true -> en c s = true).
Proof. intros c s. split; [exact (clock_never_switches_on c s) | exact (cycle_never_switches_on c s)]. Qed.
Print Assumptions C19_time_never_switches_on.

(* A write switches a status bit off only for one of the documented causes ([off_cause]): DAC switched off by
   NRx2/NR30, power off by NR52, the extra length clock of an NRx4 write emptying the counter, a trigger with the
   DAC off or (channel 1) overflowing, or (channel 1) clearing the negate bit of NR10 after a negate-mode
   calculation. *)
Theorem C19_off_only_by_cause : forall (c : chan) (s : apu) (a v : N),
  en c s = true -> en c (apu_bus_write s a v) = false -> off_cause c s a v = true.
Proof. exact off_only_by_cause. Qed.
Print Assumptions C19_off_only_by_cause.

(* A clock switches a status bit off exactly when it is a length clock that empties the enabled counter, or
   (channel 1) a sweep clock whose frequency calculation overflows. *)
Theorem C19_status_clock_exact : forall (c : chan) (s : apu),
  en c (fst (apu_tick_clock s)) = en c s && negb (len_clock s && expire c s) && negb (sweep_kill c s).
Proof. exact status_clock_exact. Qed.
Print Assumptions C19_status_clock_exact.

(* The sweep clock in documented terms (with C19_status_clock_exact: channel 1's flag after a clock = flag before
   && not (length expiry) && not (sweep clock && sweep_overflows)): a sweep clock switches channel 1 off exactly when
   the unit is enabled, its timer expires, the period is not 0 and either f' = f +/- (f >> s) > 2047, or f' fits,
   s <> 0 and the calculation repeated with f' exceeds 2047 - the overflow re-check in the same sweep clock.
   Hypothesis: the shadow frequency is an 11-bit value (it is only ever loaded with one). *)
Theorem C19_sweep_clock_overflow : forall w : sweep,
  swShadow w < 2048 ->
  sweep_overflows w =
  swEnabled w && (sub8 (swTimer w) 1 =? 0) && negb (swPeriod w =? 0) &&
  (let f1 := sweep_next (swShadow w) (swShift w) (swIncrease w) in
   (2047 <? f1) || ((f1 <? 2048) && (0 <? swShift w) && (2047 <? sweep_next f1 (swShift w) (swIncrease w)))).
Proof. exact sweep_overflows_spec. Qed.
Print Assumptions C19_sweep_clock_overflow.

Theorem C19_sweep_subtraction_never_overflows : forall w : sweep,
  swShadow w < 2048 -> swIncrease w = false -> sweep_overflows w = false.
Proof. exact sweep_no_overflow_when_subtracting. Qed.
Print Assumptions C19_sweep_subtraction_never_overflows.

(* Sweep period 0: the unit never recalculates.  A sweep clock then neither switches channel 1 off
   ([sweep_overflows] is false, so by C19_status_clock_exact only a length expiry can) nor changes the channel record
   (frequency included) or the shadow register - for every state, whatever shift and direction are. *)
Theorem C19_sweep_period0_inert : forall (c : square) (w : sweep),
  swPeriod w = 0 ->
  sweep_overflows w = false /\
  fst (ch1_tick_sweep c w) = c /\
  swShadow (snd (ch1_tick_sweep c w)) = swShadow w /\ swPeriod (snd (ch1_tick_sweep c w)) = 0.
Proof. exact sweep_period0_inert. Qed.
Print Assumptions C19_sweep_period0_inert.

(* Frame sequencer: over ANY history of register writes other than NR52 (power is not switched) and machine
   cycles, from any well-formed state, the phase and the sequencer index are closed forms in the number of
   elapsed clocks n = 4 * cycles; one sequencer step per 8192 clocks. *)
Theorem C19_sequencer_closed_form : forall (h : list apu_op) (s : apu),
  clk_wf s ->
  Forall (fun o => match o with OWrite a v => a <> 0xFF26 | OCycle => True end) h ->
  let n := 4 * n_cycles h in
  phase (apu_run s h) = (phase s + n) mod 4194304 /\
  fseq (apu_run s h) = (fseq s + seq_hits (phase s) n) mod 512.
Proof. exact seq_history. Qed.
Print Assumptions C19_sequencer_closed_form.

(* every state reached from audio.New by any history is well formed *)
Theorem C19_clk_wf_reachable : forall (att : bool) (h : list apu_op), clk_wf (apu_run (apu_new att) h).
Proof. intros att h. exact (clk_wf_run h _ (clk_wf_init att)). Qed.
Print Assumptions C19_clk_wf_reachable.

(* The model classifies the clock executed after m earlier clocks as a length clock iff the closed form says so ... *)
Theorem C19_length_clock_instants : forall (s : apu) (m : N) (l : list uop),
  clk_wf s -> n_ticks l = m ->
  len_clock (fold_left exec_u l s) = length_clock_at (phase s) (fseq s) (m + 1).
Proof. exact len_clock_closed. Qed.
Print Assumptions C19_length_clock_instants.

(* ... and length clocks are exactly 16,384 clock cycles apart, for any number of them (while power stays on). *)
Theorem C19_length_clock_period : forall k q m : N,
  q < 512 -> length_clock_at k q m = true ->
  length_clock_at k q (m + 16384) = true /\
  (forall d, 0 < d -> d < 16384 -> length_clock_at k q (m + d) = false).
Proof. exact length_clock_spacing. Qed.
Print Assumptions C19_length_clock_period.

(* Length counters with length enabled and no register writes, for any interleaving l of clocks and end-of-cycle
   bookkeeping (n = number of clocks in l, unbounded): counter = L - (length clocks so far), status on iff fewer
   than L length clocks have happened.  Channels 2, 4, 3; channel 1 with the sweep unit idle. *)
Theorem C19_length_run_ch2 : forall (l : list uop) (s : apu),
  len2_inv s ->
  let k := phase s in let q := fseq s in let L := sqLength (ch2 s) in let n := n_ticks l in
  let s' := fold_left exec_u l s in
  phase s' = (k + n) mod 4194304 /\ fseq s' = (q + seq_hits k n) mod 512 /\
  sqLength (ch2 s') = L - lc_count k q n /\
  sqEnabled (ch2 s') = sqEnabled (ch2 s) && ((L =? 0) || (lc_count k q n <? L)).
Proof. exact len2_run. Qed.
Print Assumptions C19_length_run_ch2.

Theorem C19_length_run_ch4 : forall (l : list uop) (s : apu),
  len4_inv s ->
  let k := phase s in let q := fseq s in let L := nsLength (ch4 s) in let n := n_ticks l in
  let s' := fold_left exec_u l s in
  phase s' = (k + n) mod 4194304 /\ fseq s' = (q + seq_hits k n) mod 512 /\
  nsLength (ch4 s') = L - lc_count k q n /\
  nsEnabled (ch4 s') = nsEnabled (ch4 s) && ((L =? 0) || (lc_count k q n <? L)).
Proof. exact len4_run. Qed.
Print Assumptions C19_length_run_ch4.

Theorem C19_length_run_ch3 : forall (l : list uop) (s : apu),
  len3_inv s ->
  let k := phase s in let q := fseq s in let L := wvLength (ch3 s) in let n := n_ticks l in
  let s' := fold_left exec_u l s in
  phase s' = (k + n) mod 4194304 /\ fseq s' = (q + seq_hits k n) mod 512 /\
  wvLength (ch3 s') = L - lc_count k q n /\
  wvEnabled (ch3 s') = wvEnabled (ch3 s) && ((L =? 0) || (lc_count k q n <? L)).
Proof. exact len3_run. Qed.
Print Assumptions C19_length_run_ch3.

Theorem C19_length_run_ch1 : forall (l : list uop) (s : apu),
  len1_inv s ->
  let k := phase s in let q := fseq s in let L := sqLength (ch1 s) in let n := n_ticks l in
  let s' := fold_left exec_u l s in
  phase s' = (k + n) mod 4194304 /\ fseq s' = (q + seq_hits k n) mod 512 /\
  sqLength (ch1 s') = L - lc_count k q n /\
  sqEnabled (ch1 s') = sqEnabled (ch1 s) && ((L =? 0) || (lc_count k q n <? L)).
Proof. exact len1_run. Qed.
Print Assumptions C19_length_run_ch1.

(* Headline (channel 2): write length data v1 (t = v1 mod 64), then NR24 with trigger and length enable (length was
   disabled before), DAC on, then m machine cycles without writes (m unbounded).  The channel is on after the
   write and stays on exactly while fewer than L length clocks have happened, L = the documented
   [trigger_length]; [C19_trigger_length_total] relates L to 64 - t. *)
Theorem C19_length_expiry_ch2 : forall (s : apu) (v1 v : N) (m : nat),
  clk_wf s -> is_on s = true -> sqDac (ch2 s) = true -> sqLenEn (ch2 s) = false ->
  trig_bit v = true -> len_bit v = true ->
  let s0 := apu_bus_write (apu_bus_write s 0xFF16 v1) 0xFF19 v in
  let L := trigger_length 64 (64 - v1 mod 64) false (odd_seq s) in
  0 < L /\ en2 s0 = true /\
  en2 (apu_run s0 (repeat OCycle m)) = (lc_count (phase s) (fseq s) (4 * N.of_nat m) <? L).
Proof. exact ch2_length_expiry. Qed.
Print Assumptions C19_length_expiry_ch2.

(* the same for channels 4, 3 (256 length steps) and 1 (sweep unit idle: NR10 period and shift 0) *)
Theorem C19_length_expiry_ch4 : forall (s : apu) (v1 v : N) (m : nat),
  clk_wf s -> is_on s = true -> nsDac (ch4 s) = true -> nsLenEn (ch4 s) = false ->
  trig_bit v = true -> len_bit v = true ->
  let s0 := apu_bus_write (apu_bus_write s 0xFF20 v1) 0xFF23 v in
  let L := trigger_length 64 (64 - v1 mod 64) false (odd_seq s) in
  0 < L /\ en4 s0 = true /\
  en4 (apu_run s0 (repeat OCycle m)) = (lc_count (phase s) (fseq s) (4 * N.of_nat m) <? L).
Proof. exact ch4_length_expiry. Qed.
Print Assumptions C19_length_expiry_ch4.

Theorem C19_length_expiry_ch3 : forall (s : apu) (v1 v : N) (m : nat),
  v1 < 256 -> clk_wf s -> is_on s = true -> wvDac (ch3 s) = true -> wvLenEn (ch3 s) = false ->
  trig_bit v = true -> len_bit v = true ->
  let s0 := apu_bus_write (apu_bus_write s 0xFF1B v1) 0xFF1E v in
  let L := trigger_length 256 (256 - v1) false (odd_seq s) in
  0 < L /\ en3 s0 = true /\
  en3 (apu_run s0 (repeat OCycle m)) = (lc_count (phase s) (fseq s) (4 * N.of_nat m) <? L).
Proof. exact ch3_length_expiry. Qed.
Print Assumptions C19_length_expiry_ch3.

Theorem C19_length_expiry_ch1 : forall (s : apu) (v1 v : N) (m : nat),
  clk_wf s -> is_on s = true -> sqDac (ch1 s) = true -> sqLenEn (ch1 s) = false ->
  swShift (sw1 s) = 0 -> swPeriod (sw1 s) = 0 ->
  trig_bit v = true -> len_bit v = true ->
  let s0 := apu_bus_write (apu_bus_write s 0xFF11 v1) 0xFF14 v in
  let L := trigger_length 64 (64 - v1 mod 64) false (odd_seq s) in
  0 < L /\ en1 s0 = true /\
  en1 (apu_run s0 (repeat OCycle m)) = (lc_count (phase s) (fseq s) (4 * N.of_nat m) <? L).
Proof. exact ch1_length_expiry. Qed.
Print Assumptions C19_length_expiry_ch1.

(* 64 - t length clocks in total, counting the extra clock of the first half; the one exception is the
   documented reload: t = 63 in the first half empties the counter and the trigger reloads 63. *)
Theorem C19_trigger_length_total : forall (t : N) (first_half : bool),
  t < 64 ->
  let L := trigger_length 64 (64 - t) false first_half in
  (first_half = false -> L = 64 - t) /\
  (first_half = true -> t <> 63 -> L + 1 = 64 - t) /\
  (first_half = true -> t = 63 -> L = 63).
Proof. exact trigger_length_total. Qed.
Print Assumptions C19_trigger_length_total.

(* the length part of an NR24 write with trigger and length enable follows the documented algorithm, from every
   state of the channel *)
Theorem C19_trigger_length_ch2 : forall (c : square) (v : N) (first_half : bool),
  trig_bit v = true -> len_bit v = true -> sqLength c < 256 ->
  let c' := nr24_square c v first_half in
  sqLenEn c' = true /\ sqLength c' = trigger_length 64 (sqLength c) (sqLenEn c) first_half /\ sqEnabled c' = sqDac c.
Proof. exact nr24_square_len. Qed.
Print Assumptions C19_trigger_length_ch2.

Theorem C19_trigger_length_ch4 : forall (n : noise) (v : N) (first_half : bool),
  trig_bit v = true -> len_bit v = true -> nsLength n < 256 ->
  let n' := nr44_noise n v first_half in
  nsLenEn n' = true /\ nsLength n' = trigger_length 64 (nsLength n) (nsLenEn n) first_half /\ nsEnabled n' = nsDac n.
Proof. exact nr44_noise_len. Qed.
Print Assumptions C19_trigger_length_ch4.

Theorem C19_trigger_length_ch3 : forall (w : wave) (v : N) (first_half : bool),
  trig_bit v = true -> len_bit v = true -> wvLength w < 65536 ->
  let w' := nr34_wave w v first_half in
  wvLenEn w' = true /\ wvLength w' = trigger_length 256 (wvLength w) (wvLenEn w) first_half /\ wvEnabled w' = wvDac w.
Proof. exact nr34_wave_len. Qed.
Print Assumptions C19_trigger_length_ch3.

(* switching power on restarts the frame sequencer *)
Theorem C19_power_on_restarts_sequencer : forall (s : apu) (v : N),
  is_on s = false -> (N.shiftr v 7 =? 0) = false -> fseq (apu_bus_write s 0xFF26 v) = 0.
Proof. exact power_on_restarts_sequencer. Qed.
Print Assumptions C19_power_on_restarts_sequencer.

(* Non-vacuity: channel 2 triggered with length data 62 in the first half of a length period (after one
   sequencer step) stays on until the first length clock, which happens in machine cycle 4094 after the write. *)
Example C19_example :
  let s := apu_run apu_init (repeat OCycle 2050) in
  let s1 := apu_bus_write s 0xFF17 0xF0 in
  clk_wf s1 /\ is_on s1 = true /\ sqDac (ch2 s1) = true /\ sqLenEn (ch2 s1) = false /\ odd_seq s1 = true /\
  trigger_length 64 (64 - 62) false true = 1 /\
  lc_count (phase s1) (fseq s1) (4 * 4093) = 0 /\ lc_count (phase s1) (fseq s1) (4 * 4094) = 1.
Proof. vm_compute. repeat split; try reflexivity; discriminate. Qed.

(* the frame sequencer period of the model is the constant regenerated from audio.go on this run *)
Theorem C19_sequencer_period_regenerated : V.model.Apu.frameSeqPeriod = V.gen.GenConsts.frameSeqPeriod.
Proof. exact (proj1 V.proofs.ConstsTie.apu_periods_tie). Qed.
Print Assumptions C19_sequencer_period_regenerated.
