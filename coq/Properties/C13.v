(* C13 — LCD line and mode timing follow the frame schedule.
   Only statements, each closed by [exact] of a lemma proved in proofs/, with Print Assumptions.

   Vocabulary.  A history is a list of events: [Tick] (one machine cycle of the PPU), [Write r v] (a write to
   one of the eleven PPU registers, LCDC and LY included) and [Env g] (any activity g : oam -> oam of the rest
   of the machine on the OAM component: CPU accesses, DMA, corruption ...).  [lcd_run h] is the abstract LCD
   state fixed by the history alone: [on] = bit 7 of the last LCDC write (on after construction),
   [since] = k = number of cycles since the last off -> on transition, [ly_stale] = LY was written with the
   LCD on and no cycle has ended since.  [ppu_run (map op_of h)] runs the model of ppu.go from power-on. *)
From V.lib Require Import Bits Mem Res.
From V.model Require Import Oam PpuTiming.
From V.spec Require Import LcdSpec.
From V.proofs Require Import LcdLemmas LcdProofs LcdShape.

(* While the LCD is on, k cycles after it was switched on — for EVERY k : N and every history (any on/off
   schedule before, any register writes, any OAM activity) — STAT bits 1-0 read [spec_mode k] and LY reads
   [spec_ly k], the closed forms  pos k = if k <= 62 then k-1 else (k+1) mod 17556,  LY = pos/114,
   mode from pos mod 114 (0-19 -> 2, 20-60 -> 3, 61-113 -> 0) on lines < 144 and 1 on lines 144-153;
   k = 0 (just switched on): LY = 0, mode 2.  The model never crashes.
   (LY is stated at machine-cycle granularity: if the CPU wrote LY in this very cycle, its value until the
   cycle ends is left open; the CPU cannot observe that, it accesses the bus once per cycle.) *)
Theorem C13_on : forall (h : list ev) (k : N),
  on (lcd_run h) = true -> since (lcd_run h) = k ->
  exists s, ppu_run (map op_of h) = Ok s
    /\ N.land (ppu_read_stat (fst s)) 3 = spec_mode k
    /\ (ly_stale (lcd_run h) = false -> ppu_read_ly (fst s) = spec_ly k).
Proof. exact lcd_on_timing. Qed.
Print Assumptions C13_on.

(* Switching the LCD off makes LY read 0 and the mode 0 at once, at whatever cycle of whatever line ... *)
Theorem C13_off_immediate : forall (h : list ev) (v : N),
  N.testbit v 7 = false ->
  exists s, ppu_run (map op_of (h ++ [Write LCDC v])) = Ok s
    /\ N.land (ppu_read_stat (fst s)) 3 = 0 /\ ppu_read_ly (fst s) = 0.
Proof. exact lcd_off_immediate. Qed.
Print Assumptions C13_off_immediate.

(* ... and they stay so for as long as it is off, whatever else happens *)
Theorem C13_off_stays : forall h : list ev,
  on (lcd_run h) = false ->
  exists s, ppu_run (map op_of h) = Ok s
    /\ N.land (ppu_read_stat (fst s)) 3 = 0 /\ ppu_read_ly (fst s) = 0.
Proof. exact lcd_off_timing. Qed.
Print Assumptions C13_off_stays.

(* Switching it on restarts the sequence: k = 0, line 0, mode 2 *)
Theorem C13_on_restarts : forall (h : list ev) (v : N),
  on (lcd_run h) = false -> N.testbit v 7 = true ->
  exists s, ppu_run (map op_of (h ++ [Write LCDC v])) = Ok s
    /\ N.land (ppu_read_stat (fst s)) 3 = 2 /\ ppu_read_ly (fst s) = 0
    /\ since (lcd_run (h ++ [Write LCDC v])) = 0.
Proof. exact lcd_on_restart. Qed.
Print Assumptions C13_on_restarts.

(* The schedule has period 17,556 after the first frame, which is two cycles short: line 0 begins at cycle 1
   and then at cycles 17555 + 17556 n only. *)
Theorem C13_frame_period : forall k : N,
  63 <= k -> spec_ly (k + 17556) = spec_ly k /\ spec_mode (k + 17556) = spec_mode k.
Proof. exact spec_period. Qed.
Print Assumptions C13_frame_period.

Theorem C13_frame_starts : forall k : N,
  1 <= k -> (pos k = 0 <-> k = 1 \/ exists n, k = 17555 + 17556 * n).
Proof. exact frame_starts. Qed.
Print Assumptions C13_frame_starts.

(* The closed form read line by line, in the words of the statement: from the first cycle k of any line
   (after the first one), LY is constant for 114 cycles, with mode 2 for 20 cycles, mode 3 until cycle 61,
   then mode 0 (lines 0-143) or mode 1 throughout (lines 144-153); then LY advances by one, 153 wrapping to 0. *)
Theorem C13_line_shape : forall k j : N,
  63 <= k -> dot_of (pos k) = 0 -> j < 114 ->
  spec_ly (k + j) = spec_ly k
  /\ spec_mode (k + j) = (if spec_ly k <? 144 then (if j <? 20 then 2 else if j <? 61 then 3 else 0) else 1).
Proof. exact line_shape. Qed.
Print Assumptions C13_line_shape.

Theorem C13_next_line : forall k : N,
  63 <= k -> dot_of (pos k) = 0 ->
  spec_ly (k + 114) = (spec_ly k + 1) mod 154 /\ dot_of (pos (k + 114)) = 0.
Proof. exact next_line. Qed.
Print Assumptions C13_next_line.

(* The first line after switching on is two cycles shorter: cycles 1..112 are line 0 (mode 2 for 20 cycles,
   mode 3 until cycle 61, mode 0 for 51 instead of 53), and line 1 begins at cycle 113. *)
Theorem C13_first_line : forall k : N,
  1 <= k -> k <= 112 ->
  spec_ly k = 0 /\ spec_mode k = (if k <=? 20 then 2 else if k <=? 61 then 3 else 0).
Proof. exact first_line. Qed.
Print Assumptions C13_first_line.

Theorem C13_second_line_start : spec_ly 113 = 1 /\ dot_of (pos 113) = 0.
Proof. exact second_line_start. Qed.
Print Assumptions C13_second_line_start.

(* Non-vacuity: a concrete history — 200 cycles, LCD off at an odd moment, two cycles, LCD on, 70 cycles with
   an LYC write and OAM activity in between — satisfies the hypotheses of C13_on with k = 70, where the
   schedule says line 0 (short first line: position 71), mode 0. *)
Example C13_example :
  let h : list ev := repeat Tick (N.to_nat 200) ++ [Write LCDC 0x11; Tick; Tick; Write LCDC 0x91]
                     ++ repeat Tick 30 ++ [Write LYC 5; Env (fun o => oam_enter_mode2 o)] ++ repeat Tick 40 in
  on (lcd_run h) = true /\ since (lcd_run h) = 70 /\ ly_stale (lcd_run h) = false
  /\ spec_ly 70 = 0 /\ spec_mode 70 = 0.
Proof. vm_compute. repeat split. Qed.
