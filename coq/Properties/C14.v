(* C14 — VBlank and STAT interrupts are requested exactly at their conditions.
   Only statements, each closed by [exact] of a lemma proved in proofs/, with Print Assumptions.

   [ppu_next_req (map op_of h)] is the mask of IF bits (bit 0 VBlank, bit 1 STAT) that the model's
   EndMachineCycle raises in the machine cycle that follows history h (this is what one observes in IF when
   IF is cleared after every cycle).  With a := lcd_run h, that cycle is number k = since a + 1 after the
   last switch-on.  Histories are as in C13: cycles, writes to any PPU register (LCDC, STAT, LYC included) at
   any moment, arbitrary activity on OAM.  All instants are closed forms in k over [pos] (LcdSpec). *)
From V.lib Require Import Bits Mem Res.
From V.model Require Import Oam PpuTiming.
From V.spec Require Import LcdSpec.
From V.proofs Require Import LcdLemmas LcdProofs.

(* VBlank (IF bit 0) is requested in a cycle iff the LCD is on and that cycle is the first of line 144
   (pos k = 144*114) — for every history, every k, every frame; with the LCD off nothing at all is requested. *)
Theorem C14_vblank : forall h : list ev,
  exists rq, ppu_next_req (map op_of h) = Ok rq
    /\ N.testbit rq 0 = on (lcd_run h) && vblank_instant (since (lcd_run h) + 1).
Proof. exact vblank_request. Qed.
Print Assumptions C14_vblank.

Theorem C14_off_nothing : forall h : list ev,
  on (lcd_run h) = false -> ppu_next_req (map op_of h) = Ok 0.
Proof. exact next_req_off. Qed.
Print Assumptions C14_off_nothing.

(* "exactly once per frame": the first cycle of line 144 is cycle 16415 + 17556 n, n = 0, 1, 2, ... *)
Theorem C14_vblank_once_per_frame : forall k : N,
  1 <= k -> (vblank_instant k = true <-> exists n, k = 16415 + 17556 * n).
Proof. exact vblank_instants. Qed.
Print Assumptions C14_vblank_once_per_frame.

(* Single STAT sources.  [only_source stat m]: bits 6-3 of the last value written to STAT are exactly m. *)

(* HBlank source: STAT is requested iff the cycle enters mode 0 (dot 61 of a line 0-143) *)
Theorem C14_hblank : forall h : list ev,
  on (lcd_run h) = true -> only_source (lastw (lcd_run h) STAT) SRC_HBLANK ->
  exists rq, ppu_next_req (map op_of h) = Ok rq
    /\ N.testbit rq 1 = hblank_instant (since (lcd_run h) + 1).
Proof. exact hblank_source. Qed.
Print Assumptions C14_hblank.

(* VBlank source: iff line 144 begins *)
Theorem C14_vblank_src : forall h : list ev,
  on (lcd_run h) = true -> only_source (lastw (lcd_run h) STAT) SRC_VBLANK ->
  exists rq, ppu_next_req (map op_of h) = Ok rq
    /\ N.testbit rq 1 = vblank_instant (since (lcd_run h) + 1).
Proof. exact vblank_source. Qed.
Print Assumptions C14_vblank_src.

(* OAM source: iff a line 0-143 begins — line 0 of every frame included (repaired defect) — where the
   statement leaves open the start of line 144 and the cycle right after switch-on ([oam_open]). *)
Theorem C14_oam : forall h : list ev,
  on (lcd_run h) = true -> only_source (lastw (lcd_run h) STAT) SRC_OAM ->
  exists rq, ppu_next_req (map op_of h) = Ok rq
    /\ req_ok oam_open oam_instant (since (lcd_run h) + 1) (N.testbit rq 1).
Proof. exact oam_source. Qed.
Print Assumptions C14_oam.

(* what the model does at the open instants: no request at the start of line 144 nor right after switch-on *)
Theorem C14_oam_model : forall h : list ev,
  on (lcd_run h) = true -> only_source (lastw (lcd_run h) STAT) SRC_OAM ->
  exists rq, ppu_next_req (map op_of h) = Ok rq
    /\ N.testbit rq 1 = oam_instant (since (lcd_run h) + 1) && negb (since (lcd_run h) + 1 =? 1).
Proof. exact oam_source_exact. Qed.
Print Assumptions C14_oam_model.

(* LYC source: iff the cycle is the first of line LYC (pos k = 114 * LYC), for the value LYC holds in that
   cycle (in particular for a constant LYC, every frame); LYC > 153 never matches.  The statement leaves the
   cycle right after switch-on open ([lyc_open]); the model is exact there too (C14_lyc_model). *)
Theorem C14_lyc : forall h : list ev,
  on (lcd_run h) = true -> only_source (lastw (lcd_run h) STAT) SRC_LYC ->
  exists rq, ppu_next_req (map op_of h) = Ok rq
    /\ req_ok lyc_open (lyc_instant (lastw (lcd_run h) LYC)) (since (lcd_run h) + 1) (N.testbit rq 1).
Proof. exact lyc_source. Qed.
Print Assumptions C14_lyc.

Theorem C14_lyc_model : forall h : list ev,
  on (lcd_run h) = true -> only_source (lastw (lcd_run h) STAT) SRC_LYC ->
  exists rq, ppu_next_req (map op_of h) = Ok rq
    /\ N.testbit rq 1 = lyc_instant (lastw (lcd_run h) LYC) (since (lcd_run h) + 1).
Proof. exact lyc_source_exact. Qed.
Print Assumptions C14_lyc_model.

Theorem C14_lyc_out_of_range : forall lyc k : N, 153 < lyc -> lyc_instant lyc k = false.
Proof. exact lyc_out_of_range. Qed.
Print Assumptions C14_lyc_out_of_range.

(* The general closed form behind the single-source theorems: any combination of sources, any LYC. *)
Theorem C14_all_sources : forall h : list ev,
  ppu_next_req (map op_of h) =
  Ok (let a := lcd_run h in
      if on a then req_exact (since a + 1) (stat_of (lastw a STAT)) (lastw a LYC) else 0).
Proof. exact lcd_requests. Qed.
Print Assumptions C14_all_sources.

(* Non-vacuity: OAM source only, second frame: the cycle after 17,554 cycles is cycle 17555, the first of
   line 0 of the second frame, and STAT is requested there; LYC source with LYC = 153 at cycle 17441. *)
Example C14_example_oam :
  let h : list ev := [Write STAT 0x20] ++ repeat Tick (N.to_nat 17554) in
  on (lcd_run h) = true /\ only_source (lastw (lcd_run h) STAT) SRC_OAM
  /\ oam_open (since (lcd_run h) + 1) = false /\ oam_instant (since (lcd_run h) + 1) = true.
Proof. vm_compute. repeat split. Qed.

Example C14_example_lyc :
  let h : list ev := [Write STAT 0x40; Write LYC 153] ++ repeat Tick (N.to_nat 17440) in
  on (lcd_run h) = true /\ only_source (lastw (lcd_run h) STAT) SRC_LYC
  /\ lyc_instant (lastw (lcd_run h) LYC) (since (lcd_run h) + 1) = true.
Proof. vm_compute. repeat split. Qed.
