(* C06 — address space and I/O registers read back as on a DMG.
   Only statements, each closed by [exact] of a lemma proved in proofs/Mapper*.v, with Print Assumptions.

   Vocabulary.  [read_handler] / [write_handler] (System.v) interpret the two address decoders of memory/mapper.go as
   regenerated into gen/GenMapper.v on every run; [spec_region] / [handler_of] (spec/AddrSpec.v) are the DMG memory
   map written independently.  A history is a list of bus operations [BRead a | BWrite a v | BHw] (Mapper.Read,
   Mapper.Write, the hardware half of a machine cycle: PPU incl. renderer, DMA, cartridge clock, APU, timer);
   [bus_run s h] runs it from ANY machine state s; [wf_bop]: addresses are 16-bit.  [peek s a] is the byte
   Mapper.Read returns.  [amem_run m h] is the abstract memory "cell -> last byte written" started from m, in which
   E000-FDFF and C000-DDFF name the same cell ([canon]).  The CPU-triggered OAM corruption is not a bus operation
   and belongs to C17. *)
From V.lib Require Import Bits Mem Res.
From V.model Require Import Ints Joypad Timer Oam PpuTiming MapperTypes Cart System.
From V.gen Require Import GenMapper.
From V.spec Require Import AddrSpec.
From V.proofs Require Import MapperDecode MapperFrame MapperFootprint MapperHw MapperPlain MapperRegs.

(* ---- the decoder: every 16-bit address is routed to the component the memory map prescribes, for reads and
   for writes (65,536 addresses each, by computation) ---- *)
Theorem C06_decoder : forall a, a < 65536 ->
  read_handler a = handler_of (spec_region a) /\ write_handler a = handler_of (spec_region a).
Proof. exact decoder_ok. Qed.
Print Assumptions C06_decoder.

(* the Go arrays behind C000-DFFF and FF80-FFFE cover their regions *)
Theorem C06_backing_sizes : 0x2000 <= internalRAM_size /\ 0x7F <= zeroPage_size.
Proof. exact backing_sizes_ok. Qed.
Print Assumptions C06_backing_sizes.

Example C06_decoder_examples :
  spec_region 0xFDFF = GEcho /\ spec_region 0xFE00 = GOam /\ spec_region 0xFE9F = GOam /\
  spec_region 0xFEA0 = GUnusable /\ spec_region 0xFF03 = GUnmapped /\ spec_region 0xFF07 = GIo R_TAC /\
  spec_region 0xFF4A = GIo R_WY /\ spec_region 0xFF7F = GUnmapped /\ spec_region 0xFFFE = GHram /\
  spec_region 0xFFFF = GIo R_IE.
Proof. repeat split. Qed.

(* ---- plain memory: work RAM C000-DFFF, its echo E000-FDFF, high RAM FF80-FFFE, IE, and video RAM 8000-9FFF
   (in this emulator with the LCD on or off; the statement only asks for "LCD off") read the last byte written to
   the cell — through either of its two addresses — and what the cell held in the initial state otherwise.
   Every state, every history. ---- *)
Theorem C06_wram_hram_ie_plain : forall (s : sys) (h : list bop) (s' : sys) (a : N),
  forallb wf_bop h = true -> bus_run s h = Ok s' -> a < 65536 -> is_plain a = true ->
  peek s' a = Ok (amem_run (abs_mem s) h (canon a)).
Proof. exact plain_memory. Qed.
Print Assumptions C06_wram_hram_ie_plain.

(* from power-on the cells start as 0 *)
Theorem C06_plain_from_power_on : forall img ser aud c s0 (h : list bop) (s' : sys) (a : N),
  sys_new img ser aud = Ok (c, s0) ->
  forallb wf_bop h = true -> bus_run s0 h = Ok s' -> a < 65536 -> is_plain a = true ->
  peek s' a = Ok (amem_run (fun _ => 0) h (canon a)).
Proof. exact plain_memory_power_on. Qed.
Print Assumptions C06_plain_from_power_on.

(* E000-FDFF mirrors C000-DDFF in both directions: after any history both addresses read the same byte *)
Theorem C06_echo_both_ways : forall (s : sys) (h : list bop) (s' : sys) (a : N),
  forallb wf_bop h = true -> bus_run s h = Ok s' -> 0xC000 <= a < 0xDE00 ->
  peek s' (a + 0x2000) = peek s' a.
Proof. exact echo_mirror. Qed.
Print Assumptions C06_echo_both_ways.

(* OAM FE00-FE9F is plain memory while no DMA transfer is running or started (VRAM is covered above); this holds
   with the LCD on as well, the statement asks for LCD off only *)
Theorem C06_vram_oam_plain_lcd_off : forall (s : sys) (h : list bop) (s' : sys) (a : N),
  forallb wf_bop h = true -> no_dma_start h = true -> dma_idle s = true -> bus_run s h = Ok s' ->
  a < 65536 -> is_oam a = true ->
  peek s' a = Ok (amem_run (oam_cell s) h a).
Proof. exact oam_memory. Qed.
Print Assumptions C06_vram_oam_plain_lcd_off.

Theorem C06_oam_from_power_on : forall img ser aud c s0 (h : list bop) (s' : sys) (a : N),
  sys_new img ser aud = Ok (c, s0) ->
  forallb wf_bop h = true -> no_dma_start h = true -> bus_run s0 h = Ok s' -> a < 65536 -> is_oam a = true ->
  peek s' a = Ok (amem_run (fun _ => 0) h a).
Proof. exact oam_memory_power_on. Qed.
Print Assumptions C06_oam_from_power_on.

(* FEA0-FEFF reads 0 while OAM is accessible *)
Theorem C06_fea0_reads_zero : forall (s : sys) (h : list bop) (s' : sys) (a : N),
  forallb wf_bop h = true -> no_dma_start h = true -> dma_idle s = true -> bus_run s h = Ok s' ->
  a < 65536 -> is_unusable a = true -> peek s' a = Ok 0.
Proof. exact unusable_reads_zero. Qed.
Print Assumptions C06_fea0_reads_zero.

(* unmapped I/O addresses (FF03, FF08-FF0E, FF15, FF1F, FF27-FF2F, FF4C-FF7F) read FF in every state and a write
   to them leaves the whole machine state as it was *)
Theorem C06_unmapped_ff_ignored : forall (s : sys) (a v : N),
  a < 65536 -> is_unmapped a = true -> peek s a = Ok 255 /\ sys_write s a v = Ok s.
Proof. exact unmapped_ff_ignored. Qed.
Print Assumptions C06_unmapped_ff_ignored.

(* ---- registers ---- *)
(* The register table of the specification (AddrSpec.reg_masks): TAC (07|F8), TMA, SCY, SCX, LYC, BGP, OBP0, OBP1, WY,
   WX, LCDC (all eight bits, incl. the enable bit), DMA, IE (FF|00): after ANY history from ANY state the register
   reads (last byte written & writable) | ones.  No exception: OBP0 / OBP1 read back all eight bits since the
   repair "fix: OBP0 and OBP1 read back all eight bits" (before it bits 1-0 read 0; corpus/C06/obp_low_bits.txt). *)
Theorem C06_register_masks : forall r (s : sys) (h : list bop) (s' : sys) (v wm ones : N),
  stable_reg r = true -> reg_masks r = Some (wm, ones) ->
  forallb wf_bop h = true -> bus_run s h = Ok s' -> last_written (reg_addr r) h = Some v -> v < 256 ->
  peek s' (reg_addr r) = Ok (N.lor (N.land v wm) ones).
Proof. exact register_masks. Qed.
Print Assumptions C06_register_masks.

(* the table is not vacuous: it has an entry for every register the theorem ranges over *)
Example C06_register_table_covers :
  forallb (fun r => negb (stable_reg r) || match reg_masks r with Some _ => true | None => false end) all_regs = true.
Proof. reflexivity. Qed.

(* a register never written keeps reading what it read *)
Theorem C06_register_unwritten : forall r (s : sys) (h : list bop) (s' : sys),
  stable_reg r = true -> forallb wf_bop h = true -> bus_run s h = Ok s' -> last_written (reg_addr r) h = None ->
  peek s' (reg_addr r) = peek s (reg_addr r).
Proof. exact register_unwritten. Qed.
Print Assumptions C06_register_unwritten.

(* FF46 reads back the last value written (repaired defect), during and after the transfer *)
Theorem C06_dma_readback : forall (s : sys) (h : list bop) (s' : sys) (v : N),
  forallb wf_bop h = true -> bus_run s h = Ok s' -> last_written 0xFF46 h = Some v -> v < 256 ->
  peek s' 0xFF46 = Ok v.
Proof. exact dma_readback. Qed.
Print Assumptions C06_dma_readback.

(* IF: bits 7-5 read 1; the five request bits are the last byte written & 1F plus whatever the hardware raised since
   (bits are only ever added); with no hardware cycle since the write the register reads exactly (v & 1F) | E0.
   Hypothesis: the five-bit request field is in range in the initial state (true after construction, preserved). *)
Theorem C06_if_register : forall (s : sys) (h : list bop) (s' : sys) (v : N),
  forallb wf_bop h = true -> ifl (s_ints s) < 32 -> bus_run s h = Ok s' -> last_written 0xFF0F h = Some v ->
  exists x, peek s' 0xFF0F = Ok x /\ x < 256 /\ N.land x 0xE0 = 0xE0 /\
            N.land (ifl (s_ints s')) (N.land v 0x1F) = N.land v 0x1F /\ x = N.lor (ifl (s_ints s')) 0xE0 /\
            (hw_since_write 0xFF0F h = false -> x = N.lor (N.land v 0x1F) 0xE0).
Proof. exact if_register. Qed.
Print Assumptions C06_if_register.

(* STAT: bit 7 reads 1, bits 6-3 read back, bits 2-0 (coincidence, mode) are read-only status.
   Hypothesis: the mode field is a mode (0-3) in the initial state (true after construction, preserved). *)
Theorem C06_stat_register : forall (s : sys) (h : list bop) (s' : sys) (v : N),
  forallb wf_bop h = true -> p_mode (s_ppu s) < 4 -> bus_run s h = Ok s' -> last_written 0xFF41 h = Some v -> v < 256 ->
  exists x, peek s' 0xFF41 = Ok x /\ N.land x 0xF8 = N.lor 0x80 (N.land v 0x78).
Proof. exact stat_register. Qed.
Print Assumptions C06_stat_register.

(* JOYP: bits 7-6 read 1, bits 5-4 read back; bits 3-0 are the button lines (C22) *)
Theorem C06_joyp_register : forall (s : sys) (h : list bop) (s' : sys) (v : N),
  forallb wf_bop h = true -> bus_run s h = Ok s' -> last_written 0xFF00 h = Some v -> v < 256 ->
  exists x, peek s' 0xFF00 = Ok x /\ N.land x 0x30 = N.land v 0x30 /\ N.land x 0xC0 = 0xC0.
Proof. exact joyp_register. Qed.
Print Assumptions C06_joyp_register.

(* LY and DIV are not writable: the machine after writing v is the machine after writing 0 (the value is ignored),
   and the register then reads 0 — never the written value, unless that was 0 *)
Theorem C06_ly_div_not_writable : forall (s : sys) (v : N),
  (sys_write s 0xFF44 v = sys_write s 0xFF44 0 /\ exists s', sys_write s 0xFF44 v = Ok s' /\ peek s' 0xFF44 = Ok 0) /\
  (sys_write s 0xFF04 v = sys_write s 0xFF04 0 /\ exists s', sys_write s 0xFF04 v = Ok s' /\ peek s' 0xFF04 = Ok 0).
Proof. exact ly_div_not_writable. Qed.
Print Assumptions C06_ly_div_not_writable.

(* SB and SC of this emulator read FF in every state *)
Theorem C06_serial_reads_ff : forall s : sys, peek s 0xFF01 = Ok 255 /\ peek s 0xFF02 = Ok 255.
Proof. exact serial_reads_ff. Qed.
Print Assumptions C06_serial_reads_ff.

(* the well-formedness hypotheses hold after construction *)
Theorem C06_power_on_wf : forall img ser aud c s0, sys_new img ser aud = Ok (c, s0) ->
  dma_idle s0 = true /\ ifl (s_ints s0) < 32 /\ p_mode (s_ppu s0) < 4.
Proof. exact power_on_wf. Qed.
Print Assumptions C06_power_on_wf.

(* non-vacuity: a machine is constructed from the demo image, and a history with an echo write, a register write
   and hardware cycles runs on it *)
Example C06_history_runs :
  exists c s0 s', sys_new demo_image true false = Ok (c, s0) /\
    bus_run s0 [BWrite 0xE123 7; BHw; BWrite 0xFF07 5; BRead 0xFE00; BHw; BWrite 0xFF0F 0] = Ok s' /\
    peek s' 0xC123 = Ok 7 /\ peek s' 0xFF07 = Ok 0xFD /\ peek s' 0xFF0F = Ok 0xE0.
Proof.
  destruct (sys_new demo_image true false) as [[c s]| |] eqn:E; [|vm_compute in E; discriminate E ..].
  exists c, s.
  assert (X : exists s', bus_run s [BWrite 0xE123 7; BHw; BWrite 0xFF07 5; BRead 0xFE00; BHw; BWrite 0xFF0F 0] = Ok s').
  { injection E as _ <-. eexists. vm_compute. reflexivity. }
  destruct X as [s' Hs']. exists s'. injection E as _ <-.
  split; [reflexivity|]. split; [exact Hs'|].
  vm_compute in Hs'. injection Hs' as <-. repeat split; vm_compute; reflexivity.
Qed.
