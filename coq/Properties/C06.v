(* C06 — address space and I/O registers read back as on a DMG.
   Only statements, each closed by [exact] of a lemma proved in proofs/Mapper*.v, with Print Assumptions.

   [read_handler] / [write_handler] (System.v) interpret the two address decoders of memory/mapper.go as
   regenerated into gen/GenMapper.v on every run; [spec_region] / [handler_of] (spec/AddrSpec.v) are the DMG
   memory map written independently. *)
From V.lib Require Import Bits Mem Res.
From V.model Require Import MapperTypes System.
From V.gen Require Import GenMapper.
From V.spec Require Import AddrSpec.
From V.proofs Require Import MapperDecode.

(* ---- the decoder: every 16-bit address is routed to the component the memory map prescribes, for reads and
   for writes (65,536 addresses each, by computation) ---- *)
Theorem C06_decoder : forall a, a < 65536 ->
  read_handler a = handler_of (spec_region a) /\ write_handler a = handler_of (spec_region a).
Proof. intros a H. split; [exact (decode_read_ok a H) | exact (decode_write_ok a H)]. Qed.
Print Assumptions C06_decoder.

(* the Go arrays behind C000-DFFF and FF80-FFFE cover their regions *)
Theorem C06_backing_sizes : 0x2000 <= internalRAM_size /\ 0x7F <= zeroPage_size.
Proof. exact backing_sizes_ok. Qed.
Print Assumptions C06_backing_sizes.

Example C06_decoder_examples :
  spec_region 0xFDFF = GEcho /\ spec_region 0xFE00 = GOam /\ spec_region 0xFE9F = GOam /\
  spec_region 0xFEA0 = GUnusable /\ spec_region 0xFF03 = GUnmapped /\ spec_region 0xFF07 = GIo R_TAC /\
  spec_region 0xFF4A = GIo R_WY /\ spec_region 0xFF7F = GUnmapped /\ spec_region 0xFFFE = GHram /\
  spec_region 0xFFFF = GIo R_IE.
Proof. repeat split. Qed.
