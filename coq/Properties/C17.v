(* C17 — OAM is only altered by CPU writes, DMA, or the mode-2 OAM bug.
   The statements are about the whole-machine model (System.v): the CPU model over the real bus, the PPU with the
   renderer, the DMA engine, in runFrame's generated order.  [Fresh cs0] is the state gameboy.New builds (any
   cartridge), [reachable cs0 cs] a state after any number of machine cycles, [Safe] the system invariant of C11. *)
From V.lib Require Import Bits Mem Res.
From V.model Require Import Cpu Oam PpuTiming Cart System.
From V.proofs Require Import SafeCart SafeBus SafeCpu SafeSys OamProofs OamBugSys.

(* The corruption window ([oam.corrupt], which gates TriggerWriteCorruption, Read and Write bookkeeping) is open
   exactly when the LCD is on and the PPU is in mode 2 — in every state of every run, whatever the program does
   (LCDC writes at any cycle, DMA, interrupts ...), whatever the cartridge. *)
Theorem C17_corrupt_iff : forall img ser aud cs0 cs,
  img_bytes img -> sys_new img ser aud = Ok cs0 -> reachable cs0 cs ->
  (o_corrupt (s_oam (snd cs)) = true <-> p_enabled (s_ppu (snd cs)) = true /\ p_mode (s_ppu (snd cs)) = 2).
Proof.
  intros img ser aud cs0 cs Hi E HR. apply bus_inv_corrupt_iff.
  apply (reachable_bus_inv cs0 cs); [eapply sys_new_fresh; eassumption|exact HR].
Qed.
Print Assumptions C17_corrupt_iff.

(* ... and also between the steps of a machine cycle: after the CPU's step (bus operations, OAM triggers, Corrupt) *)
Theorem C17_corrupt_iff_after_cpu : forall cs, Safe cs ->
  let s := snd (sys_cpu_cycle cs) in
  (o_corrupt (s_oam s) = true <-> p_enabled (s_ppu s) = true /\ p_mode (s_ppu s) = 2).
Proof.
  intros [c s] HS. cbv zeta. apply bus_inv_corrupt_iff. destruct (sys_cpu_cycle_safe c s HS) as (_ & _ & C3 & _). apply C3.
Qed.
Print Assumptions C17_corrupt_iff_after_cpu.

(* the invariant that carries it is preserved by every bus operation as well (Mapper.Read / Mapper.Write at any
   address with any byte, hardware cycles, buttons) *)
Theorem C17_corrupt_iff_bus : forall s, bus_inv s ->
  (o_corrupt (s_oam s) = true <-> p_enabled (s_ppu s) = true /\ p_mode (s_ppu s) = 2).
Proof. exact bus_inv_corrupt_iff. Qed.
Print Assumptions C17_corrupt_iff_bus.

(* every reachable state but the very first satisfies Safe *)
Theorem C17_reachable_safe : forall img ser aud cs0 cs,
  img_bytes img -> sys_new img ser aud = Ok cs0 -> reachable cs0 cs -> cs = cs0 \/ Safe cs.
Proof. intros img ser aud cs0 cs Hi E HR. apply reachable_safe; [eapply sys_new_fresh; eassumption|exact HR]. Qed.
Print Assumptions C17_reachable_safe.

(* One machine cycle: an OAM byte that differs afterwards was written by the CPU's micro-operation of this cycle
   (its address FE00+i is among the addresses the micro-operation writes), or by the DMA tick of this cycle (a
   transfer is running and i is the cell of this tick), or the cycle began with the LCD on in mode 2. *)
Theorem C17_oam_change : forall cs cs', Safe cs -> sys_cycle cs = Ok cs' ->
  forall i, i < 160 ->
    Mem.get (o_mem (s_oam (snd cs'))) i <> Mem.get (o_mem (s_oam (snd cs))) i ->
    cpu_writes (fst cs) (snd cs) (0xFE00 + i) \/
    dma_writes (s_oam (snd (sys_cpu_cycle cs))) i \/
    (p_enabled (s_ppu (snd cs)) = true /\ p_mode (s_ppu (snd cs)) = 2).
Proof. exact oam_change. Qed.
Print Assumptions C17_oam_change.

(* With the LCD off — however and whenever it was switched off: [cs] is ANY safe state — no CPU activity other than a
   write to the byte's own address alters OAM: 16-bit INC/DEC, PUSH/POP, reads, writes elsewhere with pointers in
   FE00-FEFF leave every byte as it was; the only other writer is a running DMA. *)
Theorem C17_lcd_off_inert : forall cs cs', Safe cs -> p_enabled (s_ppu (snd cs)) = false -> sys_cycle cs = Ok cs' ->
  forall i, i < 160 ->
    Mem.get (o_mem (s_oam (snd cs'))) i <> Mem.get (o_mem (s_oam (snd cs))) i ->
    cpu_writes (fst cs) (snd cs) (0xFE00 + i) \/ dma_writes (s_oam (snd (sys_cpu_cycle cs))) i.
Proof. exact lcd_off_inert. Qed.
Print Assumptions C17_lcd_off_inert.

(* the same with the LCD on outside mode 2 *)
Theorem C17_outside_mode2_inert : forall cs cs', Safe cs -> p_mode (s_ppu (snd cs)) <> 2 -> sys_cycle cs = Ok cs' ->
  forall i, i < 160 ->
    Mem.get (o_mem (s_oam (snd cs'))) i <> Mem.get (o_mem (s_oam (snd cs))) i ->
    cpu_writes (fst cs) (snd cs) (0xFE00 + i) \/ dma_writes (s_oam (snd (sys_cpu_cycle cs))) i.
Proof. exact outside_mode2_inert. Qed.
Print Assumptions C17_outside_mode2_inert.

(* with the LCD off the window is closed *)
Theorem C17_lcd_off_window_closed : forall s, bus_inv s -> p_enabled (s_ppu s) = false -> o_corrupt (s_oam s) = false.
Proof. exact lcd_off_window_closed_sys. Qed.
Print Assumptions C17_lcd_off_window_closed.

(* component level (OamProofs): a closed window with no pending access makes trigger, Corrupt and reads the identity *)
Theorem C17_window_closed_inert : forall o,
  o_corrupt o = false -> flags_off o ->
  (forall a, oam_trigger_write_corruption o a = o) /\ oam_corrupt o = Ok o /\
  (forall a o' v, oam_read o a = Ok (o', v) -> o' = o).
Proof. exact window_closed_inert. Qed.
Print Assumptions C17_window_closed_inert.

(* Non-vacuity: a machine that constructs; after 40 machine cycles it is in mode 3 with the window closed, after 120
   cycles (line 1, mode 2) the window is open. *)
Example C17_example_image : image :=
  mkImage 32768 (fun a => if a =? 327 then 0 else 0).

Definition C17_example_check : bool :=
  match sys_new C17_example_image true false with
  | Ok cs0 =>
      match sys_cycles 40 cs0, sys_cycles 120 cs0 with
      | Ok cs1, Ok cs2 =>
          negb (o_corrupt (s_oam (snd cs1))) && (p_mode (s_ppu (snd cs1)) =? 3) &&
          o_corrupt (s_oam (snd cs2)) && (p_mode (s_ppu (snd cs2)) =? 2)
      | _, _ => false
      end
  | _ => false
  end.

Example C17_example : C17_example_check = true.
Proof. vm_compute. reflexivity. Qed.
