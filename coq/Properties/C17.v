(* C17 — OAM is only altered by CPU writes, DMA, or the mode-2 OAM bug.  WORK IN PROGRESS: whole-machine theorems are
   added as they are proved; the component-level facts are in proofs/OamProofs.v. *)
From V.lib Require Import Bits Mem Res.
From V.model Require Import Oam PpuTiming.
From V.proofs Require Import OamProofs.

Theorem C17_window_closed_inert : forall o,
  o_corrupt o = false -> flags_off o ->
  (forall a, oam_trigger_write_corruption o a = o) /\ oam_corrupt o = Ok o /\
  (forall a o' v, oam_read o a = Ok (o', v) -> o' = o).
Proof. exact window_closed_inert. Qed.
Print Assumptions C17_window_closed_inert.
