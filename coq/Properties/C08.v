(* C08 — cartridge ROM banking follows each controller's register semantics.
   Only statements, each closed by [exact] of a lemma proved in proofs/, with Print Assumptions. *)
From V.lib Require Import Bits Mem Res.
From V.model Require Import Rtc Cart.
From V.spec Require Import CartSpec.
From V.proofs Require Import CartLemmas CartInv CartRun CartSafe CartRomProofs.

(* For every image that memory.New accepts (any length, any header), every history of operations - writes of
   bytes to ANY address (the control area 0000-7FFF, cartridge RAM, anything else), reads, clock ticks, RAM
   dumps - and every address below 0x8000: the run does not crash and the byte read is

       image[(spec_bank k history addr mod nbanks) * 0x4000 + addr mod 0x4000]

   where k is the controller the header names, nbanks = length / 0x4000, and spec_bank is the documented
   register semantics evaluated on the write history ("most recent write to the register's region"):
   ROM-only 0/1; MBC1 5+2 bits with 0->1 on the 5-bit field and the mode-dependent low window; MBC2 4 bits
   via A8, 0->1; MBC3 7 bits, 0->1; MBC5 9 bits, 0 allowed.
   Range of ROM sizes: every size for ROM-only, MBC1, MBC2, MBC3; MBC5 up to 512 banks (8 MiB, the 9-bit
   register) - [addressable].  Beyond that the cartridge stays safe (C11) but shows a 16-bit register. *)
Theorem C08_rom_read : forall (img : image) (c0 : cart) (ops : list cop) (addr : N),
  cart_construct img = Ok c0 -> Forall wf_op ops -> addr < 32768 ->
  exists k c,
    ctrl_of_type (img_at img 327) = Some k /\ cart_run c0 ops = Ok c /\
    (addressable k (img_len img / 16384) = true ->
     cart_read c addr = Ok (spec_rom_read k (img_len img / 16384) (img_at img) (writes_of ops) addr)).
Proof. exact rom_read_history. Qed.
Print Assumptions C08_rom_read.

(* Writes never change ROM contents: after any history whatsoever (no well-formedness needed) the image, its
   size and the controller type are those of construction. *)
Theorem C08_rom_immutable : forall (img : image) (c0 : cart) (ops : list cop) (c : cart),
  cart_construct img = Ok c0 -> cart_run c0 ops = Ok c ->
  c_img c = img /\ c_nrom c = img_len img / 16384 /\ c_kind c = c_kind c0.
Proof. exact rom_immutable. Qed.
Print Assumptions C08_rom_immutable.

(* "every declared ROM size": construction succeeds exactly for complete, consistent headers of a supported
   type - length a multiple of 16 KiB equal to 32 KiB << code. *)
Theorem C08_construct_succeeds : forall img : image,
  336 <= img_len img -> img_len img mod 16384 = 0 ->
  img_at img 328 <= 61 -> img_len img / 16384 = 2 * 2 ^ img_at img 328 ->
  ctrl_of_type (img_at img 327) <> None ->
  exists c0, cart_construct img = Ok c0.
Proof. exact construct_succeeds. Qed.
Print Assumptions C08_construct_succeeds.

Theorem C08_construct_fails : forall img : image,
  (img_len img < 336 \/ img_len img mod 16384 <> 0 \/ 61 < img_at img 328 \/
   img_len img / 16384 <> 2 * 2 ^ img_at img 328 \/ ctrl_of_type (img_at img 327) = None) ->
  exists w, cart_construct img = Crash w.
Proof. exact construct_fails. Qed.
Print Assumptions C08_construct_fails.

(* Non-vacuity: a 128 KiB MBC1 image (8 banks); select bank2 = 1, bank1 = 0x25 -> 5, mode 1; the high window shows
   bank (32 + 5) mod 8 = 5, the low window bank 32 mod 8 = 0. *)
Example C08_example :
  let img := mkImage 131072 (fun a => if a =? 327 then 1 else if a =? 328 then 2 else if a =? 329 then 0
                                      else a / 16384 + 7 * (a mod 16384)) in
  let ops := [CWrite 16384 1; CWrite 8192 37; CWrite 24576 1; CRead 0; CTick 5] in
  Forall wf_op ops /\
  exists c0 c, cart_construct img = Ok c0 /\ cart_run c0 ops = Ok c /\
               cart_read c 16385 = Ok (5 + 7 * 1) /\
               spec_rom_read Mbc1 8 (img_at img) (writes_of ops) 16385 = 5 + 7 * 1.
Proof.
  split; [repeat constructor; cbn; lia|].
  eexists. eexists. split; [vm_compute; reflexivity|]. split; [vm_compute; reflexivity|].
  split; vm_compute; reflexivity.
Qed.
