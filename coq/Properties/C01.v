(* C01 — placeholder while the proofs are being built; replaced below in this round *)
From V.lib Require Import Bits.
Theorem C01_placeholder : True. Proof. exact I. Qed.
Print Assumptions C01_placeholder.
