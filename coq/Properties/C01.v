(* C01 — every SM83 instruction has its documented effect on registers, flags and memory.
   Statements only; each is closed by [exact] of a lemma proved in proofs/. *)
From V.lib Require Import Bits.
From V.model Require Import Uop Alu Cpu CpuTables.
From V.gen Require Import GenDaa.
From V.spec Require Import Sm83Spec.
From V.proofs Require Import AluProofs CpuLemmas ExpectedDispatch CpuTablesOk CpuProofs.

(* For every bus (any type B with read/write/interrupt interface; the OAM-bug hooks assumed inert, see C17), every
   well-formed CPU state at an instruction boundary at which an instruction starts, and every defined opcode at PC on
   either page: running the model (whose opcode tables are regenerated from dispatch.go) to the next boundary gives
   exactly the architectural state A,B,C,D,E,H,L,F,SP,PC (and the halted/stopped/EI-pending flags) and exactly the bus
   the documented semantics gives - "and changes nothing else": the bus is abstract, so every read and write performed,
   in order, is part of the equality. *)
Theorem C01_effect :
  forall (B : Type) (brd : B -> N -> B * N) (bwr : B -> N -> N -> B) (btrig : B -> N -> B) (bcorrupt : B -> B)
         (bime : B -> bool) (bset_ime : B -> bool -> B) (bpending : B -> N) (back : B -> N -> B),
    (forall b a, btrig b a = b) -> (forall b, bcorrupt b = b) ->
  forall s b,
    starts gen_tables B bime bpending s b -> wf s -> byte_bus B brd -> defined_at B brd bset_ime s b ->
    agrees B (run_instr gen_tables B brd bwr btrig bcorrupt bime bset_ime bpending back s b)
             (spec_instr B brd bwr bset_ime bime bpending (arch_of (set_eip false s)) (commit B bset_ime s b)).
Proof. exact instr_refines. Qed.
Print Assumptions C01_effect.

(* The opcode tables regenerated from the Go source on this run are the micro-programs the per-opcode proofs are about. *)
Theorem C01_tables : gen_tables = expected_tables.
Proof. exact gen_tables_ok. Qed.
Print Assumptions C01_tables.

(* The low four bits of F are zero (and every register stays within its width) after every instruction, including
   POP AF: well-formedness is an invariant of instruction execution. *)
Theorem C01_flags_low_nibble :
  forall (B : Type) (brd : B -> N -> B * N) (bwr : B -> N -> N -> B) (btrig : B -> N -> B) (bcorrupt : B -> B)
         (bime : B -> bool) (bset_ime : B -> bool -> B) (bpending : B -> N) (back : B -> N -> B),
    (forall b a, btrig b a = b) -> (forall b, bcorrupt b = b) -> byte_bus B brd ->
  forall s b,
    starts gen_tables B bime bpending s b -> wf s -> defined_at B brd bset_ime s b ->
    wf (fst (fst (run_instr gen_tables B brd bwr btrig bcorrupt bime bset_ime bpending back s b))).
Proof. exact run_instr_wf. Qed.
Print Assumptions C01_flags_low_nibble.

Example C01_init_wf : wf cpu_init.
Proof. unfold wf, wf_f; cbn. repeat split; reflexivity. Qed.

(* 8-bit arithmetic: the Go bit tricks equal the documented arithmetic for every A, operand and flag nibble
   (exhaustive, 2^20 cases per operation), 16-bit ADD HL for all 2^32 operand pairs, ADD SP,e for every SP and e. *)
Theorem C01_alu : forall o a u f, a < 256 -> u < 256 -> wf_f f -> alu o a u f = alu_doc o a u f.
Proof. exact alu_ok. Qed.
Print Assumptions C01_alu.
Theorem C01_addhl : forall hl u f, wf_f f -> alu_addhl hl u f = addhl_doc hl u f.
Proof. exact addhl_ok. Qed.
Print Assumptions C01_addhl.
Theorem C01_addsp : forall spv e f, e < 256 -> wf_f f -> alu_addsp spv e f = addsp_doc spv e.
Proof. exact addsp_ok. Qed.
Print Assumptions C01_addsp.

(* DAA: the model and the documented BCD adjustment both reproduce every row of the repository's daa.csv, and the
   table lists every (A, N/H/C) input. *)
Theorem C01_daa_table : forallb daa_row_ok daa_rows = true.
Proof. exact daa_table_ok. Qed.
Print Assumptions C01_daa_table.
Theorem C01_daa_table_complete : daa_inputs_present = true.
Proof. exact daa_table_complete. Qed.
Print Assumptions C01_daa_table_complete.
Print Assumptions C01_daa_table.
