(* C05 — HALT idles until an enabled request and reproduces the halt bug. *)
From V.lib Require Import Bits.
From V.model Require Import Uop Alu Cpu CpuTables.
From V.spec Require Import Sm83Spec IntSpec.
From V.proofs Require Import AluProofs CpuLemmas CpuProofs CpuIntProofs.
From V.model Require System.
From V.proofs Require SysProofs.

(* HALT itself: idles when the master enable is set or nothing is pending, otherwise arms the halt bug. *)
Theorem C05_halt_instruction :
  forall (B : Type) (brd : B -> N -> B * N) (bwr : B -> N -> N -> B) (bime : B -> bool) (bset_ime : B -> bool -> B)
         (bpending : B -> N) a b,
    snd (brd b (xpc a)) = 118 ->
    let a1 := after_fetch a in
    let b1 := fst (brd b (xpc a)) in
    spec_instr B brd bwr bset_ime bime bpending a b =
      (if bime b1 then set_xhalted true a1 else if bpending b1 =? 0 then set_xhalted true a1 else set_xhaltbug true a1,
       b1, [], 1).
Proof. exact spec_halt. Qed.
Print Assumptions C05_halt_instruction.

(* While halted, for ANY number n of machine cycles during which no enabled request appears (whatever else the
   environment does to the bus), the CPU state does not change and the CPU does not touch the bus. *)
Theorem C05_halt_idles :
  forall (B : Type) (brd : B -> N -> B * N) (bwr : B -> N -> N -> B) (btrig : B -> N -> B) (bcorrupt : B -> B)
         (bime : B -> bool) (bset_ime : B -> bool -> B) (bpending : B -> N) (back : B -> N -> B),
    (forall b a, btrig b a = b) -> (forall b, bcorrupt b = b) ->
  forall (env : nat -> B -> B) s b n k,
    boundary s -> halted s = true -> eip s = false ->
    (forall j, (j <= n)%nat -> bpending (env_bus B env k j b) = 0) ->
    run_env B brd bwr btrig bcorrupt bime bset_ime bpending back gen_tables env k n (s, b) = (s, env_bus B env k n b).
Proof. exact halt_idles. Qed.
Print Assumptions C05_halt_idles.

(* Master enable set: an enabled request is dispatched, in six machine cycles (one more than from a running CPU). *)
Theorem C05_halt_ime1 :
  forall (B : Type) (brd : B -> N -> B * N) (bwr : B -> N -> N -> B) (btrig : B -> N -> B) (bcorrupt : B -> B)
         (bime : B -> bool) (bset_ime : B -> bool -> B) (bpending : B -> N) (back : B -> N -> B),
    (forall b a, btrig b a = b) -> (forall b, bcorrupt b = b) ->
  forall (env : nat -> B -> B) s b,
    boundary s -> halted s = true -> bime b = true -> bpending b <> 0 ->
    let b0 := commit B bset_ime s b in
    let b5 := env_bus B env 1 4 (env 0%nat b0) in
    bime b5 = true -> bpending (bset_ime b5 false) <> 0 -> bpending (bset_ime b5 false) < 32 ->
    let r := run_env B brd bwr btrig bcorrupt bime bset_ime bpending back gen_tables env 0 6 (s, b) in
    arch_of (fst r) = fst (spec_dispatch B bwr bset_ime bpending back (arch_of (set_halted false (set_eip false s))) b5) /\
    snd r = env 5%nat (snd (spec_dispatch B bwr bset_ime bpending back (arch_of (set_halted false (set_eip false s))) b5)) /\
    boundary (fst r) /\ halted (fst r) = false /\ eip (fst r) = false.
Proof. exact dispatch_halted. Qed.
Print Assumptions C05_halt_ime1.

(* Master enable clear: an enabled request ends the idling; nothing is dispatched, the bus (so the request in IF) is
   untouched, the master enable stays clear, and the next instruction starts at the following boundary. *)
Theorem C05_halt_ime0 :
  forall (B : Type) (brd : B -> N -> B * N) (bwr : B -> N -> N -> B) (btrig : B -> N -> B) (bcorrupt : B -> B)
         (bime : B -> bool) (bset_ime : B -> bool -> B) (bpending : B -> N) (back : B -> N -> B),
    (forall b, bcorrupt b = b) ->
  forall s b,
    boundary s -> halted s = true -> bime b = false -> bpending b <> 0 ->
    let r := cycle gen_tables B brd bwr btrig bcorrupt bime bset_ime bpending back (s, b) in
    (bime (commit B bset_ime s b) = false ->
     arch_of (fst r) = arch_of (set_halted false (set_eip false s)) /\ snd r = commit B bset_ime s b) /\
    boundary (fst r) /\ halted (fst r) = false.
Proof. exact wake_without_ime. Qed.
Print Assumptions C05_halt_ime0.

(* The halt bug: with the flag armed the next instruction (any defined opcode, by C01_effect) is decoded from the byte
   at PC while PC is not advanced past it, so the byte after HALT is used twice. *)
Theorem C05_halt_bug :
  forall a, xhaltbug a = true -> xpc (after_fetch a) = xpc a /\ xhaltbug (after_fetch a) = false.
Proof. exact halt_bug_fetch. Qed.
Print Assumptions C05_halt_bug.

(* A key press or release (the display's callback: joypad latch + CPU.OnInput) does not end HALT: it changes nothing of
   the CPU but the STOP flag, and nothing of the hardware but the joypad latch - in particular it requests no
   interrupt, so C05_halt_idles keeps applying. *)
Theorem C05_key_does_not_wake : forall cs k a,
  let c := fst cs in let c' := fst (V.model.System.sys_key cs k a) in
  halted c' = halted c /\ haltbug c' = haltbug c /\ eip c' = eip c /\ pc c' = pc c /\ sp c' = sp c /\
  ra c' = ra c /\ rf c' = rf c /\ cur c' = cur c /\ cyc c' = cyc c /\
  (stopped c' = false \/ stopped c' = stopped c).
Proof. exact V.proofs.SysProofs.key_keeps_cpu. Qed.
Print Assumptions C05_key_does_not_wake.
Theorem C05_key_requests_nothing : forall cs k a,
  V.model.System.s_ints (snd (V.model.System.sys_key cs k a)) = V.model.System.s_ints (snd cs).
Proof. intros cs k a. exact (proj1 (V.proofs.SysProofs.key_keeps_hw cs k a)). Qed.
Print Assumptions C05_key_requests_nothing.

(* non-vacuity: a halted power-on CPU on the test bus with nothing enabled idles (here 25 cycles); with VBlank enabled and
   requested and the master enable set it is at the vector after six cycles *)
From V.model Require Import Ints SimpleBus.
Example C05_example :
  let s := set_halted true cpu_init in
  let idle := mkSbus (sb_mem sb_init) (sb_rom sb_init) (ints_write_ie ints_init 0) in
  let b := mkSbus (sb_mem sb_init) (sb_rom sb_init) (ints_write_ie ints_init 1) in
  let run n x := run_env sbus sb_rd sb_wr sb_trig sb_corrupt sb_ime sb_set_ime sb_pending sb_ack gen_tables (fun _ x => x) 0 n (s, x) in
  boundary s /\ sb_pending idle = 0 /\ halted (fst (run 25%nat idle)) = true /\ pc (fst (run 25%nat idle)) = 256 /\
  pc (fst (run 6%nat b)) = 64 /\ halted (fst (run 6%nat b)) = false /\ sb_ime (snd (run 6%nat b)) = false.
Proof. vm_compute. repeat split. Qed.
