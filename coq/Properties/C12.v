(* C12 — phase 1: the unrepaired timer.go (modelled faithfully in model/Timer.v) violates the statement. *)
From V.lib Require Import Bits.
From V.model Require Import Timer.
From V.spec Require Import TimerSpec.
From V.proofs Require Import TimerProofs.

Definition C12_refines_statement : Prop :=
  forall c0 ops, c0 < 65536 -> Forall wf_top ops ->
    timer_trace (timer_set_counter timer_init c0) (map op_of ops) = tspec_trace (tspec_init c0) ops.

Theorem C12_refines_refuted : ~ C12_refines_statement.
Proof. exact refines_refuted. Qed.
Print Assumptions C12_refines_refuted.

Theorem C12_refuted_div_after_overflow : differs 256 w_div.
Proof. exact refuted_div_after_overflow. Qed.
Print Assumptions C12_refuted_div_after_overflow.

Theorem C12_refuted_tima_write_fffc : differs 65532 [WTima 5].
Proof. exact refuted_tima_write_fffc. Qed.
Print Assumptions C12_refuted_tima_write_fffc.

Theorem C12_refuted_tma_write_0 : differs 0 [WTma 7].
Proof. exact refuted_tma_write_0. Qed.
Print Assumptions C12_refuted_tma_write_0.
