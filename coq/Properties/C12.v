(* C12 — the timer counts, overflows and reloads as the DMG timer.
   Only statements, each closed by [exact] of a theorem proved in proofs/TimerProofs.v, with Print Assumptions.
   Model: model/Timer.v (timer.go after its repair); specification: spec/TimerSpec.v. *)
From V.lib Require Import Bits.
From V.model Require Import Timer.
From V.spec Require Import TimerSpec.
From V.proofs Require ConstsTie.
From V.gen Require GenConsts.
From V.proofs Require Import TimerProofs.

(* For EVERY schedule over {Tick (end of a machine cycle), write DIV/TIMA/TMA/TAC of a byte} and EVERY initial
   value of the 16-bit counter, the observable trace of the model of timer.go - after each operation the
   interrupt request it returned and the DIV, TIMA, TMA, TAC values a bus read returns - equals the trace of the
   cycle-level specification (TimerSpec: divider +4 per cycle, DIV = divider / 256, DIV write clears it,
   sig = TAC bit 2 AND divider bit 9/3/5/7 sampled at the end of each cycle after the cycle's writes, TIMA + 1 on
   each falling edge, overflow -> one cycle reading 0 -> reload from TMA unless TIMA was written in that cycle,
   reload cycle ignores TIMA writes and passes TMA writes on to TIMA, one interrupt request at the overflow;
   the phase is advanced by cycle ends only, never by the divider). *)
Theorem C12_refines : forall (c0 : N) (ops : list top),
  c0 < 65536 -> Forall wf_top ops ->
  timer_trace (timer_at c0) (map op_of ops) = tspec_trace (tspec_init c0) ops.
Proof. exact timer_refines. Qed.
Print Assumptions C12_refines.

(* DIV is the upper byte of a 16-bit counter that advances 4 per machine cycle and is cleared by any DIV
   write: after every schedule the counter is (c0 or 0 if DIV was written) + 4 * (cycles completed since the
   last DIV write), modulo 2^16 - whatever else was written - and ReadDIV returns its quotient by 256. *)
Theorem C12_div : forall (c0 : N) (ops : list top), c0 < 65536 ->
  t_counter (timer_run (timer_at c0) (map op_of ops)) = divider_after c0 ops /\
  timer_read_div (timer_run (timer_at c0) (map op_of ops)) = divider_after c0 ops / 256.
Proof. exact div_closed_form. Qed.
Print Assumptions C12_div.

(* TIMA increments exactly on each falling edge of sig.  [sampled c0 ops] is sig at the end of the last completed
   cycle of the schedule, computed from the schedule alone (divider closed form and last TAC write, so DIV and
   TAC writes that move the signal are included); ending one more cycle changes TIMA by exactly 1 (mod 256) iff
   the signal fell, counted from TMA when a reload is pending; the interrupt is requested iff that increment
   wrapped. *)
Theorem C12_falling_edge_iff_increment : forall (c0 : N) (ops : list top),
  c0 < 65536 -> Forall wf_top ops ->
  let t := timer_run (timer_at c0) (map op_of ops) in
  let falling := sampled c0 ops && negb (sampled c0 (ops ++ [Tick])) in
  let base := if t_phase t =? phase_overflow then timer_read_tma t else timer_read_tima t in
  timer_read_tima (fst (timer_tick t)) = u8 (base + b2n falling) /\
  snd (timer_tick t) = falling && (base =? 255).
Proof. exact falling_edge_increment. Qed.
Print Assumptions C12_falling_edge_iff_increment.

(* The overflow / reload window, for ANY timer state t0 (any counter value, any registers) whose cycle end
   overflows, and ANY bus writes w1, w2, w3 (lists of DIV/TIMA/TMA/TAC writes, DIV writes included) in the three
   following machine cycles: TIMA reads 0 for exactly the overflow cycle and is then reloaded from TMA; a TIMA
   write in the overflow cycle cancels the reload; in the reload cycle TIMA writes are ignored and TMA writes
   also load TIMA; afterwards writes behave normally; no second interrupt request at the reload. *)
Theorem C12_reload_window :
  forall t0 t1, timer_tick t0 = (t1, true) ->
  (* TIMA reads 0 after the overflow *)
  timer_read_tima t1 = 0 /\
  (* (A) no TIMA write in the overflow cycle *)
  (forall w1, all_writes w1 -> last_wtima w1 = None ->
     let t1' := timer_run t1 (map op_of w1) in
     let t2 := fst (timer_tick t1') in
     timer_read_tima t1' = 0 /\                                   (* still 0 after that cycle's writes *)
     snd (timer_tick t1') = false /\                              (* no second interrupt request *)
     timer_read_tima t2 = timer_read_tma t1' /\                   (* then reloaded from TMA as it is then *)
     (forall w2, all_writes w2 ->
        let t2' := timer_run t2 (map op_of w2) in
        let t3 := fst (timer_tick t2') in
        (* reload cycle: TIMA writes ignored, TMA writes also load TIMA *)
        timer_read_tima t2' = (match last_wtma w2 with Some v => v | None => timer_read_tima t2 end) /\
        (* the cycle after: TIMA writes take effect again, TMA writes leave TIMA alone *)
        (forall w3, all_writes w3 ->
           timer_read_tima (timer_run t3 (map op_of w3)) =
           (match last_wtima w3 with Some v => v | None => timer_read_tima t3 end)))) /\
  (* (B) a TIMA write in the overflow cycle cancels the reload *)
  (forall w1 v, all_writes w1 -> last_wtima w1 = Some v ->
     let t1' := timer_run t1 (map op_of w1) in
     let t2 := fst (timer_tick t1') in
     timer_read_tima t1' = v /\
     snd (timer_tick t1') = false /\
     timer_read_tima t2 = v /\                                    (* not reloaded *)
     (forall w2, all_writes w2 ->                                  (* and no reload cycle follows *)
        timer_read_tima (timer_run t2 (map op_of w2)) =
        (match last_wtima w2 with Some u => u | None => v end))).
Proof. exact reload_window. Qed.
Print Assumptions C12_reload_window.

(* Exactly one interrupt request per overflow: over every schedule the number of requests returned by
   EndMachineCycle equals the number of cycle ends at which TIMA was incremented from FF (per cycle end:
   C12_falling_edge_iff_increment; not repeated at the reload: C12_reload_window), and the request is made at
   the overflow itself, i.e. before the reload. *)
Theorem C12_one_irq_per_overflow : forall (c0 : N) (ops : list top),
  c0 < 65536 -> Forall wf_top ops ->
  irq_count (timer_trace (timer_at c0) (map op_of ops)) = overflow_count (tspec_init c0) ops.
Proof. exact one_irq_per_overflow. Qed.
Print Assumptions C12_one_irq_per_overflow.

(* Non-vacuity: a schedule that meets the hypotheses and exercises the window with a DIV write in it.
   TAC=5, TIMA=FF, TMA=77, four cycles from counter 0x100 (overflow, interrupt, TIMA 0), DIV write, cycle end
   (reload 77 although the counter was cleared), TIMA write 9 (ignored), TMA write 42 (loads TIMA), cycle end. *)
Example C12_example :
  let ops := [WTac 5; WTima 255; WTma 119; Tick; Tick; Tick; Tick; WDiv 0; Tick; WTima 9; WTma 66; Tick] in
  256 < 65536 /\ Forall wf_top ops /\
  timer_trace (timer_at 256) (map op_of ops) =
  [(false, (1, 0, 0, 253)); (false, (1, 255, 0, 253)); (false, (1, 255, 119, 253));
   (false, (1, 255, 119, 253)); (false, (1, 255, 119, 253)); (false, (1, 255, 119, 253));
   (true, (1, 0, 119, 253)); (false, (0, 0, 119, 253)); (false, (0, 119, 119, 253));
   (false, (0, 119, 119, 253)); (false, (0, 66, 66, 253)); (false, (0, 66, 66, 253))] /\
  irq_count (timer_trace (timer_at 256) (map op_of ops)) = 1.
Proof. split; [reflexivity|]. split; [repeat constructor|]. split; vm_compute; reflexivity. Qed.

(* ... and the hypothesis of C12_reload_window is satisfiable: that schedule's fourth cycle end overflows *)
Example C12_example_overflow :
  exists t0 t1, timer_tick t0 = (t1, true) /\
    t0 = timer_run (timer_at 256) (map op_of [WTac 5; WTima 255; WTma 119; Tick; Tick; Tick]).
Proof. eexists. eexists. split; [|reflexivity]. vm_compute. reflexivity. Qed.

(* the divider taps of the model are the table regenerated from timer.go on this run *)
Theorem C12_taps_regenerated :
  List.map V.model.Timer.counter_bit_mask (0 :: 1 :: 2 :: 3 :: nil)%N = V.gen.GenConsts.counterBitMasks.
Proof. exact V.proofs.ConstsTie.counter_masks_tie. Qed.
Print Assumptions C12_taps_regenerated.
