(* C04 — interrupts are dispatched by priority exactly when enabled and requested; EI delay, DI, RETI. *)
From V.lib Require Import Bits.
From V.model Require Import Uop Alu Cpu CpuTables.
From V.spec Require Import Sm83Spec IntSpec.
From V.proofs Require Import AluProofs CpuLemmas CpuProofs CpuIntProofs.

(* For every bus, every boundary state of a running CPU with the master enable set and an enabled request pending, and
   EVERY environment acting on the bus after each machine cycle (requests raised at any cycle offset): after exactly
   five machine cycles the CPU has pushed the address of the next instruction (high byte first), cleared the master
   enable, acknowledged exactly the lowest-numbered pending bit (as IE and IF stand at the acknowledgement) and
   continues at 0x40 + 8*bit; registers other than SP and PC are unchanged. *)
Theorem C04_dispatch :
  forall (B : Type) (brd : B -> N -> B * N) (bwr : B -> N -> N -> B) (btrig : B -> N -> B) (bcorrupt : B -> B)
         (bime : B -> bool) (bset_ime : B -> bool -> B) (bpending : B -> N) (back : B -> N -> B),
    (forall b a, btrig b a = b) -> (forall b, bcorrupt b = b) ->
  forall (env : nat -> B -> B) s b,
    boundary s -> halted s = false -> bime b = true -> bpending b <> 0 ->
    let b0 := commit B bset_ime s b in
    let b4 := env_bus B env 1 3 (env 0%nat b0) in
    bime b4 = true -> bpending (bset_ime b4 false) <> 0 -> bpending (bset_ime b4 false) < 32 ->
    let r := run_env B brd bwr btrig bcorrupt bime bset_ime bpending back gen_tables env 0 5 (s, b) in
    arch_of (fst r) = fst (spec_dispatch B bwr bset_ime bpending back (arch_of (set_eip false s)) b4) /\
    snd r = env 4%nat (snd (spec_dispatch B bwr bset_ime bpending back (arch_of (set_eip false s)) b4)) /\
    boundary (fst r) /\ halted (fst r) = false /\ eip (fst r) = false.
Proof. exact dispatch_running. Qed.
Print Assumptions C04_dispatch.

(* Otherwise no dispatch happens: with the master enable clear or nothing enabled-and-requested the boundary starts the
   next instruction (C01_effect then gives its exact bus effect: IF is touched only by the program's own writes). *)
Theorem C04_no_dispatch :
  forall (B : Type) (bime : B -> bool) (bpending : B -> N) s b,
    halted s = false -> (bime b = false \/ bpending b = 0) ->
    fst (check_interrupts gen_tables B bime bpending s b) = None.
Proof. exact no_dispatch. Qed.
Print Assumptions C04_no_dispatch.

(* priority: vectors 0x40/0x48/0x50/0x58/0x60 for VBlank, STAT, Timer, Serial, Joypad - every combination of pending bits *)
Theorem C04_priority :
  forallb (fun p => vector (lowest_bit p) =?
     (if N.testbit p 0 then 64 else if N.testbit p 1 then 72 else if N.testbit p 2 then 80 else if N.testbit p 3 then 88 else 96))
    (upto 32) = true.
Proof. vm_compute. reflexivity. Qed.
Print Assumptions C04_priority.

(* EI: interrupts can be dispatched only after the instruction that follows EI.  (i) EI itself leaves the master enable
   untouched and only marks it pending; (ii) at the boundary after EI nothing is dispatched and the following instruction
   runs with the master enable set. *)
Theorem C04_ei_marks_pending :
  forall (B : Type) (brd : B -> N -> B * N) (bwr : B -> N -> N -> B) (bime : B -> bool) (bset_ime : B -> bool -> B)
         (bpending : B -> N) a b,
    snd (brd b (xpc a)) = 251 ->
    spec_instr B brd bwr bset_ime bime bpending a b = (set_xeip true (after_fetch a), fst (brd b (xpc a)), [], 1).
Proof. exact spec_ei. Qed.
Print Assumptions C04_ei_marks_pending.
Theorem C04_ei_delay :
  forall (B : Type) (bime : B -> bool) (bset_ime : B -> bool -> B) (bpending : B -> N) s b,
    halted s = false -> bime b = false -> eip s = true ->
    fst (check_interrupts gen_tables B bime bpending s b) = None /\ commit B bset_ime s b = bset_ime b true.
Proof. exact ei_delay. Qed.
Print Assumptions C04_ei_delay.

(* DI takes effect immediately; RETI re-enables when it completes. *)
Theorem C04_di_immediate :
  forall (B : Type) (brd : B -> N -> B * N) (bwr : B -> N -> N -> B) (bime : B -> bool) (bset_ime : B -> bool -> B)
         (bpending : B -> N) a b,
    snd (brd b (xpc a)) = 243 ->
    spec_instr B brd bwr bset_ime bime bpending a b = (after_fetch a, bset_ime (fst (brd b (xpc a))) false, [], 1).
Proof. exact spec_di. Qed.
Print Assumptions C04_di_immediate.
Theorem C04_reti_immediate :
  forall (B : Type) (brd : B -> N -> B * N) (bwr : B -> N -> N -> B) (bime : B -> bool) (bset_ime : B -> bool -> B)
         (bpending : B -> N) a b,
    snd (brd b (xpc a)) = 217 ->
    let a1 := after_fetch a in
    let b1 := fst (brd b (xpc a)) in
    let lo := snd (brd b1 (xsp a1)) in
    let b2 := fst (brd b1 (xsp a1)) in
    let hi := snd (brd b2 (inc16 (xsp a1))) in
    let b3 := fst (brd b2 (inc16 (xsp a1))) in
    spec_instr B brd bwr bset_ime bime bpending a b =
      (set_xpc (w16 hi lo) (set_xsp (inc16 (inc16 (xsp a1))) a1), bset_ime b3 true,
       [(2, DRead, xsp a1); (3, DRead, inc16 (xsp a1))], 4).
Proof. exact spec_reti. Qed.
Print Assumptions C04_reti_immediate.

(* the hypotheses of C04_dispatch are satisfiable: power-on CPU on the test bus with VBlank enabled and requested; after five
   machine cycles it is at the VBlank vector with the master enable clear and the request acknowledged *)
From V.model Require Import Ints SimpleBus.
Example C04_example :
  let b := mkSbus (sb_mem sb_init) (sb_rom sb_init) (ints_write_ie ints_init 1) in
  let r := run_env sbus sb_rd sb_wr sb_trig sb_corrupt sb_ime sb_set_ime sb_pending sb_ack gen_tables (fun _ x => x) 0 5 (cpu_init, b) in
  boundary cpu_init /\ halted cpu_init = false /\ sb_ime b = true /\ sb_pending b <> 0 /\
  pc (fst r) = 64 /\ sp (fst r) = 65532 /\ sb_ime (snd r) = false /\ sb_pending (snd r) = 0.
Proof. vm_compute. repeat split; discriminate. Qed.
