(* C23 — serial output delivers each written byte once, in order. *)
From V.lib Require Import Bits Mem Res Sweep.
From V.model Require Import MapperTypes System.
From V.proofs Require Import SerialProofs.
From V.spec Require AddrSpec.
From V.proofs Require SerialHw.

(* For every history of bus operations (reads and writes of bytes at any address: every CPU access is one, C01/C03)
   from any machine state: the bytes delivered to the serial writer are exactly the values written to FF01, each once,
   in write order, when a writer is configured; nothing is delivered otherwise. *)
Theorem C23_transcript : forall (h : list bop) (s s' : sys),
  Forall wf_bop h -> brun s h = Ok s' ->
  s_serial s' = (if s_ser_attached s then rev (sb_writes h) ++ s_serial s else s_serial s) /\
  s_ser_attached s' = s_ser_attached s.
Proof. exact serial_transcript. Qed.
Print Assumptions C23_transcript.

(* The same for histories that interleave the hardware half of machine cycles (PPU with the renderer, OAM DMA reading
   through the bus, cartridge clock, APU, timer and its interrupt request) at any point: the hardware delivers, drops
   and reorders nothing. *)
Theorem C23_transcript_hw : forall (h : list V.spec.AddrSpec.bop) (s s' : sys),
  Forall V.proofs.SerialHw.wf_hop h -> V.spec.AddrSpec.bus_run s h = Ok s' ->
  s_serial s' = (if s_ser_attached s then rev (V.proofs.SerialHw.sb_writes_hw h) ++ s_serial s else s_serial s) /\
  s_ser_attached s' = s_ser_attached s.
Proof. exact V.proofs.SerialHw.serial_transcript_hw. Qed.
Print Assumptions C23_transcript_hw.

(* the decoder regenerated from mapper.go routes FF01, and only FF01, to the serial data register *)
Theorem C23_decoder : all_below 65536 (fun a => Bool.eqb (is_sb (write_handler a)) (a =? 65281)) = true.
Proof. exact write_sb_only. Qed.
Print Assumptions C23_decoder.

(* SB and SC read 0xFF *)
Theorem C23_reads_ff : forall s a s' v, a < 65536 -> (a = 65281 \/ a = 65282) -> sys_read s a = Ok (s', v) -> v = 255.
Proof. exact serial_reads_ff. Qed.
Print Assumptions C23_reads_ff.

Example C23_example :
  sb_writes [BWrite 65281 72; BRead 65281; BWrite 65282 129; BWrite 49152 5; BWrite 65281 105] = [72; 105].
Proof. reflexivity. Qed.
