(* C21 — channel waveforms run at the documented frequencies.
   Only statements, each closed by [exact] of a lemma proved in proofs/, with Print Assumptions.

   Conventions: [apu_bus_write s a v] is a bus write; [apu_end_machine_cycle] finishes the machine cycle the write
   happened in (four clocks during which a freshly triggered generator does not advance); [apu_clocks n] runs n
   further clock cycles, so n = 1 is the first clock after the trigger's machine cycle.  [trig_bit v] / [len_bit v]
   are bits 7 / 6 of the written byte; [nr_freq old v] is the 11-bit frequency formed by the stored low byte and
   bits 2-0 of v.  The right-hand sides are the functions of ApuSpec part 4, written from the statement. *)
From V.lib Require Import Bits Mem Res.
From V.model Require Import Apu.
From V.spec Require Import ApuSpec.
From V.proofs Require Import ApuLemmas ApuStatusProofs ApuFreqProofs ApuFreqSpecProofs ApuLengthProofs ApuFreqHistProofs.

(* Channel 2 (every state, every written byte with the trigger bit, every n): the frequency f is < 2048 and the
   duty position after n clocks is (start + (n-1) / (4*(2048-f))) mod 8: a step every 4*(2048-f) clocks. *)
Theorem C21_square2 : forall (s : apu) (v n : N),
  is_on s = true -> trig_bit v = true -> sqDutyIdx (ch2 s) < 8 ->
  let f := nr_freq (sqFreq (ch2 s)) v in
  let s1 := fst (apu_end_machine_cycle (apu_bus_write s 0xFF19 v)) in
  f < 2048 /\ sqFreq (ch2 s1) = f /\
  sqDutyIdx (ch2 (apu_clocks n s1)) = duty_position (sqDutyIdx (ch2 s)) f n.
Proof. exact square2_spec. Qed.
Print Assumptions C21_square2.

(* Channel 1, with the sweep unit idle (NR10 period and shift 0; otherwise the sweep changes f under way). *)
Theorem C21_square1 : forall (s : apu) (v n : N),
  is_on s = true -> trig_bit v = true -> sqDutyIdx (ch1 s) < 8 ->
  swShift (sw1 s) = 0 -> swPeriod (sw1 s) = 0 ->
  let f := nr_freq (sqFreq (ch1 s)) v in
  let s1 := fst (apu_end_machine_cycle (apu_bus_write s 0xFF14 v)) in
  f < 2048 /\ sqFreq (ch1 s1) = f /\
  sqDutyIdx (ch1 (apu_clocks n s1)) = duty_position (sqDutyIdx (ch1 s)) f n.
Proof. exact square1_spec. Qed.
Print Assumptions C21_square1.

(* Both square channels from ANY state with the generator running (not just after a trigger): timer and position
   as closed forms in n, the timer value t0 and the position i0 of that state. *)
Theorem C21_square_any_state : forall (f : N) (s : apu) (n : N),
  f < 2048 -> sq_inv f (ch2 s) ->
  sqTimer (ch2 (apu_clocks n s)) = osc_timer (4 * (2048 - f)) (sqTimer (ch2 s)) n /\
  sqDutyIdx (ch2 (apu_clocks n s)) = (sqDutyIdx (ch2 s) + osc_count (4 * (2048 - f)) (sqTimer (ch2 s)) n) mod 8.
Proof. intros f s n Hf Hi. exact (proj2 (ch2_clocks f s n Hf Hi)). Qed.
Print Assumptions C21_square_any_state.

(* Independence of the channels: along ANY history of machine cycles and writes to the registers of the OTHER
   channels (their triggers included; everything except NR21-NR24 and NR52), channel 2's timer and duty position
   are the closed forms in n = 4 * (machine cycles); likewise channel 3 (not NR30-NR34, NR52, wave RAM) and the
   noise channel (not NR41-NR44, NR52). *)
Theorem C21_square2_history : forall (f : N) (h : list apu_op) (s : apu),
  f < 2048 -> sq_inv f (ch2 s) ->
  Forall (fun o => match o with OWrite a v => not_ch2 a | OCycle => True end) h ->
  let n := 4 * n_cycles h in
  sqDutyIdx (ch2 (apu_run s h)) = (sqDutyIdx (ch2 s) + osc_count (4 * (2048 - f)) (sqTimer (ch2 s)) n) mod 8 /\
  sqTimer (ch2 (apu_run s h)) = osc_timer (4 * (2048 - f)) (sqTimer (ch2 s)) n /\
  sqFreq (ch2 (apu_run s h)) = f.
Proof. exact square2_history. Qed.
Print Assumptions C21_square2_history.

Theorem C21_wave_history : forall (f : N) (h : list apu_op) (s : apu),
  f < 2048 -> wv_inv f (ch3 s) ->
  Forall (fun o => match o with OWrite a v => not_ch3 a | OCycle => True end) h ->
  let n := 4 * n_cycles h in
  wvPosition (ch3 (apu_run s h)) = (wvPosition (ch3 s) + osc_count (2 * (2048 - f)) (wvTimer (ch3 s)) n) mod 32 /\
  wvTimer (ch3 (apu_run s h)) = osc_timer (2 * (2048 - f)) (wvTimer (ch3 s)) n.
Proof. exact wave_history. Qed.
Print Assumptions C21_wave_history.

Theorem C21_noise_history : forall (r sft wd : N) (h : list apu_op) (s : apu),
  r < 8 -> sft < 16 -> ns_inv r sft wd (ch4 s) ->
  Forall (fun o => match o with OWrite a v => not_ch4 a | OCycle => True end) h ->
  let n := 4 * n_cycles h in
  nsLfsr (ch4 (apu_run s h)) = N.iter (osc_count (noise_per r sft) (nsTimer (ch4 s)) n) (lfsr_step wd) (nsLfsr (ch4 s)) /\
  nsTimer (ch4 (apu_run s h)) = osc_timer (noise_per r sft) (nsTimer (ch4 s)) n.
Proof. exact noise_history. Qed.
Print Assumptions C21_noise_history.

(* The 11-bit frequency is assembled correctly in either write order: NRx3 replaces the low byte and keeps all of
   bits 8-10 (C21_nrx3_keeps_high_bits), NRx4 replaces bits 8-10 and keeps the low byte (nr_freq_value). *)
Theorem C21_nrx3_keeps_high_bits : forall (s : apu) (v : N),
  is_on s = true -> v < 256 ->
  (sqFreq (ch2 s) < 2048 -> sqFreq (ch2 (apu_bus_write s 0xFF18 v)) = 256 * (sqFreq (ch2 s) / 256) + v) /\
  (wvFreq (ch3 s) < 2048 -> wvFreq (ch3 (apu_bus_write s 0xFF1D v)) = 256 * (wvFreq (ch3 s) / 256) + v) /\
  (sqFreq (ch1 s) < 2048 -> sqFreq (ch1 (apu_bus_write s 0xFF13 v)) = 256 * (sqFreq (ch1 s) / 256) + v).
Proof. exact nrx3_keeps_high_bits. Qed.
Print Assumptions C21_nrx3_keeps_high_bits.

Theorem C21_nrx4_keeps_low_byte : forall old v : N, nr_freq old v = old mod 256 + 256 * (v mod 8) /\ nr_freq old v < 2048.
Proof. intros old v. split; [exact (nr_freq_value old v) | exact (nr_freq_range old v)]. Qed.
Print Assumptions C21_nrx4_keeps_low_byte.

(* Channel 3, triggered while off with its DAC on and length disabled: position (n-1) / (2*(2048-f)) mod 32. *)
Theorem C21_wave : forall (s : apu) (v n : N),
  is_on s = true -> trig_bit v = true -> len_bit v = false ->
  wvEnabled (ch3 s) = false -> wvDac (ch3 s) = true ->
  let f := nr_freq (wvFreq (ch3 s)) v in
  let s1 := fst (apu_end_machine_cycle (apu_bus_write s 0xFF1E v)) in
  f < 2048 /\ wvFreq (ch3 s1) = f /\
  wvPosition (ch3 (apu_clocks n s1)) = wave_position f n.
Proof. exact wave_spec. Qed.
Print Assumptions C21_wave.

(* Channel 4: after a trigger the shift register has been stepped (n-1) / (d(r) * 2^s) times after n clocks, for
   every divisor code r < 8 and shift s < 16 (every NR43 byte decodes to such r, s: C21_nr43_fields). *)
Theorem C21_noise_clock : forall (s : apu) (v n : N),
  is_on s = true -> trig_bit v = true ->
  let r := nsDivisor (ch4 s) in let sft := nsShift (ch4 s) in let wd := nsWidth (ch4 s) in
  r < 8 -> sft < 16 ->
  let s1 := fst (apu_end_machine_cycle (apu_bus_write s 0xFF23 v)) in
  nsLfsr (ch4 (apu_clocks n s1)) = N.iter (noise_steps r sft n) (lfsr_step wd) 0xffff.
Proof. exact noise_spec. Qed.
Print Assumptions C21_noise_clock.

Theorem C21_nr43_fields : forall (s : apu) (v : N),
  v < 256 -> is_on s = true ->
  let s' := apu_bus_write s 0xFF22 v in
  nsDivisor (ch4 s') = v mod 8 /\ nsShift (ch4 s') = v / 16 /\ nsWidth (ch4 s') = (v / 8) mod 2 /\
  nsDivisor (ch4 s') < 8 /\ nsShift (ch4 s') < 16.
Proof. exact nr43_fields. Qed.
Print Assumptions C21_nr43_fields.

(* The 15-bit register sequence (k = number of steps since the trigger) has period exactly 32767 ... *)
Theorem C21_lfsr15 : forall k : N,
  1 <= k ->
  lfsr_seq 0 (k + 32767) = lfsr_seq 0 k /\ (forall j, 0 < j -> j < 32767 -> lfsr_seq 0 (k + j) <> lfsr_seq 0 k).
Proof. exact lfsr15_period. Qed.
Print Assumptions C21_lfsr15.

(* ... and is the documented maximal sequence: one step after the trigger the code's register equals the DMG
   recurrence started from all ones. *)
Theorem C21_lfsr15_is_dmg : forall k : N, lfsr_seq 0 (k + 1) = dmg_lfsr_seq false k.
Proof. exact lfsr15_follows_dmg. Qed.
Print Assumptions C21_lfsr15_is_dmg.

(* 7-bit mode: the low seven bits (bit 0 is the output) follow the documented recurrence from the trigger on and
   have period exactly 127; the whole register has period exactly 127 from step 15 on. *)
Theorem C21_lfsr7 : forall k : N,
  lfsr_seq 1 k mod 128 = dmg_lfsr_seq true k mod 128 /\
  lfsr_seq 1 (k + 127) mod 128 = lfsr_seq 1 k mod 128 /\
  (forall j, 0 < j -> j < 127 -> lfsr_seq 1 (k + j) mod 128 <> lfsr_seq 1 k mod 128).
Proof. intros k. split; [exact (lfsr7_follows_dmg k) | exact (lfsr7_low_period k)]. Qed.
Print Assumptions C21_lfsr7.

Theorem C21_lfsr7_register : forall k : N,
  15 <= k ->
  lfsr_seq 1 (k + 127) = lfsr_seq 1 k /\ (forall j, 0 < j -> j < 127 -> lfsr_seq 1 (k + j) <> lfsr_seq 1 k).
Proof. exact lfsr7_period. Qed.
Print Assumptions C21_lfsr7_register.

(* Non-vacuity: a concrete run.  NR24 := 0x87 with NR23 = 0xFF gives f = 2047, one duty step every 4 clocks. *)
Example C21_example :
  let s := apu_bus_write (apu_bus_write apu_init 0xFF17 0xF0) 0xFF18 0xFF in
  is_on s = true /\ trig_bit 0x87 = true /\ sqDutyIdx (ch2 s) < 8 /\
  let s1 := fst (apu_end_machine_cycle (apu_bus_write s 0xFF19 0x87)) in
  sqDutyIdx (ch2 (apu_clocks 13 s1)) = 3 /\ duty_position 0 2047 13 = 3.
Proof. vm_compute. repeat split. Qed.
