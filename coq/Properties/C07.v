(* C07 — a write changes only the state documented for its address.
   Only statements, each closed by [exact] of a lemma proved in proofs/Mapper*.v, with Print Assumptions.

   [sys_write s a v] is Mapper.Write on the whole machine s (System.v; the decoder is the one regenerated from
   memory/mapper.go), [peek s b] the byte Mapper.Read returns at b (or the crash it ends in).
   [footprint s a b] (spec/AddrSpec.v) says that b belongs to the documented effect set of a write to a:
     own address and its echo; 0000-7FFF -> both ROM windows and the cartridge RAM window; A000-BFFF -> own address
     (MBC2: its sixteen 512-byte images); FF06 (TMA) -> also TIMA (reload cycle); FF40 -> LCDC, STAT, LY;
     FF46 -> FF46 and FE00-FEFF; NR52 -> FF10-FF26 and the wave RAM window; NR10 / NRx2 / NRx4 -> own and NR52;
     NR30 / NR34 -> own, NR52 and the wave RAM window FF30-FF3F; FF30-FF3F -> FF30-FF3F; everything else -> own
     address only.
   The state s is ARBITRARY: no reachability or well-formedness hypothesis is needed (the theorem holds in
   particular from every constructed machine after every history). *)
From V.lib Require Import Bits Mem Res.
From V.model Require Import MapperTypes Cart System.
From V.spec Require Import AddrSpec.
From V.proofs Require Import MapperFrame MapperFootprint MapperRegs.

(* For every machine state, every 16-bit address a, every value v (a byte or not) and every other 16-bit address
   b outside the effect set of a: if the write succeeds, the byte read at b (or the way reading b fails) is what
   it was before. *)
Theorem C07_frame : forall (s : sys) (a v : N) (s' : sys) (b : N),
  a < 65536 -> b < 65536 ->
  footprint s a b = false ->
  sys_write s a v = Ok s' ->
  peek s' b = peek s b.
Proof. exact write_frame. Qed.
Print Assumptions C07_frame.

(* A read has one internal side effect (the OAM "read" access flag inside the mode-2 window) and never changes
   a readable byte anywhere. *)
Theorem C07_read_inert : forall (s : sys) (a : N) (s' : sys) (v b : N),
  sys_read s a = Ok (s', v) -> peek s' b = peek s b.
Proof. exact read_inert. Qed.
Print Assumptions C07_read_inert.

(* A write that the memory map ignores (unmapped I/O address) leaves the whole machine state as it was. *)
Theorem C07_unmapped_write_ignored : forall (s : sys) (a v : N),
  a < 65536 -> is_unmapped a = true -> sys_write s a v = Ok s.
Proof. exact unmapped_write. Qed.
Print Assumptions C07_unmapped_write_ignored.

(* non-vacuity: a ROM-only machine from power-on; writing 5 to C000 is seen at C000 and E000 and nowhere in
   C001 / FF80 / FF40, which are outside the effect set *)
Example C07_frame_applies :
  exists c s s', sys_new demo_image true false = Ok (c, s) /\ sys_write s 0xC000 5 = Ok s' /\
    footprint s 0xC000 0xC001 = false /\ footprint s 0xC000 0xFF40 = false /\ footprint s 0xC000 0xE000 = true /\
    peek s' 0xC000 = Ok 5 /\ peek s' 0xE000 = Ok 5 /\ peek s 0xE000 = Ok 0 /\ peek s' 0xFF40 = Ok 0x91.
Proof.
  destruct (sys_new demo_image true false) as [[c s]| |] eqn:E; [|vm_compute in E; discriminate E ..].
  exists c, s.
  assert (X : exists s', sys_write s 0xC000 5 = Ok s').
  { injection E as _ <-. eexists. vm_compute. reflexivity. }
  destruct X as [s' Hs']. exists s'. injection E as _ <-.
  split; [reflexivity|]. split; [exact Hs'|].
  vm_compute in Hs'. injection Hs' as <-. repeat split; vm_compute; reflexivity.
Qed.
