(* C07 — a write changes only the state documented for its address.  (statements; proofs in proofs/Mapper*.v) *)
From V.lib Require Import Bits Mem Res.
From V.model Require Import MapperTypes Cart System.
From V.spec Require Import AddrSpec.

Example C07_footprint_examples :
  fp_ranges KMbc1 0xC000 = [(0xC000, 0xC000); (0xE000, 0xE000)] /\
  fp_ranges KMbc1 0xFF46 = [(0xFF46, 0xFF46); (0xFE00, 0xFEFF)].
Proof. split; reflexivity. Qed.
