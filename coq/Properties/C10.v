(* C10 — the MBC3 real-time clock keeps time and latches correctly.
   Only statements, each closed by [exact] of a lemma proved in proofs/, with Print Assumptions. *)
From V.lib Require Import Bits Mem Res.
From V.model Require Import Rtc Cart.
From V.spec Require Import CartSpec RtcSpec.
From V.proofs Require Import CartLemmas CartRun RtcArith RtcProofs RtcCartProofs.

(* One increment of an in-range clock (s, m < 60, h < 24, d < 512) is +1 second on the mixed-radix total,
   modulo 512 days; the day-carry flag is set exactly at that wrap and otherwise kept; the result is in range. *)
Theorem C10_increment : forall c : rtc,
  rtc_in_range c = true ->
  rtc_total (rtc_increment c) = (rtc_total c + 1) mod 44236800 /\
  r_carry (rtc_increment c) = (r_carry c || (rtc_total c + 1 =? 44236800)) /\
  rtc_in_range (rtc_increment c) = true.
Proof. exact increment_in_range. Qed.
Print Assumptions C10_increment.

(* Every state within the register widths (s, m < 64, h < 32, d < 512), in range or not: the increment is the
   documented counter cascade [second] - an out-of-range counter (e.g. seconds written as 60-63) counts up to
   its bit width and wraps to 0 without carrying. *)
Theorem C10_increment_cascade : forall c : rtc,
  widths_ok c -> live (rtc_increment c) = second (live c) /\ widths_ok (rtc_increment c).
Proof. exact increment_second. Qed.
Print Assumptions C10_increment_cascade.

(* k whole seconds on an in-range clock, for every k : N, field by field. *)
Theorem C10_seconds : forall (c : rtc) (k : N),
  rtc_in_range c = true ->
  let T := rtc_total c + k in
  let c' := N.iter k rtc_increment c in
  r_s c' = T mod 60 /\ r_m c' = (T / 60) mod 60 /\ r_h c' = (T / 3600) mod 24 /\ r_d c' = (T / 86400) mod 512 /\
  r_carry c' = (r_carry c || (44236800 <=? T)) /\ rtc_total c' = T mod 44236800.
Proof. exact add_seconds_fields. Qed.
Print Assumptions C10_seconds.

(* Elapsed time: for EVERY number n : N of machine cycles and every clock state whose sub-second count is below
   one second (every state the program can reach, see C10_live), n ticks are (ticks + n) / 1,048,576 increments
   and leave (ticks + n) mod 1,048,576 in the sub-second count. *)
Theorem C10_elapsed : forall (c : rtc) (n : N),
  r_ticks c < 1048576 -> r_halt c = false ->
  N.iter n rtc_tick c =
  set_ticks (N.iter ((r_ticks c + n) / 1048576) rtc_increment c) ((r_ticks c + n) mod 1048576).
Proof. exact tick_n_closed. Qed.
Print Assumptions C10_elapsed.

(* The executable closed form used by the model runner (seconds added arithmetically for in-range clocks). *)
Theorem C10_advance : forall (c : rtc) (n : N),
  r_ticks c < 1048576 -> N.iter n rtc_tick c = rtc_advance c n.
Proof. exact tick_n_advance. Qed.
Print Assumptions C10_advance.

(* A halted clock does not move, for every n. *)
Theorem C10_halted_frozen : forall (c : rtc) (n : N), r_halt c = true -> N.iter n rtc_tick c = c.
Proof. exact tick_n_halted. Qed.
Print Assumptions C10_halted_frozen.

(* Latch / read / write semantics, for every history of elapsed cycles, latch-register writes and clock-register
   writes (bytes): every register read returns what the specification machine of RtcSpec prescribes - the
   snapshot taken at the most recent latch write with bit 0 = 1 that directly followed one with bit 0 = 0,
   masked 3F/3F/1F/FF/C1; writes set the running counters; a seconds write restarts the sub-second count;
   time advances by the counter cascade, one second per 1,048,576 cycles, only while not halted. *)
Theorem C10_latch_reads : forall (h : list rtc_event) (sel : N),
  Forall wf_event h ->
  rtc_read (fold_left rtc_apply h rtc_init) sel = Ok (rtcspec_read (rtcspec_run h) sel).
Proof. exact rtc_refines. Qed.
Print Assumptions C10_latch_reads.

Theorem C10_live : forall h : list rtc_event,
  Forall wf_event h ->
  live (fold_left rtc_apply h rtc_init) = sp_live (rtcspec_run h) /\
  r_ticks (fold_left rtc_apply h rtc_init) = sp_sub (rtcspec_run h) /\
  r_ticks (fold_left rtc_apply h rtc_init) < 1048576.
Proof. exact rtc_live_refines. Qed.
Print Assumptions C10_live.

Theorem C10_seconds_write_restarts : forall (c : rtc) (v : N),
  r_ticks (rtc_write c 8 v) = 0 /\ r_s (rtc_write c 8 v) = v mod 64.
Proof. exact seconds_write_restarts. Qed.
Print Assumptions C10_seconds_write_restarts.

(* Through the cartridge: for every MBC3 image and every operation history, reading A000-BFFF while RAM is
   enabled and a clock register is selected returns the specification's value for the clock events the
   history caused (rtc_history: cycles from Mapper.EndMachineCycle, latch writes at 6000-7FFF, register
   writes at A000-BFFF while enabled with a clock register selected). *)
Theorem C10_cart_clock_reads : forall (img : image) (c0 : cart) (ops : list cop) (a : N),
  cart_construct img = Ok c0 -> Forall wf_op ops ->
  ctrl_of_type (img_at img 327) = Some Mbc3 ->
  40960 <= a < 49152 ->
  exists c, cart_run c0 ops = Ok c /\
    (ram_enabled Mbc3 (writes_of ops) = true -> 8 <= ram_select (writes_of ops) ->
     cart_read c a = Ok (rtcspec_read (rtcspec_run (rtc_history c0 ops)) (ram_select (writes_of ops)))).
Proof. exact cart_clock_reads. Qed.
Print Assumptions C10_cart_clock_reads.

(* Non-vacuity: set 23:59:58 on day 511, let 2 s + 5 cycles pass (2,097,157 cycles), latch, read: day 0, carry set. *)
Example C10_example :
  let h := [EvWrite 8 58; EvWrite 9 59; EvWrite 10 23; EvWrite 11 255; EvWrite 12 1;
            EvCycles 2097157; EvLatch 0; EvLatch 1; EvCycles 1048576] in
  Forall wf_event h /\
  map (fun sel => rtc_read (fold_left rtc_apply h rtc_init) sel) [8; 9; 10; 11; 12] =
  [Ok 0; Ok 0; Ok 0; Ok 0; Ok 128] /\
  r_s (fold_left rtc_apply h rtc_init) = 1.
Proof.
  split; [repeat constructor; cbn; lia|].
  cbn [fold_left rtc_apply]. rewrite !C10_advance by (vm_compute; reflexivity).
  split; vm_compute; reflexivity.
Qed.
