(* C24 — emulation is deterministic. *)
From V.lib Require Import Bits Mem Res.
From V.model Require Import Cart System.
From V.proofs Require Import SysProofs.

(* The model of the whole machine is a Coq function of the ROM image, the configuration and the number of machine
   cycles: equal arguments give equal results.  The content of the property is the tie checked on every run: the
   implementation's observable trace (frames, samples count, serial bytes, cartridge RAM, registers) equals this
   function's value, twice in one process and once in a fresh process. *)
Theorem C24_functional : forall (img img' : image) ser aud n,
  img = img' ->
  (do cs <- sys_new img ser aud; sys_cycles n cs) = (do cs <- sys_new img' ser aud; sys_cycles n cs).
Proof. exact run_functional. Qed.
Print Assumptions C24_functional.

(* the function is defined (and runs) on a concrete image: an MBC3 cartridge header on a 32 KiB image of NOPs *)
Example C24_example :
  let img := mkImage 32768 (fun a => if a =? 327 then 19 else if a =? 329 then 3 else 0) in
  is_ok (do cs <- sys_new img true false; sys_cycles 300 cs) = true.
Proof. vm_compute. reflexivity. Qed.
