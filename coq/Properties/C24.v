(* C24 — emulation is deterministic. *)
From V.lib Require Import Bits Mem Res.
From V.model Require Import Cart System.
From V.proofs Require Import SysProofs.

(* The model of the whole machine is a Coq function of the ROM image, the configuration and the number of machine
   cycles: equal arguments give equal results.  The content of the property is the tie checked on every run: the
   implementation's observable trace (frames, samples count, serial bytes, cartridge RAM, registers) equals this
   function's value, twice in one process and once in a fresh process. *)
Theorem C24_functional : forall (img img' : image) ser aud n,
  img = img' ->
  (do cs <- sys_new img ser aud; sys_cycles n cs) = (do cs <- sys_new img' ser aud; sys_cycles n cs).
Proof. exact run_functional. Qed.
Print Assumptions C24_functional.
