(* C03 — memory reads and writes happen in the documented machine cycle. *)
From V.lib Require Import Bits.
From V.model Require Import Uop Alu Cpu CpuTables.
From V.spec Require Import Sm83Spec.
From V.proofs Require Import AluProofs CpuLemmas CpuProofs CpuTiming.

(* For every bus, boundary state and defined opcode: the data accesses the model performs during the instruction
   (its ghost trace: micro-operation index, kind, address; operand fetches from PC excluded) are exactly the documented
   schedule: same accesses, same addresses, same order, each in its documented machine cycle (1-based). *)
Theorem C03_schedule :
  forall (B : Type) (brd : B -> N -> B * N) (bwr : B -> N -> N -> B) (btrig : B -> N -> B) (bcorrupt : B -> B)
         (bime : B -> bool) (bset_ime : B -> bool -> B) (bpending : B -> N) (back : B -> N -> B),
    (forall b a, btrig b a = b) -> (forall b, bcorrupt b = b) ->
  forall s b,
    starts gen_tables B bime bpending s b -> wf s -> byte_bus B brd -> defined_at B brd bset_ime s b ->
    dtrace_of (trace (fst (fst (run_instr gen_tables B brd bwr btrig bcorrupt bime bset_ime bpending back s b)))) =
    snd (fst (spec_instr B brd bwr bset_ime bime bpending (arch_of (set_eip false s)) (commit B bset_ime s b))).
Proof. exact instr_schedule. Qed.
Print Assumptions C03_schedule.

(* The documented schedules the theorem refers to, on a concrete bus-free reading (addresses symbolic in the state):
   LD A,(nn) reads in cycle 4; PUSH writes in cycles 3 and 4; INC (HL) reads in cycle 2 and writes in cycle 3. *)
Example C03_examples :
  forall (B : Type) brd bwr bset_ime bime bpending (a : arch) (b : B),
    snd (fst (sem B brd bwr bset_ime bime bpending (IPush qBC) a b)) =
      [(3, DWrite, dec16 (xsp a)); (4, DWrite, dec16 (dec16 (xsp a)))] /\
    snd (fst (sem B brd bwr bset_ime bime bpending (IInc rHLm) a b)) = [(2, DRead, xhl a); (3, DWrite, xhl a)] /\
    (exists nn, snd (fst (sem B brd bwr bset_ime bime bpending ILdANN a b)) = [(4, DRead, nn)]).
Proof. intros. repeat split. eexists. reflexivity. Qed.
