(* C26 — the frame loop steps every component once per machine cycle and stops on request. *)
From V.lib Require Import Bits Mem Res.
From V.model Require Import MapperTypes Ints Timer Cart System FrameLoop.
From V.gen Require Import GenFrame GenMapper.
From V.proofs Require Import SysProofs.

(* the loop body and bound regenerated from gameboy.go and mapper.go on this run *)
Theorem C26_order :
  frame_body = [FCpu; FPpu; FMapper; FAudio; FTimer; FTimerIrq] /\ frame_bound = 17556 /\
  mapper_end_cycle = [MTickDMA; MTickRTC].
Proof. exact frame_order. Qed.
Print Assumptions C26_order.

(* one iteration: the CPU acts first, then video, memory (DMA then clock), audio and timer advance exactly once each *)
Theorem C26_cycle : forall cs, sys_cycle cs = cycle_explicit cs.
Proof. exact sys_cycle_explicit. Qed.
Print Assumptions C26_cycle.
Theorem C26_memory_step : forall s,
  sys_mapper_end s = do s1 <- sys_mapper_step MTickDMA s; Ok (set_cart (cart_tick (s_cart s1)) s1).
Proof. exact mapper_end_explicit. Qed.
Print Assumptions C26_memory_step.

(* a frame is exactly 17,556 iterations *)
Theorem C26_frame : forall cs, sys_run_frame cs = N.iter 17556 (fun r => bind r sys_cycle) (Ok cs).
Proof. exact run_frame_iter. Qed.
Print Assumptions C26_frame.

(* the timer advances once per iteration and an overflow raises the timer interrupt request *)
Theorem C26_timer_irq : forall c s tirq,
  frame_step_run FTimer (c, s, tirq) = Ok (c, set_timer (fst (timer_tick (s_timer s))) s, snd (timer_tick (s_timer s))) /\
  (forall b, frame_step_run FTimerIrq (c, s, b) = Ok (c, (if b then set_ints (ints_request (s_ints s) 4) s else s), b)).
Proof. exact timer_irq. Qed.
Print Assumptions C26_timer_irq.
Theorem C26_timer_irq_bit : forall i, N.testbit (ifl (ints_request i 4)) 2 = true.
Proof. exact request_timer_sets_bit2. Qed.
Print Assumptions C26_timer_irq_bit.

(* Run stops: once the context is cancelled (first observed at the c-th check) no further frame starts, i.e. at most the
   frame in progress completes; when the display asks to close at the end of frame c, Run returns after exactly c
   frames; Cleanup runs exactly once. *)
Theorem C26_stop_cancel : forall fuel video c cancelled,
  first_true c cancelled -> (c <= fuel)%nat ->
  run fuel false cancelled (fun _ => false) = mkLoop c 1 /\ cleanups (run fuel video cancelled (fun _ => false)) = 1%nat.
Proof. exact run_stops_on_cancel. Qed.
Print Assumptions C26_stop_cancel.
Theorem C26_stop_close : forall fuel c closes,
  first_true c closes -> (0 < c)%nat -> (c <= fuel)%nat -> run fuel true (fun _ => false) closes = mkLoop c 1.
Proof. exact run_stops_on_close. Qed.
Print Assumptions C26_stop_close.
Print Assumptions C26_stop_cancel.

(* non-vacuity: a whole frame of a concrete machine runs, and stop conditions with a first observation exist *)
Example C26_example :
  let img := mkImage 32768 (fun a => if a =? 256 then 24 else if a =? 257 then 254 else 0) in
  (exists cs0, sys_new img true false = Ok cs0 /\ is_ok (sys_run_frame cs0) = true) /\
  first_true 3 (fun k => Nat.leb 3 k) /\ run 10 true (fun _ => false) (fun k => Nat.leb 3 k) = mkLoop 3 1.
Proof.
  split; [eexists; split; [vm_compute; reflexivity|vm_compute; reflexivity]|].
  split; [split; [reflexivity|intros k Hk; apply PeanoNat.Nat.leb_gt; exact Hk]|vm_compute; reflexivity].
Qed.
