(* C09 — cartridge RAM is gated, banked and retained per controller.
   Only statements, each closed by [exact] of a lemma proved in proofs/, with Print Assumptions. *)
From V.lib Require Import Bits Mem Res.
From V.model Require Import Rtc Cart.
From V.spec Require Import CartSpec.
From V.proofs Require Import CartLemmas CartInv CartRun CartRamProofs.

(* Refinement to the abstract banked store of CartSpec, for every image that constructs and every history
   of operations (writes of bytes to any address, reads, ticks, dumps):
   - the run does not crash;
   - every read of A000-BFFF returns what the abstract machine [ramspec_run] (driven by the same writes)
     prescribes: 0xFF while the enable register (most recent write to the enable region) is not xA; otherwise
     the cell (bank register modulo the bank count, offset) of the store - the store changes only by an
     enabled write naming the cell ([C09_retained]); [None] = an MBC3 clock register is mapped (C10);
   - the RAM dump has the length of all banks and position bank*0x2000+offset holds that cell. *)
Theorem C09_ram_refines : forall (img : image) (c0 : cart) (ops : list cop),
  cart_construct img = Ok c0 -> Forall wf_op ops ->
  exists k c,
    ctrl_of_type (img_at img 327) = Some k /\ cart_run c0 ops = Ok c /\
    let nr := spec_nram k (img_at img 329) in
    let s := ramspec_run k nr (writes_of ops) in
    (forall addr, 40960 <= addr < 49152 ->
       match ramspec_read k nr s addr with Some v => cart_read c addr = Ok v | None => True end) /\
    length (cart_dump c) = N.to_nat (dump_len k nr) /\
    (forall i, i < dump_len k nr -> nth (N.to_nat i) (cart_dump c) 0 = dump_at k s i).
Proof. exact ram_refines. Qed.
Print Assumptions C09_ram_refines.

(* Retention, on the abstract store: a write leaves every cell alone unless it goes to A000-BFFF while RAM is
   enabled, a RAM bank is mapped, and it names exactly that bank and cell.  So contents survive
   disable/enable, bank switches, ROM-bank writes and clock-register traffic. *)
Theorem C09_retained : forall k nr s a v b o,
  rs_store (ramspec_write k nr s (a, v)) b o <> rs_store s b o ->
  between 40960 49152 a = true /\ ram_enabled k (rs_hist s) = true /\
  ram_target k nr (rs_hist s) = TRam b /\ cell k a = o.
Proof. exact store_retained. Qed.
Print Assumptions C09_retained.

(* While the enable register does not hold xA the window reads 0xFF. *)
Theorem C09_disabled_ff : forall (img : image) (c0 : cart) (ops : list cop) (addr : N),
  cart_construct img = Ok c0 -> Forall wf_op ops -> 40960 <= addr < 49152 ->
  exists k c, ctrl_of_type (img_at img 327) = Some k /\ cart_run c0 ops = Ok c /\
    (ram_enabled k (writes_of ops) = false -> cart_read c addr = Ok 255).
Proof. exact disabled_ff. Qed.
Print Assumptions C09_disabled_ff.

(* MBC2: 512 half-bytes repeated across the window, upper four bits read as 1. *)
Theorem C09_mbc2_nibbles : forall (img : image) (c0 : cart) (ops : list cop) (addr addr' : N),
  cart_construct img = Ok c0 -> Forall wf_op ops ->
  ctrl_of_type (img_at img 327) = Some Mbc2 ->
  40960 <= addr < 49152 -> 40960 <= addr' < 49152 ->
  exists c v, cart_run c0 ops = Ok c /\ cart_read c addr = Ok v /\
    (ram_enabled Mbc2 (writes_of ops) = true -> 240 <= v < 256) /\
    ((addr - 40960) mod 512 = (addr' - 40960) mod 512 -> cart_read c addr' = Ok v).
Proof. exact mbc2_nibbles. Qed.
Print Assumptions C09_mbc2_nibbles.

(* A ROM-only cartridge reads 0xFF at A000-BFFF and dumps nothing, whatever was written. *)
Theorem C09_romonly_ff : forall (img : image) (c0 : cart) (ops : list cop) (addr : N),
  cart_construct img = Ok c0 -> Forall wf_op ops ->
  ctrl_of_type (img_at img 327) = Some RomOnly -> 40960 <= addr < 49152 ->
  exists c, cart_run c0 ops = Ok c /\ cart_read c addr = Ok 255 /\ cart_dump c = [].
Proof. exact romonly_ff. Qed.
Print Assumptions C09_romonly_ff.

(* Non-vacuity: MBC5 with 4 RAM banks; bank 6 aliases bank 2; contents survive disable and a bank switch. *)
Example C09_example :
  let img := mkImage 32768 (fun a => if a =? 327 then 27 else if a =? 329 then 3 else 0) in
  let ops := [CWrite 0 10; CWrite 16384 6; CWrite 40961 119; CWrite 0 0; CRead 40961; CWrite 16384 1;
              CWrite 0 26; CWrite 16384 2] in
  Forall wf_op ops /\
  exists c0 c, cart_construct img = Ok c0 /\ cart_run c0 ops = Ok c /\ cart_read c 40961 = Ok 119 /\
    ramspec_read Mbc5 4 (ramspec_run Mbc5 4 (writes_of ops)) 40961 = Some 119.
Proof.
  split; [repeat constructor; cbn; lia|].
  eexists. eexists. split; [vm_compute; reflexivity|]. split; [vm_compute; reflexivity|].
  split; vm_compute; reflexivity.
Qed.
