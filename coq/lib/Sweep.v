(* Sweep.v — boolean sweeps over initial segments of N given by an N bound (no nat-sized lists), for domains such as
   the 65,536 bus addresses. *)
From Coq Require Import NArith Bool Lia.
Open Scope N_scope.

Definition sweep_step (P : N -> bool) (st : bool * N) : bool * N := (fst st && P (snd st), N.succ (snd st)).
Definition all_below (n : N) (P : N -> bool) : bool := fst (N.iter n (sweep_step P) (true, 0)).

Lemma iter_sweep_snd P n : snd (N.iter n (sweep_step P) (true, 0)) = n.
Proof.
  induction n using N.peano_ind; [reflexivity|].
  rewrite N.iter_succ. cbn [sweep_step snd]. rewrite IHn. reflexivity.
Qed.

Lemma all_below_spec P n : all_below n P = true -> forall x, x < n -> P x = true.
Proof.
  unfold all_below. induction n using N.peano_ind; intros H x Hx; [lia|].
  rewrite N.iter_succ in H. cbn [sweep_step fst] in H. rewrite iter_sweep_snd in H.
  apply andb_prop in H. destruct H as [H1 H2].
  destruct (N.eq_dec x n) as [->|Hn]; [exact H2|]. apply IHn; [exact H1 | lia].
Qed.
