(* Bits.v — fixed-width machine arithmetic over N, and finite-sweep lifting lemmas.
   Go's uint8/uint16 wrap-around is written explicitly (mod 2^8 / 2^16). *)
From Coq Require Export NArith List Bool Lia.
From Coq Require Import ZArith ZifyN ZifyNat ZifyBool.
Export ListNotations.
Open Scope N_scope.

Ltac Zify.zify_post_hook ::= Z.div_mod_to_equations.

Definition u8 (x : N) : N := x mod 256.
Definition u16 (x : N) : N := x mod 65536.
(* wrapping subtraction at width 8 / 16 *)
Definition sub8 (x y : N) : N := (x + 256 - y mod 256) mod 256.
Definition sub16 (x y : N) : N := (x + 65536 - y mod 65536) mod 65536.
Definition add8 (x y : N) : N := (x + y) mod 256.
Definition add16 (x y : N) : N := (x + y) mod 65536.
(* x &^ m  (Go and-not) for bytes *)
Definition andnot (x m : N) : N := N.ldiff x m.
Definition bit (x i : N) : bool := N.testbit x i.
Definition b2n (b : bool) : N := if b then 1 else 0.
(* shift left within a byte *)
Definition shl8 (x k : N) : N := (N.shiftl x k) mod 256.
Definition shr (x k : N) : N := N.shiftr x k.
(* int8 reinterpretation as Z *)
Definition s8 (x : N) : Z := if 128 <=? x then (Z.of_N x - 256)%Z else Z.of_N x.

(* ---- enumerations for finite sweeps ---- *)
Fixpoint upto_aux (n : nat) (start : N) : list N :=
  match n with O => [] | S k => start :: upto_aux k (N.succ start) end.
Definition upto (n : nat) : list N := upto_aux n 0.

Lemma In_upto_aux : forall n s x, In x (upto_aux n s) <-> (s <= x /\ x < s + N.of_nat n).
Proof.
  induction n as [|n IH]; intros s x; cbn [upto_aux In].
  - split; [tauto | lia].
  - rewrite IH. lia.
Qed.

Lemma In_upto : forall n x, In x (upto n) <-> x < N.of_nat n.
Proof. intros; unfold upto; rewrite In_upto_aux; lia. Qed.

Definition bytes : list N := upto 256.
Definition nibbles : list N := upto 16.
Definition bools : list bool := [false; true].

Lemma In_bytes x : In x bytes <-> x < 256.
Proof. unfold bytes; rewrite In_upto; reflexivity. Qed.
Lemma In_nibbles x : In x nibbles <-> x < 16.
Proof. unfold nibbles; rewrite In_upto; reflexivity. Qed.
Lemma In_bools b : In b bools.
Proof. destruct b; cbn; auto. Qed.

(* sweep-lifting: a boolean check over an enumerated finite domain gives the forall *)
Lemma sweep1 {A} (l : list A) (P : A -> bool) :
  forallb P l = true -> forall x, In x l -> P x = true.
Proof. intros H x Hx; rewrite forallb_forall in H; auto. Qed.

Lemma sweep_bytes (P : N -> bool) :
  forallb P bytes = true -> forall x, x < 256 -> P x = true.
Proof. intros H x Hx; apply (sweep1 _ _ H); apply In_bytes; exact Hx. Qed.

Lemma sweep_upto n (P : N -> bool) :
  forallb P (upto n) = true -> forall x, x < N.of_nat n -> P x = true.
Proof. intros H x Hx; apply (sweep1 _ _ H); apply In_upto; exact Hx. Qed.

Lemma sweep_bool (P : bool -> bool) :
  forallb P bools = true -> forall b, P b = true.
Proof. intros H b; apply (sweep1 _ _ H); apply In_bools. Qed.

Lemma u8_lt x : u8 x < 256.
Proof. unfold u8; apply N.mod_lt; discriminate. Qed.
Lemma u16_lt x : u16 x < 65536.
Proof. unfold u16; apply N.mod_lt; discriminate. Qed.
Lemma u8_id x : x < 256 -> u8 x = x.
Proof. unfold u8; intros; apply N.mod_small; assumption. Qed.
Lemma u16_id x : x < 65536 -> u16 x = x.
Proof. unfold u16; intros; apply N.mod_small; assumption. Qed.

Lemma land_lt_pow2 x k : N.land x (N.ones k) < 2 ^ k.
Proof. rewrite N.land_ones. apply N.mod_lt. apply N.pow_nonzero. discriminate. Qed.

