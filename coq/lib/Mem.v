(* Mem.v — byte stores: finite maps from N addresses to N bytes with a default (unwritten cells read the
   default).  Interface: get / set with gss / gso.  No functional extensionality: equalities are pointwise. *)
From Coq Require Import NArith FMapPositive.
Open Scope N_scope.

Module Mem.
  Record t := mk { cells : PositiveMap.t N; dflt : N }.

  Definition empty (d : N) : t := mk (PositiveMap.empty N) d.

  Definition get (m : t) (a : N) : N :=
    match PositiveMap.find (N.succ_pos a) (cells m) with
    | Some v => v
    | None => dflt m
    end.

  Definition set (m : t) (a v : N) : t :=
    mk (PositiveMap.add (N.succ_pos a) v (cells m)) (dflt m).

  Lemma succ_pos_inj a b : N.succ_pos a = N.succ_pos b -> a = b.
  Proof.
    intros H. apply (f_equal Npos) in H. rewrite !N.succ_pos_spec in H.
    apply N.succ_inj in H. exact H.
  Qed.

  Lemma gss m a v : get (set m a v) a = v.
  Proof. unfold get, set; cbn. rewrite PositiveMap.gss. reflexivity. Qed.

  Lemma gso m a b v : a <> b -> get (set m a v) b = get m b.
  Proof.
    intros Hab. unfold get, set; cbn. rewrite PositiveMap.gso; [reflexivity|].
    intros H. apply Hab. symmetry. apply succ_pos_inj. exact H.
  Qed.

  Lemma get_empty d a : get (empty d) a = d.
  Proof. unfold get, empty; cbn. rewrite PositiveMap.gempty. reflexivity. Qed.

  Lemma gsspec m a b v : get (set m a v) b = if N.eqb a b then v else get m b.
  Proof.
    destruct (N.eqb_spec a b) as [->|Hne]; [apply gss | apply gso; exact Hne].
  Qed.
End Mem.
