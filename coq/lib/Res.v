(* Res.v — results of model steps that can crash (Go panic) or stop the process (os.Exit).
   Crashes are values, never defaults: every unguarded index / division / nil call of the Go code is a Crash.
   The crash kinds are the classes the implementation runner maps recovered panics to. *)

Inductive crash := CIndex | CNil | CDiv0 | CExplicit.

Inductive res (A : Type) : Type :=
| Ok (a : A)
| Crash (why : crash)
| Exit.
Arguments Ok {A} a.
Arguments Crash {A} why.
Arguments Exit {A}.

Definition bind {A B} (r : res A) (f : A -> res B) : res B :=
  match r with
  | Ok a => f a
  | Crash w => Crash w
  | Exit => Exit
  end.

Definition is_ok {A} (r : res A) : bool := match r with Ok _ => true | _ => false end.

Notation "'do' x <- r ; k" := (bind r (fun x => k)) (at level 200, x name, r at level 100, k at level 200).
